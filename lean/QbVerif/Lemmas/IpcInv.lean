/-
The invariant of the IPC model (property C02) and its preservation by every action.
-/
import QbVerif.Lemmas.IpcChan

namespace QbVerif.IpcLemmas
open QbVerif QbVerif.RingSpec QbVerif.Ipc QbVerif.Gen

/-- requests that have been handed to the callback (semaphore taken) but are still in the ring -/
def inflight (s : St) : Nat :=
  match s.disp with
  | some d => if d.stage = .inCb ∧ s.shmT = true then 1 else 0
  | none => 0

/-- requests the running dispatch has taken off the ring and whose notification bytes it has
    not consumed yet -/
def recvdPending (s : St) : Nat :=
  match s.disp with
  | some d => d.recvd
  | none => 0

structure Inv (s : St) : Prop where
  kReq : Chan.isShm s.req = s.shmT
  kResp : Chan.isShm s.resp = s.shmT
  kEvt : Chan.isShm s.evt = s.shmT
  reqOk : ChanOk s.req (inflight s)
  respOk : ChanOk s.resp 0
  evtOk : ChanOk s.evt 0
  reqF : s.accReq = s.delReq ++ s.req.queue.drop (inflight s)
  respF : s.accResp = s.delResp ++ s.resp.queue
  evtF : s.accEvt = s.delEvt ++ s.evt.queue
  pair : s.shmT = true → s.nbReq + (if s.cowes then 1 else 0) = s.req.queue.length + recvdPending s
  owes : s.cowes = true → s.cpend.isSome = true ∧ s.shmT = true
  cons : s.evt.queue.length = s.nbEvt + s.outstanding ∨ s.shmT = false
  sock : s.shmT = false → s.nbEvt = 0 ∧ s.outstanding = 0 ∧ s.nbReq = 0
  pout : s.pollout = decide (0 < s.outstanding)
  capE : 1 ≤ s.capEvt
  capR : 1 ≤ s.capReq

theorem inv_init (shmT : Bool) (maxMsg page : Nat) (sc : Bool) : Inv (St.init shmT maxMsg page sc) := by
  cases shmT <;>
    constructor <;> simp [St.init, Chan.isShm, ChanOk, inflight, recvdPending, Chan.queue, Fifo.init]

theorem ChanOk.le {c : Chan} {k : Nat} (h : ChanOk c k) : k ≤ c.queue.length := by
  cases c with
  | shm f => exact h.2
  | dgram q n => simp [ChanOk] at h; simp [h.2]

syntax "inv_split " ident : tactic
set_option hygiene false in
macro_rules
  | `(tactic| inv_split $h) =>
    `(tactic| obtain ⟨h1, h2, h3, h4, h5, h6, h7, h8, h9, h10, h11, h12, h13, h14, h15, h16⟩ := $h)

macro "inv_auto" : tactic =>
  `(tactic| (constructor <;> simp_all [inflight, recvdPending] <;> try omega))

theorem inv_cSendBegin {s s' : St} {m : Msg} {dg : DgRes} {o : Out} (h : Inv s)
    (hs : s.cSendBegin m dg = some (s', o)) : Inv s' := by
  unfold St.cSendBegin at hs
  split at hs
  · simp at hs
  rename_i hg
  simp at hg
  obtain ⟨hpend, -⟩ := hg
  have hcow : s.cowes = false := by
    cases hc : s.cowes with
    | false => rfl
    | true => have := (h.owes hc).1; simp [hpend] at this
  have hle := h.reqOk.le
  split at hs
  · simp at hs; obtain ⟨rfl, -⟩ := hs
    inv_split h
    inv_auto
  split at hs
  · simp at hs; obtain ⟨rfl, -⟩ := hs
    inv_split h
    inv_auto
  split at hs
  · simp at hs; obtain ⟨rfl, -⟩ := hs
    inv_split h
    inv_auto
  · rename_i ch hsend
    simp at hs; obtain ⟨rfl, -⟩ := hs
    obtain ⟨hq, hok, hk⟩ := send_ok hsend
    inv_split h
    constructor <;> simp_all [inflight, recvdPending]
    · rw [List.drop_append_of_le_length (by simpa [inflight] using hle)]
    · intro _; omega

theorem inv_cNotify {s s' : St} {o : Out} (h : Inv s) (hs : s.cNotify = some (s', o)) : Inv s' := by
  unfold St.cNotify at hs
  split at hs
  · rename_i hg
    simp at hg hs
    obtain ⟨rfl, -⟩ := hs
    have := h.owes hg.1
    inv_split h
    inv_auto
  · simp at hs

theorem inv_cSendRet {s s' : St} {o : Out} (h : Inv s) (hs : s.cSendRet = some (s', o)) : Inv s' := by
  unfold St.cSendRet at hs
  split at hs
  · simp at hs
  · split at hs
    · simp at hs
    · rename_i hc
      simp at hs hc
      obtain ⟨rfl, -⟩ := hs
      inv_split h
      inv_auto

theorem inv_cRecv {s s' : St} {cap : Nat} {o : Out} (h : Inv s) (hs : s.cRecv cap = some (s', o)) : Inv s' := by
  unfold St.cRecv at hs
  split at hs
  · simp at hs
  · rename_i ch m hr
    simp at hs
    obtain ⟨rfl, -⟩ := hs
    obtain ⟨hok, hk, hq, -, -⟩ := recv_spec hr h.respOk
    have := hq m rfl
    inv_split h
    inv_auto
  · rename_i ch e hr
    simp at hs
    obtain ⟨rfl, -⟩ := hs
    obtain ⟨hok, hk, -, hq, -⟩ := recv_spec hr h.respOk
    have := hq e rfl
    inv_split h
    inv_auto

theorem inv_cEventRecv {s s' : St} {cap : Nat} {o : Out} (h : Inv s) (hs : s.cEventRecv cap = some (s', o)) :
    Inv s' := by
  unfold St.cEventRecv at hs
  split at hs
  · simp at hs
    obtain ⟨rfl, -⟩ := hs
    exact h
  rename_i hrd
  split at hs
  · simp at hs
  · rename_i ch m hr
    simp at hs
    obtain ⟨rfl, -⟩ := hs
    obtain ⟨hok, hk, hq, -, -⟩ := recv_spec hr h.evtOk
    have := hq m rfl
    inv_split h
    constructor <;> simp_all [inflight, recvdPending, St.cliReadable]
    cases hsh : s.shmT
    · right; rfl
    · left; simp [hsh] at hrd h12 ⊢; omega
  · rename_i ch e hr
    simp at hs
    obtain ⟨rfl, -⟩ := hs
    obtain ⟨hok, hk, -, hq, -⟩ := recv_spec hr h.evtOk
    have := hq e rfl
    inv_split h
    inv_auto


/-! ### server side -/

theorem inv_resend {s : St} (h : Inv s) : Inv s.resend := by
  simp only [St.resend, St.notifySend]
  inv_split h
  split
  · constructor <;> assumption
  · split
    · inv_auto
    · split
      · rename_i hm
        split at hm
        · simp at hm; subst hm; inv_auto
        · simp at hm
      · constructor <;> assumption

theorem resend_frame (s : St) :
    s.resend.disp = s.disp ∧ s.resend.shmT = s.shmT ∧ s.resend.req = s.req ∧ s.resend.nbReq = s.nbReq ∧
    s.resend.fc = s.fc ∧ s.resend.prio = s.prio ∧ s.resend.cowes = s.cowes ∧ s.resend.cpend = s.cpend ∧
    s.resend.evt = s.evt ∧ s.resend.resp = s.resp ∧ s.resend.accReq = s.accReq ∧ s.resend.delReq = s.delReq ∧
    s.resend.accResp = s.accResp ∧ s.resend.delResp = s.delResp ∧ s.resend.accEvt = s.accEvt ∧
    s.resend.delEvt = s.delEvt ∧ s.resend.maxMsg = s.maxMsg ∧ s.resend.capEvt = s.capEvt := by
  simp only [St.resend, St.notifySend]
  split
  · simp
  · split
    · simp
    · split
      · rename_i hm
        split at hm
        · simp at hm; subst hm; simp
        · simp at hm
      · simp

theorem inv_rateLimit {s : St} (rl : RateLimit) (h : Inv s) : Inv (s.rateLimit rl) := by
  unfold St.rateLimit
  inv_split h
  inv_auto

theorem qlen_of_ok {c : Chan} (h : ChanOk c 0) : c.qlen = c.queue.length := by
  cases c with
  | shm f => simp [ChanOk] at h; simp [Chan.qlen, Chan.queue, h]
  | dgram q n => simp [ChanOk] at h; simp [Chan.qlen, Chan.queue, h]

theorem requestQLen_eq_zero {s : St} (h : s.requestQLen = 0) : s.req.qlen = 0 := by
  simp only [St.requestQLen] at h
  split at h
  · assumption
  · have : 1 ≤ IPC_MAX_RECV_MSGS := by decide
    cases hp : s.prio <;> simp [hp] at h <;> omega

theorem requestQLen_pos {s : St} (h : 0 < s.req.qlen) : 0 < s.requestQLen := by
  have := @requestQLen_eq_zero s
  omega

theorem inv_sDispBegin {s s' : St} {pin pout : Bool} {o : Out} (h : Inv s)
    (hs : s.sDispBegin pin pout = some (s', o)) : Inv s' := by
  simp only [St.sDispBegin] at hs
  split at hs
  · simp at hs
  rename_i hg
  simp at hg
  obtain ⟨⟨⟨hdisp, -⟩, hin⟩, hout⟩ := hg
  have h1 : Inv (if pout then s.resend else s) := by
    split
    · exact inv_resend h
    · exact h
  have hd1 : (if pout then s.resend else s).disp = none := by
    split
    · rw [(resend_frame s).1]; exact hdisp
    · exact hdisp
  generalize (if pout then s.resend else s) = s1 at h1 hd1 hs
  split at hs
  · simp at hs; obtain ⟨rfl, -⟩ := hs; exact h1
  split at hs
  · simp at hs; obtain ⟨rfl, -⟩ := hs; exact h1
  split at hs
  · -- the "nothing in q" branch
    simp at hs; obtain ⟨rfl, -⟩ := hs
    rename_i hq
    simp at hq
    have hz := requestQLen_eq_zero hq.2
    rw [qlen_of_ok (by simpa [inflight, hd1] using h1.reqOk)] at hz
    inv_split h1
    inv_auto
  · simp at hs; obtain ⟨rfl, -⟩ := hs
    inv_split h1
    inv_auto

theorem inv_sMsgProcess {s s' : St} {o : Out} (h : Inv s) (hs : s.sMsgProcess = some (s', o)) : Inv s' := by
  simp only [St.sMsgProcess] at hs
  split at hs
  · rename_i d hd
    split at hs
    · simp at hs
    rename_i hst
    simp at hst
    have hinf : inflight s = 0 := by simp [inflight, hd, hst]
    split at hs
    · -- ring
      rename_i f hreq
      have hsem : f.sem = some f.q.length := by
        have := h.reqOk
        rw [hinf, hreq] at this
        simpa [ChanOk] using this.1
      have hsh : s.shmT = true := by have := h.kReq; rw [hreq] at this; simpa [Chan.isShm] using this.symm
      rcases peek_spec f hsem with ⟨hq, hp⟩ | ⟨m, rest, hq, hp⟩
      · rw [hp] at hs
        simp at hs
        obtain ⟨rfl, -⟩ := hs
        inv_split h
        constructor <;> simp_all [inflight, recvdPending]
      · rw [hp] at hs
        simp at hs
        obtain ⟨rfl, -⟩ := hs
        inv_split h
        constructor <;> simp_all [inflight, recvdPending]
    · -- datagram socket
      rename_i q sent hreq
      have hsh : s.shmT = false := by have := h.kReq; rw [hreq] at this; simpa [Chan.isShm] using this.symm
      split at hs
      · simp at hs
        obtain ⟨rfl, -⟩ := hs
        inv_split h
        constructor <;> simp_all [inflight, recvdPending]
      · simp at hs
        obtain ⟨rfl, -⟩ := hs
        inv_split h
        constructor <;> simp_all [inflight, recvdPending]
  · simp at hs

theorem inv_sMsgProcessResult {s s' : St} {b : Bool} {o : Out} (h : Inv s)
    (hs : s.sMsgProcessResult b = some (s', o)) : Inv s' := by
  simp only [St.sMsgProcessResult] at hs
  split at hs
  · rename_i d hd
    split at hs
    · simp at hs
    rename_i hst
    simp at hst
    simp at hs
    obtain ⟨rfl, -⟩ := hs
    cases hreq : s.req with
    | shm f =>
      have hsh : s.shmT = true := by have := h.kReq; rw [hreq] at this; simpa [Chan.isShm] using this.symm
      have hinf : inflight s = 1 := by simp [inflight, hd, hst, hsh]
      have hok := h.reqOk
      rw [hinf, hreq] at hok
      simp only [ChanOk] at hok
      obtain ⟨hsem, hlen⟩ := hok
      have hF := h.reqF
      have hP := h.pair hsh
      rw [hinf] at hF
      inv_split h
      constructor <;> simp_all [inflight, recvdPending, reclaim_spec]
      all_goals (try split)
      all_goals (try simp_all)
      all_goals (try omega)
    | dgram q sent =>
      have hsh : s.shmT = false := by have := h.kReq; rw [hreq] at this; simpa [Chan.isShm] using this.symm
      inv_split h
      constructor <;> simp_all [inflight, recvdPending]
  · simp at hs

end QbVerif.IpcLemmas
