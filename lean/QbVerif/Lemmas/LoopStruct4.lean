/-
C08: the structural invariant, part 4 — the timer group under expire_the_timers (never aborts: the heads of
the timer list are ACTIVE), the atomic begin of a dispatch round (unlink + assert + check = 0) and its end
(state = EMPTY, `todo--`).  Core Lean only.
-/
import QbVerif.Lemmas.LoopStruct3

namespace QbVerif.Loop
open QbVerif.Gen

def timerIdx : Item → Option Nat
  | .timer i => some i
  | _ => none

def fdIdx : Item → Option Nat
  | .fd i => some i
  | _ => none

/-- what a step of the timer machinery leaves alone -/
structure FrX (s s' : St) : Prop where
  pes : s'.pes = s.pes
  ep : s'.ep = s.ep
  wlo : s'.lo.wait = s.lo.wait
  wme : s'.me.wait = s.me.wait
  whi : s'.hi.wait = s.hi.wait
  fault : s'.fault = s.fault
  cfg : s'.cfg = s.cfg
  fdc : ∀ k, s'.cnt (.fd k) = s.cnt (.fd k)

theorem FrX.refl (s : St) : FrX s s := ⟨rfl, rfl, rfl, rfl, rfl, rfl, rfl, fun _ => rfl⟩
theorem FrX.trans {a b c : St} (h1 : FrX a b) (h2 : FrX b c) : FrX a c :=
  ⟨h2.pes.trans h1.pes, h2.ep.trans h1.ep, h2.wlo.trans h1.wlo, h2.wme.trans h1.wme, h2.whi.trans h1.whi,
   h2.fault.trans h1.fault, h2.cfg.trans h1.cfg, fun k => (h2.fdc k).trans (h1.fdc k)⟩

theorem itemAdd_wait (s : St) (p : Nat) (it : Item) :
    (s.itemAdd p it).lo.wait = s.lo.wait ∧ (s.itemAdd p it).me.wait = s.me.wait ∧ (s.itemAdd p it).hi.wait = s.hi.wait := by
  unfold St.itemAdd
  refine ⟨?_, ?_, ?_⟩
  · rw [setLv_lo]; split
    · rename_i h; simp [St.lv, h]
    · rfl
  · rw [setLv_me]; split
    · rfl
    · split
      · rename_i h0 h1
        have hml : QB_LOOP_MED ≠ QB_LOOP_LOW := by decide
        simp [St.lv, h1, hml]
      · rfl
  · rw [setLv_hi]; split
    · rfl
    · split
      · rfl
      · rename_i h0 h1; simp [St.lv, h0, h1]

/-- one expired head of the timer list is queued -/
theorem TG.expireOne {s : St} (h : TG none s) (e i : Nat) (rest : List (Nat × Nat)) (htl : s.tl = (e, i) :: rest) :
    let s3 := (({ s with tl := rest } : St).itemAdd (s.timerSlot i).prio (.timer i)).setTimer i
      { s.timerSlot i with state := .joblist, hasTl := false }
    TG none s3 ∧ FrX s s3 := by
  intro s3
  have hact : (s.timerSlot i).state = .active := h.tlAct (e, i) (by rw [htl]; exact List.mem_cons_self)
  have hlt : i < s.timers.length := timerSlot_lt (by rw [hact]; simp)
  have hnd := h.tlNd; rw [htl] at hnd
  have hi_rest : i ∉ rest.map Prod.snd := (List.nodup_cons.1 hnd).1
  have hslot : ∀ k, s3.timerSlot k = if k = i then { s.timerSlot i with state := .joblist, hasTl := false } else s.timerSlot k := by
    intro k
    show ((({ s with tl := rest } : St).itemAdd _ _).setTimer i _).timerSlot k = _
    rw [timerSlot_setTimer_le _ _ _ _ (by simpa using Nat.le_of_lt hlt)]
    split
    · rfl
    · unfold St.timerSlot; simp
  have hcnt : ∀ x, s3.cnt x = s.cnt x + (if Item.timer i = x then 1 else 0) := by
    intro x
    show ((({ s with tl := rest } : St).itemAdd _ _).setTimer i _).cnt x = _
    rw [cnt_congr (b := ({ s with tl := rest } : St).itemAdd (s.timerSlot i).prio (.timer i)) (by simp) (by simp) (by simp), cnt_itemAdd]
    rfl
  have hc0 : s.cnt (.timer i) = 0 := by
    rcases Nat.eq_zero_or_pos (s.cnt (.timer i)) with h0 | hp
    · exact h0
    · have := (h.qJob i hp).1; rw [hact] at this; cases this
  have htl3 : s3.tl = rest := by show ((({ s with tl := rest } : St).itemAdd _ _).setTimer i _).tl = _; simp
  have hth3 : s3.th = s.th := by show ((({ s with tl := rest } : St).itemAdd _ _).setTimer i _).th = _; simp
  constructor
  · refine ⟨?_, by rw [htl3]; exact (List.nodup_cons.1 hnd).2, ?_, ?_, (fun _ hh => nomatch hh),
      by rw [hth3]; exact h.hnd, ?_, ?_, ?_⟩
    · intro x hx
      rw [htl3] at hx
      rw [hslot]
      have : x.2 ≠ i := fun e => hi_rest (e ▸ List.mem_map_of_mem hx)
      simp only [this, if_false]
      exact h.tlAct x (by rw [htl]; exact List.mem_cons_of_mem _ hx)
    · intro k hk
      rw [hslot]
      split
      · exact ⟨rfl, fun hh => by cases hh⟩
      · rename_i hne
        rw [hcnt] at hk
        have : Item.timer i ≠ Item.timer k := fun e => hne (by injection e with e; exact e.symm)
        simp only [this, if_false, Nat.add_zero] at hk
        exact h.qJob k hk
    · intro k
      rw [hcnt]
      by_cases hk : k = i
      · subst hk; simp [hc0]
      · have : Item.timer i ≠ Item.timer k := fun e => hk (by injection e with e; exact e.symm)
        simp only [this, if_false, Nat.add_zero]; exact h.qNd k
    · intro k; rw [hslot]; split
      · simp
      · exact h.notDel k
    · intro k; rw [hslot]; split
      · intro hh; cases hh
      · exact h.actTl k
    · intro k; rw [hslot]; split
      · rename_i hk; intro _ _; exact h.nz i (by rw [hact]; simp) (fun hh => by cases hh)
      · exact h.nz k
  · have hw := itemAdd_wait ({ s with tl := rest } : St) (s.timerSlot i).prio (.timer i)
    refine ⟨?_, ?_, ?_, ?_, ?_, ?_, ?_, ?_⟩
    · show ((({ s with tl := rest } : St).itemAdd _ _).setTimer i _).pes = _; simp
    · show ((({ s with tl := rest } : St).itemAdd _ _).setTimer i _).ep = _; simp
    · show ((({ s with tl := rest } : St).itemAdd _ _).setTimer i _).lo.wait = _; rw [setTimer_lo]; exact hw.1
    · show ((({ s with tl := rest } : St).itemAdd _ _).setTimer i _).me.wait = _; rw [setTimer_me]; exact hw.2.1
    · show ((({ s with tl := rest } : St).itemAdd _ _).setTimer i _).hi.wait = _; rw [setTimer_hi]; exact hw.2.2
    · show ((({ s with tl := rest } : St).itemAdd _ _).setTimer i _).fault = _; simp
    · show ((({ s with tl := rest } : St).itemAdd _ _).setTimer i _).cfg = _; simp
    · intro k; rw [hcnt]; simp

/-- `expire_the_timers` -/
theorem TG.timerPollAux (n : Nat) {s : St} (k : Int) (h : TG none s) :
    TG none (St.timerPollAux n s k).1 ∧ FrX s (St.timerPollAux n s k).1 := by
  induction n generalizing s k with
  | zero => exact ⟨h, FrX.refl s⟩
  | succ n ih =>
    rw [St.timerPollAux]
    split
    · exact ⟨h, FrX.refl s⟩
    · rename_i e i rest htl
      split
      · have hact : (s.timerSlot i).state = .active := h.tlAct (e, i) (by rw [htl]; exact List.mem_cons_self)
        have h1 := h.expireOne e i rest htl
        dsimp only at h1 ⊢
        have hcond : ((s.timerSlot i).state != EState.active && s.fault.isNone) = false := by rw [hact]; rfl
        simp only [hcond, Bool.false_eq_true, if_false]
        have h2 := ih (k + 1) h1.1
        exact ⟨h2.1, h1.2.trans h2.2⟩
      · exact ⟨h, FrX.refl s⟩

/-! ### one dispatch round -/

theorem popped_timers (s : St) (p : Nat) (it : Item) (rest : List Item) :
    (s.popped p it rest).timers = s.timers ∧ (s.popped p it rest).tl = s.tl ∧ (s.popped p it rest).th = s.th := by
  unfold St.popped; simp

/-- begin: unlink the head, `assert(state == JOBLIST)`, `check = 0` -/
theorem TG.begin {s : St} (h : TG none s) (p : Nat) (it : Item) (rest : List Item) (hj : (s.lv p).jobs = it :: rest) :
    TG (timerIdx it) ((s.popped p it rest).pre it) := by
  have hpt := popped_timers s p it rest
  have hle : ∀ x, (s.popped p it rest).cnt x ≤ s.cnt x := fun x => by have := cnt_pop s p it rest hj x; omega
  have h0 : TG none (s.popped p it rest) := h.frame' hpt.1 hpt.2.1 hpt.2.2 (fun k => hle _)
  cases it with
  | job a d => exact h0
  | sig c r sg d => exact h0
  | fd i =>
    show TG none ((s.popped p (.fd i) rest).abortUnless _)
    unfold St.abortUnless; split
    · exact h0.frame' rfl rfl rfl (fun _ => Nat.le_refl _)
    · exact h0
  | timer i =>
    have hpos : 0 < s.cnt (.timer i) := by have := cnt_pop s p (.timer i) rest hj (.timer i); simp at this; omega
    have hc0 : (s.popped p (.timer i) rest).cnt (.timer i) = 0 := by
      have := cnt_pop s p (.timer i) rest hj (.timer i); have := h.qNd i; simp at *; omega
    have hst : (s.timerSlot i).state = .joblist := (h.qJob i hpos).1
    have hslot0 : ∀ k, (s.popped p (.timer i) rest).timerSlot k = s.timerSlot k := fun k => by unfold St.timerSlot; rw [hpt.1]
    have hab : (s.popped p (.timer i) rest).abortUnless (((s.popped p (.timer i) rest).timerSlot i).state == .joblist)
        = s.popped p (.timer i) rest := by
      unfold St.abortUnless; rw [hslot0, hst]; rfl
    show TG (some i) (((s.popped p (.timer i) rest).abortUnless _).setTimer i _)
    rw [hab, hslot0]
    generalize s.popped p (.timer i) rest = s1 at h0 hc0 hslot0
    have hlt : i < s1.timers.length := timerSlot_lt (by rw [hslot0, hst]; simp)
    have hslot : ∀ k, (s1.setTimer i { s.timerSlot i with check := 0 }).timerSlot k =
        if k = i then { s.timerSlot i with check := 0 } else s1.timerSlot k :=
      fun k => timerSlot_setTimer_le _ _ _ _ (Nat.le_of_lt hlt)
    have hcnt : ∀ x, (s1.setTimer i { s.timerSlot i with check := 0 }).cnt x = s1.cnt x :=
      fun x => cnt_congr (by simp) (by simp) (by simp) x
    refine ⟨?_, by simpa using h0.tlNd, ?_, ?_, ?_, by simpa using h0.hnd, ?_, ?_, ?_⟩
    · intro e he
      have he' : e ∈ s1.tl := by simpa using he
      have ha := h0.tlAct e he'
      rw [hslot]
      have : e.2 ≠ i := by intro hh; rw [hh, hslot0, hst] at ha; cases ha
      simp only [this, if_false]; exact ha
    · intro k hk
      rw [hcnt] at hk
      have : k ≠ i := by intro hh; subst hh; rw [hc0] at hk; cases hk
      rw [hslot]; simp only [this, if_false]
      exact ⟨(h0.qJob k hk).1, fun hh => this (by injection hh with hh; exact hh.symm)⟩
    · intro k; rw [hcnt]; exact h0.qNd k
    · intro k hk
      have : k = i := by injection hk with hk; exact hk.symm
      subst this
      rw [hslot]; simp only [if_true]; exact ⟨hst, trivial⟩
    · intro k; rw [hslot]; split
      · show (s.timerSlot i).state ≠ _; rw [hst]; simp
      · exact h0.notDel k
    · intro k; rw [hslot]; split
      · show (s.timerSlot i).state = _ → _; rw [hst]; intro hh; cases hh
      · exact h0.actTl k
    · intro k; rw [hslot]; split
      · rename_i hk; intro _ hne; exact absurd (by rw [hk]) hne
      · intro h1 _; exact h0.nz k h1 (fun hh => by cases hh)

/-- end of `timer_dispatch`: the slot in flight becomes EMPTY -/
theorem TG.finishTimer {s : St} {i : Nat} (h : TG (some i) s) :
    TG none (s.setTimer i { s.timerSlot i with state := .empty }) := by
  have hst := (h.fly i rfl).1
  have hlt : i < s.timers.length := timerSlot_lt (by rw [hst]; simp)
  have hslot : ∀ k, (s.setTimer i { s.timerSlot i with state := .empty }).timerSlot k =
      if k = i then { s.timerSlot i with state := .empty } else s.timerSlot k :=
    fun k => timerSlot_setTimer_le _ _ _ _ (Nat.le_of_lt hlt)
  have hcnt : ∀ x, (s.setTimer i { s.timerSlot i with state := .empty }).cnt x = s.cnt x :=
    fun x => cnt_congr (by simp) (by simp) (by simp) x
  refine ⟨?_, by simpa using h.tlNd, ?_, ?_, (fun _ hh => nomatch hh), by simpa using h.hnd, ?_, ?_, ?_⟩
  · intro e he
    have he' : e ∈ s.tl := by simpa using he
    have ha := h.tlAct e he'
    rw [hslot]
    have : e.2 ≠ i := by intro hh; rw [hh, hst] at ha; cases ha
    simp only [this, if_false]; exact ha
  · intro k hk
    rw [hcnt] at hk
    have hq := h.qJob k hk
    have : k ≠ i := fun hh => hq.2 (by rw [hh])
    rw [hslot]; simp only [this, if_false]
    exact ⟨hq.1, fun hh => by cases hh⟩
  · intro k; rw [hcnt]; exact h.qNd k
  · intro k; rw [hslot]; split
    · simp
    · exact h.notDel k
  · intro k; rw [hslot]; split
    · intro hh; cases hh
    · exact h.actTl k
  · intro k; rw [hslot]; split
    · intro hh; exact absurd rfl hh
    · rename_i hk; intro h1 _; exact h.nz k h1 (fun hh => hk (by injection hh with hh; exact hh.symm))

end QbVerif.Loop
