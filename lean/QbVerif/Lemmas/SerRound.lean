/-
Round trip (C14), whole functions: `serialize` on a well-typed item list whose record fits
`max_len` produces `recordOf items`; `deserialize` on such a record (followed by anything) whose
text fits `str_len` produces `printfRec render items`; `printfRec = printfSpec` when the rendering
function treats a `%.Ns` argument like its first N bytes (`StrPrecOk`).  With the marker QB_XC
in the literal text (not as last character) the record and the text are those of `xcItems`.
-/
import QbVerif.Lemmas.SerRoundXc

namespace QbVerif.Ser
open QbVerif.Gen

/-! ### the encoder -/

theorem fmtOf_xcItems_noMarker (items : List Item) (hwf : WellTyped items) (hx : NoMarker items) :
    fmtOf (xcItems items) = fmtOf items := by
  rw [fmtOf_xcItems items hwf, List.set_eq_of_length_le]
  rw [findIdx_not_mem _ _ hx]
  exact Nat.le_refl _

theorem noMarker_not_last (items : List Item) (hx : NoMarker items) :
    (fmtOf items).findIdx (· = QB_XC.toUInt8) + 1 ≠ (fmtOf items).length := by
  rw [findIdx_not_mem _ _ hx]; omega

/-- after `my_strlcpy(serialize, fmt, max_len)` and the (absent) marker: format and NUL are stored -/
theorem serInit_sync (items : List Item) (maxLen : Nat) (hwf : WellTyped items) (hx : NoMarker items)
    (hfit : (fmtOf items).length + 1 ≤ maxLen) :
    SerSync (serInit R (fmtOf items) (argsOf items) maxLen) (fmtOf items ++ [0]) (argsOf items) := by
  have := serInit_sync_xc items maxLen hwf hfit (noMarker_not_last items hx)
  rwa [fmtOf_xcItems_noMarker items hwf hx] at this

/-- **`qb_vsnprintf_serialize` on a well-typed format whose record fits** (marker absent, or present
    and not the last character): returns the record length; the record is the format with the
    marker shown as '|', a NUL, and the arguments in order -/
theorem serialize_items_xc (items : List Item) (maxLen : Nat) (hwf : WellTyped items)
    (hnl : (fmtOf items).findIdx (· = QB_XC.toUInt8) + 1 ≠ (fmtOf items).length)
    (hfit : (recordOf items).length ≤ maxLen) :
    (serialize R (fmtOf items) (argsOf items) maxLen).ret = (recordOf items).length ∧
    (serialize R (fmtOf items) (argsOf items) maxLen).bytes = recordOf (xcItems items) := by
  have hc : cstr (fmtOf items) = fmtOf items := cstr_self _ (fmt_no_zero items hwf)
  have hl : (fmtOf (xcItems items)).length = (fmtOf items).length := by
    rw [fmtOf_xcItems items hwf, List.length_set]
  unfold recordOf at hfit ⊢
  rw [encOf_xcItems]
  simp only [List.length_append, List.length_singleton] at hfit
  have hinit := serInit_sync_xc items maxLen hwf (by omega) hnl
  obtain ⟨s', e, hs'⟩ := serRun_items maxLen items _ (fmtOf (xcItems items) ++ [0]) [] [] (by simpa using hinit) hwf
    (by simp only [List.length_append, List.length_singleton, hl]; omega)
  unfold serialize
  rw [hc]
  rw [List.append_nil] at e
  rw [e]
  simp only [serRun, serFinal, hs'.ret, Option.getD_none, hs'.loc, hs'.data]
  have hn : min ((fmtOf items).length + ((encOf items).length + 1)) maxLen =
      (fmtOf items).length + ((encOf items).length + 1) := by omega
  have htk : (fmtOf (xcItems items) ++ 0 :: encOf items).take ((fmtOf items).length + ((encOf items).length + 1)) =
      fmtOf (xcItems items) ++ 0 :: encOf items :=
    List.take_of_length_le (by simp only [List.length_append, List.length_cons, hl]; omega)
  simp [hn, htk, hl]

theorem serialize_items (items : List Item) (maxLen : Nat) (hwf : WellTyped items) (hx : NoMarker items)
    (hfit : (recordOf items).length ≤ maxLen) :
    (serialize R (fmtOf items) (argsOf items) maxLen).ret = (recordOf items).length ∧
    (serialize R (fmtOf items) (argsOf items) maxLen).bytes = recordOf items := by
  have := serialize_items_xc items maxLen hwf (noMarker_not_last items hx) hfit
  unfold recordOf at this ⊢
  rwa [fmtOf_xcItems_noMarker items hwf hx, encOf_xcItems] at this

/-! ### the decoder -/

/-- the decoder's state when its loop starts (`string[0] = '\0'`, `data_pos = strlen(buf) + 1`) -/
def deInit (rec : Bytes) (strLen : Nat) : DeSt :=
  { loc := 0, dpos := (cstr rec).length + 1, buf := (Buf.mk (List.replicate strLen FILL) 0).store 0 [0],
    run := [], mini := [], tl := false, tll := false, inDir := false, oob := false, ret := none }

theorem deserialize_eq (cfg : Cfg) (render : Render) (rec : Bytes) (strLen : Nat) :
    deserialize cfg render rec strLen = deFinish cfg strLen (deRun cfg render rec strLen (deInit rec strLen) (cstr rec)) :=
  rfl

theorem record_cstr (items : List Item) (X : Bytes) (hwf : WellTyped items) :
    cstr (recordOf items ++ X) = fmtOf items := by
  unfold recordOf
  simp only [List.append_assoc, List.singleton_append]
  exact cstr_append_zero _ _ (fmt_no_zero items hwf)

theorem deInit_sync (items : List Item) (X : Bytes) (strLen : Nat) (hwf : WellTyped items) (hs : 1 ≤ strLen) :
    DeSync strLen (deInit (recordOf items ++ X) strLen) [] [] ((fmtOf items).length + 1) := by
  have hst := Buf.store_take (Buf.mk (List.replicate strLen FILL) 0) 0 [0]
    (by simp only [List.length_singleton, List.length_replicate]; omega)
  unfold deInit
  rw [record_cstr items X hwf]
  exact ⟨rfl, rfl, rfl, rfl, rfl, by simpa using hst.2, by simpa using hst.1⟩

theorem record_drop (items : List Item) (X : Bytes) :
    (recordOf items ++ X).drop ((fmtOf items).length + 1) = encOf items ++ X := by
  have := drop_after (recordOf items ++ X) (fmtOf items ++ [0]) (encOf items ++ X) 0
    (by simp [recordOf, List.append_assoc])
  simpa using this

section
variable (render : Render) (strLen : Nat)

/-- the terminating NUL of the stored format: `my_strlcat` appends the pending literal text -/
theorem deFinish_sync (s : DeSt) (T run : Bytes) (D : Nat) (h : DeSync strLen s T run D)
    (hT : (0 : UInt8) ∉ T) (hr : (0 : UInt8) ∉ run) (hfit : (T ++ run).length < strLen) :
    (deFinish R strLen s).text = T ++ run ∧ (deFinish R strLen s).ret = (T ++ run).length + 1 := by
  simp only [List.length_append] at hfit
  have hdata : s.buf.data = T ++ 0 :: s.buf.data.drop (T.length + 1) := by
    have := List.take_append_drop (T.length + 1) s.buf.data
    rw [h.data] at this
    simpa using this.symm
  have hcur : s.buf.data.findIdx (· = 0) = T.length := by
    rw [hdata]; exact findIdx_zero _ _ hT
  have hlt : ¬ (T.length ≥ s.buf.data.length) := by rw [h.len]; omega
  have hsz : subSz strLen T.length = strLen - T.length := subSz_of_le (by omega)
  have h1 : subSz strLen 1 = strLen - 1 := subSz_of_le (by omega)
  have hne : ¬ (strLen - T.length = 0) := by omega
  have hmin : min (strLen - T.length - 1) run.length = run.length := by omega
  have hmin2 : min (T.length + run.length) (strLen - 1) = T.length + run.length := by omega
  have hst := Buf.store_take s.buf T.length (run ++ [0])
    (by simp only [List.length_append, List.length_singleton]; rw [h.len]; omega)
  have hT' := take_of_take_succ _ _ _ h.data
  have hb : (s.buf.store T.length (run ++ [0])).data =
      (T ++ run) ++ 0 :: (s.buf.store T.length (run ++ [0])).data.drop (T.length + (run ++ [0]).length) := by
    have := List.take_append_drop (T.length + (run ++ [0]).length) (s.buf.store T.length (run ++ [0])).data
    rw [hst.1, hT'] at this
    simpa using this.symm
  have hcs : cstr (s.buf.store T.length (run ++ [0])).data = T ++ run := by
    rw [hb]
    exact cstr_append_zero _ _ (by simp only [List.mem_append, not_or]; exact ⟨hT, hr⟩)
  unfold deFinish
  simp only [h.ret, h.dir, Bool.false_eq_true, if_false, hcur, hlt, hsz, h1, hne, h.run, hmin,
    List.take_length, hmin2, DeSt.result, hcs, List.length_append, and_self]

/-- **`qb_vsnprintf_deserialize` on the record of a well-typed format** (followed by anything):
    the text is `printfRec`, the return value its length + 1 -/
theorem deserialize_items (items : List Item) (X : Bytes) (hwf : WellTyped items) (hmf : MiniFits items)
    (hnn : (0 : UInt8) ∉ printfRec render items) (hfit : (printfRec render items).length < strLen) :
    (deserialize R render (recordOf items ++ X) strLen).text = printfRec render items ∧
    (deserialize R render (recordOf items ++ X) strLen).ret = (printfRec render items).length + 1 := by
  have h0 := deInit_sync items X strLen hwf (by omega)
  obtain ⟨s', T', run', e, hs', ht⟩ := deRun_items render (recordOf items ++ X) strLen items _ [] []
    ((fmtOf items).length + 1) X [] h0 hwf hmf (record_drop items X) (by simpa using hfit)
  rw [deserialize_eq, record_cstr items X hwf]
  rw [List.append_nil] at e
  rw [e]
  simp only [List.nil_append] at ht
  have hz : (0 : UInt8) ∉ T' ++ run' := by rw [ht]; exact hnn
  simp only [List.mem_append, not_or] at hz
  have := deFinish_sync strLen s' T' run' _ hs' hz.1 hz.2 (by rw [ht]; exact hfit)
  rwa [ht] at this

end

/-! ### `%s` with a literal precision -/

/-- the rendering function prints a `%.Ns` conversion of a string like that of its first N bytes
    (which is all the encoder keeps of it) -/
def StrPrecOk (render : Render) (items : List Item) : Prop :=
  ∀ d w p v, Item.dir d w p v ∈ items → classify d.conv = .strc →
    render (d.mini w p) (.str (storedStr d v)) = render (d.mini w p) (.str (strOf v))

theorem strPrecOk_xcItems (render : Render) (items : List Item) (h : StrPrecOk render items) :
    StrPrecOk render (xcItems items) :=
  fun d w p v hm hc => h d w p v (dir_mem_xcItems items d w p v hm) hc

theorem printfRec_eq (render : Render) (items : List Item) (h : StrPrecOk render items) :
    printfRec render items = printfSpec render items := by
  unfold printfRec printfSpec
  induction items with
  | nil => rfl
  | cons i items ih =>
    simp only [List.flatMap_cons]
    rw [ih (fun d w p v hm => h d w p v (by simp [hm]))]
    congr 1
    cases i with
    | lit bs => rfl
    | pct => rfl
    | dir d w p v =>
      simp only [itemText, dargRec]
      cases hcls : classify d.conv <;> simp only [dargOf, hcls]
      exact h d w p v (by simp) hcls

/-! ### decidable forms of the hypotheses (for concrete instances) -/

def miniFitsB (items : List Item) : Bool :=
  items.all fun
    | .dir d w p _ => decide (d.miniNeed w p + 2 ≤ MINI_FORMAT_STR_LEN)
    | _ => true

theorem miniFits_of_B (items : List Item) (h : miniFitsB items = true) : MiniFits items := by
  intro i hi d w p v he
  unfold miniFitsB at h
  have := List.all_eq_true.mp h i hi
  subst he
  simpa using this

def strPrecOkB (render : Render) (items : List Item) : Bool :=
  items.all fun
    | .dir d w p v => render (d.mini w p) (.str (storedStr d v)) == render (d.mini w p) (.str (strOf v))
    | _ => true

theorem strPrecOk_of_B (render : Render) (items : List Item) (h : strPrecOkB render items = true) :
    StrPrecOk render items := by
  intro d w p v hm _
  unfold strPrecOkB at h
  have := List.all_eq_true.mp h _ hm
  simpa using this

/-! ### alignment -/

theorem fmtOf_append (a b : List Item) : fmtOf (a ++ b) = fmtOf a ++ fmtOf b := by simp [fmtOf]
theorem argsOf_append (a b : List Item) : argsOf (a ++ b) = argsOf a ++ argsOf b := by simp [argsOf]
theorem encOf_append (a b : List Item) : encOf (a ++ b) = encOf a ++ encOf b := by simp [encOf]
theorem printfRec_append (render : Render) (a b : List Item) :
    printfRec render (a ++ b) = printfRec render a ++ printfRec render b := by simp [printfRec]

/-- **alignment**: split a format anywhere between two items.  When the encoder has consumed the
    first part, `location` is the offset behind the arguments of the first part; when the decoder
    has consumed the same part of the stored format, `data_pos` is that same offset, and the bytes
    there are the stored arguments of the second part. -/
theorem alignment_items (render : Render) (pre post : List Item) (X : Bytes) (maxLen strLen : Nat)
    (hwf : WellTyped (pre ++ post)) (hx : NoMarker (pre ++ post)) (hmf : MiniFits (pre ++ post))
    (hrec : (recordOf (pre ++ post)).length ≤ maxLen)
    (htext : (printfRec render (pre ++ post)).length < strLen) :
    ∃ se sd T run,
      serRun R maxLen (serInit R (fmtOf (pre ++ post)) (argsOf (pre ++ post)) maxLen) (fmtOf (pre ++ post)) =
        serRun R maxLen se (fmtOf post) ∧
      deRun R render (recordOf (pre ++ post) ++ X) strLen (deInit (recordOf (pre ++ post) ++ X) strLen)
          (fmtOf (pre ++ post)) =
        deRun R render (recordOf (pre ++ post) ++ X) strLen sd (fmtOf post) ∧
      SerSync se (fmtOf (pre ++ post) ++ [0] ++ encOf pre) (argsOf post) ∧
      DeSync strLen sd T run ((fmtOf (pre ++ post) ++ [0] ++ encOf pre).length) ∧
      T ++ run = printfRec render pre ∧
      (recordOf (pre ++ post) ++ X).drop (fmtOf (pre ++ post) ++ [0] ++ encOf pre).length = encOf post ++ X := by
  have hwp : WellTyped pre := fun i hi => hwf i (by simp [hi])
  have hmp : MiniFits pre := fun i hi => hmf i (by simp [hi])
  have hrec' := hrec
  unfold recordOf at hrec'
  simp only [List.length_append, List.length_singleton, encOf_append] at hrec'
  have hinit := serInit_sync (pre ++ post) maxLen hwf hx (by omega)
  rw [argsOf_append] at hinit
  obtain ⟨se, e1, hse⟩ := serRun_items maxLen pre _ (fmtOf (pre ++ post) ++ [0]) (argsOf post) (fmtOf post) hinit hwp
    (by simp only [List.length_append, List.length_singleton]; omega)
  have h0 := deInit_sync (pre ++ post) X strLen hwf (by omega)
  have hd := record_drop (pre ++ post) X
  rw [encOf_append, List.append_assoc] at hd
  rw [printfRec_append, List.length_append] at htext
  obtain ⟨sd, T, run, e2, hsd, ht⟩ := deRun_items render (recordOf (pre ++ post) ++ X) strLen pre _ [] []
    ((fmtOf (pre ++ post)).length + 1) (encOf post ++ X) (fmtOf post) h0 hwp hmp hd
    (by simp only [List.nil_append, List.length_nil, Nat.zero_add]; omega)
  have hoff : (fmtOf (pre ++ post) ++ [0] ++ encOf pre).length = (fmtOf (pre ++ post)).length + 1 + (encOf pre).length := by
    simp only [List.length_append, List.length_singleton]
  refine ⟨se, sd, T, run, by simpa only [fmtOf_append, argsOf_append] using e1,
    by simpa only [fmtOf_append] using e2, hse, ?_, by simpa using ht, ?_⟩
  · rw [hoff]; exact hsd
  · rw [hoff]; exact drop_after _ _ _ _ hd

end QbVerif.Ser
