/-
Hashtable model: the loop of `qb_map_foreach` — `foreach_eq`.
-/
import QbVerif.Lemmas.HtForeach

namespace QbVerif.Hashtable
open QbVerif.Map
set_option linter.unusedSimpArgs false

/-- what `HT.foreach` does with the outcome of its loop -/
def post (r : HT × List Event × List (Key × Val) × Option Res) : HT × Out :=
  match r.2.2.2 with
  | some .uaf => (r.1, ⟨r.2.1, .uaf⟩)
  | some .diverge => (r.1, ⟨r.2.1, .diverge⟩)
  | oc =>
    match r.1.iterFree 0 with
    | some (t2, e2, .ok) => (t2, ⟨r.2.1 ++ e2, .visited r.2.2.1 oc.isNone⟩)
    | some (t2, e2, r2) => (t2, ⟨r.2.1 ++ e2, r2⟩)
    | none => (r.1, ⟨r.2.1, .diverge⟩)

theorem foreach_post (t : HT) (stop : Nat) :
    t.foreach stop = post (HT.foreachLoop (t.flat.length + 1) (t.iterCreate 0) stop [] []) := rfl

/-- the pairs a traversal that stops at the `stop`-th callback hands out -/
def takeStop (stop : Nat) (l : List (Key × Val)) : List (Key × Val) := if stop = 0 then l else l.take stop

theorem deref_parked {t : HT} (w : WF t) {p b : Nat} (hv : fvalid t (some (p, b))) :
    (fstate t (some (p, b))).nodeDeref p = some ((fstate t (some (p, b))).mapNode p decRc, []) ∧
    ((fstate t (some (p, b))).mapNode p decRc).buckets = t.buckets := by
  obtain ⟨np, hnp, hid⟩ := hv
  have hnpf : np ∈ t.flat := mem_flat_of_bucket hnp
  have hflat : (fstate t (some (p, b))).flat = t.flat.map (upd p incRc) := flat_mapNode t p incRc
  have hnd' : ((fstate t (some (p, b))).flat.map (·.id)).Nodup := by
    rw [hflat, ids_map _ _ (upd_id p incRc incRc_id)]; exact w.idsNodup
  have hmem : upd p incRc np ∈ (fstate t (some (p, b))).flat := by
    rw [hflat]; exact List.mem_map.2 ⟨np, hnpf, rfl⟩
  have hid' : (upd p incRc np).id = p := by rw [upd_id p incRc incRc_id, hid]
  have hd := nodeDeref_eq hnd' hmem
  rw [hid'] at hd
  have hrel : release (fstate t (some (p, b))) (upd p incRc np) = ((fstate t (some (p, b))).mapNode p decRc, []) := by
    unfold release
    have : (upd p incRc np).refcount - 1 > 0 := by
      have := w.rcPos np hnpf
      simp [upd, hid, incRc]; omega
    rw [if_pos this, hid']
  refine ⟨by rw [hd, hrel], ?_⟩
  simp only [mapNode_buckets, fstate, List.map_map, Function.comp_def]
  conv => rhs; rw [← List.map_id t.buckets]
  apply List.map_congr_left
  intro l _
  simp [upd_dec_inc p]

/-- `hashtable_iter_free` of the traversal's iterator, abandoned on a node -/
theorem free_parked {t : HT} (w : WF t) {p b : Nat} (hv : fvalid t (some (p, b))) :
    (fstate t (some (p, b))).iterFree 0 = some (t, [], .ok) := by
  obtain ⟨hd, hb⟩ := deref_parked w hv
  unfold HT.iterFree
  have hl : (fstate t (some (p, b))).iters.lookup 0 = some ⟨some p, b⟩ := by simp [fstate, List.lookup]
  have hf15 : (fstate t (some (p, b))).fix15 = true := w.fix15
  rw [hl]
  simp only [hf15, ite_true, hd]
  congr 1
  simp only [Prod.mk.injEq, and_true]
  apply HT.eq_of <;> try rfl
  case h4 => exact hb
  case h7 => exact filter_head t.iters ⟨some p, b⟩ w.noZero

/-- … run to the end -/
theorem free_ended {t : HT} (w : WF t) (len : Nat) :
    HT.iterFree { t with iters := (0, ⟨none, len⟩) :: t.iters } 0 = some (t, [], .ok) := by
  unfold HT.iterFree
  simp only [List.lookup, beq_self_eq_true]
  have : (if t.fix15 = true then (none : Option Nat) else none) = none := by simp
  simp only [this]
  congr 1
  simp only [Prod.mk.injEq, and_true]
  apply HT.eq_of <;> try rfl
  case h7 => exact filter_head t.iters ⟨none, len⟩ w.noZero

theorem loop_eq {t : HT} (w : WF t) (stop : Nat) : ∀ (fuel : Nat) (cur : Option (Nat × Nat)) (vis : List (Key × Val)),
    fvalid t cur → ((remOf t (fiter cur)).filter t.eligible).length < fuel → (stop = 0 ∨ vis.length < stop) →
    post (HT.foreachLoop fuel (fstate t cur) stop [] vis) =
      (t, ⟨[], .visited (takeStop stop (vis ++ ((remOf t (fiter cur)).filter t.eligible).map kv))
        (stop = 0 || vis.length + ((remOf t (fiter cur)).filter t.eligible).length < stop)⟩)
  | 0, _, _, _, h, _ => by omega
  | fuel + 1, cur, vis, hv, hfuel, hinv => by
    unfold HT.foreachLoop
    rw [fstep w cur hv]
    have hp : ∀ p, (fiter cur).node = some p → ∃ np ∈ t.bucketOf (fiter cur).bucket, np.id = p := by
      intro p hp
      cases cur with
      | none => simp [fiter] at hp
      | some pb =>
        obtain ⟨p', b⟩ := pb
        simp only [fiter, Option.some.injEq] at hp
        subst hp
        exact hv
    cases hs : scanBuckets t.eligible (fiter cur).bucket (t.iterLists (fiter cur)) with
    | none =>
      have hL : (remOf t (fiter cur)).filter t.eligible = [] := by
        apply List.filter_eq_nil_iff.2
        intro x hx
        simp [iterLists_none hs x hx]
      simp only [hL, List.map_nil, List.append_nil, List.length_nil, Nat.add_zero, List.nil_append]
      unfold post
      simp only [free_ended w, Option.isNone_none]
      have : (decide (stop = 0) || decide (vis.length < stop)) = true := by
        rcases hinv with h | h <;> simp [h]
      rw [this]
      unfold takeStop
      split
      · rfl
      · rcases hinv with h | h
        · contradiction
        · rw [List.take_of_length_le (by omega)]
          rfl
    | some r =>
      obtain ⟨b', n⟩ := r
      obtain ⟨hnb, hen, _, ⟨pre, hrem, hpre⟩, _⟩ := iterLists_found w.idsNodup w.inBucket hp hs
      have hL : (remOf t (fiter cur)).filter t.eligible = n :: (remOf t ⟨some n.id, b'⟩).filter t.eligible := by
        rw [hrem, List.filter_append, List.filter_cons, if_pos hen]
        have : pre.filter t.eligible = [] := by
          apply List.filter_eq_nil_iff.2
          intro x hx
          simp [hpre x hx]
        rw [this]
        rfl
      have hv' : fvalid t (some (n.id, b')) := ⟨n, hnb, rfl⟩
      rw [hL] at hfuel ⊢
      simp only [List.length_cons] at hfuel
      simp only [List.nil_append, List.append_nil]
      by_cases hc : (decide (stop > 0) && decide (vis.length + 1 ≥ stop)) = true
      · rw [if_pos hc]
        simp only [Bool.and_eq_true, decide_eq_true_eq] at hc
        unfold post
        simp only [free_parked w hv', Option.isNone_some, List.append_nil]
        have hvl : vis.length + 1 = stop := by
          rcases hinv with h | h <;> omega
        have h1 : (decide (stop = 0) || decide (vis.length + (n :: (remOf t ⟨some n.id, b'⟩).filter t.eligible).length < stop)) = false := by
          simp only [List.length_cons, Bool.or_eq_false_iff, decide_eq_false_iff_not]
          constructor <;> omega
        rw [h1]
        unfold takeStop
        rw [if_neg (by omega)]
        simp only [List.map_cons]
        have : vis ++ kv n :: List.map kv ((remOf t ⟨some n.id, b'⟩).filter t.eligible) =
            (vis ++ [kv n]) ++ List.map kv ((remOf t ⟨some n.id, b'⟩).filter t.eligible) := by simp
        rw [this, List.take_left' (by simp; omega)]
        rfl
      · rw [if_neg hc]
        simp only [Bool.and_eq_true, decide_eq_true_eq, not_and] at hc
        have hinv' : stop = 0 ∨ (vis ++ [(n.key, n.val)]).length < stop := by
          simp only [List.length_append, List.length_singleton]
          by_cases h0 : stop = 0
          · exact Or.inl h0
          · right; have := hc (by omega); omega
        have ih := loop_eq w stop fuel (some (n.id, b')) (vis ++ [(n.key, n.val)]) hv' (by
          simp only [fiter]; omega) hinv'
        simp only [fiter] at ih
        rw [ih]
        simp only [List.length_append, List.length_singleton, List.length_cons, List.map_cons, List.append_assoc,
          List.singleton_append, kv]
        congr 3
        · simp only [List.length_nil, Nat.zero_add]
          congr 2
          apply propext
          omega

/-- `qb_map_foreach` leaves the table as it was and visits the eligible nodes in table order -/
theorem foreach_eq {t : HT} (w : WF t) (stop : Nat) :
    t.foreach stop = (t, ⟨[], .visited (takeStop stop ((t.flat.filter t.eligible).map kv))
      (stop = 0 || (t.flat.filter t.eligible).length < stop)⟩) := by
  rw [foreach_post]
  have h := loop_eq w stop (t.flat.length + 1) none [] trivial (by
    simp only [fiter, remOf_start]
    have := List.length_filter_le t.eligible t.flat
    omega) (by
    by_cases h0 : stop = 0
    · exact Or.inl h0
    · right; simp; omega)
  simp only [fiter, remOf_start, List.nil_append, List.length_nil, Nat.zero_add] at h
  exact h

end QbVerif.Hashtable
