import QbVerif.Lemmas.IpcsLifeSvcTop
import QbVerif.Lemmas.IpcsLifeInvWalk

/-! C04 — service count: qb_ipcs_destroy (reference-holding walk and the original walk), pending handshakes. -/
namespace QbVerif.IpcsLife

@[simp] theorem nconn_brOpenW (s : St) (o : Option Nat) : (brOpenW s o).nconn = s.nconn := by
  cases o <;> simp [brOpenW]
@[simp] theorem gone_brOpenW (s : St) (o : Option Nat) : (brOpenW s o).svcGone = s.svcGone := by
  cases o <;> simp [brOpenW]
@[simp] theorem nconn_brCloseW (s : St) (c : Nat) : (brCloseW s c).nconn = s.nconn := by simp [brCloseW]
@[simp] theorem gone_brCloseW (s : St) (c : Nat) : (brCloseW s c).svcGone = s.svcGone := by simp [brCloseW]

theorem brOpenW_svc {s : St} {p : Nat} (h : SvcInv s p) (o : Option Nat) (ho : ∀ x, o = some x → inR s x) :
    SvcInv (brOpenW s o) p := by
  cases o with
  | none => exact h
  | some x => exact h.ref x (fun k => { k with brWalk := true }) (fun _ => rfl) (ho x rfl)

/-- preserved, with the connection counter and `svcGone` -/
def Keeps (p : Nat) (s s' : St) : Prop := SvcInv s' p ∧ s'.nconn = s.nconn ∧ s'.svcGone = s.svcGone

theorem walkStep_svc {s : St} {p : Nat} (h : SvcInv s p) (c : Nat) (hr : inR s c) (o : Option Nat)
    (ho : ∀ x, o = some x → inR s x) : Keeps p s (walkStep s c o) := by
  have h1 := exec_svc FUEL (.disc c) (brOpenW_svc h o ho) trivial
  have hr1 : inR (exec FUEL (brOpenW s o) (.disc c)) c := inR_nc (by simp [exec_nconn]) hr
  simp only [walkStep]
  split
  · exact ⟨h1, by simp [exec_nconn], by simp [exec_gone]⟩
  · exact ⟨exec_svc FUEL (.zero c) (h1.dec c _ (fun _ => rfl) hr1) (inR_nc (by simp) hr1),
      by simp [exec_nconn], by simp [exec_gone]⟩

theorem walkFix_svc {p : Nat} : ∀ (n : Nat) (s : St) (o : Option Nat), SvcInv s p →
    (∀ x, o = some x → inR s x) → Keeps p s (walkFix n s o)
  | _, s, none, h, _ => by
    have : ∀ n, walkFix n s none = s := fun n => by cases n <;> rfl
    rw [this]; exact ⟨h, rfl, rfl⟩
  | 0, s, some c, h, ho => by
    simp only [walkFix]
    split
    · exact ⟨h, rfl, rfl⟩
    · exact ⟨exec_svc FUEL (.zero c) (h.dec c _ (fun _ => rfl) (ho c rfl)) (inR_nc (by simp) (ho c rfl)),
        by simp [exec_nconn], by simp [exec_gone]⟩
  | n+1, s, some c, h, ho => by
    simp only [walkFix]
    split
    · exact ⟨h, rfl, rfl⟩
    · split
      · exact ⟨h.touch c, rfl, rfl⟩
      · have hn : ∀ x, succOf c (s.touch c).list = some x → inR (s.touch c) x := fun x hx =>
          (h.touch c).lst x (succOf_some hx).1
        obtain ⟨a, b, d⟩ := walkStep_svc (h.touch c) c (ho c rfl) _ hn
        obtain ⟨a', b', d'⟩ := walkFix_svc n _ (succOf c (s.touch c).list) a
          (fun x hx => inR_nc b (hn x hx))
        exact ⟨a', b'.trans b, d'.trans d⟩

theorem walkOrig_svc {p : Nat} : ∀ (n : Nat) (s : St) (o : Option Nat), SvcInv s p → Keeps p s (walkOrig n s o)
  | 0, s, _, h => ⟨h, rfl, rfl⟩
  | n+1, s, none, h => ⟨h, rfl, rfl⟩
  | n+1, s, some c, h => by
    simp only [walkOrig]
    split
    · exact ⟨h, rfl, rfl⟩
    · split
      · exact ⟨h.touch c, rfl, rfl⟩
      · obtain ⟨a, b, d⟩ := walkOrig_svc n _ (succOf c (s.touch c).list)
          (exec_svc FUEL (.disc c) (h.touch c) trivial)
        exact ⟨a, by rw [b, exec_nconn]; rfl, by rw [d, exec_gone]; rfl⟩

/-- the creator's reference is dropped -/
theorem SvcInv.unrefCreator {s : St} {p : Nat} (h : SvcInv s p) (hg : s.svcGone = false) (hh : s.halt = false) :
    SvcInv { s.svcUnref with svcGone := true } p := by
  have h1 := (h.alive hg).1
  obtain ⟨a, b, c, d, e, f, _, i, _⟩ := svcUnref_spec s h.fz h1 hh
  constructor
  · show s.svcUnref.svcUaf = false
    rw [c]; exact h.nu
  · intro j hj
    show s.svcUnref.conns j = {}
    rw [d]; exact h.out j (by rw [← e]; exact hj)
  · intro x hx
    have hx' : x ∈ s.list := by rw [← f]; exact hx
    have := h.lst x hx'; show 1 ≤ x ∧ x ≤ s.svcUnref.nconn; rw [e]; exact this
  · show s.svcUnref.svcRc + cntF (fun i => (s.svcUnref.conns i).freed) s.svcUnref.nconn =
      b2n (!true) + s.svcUnref.nconn + s.svcUnref.halfs.length + p
    rw [a, d, e, i]; have := h.cnt; rw [hg] at this; unfold frOf at this; simp at this ⊢; omega
  · exact b
  · show s.svcUnref.halfs.Nodup
    rw [i]; exact h.hnd

def destroyWalk (s : St) : St :=
  if s.fixWalk then
    match s.list.head? with
    | none => s
    | some c => walkFix (s.list.length + 1) (s.ref c fun k => { k with brWalk := true }) (some c)
  else walkOrig (s.list.length + 1) s s.list.head?

theorem destroy_eq (s : St) : destroy s =
    if s.touchSvc.halt then s.touchSvc else
    if (destroyWalk s.touchSvc).halt then destroyWalk s.touchSvc
    else { (destroyWalk s.touchSvc).svcUnref with svcGone := true } := rfl

theorem destroyWalk_svc {s : St} {p : Nat} (h : SvcInv s p) : Keeps p s (destroyWalk s) := by
  unfold destroyWalk
  split
  · split
    · exact ⟨h, rfl, rfl⟩
    · next c hc =>
      have hr : inR s c := h.lst c (List.mem_of_mem_head? hc)
      obtain ⟨a, b, d⟩ := walkFix_svc (s.list.length + 1) _ (some c)
        (h.ref c (fun k => { k with brWalk := true }) (fun _ => rfl) hr)
        (fun x hx => by injection hx with hx; subst hx; exact inR_nc (by simp) hr)
      exact ⟨a, by rw [b]; simp, by rw [d]; simp⟩
  · exact walkOrig_svc _ s _ h

/-- qb_ipcs_destroy (all variants) -/
theorem destroy_svc {s : St} {p : Nat} (h : SvcInv s p) (hg : s.svcGone = false) : SvcInv (destroy s) p := by
  rw [destroy_eq, touchSvc_eq s (h.alive hg).2]
  obtain ⟨a, _, d⟩ := destroyWalk_svc h
  split
  · exact h
  · split
    · exact a
    · next hx => exact a.unrefCreator (d.trans hg) (by simpa using hx)

theorem filter_ne_length : ∀ (l : List Nat) (P : Nat), l.Nodup → P ∈ l →
    (l.filter (· != P)).length + 1 = l.length
  | [], _, _, h => by cases h
  | x :: l, P, hn, hm => by
    have hn' := List.nodup_cons.mp hn
    by_cases hx : x = P
    · subst hx
      have : l.filter (· != x) = l := List.filter_eq_self.mpr (fun a ha => by
        simp only [bne_iff_ne, ne_eq]; intro e; subst e; exact hn'.1 ha)
      simp [this]
    · have hm' : P ∈ l := by
        cases hm with
        | head => exact absurd rfl hx
        | tail _ h => exact h
      have := filter_ne_length l P hn'.2 hm'
      simp [hx]; omega

/-- process_auth / destroy_ipc_auth_data: a pending handshake goes away -/
theorem halfGone_svc {s : St} {p : Nat} (h : SvcInv s p) (P : Nat) (hP : P ∈ s.halfs) (hh : s.halt = false) :
    SvcInv (halfGone s P) p := by
  have hl : 1 ≤ s.halfs.length := List.length_pos_of_mem hP
  have h1 : 1 ≤ s.svcRc := by have := h.rc_ge; omega
  have hf := h.notFreed h1
  have hlen := filter_ne_length s.halfs P h.hnd hP
  unfold halfGone
  rw [touchSvc_eq _ (by exact hf)]
  obtain ⟨a, b, c, d, e, f, g, i, _⟩ :=
    svcUnref_spec ({ s with halfs := s.halfs.filter (· != P) } : St) h.fz h1 hh
  constructor
  · rw [c]; exact h.nu
  · intro j hj; rw [d]; rw [e] at hj; exact h.out j hj
  · intro x hx; rw [f] at hx; have := h.lst x hx; unfold inR; rw [e]; exact this
  · unfold frOf; rw [a, d, e, g, i]; have := h.cnt; unfold frOf at this
    show s.svcRc - 1 + cntF (fun i => (s.conns i).freed) s.nconn =
      b2n (!s.svcGone) + s.nconn + (s.halfs.filter (· != P)).length + p
    omega
  · exact b
  · rw [i]; exact h.hnd.sublist List.filter_sublist

/-- qb_ipcs_uc_recv_and_auth, dispatch_add(process_auth) fails: reference taken and dropped again -/
theorem authRefused_svc {s : St} {p : Nat} (h : SvcInv s p) (hg : s.svcGone = false) (hh : s.halt = false) :
    SvcInv (authRefused s) p := by
  have hal := h.alive hg
  have h1 : SvcInv ({ s with svcRc := s.svcRc + 1 } : St) (p+1) := by
    constructor
    · exact h.nu
    · exact h.out
    · exact h.lst
    · show s.svcRc + 1 + cntF (frOf s) s.nconn = b2n (!s.svcGone) + s.nconn + s.halfs.length + (p+1)
      have := h.cnt; omega
    · show s.svcFreed = true ↔ s.svcRc + 1 = 0
      rw [hal.2]; simp
    · exact h.hnd
  exact (h1.unref hh).eqv (svEq_emit _ _)

theorem svEq_pollAdd (s : St) : SvEq s s.pollAdd.2 ∧ s.pollAdd.2.halt = s.halt := by
  unfold St.pollAdd; split <;> exact ⟨⟨rfl, rfl, rfl, rfl, rfl, rfl, rfl, rfl⟩, rfl⟩

theorem svEq_transportAdd (s : St) (r : Int) : SvEq s (transportAdd s r).2 := by
  have a := (svEq_pollAdd s).1
  have b := (svEq_pollAdd s.pollAdd.2).1
  have ab : SvEq s s.pollAdd.2.pollAdd.2 :=
    ⟨b.conns.trans a.conns, b.nconn.trans a.nconn, b.list.trans a.list, b.rc.trans a.rc, b.fr.trans a.fr,
     b.gone.trans a.gone, b.uaf.trans a.uaf, b.halfs.trans a.halfs⟩
  simp only [transportAdd]
  split
  · exact ⟨rfl, rfl, rfl, rfl, rfl, rfl, rfl, rfl⟩
  · split
    · exact a
    · split
      · split
        · exact ab
        · exact ab
      · exact a

/-- a new pending handshake -/
theorem half_svc {s : St} {p : Nat} (h : SvcInv s p) (P : Nat) (hg : s.svcGone = false) (hP : P ∉ s.halfs) :
    SvcInv ({ s.pollAdd.2 with halfs := P :: s.halfs, svcRc := s.svcRc + 1 } : St) p := by
  have e := (svEq_pollAdd s).1
  have hal := h.alive hg
  constructor
  · show s.pollAdd.2.svcUaf = false
    rw [e.uaf]; exact h.nu
  · intro j hj
    show s.pollAdd.2.conns j = {}
    rw [e.conns]; exact h.out j (by rw [← e.nconn]; exact hj)
  · intro x hx
    have hx' : x ∈ s.list := by rw [← e.list]; exact hx
    have := h.lst x hx'; show 1 ≤ x ∧ x ≤ s.pollAdd.2.nconn; rw [e.nconn]; exact this
  · show s.svcRc + 1 + cntF (fun i => (s.pollAdd.2.conns i).freed) s.pollAdd.2.nconn =
      b2n (!s.pollAdd.2.svcGone) + s.pollAdd.2.nconn + (P :: s.halfs).length + p
    rw [e.conns, e.nconn, e.gone]; have := h.cnt; unfold frOf at this; simp; omega
  · show s.pollAdd.2.svcFreed = true ↔ s.svcRc + 1 = 0
    rw [e.fr, hal.2]; simp
  · exact List.nodup_cons.mpr ⟨hP, h.hnd⟩

end QbVerif.IpcsLife
