/-
Hashtable model: `qb_map_foreach` (lib/map.c) on the hashtable.  `foreach_eq`: whatever other
iterators are open and whichever removed-but-referenced nodes are still linked, the traversal
leaves the table exactly as it was, emits no notification, and hands to the callback the
eligible (linked, not removed) nodes in table order — all of them, or the first `stop`.
-/
import QbVerif.Lemmas.HtPos

namespace QbVerif.Hashtable
open QbVerif.Map
set_option linter.unusedSimpArgs false

/-- what `foreach` needs of the table -/
structure WF (t : HT) : Prop where
  fix15 : t.fix15 = true
  idsNodup : (t.flat.map (·.id)).Nodup
  inBucket : ∀ b x, x ∈ t.bucketOf b → hash x.key t.order = b
  rcPos : ∀ n ∈ t.flat, 0 < n.refcount
  noZero : ∀ p ∈ t.iters, p.1 ≠ 0

/-- the table while `qb_map_foreach`'s own iterator (key 0) is parked on node `p` of bucket `b` -/
def fstate (t : HT) : Option (Nat × Nat) → HT
  | none => { t with iters := (0, ⟨none, 0⟩) :: t.iters }
  | some (p, b) => { t.mapNode p incRc with iters := (0, ⟨some p, b⟩) :: t.iters }

def fiter : Option (Nat × Nat) → Iter
  | none => ⟨none, 0⟩
  | some (p, b) => ⟨some p, b⟩

def fvalid (t : HT) : Option (Nat × Nat) → Prop
  | none => True
  | some (p, b) => ∃ np ∈ t.bucketOf b, np.id = p

def kv (n : Node) : Key × Val := (n.key, n.val)

theorem HT.eq_of {a b : HT} (h1 : a.fix14 = b.fix14) (h2 : a.fix15 = b.fix15) (h3 : a.order = b.order)
    (h4 : a.buckets = b.buckets) (h5 : a.count = b.count) (h6 : a.globals = b.globals) (h7 : a.iters = b.iters)
    (h8 : a.nextId = b.nextId) (h9 : a.freed = b.freed) (h10 : a.crashed = b.crashed) : a = b := by
  cases a; cases b; simp_all

theorem find?_congr' {α} {p q : α → Bool} : ∀ {l : List α}, (∀ x ∈ l, p x = q x) → l.find? p = l.find? q
  | [], _ => rfl
  | a :: l, h => by
    simp only [List.find?_cons, h a (by simp)]
    split
    · rfl
    · exact find?_congr' fun x hx => h x (by simp [hx])

theorem scan_map' (e : Node → Bool) (g : Node → Node) :
    ∀ (ls : List (List Node)) (b : Nat), (∀ x ∈ ls.flatten, e (g x) = e x) →
    scanBuckets e b (ls.map (·.map g)) = (scanBuckets e b ls).map fun r => (r.1, g r.2)
  | [], _, _ => rfl
  | l :: rest, b, he => by
    simp only [List.map_cons, scanBuckets]
    have : (l.map g).find? e = (l.find? e).map g := by
      rw [List.find?_map]
      congr 1
      exact find?_congr' fun x hx => he x (by simp [hx])
    rw [this]
    cases l.find? e with
    | some m => simp
    | none => simpa using scan_map' e g rest (b + 1) (fun x hx => he x (by simp [hx]))

theorem iterLists_map (t : HT) (it : Iter) (g : Node → Node) (hg : ∀ x, (g x).id = x.id) :
    HT.iterLists { t with buckets := t.buckets.map (·.map g) } it = (t.iterLists it).map (·.map g) := by
  unfold HT.iterLists
  simp only [List.length_map]
  split
  · simp only [List.map_cons, List.map_drop]
    congr 1
    cases it.node with
    | none => exact getD_map_nil (·.map g) rfl _ _
    | some p =>
      simp only
      rw [getD_map_nil (·.map g) rfl, after_map p g hg]
  · rfl

theorem upd_dec_inc (p : Nat) : (fun x => upd p decRc (upd p incRc x)) = id := by
  funext x
  unfold upd
  by_cases h : x.id == p
  · simp [h, incRc, decRc]
  · simp [h]

theorem upd_dec_inc_inc (p q : Nat) (h : q ≠ p) :
    (fun x => upd p decRc (upd q incRc (upd p incRc x))) = upd q incRc := by
  funext x
  unfold upd
  by_cases h1 : x.id = p
  · have h2 : ¬ x.id = q := by omega
    simp [h1, h2, incRc, decRc, h]
    simp [← h1, h2]
  · by_cases h2 : x.id = q
    · simp [h1, h2, incRc, h]
    · simp [h1, h2]

theorem setIter_head (its : List (Nat × Iter)) (it it' : Iter) (h0 : ∀ p ∈ its, p.1 ≠ 0) :
    setIter ((0, it) :: its) 0 it' = (0, it') :: its := by
  unfold setIter
  simp only [List.map_cons, beq_self_eq_true, ite_true]
  congr 1
  conv => rhs; rw [← List.map_id its]
  apply List.map_congr_left
  intro p hp
  simp [h0 p hp]

theorem filter_head (its : List (Nat × Iter)) (it : Iter) (h0 : ∀ p ∈ its, p.1 ≠ 0) :
    ((0, it) :: its).filter (fun p => !(p.1 == 0)) = its := by
  simp only [List.filter_cons, beq_self_eq_true, Bool.not_true]
  apply List.filter_eq_self.2
  intro p hp
  simp [h0 p hp]

theorem flat_mapNode (t : HT) (p : Nat) (f : Node → Node) : (t.mapNode p f).flat = t.flat.map (upd p f) := by
  unfold HT.flat
  rw [mapNode_buckets, flatten_map_map]

theorem ids_map (l : List Node) (g : Node → Node) (hg : ∀ x, (g x).id = x.id) :
    (l.map g).map (·.id) = l.map (·.id) := by
  rw [List.map_map]; apply List.map_congr_left; intro x _; simp [hg]

theorem incRc_id (x : Node) : (incRc x).id = x.id := rfl
theorem decRc_id (x : Node) : (decRc x).id = x.id := rfl

/-- one `hashtable_iter_next` of the traversal -/
theorem fstep {t : HT} (w : WF t) (cur : Option (Nat × Nat)) (hv : fvalid t cur) :
    (fstate t cur).iterNext 0 =
      match scanBuckets t.eligible (fiter cur).bucket (t.iterLists (fiter cur)) with
      | some (b', n) => some (fstate t (some (n.id, b')), [], .item (some (n.key, n.val)))
      | none => some ({ t with iters := (0, ⟨none, t.buckets.length⟩) :: t.iters }, [], .item none) := by
  cases cur with
  | none =>
    have hscan := @iterLists_found t ⟨none, 0⟩ t.eligible
    unfold HT.iterNext fstate
    simp only [List.lookup, beq_self_eq_true, fiter]
    have e1 : HT.eligible { t with iters := (0, ⟨none, 0⟩) :: t.iters } = t.eligible := rfl
    have e2 : HT.iterLists { t with iters := (0, ⟨none, 0⟩) :: t.iters } ⟨none, 0⟩ = t.iterLists ⟨none, 0⟩ := rfl
    rw [e1, e2]
    cases hs : scanBuckets t.eligible 0 (t.iterLists ⟨none, 0⟩) with
    | none => simp [setIter_head _ _ _ w.noZero, w.fix15]
    | some r =>
      obtain ⟨b', n⟩ := r
      simp only [Bool.false_eq_true, ite_false]
      congr 1
      simp only [Prod.mk.injEq, and_true]
      apply HT.eq_of <;> try rfl
      case h7 => exact setIter_head _ _ _ w.noZero
  | some pb =>
    obtain ⟨p, b⟩ := pb
    obtain ⟨np, hnp, hid⟩ := hv
    have hnpf : np ∈ t.flat := mem_flat_of_bucket hnp
    have hfound := @iterLists_found t ⟨some p, b⟩ t.eligible
    unfold HT.iterNext
    have hl : (fstate t (some (p, b))).iters.lookup 0 = some ⟨some p, b⟩ := by simp [fstate, List.lookup]
    rw [hl]
    simp only [fiter]
    -- the parked node is linked
    have hflat : (fstate t (some (p, b))).flat = t.flat.map (upd p incRc) := flat_mapNode t p incRc
    have hfn : ((fstate t (some (p, b))).findNode p).isNone = false := by
      unfold HT.findNode
      rw [hflat]
      cases hq : (t.flat.map (upd p incRc)).find? (fun x => x.id == p) with
      | some _ => rfl
      | none =>
        have := List.find?_eq_none.1 hq (upd p incRc np) (List.mem_map.2 ⟨np, hnpf, rfl⟩)
        simp [upd_id p incRc incRc_id, hid] at this
    simp only [hfn, Bool.false_eq_true, ite_false]
    -- the scan sees the same nodes
    have e1 : (fstate t (some (p, b))).eligible = t.eligible := rfl
    have e2 : (fstate t (some (p, b))).iterLists ⟨some p, b⟩ = (t.iterLists ⟨some p, b⟩).map (·.map (upd p incRc)) :=
      iterLists_map t ⟨some p, b⟩ (upd p incRc) (upd_id p incRc incRc_id)
    have hsub : ∀ x ∈ (t.iterLists ⟨some p, b⟩).flatten, x ∈ t.flat := by
      intro x hx
      unfold HT.iterLists at hx
      split at hx
      · simp only [List.flatten_cons, List.mem_append] at hx
        rcases hx with hx | hx
        · obtain ⟨A, hA⟩ := after_suffix p (t.buckets.getD b [])
          refine mem_flat_of_bucket (b := b) ?_
          show x ∈ t.buckets.getD b []
          rw [hA]
          exact List.mem_append_right _ hx
        · obtain ⟨l, hl, hxl⟩ := List.mem_flatten.1 hx
          exact List.mem_flatten.2 ⟨l, List.mem_of_mem_drop hl, hxl⟩
      · simp at hx
    have he : ∀ x ∈ (t.iterLists ⟨some p, b⟩).flatten, t.eligible (upd p incRc x) = t.eligible x := by
      intro x hx
      have := w.rcPos x (hsub x hx)
      unfold upd HT.eligible incRc
      split <;> simp [this]
    rw [e1, e2, scan_map' t.eligible (upd p incRc) _ b he]
    cases hs : scanBuckets t.eligible b (t.iterLists ⟨some p, b⟩) with
    | none =>
      simp only [Option.map_none]
      have hnd' : ((fstate t (some (p, b))).flat.map (·.id)).Nodup := by
        rw [hflat, ids_map _ _ (upd_id p incRc incRc_id)]; exact w.idsNodup
      have hmem : upd p incRc np ∈ (fstate t (some (p, b))).flat := by
        rw [hflat]; exact List.mem_map.2 ⟨np, hnpf, rfl⟩
      have hid' : (upd p incRc np).id = p := by rw [upd_id p incRc incRc_id, hid]
      have hd := nodeDeref_eq hnd' hmem
      rw [hid'] at hd
      rw [hd]
      have hrel : release (fstate t (some (p, b))) (upd p incRc np) = ((fstate t (some (p, b))).mapNode p decRc, []) := by
        unfold release
        have : (upd p incRc np).refcount - 1 > 0 := by
          have := w.rcPos np hnpf
          simp [upd, hid, incRc]; omega
        rw [if_pos this, hid']
      rw [hrel]
      have hf15 : (fstate t (some (p, b))).fix15 = true := w.fix15
      simp only [hf15, ite_true]
      congr 1
      simp only [Prod.mk.injEq, and_true]
      have hb : ((fstate t (some (p, b))).mapNode p decRc).buckets = t.buckets := by
        simp only [mapNode_buckets, fstate, List.map_map, Function.comp_def]
        conv => rhs; rw [← List.map_id t.buckets]
        apply List.map_congr_left
        intro l _
        simp [upd_dec_inc p]
      apply HT.eq_of <;> try rfl
      case h4 => exact hb
      case h7 =>
        show setIter ((0, ⟨some p, b⟩) :: t.iters) 0 ⟨none, (fstate t (some (p, b))).buckets.length⟩ = _
        rw [setIter_head _ _ _ w.noZero]
        simp [fstate, mapNode_buckets]
    | some r =>
      obtain ⟨b', n⟩ := r
      obtain ⟨hnb, hen, _, _, hne⟩ := hfound w.idsNodup w.inBucket (by
        intro q hq; cases hq; exact ⟨np, hnp, hid⟩) hs
      have hnp' : n.id ≠ p := hne p rfl
      have hgn : upd p incRc n = n := by unfold upd; simp [hnp']
      simp only [Option.map_some, hgn]
      -- after `refcount++` on the found node, the old node is released
      let t1 := (fstate t (some (p, b))).mapNode n.id incRc
      have hflat1 : t1.flat = t.flat.map (fun x => upd n.id incRc (upd p incRc x)) := by
        show ((fstate t (some (p, b))).mapNode n.id incRc).flat = _
        rw [flat_mapNode, hflat, List.map_map]; rfl
      have hnd1 : (t1.flat.map (·.id)).Nodup := by
        rw [hflat1, ids_map _ _ (fun x => by rw [upd_id n.id incRc incRc_id, upd_id p incRc incRc_id])]
        exact w.idsNodup
      have hnp1 : upd n.id incRc (upd p incRc np) = incRc np := by
        unfold upd; simp [hid, incRc, Ne.symm hnp']
      have hmem1 : incRc np ∈ t1.flat := by
        rw [hflat1, ← hnp1]; exact List.mem_map.2 ⟨np, hnpf, rfl⟩
      have hd := nodeDeref_eq hnd1 hmem1
      have hid1 : (incRc np).id = p := hid
      rw [hid1] at hd
      show (match t1.nodeDeref p with
        | none => some ({ t1 with crashed := true }, [], Res.uaf)
        | some (t2, evs) => some ({ t2 with iters := setIter t2.iters 0 ⟨some n.id, b'⟩ }, evs, Res.item (some (n.key, n.val)))) = _
      rw [hd]
      have hrel : release t1 (incRc np) = (t1.mapNode p decRc, []) := by
        unfold release
        have : (incRc np).refcount - 1 > 0 := by
          have := w.rcPos np hnpf
          simp [incRc]; omega
        rw [if_pos this, hid1]
      rw [hrel]
      simp only
      congr 1
      simp only [Prod.mk.injEq, and_true]
      have hb : (t1.mapNode p decRc).buckets = (t.mapNode n.id incRc).buckets := by
        show (((fstate t (some (p, b))).mapNode n.id incRc).mapNode p decRc).buckets = _
        simp only [mapNode_buckets, fstate, List.map_map, Function.comp_def]
        apply List.map_congr_left
        intro l _
        rw [upd_dec_inc_inc p n.id hnp']
      apply HT.eq_of <;> try rfl
      case h4 => exact hb
      case h7 =>
        show setIter ((0, ⟨some p, b⟩) :: t.iters) 0 ⟨some n.id, b'⟩ = _
        rw [setIter_head _ _ _ w.noZero]
        rfl

end QbVerif.Hashtable
