/-
Bounds invariants of the blackbox record encoder / decoder model (helper lemmas for Props/C14.lean).

`SerInv`: every store of `qb_vsnprintf_serialize` so far ended at or below `max_len`, `location ≤
max_len`, an early return value is `≤ max_len`.
`DeInv`: every store of `qb_vsnprintf_deserialize` into the caller's buffer so far ended at or below
`str_len`, no store left the mini format, `location < str_len`, the buffer still has `str_len`
bytes and (outside a conversion) contains a NUL.
Both are shown to hold initially and to be preserved by every step of the machines, whatever the
format bytes, the arguments, the record bytes and the `render` function are.
-/
import QbVerif.Model.Serialize

namespace QbVerif.Ser
open QbVerif.Gen

/-! ### buffers -/

theorem le_length (n v : Nat) : (le n v).length = n := by
  induction n generalizing v with
  | zero => rfl
  | succ n ih => simp [le, ih]

theorem writeAt_length (d : Bytes) (idx : Nat) (bs : Bytes) :
    (writeAt d idx bs).length = max d.length (idx + bs.length) := by
  simp only [writeAt, List.length_append, List.length_take, List.length_replicate, List.length_drop]
  omega

theorem mem_writeAt (d : Bytes) (idx : Nat) (bs : Bytes) (x : UInt8) (h : x ∈ bs) : x ∈ writeAt d idx bs := by
  simp only [writeAt, List.mem_append]
  exact Or.inl (Or.inr h)

theorem Buf.store_hi (b : Buf) (idx : Nat) (bs : Bytes) (cap : Nat) (h1 : b.hi ≤ cap)
    (h2 : idx + bs.length ≤ cap) : (b.store idx bs).hi ≤ cap := by
  unfold Buf.store
  split
  · exact h1
  · simp only; omega

theorem Buf.store_length (b : Buf) (idx : Nat) (bs : Bytes) (h2 : idx + bs.length ≤ b.data.length) :
    (b.store idx bs).data.length = b.data.length := by
  unfold Buf.store
  split
  · rfl
  · simp only [writeAt_length]; omega

theorem Buf.store_mem (b : Buf) (idx : Nat) (bs : Bytes) (x : UInt8) (h : x ∈ bs) :
    x ∈ (b.store idx bs).data := by
  unfold Buf.store
  split
  · rename_i he
    simp only [List.isEmpty_iff] at he
    subst he
    cases h
  · exact mem_writeAt _ _ _ _ h

/-! ### serializer -/

def SerInv (maxLen : Nat) (s : SerSt) : Prop :=
  s.buf.hi ≤ maxLen ∧ (s.ret = none → s.loc ≤ maxLen) ∧ (∀ r, s.ret = some r → r ≤ maxLen)

theorem serFixed_inv {maxLen : Nat} {s : SerSt} (size : Nat) (e : Bool) (h : SerInv maxLen s)
    (hr : s.ret = none) : SerInv maxLen (serFixed maxLen s size e) := by
  obtain ⟨h1, h2, h3⟩ := h
  unfold serFixed
  split
  · exact ⟨h1, by simp, by simp⟩
  · rename_i hle
    refine ⟨?_, ?_, ?_⟩
    · exact Buf.store_hi _ _ _ _ h1 (by simp only [le_length]; omega)
    · intro _; simp only; omega
    · intro r hr'; simp only [hr] at hr'; cases hr'

theorem myStrlcpy_inv (b : Buf) (loc : Nat) (src : Bytes) (n maxLen : Nat) (hb : b.hi ≤ maxLen)
    (hn : loc + n ≤ maxLen) (hn1 : 1 ≤ n) :
    (myStrlcpy b loc src n).1.hi ≤ maxLen ∧ loc + (myStrlcpy b loc src n).2 + 1 ≤ maxLen := by
  unfold myStrlcpy
  have hsub : subSz n 1 = n - 1 := by unfold subSz; simp [hn1]
  refine ⟨?_, ?_⟩
  · simp only
    split
    · exact hb
    · apply Buf.store_hi _ _ _ _ hb
      simp only [List.length_append, List.length_take, List.length_singleton]
      omega
  · simp only [hsub]; omega

theorem serStep_inv (cfg : Cfg) (hcfg : cfg.strRoom = true) (maxLen : Nat) (s : SerSt) (c : UInt8)
    (peek : Option UInt8) (h : SerInv maxLen s) : SerInv maxLen (serStep cfg maxLen s c peek) := by
  unfold serStep
  split
  · exact h
  rename_i hret
  have hr : s.ret = none := by
    cases hs : s.ret with
    | none => rfl
    | some r => simp [hs] at hret
  split
  · exact h
  split
  · split <;> exact h
  have hkeep : ∀ t : SerSt, t.buf = s.buf → t.loc = s.loc → t.ret = s.ret → SerInv maxLen t := by
    intro t hb hl hrt
    obtain ⟨h1, h2, h3⟩ := h
    exact ⟨by rw [hb]; exact h1, by rw [hl, hrt]; exact h2, by rw [hrt]; exact h3⟩
  split
  · exact h
  · exact hkeep _ rfl rfl rfl
  · split
    · exact hkeep _ rfl rfl rfl
    · exact h
  · exact serFixed_inv _ _ h hr
  · split <;> exact hkeep _ rfl rfl rfl
  · split <;> exact hkeep _ rfl rfl rfl
  · split <;> exact hkeep _ rfl rfl rfl
  · split <;> exact hkeep _ rfl rfl rfl
  · split
    · exact serFixed_inv _ _ h hr
    · split <;> exact serFixed_inv _ _ h hr
  · exact serFixed_inv _ _ h hr
  · exact serFixed_inv _ _ h hr
  · -- %s
    obtain ⟨h1, h2, h3⟩ := h
    have hloc := h2 hr
    simp only [hcfg, Bool.true_and]
    split
    · exact ⟨h1, by simp, by simp⟩
    · rename_i hge
      have hlt : s.loc < maxLen := by simpa using hge
      have hroom : subSz maxLen s.loc = maxLen - s.loc := by unfold subSz; simp [Nat.le_of_lt hlt]
      simp only [hroom]
      have hn1 : 1 ≤ strN s.slen (popStr s.args).1 := by
        unfold strN; split
        · omega
        · split <;> omega
      have := myStrlcpy_inv s.buf s.loc (strSrc (popStr s.args).1)
        (min (strN s.slen (popStr s.args).1) (maxLen - s.loc)) maxLen h1 (by omega) (by omega)
      exact ⟨this.1, fun _ => this.2, by intro r hr'; simp only [hr] at hr'; cases hr'⟩
  · exact serFixed_inv _ _ h hr
  · -- %%
    split
    · exact hkeep _ rfl rfl rfl
    · split
      · exact ⟨h.1, by simp, by simp⟩
      · rename_i hle
        obtain ⟨h1, h2, h3⟩ := h
        refine ⟨Buf.store_hi _ _ _ _ h1 (by simp; omega), fun _ => by simp only; omega, ?_⟩
        intro r hr'; simp only [hr] at hr'; cases hr'
  · exact hkeep _ rfl rfl rfl

theorem serRun_inv (cfg : Cfg) (hcfg : cfg.strRoom = true) (maxLen : Nat) (s : SerSt) (f : Bytes)
    (h : SerInv maxLen s) : SerInv maxLen (serRun cfg maxLen s f) := by
  induction f generalizing s with
  | nil => exact h
  | cons c rest ih => exact ih _ (serStep_inv cfg hcfg maxLen s c _ h)

theorem serInit_inv (cfg : Cfg) (fmt : Bytes) (args : List Arg) (maxLen : Nat) (hm : 1 ≤ maxLen) :
    SerInv maxLen (serInit cfg fmt args maxLen) := by
  have h0 := myStrlcpy_inv ⟨[], 0⟩ 0 (cstr fmt) maxLen maxLen (Nat.zero_le _) (by omega) hm
  have hst : ((cstr fmt).take (min (maxLen - 1) (cstr fmt).length)).length ≤ maxLen - 1 := by
    simp only [List.length_take]; omega
  unfold serInit xcPatch SerInv
  simp only
  split
  · split
    · refine ⟨Buf.store_hi _ _ _ _ h0.1 (by simp only [List.length_singleton]; omega), fun _ => by omega, by simp⟩
    · refine ⟨Buf.store_hi _ _ _ _ h0.1 (by simp only [List.length_singleton]; omega), fun _ => ?_, by simp⟩
      split <;> omega
  · exact ⟨h0.1, fun _ => by omega, by simp⟩

/-! ### decoder -/

def DeInv (strLen : Nat) (s : DeSt) : Prop :=
  s.buf.hi ≤ strLen ∧ s.oob = false ∧ s.buf.data.length = strLen ∧
  (s.ret = none → s.loc < strLen ∧ (s.inDir = false → (0 : UInt8) ∈ s.buf.data)) ∧
  (∀ r, s.ret = some r → 1 ≤ r ∧ r ≤ strLen ∧ (0 : UInt8) ∈ s.buf.data)

theorem subSz_of_le {a b : Nat} (h : b ≤ a) : subSz a b = a - b := by unfold subSz; simp [h]

theorem DeInv.of_eq {strLen : Nat} {s t : DeSt} (h : DeInv strLen s) (hb : t.buf = s.buf) (ho : t.oob = s.oob)
    (hl : t.loc = s.loc) (hd : t.inDir = s.inDir) (hr : t.ret = s.ret) : DeInv strLen t := by
  unfold DeInv at *
  rw [hb, ho, hl, hd, hr]
  exact h

/-- the code after the `switch` re-establishes the invariant whatever `location` has become -/
theorem deAfter_inv (cfg : Cfg) (hc : cfg.clamp = true) (strLen : Nat) (hs : 1 ≤ strLen) (t : DeSt)
    (h1 : t.buf.hi ≤ strLen) (h2 : t.oob = false) (h3 : t.buf.data.length = strLen) (h4 : t.ret = none) :
    DeInv strLen (deAfter cfg strLen t) := by
  unfold deAfter
  simp only [hc, if_true]
  have hloc : (if t.loc ≥ strLen then strLen - 1 else t.loc) < strLen := by split <;> omega
  refine ⟨?_, h2, ?_, ?_, ?_⟩
  · exact Buf.store_hi _ _ _ _ h1 (by simp only [List.length_singleton]; omega)
  · rw [Buf.store_length _ _ _ (by simp only [List.length_singleton]; omega)]; exact h3
  · intro _
    exact ⟨hloc, fun _ => Buf.store_mem _ _ _ _ (by simp)⟩
  · intro r hr; simp only [h4] at hr; cases hr

/-- `snprintf` into the remaining space stays inside the buffer and the mini format -/
theorem deSnprintf_facts (cfg : Cfg) (render : Render) (strLen : Nat) (s : DeSt) (conv : UInt8) (a : DArg)
    (h1 : s.buf.hi ≤ strLen) (h2 : s.oob = false) (h3 : s.buf.data.length = strLen) (hl : s.loc < strLen)
    (hm : s.mini.length + 2 ≤ MINI_FORMAT_STR_LEN) :
    (deSnprintf cfg render strLen s conv a).buf.hi ≤ strLen ∧ (deSnprintf cfg render strLen s conv a).oob = false ∧
    (deSnprintf cfg render strLen s conv a).buf.data.length = strLen ∧
    (deSnprintf cfg render strLen s conv a).ret = s.ret := by
  unfold deSnprintf miniPush
  simp only [List.length_append, List.length_singleton]
  have hsz : subSz strLen s.loc = strLen - s.loc := subSz_of_le (Nat.le_of_lt hl)
  rw [hsz]
  have hne : ¬ (strLen - s.loc = 0) := by omega
  simp only [hne, if_false]
  refine ⟨?_, ?_, ?_, ?_⟩
  · apply Buf.store_hi _ _ _ _ h1
    simp only [List.length_append, List.length_take, List.length_singleton]; omega
  · simp only [h2, Bool.false_or, Bool.or_eq_false_iff, decide_eq_false_iff_not]
    omega
  · rw [Buf.store_length _ _ _ (by simp only [List.length_append, List.length_take, List.length_singleton]; omega)]
    exact h3
  · trivial

theorem deStep_inv (cfg : Cfg) (hc : cfg.clamp = true) (hg : cfg.miniGuard = true) (render : Render)
    (rec : Bytes) (strLen : Nat) (hs : 1 ≤ strLen) (s : DeSt) (c : UInt8) (peek : Option UInt8)
    (h : DeInv strLen s) : DeInv strLen (deStep cfg render rec strLen s c peek) := by
  unfold deStep
  split
  · exact h
  rename_i hret
  have hr : s.ret = none := by
    cases hs' : s.ret with
    | none => rfl
    | some r => simp [hs'] at hret
  obtain ⟨h1, h2, h3, h4, h5⟩ := h
  obtain ⟨hloc, hz⟩ := h4 hr
  have hI : DeInv strLen s := ⟨h1, h2, h3, h4, h5⟩
  split
  · -- text mode
    split
    · have e1 : subSz strLen 1 = strLen - 1 := subSz_of_le hs
      have e2 : subSz (strLen - 1) s.loc = strLen - 1 - s.loc := subSz_of_le (by omega)
      rw [e1, e2]
      refine ⟨?_, h2, ?_, ?_, ?_⟩
      · exact Buf.store_hi _ _ _ _ h1 (by simp only [List.length_take]; omega)
      · rw [Buf.store_length _ _ _ (by simp only [List.length_take]; omega)]; exact h3
      · intro _; exact ⟨by simp only; omega, by simp⟩
      · intro r hr'; simp only [hr] at hr'; cases hr'
    · exact hI.of_eq rfl rfl rfl rfl rfl
  rename_i hdir
  split
  · -- mini format full: terminate and return
    unfold deBail
    refine ⟨?_, h2, ?_, ?_, ?_⟩
    · exact Buf.store_hi _ _ _ _ h1 (by simp only [List.length_singleton]; omega)
    · rw [Buf.store_length _ _ _ (by simp only [List.length_singleton]; omega)]; exact h3
    · intro hn; simp at hn
    · intro r hr'
      simp only [Option.some.injEq] at hr'
      exact ⟨by omega, by omega, Buf.store_mem _ _ _ _ (by simp)⟩
  rename_i hfull
  have hm : s.mini.length + 3 ≤ MINI_FORMAT_STR_LEN := by
    unfold miniFull at hfull
    simp only [hg, Bool.true_and, decide_eq_true_eq] at hfull
    simp only [MINI_FORMAT_STR_LEN] at hfull ⊢
    omega
  have hpush : ∀ ch, DeInv strLen (miniPush cfg s ch) := by
    intro ch
    refine ⟨h1, ?_, h3, h4, h5⟩
    unfold miniPush
    simp only [h2, Bool.false_or, decide_eq_false_iff_not]
    omega
  have hpushEq : ∀ ch, (miniPush cfg s ch).buf = s.buf ∧ (miniPush cfg s ch).oob = false ∧
      (miniPush cfg s ch).loc = s.loc ∧ (miniPush cfg s ch).inDir = s.inDir ∧ (miniPush cfg s ch).ret = s.ret := by
    intro ch
    refine ⟨rfl, (hpush ch).2.1, rfl, rfl, rfl⟩
  have hsn : ∀ (a : DArg) (t : DeSt), t.buf = (deSnprintf cfg render strLen s c a).buf →
      t.oob = (deSnprintf cfg render strLen s c a).oob → t.ret = (deSnprintf cfg render strLen s c a).ret →
      DeInv strLen (deAfter cfg strLen t) := by
    intro a t e1 e2 e3
    obtain ⟨f1, f2, f3, f4⟩ := deSnprintf_facts cfg render strLen s c a h1 h2 h3 hloc (by omega)
    exact deAfter_inv cfg hc strLen hs t (by rw [e1]; exact f1) (by rw [e2]; exact f2) (by rw [e1]; exact f3)
      (by rw [e3, f4]; exact hr)
  simp only []
  split
  · exact hpush c
  · exact hpush c
  · exact hpush c
  · -- '*'
    split
    · exact hI.of_eq rfl rfl rfl rfl rfl
    · refine ⟨h1, ?_, h3, h4, h5⟩
      simp only [h2, Bool.false_or, decide_eq_false_iff_not]
      simp only [MINI_FORMAT_STR_LEN] at hm ⊢
      omega
  · split
    · exact (hpush c).of_eq rfl rfl rfl rfl rfl
    · exact (hpush c).of_eq rfl rfl rfl rfl rfl
  · split
    · exact (hpush c).of_eq rfl rfl rfl rfl rfl
    · exact (hpush c).of_eq rfl rfl rfl rfl rfl
  · split
    · exact (hpush c).of_eq rfl rfl rfl rfl rfl
    · exact (hpush c).of_eq rfl rfl rfl rfl rfl
  · split
    · exact (hpush c).of_eq rfl rfl rfl rfl rfl
    · exact (hpush c).of_eq rfl rfl rfl rfl rfl
  · split
    · exact hsn _ _ rfl rfl rfl
    · split
      · exact hsn _ _ rfl rfl rfl
      · exact hsn _ _ rfl rfl rfl
  · exact hsn _ _ rfl rfl rfl
  · exact hsn _ _ rfl rfl rfl
  · exact hsn _ _ rfl rfl rfl
  · exact hsn _ _ rfl rfl rfl
  · -- %%
    split
    · rename_i hlt
      have e1 : subSz strLen 1 = strLen - 1 := subSz_of_le hs
      rw [e1] at hlt
      apply deAfter_inv cfg hc strLen hs
      · exact Buf.store_hi _ _ _ _ h1 (by simp only [List.length_singleton]; omega)
      · exact h2
      · rw [Buf.store_length _ _ _ (by simp only [List.length_singleton]; omega)]; exact h3
      · exact hr
    · exact deAfter_inv cfg hc strLen hs _ h1 h2 h3 hr
  · -- no case label
    exact (deAfter_inv cfg hc strLen hs { s with inDir := false, run := [] } h1 h2 h3 hr).of_eq rfl rfl rfl rfl rfl

theorem deRun_inv (cfg : Cfg) (hc : cfg.clamp = true) (hg : cfg.miniGuard = true) (render : Render)
    (rec : Bytes) (strLen : Nat) (hs : 1 ≤ strLen) (s : DeSt) (f : Bytes) (h : DeInv strLen s) :
    DeInv strLen (deRun cfg render rec strLen s f) := by
  induction f generalizing s with
  | nil => exact h
  | cons c rest ih => exact ih _ (deStep_inv cfg hc hg render rec strLen hs s c _ h)

theorem deBail_inv (strLen : Nat) (s : DeSt) (h1 : s.buf.hi ≤ strLen) (h2 : s.oob = false)
    (h3 : s.buf.data.length = strLen) (hloc : s.loc < strLen) : DeInv strLen (deBail s) := by
  unfold deBail
  refine ⟨?_, h2, ?_, ?_, ?_⟩
  · exact Buf.store_hi _ _ _ _ h1 (by simp only [List.length_singleton]; omega)
  · rw [Buf.store_length _ _ _ (by simp only [List.length_singleton]; omega)]; exact h3
  · intro hn; simp at hn
  · intro r hr'
    simp only [Option.some.injEq] at hr'
    exact ⟨by omega, by omega, Buf.store_mem _ _ _ _ (by simp)⟩

theorem cstr_length_lt (d : Bytes) (h : (0 : UInt8) ∈ d) : (cstr d).length < d.length := by
  unfold cstr
  induction d with
  | nil => cases h
  | cons x xs ih =>
    by_cases hx : x = 0
    · subst hx; simp [List.takeWhile]
    · have : (0 : UInt8) ∈ xs := by
        cases h with
        | head => exact absurd rfl hx
        | tail _ h' => exact h'
      have ih' := ih this
      have e : List.takeWhile (fun x => decide (x ≠ 0)) (x :: xs)
          = x :: List.takeWhile (fun x => decide (x ≠ 0)) xs := by
        simp [hx]
      rw [e]
      simp only [List.length_cons]
      omega

theorem findIdx_zero_lt (d : Bytes) (h : (0 : UInt8) ∈ d) : d.findIdx (· = 0) < d.length := by
  induction d with
  | nil => cases h
  | cons x xs ih =>
    by_cases hx : x = 0
    · subst hx; simp [List.findIdx_cons]
    · have : (0 : UInt8) ∈ xs := by
        cases h with
        | head => exact absurd rfl hx
        | tail _ h' => exact h'
      have := ih this
      simp only [List.findIdx_cons, hx, decide_false, cond_false, List.length_cons]
      omega

/-- result of the whole decoder: stores inside the buffer and the mini format, return value in
    `1 … str_len`, string terminated inside the buffer -/
theorem deFinish_bounds (cfg : Cfg) (hc : cfg.clamp = true) (strLen : Nat) (hs : 1 ≤ strLen) (s : DeSt)
    (h : DeInv strLen s) :
    (deFinish cfg strLen s).hi ≤ strLen ∧ (deFinish cfg strLen s).oob = false ∧
    1 ≤ (deFinish cfg strLen s).ret ∧ (deFinish cfg strLen s).ret ≤ strLen ∧
    (deFinish cfg strLen s).text.length < strLen := by
  have hres : ∀ (t : DeSt) (r : Nat), DeInv strLen t → t.ret = some r →
      (t.result r).hi ≤ strLen ∧ (t.result r).oob = false ∧ 1 ≤ (t.result r).ret ∧ (t.result r).ret ≤ strLen ∧
      (t.result r).text.length < strLen := by
    intro t r ht hr
    obtain ⟨a1, a2, a3, _, a5⟩ := ht
    obtain ⟨b1, b2, b3⟩ := a5 r hr
    refine ⟨a1, by simp [DeSt.result, a2], b1, b2, ?_⟩
    have := cstr_length_lt _ b3
    simp only [DeSt.result]
    omega
  -- the final my_strlcat, from a state outside a conversion
  have hcat : ∀ (t : DeSt), DeInv strLen t → t.ret = none → t.inDir = false →
      ∀ res, res = (let curlen := t.buf.data.findIdx (· = 0)
        if curlen ≥ t.buf.data.length then t.result 0 true
        else
          let appendlen := subSz strLen curlen
          let b := if appendlen = 0 then t.buf
                   else t.buf.store curlen (t.run.take (min (appendlen - 1) t.run.length) ++ [0])
          let rc := curlen + t.run.length
          { t with buf := b }.result (min rc (subSz strLen 1) + 1)) →
      res.hi ≤ strLen ∧ res.oob = false ∧ 1 ≤ res.ret ∧ res.ret ≤ strLen ∧ res.text.length < strLen := by
    intro t ht hr hd res hres'
    obtain ⟨a1, a2, a3, a4, _⟩ := ht
    obtain ⟨_, hz⟩ := a4 hr
    have hz := hz hd
    have hcur := findIdx_zero_lt _ hz
    subst hres'
    simp only [Nat.not_le.mpr hcur, ge_iff_le, if_false]
    have e1 : subSz strLen (t.buf.data.findIdx (· = 0)) = strLen - t.buf.data.findIdx (· = 0) :=
      subSz_of_le (by omega)
    have e2 : subSz strLen 1 = strLen - 1 := subSz_of_le hs
    rw [e1, e2]
    have hne : ¬ (strLen - t.buf.data.findIdx (· = 0) = 0) := by omega
    simp only [hne, if_false, DeSt.result]
    refine ⟨?_, by simp [a2], by omega, by omega, ?_⟩
    · apply Buf.store_hi _ _ _ _ a1
      simp only [List.length_append, List.length_take, List.length_singleton]; omega
    · have hm : (0 : UInt8) ∈ (t.buf.store (t.buf.data.findIdx (· = 0))
          (t.run.take (min (strLen - t.buf.data.findIdx (· = 0) - 1) t.run.length) ++ [0])).data :=
        Buf.store_mem _ _ _ _ (by simp)
      have hl := Buf.store_length t.buf (t.buf.data.findIdx (· = 0))
          (t.run.take (min (strLen - t.buf.data.findIdx (· = 0) - 1) t.run.length) ++ [0])
          (by simp only [List.length_append, List.length_take, List.length_singleton]; omega)
      have := cstr_length_lt _ hm
      omega
  unfold deFinish
  split
  · rename_i r hr
    exact hres s r h hr
  · rename_i hr
    obtain ⟨h1, h2, h3, h4, h5⟩ := h
    obtain ⟨hloc, hz⟩ := h4 hr
    by_cases hd : s.inDir = true
    · simp only [hd, if_true]
      by_cases hf : miniFull cfg s = true
      · simp only [hf, if_true]
        have hb := deBail_inv strLen s h1 h2 h3 hloc
        have : (deBail s).ret = some (s.loc + 1) := rfl
        simp only [this]
        exact hres _ _ hb this
      · simp only [hf, Bool.false_eq_true, if_false]
        have ha := deAfter_inv cfg hc strLen hs { s with inDir := false, run := [] } h1 h2 h3 hr
        have hr' : (deAfter cfg strLen { s with inDir := false, run := [] }).ret = none := by
          unfold deAfter; simp only [hc, if_true]; exact hr
        have hd' : (deAfter cfg strLen { s with inDir := false, run := [] }).inDir = false := by
          unfold deAfter; simp only [hc, if_true]
        split
        · rename_i r hrr
          rw [hr'] at hrr; cases hrr
        · exact hcat _ ha hr' hd' _ rfl
    · have hd0 : s.inDir = false := by simpa using hd
      simp only [hd0, Bool.false_eq_true, if_false, hr]
      exact hcat s ⟨h1, h2, h3, h4, h5⟩ hr hd0 _ rfl

theorem deInit_inv (strLen : Nat) (hs : 1 ≤ strLen) (dpos : Nat) :
    DeInv strLen { loc := 0, dpos := dpos, buf := (Buf.mk (List.replicate strLen FILL) 0).store 0 [0],
                   run := [], mini := [], tl := false, tll := false, inDir := false, oob := false, ret := none } := by
  refine ⟨?_, rfl, ?_, ?_, ?_⟩
  · exact Buf.store_hi _ _ _ _ (Nat.zero_le _) (by simp only [List.length_singleton]; omega)
  · rw [Buf.store_length _ _ _ (by simp only [List.length_singleton, List.length_replicate]; omega)]
    simp
  · intro _; exact ⟨hs, fun _ => Buf.store_mem _ _ _ _ (by simp)⟩
  · intro r hr; cases hr

end QbVerif.Ser
