/-
The invariant `Track` along whole histories (C20): one call (`Track.step`), then induction over the
operation list (`track_run`), the state right after the create (`track_init`), the global invariant
along histories, and the decomposition of a history at the create of a given object.
-/
import QbVerif.Lemmas.HdbTrack

namespace QbVerif.Hdb
open QbVerif.Gen

/-! ### projections of one ledger step -/

theorem ledger_step_dtors (h K : Nat) (L : Ledger) (op : Op) (outs : List Out) :
    (L.step h K op outs).dtors = L.dtors + dtorCount K outs := by
  unfold Ledger.step
  by_cases hd : L.count ≤ 0
  · rw [if_pos hd]
  · rw [if_neg hd]
    cases op <;> simp only <;> (try split) <;> rfl

theorem ledger_step_dead {h K : Nat} {L : Ledger} (hd : ¬ 0 < L.count) (op : Op) (outs : List Out) :
    (L.step h K op outs).count = L.count ∧ (L.step h K op outs).destroys = L.destroys := by
  unfold Ledger.step
  have : L.count ≤ 0 := by omega
  rw [if_pos this]
  exact ⟨rfl, rfl⟩

theorem count_gets (L : Ledger) (n : Nat) :
    ({ L with gets := L.gets + 1, dtors := n } : Ledger).count = L.count + 1 := by
  simp only [Ledger.count]; omega

theorem count_puts (L : Ledger) (n : Nat) :
    ({ L with puts := L.puts + 1, dtors := n } : Ledger).count = L.count - 1 := by
  simp only [Ledger.count]; omega

theorem count_destroys (L : Ledger) (n : Nat) :
    ({ L with destroys := L.destroys + 1, dtors := n } : Ledger).count = L.count - 1 := by
  simp only [Ledger.count]; omega

theorem count_dtors (L : Ledger) (n : Nat) : ({ L with dtors := n } : Ledger).count = L.count := rfl

theorem got_contains (rc : Int) (inst : Option Nat) (K : Nat) :
    ([Out.got rc inst].contains (.got 0 (some K)) = true) ↔ (rc = 0 ∧ inst = some K) := by
  simp only [List.contains_cons, List.contains_nil, Bool.or_false, beq_iff_eq, Out.got.injEq]
  constructor
  · intro hh; exact ⟨hh.1.symm, hh.2.symm⟩
  · intro hh; exact ⟨hh.1.symm, hh.2.symm⟩

theorem ledger_step_get {h K : Nat} {L : Ledger} (ha : 0 < L.count) (h' : Nat) (rc : Int) (inst : Option Nat) :
    (L.step h K (.get h') [.got rc inst]).count
        = (if 0 < L.count ∧ rc = 0 ∧ inst = some K then L.count + 1 else L.count) ∧
    (L.step h K (.get h') [.got rc inst]).destroys = L.destroys := by
  unfold Ledger.step
  have : ¬ L.count ≤ 0 := by omega
  rw [if_neg this]
  simp only [ha, true_and]
  by_cases hc : rc = 0 ∧ inst = some K
  · rw [if_pos ((got_contains rc inst K).mpr hc), if_pos hc]
    exact ⟨count_gets L _, rfl⟩
  · rw [if_neg (fun hh => hc ((got_contains rc inst K).mp hh)), if_neg hc]
    exact ⟨rfl, rfl⟩

theorem ledger_step_getAlways {h K : Nat} {L : Ledger} (ha : 0 < L.count) (h' : Nat) (rc : Int) (inst : Option Nat) :
    (L.step h K (.getAlways h') [.got rc inst]).count
        = (if 0 < L.count ∧ rc = 0 ∧ inst = some K then L.count + 1 else L.count) ∧
    (L.step h K (.getAlways h') [.got rc inst]).destroys = L.destroys :=
  ledger_step_get (h := h) ha h' rc inst

theorem iter_any (rc : Int) (inst : Option Nat) (hv K : Nat) :
    ([Out.iter rc inst hv].any (Out.isIterOf K) = true) ↔ (rc = 0 ∧ inst = some K) := by
  simp [Out.isIterOf]

theorem ledger_step_iter {h K : Nat} {L : Ledger} (ha : 0 < L.count) (rc : Int) (inst : Option Nat) (hv : Nat) :
    (L.step h K .iterNext [.iter rc inst hv]).count
        = (if 0 < L.count ∧ rc = 0 ∧ inst = some K then L.count + 1 else L.count) ∧
    (L.step h K .iterNext [.iter rc inst hv]).destroys = L.destroys := by
  unfold Ledger.step
  have : ¬ L.count ≤ 0 := by omega
  rw [if_neg this]
  simp only [ha, true_and]
  by_cases hc : rc = 0 ∧ inst = some K
  · rw [if_pos ((iter_any rc inst hv K).mpr hc), if_pos hc]
    exact ⟨count_gets L _, rfl⟩
  · rw [if_neg (fun hh => hc ((iter_any rc inst hv K).mp hh)), if_neg hc]
    exact ⟨rfl, rfl⟩

theorem and_contains (b : Bool) (outs : List Out) (o : Out) :
    ((b && outs.contains o) = true) ↔ (b = true ∧ o ∈ outs) := by
  simp

theorem ledger_step_put {h K : Nat} {L : Ledger} (ha : 0 < L.count) (h' : Nat) (outs : List Out) :
    (L.step h K (.put h') outs).count
        = (if 0 < L.count ∧ addresses h' h = true ∧ (Out.rc 0) ∈ outs then L.count - 1 else L.count) ∧
    (L.step h K (.put h') outs).destroys = L.destroys := by
  unfold Ledger.step
  have : ¬ L.count ≤ 0 := by omega
  rw [if_neg this]
  simp only [ha, true_and]
  by_cases hc : addresses h' h = true ∧ (Out.rc 0) ∈ outs
  · rw [if_pos ((and_contains _ _ _).mpr hc), if_pos hc]
    exact ⟨count_puts L _, rfl⟩
  · rw [if_neg (fun hh => hc ((and_contains _ _ _).mp hh)), if_neg hc]
    exact ⟨rfl, rfl⟩

theorem ledger_step_destroy {h K : Nat} {L : Ledger} (ha : 0 < L.count) (h' : Nat) (outs : List Out) :
    (L.step h K (.destroy h') outs).count
        = (if 0 < L.count ∧ addresses h' h = true ∧ (Out.rc 0) ∈ outs then L.count - 1 else L.count) ∧
    (L.step h K (.destroy h') outs).destroys
        = (if 0 < L.count ∧ addresses h' h = true ∧ (Out.rc 0) ∈ outs then L.destroys + 1 else L.destroys) := by
  unfold Ledger.step
  have : ¬ L.count ≤ 0 := by omega
  rw [if_neg this]
  simp only [ha, true_and]
  by_cases hc : addresses h' h = true ∧ (Out.rc 0) ∈ outs
  · rw [if_pos ((and_contains _ _ _).mpr hc), if_pos hc, if_pos hc]
    exact ⟨count_destroys L _, rfl⟩
  · rw [if_neg (fun hh => hc ((and_contains _ _ _).mp hh)), if_neg hc, if_neg hc]
    exact ⟨rfl, rfl⟩

theorem ledger_step_other {h K : Nat} {L : Ledger} (op : Op) (outs : List Out)
    (hop : (∃ d, op = .create d) ∨ (∃ x, op = .refcount x) ∨ op = .iterReset ∨ op = .createFail) :
    (L.step h K op outs).count = L.count ∧ (L.step h K op outs).destroys = L.destroys := by
  unfold Ledger.step
  by_cases hd : L.count ≤ 0
  · rw [if_pos hd]; exact ⟨rfl, rfl⟩
  · rw [if_neg hd]
    rcases hop with ⟨d, rfl⟩ | ⟨x, rfl⟩ | rfl | rfl <;> exact ⟨rfl, rfl⟩

end QbVerif.Hdb
