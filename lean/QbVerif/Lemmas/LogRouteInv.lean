/-
The invariant behind property C12 and its preservation by every operation of the REPAIRED model
(`Variant.fixed`).  Core Lean only.

  MInv:  for every known call site and every slot, bit t of `cs->targets` = "some stored filter of
         target t matches the site"; the tag word of a site whose calls carry no own tags = value
         of the last matching stored tag filter; every ENABLED slot is ≤ `conf_active_max`;
         UNUSED slots hold no filters.
-/
import QbVerif.Lemmas.LogRoute

namespace QbVerif.LogRoute

open QbVerif.LogSpec

/-- tie to the regenerated constants: the model's bit mask has 32 bits, like `uint32_t targets`,
    and every target slot has a bit -/
theorem target_max_eq : TARGET_MAX = 32 := by decide
theorem target_bits_eq : QbVerif.Gen.LOGR_TARGET_BITS = 32 := by decide
theorem prio_emerg_eq : PRIO_EMERG = 0 := by decide

structure MInv (env : RxEnv) (U : List Call) (m : State) : Prop where
  amLt : m.activeMax < TARGET_MAX
  amGe : ∀ t, (m.cfg.tgt t).state = .enabled → t ≤ m.activeMax
  unusedNoFilters : ∀ t, (m.cfg.tgt t).state = .unused → (m.cfg.tgt t).filters = []
  confAdd : ∀ t, ∀ f ∈ (m.cfg.tgt t).filters, f.conf = .add
  confTag : ∀ f ∈ m.cfg.tagFilters, f.conf = .tagSet
  linePos : ∀ cs ∈ m.sites, 0 < cs.line
  bits : ∀ cs ∈ m.sites, ∀ t, t < TARGET_MAX → bitTest cs.targets t = selected env m.cfg t cs.id
  attrs : ∀ cs ∈ m.sites, ∀ c ∈ U, sameKey c cs = true →
    cs.func = c.func ∧ (c.tags = 0 → cs.tags = lastTag env cs.id 0 m.cfg.tagFilters)

theorem MInv.initial (env : RxEnv) (U : List Call) : MInv env U State.initial := by
  refine ⟨by decide, ?_, ?_, ?_, ?_, ?_, ?_, ?_⟩ <;> simp [State.initial, Cfg.initial]

theorem any_congr_mem {α : Type} (l : List α) (p q : α → Bool) (h : ∀ a ∈ l, p a = q a) :
    l.any p = l.any q := by
  induction l with
  | nil => rfl
  | cons a l ih =>
    simp only [List.any_cons]
    rw [h a (by simp), ih (fun b hb => h b (by simp [hb]))]

/-- when every stored filter of the target is an ADD filter, `selected` is "some filter matches" -/
theorem selected_eq_any (env : RxEnv) (cfg : Cfg) (t : Nat) (id : SiteId)
    (h : ∀ f ∈ (cfg.tgt t).filters, f.conf = .add) :
    selected env cfg t id = (cfg.tgt t).filters.any fun f => fMatches env f id := by
  unfold selected
  apply any_congr_mem
  intro f hf
  simp [h f hf]

/-! ### `_log_target_state_set` -/

theorem stateSet_filters (m : State) (t : Nat) (st : TState) (i : Nat) :
    ((stateSet m t st).cfg.tgt i).filters = (m.cfg.tgt i).filters := by
  simp only [stateSet]
  by_cases h : i = t
  · subst h; simp
  · simp [updTgt_other _ _ _ _ h]

theorem stateSet_state (m : State) (t : Nat) (st : TState) (i : Nat) :
    ((stateSet m t st).cfg.tgt i).state = if i = t then st else (m.cfg.tgt i).state := by
  simp only [stateSet]
  by_cases h : i = t
  · subst h; simp
  · simp [updTgt_other _ _ _ _ h, h]

theorem stateSet_selected (env : RxEnv) (m : State) (t : Nat) (st : TState) (i : Nat) (id : SiteId) :
    selected env (stateSet m t st).cfg i id = selected env m.cfg i id := by
  simp [selected, stateSet_filters]

theorem stateSet_inv {env : RxEnv} {U : List Call} {m : State} (h : MInv env U m) (t : Nat) (st : TState)
    (ht : t < TARGET_MAX) (hu : st = .unused → (m.cfg.tgt t).filters = []) :
    MInv env U (stateSet m t st) := by
  have hlt : ∀ j, ((stateSet m t st).cfg.tgt j).state = .enabled → j < TARGET_MAX := by
    intro j hj
    rw [stateSet_state] at hj
    by_cases hjt : j = t
    · subst hjt; exact ht
    · simp only [hjt, if_false] at hj
      have := h.amGe j hj
      have := h.amLt
      omega
  refine ⟨?_, ?_, ?_, ?_, h.confTag, h.linePos, ?_, h.attrs⟩
  · show (stateSet m t st).activeMax < TARGET_MAX
    simp only [stateSet]
    split
    · rename_i i hi
      exact (highestEnabled_some _ _ _ hi).1
    · exact h.amLt
  · intro j hj
    have hjlt := hlt j hj
    have hj' : ((updTgt m.cfg.tgt t { m.cfg.tgt t with state := st }) j).state = .enabled := hj
    show j ≤ (stateSet m t st).activeMax
    simp only [stateSet]
    split
    · rename_i i hi
      exact (highestEnabled_some _ _ _ hi).2.2 j hjlt hj'
    · rename_i hn
      exact absurd hj' (highestEnabled_none _ _ hn j hjlt)
  · intro j hj
    rw [stateSet_state] at hj
    rw [stateSet_filters]
    by_cases hjt : j = t
    · subst hjt
      simp only [if_true] at hj
      exact hu hj
    · simp only [hjt, if_false] at hj
      exact h.unusedNoFilters j hj
  · intro j f hf
    rw [stateSet_filters] at hf
    exact h.confAdd j f hf
  · intro cs hcs j hj
    rw [stateSet_selected]
    exact h.bits cs hcs j hj

theorem targetDisable_inv {env : RxEnv} {U : List Call} {m : State} (h : MInv env U m) (t : Nat)
    (ht : t < TARGET_MAX) : MInv env U (targetDisable m t) := by
  unfold targetDisable
  split
  · exact stateSet_inv h t .disabled ht (by simp)
  · exact h

theorem targetEnable_inv {env : RxEnv} {U : List Call} {m : State} (h : MInv env U m) (t : Nat)
    (ht : t < TARGET_MAX) : MInv env U (targetEnable m t) := by
  unfold targetEnable
  split
  · exact h
  · exact stateSet_inv h t .enabled ht (by simp)

/-! ### `_log_filter_apply_to_cs`, per configuration request -/

theorem any_removeFirst (q p : Filter → Bool) (l : List Filter)
    (h : ∀ g, (removeFirst p l).1 = some g → q g = false) :
    (removeFirst p l).2.any q = l.any q := by
  induction l with
  | nil => simp [removeFirst]
  | cons b l ih =>
    unfold removeFirst at h ⊢
    split
    · rename_i hp
      simp only [hp, if_true] at h
      simp [h b rfl]
    · rename_i hp
      simp only [hp] at h
      simp only [List.any_cons]
      rw [ih (by simpa using h)]

/-- a stored filter that a REMOVE / TAG_CLEAR request takes off the list matches only call sites
    that the request itself matches (same type, window inside the request's, text equal or "*") -/
theorem removed_matches_imp (env : RxEnv) (ty : FType) (text : Str) (hi lo : Nat) (g : Filter) (id : SiteId)
    (hg : removeCond ty text hi lo g = true) (hm : fMatches env g id = true) :
    csMatches env ty.isRegex ty text hi lo id = true := by
  simp only [removeCond, Bool.and_eq_true, beq_iff_eq, decide_eq_true_eq, Bool.or_eq_true] at hg
  obtain ⟨⟨⟨hty, hlo⟩, hhi⟩, htx⟩ := hg
  unfold fMatches csMatches at hm
  unfold csMatches
  by_cases hw : (id.prio > g.lo || id.prio < g.hi) = true
  · simp [hw] at hm
  · have hw' : (id.prio > lo || id.prio < hi) = false := by
      simp only [Bool.or_eq_true, decide_eq_true_eq, not_or, Nat.not_lt] at hw
      simp only [Bool.or_eq_false_iff, decide_eq_false_iff_not, Nat.not_lt]
      omega
    simp only [hw, hw'] at hm ⊢
    by_cases hs : (text == star) = true
    · simp [hs]
    · rcases htx with htx | htx
      · subst htx
        subst hty
        simpa using hm
      · exact absurd (by simp [htx]) hs

theorem csMatches_new (env : RxEnv) (c : FConf) (ty : FType) (text : Str) (hi lo t : Nat) (id : SiteId) :
    csMatches env ty.isRegex ty text hi lo id = fMatches env ⟨c, ty, text, hi, lo, t⟩ id := rfl

theorem applyToCs_id (env : RxEnv) (cfg : Cfg) (cs : Site) (t : Nat) (c : FConf) (ty : FType) (text : Str)
    (hr : Bool) (hi lo : Nat) (ht : c = .remove → t < 32)
    (hA : ∀ f ∈ (cfg.tgt t).filters, f.conf = .add) (hT : ∀ f ∈ cfg.tagFilters, f.conf = .tagSet) :
    (applyToCs env .fixed cfg cs t c ty text hr hi lo).id = cs.id ∧
    (applyToCs env .fixed cfg cs t c ty text hr hi lo).line = cs.line ∧
    (applyToCs env .fixed cfg cs t c ty text hr hi lo).func = cs.func := by
  cases c <;> simp only [applyToCs, Variant.fixed, if_true]
  · split <;> simp [Site.id]
  · split
    · have := applyTargetFilters_props env t (ht rfl) (cfg.tgt t).filters hA { cs with targets := bitClear cs.targets t }
      exact ⟨this.1, this.2.1, this.2.2.1⟩
    · simp
  · simp [Site.id]
  · split <;> simp [Site.id]
  · split
    · have := applyTagFilters_props env cfg.tagFilters hT { cs with tags := 0 }
      exact ⟨this.1, this.2.1, this.2.2.1⟩
    · simp
  · simp [Site.id]

/-- target requests (ADD / REMOVE / CLEAR_ALL) leave the tag word alone -/
theorem applyToCs_target_tags (env : RxEnv) (cfg : Cfg) (cs : Site) (t : Nat) (c : FConf) (ty : FType)
    (text : Str) (hr : Bool) (hi lo : Nat) (ht : t < 32) (hc : c = .add ∨ c = .remove ∨ c = .clearAll)
    (hA : ∀ f ∈ (cfg.tgt t).filters, f.conf = .add) :
    (applyToCs env .fixed cfg cs t c ty text hr hi lo).tags = cs.tags := by
  rcases hc with hc | hc | hc <;> subst hc <;> simp only [applyToCs, Variant.fixed, if_true]
  · split <;> simp
  · split
    · exact (applyTargetFilters_props env t ht (cfg.tgt t).filters hA _).2.2.2.1
    · simp

/-- tag requests leave the target bits alone -/
theorem applyToCs_tag_targets (env : RxEnv) (cfg : Cfg) (cs : Site) (t : Nat) (c : FConf) (ty : FType)
    (text : Str) (hr : Bool) (hi lo : Nat) (hc : c = .tagSet ∨ c = .tagClear ∨ c = .tagClearAll)
    (hT : ∀ f ∈ cfg.tagFilters, f.conf = .tagSet) :
    (applyToCs env .fixed cfg cs t c ty text hr hi lo).targets = cs.targets := by
  rcases hc with hc | hc | hc <;> subst hc <;> simp only [applyToCs, Variant.fixed, if_true]
  · split <;> simp
  · split
    · exact (applyTagFilters_props env cfg.tagFilters hT _).2.2.2.1
    · simp

theorem applyToCs_remove_bits (env : RxEnv) (cfg : Cfg) (cs : Site) (t : Nat) (ty : FType)
    (text : Str) (hr : Bool) (hi lo : Nat) (ht : t < 32)
    (hA : ∀ f ∈ (cfg.tgt t).filters, f.conf = .add) (i : Nat) :
    bitTest (applyToCs env .fixed cfg cs t .remove ty text hr hi lo).targets i =
      if csMatches env hr ty text hi lo cs.id then
        ((bitTest cs.targets i && !decide (i = t)) ||
          (decide (i = t) && (cfg.tgt t).filters.any fun f => fMatches env f cs.id))
      else bitTest cs.targets i := by
  simp only [applyToCs, Variant.fixed, if_true]
  split
  · have := (applyTargetFilters_props env t ht (cfg.tgt t).filters hA
      { cs with targets := bitClear cs.targets t }).2.2.2.2 i
    rw [this, bitTest_bitClear]
    rfl
  · rfl

theorem applyToCs_tagClear_tags (env : RxEnv) (cfg : Cfg) (cs : Site) (t : Nat) (ty : FType)
    (text : Str) (hr : Bool) (hi lo : Nat) (hT : ∀ f ∈ cfg.tagFilters, f.conf = .tagSet) :
    (applyToCs env .fixed cfg cs t .tagClear ty text hr hi lo).tags =
      if csMatches env hr ty text hi lo cs.id then lastTag env cs.id 0 cfg.tagFilters else cs.tags := by
  simp only [applyToCs, Variant.fixed, if_true]
  split
  · have := (applyTagFilters_props env cfg.tagFilters hT { cs with tags := 0 }).2.2.2.2
    rw [this]
    rfl
  · rfl

end QbVerif.LogRoute
