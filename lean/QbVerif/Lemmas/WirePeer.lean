/-
Invariant of the per-peer machine `Wire.Peer` (Model/Wire.lean) and its preservation by every
event; used by Props/C06.lean.  Core Lean only.
-/
import QbVerif.Lemmas.Wire

namespace QbVerif.Wire
open QbVerif.Gen

/-! ### the auth record -/

/-- the record is incomplete and the buffer is the union `data->msg` -/
def AuthInv (a : Auth) : Prop := a.processed < REQ ∧ a.buf.length = RESP

theorem authInv_init : AuthInv Auth.init := by
  refine ⟨req_pos, ?_⟩
  simp [Auth.init]

theorem writeAt_length {buf : List Nat} {off : Nat} {bs buf' : List Nat}
    (h : writeAt buf off bs = some buf') : buf'.length = buf.length := by
  unfold writeAt at h
  split at h
  · rename_i hle
    cases h
    simp only [List.length_append, List.length_take, List.length_drop]
    omega
  · cases h

theorem writeAt_isSome {buf : List Nat} {off : Nat} {bs : List Nat} (h : off + bs.length ≤ buf.length) :
    ∃ buf', writeAt buf off bs = some buf' := by
  unfold writeAt
  simp [h]

/-- what qb_ipc_us_recv_msghdr can do to a well-formed record: never a store outside the
    buffer; afterwards the record is complete or still well-formed -/
theorem recvMsghdr_cases (a : Auth) (k : Sock) (h : AuthInv a) :
    (recvMsghdr a k).2.2 ≠ RecvHdr.oob ∧
    (recvMsghdr a k).1.buf.length = RESP ∧
    ((recvMsghdr a k).2.2 = RecvHdr.complete → (recvMsghdr a k).1.processed = REQ) ∧
    ((recvMsghdr a k).2.2 ≠ RecvHdr.complete → AuthInv (recvMsghdr a k).1) := by
  obtain ⟨hp, hl⟩ := h
  have hlen : (k.q.take (min k.q.length (REQ - a.processed))).length = min k.q.length (REQ - a.processed) := by
    simp only [List.length_take]; omega
  have hfit : a.processed + (k.q.take (min k.q.length (REQ - a.processed))).length ≤ a.buf.length := by
    rw [hlen, hl]; have := req_le_resp; omega
  obtain ⟨buf', hw⟩ := writeAt_isSome hfit
  have hl' : buf'.length = RESP := by rw [writeAt_length hw, hl]
  unfold recvMsghdr
  simp only [hw]
  split
  · rename_i hc
    exact ⟨by simp, hl', fun _ => hc, fun hne => absurd rfl hne⟩
  · rename_i hc
    have hlt : a.processed + min k.q.length (REQ - a.processed) < REQ := by
      have : a.processed + min k.q.length (REQ - a.processed) ≠ REQ := hc
      omega
    split
    · refine ⟨by simp, hl', ?_, fun _ => ⟨hlt, hl'⟩⟩
      intro hx; cases hx
    · refine ⟨by simp, hl', ?_, fun _ => ⟨hlt, hl'⟩⟩
      intro hx; cases hx

/-- process_auth on a well-formed record: pending with a well-formed record, closed, or a
    complete record with the authenticate id; never out of bounds -/
theorem processAuth_total (credsOk : Bool) (a : Auth) (k : Sock) (w : Wake) (h : AuthInv a) :
    match processAuth credsOk a k w with
    | .pending a' _ => AuthInv a'
    | .closed => True
    | .newConn req _ => req.length = REQ ∧ hdrId req = IPC_MSG_AUTHENTICATE
    | .oob => False := by
  unfold processAuth
  by_cases h1 : w.svcDown = true
  · simp [h1]
  by_cases h2 : w.nval = true
  · simp [h1, h2]
  by_cases h3 : w.hup = true
  · simp [h1, h2, h3]
  by_cases h4 : w.inp = true
  · simp only [h1, h2, h3, h4, Bool.not_true]
    have hc := recvMsghdr_cases a k h
    rcases hr : recvMsghdr a k with ⟨a', k', o⟩
    rw [hr] at hc
    simp only [] at hc
    cases o with
    | oob => exact absurd rfl hc.1
    | again => exact hc.2.2.2 (by simp)
    | notconn => trivial
    | complete =>
      simp only []
      by_cases hcr : credsOk = true
      · by_cases hid : hdrId a'.buf = IPC_MSG_AUTHENTICATE
        · simp only [hcr, hid, Bool.not_true, ite_true]
          refine ⟨?_, ?_⟩
          · simp only [List.length_take]
            have := hc.2.1
            have := req_le_resp
            omega
          · -- the id lies inside the first REQ bytes
            unfold hdrId u32le at hid ⊢
            have hoff : IPC_HDR_ID_OFF + 4 ≤ REQ := Nat.le_trans id_in_hdr hdr_le_req
            have e0 : IPC_HDR_ID_OFF < REQ := by omega
            have e1 : IPC_HDR_ID_OFF + 1 < REQ := by omega
            have e2 : IPC_HDR_ID_OFF + 2 < REQ := by omega
            have e3 : IPC_HDR_ID_OFF + 3 < REQ := by omega
            simp only [List.getD_eq_getElem?_getD, List.getElem?_take, e0, e1, e2, e3, ite_true] at hid ⊢
            exact hid
        · simp [hcr, hid]
      · simp [hcr]
  · simp [h1, h2, h3, h4]
    exact h

/-! ### negotiated size -/
theorem negotiated_ge_hdr (svcMax reqMax : Nat) : HDR ≤ negotiated true svcMax reqMax := by
  unfold negotiated
  have := hdr_le_resp
  simp only [ite_true]
  omega

/-! ### invariant of one peer: state and the callbacks so far -/

/-- `tr` = all server callbacks for this peer so far -/
def PInv (cfg : Cfg) (s : PSt) (tr : List Cb) : Prop :=
  match s with
  | .hs a _ => tr = [] ∧ AuthInv a
  | .conn L _ _ => HDR ≤ L ∧ cfg.acceptRc = 0 ∧ ∃ msgs, tr = Cb.accept :: Cb.created :: msgs ∧ AllMsgOk msgs
  | .gone => tr = [] ∨ (cfg.acceptRc ≠ 0 ∧ tr = [Cb.accept, Cb.destroyed]) ∨
      (cfg.acceptRc = 0 ∧ ∃ msgs, tr = Cb.accept :: Cb.created :: msgs ++ [Cb.closed, Cb.destroyed] ∧ AllMsgOk msgs)
  | .bad => False

/-- outcome of a dispatch on an established connection: still connected (only well-bounded
    msg callbacks) or disconnected (msg callbacks, then closed, destroyed) -/
def ConnOut (L : Nat) (r : PSt × List Cb) : Prop :=
  (∃ k rq, r.1 = PSt.conn L k rq ∧ AllMsgOk r.2) ∨
  (r.1 = PSt.gone ∧ ∃ msgs, r.2 = msgs ++ discCbs ∧ AllMsgOk msgs)

theorem connReq_out (cfg : Cfg) (hf : cfg.fix = Fix.all) (L : Nat) (hL : HDR ≤ L) (k : Sock) (rq : List Req) :
    ConnOut L (connReq cfg L k rq) := by
  have h21 : cfg.fix.d21 = true := by rw [hf]; rfl
  have h22 : cfg.fix.d22 = true := by rw [hf]; rfl
  unfold connReq
  by_cases he : rq.isEmpty = true
  · simp only [he, ite_true]
    exact Or.inl ⟨k, rq, rfl, AllMsgOk.nil⟩
  · simp only [he]
    have hno := serveReqs_no_oob cfg h21 L hL (availOf rq) rq
    have hok := serveReqs_ok cfg h22 L (availOf rq) rq hno
    rcases hs : serveReqs cfg L (availOf rq) rq with ⟨rq', cbs, c, o⟩
    rw [hs] at hno hok
    simp only [] at hno hok
    cases o with
    | ok => exact Or.inl ⟨_, rq', rfl, hok⟩
    | disc => exact Or.inr ⟨rfl, cbs, rfl, hok⟩
    | oob => exact absurd rfl hno

theorem connLive_out (cfg : Cfg) (L : Nat) (k : Sock) (rq : List Req) (w : Wake) :
    ConnOut L (connLive cfg L k rq w) := by
  have hg : ConnOut L (PSt.gone, discCbs) := Or.inr ⟨rfl, [], rfl, AllMsgOk.nil⟩
  have hc : ∀ k', ConnOut L (PSt.conn L k' rq, []) := fun k' => Or.inl ⟨k', rq, rfl, AllMsgOk.nil⟩
  unfold connLive
  split
  · exact hg
  · split
    · exact hc _
    · split
      · split
        · exact hc _
        · split
          · exact hg
          · exact hc _
      · split
        · exact hc _
        · split
          · exact hg
          · exact hc _

theorem connOut_thenConn {L : Nat} {r : PSt × List Cb} (h1 : ConnOut L r)
    (f : Nat → Sock → List Req → PSt × List Cb) (hf : ∀ k rq, ConnOut L (f L k rq)) :
    ConnOut L (thenConn r f) := by
  rcases h1 with ⟨k, rq, hs, hm⟩ | ⟨hs, msgs, ht, hm⟩
  · rcases r with ⟨s, cbs⟩
    simp only [] at hs hm
    subst hs
    unfold thenConn
    simp only []
    rcases hf k rq with ⟨k2, rq2, hs2, hm2⟩ | ⟨hs2, msgs2, ht2, hm2⟩
    · exact Or.inl ⟨k2, rq2, hs2, AllMsgOk.append hm hm2⟩
    · refine Or.inr ⟨hs2, cbs ++ msgs2, ?_, AllMsgOk.append hm hm2⟩
      simp only [ht2, List.append_assoc]
  · rcases r with ⟨s, cbs⟩
    simp only [] at hs ht
    subst hs
    exact Or.inr ⟨rfl, msgs, ht, hm⟩

theorem connWake_out (cfg : Cfg) (hf : cfg.fix = Fix.all) (L : Nat) (hL : HDR ≤ L) (k : Sock) (rq : List Req)
    (w : Wake) : ConnOut L (connWake cfg L k rq w) := by
  unfold connWake
  split
  · split
    · exact Or.inr ⟨rfl, [], rfl, AllMsgOk.nil⟩
    · split
      · exact Or.inl ⟨k, rq, rfl, AllMsgOk.nil⟩
      · split
        · exact connLive_out cfg L k rq w
        · exact connReq_out cfg hf L hL k rq
  · split
    · exact connOut_thenConn (connReq_out cfg hf L hL k rq) _ (fun k' rq' => connLive_out cfg L k' rq' w)
    · exact connOut_thenConn (connLive_out cfg L k rq w) _ (fun k' rq' => connReq_out cfg hf L hL k' rq')

/-- a dispatch outcome extends the invariant of an established connection -/
theorem PInv_of_connOut {cfg : Cfg} {L : Nat} {tr : List Cb} {k : Sock} {rq : List Req}
    (h : PInv cfg (.conn L k rq) tr) {r : PSt × List Cb} (ho : ConnOut L r) : PInv cfg r.1 (tr ++ r.2) := by
  obtain ⟨hL, hacc, msgs, htr, hm⟩ := h
  rcases ho with ⟨k2, rq2, hs, hm2⟩ | ⟨hs, msgs2, ht, hm2⟩
  · rw [hs]
    refine ⟨hL, hacc, msgs ++ r.2, ?_, AllMsgOk.append hm hm2⟩
    rw [htr]; rfl
  · rw [hs]
    refine Or.inr (Or.inr ⟨hacc, msgs ++ msgs2, ?_, AllMsgOk.append hm hm2⟩)
    rw [htr, ht]
    simp [discCbs]

theorem hsWake_inv (cfg : Cfg) (hf : cfg.fix = Fix.all) (a : Auth) (k : Sock) (w : Wake) (h : AuthInv a) :
    PInv cfg (hsWake cfg a k w).1 (hsWake cfg a k w).2 := by
  have hp := processAuth_total cfg.credsOk a k w h
  unfold hsWake
  cases hr : processAuth cfg.credsOk a k w with
  | pending a' k' =>
    rw [hr] at hp
    exact ⟨rfl, hp⟩
  | closed => exact Or.inl rfl
  | oob => rw [hr] at hp; exact hp.elim
  | newConn req k' =>
    simp only []
    by_cases hacc : cfg.acceptRc = 0
    · simp only [hacc, ne_eq, not_true_eq_false, ite_false]
      refine ⟨?_, hacc, [], rfl, AllMsgOk.nil⟩
      rw [hf]
      exact negotiated_ge_hdr _ _
    · simp only [ne_eq, hacc, not_false_eq_true, ite_true]
      exact Or.inr (Or.inl ⟨hacc, rfl⟩)

theorem step_gone (cfg : Cfg) (e : PEv) : Peer.step cfg .gone e = (.gone, []) := by
  cases e <;> rfl

theorem step_bad (cfg : Cfg) (e : PEv) : Peer.step cfg .bad e = (.bad, []) := by
  cases e <;> rfl

/-- every event preserves the invariant (repaired code) -/
theorem PInv_step (cfg : Cfg) (hf : cfg.fix = Fix.all) (s : PSt) (tr : List Cb) (e : PEv)
    (h : PInv cfg s tr) : PInv cfg (Peer.step cfg s e).1 (tr ++ (Peer.step cfg s e).2) := by
  cases s with
  | gone => rw [step_gone, List.append_nil]; exact h
  | bad => exact h.elim
  | hs a k =>
    obtain ⟨htr, ha⟩ := h
    subst htr
    cases e with
    | write bs =>
      show PInv cfg (if k.eof then PSt.hs a k else PSt.hs a { k with q := k.q ++ bs }) ([] ++ [])
      split <;> exact ⟨rfl, ha⟩
    | shutWr => exact ⟨rfl, ha⟩
    | close => exact ⟨rfl, ha⟩
    | emit d stale => exact ⟨rfl, ha⟩
    | wake w =>
      show PInv cfg (hsWake cfg a k w).1 ([] ++ (hsWake cfg a k w).2)
      rw [List.nil_append]; exact hsWake_inv cfg hf a k w ha
    | poll =>
      show PInv cfg (hsWake cfg a k k.revents).1 ([] ++ (hsWake cfg a k k.revents).2)
      rw [List.nil_append]; exact hsWake_inv cfg hf a k k.revents ha
  | conn L k rq =>
    have hL := h.1
    cases e with
    | write bs =>
      show PInv cfg (if k.eof then PSt.conn L k rq else PSt.conn L { k with q := k.q ++ bs } rq) (tr ++ [])
      rw [List.append_nil]
      split <;> exact h
    | shutWr =>
      show PInv cfg (PSt.conn L { k with eof := true } rq) (tr ++ [])
      rw [List.append_nil]; exact h
    | close =>
      show PInv cfg (PSt.conn L { k with eof := true, hup := true } rq) (tr ++ [])
      rw [List.append_nil]; exact h
    | emit d stale =>
      show PInv cfg (if k.hup then (PSt.conn L k rq, ([] : List Cb)) else
          (PSt.conn L (if cfg.shm then { k with q := k.q ++ [120] } else k) (rq ++ [{ d := d, stale := stale }]), [])).1
        (tr ++ (if k.hup then (PSt.conn L k rq, ([] : List Cb)) else
          (PSt.conn L (if cfg.shm then { k with q := k.q ++ [120] } else k) (rq ++ [{ d := d, stale := stale }]), [])).2)
      split
      · rw [List.append_nil]; exact h
      · rw [List.append_nil]; exact h
    | wake w => exact PInv_of_connOut h (connWake_out cfg hf L hL k rq w)
    | poll => exact PInv_of_connOut h (connWake_out cfg hf L hL k rq k.revents)

/-- the invariant along every run -/
theorem PInv_runFrom (cfg : Cfg) (hf : cfg.fix = Fix.all) :
    ∀ (evs : List PEv) (s : PSt) (tr : List Cb), PInv cfg s tr →
      PInv cfg (Peer.runFrom cfg s evs).1 (tr ++ (Peer.runFrom cfg s evs).2) := by
  intro evs
  induction evs with
  | nil => intro s tr h; simpa [Peer.runFrom] using h
  | cons e es ih =>
    intro s tr h
    have h1 := PInv_step cfg hf s tr e h
    have h2 := ih (Peer.step cfg s e).1 (tr ++ (Peer.step cfg s e).2) h1
    simpa [Peer.runFrom, List.append_assoc] using h2

theorem PInv_init (cfg : Cfg) : PInv cfg Peer.init [] := ⟨rfl, authInv_init⟩

theorem PInv_run (cfg : Cfg) (hf : cfg.fix = Fix.all) (evs : List PEv) :
    PInv cfg (Peer.run cfg evs).1 (Peer.run cfg evs).2 := by
  have := PInv_runFrom cfg hf evs Peer.init [] (PInv_init cfg)
  simpa [Peer.run] using this

end QbVerif.Wire
