/-
Destructor invocations in the output stream of a whole history (C20): the ledger's `dtors` field is
the number of `dtor K` events after the create, and there is none before it.
-/
import QbVerif.Lemmas.HdbLedger

namespace QbVerif.Hdb
open QbVerif.Gen

theorem outsFrom_cons (st : St) (op : Op) (ops : List Op) :
    outsFrom st (op :: ops) = (st.step op).2 ++ outsFrom (st.step op).1 ops := rfl

theorem outsFrom_append (st : St) (a b : List Op) :
    outsFrom st (a ++ b) = outsFrom st a ++ outsFrom (runFrom st a) b := by
  induction a generalizing st with
  | nil => rfl
  | cons op a ih => rw [List.cons_append, outsFrom_cons, outsFrom_cons, ih, runFrom_cons, List.append_assoc]

/-- the ledger's destructor count = the `dtor K` events among the outputs of the history -/
theorem ledgerFrom_dtors (h K : Nat) (st : St) (L : Ledger) (ops : List Op) :
    (ledgerFrom h K st L ops).dtors = L.dtors + dtorCount K (outsFrom st ops) := by
  induction ops generalizing st L with
  | nil => simp [ledgerFrom, outsFrom, dtorCount]
  | cons op ops ih =>
    rw [ledgerFrom_cons, ih, ledger_step_dtors, outsFrom_cons]
    unfold dtorCount
    rw [List.count_append]
    omega

/-- no destructor event for an object number that has not been allocated by the end of the history -/
theorem no_dtor_before {st : St} (g : G st) (ops : List Op) {K : Nat} (hK : (runFrom st ops).nextObj ≤ K) :
    dtorCount K (outsFrom st ops) = 0 := by
  induction ops generalizing st with
  | nil => simp [outsFrom, dtorCount]
  | cons op ops ih =>
    rw [runFrom_cons] at hK
    rw [outsFrom_cons]
    unfold dtorCount
    rw [List.count_append]
    have h1 : List.count (Out.dtor (some K)) (st.step op).2 = 0 := by
      apply List.count_eq_zero.mpr
      intro hm
      have hlt := dtor_inst_lt g op K hm
      have hmono := nextObj_mono_step g op
      have hmono2 := nextObj_mono (G_step g op) ops
      omega
    have h2 := ih (G_step g op) hK
    unfold dtorCount at h2
    omega

/-- the outputs of a history that contains the create of object `K`, split at that create -/
theorem outs_split (pre : List Op) (d : List Nat) (post : List Op) :
    outs (pre ++ .create d :: post) =
      outsFrom St.init pre ++ ([((run pre).create d).2] ++ outsFrom (after pre d) post) := by
  unfold outs
  rw [outsFrom_append, outsFrom_cons]
  rfl

end QbVerif.Hdb
