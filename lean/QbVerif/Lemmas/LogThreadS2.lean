import QbVerif.Lemmas.LogThreadS1

/-! `SInv` (LogThreadS1) is preserved by every step of an application thread, given the control
invariant `Inv`: the target is disabled only by `qb_log_init` on an uninitialised logger, by
`qb_log_custom_open` of a closed target and at the end of `qb_log_fini` — and at those moments the queue is
empty and nobody is parked at the lock of `log_post`. -/
namespace QbVerif.LogThread

set_option linter.unusedSimpArgs false
set_option linter.unusedVariables false

/-- the facts of the control invariant the steady-state argument uses -/
structure SFacts (s : St) : Prop where
  null : s.lock = .null → s.queue = []
  act : s.active = true ↔ s.lock = .live
  nd : s.lock ≠ .dead
  guard : Pdone s ∨ s.c.pc = .joinP ∨ guarded s.c.prog = true
  excl : s.c.pc.inFini = true → Pdone s
  join : s.c.pc = .finiJoin → s.pcW = .done → s.queue = []
  cnogv : s.c.pc ≠ .finiGetvalue
  ppcs : s.p.pc = .idle ∨ s.p.pc.inLog = true
  plogs : ∀ op ∈ s.p.prog, op.isLog = true

theorem Inv.sfacts {cfg : Cfg} {s : St} (g : Inv cfg s) : SFacts s := by
  refine ⟨fun hl => (g.null_st hl).2.2.1, g.act, g.lock_nd, g.guard, fun hh => g.c_excl (Or.inr hh), ?_,
    g.c_nogv, g.p_pcs, g.p_logs⟩
  intro h1 h2
  have hl := g.need_c (by rw [h1]; rfl)
  obtain ⟨k, _, _, hx⟩ := g.tok hl
  exact (hx (by rw [h2]; rfl)).2

set_option maxHeartbeats 1000000 in
theorem sinv_cStep_idle (cfg : Cfg) (hf : Fixed cfg) (s : St) (g : SFacts s) (h : SInv s)
    (hpc : s.c.pc = .idle) : SInv (appStep cfg s .C) := by
  obtain ⟨hf1, hf2, hf3⟩ := hf
  obtain ⟨inited, tgtOpen, tgtEnabled, tgtThreaded, active, shouldExit, lock, owner, sem, startSem, queue,
    mem, droppedCtr, ⟨pcC, progC⟩, ⟨pcP, progP⟩, pcW, nextSeq, ignored, syncWritten, accepted, dropTotal,
    popped, written, discarded, reports, outcome, evs⟩ := s
  obtain ⟨g1, g2, g3, g4, g5, g6, g7, g8, g9⟩ := g
  obtain ⟨h1, h2, h3, h4, h5, h6⟩ := h
  simp only [Pdone] at *
  subst hpc
  cases progC with
  | nil => simpa [appStep, St.app] using (⟨h1, h2, h3, h4, h5, h6⟩ : SInv _)
  | cons op rest =>
    have hop : op.steady = true := h1 op (by simp)
    have hrest : ∀ op ∈ rest, op.steady = true := fun o ho => h1 o (by simp [ho])
    have hop' := hop
    cases op
    case enable b =>
      cases b
      · simp [Op.steady] at hop
      · cases inited <;> cases tgtOpen <;> cases tgtThreaded <;> cases lock <;>
          simp [appStep, St.app, St.setApp, beginOp, pauseLocks, ctlBody, St.lockCheck, St.ret, St.setPc,
            St.emit, St.crash, hf2, hf3] <;> (constructor <;> simp_all)
    case threaded b =>
      cases b
      · simp [Op.steady] at hop
      · cases inited <;> cases tgtOpen <;>
          simp [appStep, St.app, St.setApp, beginOp, St.ret, St.setPc, St.emit] <;> (constructor <;> simp_all)
    case fini =>
      have hP : pcP = .idle ∧ progP = [] := by
        rcases g4 with hh | hh | hh
        · exact hh
        · cases hh
        · simp [guarded] at hh
      obtain ⟨rfl, rfl⟩ := hP
      cases inited <;> cases active <;> cases lock <;> (try simp at g2) <;> (try simp at g3) <;>
        simp [appStep, St.app, St.setApp, beginOp, finiRest, St.lockCheck, St.ret, St.setPc,
          St.emit, St.crash, hf2, hf3] <;> (constructor <;> simp_all)
    case init =>
      cases inited <;>
        simp [appStep, St.app, St.setApp, beginOp, St.ret, St.setPc, St.emit] <;> (constructor <;> simp_all)
    case open_ =>
      cases inited <;> cases tgtOpen <;>
        simp [appStep, St.app, St.setApp, beginOp, St.ret, St.setPc, St.emit] <;> (constructor <;> simp_all)
    case ctl =>
      cases inited <;> cases tgtOpen <;> cases tgtThreaded <;> cases lock <;>
        simp [appStep, St.app, St.setApp, beginOp, pauseLocks, ctlBody, St.lockCheck, St.ret, St.setPc,
          St.emit, St.crash, hf2, hf3] <;> (constructor <;> simp_all)
    case start =>
      cases active <;>
        simp [appStep, St.app, St.setApp, beginOp, St.ret, St.setPc, St.emit] <;> (constructor <;> simp_all)
    case startfail =>
      cases active <;>
        simp [appStep, St.app, St.setApp, beginOp, St.ret, St.setPc, St.emit, hf3] <;> (constructor <;> simp_all)
    case log len =>
      cases inited <;> cases tgtOpen <;> cases tgtEnabled <;> cases tgtThreaded <;> cases lock <;>
        simp [appStep, St.app, St.setApp, beginOp, St.lockCheck, St.ret, St.setPc,
          St.emit, St.crash, hf2, hf3] <;> (constructor <;> simp_all)
    case joinp =>
      simp [appStep, St.app, St.setApp, beginOp, St.ret, St.setPc, St.emit]
      constructor <;> simp_all

end QbVerif.LogThread
