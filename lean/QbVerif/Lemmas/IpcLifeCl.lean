/-
C03 — client side: the liveness-driven loop of `qb_ipcc_sendv_recv` (Model/IpcLifeClient.lean,
`recvLoop`) terminates and is bounded, by induction on the fuel.
-/
import QbVerif.Model.IpcLifeClient

namespace QbVerif.IpcLife.Client

/-- one `qb_ipcc_recv(c, …, d)` on a connection that still counts as connected -/
theorem ipccRecv_cases (c : Cl) (d : Nat) (hconn : c.conn = true) (hstuck : c.stuck = false) :
    (0 < c.respQ ∧ ipccRecv c (some d) = ({ c with respQ := c.respQ - 1 }, .size)) ∨
    (c.respQ = 0 ∧ c.deathAt ≤ c.now + d ∧
      ipccRecv c (some d) = ({ c with now := c.now + d, conn := false }, .disc)) ∨
    (c.respQ = 0 ∧ c.now + d < c.deathAt ∧
      ipccRecv c (some d) = ({ c with now := c.now + d }, .etimedout)) := by
  by_cases hq : 0 < c.respQ
  · left
    refine ⟨hq, ?_⟩
    simp [ipccRecv, trRecv, hconn, hq]
  · have hq0 : c.respQ = 0 := by omega
    by_cases hd : c.deathAt ≤ c.now + d
    · right; left
      refine ⟨hq0, hd, ?_⟩
      simp [ipccRecv, trRecv, hconn, hq0, hstuck, checkTimedOut, Cl.hup, hd]
    · right; right
      refine ⟨hq0, by omega, ?_⟩
      simp [ipccRecv, trRecv, hconn, hq0, hstuck, checkTimedOut, Cl.hup, hd]

/-- what the loop may answer -/
def Rc.final : Rc → Bool
  | .size | .disc | .etimedout => true
  | .eagain => false

/-- `ms_timeout == -1`: the loop ends with the response or a disconnect error, no later than
    `QB_IPC_MAX_WAIT_MS` after the server's death (or after the start, if it was dead already) -/
theorem recvLoop_forever (fuel : Nat) (c : Cl) (rem : Nat) (hconn : c.conn = true) (hstuck : c.stuck = false)
    (hfuel : c.deathAt - c.now + 1 ≤ fuel) :
    (recvLoop fuel c none rem).1.stuck = false ∧
    ((recvLoop fuel c none rem).2 = .disc ∨ ((recvLoop fuel c none rem).2 = .size ∧ 0 < c.respQ)) ∧
    (recvLoop fuel c none rem).1.now ≤ max c.now c.deathAt + MAX_WAIT := by
  induction fuel generalizing c with
  | zero => omega
  | succ f ih =>
    obtain ⟨conn, respQ, now, deathAt, fix, stuck⟩ := c
    simp only at hconn hstuck hfuel
    subst hconn hstuck
    rcases ipccRecv_cases ⟨true, respQ, now, deathAt, fix, false⟩ MAX_WAIT rfl rfl with
      ⟨hq, he⟩ | ⟨hq, hd, he⟩ | ⟨hq, hd, he⟩
    · have hl : recvLoop (f + 1) ⟨true, respQ, now, deathAt, fix, false⟩ none rem =
          (⟨true, respQ - 1, now, deathAt, fix, false⟩, .size) := by
        simp only [recvLoop, Option.isNone_none, Bool.or_true, if_true, he]
      rw [hl]
      exact ⟨rfl, Or.inr ⟨rfl, hq⟩, by dsimp only; omega⟩
    · have hl : recvLoop (f + 1) ⟨true, respQ, now, deathAt, fix, false⟩ none rem =
          (⟨false, respQ, now + MAX_WAIT, deathAt, fix, false⟩, .disc) := by
        simp only [recvLoop, Option.isNone_none, Bool.or_true, if_true, he]
      rw [hl]
      exact ⟨rfl, Or.inl rfl, by dsimp only at hd ⊢; omega⟩
    · have hl : recvLoop (f + 1) ⟨true, respQ, now, deathAt, fix, false⟩ none rem =
          recvLoop f ⟨true, respQ, now + MAX_WAIT, deathAt, fix, false⟩ none rem := by
        simp only [recvLoop, Option.isNone_none, Bool.or_true, if_true, he]
      rw [hl]
      dsimp only at hq hd
      obtain ⟨h1, h2, h3⟩ := ih ⟨true, respQ, now + MAX_WAIT, deathAt, fix, false⟩ rfl rfl (by
        show deathAt - (now + MAX_WAIT) + 1 ≤ f
        unfold MAX_WAIT at *; omega)
      refine ⟨h1, ?_, ?_⟩
      · rcases h2 with h2 | ⟨_, h2⟩
        · exact Or.inl h2
        · exact absurd h2 (by show ¬ 0 < respQ; omega)
      · have h3' : (recvLoop f ⟨true, respQ, now + MAX_WAIT, deathAt, fix, false⟩ none rem).1.now ≤
            max (now + MAX_WAIT) deathAt + MAX_WAIT := h3
        dsimp only at h3' ⊢
        omega

/-- finite `ms_timeout`: the loop ends by the deadline `now + timeout_rem` -/
theorem recvLoop_finite (fuel : Nat) (c : Cl) (T rem : Nat) (hconn : c.conn = true) (hstuck : c.stuck = false)
    (hfuel : rem + 1 ≤ fuel) :
    (recvLoop fuel c (some T) rem).1.stuck = false ∧
    Rc.final (recvLoop fuel c (some T) rem).2 = true ∧
    (recvLoop fuel c (some T) rem).1.now ≤ c.now + rem := by
  induction fuel generalizing c rem with
  | zero => omega
  | succ f ih =>
    have htn : (if (decide (rem > MAX_WAIT) || (some T).isNone) = true then MAX_WAIT else rem) =
        (if rem > MAX_WAIT then MAX_WAIT else rem) := by
      by_cases h : rem > MAX_WAIT <;> simp [h]
    generalize htd : (if rem > MAX_WAIT then MAX_WAIT else rem) = tnow at htn
    have htn2 : (if (decide (rem > MAX_WAIT) || false) = true then MAX_WAIT else rem) = tnow := by
      rw [← htd]; by_cases h : rem > MAX_WAIT <;> simp [h]
    have htle : tnow ≤ rem := by
      subst htd; split <;> omega
    have htpos : 0 < rem → 0 < tnow := by
      intro h0; subst htd
      split
      · unfold MAX_WAIT; omega
      · exact h0
    obtain ⟨conn, respQ, now, deathAt, fix, stuck⟩ := c
    simp only at hconn hstuck
    subst hconn hstuck
    rcases ipccRecv_cases ⟨true, respQ, now, deathAt, fix, false⟩ tnow rfl rfl with
      ⟨hq, he⟩ | ⟨hq, hd, he⟩ | ⟨hq, hd, he⟩
    · have hl : recvLoop (f + 1) ⟨true, respQ, now, deathAt, fix, false⟩ (some T) rem =
          (⟨true, respQ - 1, now, deathAt, fix, false⟩, .size) := by
        simp only [recvLoop, htn, htn2, he]
      rw [hl]
      exact ⟨rfl, rfl, by dsimp only; omega⟩
    · have hl : recvLoop (f + 1) ⟨true, respQ, now, deathAt, fix, false⟩ (some T) rem =
          (⟨false, respQ, now + tnow, deathAt, fix, false⟩, .disc) := by
        simp only [recvLoop, htn, htn2, he]
      rw [hl]
      exact ⟨rfl, rfl, by dsimp only; omega⟩
    · by_cases hr : rem - tnow > 0
      · have hl : recvLoop (f + 1) ⟨true, respQ, now, deathAt, fix, false⟩ (some T) rem =
            recvLoop f ⟨true, respQ, now + tnow, deathAt, fix, false⟩ (some T) (rem - tnow) := by
          simp only [recvLoop, htn, htn2, he, Option.isNone_some, Bool.false_eq_true, if_false, hr, if_true]
        rw [hl]
        obtain ⟨h1, h2, h3⟩ := ih ⟨true, respQ, now + tnow, deathAt, fix, false⟩ (rem - tnow) rfl rfl (by
          have := htpos (by omega); omega)
        refine ⟨h1, h2, ?_⟩
        have h3' : (recvLoop f ⟨true, respQ, now + tnow, deathAt, fix, false⟩ (some T) (rem - tnow)).1.now ≤
            now + tnow + (rem - tnow) := h3
        dsimp only at h3' ⊢
        omega
      · have hl : recvLoop (f + 1) ⟨true, respQ, now, deathAt, fix, false⟩ (some T) rem =
            (⟨true, respQ, now + tnow, deathAt, fix, false⟩, .etimedout) := by
          simp only [recvLoop, htn, htn2, he, Option.isNone_some, Bool.false_eq_true, if_false, hr]
        rw [hl]
        exact ⟨rfl, rfl, by dsimp only; omega⟩

end QbVerif.IpcLife.Client
