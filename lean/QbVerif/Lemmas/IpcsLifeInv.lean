import QbVerif.Model.IpcsLife

/-!
C04 — the invariant of the repaired life-cycle model and its preservation by the primitive
state transformers (Model/IpcsLife.lean).

Per connection (`P`): the monitor flags are clear; the reference count is exactly the sum of its
owners (initial reference, application references, the created / dispatch / destroy-walk
brackets); the automaton phase determines connection state, closed state, whether the initial
reference is still held, freed and destroyed.  Globally (`Inv`): the three repairs are on; no
freed connection is in the service's list; the retry-job queue holds exactly the connections
whose closed state is RETRY, once each.
-/
namespace QbVerif.IpcsLife

def b2n (b : Bool) : Nat := if b then 1 else 0
@[simp] theorem b2n_true : b2n true = 1 := rfl
@[simp] theorem b2n_false : b2n false = 0 := rfl

def PhaseOk (k : Conn) : Prop :=
  match k.phase with
  | .none => k.st = .inactive ∧ k.cl = .todo ∧ k.init = false ∧ k.appref = 0 ∧ k.brCreated = false ∧
      k.brDispatch = false ∧ k.brWalk = false ∧ k.freed = false ∧ k.destroyed = false
  | .accepting => k.st = .inactive ∧ k.cl = .todo ∧ k.init = true ∧ k.freed = false ∧ k.destroyed = false
  | .rejected => k.st = .inactive ∧ k.cl = .todo ∧ k.init = false ∧ k.freed = false ∧ k.destroyed = false
  | .live => (k.st = .active ∨ k.st = .established) ∧ k.cl = .todo ∧ k.init = true ∧ k.freed = false ∧
      k.destroyed = false
  | .aborted => k.st = .inactive ∧ k.cl = .todo ∧ k.init = false ∧ k.freed = false ∧ k.destroyed = false
  | .closing => k.st = .shuttingDown ∧ k.cl ≠ .done ∧ k.init = true ∧ k.freed = false ∧ k.destroyed = false
  | .closedOk => k.st = .shuttingDown ∧ ((k.cl = .running ∧ k.init = true) ∨ (k.cl = .done ∧ k.init = false)) ∧
      k.freed = false ∧ k.destroyed = false
  | .dead => k.init = false ∧ k.appref = 0 ∧ k.brCreated = false ∧ k.brDispatch = false ∧ k.brWalk = false ∧
      k.destroyed = true ∧ (k.st = .inactive ∨ (k.st = .shuttingDown ∧ k.cl = .done)) ∧
      k.cl ≠ .running ∧ k.cl ≠ .retry

structure P (k : Conn) : Prop where
  nb : k.bad = false
  nu : k.uaf = false
  R : k.rc = b2n k.init + k.appref + b2n k.brCreated + b2n k.brDispatch + b2n k.brWalk
  ph : PhaseOk k
  fr : k.freed = true → k.phase = .dead

structure Inv (s : St) : Prop where
  fix : s.fixClosed = true ∧ s.fixDispatch = true ∧ s.fixWalk = true
  conn : ∀ i, P (s.conns i)
  lst : ∀ c, c ∈ s.list → (s.conns c).phase ≠ .dead
  jnd : s.jobs.Nodup
  job : ∀ c, c ∈ s.jobs ↔ (s.conns c).cl = .retry

/-- what a nested call may not change about a connection -/
structure FrameC (k k' : Conn) : Prop where
  b1 : k'.brCreated = k.brCreated
  b2 : k'.brDispatch = k.brDispatch
  b3 : k'.brWalk = k.brWalk
  run : k.cl = .running → k'.cl = .running ∧ k'.phase = k.phase
  dead : k.phase = .dead → k.freed = false → k'.phase = .dead ∧ k'.freed = false
  acc : k.phase = .accepting → k'.phase = .accepting
  non : k.phase = .none → k'.phase = .none
  nn : k.phase ≠ .none → k'.phase ≠ .none

def Frame (s s' : St) : Prop := ∀ i, FrameC (s.conns i) (s'.conns i)

theorem FrameC.refl (k : Conn) : FrameC k k :=
  ⟨rfl, rfl, rfl, fun h => ⟨h, rfl⟩, fun h h' => ⟨h, h'⟩, fun h => h, fun h => h, fun h => h⟩

theorem FrameC.trans {a b c : Conn} (h1 : FrameC a b) (h2 : FrameC b c) : FrameC a c where
  b1 := h2.b1.trans h1.b1
  b2 := h2.b2.trans h1.b2
  b3 := h2.b3.trans h1.b3
  run h := by
    have ⟨x, y⟩ := h1.run h
    have ⟨x', y'⟩ := h2.run x
    exact ⟨x', y'.trans y⟩
  dead h h' := by
    have ⟨x, y⟩ := h1.dead h h'
    exact h2.dead x y
  acc h := h2.acc (h1.acc h)
  non h := h2.non (h1.non h)
  nn h := h2.nn (h1.nn h)

theorem Frame.refl (s : St) : Frame s s := fun _ => FrameC.refl _
theorem Frame.trans {a b c : St} (h1 : Frame a b) (h2 : Frame b c) : Frame a c :=
  fun i => (h1 i).trans (h2 i)

/-! ### the primitive transformers -/

@[simp] theorem upd_conns (s : St) (c : Nat) (f : Conn → Conn) (i : Nat) :
    (s.upd c f).conns i = if i = c then f (s.conns i) else s.conns i := rfl
@[simp] theorem upd_list (s : St) (c : Nat) (f : Conn → Conn) : (s.upd c f).list = s.list := rfl
@[simp] theorem upd_jobs (s : St) (c : Nat) (f : Conn → Conn) : (s.upd c f).jobs = s.jobs := rfl
@[simp] theorem upd_halt (s : St) (c : Nat) (f : Conn → Conn) : (s.upd c f).halt = s.halt := rfl
@[simp] theorem upd_fix1 (s : St) (c : Nat) (f : Conn → Conn) : (s.upd c f).fixClosed = s.fixClosed := rfl
@[simp] theorem upd_fix2 (s : St) (c : Nat) (f : Conn → Conn) : (s.upd c f).fixDispatch = s.fixDispatch := rfl
@[simp] theorem upd_fix3 (s : St) (c : Nat) (f : Conn → Conn) : (s.upd c f).fixWalk = s.fixWalk := rfl
@[simp] theorem emit_conns (s : St) (e : Ev) : (s.emit e).conns = s.conns := rfl
@[simp] theorem emit_list (s : St) (e : Ev) : (s.emit e).list = s.list := rfl
@[simp] theorem emit_jobs (s : St) (e : Ev) : (s.emit e).jobs = s.jobs := rfl
@[simp] theorem emit_halt (s : St) (e : Ev) : (s.emit e).halt = s.halt := rfl

/-- a transformer that leaves connections, list, jobs and the variant alone -/
structure Same (s s' : St) : Prop where
  conns : s'.conns = s.conns
  list : s'.list = s.list
  jobs : s'.jobs = s.jobs
  f1 : s'.fixClosed = s.fixClosed
  f2 : s'.fixDispatch = s.fixDispatch
  f3 : s'.fixWalk = s.fixWalk

theorem Same.refl (s : St) : Same s s := ⟨rfl, rfl, rfl, rfl, rfl, rfl⟩
theorem Same.trans {a b c : St} (h1 : Same a b) (h2 : Same b c) : Same a c :=
  ⟨h2.conns.trans h1.conns, h2.list.trans h1.list, h2.jobs.trans h1.jobs,
   h2.f1.trans h1.f1, h2.f2.trans h1.f2, h2.f3.trans h1.f3⟩

theorem Same.inv {s s' : St} (h : Same s s') (hi : Inv s) : Inv s' where
  fix := by rw [h.f1, h.f2, h.f3]; exact hi.fix
  conn i := by rw [h.conns]; exact hi.conn i
  lst c hc := by rw [h.conns]; rw [h.list] at hc; exact hi.lst c hc
  jnd := by rw [h.jobs]; exact hi.jnd
  job c := by rw [h.jobs, h.conns]; exact hi.job c

theorem Same.frame {s s' : St} (h : Same s s') : Frame s s' := by
  intro i; rw [h.conns]; exact FrameC.refl _

theorem same_emit (s : St) (e : Ev) : Same s (s.emit e) := ⟨rfl, rfl, rfl, rfl, rfl, rfl⟩

theorem same_touchSvc (s : St) : Same s s.touchSvc := by
  unfold St.touchSvc; split <;> exact ⟨rfl, rfl, rfl, rfl, rfl, rfl⟩

theorem same_svcUnref (s : St) : Same s s.svcUnref := by
  have h := same_touchSvc s
  simp only [St.svcUnref]
  split
  · exact h
  · split <;> exact ⟨h.conns, h.list, h.jobs, h.f1, h.f2, h.f3⟩

theorem same_pop (s : St) (k : Kind) : Same s (s.pop k).2 := by
  cases k <;> simp only [St.pop] <;> split <;> exact ⟨rfl, rfl, rfl, rfl, rfl, rfl⟩

/-- touching a connection that is not freed changes nothing at all -/
theorem touch_eq (s : St) (c : Nat) (h : (s.conns c).freed = false) : s.touch c = s := by
  have hc : (fun i => if i = c then touchC (s.conns i) else s.conns i) = s.conns := by
    funext i
    by_cases hi : i = c
    · subst hi; simp [touchC, h]
    · simp [hi]
  cases s
  simp_all [St.touch, St.upd]

theorem dec_eq (s : St) (c : Nat) (g : Conn → Conn) (hh : s.halt = false)
    (hf : (s.conns c).freed = false) (hr : (s.conns c).rc ≠ 0) :
    s.dec c g = s.upd c fun k => g { k with rc := k.rc - 1 } := by
  simp [St.dec, touch_eq s c hf, hh, hr]

theorem ref_eq (s : St) (c : Nat) (g : Conn → Conn) (hh : s.halt = false)
    (hf : (s.conns c).freed = false) :
    s.ref c g = s.upd c fun k => g { k with rc := k.rc + 1 } := by
  simp [St.ref, touch_eq s c hf, hh]

theorem upd_upd (s : St) (c : Nat) (f g : Conn → Conn) :
    (s.upd c f).upd c g = s.upd c (fun k => g (f k)) := by
  cases s
  simp only [St.upd, St.mk.injEq, true_and, and_true]
  funext i
  by_cases hi : i = c <;> simp [hi]

/-- updating one connection: what has to be shown -/
theorem Inv.upd' {s : St} (hi : Inv s) (c : Nat) (f : Conn → Conn)
    (hp : P (f (s.conns c)))
    (hd : c ∈ s.list → (f (s.conns c)).phase ≠ .dead)
    (hre : (f (s.conns c)).cl = .retry ↔ (s.conns c).cl = .retry) : Inv (s.upd c f) where
  fix := hi.fix
  conn i := by
    by_cases h : i = c
    · subst h; simpa using hp
    · simpa [h] using hi.conn i
  lst x hx := by
    by_cases h : x = c
    · subst h; simpa using hd hx
    · simp [h]; exact hi.lst x hx
  jnd := hi.jnd
  job x := by
    by_cases h : x = c
    · subst h; simp [hre]; exact hi.job x
    · simp [h]; exact hi.job x

theorem Inv.upd {s : St} (hi : Inv s) (c : Nat) (f : Conn → Conn)
    (hp : P (f (s.conns c)))
    (hph : (f (s.conns c)).phase = .dead → (s.conns c).phase = .dead)
    (hre : (f (s.conns c)).cl = .retry ↔ (s.conns c).cl = .retry) : Inv (s.upd c f) :=
  hi.upd' c f hp (fun hx h => hi.lst c hx (hph h)) hre

theorem Inv.notFreed {s : St} (hi : Inv s) {c : Nat} (h : (s.conns c).phase ≠ .dead) :
    (s.conns c).freed = false := by
  cases hf : (s.conns c).freed
  · rfl
  · exact absurd ((hi.conn c).fr hf) h

theorem Frame.upd (s : St) (c : Nat) (f : Conn → Conn) (h : FrameC (s.conns c) (f (s.conns c))) :
    Frame s (s.upd c f) := by
  intro i
  by_cases hi : i = c
  · subst hi; simpa using h
  · simp [hi]; exact FrameC.refl _

end QbVerif.IpcsLife
