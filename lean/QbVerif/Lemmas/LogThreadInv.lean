import QbVerif.Model.LogThread

/-! Inductive invariant of the logging-thread model (repaired code), used by Props/C16.lean. -/
namespace QbVerif.LogThread

/-- the three repairs are in place -/
def Fixed (cfg : Cfg) : Prop := cfg.fixExit = true ∧ cfg.fixNull = true ∧ cfg.fixReset = true

def Op.isLog : Op → Bool
  | .log _ => true
  | _ => false

/-- a `log` operation whose record fits the backlog limit on its own -/
def Op.sizeOk (cfg : Cfg) : Op → Prop
  | .log len => cfg.recSize + len + 1 ≤ cfg.limit
  | _ => True

/-- controller program in which `joinp` comes before any `log` / `fini` -/
def guarded : List Op → Bool
  | [] => true
  | .joinp :: _ => true
  | .log _ :: _ => false
  | .fini :: _ => false
  | _ :: r => guarded r

/-- Usage contract: the producer thread only logs; if there is a producer thread, the controller
    joins it before it logs itself or finalises (one thread logs at a time, nobody logs while
    `qb_log_fini` runs); every message fits the backlog limit on its own. -/
structure WF (cfg : Cfg) (progC progP : List Op) : Prop where
  plogs : ∀ op ∈ progP, op.isLog = true
  guard : progP = [] ∨ guarded progC = true
  sizeC : ∀ op ∈ progC, op.sizeOk cfg
  sizeP : ∀ op ∈ progP, op.sizeOk cfg

def APc.holds : APc → Bool
  | .logUnlock => true | .logUnlockDrop => true | .ctlUnlock _ => true | .finiUnlock => true
  | _ => false

def APc.needsLock : APc → Bool
  | .idle => false | .joinP => false | .finiGetvalue => false
  | _ => true

def APc.inLog : APc → Bool
  | .logLock _ => true | .logUnlock => true | .logPost => true | .logUnlockDrop => true
  | _ => false

def APc.inFini : APc → Bool
  | .finiLock => true | .finiUnlock => true | .finiPost => true | .finiJoin => true
  | _ => false

/-- record appended, its token not yet posted -/
def APc.inflight : APc → Nat
  | .logUnlock => 1 | .logPost => 1
  | _ => 0

def APc.exitSet : APc → Bool
  | .finiUnlock => true | .finiPost => true | .finiJoin => true
  | _ => false

def WPc.holds : WPc → Bool
  | .unlock => true | .exitUnlock => true
  | _ => false

def WPc.looping : WPc → Bool
  | .startPost => true | .wait => true | .lock => true | .unlock => true
  | _ => false

def WPc.exiting : WPc → Bool
  | .exitUnlock => true | .done => true
  | _ => false

/-- the stopper has posted its token (`qb_log_thread_stop` is at pthread_join) -/
def APc.stopTok : APc → Nat
  | .finiJoin => 1
  | _ => 0

/-- the logging thread has taken a token off the semaphore and not yet acted on it -/
def WPc.tok : WPc → Nat
  | .lock => 1
  | _ => 0

/-- `qb_log_thread_start` is waiting for the logging thread's start signal -/
def APc.startTok : APc → Nat
  | .startWait => 1
  | _ => 0

/-- the logging thread has posted `logt_thread_start` -/
def WPc.posted : WPc → Nat
  | .startPost => 0
  | _ => 1

/-! per-constructor evaluation lemmas (the classification functions are not unfolded on variables) -/

@[simp] theorem APc.holds_idle : APc.idle.holds = false := rfl
@[simp] theorem APc.holds_logLock (x) : (APc.logLock x).holds = false := rfl
@[simp] theorem APc.holds_logUnlock : APc.logUnlock.holds = true := rfl
@[simp] theorem APc.holds_logPost : APc.logPost.holds = false := rfl
@[simp] theorem APc.holds_logUnlockDrop : APc.logUnlockDrop.holds = true := rfl
@[simp] theorem APc.holds_ctlLock (x) : (APc.ctlLock x).holds = false := rfl
@[simp] theorem APc.holds_ctlUnlock (x) : (APc.ctlUnlock x).holds = true := rfl
@[simp] theorem APc.holds_startWait : APc.startWait.holds = false := rfl
@[simp] theorem APc.holds_finiLock : APc.finiLock.holds = false := rfl
@[simp] theorem APc.holds_finiUnlock : APc.finiUnlock.holds = true := rfl
@[simp] theorem APc.holds_finiPost : APc.finiPost.holds = false := rfl
@[simp] theorem APc.holds_finiJoin : APc.finiJoin.holds = false := rfl
@[simp] theorem APc.holds_finiGetvalue : APc.finiGetvalue.holds = false := rfl
@[simp] theorem APc.holds_joinP : APc.joinP.holds = false := rfl
@[simp] theorem APc.needsLock_idle : APc.idle.needsLock = false := rfl
@[simp] theorem APc.needsLock_logLock (x) : (APc.logLock x).needsLock = true := rfl
@[simp] theorem APc.needsLock_logUnlock : APc.logUnlock.needsLock = true := rfl
@[simp] theorem APc.needsLock_logPost : APc.logPost.needsLock = true := rfl
@[simp] theorem APc.needsLock_logUnlockDrop : APc.logUnlockDrop.needsLock = true := rfl
@[simp] theorem APc.needsLock_ctlLock (x) : (APc.ctlLock x).needsLock = true := rfl
@[simp] theorem APc.needsLock_ctlUnlock (x) : (APc.ctlUnlock x).needsLock = true := rfl
@[simp] theorem APc.needsLock_startWait : APc.startWait.needsLock = true := rfl
@[simp] theorem APc.needsLock_finiLock : APc.finiLock.needsLock = true := rfl
@[simp] theorem APc.needsLock_finiUnlock : APc.finiUnlock.needsLock = true := rfl
@[simp] theorem APc.needsLock_finiPost : APc.finiPost.needsLock = true := rfl
@[simp] theorem APc.needsLock_finiJoin : APc.finiJoin.needsLock = true := rfl
@[simp] theorem APc.needsLock_finiGetvalue : APc.finiGetvalue.needsLock = false := rfl
@[simp] theorem APc.needsLock_joinP : APc.joinP.needsLock = false := rfl
@[simp] theorem APc.inLog_idle : APc.idle.inLog = false := rfl
@[simp] theorem APc.inLog_logLock (x) : (APc.logLock x).inLog = true := rfl
@[simp] theorem APc.inLog_logUnlock : APc.logUnlock.inLog = true := rfl
@[simp] theorem APc.inLog_logPost : APc.logPost.inLog = true := rfl
@[simp] theorem APc.inLog_logUnlockDrop : APc.logUnlockDrop.inLog = true := rfl
@[simp] theorem APc.inLog_ctlLock (x) : (APc.ctlLock x).inLog = false := rfl
@[simp] theorem APc.inLog_ctlUnlock (x) : (APc.ctlUnlock x).inLog = false := rfl
@[simp] theorem APc.inLog_startWait : APc.startWait.inLog = false := rfl
@[simp] theorem APc.inLog_finiLock : APc.finiLock.inLog = false := rfl
@[simp] theorem APc.inLog_finiUnlock : APc.finiUnlock.inLog = false := rfl
@[simp] theorem APc.inLog_finiPost : APc.finiPost.inLog = false := rfl
@[simp] theorem APc.inLog_finiJoin : APc.finiJoin.inLog = false := rfl
@[simp] theorem APc.inLog_finiGetvalue : APc.finiGetvalue.inLog = false := rfl
@[simp] theorem APc.inLog_joinP : APc.joinP.inLog = false := rfl
@[simp] theorem APc.inFini_idle : APc.idle.inFini = false := rfl
@[simp] theorem APc.inFini_logLock (x) : (APc.logLock x).inFini = false := rfl
@[simp] theorem APc.inFini_logUnlock : APc.logUnlock.inFini = false := rfl
@[simp] theorem APc.inFini_logPost : APc.logPost.inFini = false := rfl
@[simp] theorem APc.inFini_logUnlockDrop : APc.logUnlockDrop.inFini = false := rfl
@[simp] theorem APc.inFini_ctlLock (x) : (APc.ctlLock x).inFini = false := rfl
@[simp] theorem APc.inFini_ctlUnlock (x) : (APc.ctlUnlock x).inFini = false := rfl
@[simp] theorem APc.inFini_startWait : APc.startWait.inFini = false := rfl
@[simp] theorem APc.inFini_finiLock : APc.finiLock.inFini = true := rfl
@[simp] theorem APc.inFini_finiUnlock : APc.finiUnlock.inFini = true := rfl
@[simp] theorem APc.inFini_finiPost : APc.finiPost.inFini = true := rfl
@[simp] theorem APc.inFini_finiJoin : APc.finiJoin.inFini = true := rfl
@[simp] theorem APc.inFini_finiGetvalue : APc.finiGetvalue.inFini = false := rfl
@[simp] theorem APc.inFini_joinP : APc.joinP.inFini = false := rfl
@[simp] theorem APc.inflight_idle : APc.idle.inflight = 0 := rfl
@[simp] theorem APc.inflight_logLock (x) : (APc.logLock x).inflight = 0 := rfl
@[simp] theorem APc.inflight_logUnlock : APc.logUnlock.inflight = 1 := rfl
@[simp] theorem APc.inflight_logPost : APc.logPost.inflight = 1 := rfl
@[simp] theorem APc.inflight_logUnlockDrop : APc.logUnlockDrop.inflight = 0 := rfl
@[simp] theorem APc.inflight_ctlLock (x) : (APc.ctlLock x).inflight = 0 := rfl
@[simp] theorem APc.inflight_ctlUnlock (x) : (APc.ctlUnlock x).inflight = 0 := rfl
@[simp] theorem APc.inflight_startWait : APc.startWait.inflight = 0 := rfl
@[simp] theorem APc.inflight_finiLock : APc.finiLock.inflight = 0 := rfl
@[simp] theorem APc.inflight_finiUnlock : APc.finiUnlock.inflight = 0 := rfl
@[simp] theorem APc.inflight_finiPost : APc.finiPost.inflight = 0 := rfl
@[simp] theorem APc.inflight_finiJoin : APc.finiJoin.inflight = 0 := rfl
@[simp] theorem APc.inflight_finiGetvalue : APc.finiGetvalue.inflight = 0 := rfl
@[simp] theorem APc.inflight_joinP : APc.joinP.inflight = 0 := rfl
@[simp] theorem APc.exitSet_idle : APc.idle.exitSet = false := rfl
@[simp] theorem APc.exitSet_logLock (x) : (APc.logLock x).exitSet = false := rfl
@[simp] theorem APc.exitSet_logUnlock : APc.logUnlock.exitSet = false := rfl
@[simp] theorem APc.exitSet_logPost : APc.logPost.exitSet = false := rfl
@[simp] theorem APc.exitSet_logUnlockDrop : APc.logUnlockDrop.exitSet = false := rfl
@[simp] theorem APc.exitSet_ctlLock (x) : (APc.ctlLock x).exitSet = false := rfl
@[simp] theorem APc.exitSet_ctlUnlock (x) : (APc.ctlUnlock x).exitSet = false := rfl
@[simp] theorem APc.exitSet_startWait : APc.startWait.exitSet = false := rfl
@[simp] theorem APc.exitSet_finiLock : APc.finiLock.exitSet = false := rfl
@[simp] theorem APc.exitSet_finiUnlock : APc.finiUnlock.exitSet = true := rfl
@[simp] theorem APc.exitSet_finiPost : APc.finiPost.exitSet = true := rfl
@[simp] theorem APc.exitSet_finiJoin : APc.finiJoin.exitSet = true := rfl
@[simp] theorem APc.exitSet_finiGetvalue : APc.finiGetvalue.exitSet = false := rfl
@[simp] theorem APc.exitSet_joinP : APc.joinP.exitSet = false := rfl
@[simp] theorem APc.stopTok_idle : APc.idle.stopTok = 0 := rfl
@[simp] theorem APc.stopTok_logLock (x) : (APc.logLock x).stopTok = 0 := rfl
@[simp] theorem APc.stopTok_logUnlock : APc.logUnlock.stopTok = 0 := rfl
@[simp] theorem APc.stopTok_logPost : APc.logPost.stopTok = 0 := rfl
@[simp] theorem APc.stopTok_logUnlockDrop : APc.logUnlockDrop.stopTok = 0 := rfl
@[simp] theorem APc.stopTok_ctlLock (x) : (APc.ctlLock x).stopTok = 0 := rfl
@[simp] theorem APc.stopTok_ctlUnlock (x) : (APc.ctlUnlock x).stopTok = 0 := rfl
@[simp] theorem APc.stopTok_startWait : APc.startWait.stopTok = 0 := rfl
@[simp] theorem APc.stopTok_finiLock : APc.finiLock.stopTok = 0 := rfl
@[simp] theorem APc.stopTok_finiUnlock : APc.finiUnlock.stopTok = 0 := rfl
@[simp] theorem APc.stopTok_finiPost : APc.finiPost.stopTok = 0 := rfl
@[simp] theorem APc.stopTok_finiJoin : APc.finiJoin.stopTok = 1 := rfl
@[simp] theorem APc.stopTok_finiGetvalue : APc.finiGetvalue.stopTok = 0 := rfl
@[simp] theorem APc.stopTok_joinP : APc.joinP.stopTok = 0 := rfl
@[simp] theorem WPc.holds_none : WPc.none.holds = false := rfl
@[simp] theorem WPc.holds_startPost : WPc.startPost.holds = false := rfl
@[simp] theorem WPc.holds_wait : WPc.wait.holds = false := rfl
@[simp] theorem WPc.holds_lock : WPc.lock.holds = false := rfl
@[simp] theorem WPc.holds_getvalue : WPc.getvalue.holds = false := rfl
@[simp] theorem WPc.holds_unlock : WPc.unlock.holds = true := rfl
@[simp] theorem WPc.holds_exitUnlock : WPc.exitUnlock.holds = true := rfl
@[simp] theorem WPc.holds_done : WPc.done.holds = false := rfl
@[simp] theorem WPc.looping_none : WPc.none.looping = false := rfl
@[simp] theorem WPc.looping_startPost : WPc.startPost.looping = true := rfl
@[simp] theorem WPc.looping_wait : WPc.wait.looping = true := rfl
@[simp] theorem WPc.looping_lock : WPc.lock.looping = true := rfl
@[simp] theorem WPc.looping_getvalue : WPc.getvalue.looping = false := rfl
@[simp] theorem WPc.looping_unlock : WPc.unlock.looping = true := rfl
@[simp] theorem WPc.looping_exitUnlock : WPc.exitUnlock.looping = false := rfl
@[simp] theorem WPc.looping_done : WPc.done.looping = false := rfl
@[simp] theorem WPc.exiting_none : WPc.none.exiting = false := rfl
@[simp] theorem WPc.exiting_startPost : WPc.startPost.exiting = false := rfl
@[simp] theorem WPc.exiting_wait : WPc.wait.exiting = false := rfl
@[simp] theorem WPc.exiting_lock : WPc.lock.exiting = false := rfl
@[simp] theorem WPc.exiting_getvalue : WPc.getvalue.exiting = false := rfl
@[simp] theorem WPc.exiting_unlock : WPc.unlock.exiting = false := rfl
@[simp] theorem WPc.exiting_exitUnlock : WPc.exitUnlock.exiting = true := rfl
@[simp] theorem WPc.exiting_done : WPc.done.exiting = true := rfl
@[simp] theorem WPc.tok_none : WPc.none.tok = 0 := rfl
@[simp] theorem WPc.tok_startPost : WPc.startPost.tok = 0 := rfl
@[simp] theorem WPc.tok_wait : WPc.wait.tok = 0 := rfl
@[simp] theorem WPc.tok_lock : WPc.lock.tok = 1 := rfl
@[simp] theorem WPc.tok_getvalue : WPc.getvalue.tok = 0 := rfl
@[simp] theorem WPc.tok_unlock : WPc.unlock.tok = 0 := rfl
@[simp] theorem WPc.tok_exitUnlock : WPc.exitUnlock.tok = 0 := rfl
@[simp] theorem WPc.tok_done : WPc.done.tok = 0 := rfl

@[simp] theorem APc.startTok_idle : APc.idle.startTok = 0 := rfl
@[simp] theorem APc.startTok_logLock (x) : (APc.logLock x).startTok = 0 := rfl
@[simp] theorem APc.startTok_logUnlock : APc.logUnlock.startTok = 0 := rfl
@[simp] theorem APc.startTok_logPost : APc.logPost.startTok = 0 := rfl
@[simp] theorem APc.startTok_logUnlockDrop : APc.logUnlockDrop.startTok = 0 := rfl
@[simp] theorem APc.startTok_ctlLock (x) : (APc.ctlLock x).startTok = 0 := rfl
@[simp] theorem APc.startTok_ctlUnlock (x) : (APc.ctlUnlock x).startTok = 0 := rfl
@[simp] theorem APc.startTok_startWait : APc.startWait.startTok = 1 := rfl
@[simp] theorem APc.startTok_finiLock : APc.finiLock.startTok = 0 := rfl
@[simp] theorem APc.startTok_finiUnlock : APc.finiUnlock.startTok = 0 := rfl
@[simp] theorem APc.startTok_finiPost : APc.finiPost.startTok = 0 := rfl
@[simp] theorem APc.startTok_finiJoin : APc.finiJoin.startTok = 0 := rfl
@[simp] theorem APc.startTok_finiGetvalue : APc.finiGetvalue.startTok = 0 := rfl
@[simp] theorem APc.startTok_joinP : APc.joinP.startTok = 0 := rfl
@[simp] theorem WPc.posted_none : WPc.none.posted = 1 := rfl
@[simp] theorem WPc.posted_startPost : WPc.startPost.posted = 0 := rfl
@[simp] theorem WPc.posted_wait : WPc.wait.posted = 1 := rfl
@[simp] theorem WPc.posted_lock : WPc.lock.posted = 1 := rfl
@[simp] theorem WPc.posted_getvalue : WPc.getvalue.posted = 1 := rfl
@[simp] theorem WPc.posted_unlock : WPc.unlock.posted = 1 := rfl
@[simp] theorem WPc.posted_exitUnlock : WPc.exitUnlock.posted = 1 := rfl
@[simp] theorem WPc.posted_done : WPc.done.posted = 1 := rfl
theorem APc.startTok_pos {pc : APc} (h : 0 < pc.startTok) : pc = .startWait := by cases pc <;> simp_all
theorem APc.startTok_le (pc : APc) : pc.startTok ≤ 1 := by cases pc <;> simp
theorem WPc.looping_of_not_exiting {w : WPc} (h1 : w ≠ .none) (h2 : w ≠ .getvalue) (h3 : w.exiting = false) :
    w.looping = true := by cases w <;> simp_all
theorem WPc.not_exiting_of_looping {w : WPc} (h : w.looping = true) : w.exiting = false := by cases w <;> simp_all
theorem WPc.posted_le (w : WPc) : w.posted ≤ 1 := by cases w <;> simp
theorem WPc.posted_zero {w : WPc} (h : w.posted = 0) : w = .startPost := by cases w <;> simp_all
theorem APc.stopTok_le (pc : APc) : pc.stopTok ≤ 1 := by cases pc <;> simp
theorem APc.inflight_le (pc : APc) : pc.inflight ≤ 1 := by cases pc <;> simp
theorem WPc.tok_le (pc : WPc) : pc.tok ≤ 1 := by cases pc <;> simp
theorem APc.stopTok_pos {pc : APc} (h : 0 < pc.stopTok) : pc = .finiJoin := by cases pc <;> simp_all
theorem APc.stopTok_exitSet {pc : APc} (h : 0 < pc.stopTok) : pc.exitSet = true := by cases pc <;> simp_all
theorem APc.inflight_inLog {pc : APc} (h : 0 < pc.inflight) : pc.inLog = true := by cases pc <;> simp_all
theorem APc.holds_needsLock {pc : APc} (h : pc.holds = true) : pc.needsLock = true := by cases pc <;> simp_all
theorem APc.inLog_needsLock {pc : APc} (h : pc.inLog = true) : pc.needsLock = true := by cases pc <;> simp_all
theorem APc.inFini_needsLock {pc : APc} (h : pc.inFini = true) : pc.needsLock = true := by cases pc <;> simp_all
theorem APc.exitSet_inFini {pc : APc} (h : pc.exitSet = true) : pc.inFini = true := by cases pc <;> simp_all


def Pdone (s : St) : Prop := s.p.pc = .idle ∧ s.p.prog = []

/-- the sequence number a thread parked at `logLock` carries -/
def APc.pending : APc → Option Rec
  | .logLock r => some r
  | _ => none

/-- control skeleton, lock/semaphore life cycle, token and memory accounting -/
structure Inv (cfg : Cfg) (s : St) : Prop where
  running : s.outcome = .running
  lock_nd : s.lock ≠ .dead
  act : s.active = true ↔ s.lock = .live
  w_none : s.pcW = .none ↔ s.lock = .null
  w_nogv : s.pcW ≠ .getvalue
  null_st : s.lock = .null → s.owner = none ∧ s.shouldExit = false ∧ s.queue = [] ∧ s.droppedCtr = 0
  own_c : s.owner = some .C ↔ s.c.pc.holds = true
  own_p : s.owner = some .P ↔ s.p.pc.holds = true
  own_w : s.owner = some .W ↔ s.pcW.holds = true
  need_c : s.c.pc.needsLock = true → s.lock = .live
  need_p : s.p.pc.needsLock = true → s.lock = .live
  c_nogv : s.c.pc ≠ .finiGetvalue
  p_pcs : s.p.pc = .idle ∨ s.p.pc.inLog = true
  p_logs : ∀ op ∈ s.p.prog, op.isLog = true
  exit_iff : s.shouldExit = true ↔ s.c.pc.exitSet = true
  c_excl : (s.c.pc.inLog = true ∨ s.c.pc.inFini = true) → Pdone s
  wexit : s.pcW.exiting = true → s.c.pc = .finiJoin
  guard : Pdone s ∨ s.c.pc = .joinP ∨ guarded s.c.prog = true
  wsp : s.pcW = .startPost → s.c.pc = .startWait
  hs : s.lock = .live → s.startSem = some (s.c.pc.startTok * s.pcW.posted)
  tok : s.lock = .live → ∃ k, s.sem = some k ∧
        (s.pcW.looping = true →
          k + s.pcW.tok + (s.c.pc.inflight + s.p.pc.inflight) = s.queue.length + s.c.pc.stopTok) ∧
        (s.pcW.exiting = true → k = 0 ∧ s.queue = [])
  mem_eq : s.mem = (s.queue.map Rec.total).sum
  mem_le : s.mem ≤ cfg.limit
  drop_q : 0 < s.droppedCtr → s.queue ≠ []
  size_c : ∀ op ∈ s.c.prog, op.sizeOk cfg
  size_p : ∀ op ∈ s.p.prog, op.sizeOk cfg
  size_pc : ∀ r, s.c.pc = .logLock r → r.total ≤ cfg.limit
  size_pp : ∀ r, s.p.pc = .logLock r → r.total ≤ cfg.limit

end QbVerif.LogThread
