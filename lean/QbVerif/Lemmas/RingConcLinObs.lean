/-
C01 — the linearisation history `lin` contains, per thread, exactly that thread's calls in
program order with the results the calls RETURNED (`wOuts` / `rOuts`), plus at most one event of
the call in progress that has passed its linearisation point.  Writer side (this file) and
reader side (Lemmas/RingConcLinObsR.lean).  Together with `LinOk` (Lemmas/RingConcLin.lean): the
observable behaviour of the two threads is linearizable with respect to the FIFO.
-/
import QbVerif.Lemmas.RingConcLinR
import QbVerif.Lemmas.RingConcObs

namespace QbVerif.RingConcLemmas
open QbVerif.Ring QbVerif.RingSpec QbVerif.RingLemmas QbVerif.RingConc

/-- the writer's events of a history: payload and result -/
def wEvents (lin : List (Op × Out)) : List (List Nat × Out) :=
  lin.filterMap (fun e => match e.1 with | .write d => some (d, e.2) | _ => none)

/-- the reader's events of a history -/
def rEvents (lin : List (Op × Out)) : List (Op × Out) :=
  lin.filter (fun e => match e.1 with | .write _ => false | _ => true)

/-- the writer's completed calls with the results they returned -/
def wCalls (ops : List WOp) (outs : List Out) : List (List Nat × Out) :=
  (ops.zip outs).map (fun p => (p.1.data, p.2))

theorem wCalls_snoc (ops : List WOp) (outs : List Out) (op : WOp) (o : Out) (h : ops.length = outs.length) :
    wCalls (ops ++ [op]) (outs ++ [o]) = wCalls ops outs ++ [(op.data, o)] := by
  unfold wCalls; rw [List.zip_append h, List.map_append]; rfl

theorem wEvents_snoc_write (lin : List (Op × Out)) (d : List Nat) (o : Out) :
    wEvents (lin ++ [(.write d, o)]) = wEvents lin ++ [(d, o)] := by
  unfold wEvents; rw [List.filterMap_append]; rfl

theorem rEvents_snoc_write (lin : List (Op × Out)) (d : List Nat) (o : Out) :
    rEvents (lin ++ [(.write d, o)]) = rEvents lin := by
  unfold rEvents; rw [List.filter_append]; simp

/-- the event of the writer call in progress, once it is past its linearisation point -/
def inflightLinW (c : Conf) : List (List Nat × Out) :=
  match c.wprog with
  | [] => []
  | op :: _ =>
    match c.wpc with
    | .sfCmp _ _ b => if b then [(op.data, .err .eagain)] else []
    | .cmPost => if c.rb.sem.isNone then [(op.data, .wrote op.data.length)] else []
    | _ => []

/-- writer side: `lin` restricted to writes = completed calls with their returned results
    (+ the call in progress) -/
def LinObsW (prog0 : List WOp) (c : Conf) : Prop :=
  ∃ dw, prog0 = dw ++ c.wprog ∧ dw.length = c.wOuts.length ∧
    wEvents c.lin = wCalls dw c.wOuts ++ inflightLinW c

theorem LinObsW.local {prog0 : List WOp} {c c' : Conf} (h : LinObsW prog0 c) (h1 : c'.wprog = c.wprog)
    (h2 : c'.wOuts = c.wOuts) (h3 : wEvents c'.lin = wEvents c.lin) (h4 : inflightLinW c' = inflightLinW c) :
    LinObsW prog0 c' := by
  obtain ⟨d, a, b, e⟩ := h
  exact ⟨d, by rw [h1]; exact a, by rw [h2]; exact b, by rw [h3, h2, h4]; exact e⟩

theorem LinObsW.done {prog0 : List WOp} {c c' : Conf} {op : WOp} {rest : List WOp} (h : LinObsW prog0 c)
    (hp : c.wprog = op :: rest) (o : Out) (h1 : c'.wprog = rest) (h2 : c'.wOuts = c.wOuts ++ [o])
    (hi : inflightLinW c' = [])
    (h3 : ∀ pre, wEvents c.lin = pre ++ inflightLinW c → wEvents c'.lin = pre ++ [(op.data, o)]) :
    LinObsW prog0 c' := by
  obtain ⟨d, a, b, e⟩ := h
  refine ⟨d ++ [op], by rw [h1, a, hp]; simp, by rw [h2]; simp [b], ?_⟩
  rw [h2, wCalls_snoc _ _ _ _ b, hi, List.append_nil]
  exact h3 _ e

theorem inflightLinW_of {c : Conf} (h1 : c.wpc ≠ .cmPost) (h2 : ∀ a b, c.wpc ≠ .sfCmp a b true) :
    inflightLinW c = [] := by
  unfold inflightLinW
  split
  · rfl
  · split
    · rename_i a b' b e
      cases b with
      | false => rfl
      | true => exact absurd e (h2 _ _)
    · rename_i e; exact absurd e h1
    · rfl

/-- reader steps append no write event and leave the writer's side alone -/
theorem rstep_wEvents (c : Conf) : wEvents (rstep c).lin = wEvents c.lin := by
  unfold rstep
  repeat' split
  all_goals (try dsimp only)
  all_goals (repeat' split)
  all_goals first
    | rfl
    | (simp [Conf.rDone, Conf.addLin, wEvents, List.filterMap_append]; done)
    | (cases c.rb.sem <;> simp [Conf.rDone, Conf.addLin, wEvents, List.filterMap_append]; done)

theorem rstep_linObsW (prog0 : List WOp) (c : Conf) (h : LinObsW prog0 c) : LinObsW prog0 (rstep c) := by
  obtain ⟨h1, h2, h3, h4, h5⟩ := rstep_wside c
  refine h.local h3 h2 (rstep_wEvents c) ?_
  unfold inflightLinW
  rw [h4, h3]
  have : (rstep c).rb.sem.isNone = c.rb.sem.isNone := by
    cases hs : c.rb.sem with
    | none => rw [h5.mpr hs]
    | some n =>
      cases hs' : (rstep c).rb.sem with
      | none => rw [h5.mp hs'] at hs; cases hs
      | some m => rfl
  rw [this]

section
variable {c : Conf} {q : List (List Nat)} {prog0 : List WOp}

theorem wstep_linObsW (hi : CInv c q) (h : LinObsW prog0 c) : LinObsW prog0 (wstep c) := by
  cases hp : c.wprog with
  | nil =>
    have e : wstep c = c := by unfold wstep; simp only [hp]
    rw [e]; exact h
  | cons op rest =>
    have loc : ∀ pc', (∀ a b, pc' ≠ .sfCmp a b true) → pc' ≠ .cmPost → (∀ a b, c.wpc ≠ .sfCmp a b true) →
        c.wpc ≠ .cmPost → ∀ c' : Conf, c'.wpc = pc' → c'.wprog = c.wprog → c'.wOuts = c.wOuts → c'.lin = c.lin →
        LinObsW prog0 c' := by
      intro pc' a1 a2 a3 a4 c' b1 b2 b3 b4
      exact h.local b2 b3 (by rw [b4])
        (by rw [inflightLinW_of (c := c') (by rw [b1]; exact a2) (by rw [b1]; exact a1), inflightLinW_of a4 a3])
    cases hpc : c.wpc with
    | idle =>
      have e : wstep c = { c with wpc := .sfRd c.rb.wp } := by unfold wstep; simp only [hp, hpc]
      rw [e]; exact loc _ (by simp) (by simp) (by rw [hpc]; simp) (by rw [hpc]; simp) _ rfl rfl rfl rfl
    | sfRd ws =>
      by_cases hf : freeSeen c.rb ws c.rb.rp < op.data.length + MARGIN
      · have e : wstep c = { c with wpc := .sfCmp ws c.rb.rp true, lin := c.lin ++ [(.write op.data, .err .eagain)] } := by
          unfold wstep Conf.addLin; simp only [hp, hpc, hf, decide_true, if_true]
        rw [e]
        obtain ⟨d, a, b, e1⟩ := h
        refine ⟨d, a, b, ?_⟩
        show wEvents (c.lin ++ [(.write op.data, .err .eagain)]) = _
        rw [wEvents_snoc_write, e1, inflightLinW_of (c := c) (by rw [hpc]; simp) (by rw [hpc]; simp), List.append_nil]
        congr 1
        simp [inflightLinW, hp]
      · have e : wstep c = { c with wpc := .sfCmp ws c.rb.rp false } := by
          unfold wstep; simp only [hp, hpc, hf, decide_false, Bool.false_eq_true, if_false]
        rw [e]; exact loc _ (by simp) (by simp) (by rw [hpc]; simp) (by rw [hpc]; simp) _ rfl rfl rfl rfl
    | sfCmp ws rs b =>
      have hwf := WFacts_get hp hi.wf
      rw [hpc] at hwf
      have hb := hwf.2.2
      by_cases hf : freeSeen c.rb ws rs < op.data.length + MARGIN
      · have e : wstep c = c.wDone (.err .eagain) := by unfold wstep; simp only [hp, hpc, hf, if_true]
        rw [e]
        refine h.done hp (.err .eagain) (by simp [Conf.wDone, hp]) rfl
          (inflightLinW_of (by simp [Conf.wDone]) (by simp [Conf.wDone])) ?_
        intro pre e1
        have : b = true := by rw [hb]; simp [hf]
        subst this
        have i0 : inflightLinW c = [(op.data, .err .eagain)] := by simp [inflightLinW, hpc, hp]
        rw [i0] at e1
        exact e1
      · have e : wstep c = { c with wpc := .alWp } := by unfold wstep; simp only [hp, hpc, hf, if_false]
        rw [e]
        have : b = false := by rw [hb]; simp [hf]
        subst this
        exact loc _ (by simp) (by simp) (by rw [hpc]; simp) (by rw [hpc]; simp) _ rfl rfl rfl rfl
    | alWp =>
      have e : wstep c = { c with wpc := .alSz c.rb.wp } := by unfold wstep; simp only [hp, hpc]
      rw [e]; exact loc _ (by simp) (by simp) (by rw [hpc]; simp) (by rw [hpc]; simp) _ rfl rfl rfl rfl
    | alSz wp =>
      have e : wstep c = { c with rb := { c.rb with mem := wr32 c.rb.mem wp 0 }, wpc := .alMg wp } := by
        unfold wstep; simp only [hp, hpc]
      rw [e]; exact loc _ (by simp) (by simp) (by rw [hpc]; simp) (by rw [hpc]; simp) _ rfl rfl rfl rfl
    | alMg wp =>
      have e : wstep c = { c with rb := c.rb.setMagic wp ALLOC, wpc := .copy wp 0 } := by
        unfold wstep; simp only [hp, hpc]
      rw [e]; exact loc _ (by simp) (by simp) (by rw [hpc]; simp) (by rw [hpc]; simp) _ rfl rfl rfl rfl
    | copy wp j =>
      have hcases : (∃ j', (wstep c).wpc = .copy wp j') ∨ (wstep c).wpc = .cmWp := by
        simp only [wstep, hp, hpc]; repeat' split
        all_goals first | exact .inl ⟨_, rfl⟩ | exact .inr rfl
      refine loc (wstep c).wpc ?_ ?_ (by rw [hpc]; simp) (by rw [hpc]; simp) _ rfl ?_ ?_ ?_
      · rcases hcases with ⟨j', e⟩ | e <;> rw [e] <;> simp
      · rcases hcases with ⟨j', e⟩ | e <;> rw [e] <;> simp
      · simp only [wstep, hp, hpc]; repeat' split
        all_goals rfl
      · simp only [wstep, hp, hpc]; repeat' split
        all_goals rfl
      · simp only [wstep, hp, hpc]; repeat' split
        all_goals rfl
    | cmWp =>
      have e : wstep c = { c with wpc := .cmSz c.rb.wp } := by unfold wstep; simp only [hp, hpc]
      rw [e]; exact loc _ (by simp) (by simp) (by rw [hpc]; simp) (by rw [hpc]; simp) _ rfl rfl rfl rfl
    | cmSz old =>
      have e : wstep c = { c with rb := { c.rb with mem := wr32 c.rb.mem old op.data.length }, wpc := .cmStep old } := by
        unfold wstep; simp only [hp, hpc]
      rw [e]; exact loc _ (by simp) (by simp) (by rw [hpc]; simp) (by rw [hpc]; simp) _ rfl rfl rfl rfl
    | cmStep old =>
      have e : wstep c = { c with wpc := .cmNext old (c.rb.chunkStep old) } := by unfold wstep; simp only [hp, hpc]
      rw [e]; exact loc _ (by simp) (by simp) (by rw [hpc]; simp) (by rw [hpc]; simp) _ rfl rfl rfl rfl
    | cmNext old new =>
      have e : wstep c = { c with rb := if (new + 1) % c.rb.W ≠ old then c.rb.setMagic new DEAD else c.rb, wpc := .cmSetWp old new } := by
        unfold wstep; simp only [hp, hpc]
      rw [e]; exact loc _ (by simp) (by simp) (by rw [hpc]; simp) (by rw [hpc]; simp) _ rfl rfl rfl rfl
    | cmSetWp old new =>
      have e : wstep c = { c with rb := { c.rb with wp := new }, wpc := .cmMg old } := by unfold wstep; simp only [hp, hpc]
      rw [e]; exact loc _ (by simp) (by simp) (by rw [hpc]; simp) (by rw [hpc]; simp) _ rfl rfl rfl rfl
    | cmMg old =>
      cases hs : c.rb.sem with
      | none =>
        have e : wstep c = { c with rb := c.rb.setMagic old MAGIC, wpc := .cmPost, writesOk := c.writesOk ++ [op.data], lin := c.lin ++ [(Op.write op.data, Out.wrote op.data.length)] } := by
          unfold wstep Conf.linWrite; simp only [hp, hpc, hs]
        rw [e]
        obtain ⟨d, a, b, e1⟩ := h
        refine ⟨d, a, b, ?_⟩
        show wEvents (c.lin ++ [(.write op.data, .wrote op.data.length)]) = _
        rw [wEvents_snoc_write, e1, inflightLinW_of (c := c) (by rw [hpc]; simp) (by rw [hpc]; simp), List.append_nil]
        congr 1
        simp [inflightLinW, hp, Rb.setMagic, hs]
      | some n =>
        have e : wstep c = { c with rb := c.rb.setMagic old MAGIC, wpc := .cmPost } := by
          unfold wstep; simp only [hp, hpc, hs]
        rw [e]
        refine h.local rfl rfl rfl ?_
        rw [inflightLinW_of (c := c) (by rw [hpc]; simp) (by rw [hpc]; simp)]
        simp [inflightLinW, hp, Rb.setMagic, hs]
    | cmPost =>
      cases hs : c.rb.sem with
      | none =>
        have e : wstep c = ({ c with rb := c.rb.post } : Conf).wDone (.wrote op.data.length) := by
          unfold wstep; simp only [hp, hpc, hs]
        rw [e]
        refine h.done hp (.wrote op.data.length) (by simp [Conf.wDone, hp]) rfl
          (inflightLinW_of (by simp [Conf.wDone]) (by simp [Conf.wDone])) ?_
        intro pre e1
        have i0 : inflightLinW c = [(op.data, .wrote op.data.length)] := by simp [inflightLinW, hpc, hp, hs]
        rw [i0] at e1
        exact e1
      | some n =>
        have e : wstep c = (({ c with rb := c.rb.post } : Conf).linWrite op.data).wDone (.wrote op.data.length) := by
          unfold wstep; simp only [hp, hpc, hs]
        rw [e]
        refine h.done hp (.wrote op.data.length) (by simp [Conf.wDone, Conf.linWrite, hp]) rfl
          (inflightLinW_of (by simp [Conf.wDone]) (by simp [Conf.wDone])) ?_
        intro pre e1
        have i0 : inflightLinW c = [] := by simp [inflightLinW, hpc, hp, hs]
        rw [i0, List.append_nil] at e1
        show wEvents (c.lin ++ [(.write op.data, .wrote op.data.length)]) = _
        rw [wEvents_snoc_write, e1]

end
end QbVerif.RingConcLemmas
