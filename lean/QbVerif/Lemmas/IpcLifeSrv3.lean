/-
C03 — server side, reachability: the end of the handshake (`handle_new_connection`) leads to an
established connection or to a slot that is completely released, for every outcome of
`connection_accept` and of the send of the response.
-/
import QbVerif.Lemmas.IpcLifeSrv2

namespace QbVerif.IpcLife

/-- the record is complete: `handle_new_connection` runs -/
def EstFields (t : Transport) (s : Slot) : Prop :=
  s.phase = .conn ∧ s.st = .established ∧ s.refc = 1 ∧ s.inList = true ∧ s.bad = false ∧
  s.led = estLed t true true

set_option maxRecDepth 8000 in
set_option maxHeartbeats 8000000 in
theorem processAuth_complete (t : Transport) (i : AuthIn) (env : Env) (n : Nat) (lg : List Ev) (nc : Nat)
    (hn : n < AUTH_LEN) (hnv : i.nval = false) (hh : i.hup = false) (hp : i.pollin = true)
    (ha : AUTH_LEN ≤ n + i.avail) :
    (EstFields t (processAuth t i env (mkAuth n lg nc)) ∧
      (processAuth t i env (mkAuth n lg nc)).cbs = .created :: .accept :: cbsOf lg) ∨
    (Clean (processAuth t i env (mkAuth n lg nc)) ∧
      (processAuth t i env (mkAuth n lg nc)).cbs = .destroyed :: .accept :: cbsOf lg) := by
  have hm : min i.avail (AUTH_LEN - n) = AUTH_LEN - n := by
    apply Nat.min_eq_right; unfold AUTH_LEN at *; omega
  have h0 : (AUTH_LEN - n == 0) = false := by
    cases hb : (AUTH_LEN - n == 0)
    · rfl
    · have := beq_iff_eq.mp hb; unfold AUTH_LEN at *; omega
  have hlt : ¬ (n + (AUTH_LEN - n) < AUTH_LEN) := by unfold AUTH_LEN at *; omega
  simp only [processAuth, mkAuth, hnv, hh, hp, hm, h0, hlt, Bool.or_self, Bool.not_true,
    Bool.false_eq_true, if_false, if_true]
  unfold handleNewConnection
  simp only []
  generalize (env Chan.setup _).sent = b
  cases t <;> cases i.acceptOk <;> cases b
  all_goals first
    | (refine Or.inl ⟨⟨?_, ?_, ?_, ?_, ?_, ?_⟩, ?_⟩ <;>
        simp [shmConnect, sockConnect, rbCreate, connUnref, connDisconnect, transportDisconnect, shmDisconnect,
          sockDisconnect, rbCloseCreator, destroyAuth, Slot.call, Slot.rel, Slot.relSoft, Slot.acq, Slot.holds,
          Slot.removeTempdir, Slot.hasFile, Slot.ev, Slot.sockClose, Slot.nonblockCloexec, authLedger, estLed,
          shmLed, sockLed, Res.kind, Slot.cbs, cbsOf, isCb, List.filter]; done)
    | (refine Or.inr ⟨⟨?_, ?_, ?_, ?_, ?_⟩, ?_⟩ <;>
        simp [shmConnect, sockConnect, rbCreate, connUnref, connDisconnect, transportDisconnect, shmDisconnect,
          sockDisconnect, rbCloseCreator, destroyAuth, Slot.call, Slot.rel, Slot.relSoft, Slot.acq, Slot.holds,
          Slot.removeTempdir, Slot.hasFile, Slot.ev, Slot.sockClose, Slot.nonblockCloexec, authLedger, estLed,
          shmLed, sockLed, Res.kind, Slot.cbs, cbsOf, isCb, List.filter]; done)

end QbVerif.IpcLife
