/-
Hashtable model, history level of C18, part 3: the coupling `WOK t w` between a table state and one
watch of the monitor `IterMon` (Model/MapSpec.lean) —
* the iterator the watch follows is open;
* (complete) every key that has been present ever since the iterator was created has been returned
  or is the key of a live node still AHEAD of the iterator (`remOf`);
* (exactly once) as long as no new key was inserted, no live node ahead carries a returned key —
and its preservation: under every in-place update (`WOK.mf`), under the insertion of a new key
(`WOK.putNew`), for a new iterator (`WOK.new`), and when the iterator itself moves to the next
node (`WOK.next_some`) or reports the end (`WOK.next_none`).
-/
import QbVerif.Lemmas.HtIterHist2

namespace QbVerif.Hashtable
open QbVerif.Map
set_option linter.unusedSimpArgs false

def WOK (t : HT) (w : IterMon.Watch) : Prop :=
  ∃ it, t.iters.lookup (w.id + 1) = some it ∧
    (∀ k ∈ w.stable, k ∈ w.returned ∨ ∃ n ∈ remOf t it, n.key = k ∧ n.removed = false) ∧
    (w.inserted = false → ∀ k ∈ w.returned, ∀ n ∈ remOf t it, n.removed = false → n.key ≠ k)

theorem after_subset {p : Nat} {L : List Node} {x : Node} (hx : x ∈ after p L) : x ∈ L := by
  obtain ⟨A, hA⟩ := after_suffix p L
  have : x ∈ A ++ after p L := List.mem_append_right _ hx
  rwa [← hA] at this

theorem remOf_flat {t : HT} {it : Iter} {x : Node} (hx : x ∈ remOf t it) : x ∈ t.flat := by
  obtain ⟨_, h2⟩ := mem_remOf.1 hx
  rcases h2 with h2 | ⟨b, _, h2⟩
  · unfold headList at h2
    cases hn : it.node with
    | none => rw [hn] at h2; exact mem_flat_of_bucket h2
    | some p => rw [hn] at h2; exact mem_flat_of_bucket (after_subset h2)
  · exact mem_flat_of_bucket h2

theorem MF.of_buckets {t t' : HT} (hb : t'.buckets = t.buckets) :
    MF t t' (fun x => x) (fun _ => true) (fun _ => False) := by
  refine ⟨?_, fun _ => rfl, fun _ _ => rfl, fun _ _ h => h, fun _ _ h _ => ⟨h, rfl⟩⟩
  rw [filter_true_buckets, map_id_buckets, hb]

/-- the node an iterator of the new table is parked on was linked before and has not been unlinked -/
theorem MF.parked {t t' : HT} {g q bad} (m : MF t t' g q bad) (h' : Inv t') {k : Nat} {it : Iter}
    (hl : t'.iters.lookup k = some it) :
    ∀ p, it.node = some p → ∃ np ∈ t.bucketOf it.bucket, np.id = p ∧ q (g np) = true := by
  intro p hp
  obtain ⟨n', hn', hid⟩ := h'.itNode (k, it) (mem_of_lookup hl) p hp
  rw [m.bucketOf] at hn'
  obtain ⟨hm, hq⟩ := List.mem_filter.1 hn'
  obtain ⟨x, hx, rfl⟩ := List.mem_map.1 hm
  exact ⟨x, hx, by rw [← m.gid x]; exact hid, hq⟩

theorem Inv.inelig {t : HT} (h : Inv t) {x : Node} (hx : x ∈ t.flat) (he : t.eligible x = false) :
    x.removed = true := by
  have hp := h.rcPos x hx
  unfold HT.eligible at he
  cases hr : x.removed with
  | true => rfl
  | false => simp [h.fix14, hr, hp] at he

/-- an operation that does not move the watched iterator -/
theorem WOK.mf {t t' : HT} {g q bad} (h : Inv t) (h' : Inv t') (m : MF t t' g q bad) {w w' : IterMon.Watch}
    (hw : WOK t w) (hid : w'.id = w.id) (hit : t'.iters.lookup (w.id + 1) = t.iters.lookup (w.id + 1))
    (hst : ∀ k ∈ w'.stable, k ∈ w.stable ∧ ∀ x ∈ t.flat, x.key = k → x.removed = false → ¬ bad x)
    (hret : w'.returned = w.returned) (hins : w'.inserted = false → w.inserted = false) : WOK t' w' := by
  obtain ⟨it, hl, hC, hE⟩ := hw
  have hl' : t'.iters.lookup (w'.id + 1) = some it := by rw [hid, hit, hl]
  have hrem := m.remOf_eq h.idsNodup (m.parked h' hl')
  refine ⟨it, hl', ?_, ?_⟩
  · intro k hk
    obtain ⟨hk1, hk2⟩ := hst k hk
    rcases hC k hk1 with hr | ⟨n, hn, hnk, hnr⟩
    · left; rw [hret]; exact hr
    · right
      have hnf := remOf_flat hn
      obtain ⟨k1, k2⟩ := m.keep n hnf hnr (hk2 n hnf hnk hnr)
      refine ⟨g n, ?_, by rw [m.gkey n hnf]; exact hnk, k1⟩
      rw [hrem]; exact List.mem_filter.2 ⟨List.mem_map.2 ⟨n, hn, rfl⟩, k2⟩
  · intro hi k hk n' hn' hr'
    rw [hrem] at hn'
    obtain ⟨hm, _⟩ := List.mem_filter.1 hn'
    obtain ⟨x, hx, rfl⟩ := List.mem_map.1 hm
    have hxf := remOf_flat hx
    rw [m.gkey x hxf]
    rw [hret] at hk
    exact hE (hins hi) k hk x hx (m.mono x hxf hr')

/-- insertion of a new key: everything ahead stays ahead; "exactly once" is no longer promised -/
theorem WOK.putNew {t : HT} (key : Key) (v : Val) {w w' : IterMon.Watch} (hw : WOK t w) (hid : w'.id = w.id)
    (hst : w'.stable = w.stable) (hret : w'.returned = w.returned) (hins : w'.inserted = true) :
    WOK (putNew t key v) w' := by
  obtain ⟨it, hl, hC, _⟩ := hw
  refine ⟨it, by rw [hid]; exact hl, ?_, ?_⟩
  · intro k hk
    rw [hst] at hk
    rcases hC k hk with hr | ⟨n, hn, hnk, hnr⟩
    · left; rw [hret]; exact hr
    · exact Or.inr ⟨n, putNew_remOf key v hn, hnk, hnr⟩
  · intro hi; rw [hins] at hi; cases hi

/-- a new iterator has the whole table ahead -/
theorem WOK.new {t : HT} (k : Nat) {w : IterMon.Watch} (hid : w.id + 1 = k)
    (hst : ∀ key ∈ w.stable, ∃ n ∈ t.flat, n.key = key ∧ n.removed = false) (hret : w.returned = []) :
    WOK (t.iterCreate k) w := by
  refine ⟨⟨none, 0⟩, ?_, ?_, ?_⟩
  · show ((k, (⟨none, 0⟩ : Iter)) :: t.iters).lookup (w.id + 1) = _
    rw [hid]; simp [List.lookup]
  · intro key hk
    right
    rw [remOf_start]
    exact hst key hk
  · intro _ key hk; rw [hret] at hk; cases hk

theorem lookup_setIter (its : List (Nat × Iter)) (k k' : Nat) (it' : Iter) :
    (setIter its k it').lookup k' = if k' = k then (its.lookup k').map (fun _ => it') else its.lookup k' := by
  induction its with
  | nil => simp [setIter, List.lookup]
  | cons a its ih =>
    obtain ⟨a1, a2⟩ := a
    have hs : setIter ((a1, a2) :: its) k it' = (if a1 == k then (k, it') else (a1, a2)) :: setIter its k it' := rfl
    rw [hs]
    by_cases e1 : a1 = k
    · subst e1
      simp only [beq_self_eq_true, ite_true, List.lookup]
      by_cases e2 : k' = a1
      · subst e2; simp
      · have : (k' == a1) = false := by simpa using e2
        simp only [this, ih]
    · have hf : (a1 == k) = false := by simpa using e1
      simp only [hf, Bool.false_eq_true, ite_false, List.lookup]
      by_cases e2 : k' = a1
      · subst e2; simp [e1]
      · have : (k' == a1) = false := by simpa using e2
        simp only [this, ih]

theorem lookup_filter_ne (its : List (Nat × Iter)) (k k' : Nat) (hne : k' ≠ k) :
    (its.filter fun p => !(p.1 == k)).lookup k' = its.lookup k' := by
  induction its with
  | nil => rfl
  | cons a its ih =>
    obtain ⟨a1, a2⟩ := a
    by_cases e1 : a1 = k
    · subst e1
      have : (k' == a1) = false := by simpa using hne
      simp [List.filter_cons, List.lookup, this, ih]
    · have hf : (a1 == k) = false := by simpa using e1
      simp only [List.filter_cons, hf, Bool.not_false, ite_true, List.lookup, ih]

/-- `hashtable_iter_next` of the watched iterator moves to node `n` -/
theorem WOK.next_some {t t' : HT} (h : Inv t) (h' : Inv t') {w w' : IterMon.Watch} (hw : WOK t w) {it : Iter}
    (hl : t.iters.lookup (w.id + 1) = some it) {dec : Option Node} (hd : it.node = dec.map (·.id))
    (hdm : ∀ np, dec = some np → np ∈ t.bucketOf it.bucket) {b' : Nat} {n : Node}
    (hs : scanBuckets t.eligible it.bucket (t.iterLists it) = some (b', n))
    (ht' : t' = (moveState t (some n) dec (setIter t.iters (w.id + 1) ⟨some n.id, b'⟩)).1)
    (hid : w'.id = w.id) (hst : w'.stable = w.stable) (hret : w'.returned = n.key :: w.returned)
    (hins : w'.inserted = w.inserted) : WOK t' w' := by
  obtain ⟨it0, hl0, hC, hE⟩ := hw
  rw [hl] at hl0; cases hl0
  have hp : ∀ p, it.node = some p → ∃ np ∈ t.bucketOf it.bucket, np.id = p := by
    intro p hp
    cases dec with
    | none => rw [hd] at hp; cases hp
    | some np => rw [hd] at hp; cases hp; exact ⟨np, hdm np rfl, rfl⟩
  obtain ⟨hnb, hen, _, ⟨pre, hpre, hno⟩, _⟩ := iterLists_found h.idsNodup h.inBucket hp hs
  have hnf : n ∈ t.flat := mem_flat_of_bucket hnb
  have hnr : n.removed = false := by
    cases hr : n.removed with
    | false => rfl
    | true =>
      have hpos := h.rcPos n hnf
      unfold HT.eligible at hen; simp [h.fix14, hr] at hen
  obtain ⟨g, q, m⟩ := moveState_mf h (some n) dec (setIter t.iters (w.id + 1) ⟨some n.id, b'⟩) (by
    intro np e
    exact ⟨mem_flat_of_bucket (hdm np e), parked_pos_of_mem (mem_of_lookup hl) (by rw [hd, e]; rfl)⟩)
  rw [← ht'] at m
  have hl' : t'.iters.lookup (w'.id + 1) = some ⟨some n.id, b'⟩ := by
    rw [ht', (moveState_misc _ _ _ _).2, hid, lookup_setIter, if_pos rfl, hl]; rfl
  have hrem := m.remOf_eq h.idsNodup (m.parked h' hl')
  refine ⟨_, hl', ?_, ?_⟩
  · intro k hk
    rw [hst] at hk
    rw [hret]
    rcases hC k hk with hr | ⟨x, hx, hxk, hxr⟩
    · left; exact List.mem_cons_of_mem _ hr
    · rw [hpre] at hx
      rcases List.mem_append.1 hx with hx | hx
      · have := h.inelig (remOf_flat (by rw [hpre]; exact List.mem_append_left _ hx)) (hno x hx)
        rw [this] at hxr; cases hxr
      · rcases List.mem_cons.1 hx with rfl | hx
        · left; rw [hxk]; simp
        · right
          have hxf := remOf_flat hx
          obtain ⟨k1, k2⟩ := m.keep x hxf hxr (fun f => f)
          refine ⟨g x, ?_, by rw [m.gkey x hxf]; exact hxk, k1⟩
          rw [hrem]; exact List.mem_filter.2 ⟨List.mem_map.2 ⟨x, hx, rfl⟩, k2⟩
  · intro hi k hk x' hx' hr'
    rw [hins] at hi
    rw [hrem] at hx'
    obtain ⟨hm, _⟩ := List.mem_filter.1 hx'
    obtain ⟨x, hx, rfl⟩ := List.mem_map.1 hm
    have hxf := remOf_flat hx
    have hxr := m.mono x hxf hr'
    rw [m.gkey x hxf]
    have hx0 : x ∈ remOf t it := by rw [hpre]; exact List.mem_append_right _ (List.mem_cons_of_mem _ hx)
    rw [hret] at hk
    rcases List.mem_cons.1 hk with rfl | hk
    · intro e
      have hxn : x = n := live_unique h (List.mem_filter.2 ⟨hxf, by simp [hxr]⟩)
        (List.mem_filter.2 ⟨hnf, by simp [hnr]⟩) e
      subst hxn
      obtain ⟨_, h2⟩ := mem_remOf.1 hx
      rcases h2 with h2 | ⟨b, hb, h2⟩
      · exact after_ids (nodup_bucket (·.id) t.buckets b' h.idsNodup) h2 rfl
      · have e1 := h.inBucket b x h2
        have e2 := h.inBucket b' x hnb
        simp only at hb
        omega
    · exact hE hi k hk x hx0 hxr

/-- `hashtable_iter_next` of the watched iterator reports the end -/
theorem WOK.next_none {t t' : HT} (h : Inv t) (h' : Inv t') {w w' : IterMon.Watch} (hw : WOK t w) {it : Iter}
    (hl : t.iters.lookup (w.id + 1) = some it) {dec : Option Node} (hd : it.node = dec.map (·.id))
    (hdm : ∀ np, dec = some np → np ∈ t.bucketOf it.bucket)
    (hs : scanBuckets t.eligible it.bucket (t.iterLists it) = none)
    (ht' : t' = (moveState t none dec (setIter t.iters (w.id + 1) ⟨none, t.buckets.length⟩)).1)
    (hid : w'.id = w.id) (hst : w'.stable = w.stable) (hret : w'.returned = w.returned) :
    WOK t' w' ∧ ∀ k ∈ w.stable, k ∈ w.returned := by
  obtain ⟨it0, hl0, hC, _⟩ := hw
  rw [hl] at hl0; cases hl0
  have hall : ∀ k ∈ w.stable, k ∈ w.returned := by
    intro k hk
    rcases hC k hk with hr | ⟨x, hx, _, hxr⟩
    · exact hr
    · have := h.inelig (remOf_flat hx) (iterLists_none hs x hx)
      rw [this] at hxr; cases hxr
  refine ⟨?_, hall⟩
  obtain ⟨g, q, m⟩ := moveState_mf h none dec (setIter t.iters (w.id + 1) ⟨none, t.buckets.length⟩) (by
    intro np e
    exact ⟨mem_flat_of_bucket (hdm np e), parked_pos_of_mem (mem_of_lookup hl) (by rw [hd, e]; rfl)⟩)
  rw [← ht'] at m
  have hl' : t'.iters.lookup (w'.id + 1) = some ⟨none, t.buckets.length⟩ := by
    rw [ht', (moveState_misc _ _ _ _).2, hid, lookup_setIter, if_pos rfl, hl]; rfl
  have hrem := m.remOf_eq h.idsNodup (m.parked h' hl')
  have hnil : remOf t ⟨none, t.buckets.length⟩ = [] := by
    unfold remOf HT.iterLists; simp
  rw [hnil] at hrem
  refine ⟨_, hl', ?_, ?_⟩
  · intro k hk
    rw [hst] at hk; rw [hret]
    exact Or.inl (hall k hk)
  · intro _ k _ x hx
    rw [hrem] at hx; simp at hx

end QbVerif.Hashtable
