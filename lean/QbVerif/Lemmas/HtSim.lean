/-
Hashtable model vs. the dictionary specification: the simulation relation `Sim` (the linked,
not-removed nodes are, up to order, the dictionary's entries; same global notifiers; same open
iterator ids) and the facts about lookups, notifications and the live list it rests on.
-/
import QbVerif.Lemmas.HtStepAll

namespace QbVerif.Hashtable
open QbVerif.Map
set_option linter.unusedSimpArgs false

/-- abstraction of one node -/
def absNode (n : Node) : Entry := ⟨n.key, n.val, n.notifs⟩

structure Sim (t : HT) (d : Dict) : Prop where
  fl : d.fl = .ht
  entries : d.entries.Perm ((live t).map absNode)
  sorted : Sorted d.entries
  globals : d.globals = t.globals
  /-- harness iterator `i` is stored under key `i + 1` in the model -/
  iters : d.iters.map (·.1 + 1) = t.iters.map (·.1)

theorem lookup_isSome_iff {α} (its : List (Nat × α)) (k : Nat) : (its.lookup k).isSome = true ↔ k ∈ its.map (·.1) := by
  induction its with
  | nil => simp [List.lookup]
  | cons a its ih =>
    obtain ⟨a1, a2⟩ := a
    simp only [List.lookup, List.map_cons, List.mem_cons]
    by_cases hk : k = a1
    · subst hk; simp
    · have : (k == a1) = false := by simpa using hk
      rw [this]; simp only [hk, false_or]; exact ih

theorem Sim.lookup {t : HT} {d : Dict} (s : Sim t d) (i : Nat) :
    (d.iters.lookup i).isSome = (t.iters.lookup (i + 1)).isSome := by
  have h1 := lookup_isSome_iff d.iters i
  have h2 := lookup_isSome_iff t.iters (i + 1)
  have : i ∈ d.iters.map (·.1) ↔ i + 1 ∈ t.iters.map (·.1) := by
    rw [← s.iters]
    simp only [List.mem_map]
    constructor
    · rintro ⟨p, hp, rfl⟩; exact ⟨p, hp, rfl⟩
    · rintro ⟨p, hp, e⟩; exact ⟨p, hp, by omega⟩
  cases hd : (d.iters.lookup i).isSome <;> cases ht : (t.iters.lookup (i + 1)).isSome <;> simp_all

theorem Sim.empty_iff {t : HT} {d : Dict} (s : Sim t d) : d.iters = [] ↔ t.iters = [] := by
  have := s.iters
  constructor
  · intro h; rw [h] at this; simpa using this.symm
  · intro h; rw [h] at this; simpa using this

/-- `hashtable_lookup` in terms of the live list -/
theorem Inv.lookup_live {t : HT} (h : Inv t) (k : Key) : t.lookup k = (live t).find? (·.key == k) := by
  rw [lookup_eq h.inBucket]
  unfold live
  rw [List.find?_filter]
  congr 1
  funext n
  simp only [HT.isKey, h.fix14, Bool.not_true, Bool.false_or]
  by_cases e : n.key = k <;> simp [e]

theorem live_unique {t : HT} (h : Inv t) {x y : Node} (hx : x ∈ live t) (hy : y ∈ live t) (e : x.key = y.key) : x = y :=
  inj_of_nodup_map (·.key) h.keysNodup hx hy e

/-- the dictionary finds the abstraction of what the table finds -/
theorem Sim.find {t : HT} {d : Dict} (h : Inv t) (s : Sim t d) (k : Key) :
    findEntry d.entries k = (t.lookup k).map absNode := by
  unfold findEntry
  rw [h.lookup_live]
  have hu : ∀ x ∈ d.entries, ∀ y ∈ d.entries, (x.key == k) = true → (y.key == k) = true → x = y := by
    intro x hx y hy h1 h2
    exact inj_of_nodup_map (·.key) s.sorted.keys_nodup hx hy (by simp at h1 h2; rw [h1, h2])
  rw [find?_perm s.entries hu, List.find?_map]
  rfl

theorem Sim.notify {t : HT} {d : Dict} (s : Sim t d) (n : Node) (ev : Nat) (key : Key) (old new : Val) :
    d.notify n.notifs ev key old new = t.notify n ev key old new := by
  unfold Dict.notify HT.notify dispatch
  rw [s.fl, s.globals]
  rfl

theorem Sim.count {t : HT} {d : Dict} (h : Inv t) (s : Sim t d) : d.entries.length = t.count := by
  rw [h.count, s.entries.length_eq, List.length_map]

/-- keys of the entries on either side are distinct -/
theorem live_abs_keys {t : HT} (h : Inv t) : (((live t).map absNode).map (·.key)).Nodup := by
  rw [List.map_map]; exact h.keysNodup

/-- replacing fields of the live node `n` (key, removed unchanged) -/
theorem sim_update {t t' : HT} {d : Dict} (h : Inv t) (s : Sim t d) {n : Node} (hn : n ∈ live t) (f : Node → Node)
    (hk : (f n).key = n.key) (hl : live t' = (live t).map (upd n.id f)) (hg : t'.globals = t.globals)
    (hi : t'.iters = t.iters) (e : Entry) (he : e = absNode n) :
    Sim t' { d with entries := insertEntry (absNode (f n)) d.entries } := by
  have hnd : ((live t).map (·.id)).Nodup :=
    List.Nodup.sublist ((List.filter_sublist).map _) h.idsNodup
  refine ⟨s.fl, ?_, insertEntry_sorted _ s.sorted, s.globals.trans hg.symm, by rw [hi]; exact s.iters⟩
  show (insertEntry (absNode (f n)) d.entries).Perm _
  refine (insertEntry_perm _ s.sorted).trans ?_
  rw [hl]
  refine List.Perm.trans ?_ ((upd_perm (·.id) f hnd hn).map absNode).symm
  simp only [List.map_cons]
  apply List.Perm.cons
  have h1 : (d.entries.filter fun x => !(x.key == (absNode (f n)).key)).Perm
      (((live t).map absNode).filter fun x => !(x.key == (absNode (f n)).key)) := s.entries.filter _
  refine h1.trans ?_
  rw [List.filter_map]
  apply List.Perm.of_eq
  congr 1
  apply List.filter_congr
  intro x hx
  simp only [Function.comp, absNode, hk]
  by_cases e1 : x.id = n.id
  · have : x = n := inj_of_nodup_map (·.id) hnd hx hn e1
    subst this; simp
  · have : ¬ x.key = n.key := fun e2 => e1 (by rw [live_unique h hx hn e2])
    have h3 : (x.key == n.key) = false := by simpa using this
    have h4 : (x.id == n.id) = false := by simpa using e1
    rw [h3, h4]

/-- removing the live node `n` -/
theorem sim_erase {t t' : HT} {d : Dict} (h : Inv t) (s : Sim t d) {n : Node} (hn : n ∈ live t)
    (hl : live t' = (live t).filter fun x => !(x.id == n.id)) (hg : t'.globals = t.globals)
    (hi : t'.iters = t.iters) : Sim t' { d with entries := eraseEntry n.key d.entries } := by
  have hnd : ((live t).map (·.id)).Nodup :=
    List.Nodup.sublist ((List.filter_sublist).map _) h.idsNodup
  refine ⟨s.fl, ?_, eraseEntry_sorted _ s.sorted, s.globals.trans hg.symm, by rw [hi]; exact s.iters⟩
  show (eraseEntry n.key d.entries).Perm _
  unfold eraseEntry
  refine (s.entries.filter _).trans ?_
  rw [hl, List.filter_map]
  apply List.Perm.of_eq
  congr 1
  apply List.filter_congr
  intro x hx
  simp only [Function.comp, absNode]
  by_cases e1 : x.id = n.id
  · have : x = n := inj_of_nodup_map (·.id) hnd hx hn e1
    subst this; simp
  · have : ¬ x.key = n.key := fun e2 => e1 (by rw [live_unique h hx hn e2])
    have h3 : (x.key == n.key) = false := by simpa using this
    have h4 : (x.id == n.id) = false := by simpa using e1
    rw [h3, h4]

/-- nothing about the entries changes -/
theorem sim_same {t t' : HT} {d d' : Dict} (s : Sim t d) (hl : (live t').map absNode = (live t).map absNode)
    (hg : t'.globals = t.globals) (e1 : d'.fl = d.fl) (e2 : d'.entries = d.entries) (e3 : d'.globals = d.globals)
    (hi : d'.iters.map (·.1 + 1) = t'.iters.map (·.1)) : Sim t' d' :=
  ⟨e1.trans s.fl, by rw [e2, hl]; exact s.entries, by rw [e2]; exact s.sorted,
    by rw [e3, hg]; exact s.globals, hi⟩

end QbVerif.Hashtable
