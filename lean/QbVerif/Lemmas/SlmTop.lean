/-
Skiplist, all levels: the search from the header in a state satisfying `Inv` (`search_top`), tying
the store-level walk (`walkL`, `stopL`, `keyIs`) to the entry-level one (`predOf`, `succOf`).
-/
import QbVerif.Lemmas.SlmChain

namespace QbVerif.Skiplist
open QbVerif.Map
set_option linter.unusedSimpArgs false

theorem NodeOk.keyLt {s : SL} {i : NodeId} {e : Entry} (h : NodeOk s i e) (k : Key) : keyLt s k i = Key.lt e.key k := by
  obtain ⟨lv, rc, f, a, _, _, _, hn, _⟩ := h
  simp [Skiplist.keyLt, hn]

theorem NodeOk.keyIs {s : SL} {i : NodeId} {e : Entry} (h : NodeOk s i e) (k : Key) : keyIs s k i = decide (e.key = k) := by
  obtain ⟨lv, rc, f, a, _, _, _, hn, _⟩ := h
  simp [Skiplist.keyIs, hn]

theorem Chain.toL {s : SL} : ∀ {x ids es}, Chain s x ids es → LChain s 0 x ids
  | _, [], [], h => h
  | _, _ :: _, _ :: _, h => ⟨h.1, Chain.toL h.2.2⟩
  | _, [], _ :: _, h => by cases h
  | _, _ :: _, [], h => by cases h

theorem Chain.alloc {s : SL} {x ids es} (h : Chain s x ids es) : Alloc s ids := by
  intro i hi
  obtain ⟨e, _, lv, rc, f, a, _, _, _, hn, ha⟩ := h.key_of_mem hi
  exact ⟨_, a, e.key, hn, ha, rfl⟩

theorem Chain.walk_eq {s : SL} (k : Key) : ∀ {x ids es}, Chain s x ids es →
    walkL s k x ids = predOf k x ids es ∧ stopL s k ids = (succOf k ids es).map (·.1)
  | _, [], [], _ => ⟨rfl, rfl⟩
  | x, i :: ids, e :: es, h => by
    simp only [walkL, stopL, predOf, succOf, h.2.1.keyLt k]
    split
    · exact Chain.walk_eq k h.2.2
    · exact ⟨rfl, rfl⟩
  | _, [], _ :: _, h => by cases h
  | _, _ :: _, [], h => by cases h

theorem Chain.mono {s : SL} (k : Key) : ∀ {x ids es}, Chain s x ids es → Sorted es →
    ids.Pairwise (fun a b => keyLt s k b = true → keyLt s k a = true)
  | _, [], [], _, _ => List.Pairwise.nil
  | x, i :: ids, e :: es, h, hs => by
    refine List.pairwise_cons.2 ⟨?_, Chain.mono k h.2.2 (List.pairwise_cons.1 hs).2⟩
    intro j hj hjk
    obtain ⟨ej, hej, hok⟩ := h.2.2.key_of_mem hj
    rw [hok.keyLt k] at hjk
    rw [h.2.1.keyLt k]
    exact Key.lt_trans ((List.pairwise_cons.1 hs).1 ej hej) hjk
  | _, [], _ :: _, h, _ => by cases h
  | _, _ :: _, [], h, _ => by cases h

theorem exists_measure : ∀ (L : List NodeId), L.Nodup →
    ∃ m : NodeId → Nat, L.Pairwise (fun a b => m b < m a) ∧ ∀ x ∈ L, m x ≤ L.length
  | [], _ => ⟨fun _ => 0, List.Pairwise.nil, fun _ h => by cases h⟩
  | a :: L, hnd => by
    obtain ⟨m, hp, hb⟩ := exists_measure L (List.nodup_cons.1 hnd).2
    have ha : a ∉ L := (List.nodup_cons.1 hnd).1
    refine ⟨fun x => if x = a then L.length + 1 else m x, ?_, ?_⟩
    · refine List.pairwise_cons.2 ⟨?_, ?_⟩
      · intro b hb'
        have hba : b ≠ a := fun he => ha (he ▸ hb')
        simp only [hba, if_false, if_true]
        have := hb b hb'; omega
      · refine List.Pairwise.imp_of_mem ?_ hp
        intro x y hx hy hxy
        have hxa : x ≠ a := fun he => ha (he ▸ hx)
        have hya : y ≠ a := fun he => ha (he ▸ hy)
        simp only [hxa, hya, if_false]; exact hxy
    · intro x hx
      simp only [List.length_cons]
      by_cases hxa : x = a
      · simp [hxa]
      · simp only [hxa, if_false]
        rcases List.mem_cons.1 hx with h | h
        · exact absurd h hxa
        · have := hb x h; omega

/-- a linked node carrying `key` is where the level-0 walk stops -/
theorem Chain.stop_of_keyIs {s : SL} {key : Key} : ∀ {x ids es} {i : NodeId}, Chain s x ids es → Sorted es → i ∈ ids →
    keyIs s key i = true → ∃ e, succOf key ids es = some (i, e) ∧ e.key = key
  | _, [], [], _, _, _, hi, _ => by cases hi
  | x, j :: ids, e :: es, i, h, hs, hi, hk => by
    simp only [succOf]
    rcases List.mem_cons.1 hi with rfl | hi
    · rw [h.2.1.keyIs key] at hk
      have hke : e.key = key := by simpa using hk
      have : Key.lt e.key key = false := by rw [hke]; exact Key.lt_irrefl _
      simp only [this, Bool.false_eq_true, if_false]
      exact ⟨e, rfl, hke⟩
    · obtain ⟨ei, hei, hok⟩ := h.2.2.key_of_mem hi
      rw [hok.keyIs key] at hk
      have hke : ei.key = key := by simpa using hk
      have hlt : Key.lt e.key key = true := by rw [← hke]; exact (List.pairwise_cons.1 hs).1 ei hei
      simp only [hlt, if_true]
      exact Chain.stop_of_keyIs h.2.2 (List.pairwise_cons.1 hs).2 hi (by rw [hok.keyIs key]; simpa using hke)
  | _, [], _ :: _, _, h, _, _, _ => by cases h
  | _, _ :: _, [], _, h, _, _, _ => by cases h

theorem Inv.searchCtx {s ids es g} (h : Inv s ids es g) (key : Key) {ch} (hL : Levels s ids ch) :
    ∃ m, SearchCtx s key ids ch m ∧ m s.header ≤ ids.length + 1 := by
  obtain ⟨m, hp, hb⟩ := exists_measure (s.header :: ids) h.nodup
  exact ⟨m, ⟨hL, h.hxok, h.chain.alloc, hp, h.chain.mono key h.sorted, h.nodup⟩, by simpa using hb s.header (by simp)⟩

/-- searching from the header: a node carrying the key, or the predecessors on every level -/
theorem search_top {s ids es g} (h : Inv s ids es g) {ch} (hL : Levels s ids ch) (htop : ∀ l, s.lv ≤ l → ch l = [])
    (key : Key) (stopEq : Bool) :
    (stopEq = true ∧ ∃ i e, succOf key ids es = some (i, e) ∧ e.key = key ∧
      s.search key stopEq s.fuel s.header s.lv (fun _ => s.header) = .ok (.inl i)) ∨
    (∃ u', s.search key stopEq s.fuel s.header s.lv (fun _ => s.header) = .ok (.inr (predOf key s.header ids es, u')) ∧
      (∀ l, u' l = walkL s key s.header (ch l)) ∧ (stopEq = true → findEntry es key = none)) := by
  obtain ⟨m, C, hm⟩ := h.searchCtx key hL
  have hfuel : m s.header + s.lv + 1 ≤ s.fuel := by
    have := h.lv
    have hl := h.len
    have := h.chain.length_eq
    simp only [SL.fuel, LEVEL_MAX, Gen.SL_LEVEL_MAX] at *
    omega
  have hw0 := (h.chain.walk_eq key).1
  rcases search_levels stopEq C s.lv h.lv s.header (fun _ => s.header) s.fuel
      (by by_cases h0 : s.lv = 0
          · exact Or.inl h0
          · right; simp) (Or.inl rfl) hfuel with ⟨hs, i, hi, hk, hr⟩ | ⟨u', hr, hu1, hu2, hu3⟩
  · left
    obtain ⟨e, hso, hke⟩ := h.chain.stop_of_keyIs h.sorted hi hk
    exact ⟨hs, i, e, hso, hke, hr⟩
  · right
    have hall : ∀ l, u' l = walkL s key s.header (ch l) := by
      intro l
      by_cases hl : l < s.lv
      · exact hu1 l hl
      · rw [hu2 l (by omega), htop l (by omega)]; rfl
    refine ⟨u', ?_, hall, ?_⟩
    · rw [hr]
      by_cases h0 : s.lv = 0
      · have : ids = [] := by rw [← hL.ch0]; exact htop 0 (by omega)
        subst this
        have : es = [] := by
          have := h.chain.length_eq
          cases es with
          | nil => rfl
          | cons _ _ => simp at this
        subst this
        simp [h0, predOf]
      · simp only [h0, if_false]
        rw [hall 0, hL.ch0, hw0]
    · intro hs
      by_cases h0 : s.lv = 0
      · have : ids = [] := by rw [← hL.ch0]; exact htop 0 (by omega)
        subst this
        have : es = [] := by
          have := h.chain.length_eq
          cases es with
          | nil => rfl
          | cons _ _ => simp at this
        subst this
        rfl
      · have hno := hu3 hs (by omega)
        rw [hL.ch0] at hno
        cases hf : findEntry es key with
        | none => rfl
        | some e =>
          exfalso
          have hw := findEntry_walk key h.chain.length_eq h.sorted
          rw [hf] at hw
          cases hso : succOf key ids es with
          | none => simp [hso] at hw
          | some ie =>
            obtain ⟨i, e0⟩ := ie
            simp only [hso] at hw
            by_cases hk : e0.key = key
            · apply hno
              refine ⟨i, by rw [(h.chain.walk_eq key).2, hso]; rfl, ?_⟩
              have hok : NodeOk s i e0 := by
                have : ∀ {x ids es}, Chain s x ids es → succOf key ids es = some (i, e0) → NodeOk s i e0 := by
                  intro x ids es hc
                  induction es generalizing x ids with
                  | nil => cases ids <;> simp [succOf]
                  | cons e1 es ih =>
                    cases ids with
                    | nil => simp [succOf]
                    | cons i1 ids =>
                      simp only [succOf]
                      split
                      · exact ih hc.2.2
                      · intro h; cases h; exact hc.2.1
                exact this h.chain hso
              rw [hok.keyIs key]; simpa using hk
            · simp [hk] at hw

end QbVerif.Skiplist
