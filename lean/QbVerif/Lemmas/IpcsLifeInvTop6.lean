import QbVerif.Lemmas.IpcsLifeInvTop5

/-! C04 — the invariant of whole histories; retry job; the reference-holding walk of qb_ipcs_destroy. -/
namespace QbVerif.IpcsLife

structure TopInv (s : St) : Prop where
  core : Core s
  nb : s.halt = false → NB s

theorem TopInv.same {s s' : St} (h : TopInv s) (hs : Same s s') (hn : s'.nconn = s.nconn)
    (hh : s'.halt = false → s.halt = false) : TopInv s' :=
  ⟨h.core.same hs hn, fun hx i => by rw [hs.conns]; exact h.nb (hh hx) i⟩

theorem TopInv.ok {s : St} (h : TopInv s) : TopInv s.ok := by
  have := same_ok s
  refine h.same this.1 this.2 (fun hx => ?_)
  unfold St.ok at hx; split at hx
  · assumption
  · exact hx

theorem TopInv.exec {s : St} (h : TopInv s) (hh : s.halt = false) (call : Call) (hok : CallOk s call) :
    TopInv (exec FUEL s call) :=
  have he := h.core.exec FUEL call hok
  ⟨he.1, fun _ => (h.nb hh).frame he.2⟩

/-- _rerun_closed_job_ -/
theorem runJob_ok {s : St} (h : TopInv s) (hh : s.halt = false) (s' : St) (hr : runJob s = some s') :
    TopInv s' := by
  unfold runJob at hr
  split at hr
  · cases hr
  · next c rest hj =>
    have hi := h.core.inv
    have hcl : (s.conns c).cl = .retry := (hi.job c).mp (by rw [hj]; simp)
    obtain ⟨hp, hfr, hph, _⟩ := (hi.conn c).jobReset hcl _ rfl
    have hnd : rest.Nodup ∧ c ∉ rest := by
      have := hi.jnd; rw [hj] at this; exact ⟨(List.nodup_cons.mp this).2, (List.nodup_cons.mp this).1⟩
    have ht : ({ s with jobs := rest } : St).touch c = { s with jobs := rest } := touch_eq _ c hfr
    dsimp only at hr
    split at hr
    case isFalse hf => exact absurd hi.fix.1 hf
    rw [ht] at hr
    split at hr
    case isTrue hx => have hx' : s.halt = true := hx; rw [hh] at hx'; cases hx'
    simp only [Option.some.injEq] at hr
    subst hr
    have hi1 : Inv (({ s with jobs := rest } : St).upd c fun k => { k with cl := .todo }) := by
      refine ⟨hi.fix, fun i => ?_, fun x hx => ?_, hnd.1, fun x => ?_⟩
      · by_cases hc : i = c
        · subst hc; simpa using hp
        · simpa [hc] using hi.conn i
      · by_cases hc : x = c
        · subst hc; simp; show (s.conns x).phase ≠ .dead; exact hi.lst x hx
        · simp [hc]; exact hi.lst x hx
      · show x ∈ rest ↔ _
        by_cases hc : x = c
        · subst hc; simp; exact hnd.2
        · simp [hc]; rw [← hi.job x, hj]; simp [hc]
    have hc1 : Core (({ s with jobs := rest } : St).upd c fun k => { k with cl := .todo }) :=
      ⟨hi1, fun i hx => by
          by_cases hc : i = c
          · subst hc; simp; exact h.core.fresh i hx
          · simp [hc]; exact h.core.fresh i hx,
        h.core.nodup, h.core.bound, fun x hx => by
          by_cases hc : x = c
          · subst hc; simp; exact h.core.lnn x hx
          · simp [hc]; exact h.core.lnn x hx⟩
    have hnb1 : NB (({ s with jobs := rest } : St).upd c fun k => { k with cl := .todo }) := fun i => by
      by_cases hc : i = c
      · subst hc; have := h.nb hh i; simp [Brs] at this ⊢; exact this
      · simp [hc]; exact h.nb hh i
    have he := hc1.exec FUEL (.disc c) (by simp [CallOk]; exact hfr)
    exact ⟨he.1, fun _ => hnb1.frame he.2⟩

theorem runJobs_ok : ∀ (n : Nat) (s : St), TopInv s → TopInv (runJobs n s)
  | 0, _, h => h
  | n+1, s, h => by
    unfold runJobs
    split
    · exact h
    · next hh =>
      split
      · exact h
      · next s' hr => exact runJobs_ok n s' (runJob_ok h (by simpa using hh) s' hr)

end QbVerif.IpcsLife
