import QbVerif.Lemmas.IpcsLifeInvTop6

/-! C04 — qb_ipcs_destroy: the reference-holding walk (first_get / next_get, D20c) preserves the history
    invariant: at every round only the walk's references (on the current and on the next connection) are
    held, whatever the closed / destroyed callbacks do to the list meanwhile. -/
namespace QbVerif.IpcsLife

theorem succOf_some {c x : Nat} : ∀ {l : List Nat}, succOf c l = some x → x ∈ l ∧ (l.Nodup → x ≠ c)
  | [], h => by simp [succOf] at h
  | y :: rest, h => by
    unfold succOf at h
    split at h
    · next hy =>
      subst hy
      have hx : x ∈ rest := List.mem_of_mem_head? h
      exact ⟨List.mem_cons_of_mem _ hx, fun hn e => (List.nodup_cons.mp hn).1 (e ▸ hx)⟩
    · have ih := succOf_some (l := rest) h
      exact ⟨List.mem_cons_of_mem _ ih.1, fun hn => ih.2 (List.nodup_cons.mp hn).2⟩

/-- the only library references held: the walk's, on the connection `o` (if any) -/
def WB (s : St) (o : Option Nat) : Prop :=
  ∀ i, Brs (s.conns i) = if o = some i then (false, false, true) else (false, false, false)
/-- … on `c` and on `o` -/
def WB2 (s : St) (c : Nat) (o : Option Nat) : Prop :=
  ∀ i, Brs (s.conns i) = if i = c ∨ o = some i then (false, false, true) else (false, false, false)

theorem WB.frame {s s' : St} {o : Option Nat} (h : WB s o) (hf : Frame s s') : WB s' o :=
  fun i => by rw [hf.brs i]; exact h i
theorem WB2.frame {s s' : St} {c : Nat} {o : Option Nat} (h : WB2 s c o) (hf : Frame s s') : WB2 s' c o :=
  fun i => by rw [hf.brs i]; exact h i
theorem WB.nb {s : St} (h : WB s none) : NB s := fun i => by simpa using h i
theorem NB.wb {s : St} (h : NB s) : WB s none := fun i => by simpa using h i
theorem WB.two {s : St} {c : Nat} (h : WB s (some c)) : WB2 s c none := fun i => by
  have := h i
  by_cases hc : i = c
  · subst hc; simpa using this
  · have hc' : ¬ c = i := fun e => hc e.symm
    simpa [hc, hc'] using this

/-- next_get / first_get: a reference on a listed connection -/
theorem refW_ok {s : St} (h : Core s) (x : Nat) (hh : s.halt = false) (hx : x ∈ s.list)
    (hb : Brs (s.conns x) = (false, false, false)) :
    Core (s.ref x fun k => { k with brWalk := true }) ∧ (s.ref x fun k => { k with brWalk := true }).halt = false ∧
    ∀ i, Brs ((s.ref x fun k => { k with brWalk := true }).conns i) =
      if i = x then (false, false, true) else Brs (s.conns i) := by
  have hbx : (s.conns x).brCreated = false ∧ (s.conns x).brDispatch = false ∧ (s.conns x).brWalk = false := by
    simpa [Brs] using hb
  have hn := h.lnn x hx
  have hd := h.inv.lst x hx
  obtain ⟨hp, hfr, h1, h2⟩ := (h.inv.conn x).refW hbx.2.2 hn hd _ rfl
  have he : (s.ref x fun k => { k with brWalk := true }) = s.upd x fun k => { k with rc := k.rc + 1, brWalk := true } :=
    ref_eq s x _ hh hfr
  rw [he]
  have hu := updOf_upd s x fun k => { k with rc := k.rc + 1, brWalk := true }
  have hi' := hu.inv h.inv hp (fun hx => by rw [h1]; exact h.inv.lst x hx) (by rw [h2])
  refine ⟨h.updOf hu rfl hi' hn (by rw [h1]; exact hn), hh, fun i => ?_⟩
  by_cases hc : i = x
  · subst hc; simp [Brs, hbx]
  · simp [hc]

theorem brCloseW_ok {s : St} (h : Core s) (c : Nat) (hh : s.halt = false) {o : Option Nat} (hb : WB2 s c o)
    (ho : o ≠ some c) :
    Core (brCloseW s c) ∧ CallOk (brCloseW s c) (.zero c) ∧ WB (brCloseW s c) o := by
  have hbc := hb c; simp [Brs] at hbc
  obtain ⟨hp, hrc, hfr, h1, hn, hd, h2⟩ := (h.inv.conn c).decW hbc.2.2 _ rfl
  have he : brCloseW s c = s.upd c fun k => { k with rc := k.rc - 1, brWalk := false } := by
    unfold brCloseW; exact dec_eq s c _ hh hfr hrc
  rw [he]
  have hu := updOf_upd s c fun k => { k with rc := k.rc - 1, brWalk := false }
  have hi' := hu.inv h.inv hp (fun hx => by rw [h1]; exact h.inv.lst c hx) (by rw [h2])
  refine ⟨h.updOf hu rfl hi' hn (by rw [h1]; exact hn), ?_, fun i => ?_⟩
  · simp [CallOk]; exact ⟨hn, hd⟩
  · by_cases hc : i = c
    · subst hc
      have : ¬ o = some i := ho
      simp [Brs, hbc, this]
    · have := hb i; simp [hc] at this; simp [hc, this]

/-- one round: reference on the next connection, qb_ipcs_disconnect(c), unref(c) -/
theorem walkStep_ok {s : St} (h : Core s) (c : Nat) (hh : s.halt = false) (hb : WB s (some c))
    (o : Option Nat) (ho : ∀ x, o = some x → x ∈ s.list ∧ x ≠ c) :
    Core (walkStep s c o) ∧ ((walkStep s c o).halt = false → WB (walkStep s c o) o) := by
  have hbc : (s.conns c).brWalk = true := by have := hb c; simp [Brs] at this; exact this.2.2
  -- the reference on the next one
  have h1 : Core (brOpenW s o) ∧ (brOpenW s o).halt = false ∧ WB2 (brOpenW s o) c o ∧
      ((brOpenW s o).conns c).brWalk = true := by
    cases o with
    | none => exact ⟨h, hh, hb.two, hbc⟩
    | some x =>
      obtain ⟨hx, hxc⟩ := ho x rfl
      have hbx : Brs (s.conns x) = (false, false, false) := by
        have := hb x
        have hne : ¬ c = x := fun e => hxc e.symm
        simpa [hne] using this
      obtain ⟨a, b, d⟩ := refW_ok h x hh hx hbx
      refine ⟨a, b, fun i => ?_, ?_⟩
      · show Brs ((s.ref x _).conns i) = _
        rw [d i]
        by_cases hi : i = x
        · subst hi; simp
        · have hi' : ¬ x = i := fun e => hi e.symm
          have := hb i
          by_cases hic : i = c
          · subst hic; simpa [hi, hi'] using this
          · have hic' : ¬ c = i := fun e => hic e.symm
            simpa [hi, hi', hic, hic'] using this
      · have := d c
        have hne : ¬ c = x := fun e => hxc e.symm
        simp [hne, Brs] at this
        show ((s.ref x _).conns c).brWalk = true
        rw [this.2.2]; exact hbc
  obtain ⟨hc1, hh1, hb1, hbw1⟩ := h1
  have hf1 := ((hc1.inv.conn c).bracket (Or.inr (Or.inr hbw1))).1
  have he := hc1.exec FUEL (.disc c) hf1
  unfold walkStep
  simp only []
  by_cases h2 : (exec FUEL (brOpenW s o) (.disc c)).halt = true
  · simp only [h2, ↓reduceIte]; exact ⟨he.1, fun hx => by cases hx⟩
  · have h2' : (exec FUEL (brOpenW s o) (.disc c)).halt = false := by simpa using h2
    simp only [h2', Bool.false_eq_true, ↓reduceIte]
    have hoc : o ≠ some c := fun e => (ho c e).2 rfl
    obtain ⟨a, b, d⟩ := brCloseW_ok he.1 c h2' (hb1.frame he.2) hoc
    have he2 := a.exec FUEL (.zero c) b
    exact ⟨he2.1, fun _ => d.frame he2.2⟩

theorem walkFix_ok : ∀ (n : Nat) (s : St) (o : Option Nat), Core s → (s.halt = false → WB s o) →
    Core (walkFix n s o) ∧ ((walkFix n s o).halt = false → NB (walkFix n s o))
  | n, s, none, h, hb => by
    have : walkFix n s none = s := by cases n <;> rfl
    rw [this]; exact ⟨h, fun hx => (hb hx).nb⟩
  | 0, s, some c, h, hb => by
    unfold walkFix
    split
    · next hx => exact ⟨h, fun hy => by rw [hx] at hy; cases hy⟩
    · next hx =>
      have hh : s.halt = false := by simpa using hx
      obtain ⟨a, b, d⟩ := brCloseW_ok h c hh (hb hh).two (by simp)
      have he := a.exec FUEL (.zero c) b
      exact ⟨he.1, fun _ => (d.frame he.2).nb⟩
  | n+1, s, some c, h, hb => by
    unfold walkFix
    split
    · next hx => exact ⟨h, fun hy => by rw [hx] at hy; cases hy⟩
    · next hx =>
      have hh : s.halt = false := by simpa using hx
      have hbc : (s.conns c).brWalk = true := by have := hb hh c; simp [Brs] at this; exact this.2.2
      have hfr := ((h.inv.conn c).bracket (Or.inr (Or.inr hbc))).1
      simp only [touch_eq s c hfr, hh, Bool.false_eq_true, ↓reduceIte]
      have := walkStep_ok h c hh (hb hh) (succOf c s.list) (fun x hx => by
        have := succOf_some hx; exact ⟨this.1, this.2 h.nodup⟩)
      exact walkFix_ok n _ _ this.1 this.2

theorem halfGone_same (s : St) (P : Nat) :
    Same s (halfGone s P) ∧ (halfGone s P).nconn = s.nconn ∧ ((halfGone s P).halt = false → s.halt = false) := by
  unfold halfGone
  have h0 : Same s ({ s with halfs := s.halfs.filter (· != P) } : St) := ⟨rfl, rfl, rfl, rfl, rfl, rfl⟩
  refine ⟨(h0.trans (same_touchSvc _)).trans (same_svcUnref _), by simp, fun hx => ?_⟩
  exact halt_touchSvc_mono ({ s with halfs := s.halfs.filter (· != P) } : St) (halt_svcUnref_mono _ hx)

theorem destroyTail_ok {w : St} (hw : TopInv w) :
    TopInv (if w.halt then w else { w.svcUnref with svcGone := true }) := by
  split
  · exact hw
  · exact hw.same ((same_svcUnref _).trans ⟨rfl, rfl, rfl, rfl, rfl, rfl⟩) (by simp)
      (fun hy => halt_svcUnref_mono _ hy)

/-- qb_ipcs_destroy -/
theorem destroy_ok {s : St} (h : TopInv s) (hh : s.halt = false) : TopInv (destroy s) := by
  have hs := same_touchSvc s
  have h0 : TopInv s.touchSvc := h.same hs (by simp) (fun hx => halt_touchSvc_mono s hx)
  unfold destroy
  simp only []
  split
  · exact h0
  · next hx =>
    have hh0 : s.touchSvc.halt = false := by simpa using hx
    have hw : TopInv (match s.touchSvc.list.head? with
        | none => s.touchSvc
        | some c => walkFix (s.touchSvc.list.length + 1)
            (s.touchSvc.ref c fun k => { k with brWalk := true }) (some c)) := by
      split
      · exact h0
      · next c hc =>
        have hcl : c ∈ s.touchSvc.list := List.mem_of_mem_head? hc
        obtain ⟨a, b, d⟩ := refW_ok h0.core c hh0 hcl (h0.nb hh0 c)
        have hb : WB (s.touchSvc.ref c fun k => { k with brWalk := true }) (some c) := fun i => by
          rw [d i]
          by_cases hi : i = c
          · subst hi; simp
          · have hi' : ¬ c = i := fun e => hi e.symm
            simp [hi, hi']; exact h0.nb hh0 i
        have := walkFix_ok (s.touchSvc.list.length + 1) _ (some c) a (fun _ => hb)
        exact ⟨this.1, this.2⟩
    simp only [h0.core.inv.fix.2.2, ↓reduceIte]
    exact destroyTail_ok hw

end QbVerif.IpcsLife
