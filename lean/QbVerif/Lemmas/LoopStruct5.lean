/-
C08: the structural invariant, part 5 — the POLL group `PG fl s` (`fl` = the poll entry whose dispatch function
is running, if any): a linked `poll_entries[i].item` means entry i is JOBLIST, linked once, not the one in
flight; the entry in flight is not EMPTY (its slot is not re-used); EMPTY entries carry check 0 and descriptor
-1 (repaired `_poll_add_`), occupied ones an `add_to_jobs` function; the kernel's epoll data carry non-zero
check words.  Kept by qb_loop_poll_add / _mod / _del.  Core Lean only.
-/
import QbVerif.Lemmas.LoopStruct4

namespace QbVerif.Loop
open QbVerif.Gen

structure PG (fl : Option Nat) (s : St) : Prop where
  qJob : ∀ i, 0 < s.cnt (.fd i) → (s.pe i).state = .joblist ∧ fl ≠ some i
  qNd : ∀ i, s.cnt (.fd i) ≤ 1
  fly : ∀ i, fl = some i → (s.pe i).state ≠ .empty
  emp : ∀ i, (s.pe i).state = .empty → (s.pe i).check = 0 ∧ ((s.pe i).fd = -1 ∨ s.pes.length ≤ i)
  fn : ∀ i, (s.pe i).state ≠ .empty → (s.pe i).addFn ≠ .none
  epc : ∀ r ∈ s.ep, 1 ≤ r.check

theorem PG.toNone {fl : Option Nat} {s : St} (h : PG fl s) : PG none s :=
  ⟨fun i hi => ⟨(h.qJob i hi).1, fun hh => nomatch hh⟩, h.qNd, (fun _ hh => nomatch hh), h.emp, h.fn, h.epc⟩

/-- entry `j` is rewritten, nothing is linked anew -/
theorem PG.upd {fl : Option Nat} {s s' : St} (h : PG fl s) (j : Nat) (e : PollEntry)
    (hpe : ∀ k, s'.pe k = if k = j then e else s.pe k)
    (hlen : ∀ k, k ≠ j → s.pes.length ≤ k → s'.pes.length ≤ k)
    (hcnt : ∀ k, s'.cnt (.fd k) ≤ s.cnt (.fd k))
    (hep : ∀ r ∈ s'.ep, 1 ≤ r.check)
    (hq : 0 < s'.cnt (.fd j) → e.state = .joblist)
    (hfly : fl = some j → e.state ≠ .empty)
    (hemp : e.state = .empty → e.check = 0 ∧ e.fd = -1)
    (hfn : e.state ≠ .empty → e.addFn ≠ .none) : PG fl s' := by
  refine ⟨?_, fun i => Nat.le_trans (hcnt i) (h.qNd i), ?_, ?_, ?_, hep⟩
  · intro i hi
    rw [hpe]
    have hq' := h.qJob i (Nat.lt_of_lt_of_le hi (hcnt i))
    split
    · rename_i hij; subst hij; exact ⟨hq hi, hq'.2⟩
    · exact hq'
  · intro i hi; rw [hpe]; split
    · rename_i hij; subst hij; exact hfly hi
    · exact h.fly i hi
  · intro i; rw [hpe]; split
    · intro he; exact ⟨(hemp he).1, Or.inl (hemp he).2⟩
    · rename_i hij
      intro he
      refine ⟨(h.emp i he).1, ?_⟩
      rcases (h.emp i he).2 with h1 | h1
      · exact Or.inl h1
      · exact Or.inr (hlen i hij h1)
  · intro i; rw [hpe]; split
    · exact hfn
    · exact h.fn i

theorem PG.frame' {fl : Option Nat} {s s' : St} (h : PG fl s) (h1 : s'.pes = s.pes) (h2 : ∀ r ∈ s'.ep, r ∈ s.ep)
    (hq : ∀ k, s'.cnt (.fd k) ≤ s.cnt (.fd k)) : PG fl s' := by
  have hpe : ∀ k, s'.pe k = s.pe k := fun k => by unfold St.pe; rw [h1]
  refine ⟨?_, fun i => Nat.le_trans (hq i) (h.qNd i), ?_, ?_, ?_, fun r hr => h.epc r (h2 r hr)⟩
  · intro i hi; rw [hpe]; exact h.qJob i (Nat.lt_of_lt_of_le hi (hq i))
  · intro i hi; rw [hpe]; exact h.fly i hi
  · intro i; rw [hpe, h1]; exact h.emp i
  · intro i; rw [hpe]; exact h.fn i

theorem PG.frame {fl : Option Nat} {s s' : St} {T : Bool} (h : PG fl s) (f : Fr s s' T true) : PG fl s' :=
  h.frame' (f.p rfl).1 (f.p rfl).2 (fun _ => f.q _ rfl)

/-! ### entries -/

theorem pe_ge (s : St) (j : Nat) (h : ¬ j < s.pes.length) : s.pe j = {} := by
  unfold St.pe
  simp [List.getD, List.getElem?_eq_none (Nat.le_of_not_lt h)]

theorem pe_lt {s : St} {j : Nat} (h : (s.pe j).state ≠ .empty) : j < s.pes.length := by
  by_cases hl : j < s.pes.length
  · exact hl
  · rw [pe_ge s j hl] at h; exact absurd rfl h

theorem pe_setPe_le (s : St) (j i : Nat) (e : PollEntry) (hj : j ≤ s.pes.length) :
    (s.setPe j e).pe i = if i = j then e else s.pe i := by
  unfold St.pe St.setPe setAt
  by_cases hlt : j < s.pes.length
  · simp only [hlt, if_true]
    by_cases hij : i = j
    · subst hij; simp [List.getD, hlt]
    · simp [List.getD, hij, List.getElem?_set, Ne.symm hij]
  · have hje : j = s.pes.length := by omega
    simp only [hlt, if_false]
    by_cases hij : i = j
    · subst hij; simp [List.getD, hje]
    · simp only [hij, if_false]
      by_cases hl : i < s.pes.length
      · simp [List.getD, List.getElem?_append_left hl]
      · have h1 : s.pes.length < i := by omega
        simp [List.getD, List.getElem?_eq_none (Nat.le_of_lt h1),
          List.getElem?_eq_none (show (s.pes ++ [e]).length ≤ i by simp; omega)]

theorem setPe_len (s : St) (j : Nat) (e : PollEntry) :
    (s.setPe j e).pes.length = if j < s.pes.length then s.pes.length else s.pes.length + 1 := by
  unfold St.setPe setAt; split <;> simp

theorem firstEmptyP_spec (ps : List PollEntry) :
    firstEmptyP ps ≤ ps.length ∧ (ps.getD (firstEmptyP ps) {}).state = .empty := by
  induction ps with
  | nil => exact ⟨Nat.le_refl _, rfl⟩
  | cons t ts ih =>
    unfold firstEmptyP at ih ⊢
    rw [List.findIdx?_cons]
    by_cases ht : (t.state == EState.empty) = true
    · simp only [ht, if_true]
      exact ⟨Nat.zero_le _, by simpa using ht⟩
    · simp only [ht, Bool.false_eq_true, if_false]
      cases hf : List.findIdx? (fun t => t.state == EState.empty) ts with
      | none => rw [hf] at ih; simp only [Option.map_none, List.length_cons]; exact ⟨Nat.le_refl _, by simp [List.getD]⟩
      | some k =>
        rw [hf] at ih
        simp only [Option.map_some, List.length_cons]
        exact ⟨Nat.succ_le_succ ih.1, by simpa [List.getD] using ih.2⟩

/-! ### `_poll_add_` (repaired: a refused entry is cleared) -/

theorem ite_cases' {α : Type} (c : Prop) [Decidable c] (a b : α) :
    (if c then a else b) = a ∨ (if c then a else b) = b := by split <;> simp

theorem epAdd_facts (s : St) (n : Bool) (fd ev chk slot : Nat) :
    (s.epAdd n fd ev chk slot).1.pes = s.pes ∧ (∀ x, (s.epAdd n fd ev chk slot).1.cnt x = s.cnt x) ∧
    (∀ r ∈ (s.epAdd n fd ev chk slot).1.ep, r ∈ s.ep ∨ r.check = chk) ∧ (s.epAdd n fd ev chk slot).1.cfg = s.cfg := by
  have hc : (s.epAdd n fd ev chk slot).1 =
      { s with ep := s.ep ++ [{ fd := fd, events := mapEvents ev, check := chk, slot := slot }] } ∨
      (s.epAdd n fd ev chk slot).1 = s := ite_cases' _ _ _
  rcases hc with hc | hc <;> rw [hc]
  · refine ⟨rfl, fun _ => rfl, ?_, rfl⟩
    intro r hr
    rcases List.mem_append.1 hr with h | h
    · exact Or.inl h
    · right; simp at h; subst h; rfl
  · exact ⟨rfl, fun _ => rfl, fun r hr => Or.inl hr, rfl⟩

/-- what `_poll_add_` leaves: slot j = first EMPTY entry now holds `E`; on success E is ACTIVE with the fresh
    check word, on refusal E is the cleared entry -/
theorem pollAddCore_spec (s : St) (n : Bool) (p fd ev id : Nat) (hc : s.cfg.fixAddFail = true) :
    ∃ E : PollEntry,
      (s.pollAddCore n p fd ev id).2.2.1 = firstEmptyP s.pes ∧
      (∀ k, (s.pollAddCore n p fd ev id).1.pe k = if k = firstEmptyP s.pes then E else s.pe k) ∧
      firstEmptyP s.pes < (s.pollAddCore n p fd ev id).1.pes.length ∧
      (∀ k, k ≠ firstEmptyP s.pes → s.pes.length ≤ k → (s.pollAddCore n p fd ev id).1.pes.length ≤ k) ∧
      (∀ x, (s.pollAddCore n p fd ev id).1.cnt x = s.cnt x) ∧
      (∀ r ∈ (s.pollAddCore n p fd ev id).1.ep, r ∈ s.ep ∨ 1 ≤ r.check) ∧
      (s.pollAddCore n p fd ev id).1.cfg = s.cfg ∧
      (((s.pollAddCore n p fd ev id).2.1 = 0 ∧ E.state = .active ∧ E.check = s.nonce + 1 ∧ E.addFn = (s.pe (firstEmptyP s.pes)).addFn) ∨
       ((s.pollAddCore n p fd ev id).2.1 ≠ 0 ∧ E = PollEntry.emptied)) := by
  have hsp := firstEmptyP_spec s.pes
  generalize hj : firstEmptyP s.pes = j at hsp
  unfold St.pollAddCore
  dsimp only
  rw [hj]
  generalize hE : ({ s.pe j with state := EState.active, check := s.draw.1, fd := (fd : Int), events := ev, revents := 0, data := id, prio := p } : PollEntry) = E
  have hpe2 : ∀ k, (s.draw.2.setPe j E).pe k = if k = j then E else s.pe k := fun k => pe_setPe_le s.draw.2 j k E hsp.1
  have hlen2 : j < (s.draw.2.setPe j E).pes.length ∧ s.pes.length ≤ (s.draw.2.setPe j E).pes.length ∧
      (∀ k, k ≠ j → s.pes.length ≤ k → (s.draw.2.setPe j E).pes.length ≤ k) := by
    rw [setPe_len]
    have : s.draw.2.pes.length = s.pes.length := rfl
    rw [this]
    split
    · exact ⟨by assumption, Nat.le_refl _, fun k _ hk => hk⟩
    · exact ⟨by omega, by omega, fun k hk1 hk2 => by omega⟩
  have hcnt2 : ∀ x, (s.draw.2.setPe j E).cnt x = s.cnt x := fun x => cnt_congr (by simp) (by simp) (by simp) x
  have hep2 : (s.draw.2.setPe j E).ep = s.ep := by simp
  have hcfg2 : (s.draw.2.setPe j E).cfg = s.cfg := by simp
  generalize s.draw.2.setPe j E = s2 at hpe2 hlen2 hcnt2 hep2 hcfg2
  have hf := epAdd_facts s2 n fd ev s.draw.1 j
  have hcfg3 : (s2.epAdd n fd ev s.draw.1 j).1.cfg = s.cfg := by rw [← hcfg2]; exact hf.2.2.2
  generalize s2.epAdd n fd ev s.draw.1 j = r3 at hf hcfg3
  obtain ⟨s3, res, evs⟩ := r3
  dsimp only at hf hcfg3 ⊢
  have hpe3 : ∀ k, s3.pe k = if k = j then E else s.pe k := fun k => by
    rw [← hpe2]; unfold St.pe; rw [hf.1]
  have hep3 : ∀ r ∈ s3.ep, r ∈ s.ep ∨ 1 ≤ r.check := by
    intro r hr
    rcases hf.2.2.1 r hr with h | h
    · left; rw [← hep2]; exact h
    · right; rw [h]; show 1 ≤ s.nonce + 1; omega
  by_cases hres : res = 0
  · simp only [hres, if_true]
    refine ⟨E, trivial, hpe3, by rw [hf.1]; exact hlen2.1, by rw [hf.1]; exact hlen2.2.2,
      fun x => (hf.2.1 x).trans (hcnt2 x), hep3, hcfg3, Or.inl ⟨trivial, ?_, ?_, ?_⟩⟩ <;> (subst hE; rfl)
  · simp only [hres, if_false, hc, if_true]
    have hlt3 : j < s3.pes.length := by rw [hf.1]; exact hlen2.1
    refine ⟨PollEntry.emptied, trivial, ?_, ?_, ?_, ?_, ?_, by simpa using hcfg3, Or.inr ⟨hres, rfl⟩⟩
    · intro k
      rw [pe_setPe_le _ _ _ _ (Nat.le_of_lt hlt3), hpe3]
      by_cases hk : k = j <;> simp [hk]
    · rw [setPe_len]; simp only [hlt3, if_true]
    · rw [setPe_len]; simp only [hlt3, if_true]; rw [hf.1]; exact hlen2.2.2
    · intro x; rw [cnt_congr (b := s3) (by simp) (by simp) (by simp)]; exact (hf.2.1 x).trans (hcnt2 x)
    · intro r hr; exact hep3 r (by simpa using hr)

end QbVerif.Loop
