/-
C08: the structural invariant, part 6 — the timer group (with "wait lists hold jobs only") as an instance of
the context walk: kept by every API call, by the top of the loop body, by epoll events and by dispatch rounds.
Core Lean only.
-/
import QbVerif.Lemmas.LoopStruct4

namespace QbVerif.Loop
open QbVerif.Gen

def TW (fl : Option Nat) (s : St) : Prop := TG fl s ∧ WG s

theorem TW.frame {fl : Option Nat} {s s' : St} {P : Bool} (h : TW fl s) (f : Fr s s' true P) : TW fl s' :=
  ⟨h.1.frame f, f.w h.2⟩

theorem lookup_zero_or_mem {α : Type} (l : List (Nat × α)) (k : Nat) (d : α) :
    (lookup l k).getD d = d ∨ ∃ e ∈ l, e.2 = (lookup l k).getD d := by
  cases h : lookup l k with
  | none => exact Or.inl rfl
  | some v => obtain ⟨e, he, hv⟩ := lookup_some_mem h; exact Or.inr ⟨e, he, by simpa using hv⟩

theorem TW.api {fl : Option Nat} {s : St} (h : TW fl s) (n : Bool) (op : Op) : TW fl (s.api n op).1 := by
  unfold St.api
  split
  · exact h
  · cases op with
    | jobAdd p id => exact h.frame (jobAdd_fr s p id (P := true))
    | jobDel p id => exact h.frame (jobDel_fr s p id (P := true))
    | timerAdd p ns hh id =>
      dsimp only; split
      · exact h
      · have h0 : TW fl { s with tseq := s.tseq + 1 } := h.frame (P := true) (by fr_rfl)
        exact ⟨h0.1.timerAdd p _ hh id, (timerAdd_fr _ p _ hh id).w h0.2⟩
    | timerDel hh =>
      dsimp only; split
      · exact h
      · refine ⟨h.1.timerDel _ ?_, (timerDel_fr s _).w h.2⟩
        rcases lookup_zero_or_mem s.th hh 0 with h0 | ⟨e, he, hv⟩
        · exact Or.inl h0
        · right; rw [← hv]; exact h.1.hnd e he
    | timerRunning hh => dsimp only; split <;> exact h
    | pollAdd p fd ev id =>
      dsimp only; split
      · exact h
      · exact h.frame (pollAdd_fr s n p fd ev id)
    | pollMod p fd ev id =>
      dsimp only; split
      · exact h
      · exact h.frame (pollMod_fr s n p fd ev id)
    | pollDel fd => exact h.frame (pollDel_fr s n fd)
    | sigAdd p sg hh id =>
      dsimp only; split
      · exact h
      · split
        · exact h
        · exact h.frame (sigAdd_fr s p sg hh id (P := true))
    | sigMod p sg hh id =>
      dsimp only; split
      · exact h
      · split
        · exact h
        · rename_i aid _; exact h.frame (sigMod_fr s p sg aid id (P := true))
    | sigDel hh =>
      dsimp only; split
      · exact h
      · split
        · exact h
        · rename_i aid _; exact h.frame (sigDel_fr s aid (P := true))
    | stop => exact h.frame (P := true) (by fr_rfl)
    | openFd fd => dsimp only; split <;> first | exact h | exact h.frame (P := true) (by fr_rfl)
    | closeFd fd =>
      dsimp only; split
      · exact h
      · exact ⟨h.1.frame' rfl rfl rfl (fun _ => Nat.le_refl _), h.2.of_eq rfl rfl rfl⟩
    | advance ns => exact h.frame (P := true) (by fr_rfl)
    | nonce v => dsimp only; split <;> first | exact h | exact h.frame (P := true) (by fr_rfl)
    | signal sg =>
      dsimp only; split
      · exact h
      · split <;> first | exact h | exact h.frame (P := true) (by fr_rfl)
    | info => exact h

theorem tw_script (fl : Option Nat) : ScriptStable (TW fl) (fun _ => True) where
  scriptsOk := fun _ _ _ _ _ _ => trivial
  api := fun s op _ h => h.api true op
  setScripts := fun s id sc _ h => h.frame (P := true) (by fr_rfl)

/-! ### the top of the loop body and epoll events -/

theorem count_wait_zero {l : List Item} (h : ∀ it ∈ l, isSlot it = false) (k : Nat) : l.count (.timer k) = 0 :=
  List.count_eq_zero.2 (fun hm => by have := h _ hm; cases this)

theorem TW.jobPoll {s : St} (h : TW none s) : TW none s.jobPoll.1 := by
  have hw : ∀ it, it ∈ s.lo.wait ∨ it ∈ s.me.wait ∨ it ∈ s.hi.wait → isSlot it = false := by
    intro it hit; apply h.2 it; simp only [List.mem_append]; exact hit
  have hmv : ∀ l : Level, (∀ it ∈ l.wait, isSlot it = false) → ∀ k,
      ((if l.wait.isEmpty then (l, (0 : Int)) else
        ({ l with jobs := l.jobs ++ l.wait, wait := [], todo := l.todo + l.wait.length }, (l.wait.length : Int))).1.jobs).count
        (.timer k) = l.jobs.count (.timer k) := by
    intro l hl k
    split
    · rfl
    · simp [List.count_append, count_wait_zero hl k]
  constructor
  · refine h.1.frame' rfl rfl rfl ?_
    intro k
    show List.count _ (_ ++ (_ ++ _)) ≤ List.count _ (_ ++ (_ ++ _))
    simp only [List.count_append]
    have a := hmv s.lo (fun it hi => hw it (Or.inl hi)) k
    have b := hmv s.me (fun it hi => hw it (Or.inr (Or.inl hi))) k
    have c := hmv s.hi (fun it hi => hw it (Or.inr (Or.inr hi))) k
    simp only [St.jobPoll]
    omega
  · intro it hit
    have hsub : ∀ l : Level, ∀ x ∈ (if l.wait.isEmpty then (l, (0 : Int)) else
        ({ l with jobs := l.jobs ++ l.wait, wait := [], todo := l.todo + l.wait.length }, (l.wait.length : Int))).1.wait,
        x ∈ l.wait := by
      intro l x hx; split at hx
      · exact hx
      · cases hx
    simp only [St.jobPoll, List.mem_append] at hit
    rcases hit with h1 | h1 | h1
    · exact hw it (Or.inl (hsub _ _ h1))
    · exact hw it (Or.inr (Or.inl (hsub _ _ h1)))
    · exact hw it (Or.inr (Or.inr (hsub _ _ h1)))

theorem TW.beginIteration {s : St} (h : TW none s) : TW none s.beginIteration := by
  unfold St.beginIteration
  dsimp only
  generalize hs0 : ({ s with pstop := if s.pstop = QB_LOOP_LOW then QB_LOOP_HIGH else s.pstop - 1 } : St) = s0
  have h0 : TW none s0 := by subst hs0; exact h.frame (P := true) (by fr_rfl)
  have h1 := h0.jobPoll
  have h2 := h1.1.timerPollAux s0.jobPoll.1.tl.length 0
  have h3 : TW none (St.timerPollAux s0.jobPoll.1.tl.length s0.jobPoll.1 0).1 :=
    ⟨h2.1, h1.2.of_eq h2.2.wlo h2.2.wme h2.2.whi⟩
  exact ⟨h3.1.frame' rfl rfl rfl (fun _ => Nat.le_refl _), h3.2.of_eq rfl rfl rfl⟩

theorem TW.pollEvent {s : St} (h : TW none s) (r : EpReg) (rev : Nat) : TW none (s.pollEvent r rev).1 := by
  unfold St.pollEvent
  dsimp only
  split
  · exact h
  · split
    · exact h
    · split
      · exact h.frame (setPe_fr _ _ _)
      · split
        · exact h.frame ((setPe_fr _ _ _).trans (sigAddToJobs_fr _ _))
        · have h1 : TW none (s.setPe r.slot { s.pe r.slot with revents := (s.pe r.slot).revents ||| rev }) :=
            h.frame (setPe_fr _ _ _)
          generalize s.setPe r.slot { s.pe r.slot with revents := (s.pe r.slot).revents ||| rev } = s1 at h1
          generalize ({ s.pe r.slot with revents := (s.pe r.slot).revents ||| rev } : PollEntry).prio = pr
          have h2 : TW none (s1.itemAdd pr (.fd r.slot)) := by
            constructor
            · refine h1.1.frame' (by simp) (by simp) (by simp) ?_
              intro k; rw [cnt_itemAdd]; simp
            · exact h1.2.setLv pr _ (fun x hx => Or.inl hx)
          exact h2.frame (setPe_fr _ _ _)
        · have h1 : TW none (s.setPe r.slot { s.pe r.slot with revents := (s.pe r.slot).revents ||| rev }) :=
            h.frame (setPe_fr _ _ _)
          exact ⟨h1.1.frame' rfl rfl rfl (fun _ => Nat.le_refl _), h1.2.of_eq rfl rfl rfl⟩

end QbVerif.Loop
