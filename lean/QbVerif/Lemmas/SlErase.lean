/-
Skiplist, single-level fragment: the invariant after a node has been spliced out (`erase_inv`),
from a description `Erased` of the new state that both branches of `skiplist_rm` (plain removal;
takeover-and-repoint behind the header) satisfy.
-/
import QbVerif.Lemmas.SlNotif

namespace QbVerif.Skiplist
open QbVerif.Map
set_option linter.unusedSimpArgs false

theorem eraseEntry_length_hit {k : Key} {e : Entry} {i : NodeId} (hk : e.key = k) : ∀ {ids : List NodeId} {es : List Entry},
    Sorted es → succOf k ids es = some (i, e) → (eraseEntry k es).length + 1 = es.length
  | [], _, _, h => by simp [succOf] at h
  | _ :: _, [], _, h => by simp [succOf] at h
  | i0 :: ids, e0 :: es, hs, h => by
    rw [eraseEntry_walk k e0 es hs]
    simp only [succOf] at h
    split at h
    · next hlt => simp [hlt, eraseEntry_length_hit hk (List.pairwise_cons.1 hs).2 h]
    · next hlt => cases h; simp [hlt, hk, Key.lt_irrefl]

/-- the state after `found` (the successor of `p`) has been spliced out and released -/
structure Erased (s s' : SL) (ids : List NodeId) (g : List Notifier) (p found : NodeId) : Prop where
  header : s'.header = s.header
  hdr : ∃ f a v, s'.nodes s.header = some ⟨none, v, LEVEL_MAX + 1, 1, f, g⟩ ∧ s'.fwds f = some a
  pred : next0 s' p = next0 s found
  others : ∀ j ∈ s.header :: ids, j ≠ p → j ≠ found → next0 s' j = next0 s j
  nodes : ∀ j ∈ ids, j ≠ found → s'.nodes j = s.nodes j ∧ (s'.fwds (fwdOf s j)).isSome
  hfwd : fwdOf s' s.header = fwdOf s s.header ∨ fwdOf s' s.header = fwdOf s found
  nextNode : s'.nextNode = s.nextNode
  nextFwd : s'.nextFwd = s.nextFwd
  length : s'.length = s.length - 1
  iters : s'.iters = s.iters
  crashed : s'.crashed = s.crashed
  lv : s'.lv ≤ 1 ∧ (next0 s' s.header ≠ none → s'.lv = 1)

theorem erase_inv {s s' : SL} {ids es g} (h : Inv s ids es g) {k : Key} {found : NodeId} {e : Entry}
    (hso : succOf k ids es = some (found, e)) (hk : e.key = k)
    (E : Erased s s' ids g (predOf k s.header ids es) found) :
    Inv s' (delIds k ids es) (eraseEntry k es) g := by
  have hfi : found ∈ ids := (succOf_mem hso).1
  have hsub := delIds_sublist k ids es
  have hnf : found ∉ delIds k ids es := not_mem_delIds hso (List.nodup_cons.1 h.nodup).2
  have hmem : ∀ j ∈ delIds k ids es, j ∈ ids ∧ j ≠ found := fun j hj =>
    ⟨hsub.subset hj, fun he => hnf (he ▸ hj)⟩
  have hfw : ∀ j ∈ delIds k ids es, fwdOf s' j = fwdOf s j := by
    intro j hj
    simp only [fwdOf, (E.nodes j (hmem j hj).1 (hmem j hj).2).1]
  have hchain : Chain s' s.header (delIds k ids es) (eraseEntry k es) := by
    refine chain_erase hk h.chain hso h.nodup h.sorted E.pred E.others ?_
    intro j hj hjf e0 hok
    obtain ⟨h1, h2⟩ := E.nodes j hj hjf
    exact hok.frame h1 h2
  refine ⟨by rw [E.header]; exact E.hdr, by rw [E.header]; exact hchain, ?_, ?_, ?_, ?_, eraseEntry_sorted k h.sorted,
    ⟨E.lv.1, ?_⟩, ?_, by rw [E.iters, h.iters], by rw [E.crashed, h.ok]⟩
  · rw [E.header]
    exact List.Nodup.sublist (hsub.cons_cons s.header) h.nodup
  · rw [E.header]
    intro a ha b hb hab
    rcases List.mem_cons.1 ha with rfl | ha <;> rcases List.mem_cons.1 hb with rfl | hb
    · rfl
    · exfalso
      rw [hfw b hb] at hab
      rcases E.hfwd with hh | hh
      · rw [hh] at hab
        have := h.inj s.header (by simp) b (List.mem_cons_of_mem _ (hmem b hb).1) hab
        exact (List.nodup_cons.1 h.nodup).1 (this ▸ (hmem b hb).1)
      · rw [hh] at hab
        exact (hmem b hb).2 (h.inj found (List.mem_cons_of_mem _ hfi) b (List.mem_cons_of_mem _ (hmem b hb).1) hab).symm
    · exfalso
      rw [hfw a ha] at hab
      rcases E.hfwd with hh | hh
      · rw [hh] at hab
        have := h.inj a (List.mem_cons_of_mem _ (hmem a ha).1) s.header (by simp) hab
        exact (List.nodup_cons.1 h.nodup).1 (this ▸ (hmem a ha).1)
      · rw [hh] at hab
        exact (hmem a ha).2 (h.inj a (List.mem_cons_of_mem _ (hmem a ha).1) found (List.mem_cons_of_mem _ hfi) hab)
    · rw [hfw a ha, hfw b hb] at hab
      exact h.inj a (List.mem_cons_of_mem _ (hmem a ha).1) b (List.mem_cons_of_mem _ (hmem b hb).1) hab
  · rw [E.header, E.nextNode]
    intro j hj
    rcases List.mem_cons.1 hj with rfl | hj
    · exact h.freshN _ (by simp)
    · exact h.freshN j (List.mem_cons_of_mem _ (hmem j hj).1)
  · rw [E.header, E.nextFwd]
    intro j hj
    rcases List.mem_cons.1 hj with rfl | hj
    · rcases E.hfwd with hh | hh
      · rw [hh]; exact h.freshF _ (by simp)
      · rw [hh]; exact h.freshF found (List.mem_cons_of_mem _ hfi)
    · rw [hfw j hj]; exact h.freshF j (List.mem_cons_of_mem _ (hmem j hj).1)
  · intro hne
    apply E.lv.2
    cases hd : delIds k ids es with
    | nil =>
      rw [hd] at hchain
      cases he : eraseEntry k es with
      | nil => exact absurd he hne
      | cons _ _ => rw [he] at hchain; cases hchain
    | cons j js =>
      rw [hd] at hchain
      cases he : eraseEntry k es with
      | nil => rw [he] at hchain; cases hchain
      | cons _ _ => rw [he] at hchain; rw [hchain.1]; simp
  · rw [E.length, h.len]
    have := eraseEntry_length_hit hk h.sorted hso
    omega

end QbVerif.Skiplist
