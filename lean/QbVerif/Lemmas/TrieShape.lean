/-
The shape of a trie (segments and child arrays) and the operations that do not change it.

* `nd_set`, `nd_modify`, `nd_free`: reading after a write through a node pointer.
* `SameShape t t'`: every node has the same segment and the same child array in both stores;
  `trie_lookup`, `Start`, `Path` only depend on the shape (`lookup_shape`, `start_shape`, `path_shape`).
* `insert_of_lookup`: when the key's node exists (exact lookup succeeds), `trie_insert` returns that
  node and changes nothing — the "replace" and "re-insert on an existing node" paths of `trie_put`
  and the registration of a notifier on an existing node leave the shape alone.
-/
import QbVerif.Lemmas.TriePath

namespace QbVerif.Trie
open QbVerif.Map

/-! ### reading after writing -/

theorem node?_set (t : T) (id j : Nat) (n : Node) :
    (t.set id n).node? j = if j = id ∧ id < t.nodes.length then some n else t.node? j := by
  unfold T.node? T.set
  simp only [List.getElem?_set]
  by_cases h : id = j
  · subst h
    by_cases h2 : id < t.nodes.length
    · simp [h2]
    · simp [h2]
  · have : ¬ j = id := fun e => h e.symm
    simp [h, this]

theorem nd_set (t : T) (id j : Nat) (n : Node) :
    (t.set id n).nd j = if j = id ∧ id < t.nodes.length then n else t.nd j := by
  unfold T.nd
  rw [node?_set]
  split <;> rfl

theorem nd_set_other (t : T) {id j : Nat} (n : Node) (h : j ≠ id) : (t.set id n).nd j = t.nd j := by
  rw [nd_set]; simp [h]

theorem nd_set_same (t : T) {id : Nat} (n : Node) (h : id < t.nodes.length) : (t.set id n).nd id = n := by
  rw [nd_set]; simp [h]

theorem nodes_length_set (t : T) (id : Nat) (n : Node) : (t.set id n).nodes.length = t.nodes.length := by
  simp [T.set]

theorem lt_of_node? {t : T} {id : Nat} {n : Node} (h : t.node? id = some n) : id < t.nodes.length := by
  unfold T.node? at h
  by_cases hlt : id < t.nodes.length
  · exact hlt
  · rw [List.getElem?_eq_none (Nat.le_of_not_lt hlt)] at h; exact absurd h (by simp)

theorem nd_of_node? {t : T} {id : Nat} {n : Node} (h : t.node? id = some n) : t.nd id = n := by
  simp [T.nd, h]

@[simp] theorem nd_with_length (t : T) (l j : Nat) : ({ t with length := l } : T).nd j = t.nd j := rfl
@[simp] theorem nd_with_iters (t : T) (l : List (Nat × Iter)) (j : Nat) : ({ t with iters := l } : T).nd j = t.nd j := rfl
@[simp] theorem node?_with_length (t : T) (l j : Nat) : ({ t with length := l } : T).node? j = t.node? j := rfl
@[simp] theorem node?_with_iters (t : T) (l : List (Nat × Iter)) (j : Nat) : ({ t with iters := l } : T).node? j = t.node? j := rfl

/-! ### shape -/

/-- same segments and child arrays everywhere -/
def SameShape (t t' : T) : Prop :=
  ∀ id, (t'.nd id).seg = (t.nd id).seg ∧ (t'.nd id).children = (t.nd id).children

theorem SameShape.refl (t : T) : SameShape t t := fun _ => ⟨rfl, rfl⟩

theorem SameShape.trans {a b c : T} (h1 : SameShape a b) (h2 : SameShape b c) : SameShape a c :=
  fun id => ⟨(h2 id).1.trans (h1 id).1, (h2 id).2.trans (h1 id).2⟩

theorem SameShape.symm {a b : T} (h : SameShape a b) : SameShape b a :=
  fun id => ⟨(h id).1.symm, (h id).2.symm⟩

theorem sameShape_set (t : T) (id : Nat) (n : Node) (hs : n.seg = (t.nd id).seg)
    (hc : n.children = (t.nd id).children) : SameShape t (t.set id n) := by
  intro j
  rw [nd_set]
  split
  · rename_i h; rw [h.1]; exact ⟨hs, hc⟩
  · exact ⟨rfl, rfl⟩

theorem sameShape_of_nd {t t' : T} (h : ∀ j, t'.nd j = t.nd j) : SameShape t t' :=
  fun j => by rw [h j]; exact ⟨rfl, rfl⟩

theorem child_shape {t t' : T} (h : SameShape t t') (id i : Nat) : (t'.nd id).child i = (t.nd id).child i := by
  unfold Node.child; rw [(h id).2]

theorem lookupLoop_shape {t t' : T} (h : SameShape t t') : ∀ (key : List Nat) (cur sc : Nat),
    t'.lookupLoop cur sc key = t.lookupLoop cur sc key := by
  intro key
  induction key with
  | nil => intro cur sc; rfl
  | cons c rest ih =>
    intro cur sc
    by_cases hlt : sc < (t.nd cur).seg.length
    · have hlt' : sc < (t'.nd cur).seg.length := by rw [(h cur).1]; exact hlt
      rw [lookupLoop_seg t cur sc c rest hlt, lookupLoop_seg t' cur sc c rest hlt', (h cur).1, ih]
    · have hlt' : ¬ sc < (t'.nd cur).seg.length := by rw [(h cur).1]; exact hlt
      rw [lookupLoop_child t cur sc c rest hlt, lookupLoop_child t' cur sc c rest hlt', child_shape h]
      cases (t.nd cur).child (charIdx c) with
      | none => rfl
      | some ch => simp only [Option.bind_some]; exact ih ch 0

theorem lookup_shape {t t' : T} (h : SameShape t t') (key : List Nat) (exact : Bool) :
    t'.lookup key exact = t.lookup key exact := by
  unfold T.lookup
  rw [lookupLoop_shape h]
  cases t.lookupLoop 0 0 key with
  | none => rfl
  | some r => simp only [(h r.1).1]

theorem start_shape {t t' : T} (h : SameShape t t') {id : Nat} {p : List Nat} (hs : Start t id p) :
    Start t' id p := by
  induction hs with
  | root => exact Start.root
  | @edge par id pp c _ hc hb ih =>
    rw [← (h par).1]
    exact Start.edge ih (by rw [child_shape h]; exact hc) hb

theorem path_shape {t t' : T} (h : SameShape t t') {id : Nat} {k : List Nat} (hp : Path t id k) :
    Path t' id k := by
  obtain ⟨p, hs, rfl⟩ := hp
  exact ⟨p, start_shape h hs, by rw [(h id).1]⟩

/-! ### `trie_insert` on a key whose node exists -/

theorem insertLoop_of_lookupLoop (t : T) : ∀ (key : List Nat) (cur sc : Nat) (r : Nat × Nat),
    t.lookupLoop cur sc key = some r → t.insertLoop cur sc key = (t, r.1, r.2) := by
  intro key
  induction key with
  | nil =>
    intro cur sc r h
    rw [lookupLoop_nil] at h
    injection h with h; subst h; rfl
  | cons c rest ih =>
    intro cur sc r h
    by_cases hlt : sc < (t.nd cur).seg.length
    · rw [lookupLoop_seg t cur sc c rest hlt] at h
      have h0 : (t.nd cur).seg.length > 0 := by omega
      split at h
      · rename_i heq
        simp only [T.insertLoop, hlt, h0, heq, decide_true, Bool.and_self, if_true]
        exact ih cur (sc + 1) r h
      · exact absurd h (by simp)
    · rw [lookupLoop_child t cur sc c rest hlt] at h
      cases hch : (t.nd cur).child (charIdx c) with
      | none => rw [hch] at h; exact absurd h (by simp)
      | some ch =>
        rw [hch] at h
        simp only [Option.bind_some] at h
        simp only [T.insertLoop, hlt, hch, decide_false, Bool.and_false, Bool.false_eq_true, if_false]
        exact ih ch 0 r h

/-- when the key's node exists, `trie_insert` returns it and changes nothing -/
theorem insert_of_lookup {t : T} {key : List Nat} {id : Nat} (h : t.lookup key true = some id) :
    t.insert key = (t, id) := by
  unfold T.lookup at h
  cases hl : t.lookupLoop 0 0 key with
  | none => rw [hl] at h; exact absurd h (by simp)
  | some r =>
    obtain ⟨cur, sc⟩ := r
    rw [hl] at h
    simp only at h
    split at h
    · exact absurd h (by simp)
    · rename_i hne
      injection h with h; subst h
      unfold T.insert
      rw [insertLoop_of_lookupLoop t key 0 0 _ hl]
      simp only [Bool.true_and] at hne
      simp only [hne]
      rfl

end QbVerif.Trie
