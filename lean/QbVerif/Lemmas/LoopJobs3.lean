/-
C08: the job invariant `JInv` is kept by every primitive step of the model (instance of the generic walk).
Core Lean only.
-/
import QbVerif.Lemmas.LoopJobs2

namespace QbVerif.Loop
open QbVerif.Gen

macro "via_split " t:term : tactic =>
  `(tactic| (split; rename_i heq; have hh := $t; rw [heq] at hh; exact hh))

theorem api_jle (s : St) (n : Bool) (op : Op) (h : ∀ p id, op ≠ .jobAdd p id) : JLe s (s.api n op).1 := by
  unfold St.api
  split
  · exact JLe.refl s
  · cases op with
    | jobAdd p id => exact absurd rfl (h p id)
    | jobDel p id => dsimp only; exact (jobDel_jle s p id)
    | timerAdd p ns hh id =>
      dsimp only; split
      · exact JLe.refl s
      · have h1 := (timerAdd_same { s with tseq := s.tseq + 1 } p (ns + (s.tseq + 1)) hh id).jle
        exact JLe.trans (b := { s with tseq := s.tseq + 1 }) (JLe.of_eq rfl rfl rfl rfl (Nat.le_refl _)) h1
    | timerDel hh =>
      dsimp only; split
      · exact JLe.refl s
      · exact (timerDel_jle s ((lookup s.th hh).getD 0))
    | timerRunning hh => dsimp only; split <;> exact JLe.refl s
    | pollAdd p fd ev id =>
      dsimp only; split
      · exact JLe.refl s
      · exact (pollAdd_same s n p fd ev id).jle
    | pollMod p fd ev id =>
      dsimp only; split
      · exact JLe.refl s
      · exact (pollMod_same s n p fd ev id).jle
    | pollDel fd => dsimp only; exact (pollDel_jle s n fd)
    | sigAdd p sg hh id =>
      dsimp only; split
      · exact JLe.refl s
      · split
        · exact JLe.refl s
        · exact (sigAdd_same s p sg hh id).jle
    | sigMod p sg hh id =>
      dsimp only; split
      · exact JLe.refl s
      · split
        · exact JLe.refl s
        · rename_i aid _; exact (sigMod_same s p sg aid id).jle
    | sigDel hh =>
      dsimp only; split
      · exact JLe.refl s
      · split
        · exact JLe.refl s
        · rename_i aid _; exact (sigDel_jle s aid)
    | stop => exact JLe.of_eq rfl rfl rfl rfl (Nat.le_refl _)
    | openFd fd => dsimp only; split <;> first | exact JLe.refl s | exact JLe.of_eq rfl rfl rfl rfl (Nat.le_refl _)
    | closeFd fd => dsimp only; split <;> first | exact JLe.refl s | exact JLe.of_eq rfl rfl rfl rfl (Nat.le_refl _)
    | advance ns => exact JLe.of_eq rfl rfl rfl rfl (Nat.le_refl _)
    | nonce v => dsimp only; split <;> first | exact JLe.refl s | exact JLe.of_eq rfl rfl rfl rfl (Nat.le_refl _)
    | signal sg =>
      dsimp only; split
      · exact JLe.refl s
      · split <;> first | exact JLe.refl s | exact JLe.of_eq rfl rfl rfl rfl (Nat.le_refl _)
    | info => exact JLe.refl s

/-! ### the poll phase and the top of the loop body -/

theorem sigAddToJobs_jle (s : St) (slot : Nat) : JLe s (s.sigAddToJobs slot) := by
  unfold St.sigAddToJobs
  split
  · exact JLe.refl s
  · dsimp only
    rename_i sg rest _
    generalize hs1 : ({ s with pipe := rest } : St).setPe slot _ = s1
    have h1 : JLe s s1 := by
      subst hs1
      exact JLe.trans (b := { s with pipe := rest }) (JLe.of_eq rfl rfl rfl rfl (Nat.le_refl _)) (setPe_same _ _ _).jle
    generalize List.filter (fun r => r.signal == sg) s1.regs = rs
    clear hs1
    induction rs generalizing s1 with
    | nil => exact h1
    | cons r rs ih =>
      simp only [List.foldl_cons]
      apply ih
      refine h1.trans (JLe.trans (b := { s1 with nextAid := s1.nextAid + 1 }) (JLe.of_eq rfl rfl rfl rfl (Nat.le_succ _)) ?_)
      exact itemAdd_jle _ _ _ rfl

theorem pollEvent_jle (s : St) (r : EpReg) (rev : Nat) : JLe s (s.pollEvent r rev).1 := by
  unfold St.pollEvent
  dsimp only
  split
  · exact JLe.refl s
  · split
    · exact JLe.refl s
    · split
      · exact (setPe_same _ _ _).jle
      · split
        · exact (setPe_same _ _ _).jle.trans (sigAddToJobs_jle _ _)
        · exact (setPe_same _ _ _).jle.trans ((itemAdd_jle _ _ _ rfl).trans (setPe_same _ _ _).jle)
        · exact (setPe_same _ _ _).jle.trans (JLe.of_eq rfl rfl rfl rfl (Nat.le_refl _))

theorem mv_pend (l : Level) :
    pendOf (if l.wait.isEmpty then (l, (0 : Int)) else
      ({ l with jobs := l.jobs ++ l.wait, wait := [], todo := l.todo + l.wait.length }, (l.wait.length : Int))).1 = pendOf l := by
  split <;> simp [pendOf]

theorem jobPoll_jle (s : St) : JLe s s.jobPoll.1 := by
  refine ⟨?_, ?_, ?_, rfl, Nat.le_refl _⟩
  · rw [show pendOf s.jobPoll.1.lo = pendOf s.lo from mv_pend s.lo]; exact List.Sublist.refl _
  · rw [show pendOf s.jobPoll.1.me = pendOf s.me from mv_pend s.me]; exact List.Sublist.refl _
  · rw [show pendOf s.jobPoll.1.hi = pendOf s.hi from mv_pend s.hi]; exact List.Sublist.refl _

theorem timerPollAux_jle (n : Nat) (s : St) (k : Int) : JLe s (St.timerPollAux n s k).1 := by
  induction n generalizing s k with
  | zero => exact JLe.refl s
  | succ n ih =>
    rw [St.timerPollAux]
    split
    · exact JLe.refl s
    · split
      · refine JLe.trans ?_ (ih _ _)
        dsimp only
        rename_i e i rest _ _
        generalize hs2 : (if ((s.timerSlot i).state != EState.active && s.fault.isNone) = true then
          ({ s with tl := rest, fault := some "abort" } : St) else { s with tl := rest }) = s2
        have h2 : JLe s s2 := by
          subst hs2; split <;> exact JLe.of_eq rfl rfl rfl rfl (Nat.le_refl _)
        exact h2.trans ((itemAdd_jle _ _ _ rfl).trans (setTimer_same _ _ _).jle)
      · exact JLe.refl s

theorem beginIteration_jle (s : St) : JLe s s.beginIteration := by
  unfold St.beginIteration
  dsimp only
  generalize hs0 : ({ s with pstop := if s.pstop = QB_LOOP_LOW then QB_LOOP_HIGH else s.pstop - 1 } : St) = s0
  have h1 : JLe s s0 := by subst hs0; exact JLe.of_eq rfl rfl rfl rfl (Nat.le_refl _)
  have h2 := jobPoll_jle s0
  have h3 := timerPollAux_jle s0.jobPoll.1.tl.length s0.jobPoll.1 0
  exact ((h1.trans h2).trans h3).trans (JLe.of_eq rfl rfl rfl rfl (Nat.le_refl _))

end QbVerif.Loop
