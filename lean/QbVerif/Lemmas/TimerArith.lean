/-
Helper lemmas for C09: the 64-bit / 32-bit arithmetic of Model/Timer.lean expressed over Nat/Int.
Core Lean only.
-/
import QbVerif.Model.Timer

namespace QbVerif.Timer

theorem U64_MAX_toNat : U64_MAX.toNat = 2^64 - 1 := by decide
theorem NS_IN_MSEC_toNat : NS_IN_MSEC.toNat = 1000000 := by decide

theorem u64_max_sub_toNat (now : UInt64) : (U64_MAX - now).toNat = 2^64 - 1 - now.toNat := by
  have h1 := now.toNat_lt
  rw [UInt64.toNat_sub, U64_MAX_toNat]; omega

/-- repaired `timerlist_add_duration`: the expiry is `now + d`, saturated at `UINT64_MAX` -/
theorem addDuration_repaired_toNat (now0 d : UInt64) :
    (addDuration Cfg.repaired now0 d).toNat = min (now0.toNat + d.toNat) (2^64 - 1) := by
  unfold addDuration
  simp only [Cfg.repaired, if_true]
  have h1 := now0.toNat_lt
  have h2 := d.toNat_lt
  split
  · rename_i h
    rw [gt_iff_lt, UInt64.lt_iff_toNat_lt, u64_max_sub_toNat] at h
    rw [U64_MAX_toNat]; omega
  · rename_i h
    rw [gt_iff_lt, UInt64.lt_iff_toNat_lt, u64_max_sub_toNat] at h
    rw [UInt64.toNat_add]; omega

/-- original `timerlist_add_duration`: the expiry is `now + d` modulo 2^64 -/
theorem addDuration_original_toNat (now0 d : UInt64) :
    (addDuration Cfg.original now0 d).toNat = (now0.toNat + d.toNat) % 2^64 := by
  unfold addDuration
  simp only [Cfg.original, Bool.false_eq_true, if_false]
  rw [UInt64.toNat_add]

theorem tickMs_toNat (hz : Nat) : (tickMs hz).toNat = 1000 / hz := by
  unfold tickMs
  rw [UInt64.toNat_ofNat']
  have : 1000 / hz ≤ 1000 := Nat.div_le_self _ _
  generalize 1000 / hz = t at *
  omega

/-- `timerlist_msec_duration_to_expire` with a non-empty heap, over Nat -/
theorem msec_some_toNat (e now : UInt64) (hz : Nat) :
    (msecDurationToExpire (some e) now hz).toNat =
      if e.toNat < now.toNat then 0 else (e.toNat - now.toNat) / 1000000 + 1000 / hz := by
  unfold msecDurationToExpire
  simp only
  have h1 := e.toNat_lt
  have h2 := now.toNat_lt
  have h3 : 1000 / hz ≤ 1000 := Nat.div_le_self _ _
  by_cases h : e < now
  · have h' := UInt64.lt_iff_toNat_lt.1 h
    simp [h, h']
  · have h' : ¬ e.toNat < now.toNat := fun hlt => h (UInt64.lt_iff_toNat_lt.2 hlt)
    simp only [h, h', if_false]
    rw [UInt64.toNat_add, UInt64.toNat_div, UInt64.toNat_sub, NS_IN_MSEC_toNat, tickMs_toNat]
    have hs : (2 ^ 64 - now.toNat + e.toNat) % 2 ^ 64 = e.toNat - now.toNat := by omega
    rw [hs]
    have hq : (e.toNat - now.toNat) / 1000000 ≤ (e.toNat - now.toNat) := Nat.div_le_self _ _
    have hq2 : (e.toNat - now.toNat) / 1000000 < 2^64 / 1000000 + 1 := by omega
    generalize 1000 / hz = t at *
    omega

theorem msec_none (now : UInt64) (hz : Nat) : msecDurationToExpire none now hz = U64_MAX := rfl

/-- the value a non-empty heap yields is never `(uint64_t)-1` -/
theorem msec_some_ne_max (e now : UInt64) (hz : Nat) : msecDurationToExpire (some e) now hz ≠ U64_MAX := by
  intro h
  have := congrArg UInt64.toNat h
  rw [msec_some_toNat, U64_MAX_toNat] at this
  have h1 := e.toNat_lt
  have h3 : 1000 / hz ≤ 1000 := Nat.div_le_self _ _
  split at this
  · omega
  · have hq2 : (e.toNat - now.toNat) / 1000000 < 2^64 / 1000000 + 1 := by omega
    generalize 1000 / hz = t at *
    omega

/-- `uint32_t → int32_t` (two's complement reinterpretation) over Int -/
theorem toInt_toInt32 (u : UInt32) :
    u.toInt32.toInt = if u.toNat < 2^31 then (u.toNat : Int) else (u.toNat : Int) - 2^32 := by
  unfold Int32.toInt UInt32.toInt32 Int32.toBitVec
  simp only
  rw [BitVec.toInt_eq_toNat_cond]
  simp only [UInt32.toNat_toBitVec]
  split <;> split <;> omega

/-- `uint64_t → int32_t` as gcc does it: reduction modulo 2^32, then reinterpretation -/
theorem toInt_narrow (m : UInt64) :
    m.toUInt32.toInt32.toInt =
      if m.toNat % 2^32 < 2^31 then ((m.toNat % 2^32 : Nat) : Int) else ((m.toNat % 2^32 : Nat) : Int) - 2^32 := by
  rw [toInt_toInt32, UInt64.toNat_toUInt32]

/-- repaired `qb_loop_timer_msec_duration_to_expire`: `min(left, INT32_MAX)` unless `left = -1` -/
theorem loopMsec_repaired_toInt (m : UInt64) (hm : m ≠ U64_MAX) :
    (loopMsecDurationToExpire Cfg.repaired m).toInt = (min m.toNat (2^31 - 1) : Nat) := by
  unfold loopMsecDurationToExpire
  simp only [Cfg.repaired, if_true]
  have hne : (m != U64_MAX) = true := by simpa using hm
  by_cases hgt : m > 0x7FFFFFFF
  · have hgt' : (0x7FFFFFFF : UInt64).toNat < m.toNat := UInt64.lt_iff_toNat_lt.1 hgt
    have h7 : (0x7FFFFFFF : UInt64).toNat = 2^31 - 1 := by decide
    simp only [hne, hgt, Bool.true_and, decide_true, if_true]
    rw [toInt_narrow, h7]
    rw [h7] at hgt'
    have : min m.toNat (2^31 - 1) = 2^31 - 1 := by omega
    rw [this]; decide
  · have hgt' : ¬ (0x7FFFFFFF : UInt64).toNat < m.toNat := fun h => hgt (UInt64.lt_iff_toNat_lt.2 h)
    have h7 : (0x7FFFFFFF : UInt64).toNat = 2^31 - 1 := by decide
    simp only [hne, hgt, Bool.true_and, decide_false, Bool.false_eq_true, if_false]
    rw [toInt_narrow]
    rw [h7] at hgt'
    have h1 : m.toNat % 2^32 = m.toNat := Nat.mod_eq_of_lt (by omega)
    have : min m.toNat (2^31 - 1) = m.toNat := by omega
    rw [h1, this]
    split <;> omega

theorem loopMsec_max (c : Cfg) : loopMsecDurationToExpire c U64_MAX = -1 := by
  cases c with
  | mk a b => cases a <;> cases b <;> decide

end QbVerif.Timer
