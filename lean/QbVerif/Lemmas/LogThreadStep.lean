import QbVerif.Lemmas.LogThreadP
import QbVerif.Lemmas.LogThreadW
import QbVerif.Lemmas.LogThreadC
import QbVerif.Lemmas.LogThreadC0
import QbVerif.Lemmas.LogThreadHB

/-! Both invariants hold in every state reachable under any schedule. -/
namespace QbVerif.LogThread

theorem inv_step (cfg : Cfg) (hf : Fixed cfg) (s : St) (h : Inv cfg s) (t : Tid) : Inv cfg (step cfg s t) := by
  unfold step
  by_cases hc : (s.outcome == .running && enabled s t) = true
  · rw [if_pos hc]
    have hen : enabled s t = true := by
      simp only [Bool.and_eq_true] at hc
      exact hc.2
    cases t
    · by_cases hpc : s.c.pc = .idle
      · exact inv_cStep_idle cfg hf s h hen hpc
      · exact inv_cStep_pc cfg hf s h hen hpc
    · exact inv_pStep cfg hf s h hen
    · exact inv_wStep cfg hf s h hen
  · rw [if_neg hc]; exact h

theorem hinv_step (cfg : Cfg) (s : St) (h : HInv s) (hex : Excl s) (t : Tid) : HInv (step cfg s t) := by
  unfold step
  by_cases hc : (s.outcome == .running && enabled s t) = true
  · rw [if_pos hc]
    cases t
    · exact hinv_appStep cfg s .C h hex
    · exact hinv_appStep cfg s .P h hex
    · exact hinv_wStep cfg s h
  · rw [if_neg hc]; exact h

/-- control invariant and history invariant together -/
structure Good (cfg : Cfg) (s : St) : Prop where
  inv : Inv cfg s
  hist : HInv s

theorem good_step (cfg : Cfg) (hf : Fixed cfg) (s : St) (h : Good cfg s) (t : Tid) : Good cfg (step cfg s t) :=
  ⟨inv_step cfg hf s h.inv t, hinv_step cfg s h.hist h.inv.excl t⟩

theorem good_run (cfg : Cfg) (hf : Fixed cfg) (sched : List Tid) :
    ∀ s, Good cfg s → Good cfg (run cfg s sched) := by
  induction sched with
  | nil => intro s h; exact h
  | cons t rest ih => intro s h; exact ih _ (good_step cfg hf s h t)

theorem good_init (cfg : Cfg) (progC progP : List Op) (h : WF cfg progC progP) : Good cfg (init progC progP) :=
  ⟨inv_init cfg progC progP h, hinv_init progC progP⟩

/-- every state reachable from the initial state under any schedule satisfies both invariants -/
theorem good_reach (cfg : Cfg) (hf : Fixed cfg) (progC progP : List Op) (h : WF cfg progC progP)
    (sched : List Tid) : Good cfg (run cfg (init progC progP) sched) :=
  good_run cfg hf sched _ (good_init cfg progC progP h)

end QbVerif.LogThread
