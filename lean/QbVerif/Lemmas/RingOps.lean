/-
What `reclaim` and `write` of the ring buffer model do to a state satisfying `Inv` (C07, C11).
-/
import QbVerif.Lemmas.RingInv

namespace QbVerif.RingLemmas
open QbVerif.Ring QbVerif.RingSpec

/-! ### reclaim -/

theorem reclaim_nil {r TR} (h : Inv r [] TR) : r.reclaim = (r, false) := by
  unfold Rb.reclaim
  rw [if_pos (magic_nil h)]

theorem reclaim_eq_cons {r TR c cs} (h : Inv r (c :: cs) TR) :
    r.reclaim = ({ r with mem := setWord (setWord r.mem r.W TR 0) r.W (TR + 1) DEAD,
                          rp := (TR + cw c.length) % r.W }, true) := by
  have hm := magic_cons h
  have hsz : rd32 r.mem (TR % r.W) = c.length := h.stored.1
  unfold Rb.reclaim
  rw [if_neg (by simp [hm])]
  simp only [Rb.setMagic]
  rw [h.hrp, chunkStep_abs h.wpos hsz, Nat.mod_add_mod]
  rfl

theorem reclaim_inv {r TR c cs} (h : Inv r (c :: cs) TR) :
    Inv { r with mem := setWord (setWord r.mem r.W TR 0) r.W (TR + 1) DEAD,
                 rp := (TR + cw c.length) % r.W } cs (TR + cw c.length) := by
  have hW := h.wpos
  have hu := h.used
  have h2 := cw_ge c.length
  rw [total_cons] at hu
  obtain ⟨_, _, _, hst⟩ := h.stored
  refine ⟨?_, h.wge, h.wlt, rfl, ?_, ?_, ?_, ?_⟩
  · simp only [size_setWord]; exact h.size
  · simp only
    rw [h.hwp, total_cons, Nat.add_assoc]
  · simp only; omega
  · simp only
    apply Stored_frame hW _ hst
    intro a ha hb
    rw [cell_setWord_ne hW (by omega), cell_setWord_ne hW (by omega)]
  · have hn := h.next
    rw [total_cons] at hn
    simp only
    by_cases hfull : cw c.length + total cs + 1 = r.W
    · have e : TR + cw c.length + total cs + 1 = TR + r.W := by omega
      rw [e, word_add_period, word_setWord_ne hW (by unfold Apart; omega),
        word_setWord_eq h.size hW]
      exact zero_ne_MAGIC
    · rw [word_setWord_ne hW (by unfold Apart; omega), word_setWord_ne hW (by unfold Apart; omega)]
      rw [Nat.add_assoc TR]
      exact hn

theorem reclaim_cons {r TR c cs} (h : Inv r (c :: cs) TR) :
    (r.reclaim).2 = true ∧ Inv (r.reclaim).1 cs (TR + cw c.length) ∧ (r.reclaim).1.sem = r.sem ∧
      (r.reclaim).1.W = r.W ∧ (r.reclaim).1.ow = r.ow := by
  rw [reclaim_eq_cons h]
  exact ⟨rfl, reclaim_inv h, rfl, rfl, rfl⟩

/-! ### write = header initialisation, payload copy, commit -/

/-- the header initialisation at the end of `qb_rb_chunk_alloc` (now part of the model) -/
abbrev allocHdr (r : Rb) : Rb := r.allocHdr

/-- everything `qb_rb_chunk_write` does once room has been found -/
def writeTail (r : Rb) (d : List Nat) : Rb := ((allocHdr r).fill d).commit d.length

theorem alloc_normal (r : Rb) (len : Nat) (how : r.ow = false) :
    r.alloc len = if r.spaceFree < len + MARGIN then (r, some .eagain) else (allocHdr r, none) := by
  unfold Rb.alloc Rb.allocGen
  rw [if_neg (by simp [how])]
  rfl

theorem alloc_ow (r : Rb) (len : Nat) (how : r.ow = true) :
    r.alloc len = match r.makeRoom len r.W with
      | (r', false) => (r', some .einval)
      | (r', true) => (allocHdr r', none) := by
  unfold Rb.alloc Rb.allocGen Rb.makeRoom
  rw [if_pos how]
  rcases Rb.makeRoomGen true r len r.W with ⟨r', b⟩
  cases b <;> rfl

theorem write_normal (r : Rb) (d : List Nat) (how : r.ow = false) :
    r.write d = if r.spaceFree < d.length + MARGIN then (r, .error .eagain)
                else (writeTail r d, .ok d.length) := by
  have h0 : r.write d = match r.alloc d.length with
      | (r', some e) => (r', .error e)
      | (r1, none) => ((r1.fill d).commit d.length, .ok d.length) := rfl
  rw [h0, alloc_normal r _ how]
  by_cases h : r.spaceFree < d.length + MARGIN
  · rw [if_pos h, if_pos h]
  · rw [if_neg h, if_neg h]; rfl

theorem write_ow (r : Rb) (d : List Nat) (how : r.ow = true) :
    r.write d = match r.makeRoom d.length r.W with
      | (r', false) => (r', .error .einval)
      | (r', true) => (writeTail r' d, .ok d.length) := by
  have h0 : r.write d = match r.alloc d.length with
      | (r', some e) => (r', .error e)
      | (r1, none) => ((r1.fill d).commit d.length, .ok d.length) := rfl
  rw [h0, alloc_ow r _ how]
  rcases r.makeRoom d.length r.W with ⟨r', b⟩
  cases b <;> rfl

/-- the memory after `qb_rb_chunk_commit` of a chunk of `len` bytes at absolute word address `TW` -/
def commitMem (m : Array Nat) (W TW len : Nat) : Array Nat :=
  setWord (if (TW + cw len + 1) % W ≠ TW % W then setWord (setWord m W TW len) W (TW + cw len + 1) DEAD
           else setWord m W TW len) W (TW + 1) MAGIC

theorem commit_eq {r : Rb} {TW len : Nat} (hs : r.mem.size = 4 * r.W) (hW : 0 < r.W)
    (hwp : r.wp = TW % r.W) (hlen : len < 2 ^ 32) :
    r.commit len = { r with mem := commitMem r.mem r.W TW len, wp := (TW + cw len) % r.W,
                            sem := r.sem.map (· + 1) } := by
  obtain ⟨W, m, rp, wp, ow, sem⟩ := r
  simp only at hs hW hwp
  subst hwp
  have e5 : rd32 (wr32 m (TW % W) len) (TW % W) = len := by
    have := word_setWord_eq (m := m) (W := W) (A := TW) (v := len) hs hW
    rw [Nat.mod_eq_of_lt hlen] at this
    exact this
  have hstep : ({ W := W, mem := wr32 m (TW % W) len, rp := rp, wp := TW % W, ow := ow, sem := sem } : Rb).chunkStep (TW % W)
      = (TW + cw len) % W := chunkStep_abs (r := { W := W, mem := wr32 m (TW % W) len, rp := rp, wp := TW % W, ow := ow, sem := sem }) hW e5
  unfold Rb.commit Rb.commitGen commitMem
  simp only [hstep, Nat.mod_add_mod, true_and]
  by_cases hg : (TW + cw len + 1) % W ≠ TW % W
  · simp only [if_pos hg, Rb.setMagic, Rb.post, Nat.mod_add_mod]; rfl
  · simp only [if_neg hg, Rb.setMagic, Rb.post, Nat.mod_add_mod]; rfl

/-- the memory after writing chunk `d` at absolute word address `TW` -/
def writeMem (m : Array Nat) (W TW : Nat) (d : List Nat) : Array Nat :=
  commitMem (copyIn (setWord (setWord m W TW 0) W (TW + 1) ALLOC) W (4 * (TW + 2)) 0 d) W TW d.length

theorem fill_alloc_eq {r : Rb} {TW : Nat} (d : List Nat) (hW : 0 < r.W) (hwp : r.wp = TW % r.W) :
    (allocHdr r).fill d
      = { r with mem := copyIn (setWord (setWord r.mem r.W TW 0) r.W (TW + 1) ALLOC) r.W (4 * (TW + 2)) 0 d } := by
  obtain ⟨W, m, rp, wp, ow, sem⟩ := r
  simp only at hW hwp
  subst hwp
  have e3 : (4 * ((TW + HDRW) % W)) % (4 * W) = (4 * (TW + 2)) % (4 * W) := by
    rw [HDRW_eq]
    have := mul4_mod (TW + 2) W 0 (by omega) hW
    simp only [Nat.add_zero] at this
    rw [this, Nat.mod_mod]
  simp only [allocHdr, Rb.allocHdr, Rb.fill, Rb.setMagic, Nat.mod_add_mod]
  rw [copyIn_congr_base _ _ _ _ _ _ e3]
  rfl

theorem writeTail_eq {r : Rb} {TW : Nat} (d : List Nat) (hs : r.mem.size = 4 * r.W) (hW : 0 < r.W)
    (hwp : r.wp = TW % r.W) (hlen : d.length < 2 ^ 32) :
    writeTail r d = { r with mem := writeMem r.mem r.W TW d, wp := (TW + cw d.length) % r.W,
                             sem := r.sem.map (· + 1) } := by
  unfold writeTail
  rw [fill_alloc_eq d hW hwp]
  exact commit_eq (r := { r with mem := copyIn (setWord (setWord r.mem r.W TW 0) r.W (TW + 1) ALLOC) r.W (4 * (TW + 2)) 0 d })
    (TW := TW) (by simp [hs]) hW hwp hlen

end QbVerif.RingLemmas
