/-
C08: `TStep` for the functions of Model/Loop.lean (everything except the pop of qb_loop_run_level, which
writes the ghost log).  Core Lean only.
-/
import QbVerif.Lemmas.LoopStale

namespace QbVerif.Loop
open QbVerif.Gen

macro "tstep_eq" : tactic => `(tactic| exact TStep.of_eq (by simp) (by simp) (by simp) (by simp) (by simp))

theorem setLv_tstep (s : St) (p : Nat) (l : Level) : TStep s (s.setLv p l) := by tstep_eq
theorem itemAdd_tstep (s : St) (p : Nat) (it : Item) : TStep s (s.itemAdd p it) := by tstep_eq
theorem itemDel_tstep (s : St) (p : Nat) (it : Item) : TStep s (s.itemDel p it) := by tstep_eq
theorem setPe_tstep (s : St) (i : Nat) (e : PollEntry) : TStep s (s.setPe i e) := by tstep_eq
theorem touch_tstep (s : St) (a : Nat) : TStep s (s.touch a) :=
  TStep.of_core (by simp) (by simp) (touch_fault_mono s a) (by simp) (by simp)
theorem draw_tstep (s : St) : TStep s s.draw.2 := TStep.of_core rfl (Nat.le_succ _) id rfl rfl

theorem jobAdd_tstep (s : St) (p id : Nat) : TStep s (s.jobAdd p id).1 := by
  unfold St.jobAdd; split
  · exact TStep.refl s
  · tstep_eq

theorem jobDel_tstep (s : St) (p id : Nat) : TStep s (s.jobDel p id).1 := by
  unfold St.jobDel; split
  · exact TStep.refl s
  · dsimp only; split
    · tstep_eq
    · split
      · exact itemDel_tstep s p _
      · exact TStep.refl s

theorem jobPoll_tstep (s : St) : TStep s s.jobPoll.1 := TStep.of_eq rfl rfl rfl rfl rfl

theorem epAdd_tstep (s : St) (n : Bool) (fd ev chk slot : Nat) : TStep s (s.epAdd n fd ev chk slot).1 := by
  unfold St.epAdd; dsimp only
  exact TStep.ite (TStep.of_eq rfl rfl rfl rfl rfl) (TStep.refl s)

theorem epMod_tstep (s : St) (n : Bool) (fd ev chk slot : Nat) : TStep s (s.epMod n fd ev chk slot).1 := by
  unfold St.epMod; dsimp only
  exact TStep.ite (TStep.of_eq rfl rfl rfl rfl rfl) (TStep.refl s)

theorem epDel_tstep (s : St) (n : Bool) (fd : Nat) : TStep s (s.epDel n fd).1 := by
  unfold St.epDel; dsimp only
  exact TStep.ite (TStep.of_eq rfl rfl rfl rfl rfl) (TStep.refl s)

theorem pollAddCore_tstep (s : St) (n : Bool) (p fd ev id : Nat) : TStep s (s.pollAddCore n p fd ev id).1 := by
  unfold St.pollAddCore
  dsimp only
  have h2 := (draw_tstep s).trans (setPe_tstep s.draw.2 (firstEmptyP s.pes)
    { s.pe (firstEmptyP s.pes) with state := .active, check := s.draw.1, fd := fd, events := ev, revents := 0, data := id, prio := p })
  have h3 := h2.trans (epAdd_tstep _ n fd ev s.draw.1 (firstEmptyP s.pes))
  split
  · exact h3
  · split
    · exact h3.trans (setPe_tstep _ _ _)
    · exact h3.trans (setPe_tstep _ _ _)

theorem pollAdd_tstep (s : St) (n : Bool) (p fd ev id : Nat) : TStep s (s.pollAdd n p fd ev id).1 := by
  unfold St.pollAdd
  have h := pollAddCore_tstep s n p fd ev id
  generalize s.pollAddCore n p fd ev id = r at h ⊢
  obtain ⟨s1, res, i, evs⟩ := r
  dsimp only at h ⊢
  split
  · exact h
  · exact h.trans (setPe_tstep _ _ _)

theorem pollMod_tstep (s : St) (n : Bool) (p fd ev id : Nat) : TStep s (s.pollMod n p fd ev id).1 := by
  unfold St.pollMod
  split
  · exact TStep.refl s
  · dsimp only
    split
    · exact TStep.refl s
    · split
      · exact ((setPe_tstep s _ _).trans (epMod_tstep _ n fd ev _ _)).trans (setPe_tstep _ _ _)
      · exact setPe_tstep s _ _

theorem pollDel_tstep (s : St) (n : Bool) (fd : Nat) : TStep s (s.pollDel n fd).1 := by
  unfold St.pollDel
  split
  · exact TStep.refl s
  · dsimp only
    split
    · exact TStep.refl s
    · rename_i i _ _
      generalize hs1 : (if (s.pe i).state == EState.joblist then s.itemDel (s.pe i).prio (.fd i) else s) = s1
      have h1 : TStep s s1 := by
        subst hs1; exact TStep.ite (itemDel_tstep _ _ _) (TStep.refl s)
      exact h1.trans ((epDel_tstep s1 n fd).trans (setPe_tstep _ _ _))

theorem sigAdd_tstep (s : St) (p sg h id : Nat) : TStep s (s.sigAdd p sg h id).1 := by
  unfold St.sigAdd; split
  · exact TStep.refl s
  · exact TStep.of_eq rfl rfl rfl rfl rfl

theorem sigMod_tstep (s : St) (p sg aid id : Nat) : TStep s (s.sigMod p sg aid id).1 := by
  unfold St.sigMod; split
  · exact TStep.refl s
  · exact (touch_tstep s aid).trans (TStep.of_eq rfl rfl rfl rfl rfl)

theorem dropClones_tstep (s : St) (reg : Nat) : TStep s (s.dropClones reg) := TStep.of_eq rfl rfl rfl rfl rfl

theorem sigDel_tstep (s : St) (aid : Nat) : TStep s (s.sigDel aid).1 := by
  unfold St.sigDel
  dsimp only
  generalize hs1 : (if (s.touch aid).cfg.fixSigDel = true then (s.touch aid).dropClones aid else _) = s1
  have h1 : TStep (s.touch aid) s1 := by
    subst hs1; split
    · exact dropClones_tstep _ _
    · split
      · exact itemDel_tstep _ _ _
      · exact TStep.refl _
  exact ((touch_tstep s aid).trans h1).trans (TStep.of_eq rfl rfl rfl rfl rfl)

theorem sigAddToJobs_tstep (s : St) (slot : Nat) : TStep s (s.sigAddToJobs slot) := by
  unfold St.sigAddToJobs
  split
  · exact TStep.refl s
  · dsimp only
    rename_i sg rest _
    generalize hs1 : ({ s with pipe := rest } : St).setPe slot _ = s1
    have h1 : TStep s s1 := by
      subst hs1
      exact TStep.trans (b := { s with pipe := rest }) (TStep.of_eq rfl rfl rfl rfl rfl) (setPe_tstep _ _ _)
    generalize List.filter (fun r => r.signal == sg) s1.regs = rs
    clear hs1
    induction rs generalizing s1 with
    | nil => exact h1
    | cons r rs ih =>
      simp only [List.foldl_cons]
      apply ih
      exact h1.trans (TStep.trans (b := { s1 with nextAid := s1.nextAid + 1 }) (TStep.of_eq rfl rfl rfl rfl rfl)
        (itemAdd_tstep _ _ _))

theorem pollEvent_tstep (s : St) (r : EpReg) (rev : Nat) : TStep s (s.pollEvent r rev).1 := by
  unfold St.pollEvent
  dsimp only
  split
  · exact TStep.refl s
  · split
    · exact TStep.refl s
    · split
      · exact setPe_tstep _ _ _
      · split
        · exact (setPe_tstep _ _ _).trans (sigAddToJobs_tstep _ _)
        · exact (setPe_tstep _ _ _).trans ((itemAdd_tstep _ _ _).trans (setPe_tstep _ _ _))
        · refine (setPe_tstep _ _ _).trans (TStep.of_core rfl (Nat.le_refl _) ?_ rfl rfl)
          intro h; dsimp only; split <;> simp_all

end QbVerif.Loop
