/-
Helper lemmas for C13 (log line formatting): the access log of `Mem`, `_strcpy_cutoff`, and the
loop invariant "output_buffer_idx < max_line_length - 1 at the loop head" of both format loops.
-/
import QbVerif.Model.LogFormat

namespace QbVerif.LogFormat

@[simp] theorem repaired_d7 : Variant.repaired.d7 = true := rfl
@[simp] theorem repaired_d7b : Variant.repaired.d7b = true := rfl
@[simp] theorem repaired_d8 : Variant.repaired.d8 = true := rfl
@[simp] theorem repaired_d8b : Variant.repaired.d8b = true := rfl
@[simp] theorem repaired_d9c : Variant.repaired.d9c = true := rfl
@[simp] theorem repaired_d9d : Variant.repaired.d9d = true := rfl
@[simp] theorem repaired_d9e : Variant.repaired.d9e = false := rfl

/-! ### access log -/

@[simp] theorem Mem.write_wr (m : Mem) (i : Int) (v : Nat) : (m.write i v).wr = i :: m.wr := rfl
@[simp] theorem Mem.write_rd (m : Mem) (i : Int) (v : Nat) : (m.write i v).rd = m.rd := rfl
@[simp] theorem Mem.read_wr (m : Mem) (i : Int) : (m.read i).wr = m.wr := rfl
@[simp] theorem Mem.read_rd (m : Mem) (i : Int) : (m.read i).rd = i :: m.rd := rfl
@[simp] theorem Mem.read_data (m : Mem) (i : Int) : (m.read i).data = m.data := rfl
@[simp] theorem Mem.read_cap (m : Mem) (i : Int) : (m.read i).cap = m.cap := rfl
@[simp] theorem Mem.write_cap (m : Mem) (i : Int) (v : Nat) : (m.write i v).cap = m.cap := by
  unfold Mem.write Mem.cap; split <;> simp

@[simp] theorem Mem.write_cuts (m : Mem) (i : Int) (v : Nat) : (m.write i v).cuts = m.cuts := rfl
@[simp] theorem Mem.read_cuts (m : Mem) (i : Int) : (m.read i).cuts = m.cuts := rfl

@[simp] theorem Mem.writeAll_cuts (m : Mem) (i : Int) (vs : List Nat) : (m.writeAll i vs).cuts = m.cuts := by
  induction vs generalizing m i with
  | nil => rfl
  | cons v vs ih => simp [Mem.writeAll, ih]

/-- every `_strcpy_cutoff` call logged on this buffer had room for a byte and the terminator -/
def CutsOk (m : Mem) : Prop := ∀ b ∈ m.cuts, 2 ≤ b

@[simp] theorem Mem.writeAll_rd (m : Mem) (i : Int) (vs : List Nat) : (m.writeAll i vs).rd = m.rd := by
  induction vs generalizing m i with
  | nil => rfl
  | cons v vs ih => simp [Mem.writeAll, ih]

@[simp] theorem Mem.writeAll_cap (m : Mem) (i : Int) (vs : List Nat) :
    (m.writeAll i vs).cap = m.cap := by
  induction vs generalizing m i with
  | nil => rfl
  | cons v vs ih => simp [Mem.writeAll, ih]

theorem Mem.writeAll_wr_mem (m : Mem) (i : Int) (vs : List Nat) (j : Int)
    (h : j ∈ (m.writeAll i vs).wr) : j ∈ m.wr ∨ (i ≤ j ∧ j < i + vs.length) := by
  induction vs generalizing m i with
  | nil => exact Or.inl h
  | cons v vs ih =>
    have := ih (m.write i v) (i + 1) h
    rcases this with h1 | ⟨h1, h2⟩
    · simp at h1
      rcases h1 with h1 | h1
      · right; subst h1; simp; omega
      · exact Or.inl h1
    · right; simp at h2 ⊢; omega

/-- every logged write index lies in `[0, B)` -/
def WrIn (m : Mem) (B : Int) : Prop := ∀ j ∈ m.wr, 0 ≤ j ∧ j < B
/-- every logged read index lies in `[0, B)` -/
def RdIn (m : Mem) (B : Int) : Prop := ∀ j ∈ m.rd, 0 ≤ j ∧ j < B

@[simp] theorem WrIn_read (m : Mem) (i B : Int) : WrIn (m.read i) B ↔ WrIn m B := Iff.rfl
@[simp] theorem RdIn_write (m : Mem) (i : Int) (v : Nat) (B : Int) : RdIn (m.write i v) B ↔ RdIn m B := Iff.rfl

theorem Mem.write_getElem?_self (m : Mem) (i : Nat) (v : Nat) (h : i < m.cap) :
    (m.write (i : Int) v).data[i]? = some v := by
  unfold Mem.cap at h
  simp [Mem.write, h]

theorem WrIn.write {m : Mem} {B : Int} (h : WrIn m B) {i : Int} (v : Nat) (h0 : 0 ≤ i) (h1 : i < B) :
    WrIn (m.write i v) B := by
  intro j hj
  simp at hj
  rcases hj with hj | hj
  · subst hj; exact ⟨h0, h1⟩
  · exact h j hj

theorem WrIn.writeAll {m : Mem} {B : Int} (h : WrIn m B) {i : Int} (vs : List Nat) (h0 : 0 ≤ i)
    (h1 : i + vs.length ≤ B) : WrIn (m.writeAll i vs) B := by
  intro j hj
  rcases Mem.writeAll_wr_mem m i vs j hj with hj | ⟨ha, hb⟩
  · exact h j hj
  · exact ⟨by omega, by omega⟩

theorem WrIn.mono {m : Mem} {B C : Int} (h : WrIn m B) (hBC : B ≤ C) : WrIn m C :=
  fun j hj => ⟨(h j hj).1, by have := (h j hj).2; omega⟩

theorem oob_false_of {m : Mem} (hw : WrIn m m.cap) (hr : RdIn m m.cap) : m.oob = false := by
  unfold Mem.oob
  simp only [Bool.or_eq_false_iff, List.any_eq_false, Bool.not_eq_true']
  constructor
  · intro j hj
    have := hw j hj
    simp [Mem.inb, this.1, this.2]
  · intro j hj
    have := hr j hj
    simp [Mem.inb, this.1, this.2]


/-! ### buffer contents -/

theorem Mem.write_toList (m : Mem) (i : Nat) (v : Nat) :
    (m.write (i : Int) v).data.toList = m.data.toList.set i v := by
  simp [Mem.write]

theorem list_set_take (l : List Nat) (i v : Nat) (h : i < l.length) :
    (l.set i v).take (i + 1) = l.take i ++ [v] := by
  rw [List.take_add_one]
  simp [h, List.take_set_of_le]

theorem list_set_drop (l : List Nat) (i v n : Nat) :
    (l.set i v).drop (i + 1 + n) = l.drop (i + 1 + n) :=
  List.drop_set_of_lt (by omega)

/-- consecutive writes inside the buffer replace exactly that stretch -/
theorem Mem.writeAll_toList (m : Mem) (i : Nat) (vs : List Nat) (h : i + vs.length ≤ m.cap) :
    (m.writeAll (i : Int) vs).data.toList
      = m.data.toList.take i ++ vs ++ m.data.toList.drop (i + vs.length) := by
  induction vs generalizing m i with
  | nil => simp [Mem.writeAll]
  | cons v vs ih =>
    have hc : i + 1 + vs.length ≤ (m.write (i : Int) v).cap := by simp at h ⊢; omega
    have := ih (m.write (i : Int) v) (i + 1) hc
    have hcast : ((i : Int) + 1) = ((i + 1 : Nat) : Int) := by omega
    have hlen : i < m.data.toList.length := by simp [Mem.cap] at h ⊢; omega
    simp only [Mem.writeAll, hcast, this, Mem.write_toList, list_set_take _ _ _ hlen, list_set_drop]
    simp only [List.length_cons] at h ⊢
    simp
    omega

theorem cstr_isSome_of_mem {l : List Nat} (h : 0 ∈ l) : (cstr l).isSome = true := by
  induction l with
  | nil => simp at h
  | cons b bs ih =>
    unfold cstr
    by_cases hb : b = 0
    · simp [hb]
    · simp only [hb, if_false, Option.isSome_map]
      apply ih
      rcases List.mem_cons.1 h with h | h
      · exact absurd h.symm hb
      · exact h

/-- the C string in a buffer is shorter than the position of any NUL in it -/
theorem cstr_length_le {l : List Nat} {t : Bytes} (h : cstr l = some t) (k : Nat) (hk : l[k]? = some 0) :
    t.length ≤ k := by
  induction l generalizing t k with
  | nil => simp [cstr] at h
  | cons b bs ih =>
    unfold cstr at h
    by_cases hb : b = 0
    · simp [hb] at h; subst h; simp
    · simp only [hb, if_false] at h
      cases hc : cstr bs with
      | none => simp [hc] at h
      | some t' =>
        simp [hc] at h; subst h
        cases k with
        | zero => simp at hk; exact absurd hk hb
        | succ k => simp at hk; have := ih hc k hk; simp; omega

/-- text followed by a NUL is what the C string functions see -/
theorem cstr_append_nul (t rest : Bytes) (h : ∀ b ∈ t, b ≠ 0) : cstr (t ++ 0 :: rest) = some t := by
  induction t with
  | nil => simp [cstr]
  | cons b bs ih =>
    have hb : b ≠ 0 := h b (by simp)
    simp only [List.cons_append, cstr, hb, if_false]
    rw [ih (fun x hx => h x (by simp [hx]))]
    rfl

theorem Mem.text_isSome_of_nul (m : Mem) (k : Nat) (h : m.data[k]? = some 0) :
    ∃ t, m.text = some t ∧ t.length ≤ k := by
  have hk : m.data.toList[k]? = some 0 := by simpa using h
  have hmem : 0 ∈ m.data.toList := List.mem_of_getElem? hk
  have := cstr_isSome_of_mem hmem
  cases ht : cstr m.data.toList with
  | none => rw [ht] at this; simp at this
  | some t => exact ⟨t, ht, cstr_length_le ht k hk⟩

/-- the statements after the loop do not call `_strcpy_cutoff` -/
theorem finishLine_cuts (v : Variant) (M : Nat) (ell : Bool) (idx : Nat) (m : Mem) :
    (finishLine v M ell idx m).cuts = m.cuts := by
  unfold finishLine ellipsisMark terminate
  repeat' split
  all_goals simp

/-! ### `size_t` subtraction without wrap -/

theorem subSZ_of_le {a b : Nat} (h : b ≤ a) : subSZ a b = a - b := by simp [subSZ, h]

/-! ### `_strcpy_cutoff` -/

/-- with room for at least one byte and the terminator the copy happens, and its length is the
    requested width (or the natural length) clamped to the room -/
theorem strcpyCutoff_some (v : Variant) (src : Bytes) (cutoff : Nat) (ralign : Bool) (bufLen : Nat)
    (h2 : 2 ≤ bufLen) :
    ∃ text, strcpyCutoff v src cutoff ralign bufLen = some text ∧
      text.length = min (if cutoff = 0 then src.length else cutoff) (bufLen - 1) := by
  have h1 : ¬ bufLen ≤ 1 := by omega
  unfold strcpyCutoff
  simp only [h1, if_false]
  refine ⟨_, rfl, ?_⟩
  cases ralign <;> simp [List.length_take] <;> omega

theorem strcpyCutoff_len_le (v : Variant) (src : Bytes) (cutoff : Nat) (ralign : Bool) (bufLen : Nat)
    (text : Bytes) (h : strcpyCutoff v src cutoff ralign bufLen = some text)
    (hv : v.d9e = true ∨ 1 ≤ bufLen) : text.length + 1 ≤ bufLen := by
  by_cases h1 : bufLen ≤ 1
  · unfold strcpyCutoff at h
    simp only [h1, if_true] at h
    by_cases hd : v.d9e = true
    · simp only [hd, if_true] at h
      split at h
      · injection h with h; subst h; simp; omega
      · exact absurd h (by simp)
    · have hd' : v.d9e = false := by cases hx : v.d9e <;> simp_all
      rw [hd'] at h
      rcases hv with hv | hv
      · exact absurd hv hd
      · have : ¬ bufLen = 0 := by omega
        simp [this] at h
  · obtain ⟨t, ht, hl⟩ := strcpyCutoff_some v src cutoff ralign bufLen (by omega)
    rw [ht] at h; injection h with h; subst h
    omega

/-- the call on a buffer: returned length, and where the new writes are -/
theorem cutoffAt_bounds (m : Mem) (v : Variant) (idx : Nat) (src : Bytes) (cutoff : Nat) (ralign : Bool)
    (bufLen : Nat) (h2 : 2 ≤ bufLen) :
    (m.cutoffAt v idx src cutoff ralign bufLen).2 ≤ bufLen - 1 ∧
    (m.cutoffAt v idx src cutoff ralign bufLen).1.rd = m.rd ∧
    (m.cutoffAt v idx src cutoff ralign bufLen).1.cap = m.cap ∧
    (m.cutoffAt v idx src cutoff ralign bufLen).1.cuts = bufLen :: m.cuts ∧
    ∀ B : Int, WrIn m B → (idx : Int) + bufLen ≤ B →
      WrIn (m.cutoffAt v idx src cutoff ralign bufLen).1 B := by
  obtain ⟨t, ht, hl⟩ := strcpyCutoff_some v src cutoff ralign bufLen h2
  unfold Mem.cutoffAt
  rw [ht]
  refine ⟨by simp only []; omega, by simp, by rw [Mem.writeAll_cap]; rfl, by simp, ?_⟩
  intro B hB hle
  have hB' : WrIn ({ m with cuts := bufLen :: m.cuts } : Mem) B := hB
  apply hB'.writeAll _ (by omega)
  simp; omega

/-! ### the loops keep `idx ≤ max_line_length - 1`, write below `max_line_length`, and call
`_strcpy_cutoff` with `buf_len ≥ 2` only -/

theorem CutsOk.cons {m : Mem} {b : Nat} (h : CutsOk m) (hb : 2 ≤ b) (m' : Mem)
    (hc : m'.cuts = b :: m.cuts) : CutsOk m' := by
  intro x hx
  rw [hc] at hx
  rcases List.mem_cons.1 hx with hx | hx
  · omega
  · exact h x hx

theorem fmtLoop_bounds (v : Variant) (fl : Fields) (M : Nat) (hM : 2 ≤ M) (B : Int) (hB : (M : Int) ≤ B) :
    ∀ (items : List Item) (idx : Nat) (m : Mem), idx < M - 1 → WrIn m B → CutsOk m →
      (fmtLoop v fl M items idx m).1 ≤ M - 1 ∧ WrIn (fmtLoop v fl M items idx m).2.1 B ∧
      (fmtLoop v fl M items idx m).2.1.rd = m.rd ∧ (fmtLoop v fl M items idx m).2.1.cap = m.cap ∧
      (v.d9d = true → (fmtLoop v fl M items idx m).2.2 = false) ∧
      CutsOk (fmtLoop v fl M items idx m).2.1 := by
  intro items
  induction items with
  | nil => intro idx m hi hw hc; simp [fmtLoop, hw, hc]; omega
  | cons it rest ih =>
    intro idx m hi hw hc
    have hs1 : subSZ M 1 = M - 1 := subSZ_of_le (by omega)
    cases it with
    | lit c =>
      simp only [fmtLoop, hs1]
      have hw' : WrIn (m.write idx c) B := hw.write c (by omega) (by omega)
      split
      · exact ⟨by omega, hw', by simp, by simp, fun _ => rfl, hc⟩
      · have := ih (idx + 1) (m.write idx c) (by omega) hw' hc
        simpa using this
    | dir ralign digits ch =>
      have hsi : subSZ M idx = M - idx := subSZ_of_le (by omega)
      obtain ⟨hlen, hrd, hcap, hcuts, hwr⟩ :=
        cutoffAt_bounds m v idx (expansion fl ch) (cutoffOf digits) ralign (M - idx) (by omega)
      have hw' := hwr B hw (by omega)
      have hc' := hc.cons (b := M - idx) (by omega) _ hcuts
      cases ch with
      | none =>
        simp only [fmtLoop, hs1, hsi]
        split
        · exact ⟨by omega, hw', hrd, hcap, fun _ => rfl, hc'⟩
        · exact ⟨by omega, hw', hrd, hcap, fun h => by simp [h], hc'⟩
      | some c =>
        simp only [fmtLoop, hs1, hsi]
        split
        · exact ⟨by omega, hw', hrd, hcap, fun _ => rfl, hc'⟩
        · have := ih (idx + (m.cutoffAt v idx (expansion fl (some c)) (cutoffOf digits) ralign (M - idx)).2)
            (m.cutoffAt v idx (expansion fl (some c)) (cutoffOf digits) ralign (M - idx)).1 (by omega) hw' hc'
          rw [hrd, hcap] at this
          exact this

theorem staticLoop_bounds (v : Variant) (sf : SFields) (M : Nat) (hM : 2 ≤ M) (B : Int) (hB : (M : Int) ≤ B) :
    ∀ (items : List Item) (idx : Nat) (m : Mem), idx < M - 1 → WrIn m B → CutsOk m →
      (staticLoop v sf M items idx m).1 ≤ M - 1 ∧ WrIn (staticLoop v sf M items idx m).2.1 B ∧
      (staticLoop v sf M items idx m).2.1.rd = m.rd ∧ (staticLoop v sf M items idx m).2.1.cap = m.cap ∧
      (v.d9d = true → (staticLoop v sf M items idx m).2.2 = false) ∧
      CutsOk (staticLoop v sf M items idx m).2.1 := by
  intro items
  induction items with
  | nil => intro idx m hi hw hc; simp [staticLoop, hw, hc]; omega
  | cons it rest ih =>
    intro idx m hi hw hc
    have hs1 : subSZ M 1 = M - 1 := subSZ_of_le (by omega)
    cases it with
    | lit c =>
      simp only [staticLoop, hs1]
      have hw' : WrIn (m.write idx c) B := hw.write c (by omega) (by omega)
      split
      · exact ⟨by omega, hw', by simp, by simp, fun _ => rfl, hc⟩
      · have := ih (idx + 1) (m.write idx c) (by omega) hw' hc
        simpa using this
    | dir ralign digits ch =>
      have hsi : subSZ M idx = M - idx := subSZ_of_le (by omega)
      obtain ⟨hlen, hrd, hcap, hcuts, hwr⟩ :=
        cutoffAt_bounds m v idx (staticArg sf ralign digits ch rest).1 (staticArg sf ralign digits ch rest).2.1
          (staticArg sf ralign digits ch rest).2.2 (M - idx) (by omega)
      have hw' := hwr B hw (by omega)
      have hc' := hc.cons (b := M - idx) (by omega) _ hcuts
      cases ch with
      | none =>
        simp only [staticLoop, hs1, hsi]
        split
        · exact ⟨by omega, hw', hrd, hcap, fun _ => rfl, hc'⟩
        · exact ⟨by omega, hw', hrd, hcap, fun h => by simp [h], hc'⟩
      | some c =>
        simp only [staticLoop, hs1, hsi]
        split
        · exact ⟨by omega, hw', hrd, hcap, fun _ => rfl, hc'⟩
        · have := ih (idx + (m.cutoffAt v idx (staticArg sf ralign digits (some c) rest).1
              (staticArg sf ralign digits (some c) rest).2.1 (staticArg sf ralign digits (some c) rest).2.2 (M - idx)).2)
            (m.cutoffAt v idx (staticArg sf ralign digits (some c) rest).1
              (staticArg sf ralign digits (some c) rest).2.1 (staticArg sf ralign digits (some c) rest).2.2 (M - idx)).1
            (by omega) hw' hc'
          rw [hrd, hcap] at this
          exact this

end QbVerif.LogFormat
