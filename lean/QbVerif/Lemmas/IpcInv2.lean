/-
The invariant of the IPC model (property C02), part 2: end of a dispatch, the server-side send
calls, and preservation by `St.step` / `St.run`.
-/
import QbVerif.Lemmas.IpcInv

namespace QbVerif.IpcLemmas
open QbVerif QbVerif.RingSpec QbVerif.Ipc QbVerif.Gen

theorem inv_sDispEnd {s s' : St} {o : Out} (h : Inv s) (hs : s.sDispEnd = some (s', o)) : Inv s' := by
  simp only [St.sDispEnd] at hs
  split at hs
  · rename_i d hd
    split at hs
    · simp at hs
    rename_i hst
    simp at hst
    split at hs
    · split at hs
      · simp at hs
      · rename_i hsh hle
        simp at hs
        obtain ⟨rfl, -⟩ := hs
        have hP := h.pair hsh
        inv_split h
        inv_auto
    · simp at hs
      obtain ⟨rfl, -⟩ := hs
      inv_split h
      inv_auto
  · simp at hs

theorem newEventNotification_frame (s : St) :
    s.newEventNotification.disp = s.disp ∧ s.newEventNotification.shmT = s.shmT ∧
    s.newEventNotification.req = s.req ∧ s.newEventNotification.nbReq = s.nbReq ∧
    s.newEventNotification.fc = s.fc ∧ s.newEventNotification.prio = s.prio ∧
    s.newEventNotification.cowes = s.cowes ∧ s.newEventNotification.cpend = s.cpend ∧
    s.newEventNotification.evt = s.evt ∧ s.newEventNotification.resp = s.resp ∧
    s.newEventNotification.accReq = s.accReq ∧ s.newEventNotification.delReq = s.delReq ∧
    s.newEventNotification.accResp = s.accResp ∧ s.newEventNotification.delResp = s.delResp ∧
    s.newEventNotification.accEvt = s.accEvt ∧ s.newEventNotification.delEvt = s.delEvt ∧
    s.newEventNotification.maxMsg = s.maxMsg ∧ s.newEventNotification.capEvt = s.capEvt := by
  simp only [St.newEventNotification, St.notifySend]
  split
  · simp
  · split
    · have := resend_frame { s with outstanding := s.outstanding + 1 }
      simpa using this
    · split
      · rename_i hm
        split at hm
        · simp at hm; subst hm; simp
        · simp at hm
      · simp

/-- what `new_event_notification` does to the notification accounting: one more byte is either
    in the socket or outstanding -/
theorem newEventNotification_count (s : St) (hsh : s.shmT = true) :
    s.newEventNotification.nbEvt + s.newEventNotification.outstanding = s.nbEvt + s.outstanding + 1 ∧
    (s.pollout = decide (0 < s.outstanding) →
      s.newEventNotification.pollout = decide (0 < s.newEventNotification.outstanding)) := by
  simp only [St.newEventNotification, St.resend, St.notifySend, hsh]
  by_cases h0 : 0 < s.outstanding
  · by_cases hr : s.nbEvt + (s.outstanding + 1) ≤ s.capEvt
    · simp [h0, hr]; omega
    · simp [h0, hr]; omega
  · have hz : s.outstanding = 0 := by omega
    by_cases hr : s.nbEvt + 1 ≤ s.capEvt
    · simp [hz, hr]
    · simp [hz, hr]

theorem newEventNotification_sock (s : St) (hsh : s.shmT = false) : s.newEventNotification = s := by
  simp [St.newEventNotification, hsh]

theorem inv_sEventSend {s s' : St} {vec : Bool} {m : Msg} {dg : DgRes} {o : Out} (h : Inv s)
    (hs : s.sEventSend vec m dg = some (s', o)) : Inv s' := by
  simp only [St.sEventSend] at hs
  split at hs
  · simp at hs
  split at hs
  · simp at hs; obtain ⟨rfl, -⟩ := hs; exact h
  split at hs
  · rename_i ch hsend
    simp at hs
    obtain ⟨rfl, -⟩ := hs
    obtain ⟨hq, hok, hk⟩ := send_ok hsend
    generalize hs1 : ({ s with evt := ch, accEvt := s.accEvt ++ [m] } : St) = s1
    cases hsh : s.shmT
    · -- socket transport: no notification bytes
      have : s1.shmT = false := by subst hs1; simpa using hsh
      rw [newEventNotification_sock s1 this]
      subst hs1
      inv_split h
      inv_auto
    · subst hs1
      simp only [St.newEventNotification, St.resend, St.notifySend, hsh]
      have hfin : ∀ t : St, t.shmT = true → t.req = s.req → t.resp = s.resp → t.evt = ch →
          t.nbReq = s.nbReq → t.capReq = s.capReq → t.capEvt = s.capEvt →
          t.nbEvt + t.outstanding = s.nbEvt + s.outstanding + 1 →
          t.pollout = decide (0 < t.outstanding) → t.cpend = s.cpend → t.cowes = s.cowes → t.disp = s.disp →
          t.accReq = s.accReq → t.accResp = s.accResp → t.accEvt = s.accEvt ++ [m] →
          t.delReq = s.delReq → t.delResp = s.delResp → t.delEvt = s.delEvt → Inv t := by
        intro t e1 e2 e3 e4 e5 e6 e7 e8 e9 e10 e11 e12 e13 e14 e15 e16 e17 e18
        inv_split h
        constructor <;> simp_all [inflight, recvdPending]
      by_cases h0 : 0 < s.outstanding
      · by_cases hr : s.nbEvt + (s.outstanding + 1) ≤ s.capEvt
        · simp only [h0, hr, if_true]
          apply hfin <;> simp <;> omega
        · simp only [h0, hr, if_true, if_false]
          apply hfin <;> simp [h.pout, h0] <;> omega
      · have hz : s.outstanding = 0 := by omega
        by_cases hr : s.nbEvt + 1 ≤ s.capEvt
        · simp only [h0, hr, if_true, if_false]
          apply hfin <;> simp [h.pout, hz]
        · simp only [h0, hr, if_false]
          apply hfin <;> simp [hz]
  · rename_i e hsend
    split at hs
    · simp at hs
      obtain ⟨rfl, -⟩ := hs
      split
      · exact inv_resend h
      · exact h
    · simp at hs
      obtain ⟨rfl, -⟩ := hs
      exact h

theorem inv_sRespSend {s s' : St} {vec : Bool} {m : Msg} {dg : DgRes} {o : Out} (h : Inv s)
    (hs : s.sRespSend vec m dg = some (s', o)) : Inv s' := by
  simp only [St.sRespSend] at hs
  split at hs
  · simp at hs
  split at hs
  · simp at hs; obtain ⟨rfl, -⟩ := hs; exact h
  split at hs
  · rename_i ch hsend
    simp at hs
    obtain ⟨rfl, -⟩ := hs
    obtain ⟨hq, hok, hk⟩ := send_ok hsend
    inv_split h
    inv_auto
  · simp at hs
    obtain ⟨rfl, -⟩ := hs
    exact h

theorem inv_step {s s' : St} {a : Act} {o : Out} (h : Inv s) (hs : s.step a = some (s', o)) : Inv s' := by
  cases a with
  | cSendBegin m dg => exact inv_cSendBegin h hs
  | cNotify => exact inv_cNotify h hs
  | cSendRet => exact inv_cSendRet h hs
  | cRecv cap => exact inv_cRecv h hs
  | cEventRecv cap => exact inv_cEventRecv h hs
  | cFcMax n =>
    simp only [St.step] at hs
    split at hs
    · simp at hs; obtain ⟨rfl, -⟩ := hs; exact h
    · simp at hs; obtain ⟨rfl, -⟩ := hs
      inv_split h
      inv_auto
  | cPoll => simp only [St.step] at hs; simp at hs; obtain ⟨rfl, -⟩ := hs; exact h
  | sDispBegin pin pout => exact inv_sDispBegin h hs
  | sMsgProcess => exact inv_sMsgProcess h hs
  | sMsgProcessResult b => exact inv_sMsgProcessResult h hs
  | sDispEnd => exact inv_sDispEnd h hs
  | sEventSend v m dg => exact inv_sEventSend h hs
  | sRespSend v m dg => exact inv_sRespSend (vec := v) h hs
  | sRateLimit rl =>
    simp only [St.step] at hs; simp at hs; obtain ⟨rfl, -⟩ := hs; exact inv_rateLimit rl h
  | netCapReq c =>
    simp only [St.step] at hs; simp at hs; obtain ⟨rfl, -⟩ := hs
    inv_split h
    inv_auto
  | netCapEvt c =>
    simp only [St.step] at hs; simp at hs; obtain ⟨rfl, -⟩ := hs
    inv_split h
    inv_auto

theorem inv_run {s : St} (h : Inv s) (acts : List Act) : Inv (s.run acts) := by
  induction acts generalizing s with
  | nil => exact h
  | cons a as ih =>
    simp only [St.run]
    split
    · rename_i s' o hs
      exact ih (inv_step h hs)
    · exact ih h

/-- the invariant holds after every action sequence from every initial state -/
theorem inv_reachable (shmT : Bool) (maxMsg page : Nat) (sc : Bool) (acts : List Act) :
    Inv ((St.init shmT maxMsg page sc).run acts) :=
  inv_run (inv_init shmT maxMsg page sc) acts

end QbVerif.IpcLemmas
