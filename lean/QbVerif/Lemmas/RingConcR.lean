/-
C01 — every reader step preserves the invariant `CInv`: transfer lemmas and the steps of
`qb_rb_chunk_read` / `qb_rb_chunk_peek` up to the copy-out.
-/
import QbVerif.Lemmas.RingConcW4

namespace QbVerif.RingConcLemmas
open QbVerif.Ring QbVerif.RingSpec QbVerif.RingLemmas QbVerif.RingConc

theorem RFacts_of' {c c' : Conf} {q op rest} (hp : c'.rprog = op :: rest) (hr : c'.readsOk = c.readsOk)
    (h : RF c'.rb.W (TR c) q c'.rb.sem c'.rbuf op c'.rpc) : RFacts c' q := by
  unfold RFacts; rw [hp]; unfold TR at *; rw [hr]; exact h

theorem isRead_elim {op : ROp} (h : isRead op) : ∃ cap, op = .read cap := by
  cases op with
  | read cap => exact ⟨cap, rfl⟩
  | pr f => exact absurd h (by simp [isRead])

theorem isPr_elim {op : ROp} (h : isPr op) : ∃ f, op = .pr f := by
  cases op with
  | read cap => exact absurd h (by simp [isPr])
  | pr f => exact ⟨f, rfl⟩

/-- the writer's facts do not mention the reader's state -/
theorem WFacts_congr {c c' : Conf} {q} (h : WFacts c q) (h1 : c'.wprog = c.wprog) (h2 : c'.rb = c.rb)
    (h3 : c'.readsOk = c.readsOk) (h4 : c'.wpc = c.wpc) : WFacts c' q := by
  unfold WFacts TR at *; rw [h1, h2, h3, h4]; exact h

theorem total_pos {q : List (List Nat)} (h : q ≠ []) : 2 ≤ total q := by
  cases q with
  | nil => exact absurd rfl h
  | cons d ds => have := cw_ge d.length; rw [total_cons]; omega

section
variable {c : Conf} {q : List (List Nat)} {op : ROp} {rest : List ROp}

/-- a step that only moves the reader's program counter / output buffer / ghost history -/
theorem CInv.rlocal (h : CInv c q) (pc' : RPc) (buf' : List Nat) (lin' : List (Op × Out))
    (hc : rclr pc' = rclr c.rpc) (hd : rdead pc' = rdead c.rpc)
    (ht : ∀ n, c.rb.sem = some n → rtok pc' = rtok c.rpc)
    (hrf : RFacts { c with rpc := pc', rbuf := buf', lin := lin' } q) :
    CInv { c with rpc := pc', rbuf := buf', lin := lin' } q :=
  ⟨h.size, h.wge, h.wlt, h.hq, h.hrp, h.hwp, h.used, by show QStored _ _ _ (rclr pc') (rdead pc') q; rw [hc, hd]; exact h.stored,
    h.next, by intro n hn; show n + rtok pc' = _; rw [ht n hn]; exact h.semc n hn, h.wf, hrf⟩

theorem RFacts_done (c : Conf) (q) (o : Out) : RFacts (c.rDone o) q := by
  unfold RFacts Conf.rDone
  cases c.rprog.tail with
  | nil => rfl
  | cons op' r' => trivial

/-- the call in progress returns without having changed the ring -/
theorem CInv.rdone (h : CInv c q) (lin' : List (Op × Out)) (o : Out)
    (hc : rclr c.rpc = false) (hd : rdead c.rpc = false) (ht : ∀ n, c.rb.sem = some n → rtok c.rpc = 0) :
    CInv (Conf.rDone { c with lin := lin' } o) q :=
  ⟨h.size, h.wge, h.wlt, h.hq, h.hrp, h.hwp, h.used, by have := h.stored; rw [hc, hd] at this; exact this,
    h.next, by intro n hn; have := h.semc n hn; have := ht n hn; show n + 0 = _; omega, h.wf, RFacts_done _ _ _⟩

/-- a semaphore operation of the reader (the program counter moves to `pc'`) -/
theorem CInv.rsem (h : CInv c q) (s' : Option Nat) (pc' : RPc) (hne : q ≠ [])
    (hs : s'.isSome = c.rb.sem.isSome)
    (hc : rclr pc' = rclr c.rpc) (hd : rdead pc' = rdead c.rpc)
    (hsemc : ∀ n, s' = some n → n + rtok pc' = q.length)
    (hrf : RFacts { c with rb := { c.rb with sem := s' }, rpc := pc' } q) :
    CInv { c with rb := { c.rb with sem := s' }, rpc := pc' } q := by
  have hW := h.wpos
  have ht := total_pos hne
  refine ⟨h.size, h.wge, h.wlt, h.hq, h.hrp, ?_, h.used, ?_, ?_, hsemc, ?_, hrf⟩
  · have := h.hwp
    unfold wAdv at *
    simp only [hs]; exact this
  · show QStored _ _ _ (rclr pc') (rdead pc') q; rw [hc, hd]; exact h.stored
  · intro hp; apply h.next; unfold pend at *; simp only [hs] at hp; exact hp
  · have := h.wf
    unfold WFacts at *
    cases hw : c.wprog with
    | nil => rw [hw] at this; exact this
    | cons wop wrest =>
      rw [hw] at this
      show WF { c.rb with sem := s' } (TR c) (TR c + total q) wop c.wpc
      exact WF_sem (by omega) hs this

/-- the same, the call returning -/
theorem CInv.rsem_done (h : CInv c q) (s' : Option Nat) (lin' : List (Op × Out)) (o : Out) (hne : q ≠ [])
    (hs : s'.isSome = c.rb.sem.isSome)
    (hc : rclr c.rpc = false) (hd : rdead c.rpc = false)
    (hsemc : ∀ n, s' = some n → n = q.length) :
    CInv (Conf.rDone { c with rb := { c.rb with sem := s' }, lin := lin' } o) q := by
  have h1 := h.rsem s' .idle hne hs (by rw [hc]; rfl) (by rw [hd]; rfl) (fun n hn => by have := hsemc n hn; show n + 0 = _; omega)
    (by unfold RFacts; cases c.rprog <;> trivial)
  exact ⟨h1.size, h1.wge, h1.wlt, h1.hq, h1.hrp, h1.hwp, h1.used, h1.stored, h1.next, h1.semc, h1.wf, RFacts_done _ _ _⟩

/-! #### the semaphore wait at the start of read / peek -/

theorem r_idle (h : CInv c q) (hp : c.rprog = op :: rest) (hpc : c.rpc = .idle) : CInv (rstep c) q := by
  cases hsem : c.rb.sem with
  | none =>
    have htw : c.rb.tryWait = some c.rb := by unfold Rb.tryWait; rw [hsem]
    cases op with
    | read cap =>
      have e : rstep c = { c with rpc := .rdRp, rbuf := c.rbuf, lin := c.lin } := by
        unfold rstep; simp only [hp, hpc, htw]
      rw [e]
      exact h.rlocal _ _ _ (by rw [hpc]; rfl) (by rw [hpc]; rfl) (fun n hn => by rw [hsem] at hn; cases hn) (RFacts_of' (c := c) hp rfl trivial)
    | pr f =>
      have e : rstep c = { c with rpc := .pkRp, rbuf := c.rbuf, lin := c.lin } := by
        unfold rstep; simp only [hp, hpc, htw]
      rw [e]
      exact h.rlocal _ _ _ (by rw [hpc]; rfl) (by rw [hpc]; rfl) (fun n hn => by rw [hsem] at hn; cases hn) (RFacts_of' (c := c) hp rfl trivial)
  | some n =>
    cases n with
    | zero =>
      have htw : c.rb.tryWait = none := by unfold Rb.tryWait; rw [hsem]
      cases op with
      | read cap =>
        have e : rstep c = Conf.rDone { c with lin := c.lin ++ [(.read cap, .err .etimedout)] } (.err .etimedout) := by
          unfold rstep Conf.rDone Conf.addLin; simp only [hp, hpc, htw, List.tail_cons]
        rw [e]
        exact h.rdone _ _ (by rw [hpc]; rfl) (by rw [hpc]; rfl) (fun _ _ => by rw [hpc]; rfl)
      | pr f =>
        have e : rstep c = Conf.rDone { c with lin := c.lin ++ [(.peek, .timedOut)] } .timedOut := by
          unfold rstep Conf.rDone Conf.addLin; simp only [hp, hpc, htw, List.tail_cons]
        rw [e]
        exact h.rdone _ _ (by rw [hpc]; rfl) (by rw [hpc]; rfl) (fun _ _ => by rw [hpc]; rfl)
    | succ n =>
      have htw : c.rb.tryWait = some { c.rb with sem := some n } := by unfold Rb.tryWait; rw [hsem]
      have hl := h.semc _ hsem
      rw [hpc] at hl
      have hne : q ≠ [] := by intro e; rw [e] at hl; simp [rtok] at hl
      cases op with
      | read cap =>
        have e : rstep c = { c with rb := { c.rb with sem := some n }, rpc := .rdRp } := by
          unfold rstep; simp only [hp, hpc, htw]
        rw [e]
        refine h.rsem _ _ hne (by rw [hsem]; rfl) (by rw [hpc]; rfl) (by rw [hpc]; rfl) ?_ (RFacts_of' (c := c) hp rfl trivial)
        intro k hk; have : k = n := (Option.some.inj hk).symm; subst this; simp [rtok] at hl ⊢; omega
      | pr f =>
        have e : rstep c = { c with rb := { c.rb with sem := some n }, rpc := .pkRp } := by
          unfold rstep; simp only [hp, hpc, htw]
        rw [e]
        refine h.rsem _ _ hne (by rw [hsem]; rfl) (by rw [hpc]; rfl) (by rw [hpc]; rfl) ?_ (RFacts_of' (c := c) hp rfl trivial)
        intro k hk; have : k = n := (Option.some.inj hk).symm; subst this; simp [rtok] at hl ⊢; omega

end
end QbVerif.RingConcLemmas
