/-
Two-phase writes (C07, C11): `qb_rb_chunk_alloc(n)` … `qb_rb_chunk_commit(len)`, `len ≤ n`, with
reads / peeks / reclaims in between.  Simulation of `Ring.RbP` by `RingSpec.FifoP`, for the
plain and the overwriting ring.
-/
import QbVerif.Lemmas.RingOw

namespace QbVerif.RingLemmas
open QbVerif.Ring QbVerif.RingSpec

theorem cw_mono {a b : Nat} (h : a ≤ b) : cw a ≤ cw b := by
  unfold cw; split <;> split <;> omega

theorem Room.mono {W U U' n n' : Nat} (h : Room W U n) (hU : U' ≤ U) (hn : n' ≤ n) : Room W U' n' := by
  unfold Room at *
  omega

/-! ### alloc: the header initialisation keeps the invariant -/

theorem allocHdr_eq {r : Rb} {TW : Nat} (hwp : r.wp = TW % r.W) :
    r.allocHdr = { r with mem := setWord (setWord r.mem r.W TW 0) r.W (TW + 1) ALLOC } := by
  unfold Rb.allocHdr Rb.setMagic
  simp only [hwp, Nat.mod_add_mod]
  rfl

theorem allocHdr_inv {r : Rb} {q : List (List Nat)} {TR : Nat} (h : Inv r q TR) (hroom : total q + 2 ≤ r.W) :
    Inv r.allocHdr q TR := by
  have hW := h.wpos
  rw [allocHdr_eq h.hwp]
  refine ⟨by simp only [size_setWord]; exact h.size, h.wge, h.wlt, h.hrp, h.hwp, h.used, ?_, ?_⟩
  · apply Stored_frame hW _ h.stored
    intro a ha hb
    simp only
    rw [cell_setWord_ne hW (by omega), cell_setWord_ne hW (by omega)]
  · simp only
    rw [word_setWord_eq (by simp [h.size]) hW, Nat.mod_eq_of_lt ALLOC_lt]
    exact ALLOC_ne_MAGIC

theorem allocHdr_sem (r : Rb) : r.allocHdr.sem = r.sem := by simp only [Rb.allocHdr, Rb.setMagic]
theorem allocHdr_W (r : Rb) : r.allocHdr.W = r.W := by simp only [Rb.allocHdr, Rb.setMagic]
theorem allocHdr_ow (r : Rb) : r.allocHdr.ow = r.ow := by simp only [Rb.allocHdr, Rb.setMagic]
theorem absF_allocHdr (r : Rb) (q : List (List Nat)) : absF r.allocHdr q = absF r q := by
  simp only [absF, allocHdr_sem, allocHdr_W]

/-! ### fill + commit at the pending position -/

/-- memory after copying `d` to the data area of the chunk at `TW` and committing `d.length` -/
def fcMem (m : Array Nat) (W TW : Nat) (d : List Nat) : Array Nat :=
  commitMem (copyIn m W (4 * (TW + 2)) 0 d) W TW d.length

theorem fill_eq {r : Rb} {TW : Nat} (d : List Nat) (hW : 0 < r.W) (hwp : r.wp = TW % r.W) :
    r.fill d = { r with mem := copyIn r.mem r.W (4 * (TW + 2)) 0 d } := by
  obtain ⟨W, m, rp, wp, ow, sem⟩ := r
  simp only at hW hwp
  subst hwp
  have e3 : (4 * ((TW + HDRW) % W)) % (4 * W) = (4 * (TW + 2)) % (4 * W) := by
    rw [HDRW_eq]
    have := mul4_mod (TW + 2) W 0 (by omega) hW
    simp only [Nat.add_zero] at this
    rw [this, Nat.mod_mod]
  simp only [Rb.fill, Nat.mod_add_mod]
  rw [copyIn_congr_base _ _ _ _ _ _ e3]

theorem fillCommit_eq {r : Rb} {TW : Nat} (d : List Nat) (hs : r.mem.size = 4 * r.W) (hW : 0 < r.W)
    (hwp : r.wp = TW % r.W) (hlen : d.length < 2 ^ 32) :
    (r.fill d).commit d.length = { r with mem := fcMem r.mem r.W TW d, wp := (TW + cw d.length) % r.W,
                                          sem := r.sem.map (· + 1) } := by
  rw [fill_eq d hW hwp]
  exact commit_eq (r := { r with mem := copyIn r.mem r.W (4 * (TW + 2)) 0 d }) (TW := TW)
    (by simp [hs]) hW hwp hlen

section fc
variable {m : Array Nat} {W TW : Nat} {d : List Nat}

theorem size_fcMem : (fcMem m W TW d).size = m.size := by
  unfold fcMem; rw [size_commitMem]; simp

theorem fcMem_cell_below {a : Nat} (hW : 0 < W) (ha : a < 4 * TW)
    (hb : 4 * (TW + cw d.length + 2) ≤ a + 4 * W) : cell (fcMem m W TW d) W a = cell m W a := by
  have := cw_lo d.length
  unfold fcMem
  rw [commitMem_cell_below hW ha hb, cell_copyIn_out (by omega)]

theorem fcMem_stored (hs : m.size = 4 * W) (hW : 0 < W) (hn : cw d.length + 1 ≤ W)
    (hlen : d.length < 2 ^ 32) : Stored (fcMem m W TW d) W TW [d] := by
  have := cw_lo d.length
  refine ⟨?_, ?_, ?_, trivial⟩
  · exact commitMem_word_size (by simp [hs]) hW hn hlen
  · exact commitMem_word_magic (by simp [hs]) hW
  · apply List.ext_getElem
    · simp
    · intro i h1 h2
      simp only [List.getElem_map, List.getElem_range]
      unfold fcMem
      rw [commitMem_cell_payload hW hn (by omega) (by omega)]
      exact cell_copyIn_in (j := 0) hs hW (by omega) i h2

theorem fcMem_next (hs : m.size = 4 * W) (hW : 0 < W) (hn : cw d.length + 1 ≤ W)
    (hlen : d.length < 2 ^ 31) : word (fcMem m W TW d) W (TW + cw d.length + 1) ≠ MAGIC :=
  commitMem_word_next (by simp [hs]) hW hn hlen

end fc

theorem fillCommit_inv {r : Rb} {q : List (List Nat)} {TR : Nat} (d : List Nat) (h : Inv r q TR)
    (hroom : Room r.W (total q) (cw d.length)) :
    Inv ((r.fill d).commit d.length) (q ++ [d]) TR ∧ ((r.fill d).commit d.length).sem = r.sem.map (· + 1) ∧
      ((r.fill d).commit d.length).W = r.W ∧ ((r.fill d).commit d.length).ow = r.ow := by
  have hW := h.wpos
  have hwlt := h.wlt
  have hlo := cw_lo d.length
  have h2 := cw_ge d.length
  have hn : cw d.length + 1 ≤ r.W := by unfold Room at hroom; omega
  have hlen : d.length < 2 ^ 31 := by omega
  rw [fillCommit_eq (TW := TR + total q) d h.size hW h.hwp (by omega)]
  refine ⟨⟨?_, h.wge, h.wlt, h.hrp, ?_, ?_, ?_, ?_⟩, rfl, rfl, rfl⟩
  · simp only [size_fcMem]; exact h.size
  · simp only; rw [total_append, Nat.add_assoc]
  · simp only; rw [total_append]; unfold Room at hroom; omega
  · simp only
    apply Stored_append
    · rcases hroom with ⟨h0, _⟩ | hr
      · rw [total_eq_zero h0]; trivial
      · apply Stored_frame hW _ h.stored
        intro a ha hb
        exact fcMem_cell_below hW (by omega) (by omega)
    · exact fcMem_stored h.size hW hn (by omega)
  · simp only
    rw [total_append, ← Nat.add_assoc]
    exact fcMem_next h.size hW hn hlen

/-! ### simulation -/

/-- invariant of the two-phase writer: the ring invariant, and room for the pending allocation -/
structure PInv (s : RbP) (q : List (List Nat)) (TR : Nat) : Prop where
  inv : Inv s.rb q TR
  room : ∀ n, s.pend = some n → Room s.rb.W (total q) (cw n)

def absP (s : RbP) (q : List (List Nat)) : FifoP := ⟨absF s.rb q, s.pend⟩

theorem total_tail_le (q : List (List Nat)) : total q.tail ≤ total q := by
  cases q with
  | nil => exact Nat.le_refl _
  | cons c cs => simp only [List.tail_cons, total_cons]; omega

/-- the reader-side operations only take from the old end of the queue -/
theorem step_total_le (f : Fifo) (op : Op) (hop : ∀ d, op ≠ .write d) : total (f.step op).1.q ≤ total f.q := by
  have htw : ∀ f1, f.tryWait = some f1 → f1.q = f.q := by
    intro f1 h
    obtain ⟨W, q, sem⟩ := f
    unfold Fifo.tryWait at h
    cases sem with
    | none => simp only [Option.some.injEq] at h; rw [← h]
    | some n => cases n with
      | zero => simp at h
      | succ n => simp only [Option.some.injEq] at h; rw [← h]
  cases op with
  | write d => exact absurd rfl (hop d)
  | free => exact Nat.le_refl _
  | reclaim => exact total_tail_le f.q
  | peek =>
    simp only [Fifo.step]
    cases ht : f.tryWait with
    | none => exact Nat.le_refl _
    | some f1 =>
      have := htw f1 ht
      simp only
      cases hq : f1.q with
      | nil => simp only [Fifo.post]; rw [hq, ← this, hq]; exact Nat.le_refl _
      | cons c cs => simp only; rw [this]; exact Nat.le_refl _
  | read cap =>
    simp only [Fifo.step]
    cases ht : f.tryWait with
    | none => exact Nat.le_refl _
    | some f1 =>
      have := htw f1 ht
      simp only
      cases hq : f1.q with
      | nil =>
        cases f1.sem with
        | none => simp only; rw [this]; exact Nat.le_refl _
        | some n => simp only [Fifo.post]; rw [hq, ← this, hq]; exact Nat.le_refl _
      | cons c cs =>
        simp only
        by_cases hc : cap < c.length
        · rw [if_pos hc]; simp only [Fifo.post]; rw [hq, ← this, hq]; exact Nat.le_refl _
        · rw [if_neg hc]; simp only; rw [← this, hq, total_cons]; omega

theorem fifo_step_W (f : Fifo) (op : Op) : (f.step op).1.W = f.W := by
  have htw : ∀ f1, f.tryWait = some f1 → f1.W = f.W := by
    intro f1 h
    obtain ⟨W, q, sem⟩ := f
    unfold Fifo.tryWait at h
    cases sem with
    | none => simp only [Option.some.injEq] at h; rw [← h]
    | some n => cases n with
      | zero => simp at h
      | succ n => simp only [Option.some.injEq] at h; rw [← h]
  cases op with
  | write d => simp only [Fifo.step]; split <;> rfl
  | free => rfl
  | reclaim => rfl
  | peek =>
    simp only [Fifo.step]
    cases ht : f.tryWait with
    | none => rfl
    | some f1 =>
      have := htw f1 ht
      simp only
      cases f1.q <;> simp [Fifo.post, this]
  | read cap =>
    simp only [Fifo.step]
    cases ht : f.tryWait with
    | none => rfl
    | some f1 =>
      have := htw f1 ht
      simp only
      cases f1.q with
      | nil => cases f1.sem <;> simp [Fifo.post, this]
      | cons c cs => simp only; split <;> simp [Fifo.post, this]

/-- outcome of one two-phase operation: rejected on both sides, or simulated -/
def PStepOk (s : RbP) (q : List (List Nat)) (op : POp) : Prop :=
  match s.step op with
  | none => (absP s q).step s.rb.ow op = none
  | some (s', o) => ∃ q' TR', PInv s' q' TR' ∧ s'.rb.ow = s.rb.ow ∧
      (absP s q).step s.rb.ow op = some (absP s' q', o)

theorem pstep_base_nonwrite {s : RbP} {q TR} (h : PInv s q TR) (op : Op) (hop : ∀ d, op ≠ .write d)
    (hop2 : op ≠ .free)
    (hok : ∃ q' TR', Inv (s.rb.step op).1 q' TR' ∧ (s.rb.step op).1.ow = s.rb.ow ∧
      (absF s.rb q).step op = (absF (s.rb.step op).1 q', (s.rb.step op).2)) :
    PStepOk s q (.base op) := by
  obtain ⟨q', TR', hi, how, hstep⟩ := hok
  have hs : s.step (.base op) = some (⟨(s.rb.step op).1, s.pend⟩, (s.rb.step op).2) := by
    cases op with
    | write d => exact absurd rfl (hop d)
    | _ => rfl
  have hf : ∀ ow, (absP s q).step ow (.base op) = some (⟨((absF s.rb q).step op).1, s.pend⟩, ((absF s.rb q).step op).2) := by
    intro ow
    cases op with
    | write d => exact absurd rfl (hop d)
    | free => exact absurd rfl hop2
    | _ => cases ow <;> rfl
  unfold PStepOk
  rw [hs]
  simp only
  refine ⟨q', TR', ⟨hi, ?_⟩, how, ?_⟩
  · intro n hn
    have hle := step_total_le (absF s.rb q) op hop
    rw [hstep] at hle
    have hWeq : (s.rb.step op).1.W = s.rb.W := by
      have := congrArg (fun x => x.1.W) hstep
      simp only [absF] at this
      -- W of the FIFO never changes
      have hW' : ((absF s.rb q).step op).1.W = s.rb.W := fifo_step_W (absF s.rb q) op
      rw [hstep] at hW'
      simpa [absF] using hW'
    simp only at hn
    rw [hWeq]
    exact (h.room n hn).mono (by simpa [absF] using hle) (Nat.le_refl _)
  · rw [hf, hstep]
    rfl

theorem pstep_free {s : RbP} {q TR} (h : PInv s q TR) : PStepOk s q (.base .free) := by
  unfold PStepOk
  have hs : s.step (.base .free) = some (⟨s.rb, s.pend⟩, .num s.rb.spaceFree) := rfl
  rw [hs]
  refine ⟨q, TR, ⟨h.inv, h.room⟩, rfl, ?_⟩
  cases how : s.rb.ow with
  | false => simp [FifoP.step, absP, Fifo.step, absF, spaceFree_eq_normal h.inv how]
  | true => simp [FifoP.step, absP, Fifo.owStep, absF, spaceFree_eq_ow h.inv how, owFree]

theorem pstep_sim {s : RbP} {q TR} (h : PInv s q TR) (op : POp) : PStepOk s q op := by
  cases op with
  | base op =>
    cases op with
    | write d =>
      unfold PStepOk
      cases hp : s.pend with
      | some n => simp [RbP.step, FifoP.step, absP, hp]
      | none =>
        have hs : s.step (.base (.write d)) = some (⟨(s.rb.step (.write d)).1, none⟩, (s.rb.step (.write d)).2) := by
          simp [RbP.step, hp]
        rw [hs]
        simp only
        cases how : s.rb.ow with
        | false =>
          obtain ⟨q', TR', hi, how', hstep⟩ := step_write h.inv how d
          refine ⟨q', TR', ⟨hi, by intro n hn; simp at hn⟩, by rw [how', how], ?_⟩
          simp [FifoP.step, absP, hp, hstep]
        | true =>
          obtain ⟨q', TR', hi, how', hstep⟩ := step_write_ow h.inv how d
          refine ⟨q', TR', ⟨hi, by intro n hn; simp at hn⟩, by rw [how', how], ?_⟩
          simp [FifoP.step, absP, hp, hstep]
    | read cap => exact pstep_base_nonwrite h _ (by intro d; simp) (by simp) (step_read h.inv cap)
    | peek => exact pstep_base_nonwrite h _ (by intro d; simp) (by simp) (step_peek h.inv)
    | reclaim => exact pstep_base_nonwrite h _ (by intro d; simp) (by simp) (step_reclaim h.inv)
    | free => exact pstep_free h
  | alloc n =>
    unfold PStepOk
    cases hp : s.pend with
    | some n' => simp [RbP.step, FifoP.step, absP, hp]
    | none =>
      have h2 := cw_ge n
      cases how : s.rb.ow with
      | false =>
        have hf : s.rb.spaceFree = (absF s.rb q).free := spaceFree_eq_normal h.inv how
        by_cases hc : s.rb.spaceFree < n + MARGIN
        · have hs : s.step (.alloc n) = some (⟨s.rb, none⟩, .err .eagain) := by
            simp [RbP.step, hp, alloc_normal s.rb n how, hc]
          rw [hs]
          refine ⟨q, TR, ⟨h.inv, by intro n hn; simp at hn⟩, how, ?_⟩
          simp [FifoP.step, absP, hp, ← hf, hc]
        · have hs : s.step (.alloc n) = some (⟨s.rb.allocHdr, some n⟩, .unit) := by
            simp [RbP.step, hp, alloc_normal s.rb n how, hc]
          rw [hs]
          have hroom : Room s.rb.W (total q) (cw n) :=
            room_of_free (sem := s.rb.sem) (by rw [hf] at hc; exact hc)
          refine ⟨q, TR, ⟨allocHdr_inv h.inv (by unfold Room at hroom; omega), ?_⟩, ?_, ?_⟩
          · intro n' hn'
            simp only [Option.some.injEq] at hn'
            subst hn'
            simp only [allocHdr_W]
            exact hroom
          · simp only [allocHdr_ow]; exact how
          · simp [FifoP.step, absP, hp, ← hf, hc, absF_allocHdr]
      | true =>
        obtain ⟨TR', hi, hsem, hW, how', hok⟩ := makeRoom_sim h.inv how n s.rb.W h.inv.length_lt
        have hokd := owDrop_ok (W := s.rb.W) (len := n) (q := q)
        have hs0 : s.step (.alloc n) = match s.rb.alloc n with
            | (r', some e) => some (⟨r', none⟩, .err e)
            | (r1, none) => some (⟨r1, some n⟩, .unit) := by
          simp only [RbP.step, hp, Option.isSome_none]
          rfl
        have hfs0 : (absP s q).step true (.alloc n) = match owDrop s.rb.W n q with
            | (q', false) => some (⟨⟨s.rb.W, q', s.rb.sem⟩, none⟩, .err .einval)
            | (q', true) => some (⟨⟨s.rb.W, q', s.rb.sem⟩, some n⟩, .unit) := by
          simp only [FifoP.step, absP, hp, absF]
          rfl
        rw [hs0, hfs0, alloc_ow s.rb n how]
        revert hi hsem hW how' hok hokd
        rcases s.rb.makeRoom n s.rb.W with ⟨r', b⟩
        rcases owDrop s.rb.W n q with ⟨q', ok⟩
        intro hi hsem hW how' hok hokd
        simp only at hi hsem hW how' hok hokd
        subst hok
        cases b with
        | false =>
          simp only
          refine ⟨q', TR', ⟨hi, by intro n hn; simp at hn⟩, by rw [how', how], ?_⟩
          simp [absP, absF, hsem, hW]
        | true =>
          simp only
          have hroom : Room r'.W (total q') (cw n) := by
            rw [hW]; exact room_of_free (sem := none) (hokd rfl)
          refine ⟨q', TR', ⟨allocHdr_inv hi (by unfold Room at hroom; omega), ?_⟩, ?_, ?_⟩
          · intro n' hn'
            simp only [Option.some.injEq] at hn'
            subst hn'
            simp only [allocHdr_W]
            exact hroom
          · simp only [allocHdr_ow]; rw [how', how]
          · simp [absP, absF, allocHdr_W, allocHdr_sem, hsem, hW]
  | commit d =>
    unfold PStepOk
    cases hp : s.pend with
    | none => simp [RbP.step, FifoP.step, absP, hp]
    | some n =>
      by_cases hd : d.length ≤ n
      · have hs : s.step (.commit d) = some (⟨(s.rb.fill d).commit d.length, none⟩, .num 0) := by
          simp [RbP.step, hp, hd]
        rw [hs]
        simp only
        have hroom := (h.room n hp).mono (Nat.le_refl _) (cw_mono hd)
        obtain ⟨hi, hsem, hW, how⟩ := fillCommit_inv d h.inv hroom
        refine ⟨q ++ [d], TR, ⟨hi, by intro n hn; simp at hn⟩, how, ?_⟩
        simp [FifoP.step, absP, hp, hd, absF, Fifo.post, hsem, hW]
      · simp [RbP.step, FifoP.step, absP, hp, hd]

theorem prun_sim {s : RbP} {q TR} (h : PInv s q TR) (ops : List POp) :
    (s.run ops).2 = ((absP s q).run s.rb.ow ops).2 := by
  induction ops generalizing s q TR with
  | nil => rfl
  | cons op ops ih =>
    have hstep := pstep_sim h op
    unfold PStepOk at hstep
    cases hs : s.step op with
    | none =>
      rw [hs] at hstep
      simp only at hstep
      simp only [RbP.run, FifoP.run, hs, hstep]
      rw [ih h]
    | some p =>
      obtain ⟨s', o⟩ := p
      rw [hs] at hstep
      obtain ⟨q', TR', hi, how, hf⟩ := hstep
      simp only [RbP.run, FifoP.run, hs, hf]
      rw [ih hi, how]

end QbVerif.RingLemmas
