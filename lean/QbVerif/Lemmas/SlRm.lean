/-
Skiplist, single-level fragment: `skiplist_rm` — absent key; present key behind an entry node
(plain removal: the node is destroyed with its forward array); present key behind the header
(takeover-and-repoint: the header's array is freed, the header continues with the removed node's).
-/
import QbVerif.Lemmas.SlErase

namespace QbVerif.Skiplist
open QbVerif.Map
set_option linter.unusedSimpArgs false

theorem searchRes_rm (k : Key) (x : NodeId) (ids : List NodeId) (es : List Entry) (u) :
    searchRes k false x ids es u = .inr (predOf k x ids es, u) := by
  unfold searchRes
  cases succOf k ids es with
  | none => rfl
  | some ie => simp

theorem nodeNext_none {s : SL} {p : NodeId} (hx : XOk s p) (hn : next0 s p = none) (fuel : Nat) :
    s.nodeNext (fuel + 12) p = .ok none := by
  show s.nodeNext (fuel + 11 + 1) p = _
  simp [SL.nodeNext, fwdAt0_of_next0 hx, hn, bind, Except.bind]

theorem nodeNext_some {s : SL} {p i : NodeId} {e : Entry} (hx : XOk s p) (hn : next0 s p = some i) (hi : NodeOk s i e)
    (fuel : Nat) : s.nodeNext (fuel + 12) p = .ok (some i) := by
  obtain ⟨f, a, h1, _⟩ := hi
  show s.nodeNext (fuel + 11 + 1) p = _
  simp [SL.nodeNext, fwdAt0_of_next0 hx, hn, bind, Except.bind, SL.node, h1]

/-- the node the walk stops at is the node of the entry it stops at -/
theorem succ_nodeOk {s : SL} {k : Key} {i : NodeId} {e : Entry} : ∀ {x ids es}, Chain s x ids es →
    succOf k ids es = some (i, e) → NodeOk s i e
  | _, [], [], _, h => by simp [succOf] at h
  | _, i1 :: ids, e1 :: es, hc, h => by
    simp only [succOf] at h
    split at h
    · exact succ_nodeOk hc.2.2 h
    · cases h; exact hc.2.1
  | _, [], _ :: _, hc, _ => by cases hc
  | _, _ :: _, [], hc, _ => by cases hc

theorem rm_miss {s ids es g} (h : Inv s ids es g) (k : Key) (hf : findEntry es k = none) :
    s.rm k = .ok (s, [], false) := by
  obtain ⟨u', hu', hs⟩ := search_top h k false
  simp only [SL.fuel] at hs
  have hpm := predOf_mem k s.header ids es
  have hx := h.xok_of_mem hpm
  have hnx := next0_pred k h.chain
  have hw := findEntry_walk k h.chain.length_eq h.sorted
  rw [hf] at hw
  cases hso : succOf k ids es with
  | none =>
    rw [hso] at hnx
    simp [SL.rm, hs, searchRes_rm, bind, Except.bind, SL.fuel, nodeNext_none hx hnx s.length]
  | some ie =>
    obtain ⟨i, e⟩ := ie
    rw [hso] at hnx
    have hok := succ_nodeOk h.chain hso
    simp only [hso] at hw
    have hne : e.key ≠ k := by intro he; simp [he] at hw
    obtain ⟨f, a, h1, _⟩ := hok
    simp [SL.rm, hs, searchRes_rm, bind, Except.bind, SL.fuel, nodeNext_some hx hnx (succ_nodeOk h.chain hso) s.length,
      SL.node, h1, hne]

theorem predOf_ne_succ {k : Key} {found : NodeId} {e : Entry} : ∀ {x : NodeId} {ids : List NodeId} {es : List Entry},
    (x :: ids).Nodup → succOf k ids es = some (found, e) → predOf k x ids es ≠ found
  | _, [], _, _, h => by simp [succOf] at h
  | _, _ :: _, [], _, h => by simp [succOf] at h
  | x, i :: ids, e0 :: es, hnd, h => by
    simp only [succOf, predOf] at h ⊢
    split at h
    · next hlt => simp only [hlt, if_true]; exact predOf_ne_succ (List.nodup_cons.1 hnd).2 h
    · next hlt =>
      cases h
      simp only [hlt, if_false]
      intro he
      exact (List.nodup_cons.1 hnd).1 (he ▸ List.mem_cons_self)

theorem rm_hit {s ids es g} (h : Inv s ids es g) (k : Key) {e : Entry} (hf : findEntry es k = some e) :
    ∃ s' found, s.rm k = .ok (s', dispatch e.notifs g EV_DELETED k e.val 0, true) ∧
      succOf k ids es = some (found, e) ∧ e.key = k ∧
      Erased s s' ids g (predOf k s.header ids es) found := by
  obtain ⟨u', hu', hs⟩ := search_top h k false
  simp only [SL.fuel] at hs
  obtain ⟨found, hso, hk, hfi, hfok⟩ := hit_of_find h hf
  have hpm := predOf_mem k s.header ids es
  have hx := h.xok_of_mem hpm
  have hnx := next0_pred k h.chain
  rw [hso] at hnx
  simp only [Option.map_some] at hnx
  have hnn := nodeNext_some hx hnx hfok s.length
  obtain ⟨ff, fa, hfn, hfa⟩ := hfok
  obtain ⟨hf', ha, hv, hh1, hh2⟩ := h.hdr
  have hlv : s.lv = 1 := h.lv.2 (List.ne_nil_of_mem (succOf_mem hso).2.1)
  have hhf : s.header ≠ found := fun he => (List.nodup_cons.1 h.nodup).1 (he ▸ hfi)
  have hffw : fwdOf s found = ff := by simp [fwdOf, hfn]
  have hhfw : fwdOf s s.header = hf' := by simp [fwdOf, hh1]
  have hfne : hf' ≠ ff := by
    intro he
    exact hhf (h.inj s.header (by simp) found (List.mem_cons_of_mem _ hfi) (by rw [hffw, hhfw, he]))
  rw [hlv] at hs
  generalize hpd : predOf k s.header ids es = p at *
  have hoth : ∀ j ∈ ids, j ≠ found → j ≠ s.header ∧ fwdOf s j ≠ hf' ∧ fwdOf s j ≠ ff := by
    intro j hj hjf
    refine ⟨fun he => (List.nodup_cons.1 h.nodup).1 (he ▸ hj), ?_, ?_⟩
    · intro he
      have := h.inj j (List.mem_cons_of_mem _ hj) s.header (by simp) (by rw [hhfw, he])
      exact (List.nodup_cons.1 h.nodup).1 (this ▸ hj)
    · intro he
      exact hjf (h.inj j (List.mem_cons_of_mem _ hj) found (List.mem_cons_of_mem _ hfi) (by rw [hffw, he]))
  have key : ∃ s', s.rm k = .ok (s', dispatch e.notifs g EV_DELETED k e.val 0, true) ∧ Erased s s' ids g p found := by
    rcases List.mem_cons.1 hpm with hph | hpi
    · subst hph
      have ha0 : ha 0 = some found := by simpa [next0, hh1, hh2] using hnx
      cases hfa0 : fa 0 with
      | none =>
        cases hr : s.rm k with
        | error err =>
          simp [SL.rm, hs, searchRes_rm, hpd, hnn, SL.fuel, hfn, hk, hlv, hu', SL.spliceLevels, SL.fwdAt, SL.node, SL.arr,
            SL.setFwdAt, SL.takeover, SL.copyLevels, SL.setNode, SL.freeFwd, SL.nodeDeref, SL.nodeDestroy, SL.notify,
            SL.nodeFree, SL.trimLevels, upd, bind, Except.bind, hh1, hh2, hfa, ha0, hfa0, hhf, hhf.symm, hfne, hfne.symm] at hr
        | ok r =>
          obtain ⟨s', evs, b⟩ := r
          simp [SL.rm, hs, searchRes_rm, hpd, hnn, SL.fuel, hfn, hk, hlv, hu', SL.spliceLevels, SL.fwdAt, SL.node, SL.arr,
            SL.setFwdAt, SL.takeover, SL.copyLevels, SL.setNode, SL.freeFwd, SL.nodeDeref, SL.nodeDestroy, SL.notify,
            SL.nodeFree, SL.trimLevels, upd, bind, Except.bind, hh1, hh2, hfa, ha0, hfa0, hhf, hhf.symm, hfne, hfne.symm] at hr
          obtain ⟨rfl, rfl, rfl⟩ := hr
          refine ⟨_, rfl, rfl, ?_, ?_, ?_, ?_, ?_, rfl, rfl, rfl, rfl, rfl, ?_⟩
          · exact ⟨ff, upd fa 0 none, hv, by simp [upd, hhf], by simp [upd, hfne.symm]⟩
          · simp [next0, upd, hhf, hfne.symm, hfn, hfa, hfa0]
          · intro j hj hjp hjf
            rcases List.mem_cons.1 hj with rfl | hj
            · exact absurd rfl hjp
            · obtain ⟨h1, h2, h3⟩ := hoth j hj hjf
              exact next0_eq (by simp [upd, h1, hjf]) (by simp [upd, h2, h3])
          · intro j hj hjf
            obtain ⟨h1, h2, h3⟩ := hoth j hj hjf
            refine ⟨by simp [upd, h1, hjf], ?_⟩
            obtain ⟨e0, _, ⟨f0, a0, h4, h5⟩⟩ := h.chain.key_of_mem hj
            simp only [fwdOf, h4] at h2 h3 ⊢
            simp [upd, h2, h3, h5]
          · right; simp [fwdOf, upd, hhf, hfn]
          · simp [next0, upd, hhf, hfne.symm]
      | some nx =>
        cases hr : s.rm k with
        | error err =>
          simp [SL.rm, hs, searchRes_rm, hpd, hnn, SL.fuel, hfn, hk, hlv, hu', SL.spliceLevels, SL.fwdAt, SL.node, SL.arr,
            SL.setFwdAt, SL.takeover, SL.copyLevels, SL.setNode, SL.freeFwd, SL.nodeDeref, SL.nodeDestroy, SL.notify,
            SL.nodeFree, SL.trimLevels, upd, bind, Except.bind, hh1, hh2, hfa, ha0, hfa0, hhf, hhf.symm, hfne, hfne.symm] at hr
        | ok r =>
          obtain ⟨s', evs, b⟩ := r
          simp [SL.rm, hs, searchRes_rm, hpd, hnn, SL.fuel, hfn, hk, hlv, hu', SL.spliceLevels, SL.fwdAt, SL.node, SL.arr,
            SL.setFwdAt, SL.takeover, SL.copyLevels, SL.setNode, SL.freeFwd, SL.nodeDeref, SL.nodeDestroy, SL.notify,
            SL.nodeFree, SL.trimLevels, upd, bind, Except.bind, hh1, hh2, hfa, ha0, hfa0, hhf, hhf.symm, hfne, hfne.symm] at hr
          obtain ⟨rfl, rfl, rfl⟩ := hr
          refine ⟨_, rfl, rfl, ?_, ?_, ?_, ?_, ?_, rfl, rfl, rfl, rfl, rfl, ?_⟩
          · exact ⟨ff, upd fa 0 (some nx), hv, by simp [upd, hhf], by simp [upd, hfne.symm]⟩
          · simp [next0, upd, hhf, hfne.symm, hfn, hfa, hfa0]
          · intro j hj hjp hjf
            rcases List.mem_cons.1 hj with rfl | hj
            · exact absurd rfl hjp
            · obtain ⟨h1, h2, h3⟩ := hoth j hj hjf
              exact next0_eq (by simp [upd, h1, hjf]) (by simp [upd, h2, h3])
          · intro j hj hjf
            obtain ⟨h1, h2, h3⟩ := hoth j hj hjf
            refine ⟨by simp [upd, h1, hjf], ?_⟩
            obtain ⟨e0, _, ⟨f0, a0, h4, h5⟩⟩ := h.chain.key_of_mem hj
            simp only [fwdOf, h4] at h2 h3 ⊢
            simp [upd, h2, h3, h5]
          · right; simp [fwdOf, upd, hhf, hfn]
          · simp [next0, upd, hhf, hfne.symm]
    · obtain ⟨ep, _, ⟨pf, pa, hpn, hpa⟩⟩ := h.chain.key_of_mem hpi
      have pa0 : pa 0 = some found := by simpa [next0, hpn, hpa] using hnx
      have hpf : p ≠ found := hpd ▸ predOf_ne_succ h.nodup hso
      have hph : p ≠ s.header := fun he => (List.nodup_cons.1 h.nodup).1 (he ▸ hpi)
      have hpfw : fwdOf s p = pf := by simp [fwdOf, hpn]
      have hphf : pf ≠ hf' := by
        intro he
        exact hph (h.inj p hpm s.header (by simp) (by rw [hpfw, hhfw, he]))
      have hpff : pf ≠ ff := by
        intro he
        exact hpf (h.inj p hpm found (List.mem_cons_of_mem _ hfi) (by rw [hpfw, hffw, he]))
      obtain ⟨i0, hha0⟩ : ∃ i0, ha 0 = some i0 := by
        cases ids with
        | nil => cases hpi
        | cons i0 ids' =>
          cases es with
          | nil => exact absurd h.chain (by simp [Chain])
          | cons e0 es' => exact ⟨i0, by simpa [next0, hh1, hh2] using h.chain.1⟩
      cases hr : s.rm k with
      | error err =>
        simp [SL.rm, hs, searchRes_rm, hpd, hnn, SL.fuel, hfn, hk, hlv, hu', SL.spliceLevels, SL.fwdAt, SL.node, SL.arr,
          SL.setFwdAt, SL.takeover, SL.copyLevels, SL.setNode, SL.freeFwd, SL.nodeDeref, SL.nodeDestroy, SL.notify,
          SL.nodeFree, SL.trimLevels, upd, bind, Except.bind, hh1, hh2, hfa, hhf, hhf.symm, hfne, hfne.symm,
          hpn, hpa, pa0, hpf, hpf.symm, hph, hph.symm, hphf, hphf.symm, hpff, hpff.symm, hha0] at hr
      | ok r =>
        obtain ⟨s', evs, b⟩ := r
        simp [SL.rm, hs, searchRes_rm, hpd, hnn, SL.fuel, hfn, hk, hlv, hu', SL.spliceLevels, SL.fwdAt, SL.node, SL.arr,
          SL.setFwdAt, SL.takeover, SL.copyLevels, SL.setNode, SL.freeFwd, SL.nodeDeref, SL.nodeDestroy, SL.notify,
          SL.nodeFree, SL.trimLevels, upd, bind, Except.bind, hh1, hh2, hfa, hhf, hhf.symm, hfne, hfne.symm,
          hpn, hpa, pa0, hpf, hpf.symm, hph, hph.symm, hphf, hphf.symm, hpff, hpff.symm, hha0] at hr
        obtain ⟨rfl, rfl, rfl⟩ := hr
        refine ⟨_, rfl, rfl, ?_, ?_, ?_, ?_, ?_, rfl, rfl, rfl, rfl, rfl, ?_⟩
        · exact ⟨hf', ha, hv, by simp [upd, hhf, hh1], by simp [upd, hfne, hphf.symm, hh2]⟩
        · simp [next0, upd, hpf, hpff, hpn, hfn, hfa]
        · intro j hj hjp hjf
          have hjn : ∀ x, upd (upd s.nodes found x) found none j = s.nodes j := by intro x; simp [upd, hjf]
          rcases List.mem_cons.1 hj with rfl | hj
          · exact next0_eq (by simp [upd, hhf]) (by simp [upd, hhfw, hfne, hphf.symm])
          · obtain ⟨h1, h2, h3⟩ := hoth j hj hjf
            have h4 : fwdOf s j ≠ pf := by
              intro he
              exact hjp (h.inj j (List.mem_cons_of_mem _ hj) p hpm (by rw [hpfw, he]))
            exact next0_eq (by simp [upd, hjf]) (by simp [upd, h3, h4])
        · intro j hj hjf
          obtain ⟨h1, h2, h3⟩ := hoth j hj hjf
          refine ⟨by simp [upd, hjf], ?_⟩
          obtain ⟨e0, _, ⟨f0, a0, h4, h5⟩⟩ := h.chain.key_of_mem hj
          simp only [fwdOf, h4] at h2 h3 ⊢
          by_cases h6 : f0 = pf
          · simp [upd, h6, hpff]
          · simp [upd, h3, h6, h5]
        · left; simp [fwdOf, upd, hhf, hh1]
        · simp
  obtain ⟨s', h1, h2⟩ := key
  exact ⟨s', found, h1, hso, hk, h2⟩

end QbVerif.Skiplist
