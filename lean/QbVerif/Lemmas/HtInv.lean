/-
Hashtable model: the invariant `Inv` of every reachable table state —
structure (ids distinct, node in bucket `hash key`, live keys distinct), the reference-count
equation `refcount = [not removed] + number of iterators parked on the node`, removed nodes are
linked only while an iterator is parked on them, every iterator's node is linked in the bucket the
iterator records — and the master lemma `Inv.of_map_filter`: a new table obtained by updating
nodes in place and unlinking some of them satisfies `Inv` again if the reference counts and the
iterator table fit.
-/
import QbVerif.Lemmas.HtForeachLoop

namespace QbVerif.Hashtable
open QbVerif.Map
set_option linter.unusedSimpArgs false

/-- 1 if the (iterator's) node pointer is `id` -/
def ind (o : Option Nat) (id : Nat) : Nat := if o == some id then 1 else 0

/-- number of iterators parked on node `id` -/
def parked : List (Nat × Iter) → Nat → Nat
  | [], _ => 0
  | p :: its, id => ind p.2.node id + parked its id

/-- the presence reference -/
def base (n : Node) : Nat := if n.removed then 0 else 1

/-- the entries of the map: linked nodes that have not been removed -/
def live (t : HT) : List Node := t.flat.filter fun n => !n.removed

structure Inv (t : HT) : Prop where
  fix14 : t.fix14 = true
  fix15 : t.fix15 = true
  len : t.buckets.length = 2 ^ t.order
  inBucket : ∀ b x, x ∈ t.bucketOf b → hash x.key t.order = b
  idsNodup : (t.flat.map (·.id)).Nodup
  keysNodup : ((live t).map (·.key)).Nodup
  rc : ∀ n ∈ t.flat, n.refcount = base n + parked t.iters n.id
  zombie : ∀ n ∈ t.flat, n.removed = true → 0 < parked t.iters n.id
  itNode : ∀ p ∈ t.iters, ∀ id, p.2.node = some id → ∃ n ∈ t.bucketOf p.2.bucket, n.id = id
  itKeys : (t.iters.map (·.1)).Nodup
  noZero : ∀ p ∈ t.iters, p.1 ≠ 0
  count : t.count = (live t).length
  notCrashed : t.crashed = false
  fresh : ∀ n ∈ t.flat, n.id < t.nextId

theorem Inv.rcPos {t : HT} (h : Inv t) : ∀ n ∈ t.flat, 0 < n.refcount := by
  intro n hn
  have h1 := h.rc n hn
  unfold base at h1
  cases hr : n.removed with
  | true => have := h.zombie n hn hr; omega
  | false => simp [hr] at h1; omega

theorem Inv.wf {t : HT} (h : Inv t) : WF t := ⟨h.fix15, h.idsNodup, h.inBucket, h.rcPos, h.noZero⟩

/-! ### counting parked iterators -/

theorem parked_zero {its : List (Nat × Iter)} {id : Nat} (h : parked its id = 0) :
    ∀ p ∈ its, p.2.node ≠ some id := by
  induction its with
  | nil => intro p hp; cases hp
  | cons a its ih =>
    simp only [parked] at h
    intro p hp
    rcases List.mem_cons.1 hp with rfl | hp
    · intro e
      simp [ind, e] at h
    · exact ih (by omega) p hp

theorem parked_pos_of_mem {its : List (Nat × Iter)} {id : Nat} {p : Nat × Iter} (hp : p ∈ its)
    (hn : p.2.node = some id) : 0 < parked its id := by
  induction its with
  | nil => cases hp
  | cons a its ih =>
    simp only [parked]
    rcases List.mem_cons.1 hp with rfl | hp
    · simp [ind, hn]; omega
    · have := ih hp; omega

theorem lookup_none_of_not_mem {its : List (Nat × Iter)} {k : Nat} (h : k ∉ its.map (·.1)) :
    its.lookup k = none := by
  induction its with
  | nil => rfl
  | cons a its ih =>
    simp only [List.map_cons, List.mem_cons, not_or] at h
    obtain ⟨a1, a2⟩ := a
    simp only [List.lookup]
    have : (k == a1) = false := by simpa using h.1
    rw [this]
    exact ih h.2

theorem mem_of_lookup {its : List (Nat × Iter)} {k : Nat} {it : Iter} (h : its.lookup k = some it) :
    (k, it) ∈ its := by
  induction its with
  | nil => simp [List.lookup] at h
  | cons a its ih =>
    obtain ⟨a1, a2⟩ := a
    simp only [List.lookup] at h
    by_cases hk : k = a1
    · subst hk; simp at h; subst h; simp
    · have : (k == a1) = false := by simpa using hk
      rw [this] at h
      exact List.mem_cons_of_mem _ (ih h)

theorem not_mem_keys_of_lookup_none {its : List (Nat × Iter)} {k : Nat} (h : its.lookup k = none) :
    k ∉ its.map (·.1) := by
  induction its with
  | nil => simp
  | cons a its ih =>
    obtain ⟨a1, a2⟩ := a
    simp only [List.lookup] at h
    by_cases hk : k = a1
    · subst hk; simp at h
    · have : (k == a1) = false := by simpa using hk
      rw [this] at h
      simp only [List.map_cons, List.mem_cons, not_or]
      exact ⟨hk, ih h⟩

theorem setIter_keys (its : List (Nat × Iter)) (k : Nat) (it' : Iter) :
    (setIter its k it').map (·.1) = its.map (·.1) := by
  unfold setIter
  rw [List.map_map]
  apply List.map_congr_left
  intro p _
  by_cases h : p.1 = k <;> simp [h]

theorem mem_setIter {its : List (Nat × Iter)} {k : Nat} {it' : Iter} {p : Nat × Iter} (h : p ∈ setIter its k it') :
    p = (k, it') ∨ p ∈ its := by
  unfold setIter at h
  obtain ⟨q, hq, rfl⟩ := List.mem_map.1 h
  by_cases hk : q.1 = k
  · simp [hk]
  · simp [hk, hq]

/-- moving iterator `k` from `it` to `it'` -/
theorem parked_setIter {its : List (Nat × Iter)} {k : Nat} {it it' : Iter} (hnd : (its.map (·.1)).Nodup)
    (hl : its.lookup k = some it) (id : Nat) :
    parked (setIter its k it') id + ind it.node id = parked its id + ind it'.node id := by
  induction its with
  | nil => simp [List.lookup] at hl
  | cons a its ih =>
    obtain ⟨a1, a2⟩ := a
    simp only [List.map_cons, List.nodup_cons] at hnd
    simp only [List.lookup] at hl
    by_cases hk : k = a1
    · subst hk
      simp at hl
      subst hl
      have hrest : setIter its k it' = its := by
        unfold setIter
        conv => rhs; rw [← List.map_id its]
        apply List.map_congr_left
        intro p hp
        have : p.1 ≠ k := fun e => hnd.1 (List.mem_map.2 ⟨p, hp, e⟩)
        simp [this]
      have : setIter ((k, a2) :: its) k it' = (k, it') :: its := by
        conv => lhs; unfold setIter
        simp only [List.map_cons, beq_self_eq_true, ite_true]
        congr 1
      rw [this]
      simp only [parked]
      omega
    · have hk' : (k == a1) = false := by simpa using hk
      rw [hk'] at hl
      have : setIter ((a1, a2) :: its) k it' = (a1, a2) :: setIter its k it' := by
        conv => lhs; unfold setIter
        simp only [List.map_cons]
        have : (a1 == k) = false := by simpa using fun e => hk e.symm
        simp only [this, Bool.false_eq_true, ite_false]
        rfl
      rw [this]
      simp only [parked]
      have := ih hnd.2 hl
      omega

/-- freeing iterator `k` -/
theorem parked_filter {its : List (Nat × Iter)} {k : Nat} {it : Iter} (hnd : (its.map (·.1)).Nodup)
    (hl : its.lookup k = some it) (id : Nat) :
    parked (its.filter fun p => !(p.1 == k)) id + ind it.node id = parked its id := by
  induction its with
  | nil => simp [List.lookup] at hl
  | cons a its ih =>
    obtain ⟨a1, a2⟩ := a
    simp only [List.map_cons, List.nodup_cons] at hnd
    simp only [List.lookup] at hl
    by_cases hk : k = a1
    · subst hk
      simp at hl
      subst hl
      have hrest : (its.filter fun p => !(p.1 == k)) = its := by
        apply List.filter_eq_self.2
        intro p hp
        have : p.1 ≠ k := fun e => hnd.1 (List.mem_map.2 ⟨p, hp, e⟩)
        simp [this]
      simp only [List.filter_cons, beq_self_eq_true, Bool.not_true, Bool.false_eq_true, ite_false, hrest, parked]
      omega
    · have hk' : (k == a1) = false := by simpa using hk
      rw [hk'] at hl
      have h2 : (a1 == k) = false := by simpa using fun e => hk e.symm
      simp only [List.filter_cons, h2, Bool.not_false, ite_true, parked]
      have := ih hnd.2 hl
      omega

/-! ### the master lemma -/

theorem filter_sublist_filter {α} {p p' : α → Bool} : ∀ {l : List α}, (∀ x ∈ l, p x = true → p' x = true) →
    (l.filter p).Sublist (l.filter p')
  | [], _ => List.Sublist.slnil
  | a :: l, h => by
    have ih := filter_sublist_filter (p := p) (p' := p') (l := l) fun x hx => h x (by simp [hx])
    simp only [List.filter_cons]
    by_cases hp : p a = true
    · simp [hp, h a (by simp) hp, ih]
    · simp only [hp, Bool.false_eq_true, ite_false]
      split
      · exact ih.cons _
      · exact ih

theorem buckets_mf (bs : List (List Node)) (g : Node → Node) (q : Node → Bool) :
    (bs.map fun l => (l.map g).filter q).flatten = (bs.flatten.map g).filter q := by
  induction bs with
  | nil => rfl
  | cons l bs ih => simp [ih]

theorem Inv.of_map_filter {t t' : HT} (h : Inv t) (g : Node → Node) (q : Node → Bool)
    (hb : t'.buckets = t.buckets.map fun l => (l.map g).filter q)
    (hfix14 : t'.fix14 = true) (hfix15 : t'.fix15 = true) (ho : t'.order = t.order)
    (hg : ∀ x ∈ t.flat, (g x).id = x.id ∧ (g x).key = x.key)
    (hmono : ∀ x ∈ t.flat, (g x).removed = false → x.removed = false)
    (hrc : ∀ x ∈ t.flat, q (g x) = true → (g x).refcount = base (g x) + parked t'.iters x.id)
    (hz : ∀ x ∈ t.flat, q (g x) = true → (g x).removed = true → 0 < parked t'.iters x.id)
    (hit : ∀ p ∈ t'.iters, ∀ id, p.2.node = some id → ∃ x ∈ t.bucketOf p.2.bucket, x.id = id ∧ q (g x) = true)
    (hkeys : (t'.iters.map (·.1)).Nodup) (h0 : ∀ p ∈ t'.iters, p.1 ≠ 0)
    (hcount : t'.count = (((t.flat.map g).filter q).filter fun n => !n.removed).length)
    (hcr : t'.crashed = false) (hn : t.nextId ≤ t'.nextId) : Inv t' := by
  have hflat : t'.flat = (t.flat.map g).filter q := by
    unfold HT.flat; rw [hb, buckets_mf]
  have hbk : ∀ b, t'.bucketOf b = ((t.bucketOf b).map g).filter q := by
    intro b
    unfold HT.bucketOf
    rw [hb]
    exact getD_map_nil (fun l => (l.map g).filter q) rfl _ _
  have hmem : ∀ n' ∈ t'.flat, ∃ x ∈ t.flat, n' = g x ∧ q (g x) = true := by
    intro n' hn'
    rw [hflat] at hn'
    obtain ⟨hm, hq⟩ := List.mem_filter.1 hn'
    obtain ⟨x, hx, rfl⟩ := List.mem_map.1 hm
    exact ⟨x, hx, rfl, hq⟩
  refine ⟨hfix14, hfix15, by rw [hb, ho, List.length_map]; exact h.len, ?_, ?_, ?_, ?_, ?_, ?_, hkeys, h0, ?_, hcr, ?_⟩
  · intro b x' hx'
    rw [hbk] at hx'
    obtain ⟨hm, _⟩ := List.mem_filter.1 hx'
    obtain ⟨x, hx, rfl⟩ := List.mem_map.1 hm
    rw [(hg x (mem_flat_of_bucket hx)).2, ho]
    exact h.inBucket b x hx
  · rw [hflat]
    have h1 : ((t.flat.map g).map (·.id)) = t.flat.map (·.id) := by
      rw [List.map_map]; apply List.map_congr_left; intro x hx; simp [(hg x hx).1]
    have : (((t.flat.map g).filter q).map (·.id)).Sublist ((t.flat.map g).map (·.id)) :=
      (List.filter_sublist).map _
    exact List.Nodup.sublist this (h1 ▸ h.idsNodup)
  · unfold live
    rw [hflat, List.filter_filter, List.filter_map, List.map_map]
    have h1 : (t.flat.filter ((fun a => (!a.removed && q a)) ∘ g)).map ((·.key) ∘ g) =
        (t.flat.filter ((fun a => (!a.removed && q a)) ∘ g)).map (·.key) := by
      apply List.map_congr_left; intro x hx; simp [(hg x (List.mem_filter.1 hx).1).2]
    rw [h1]
    have hs : (t.flat.filter ((fun a => (!a.removed && q a)) ∘ g)).Sublist (t.flat.filter fun n => !n.removed) := by
      apply filter_sublist_filter
      intro x hx hp
      simp only [Function.comp, Bool.and_eq_true, Bool.not_eq_true'] at hp
      simp [hmono x hx hp.1]
    exact List.Nodup.sublist (hs.map _) h.keysNodup
  · intro n' hn'
    obtain ⟨x, hx, rfl, hq⟩ := hmem n' hn'
    rw [(hg x hx).1]
    exact hrc x hx hq
  · intro n' hn' hr
    obtain ⟨x, hx, rfl, hq⟩ := hmem n' hn'
    rw [(hg x hx).1]
    exact hz x hx hq hr
  · intro p hp id hid
    obtain ⟨x, hx, hxid, hq⟩ := hit p hp id hid
    refine ⟨g x, ?_, by rw [(hg x (mem_flat_of_bucket hx)).1, hxid]⟩
    rw [hbk]
    exact List.mem_filter.2 ⟨List.mem_map.2 ⟨x, hx, rfl⟩, hq⟩
  · rw [hcount]; unfold live; rw [hflat]
  · intro n' hn'
    obtain ⟨x, hx, rfl, _⟩ := hmem n' hn'
    rw [(hg x hx).1]
    exact Nat.lt_of_lt_of_le (h.fresh x hx) hn

end QbVerif.Hashtable
