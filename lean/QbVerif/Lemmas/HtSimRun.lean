/-
Hashtable model vs. dictionary: whole histories.
-/
import QbVerif.Lemmas.HtSimStep3

namespace QbVerif.Hashtable
open QbVerif.Map
set_option linter.unusedSimpArgs false

theorem runFrom_cons {σ : Type} (step : σ → Op → σ × Out) (s : σ) (op : Op) (ops : List Op) :
    Map.runFrom step s (op :: ops) =
      ((Map.runFrom step (step s op).1 ops).1, (step s op).2 :: (Map.runFrom step (step s op).1 ops).2) := rfl

/-- after any history the table satisfies `Inv` and is related to the dictionary that executed
    the same history -/
theorem sim_run : ∀ (ops : List Op) {t : HT} {d : Dict}, Inv t → Sim t d →
    Inv (t.runFrom ops).1 ∧ Sim (t.runFrom ops).1 (d.runFrom ops).1
  | [], _, _, h, s => ⟨h, s⟩
  | op :: ops, t, d, h, s => by
    have h1 := (step_inv h op).1
    have s1 := (sim_step h s op).sim
    exact sim_run ops h1 s1

/-- the dictionary's non-iterator operations do not open iterators -/
theorem dict_step_iters (d : Dict) (op : Op) (ho : op.isIter = false) (hd : d.iters = []) : (d.step op).1.iters = [] := by
  cases op with
  | iterNew i p => cases ho
  | iterNext i => cases ho
  | iterFree i => cases ho
  | destroy =>
    unfold Dict.step
    simp only [hd, List.isEmpty_nil, Bool.not_true, Bool.false_eq_true, ite_false]
    rfl
  | get k => exact hd
  | count => exact hd
  | foreach s p => exact hd
  | put k v l =>
    unfold Dict.step
    simp only
    split <;> exact hd
  | rm k =>
    unfold Dict.step
    simp only
    split <;> exact hd
  | nadd k e i =>
    unfold Dict.step
    cases k with
    | none => simp only; split <;> exact hd
    | some k =>
      simp only
      split
      · exact hd
      · split
        · split <;> exact hd
        · split
          · exact hd
          · split <;> exact hd
  | ndel k e i =>
    unfold Dict.step
    cases k with
    | none => simp only; split <;> exact hd
    | some k =>
      simp only
      split
      · split <;> exact hd
      · split
        · exact hd
        · split <;> exact hd

/-- a history in the C17 language (no iterator operations) started without open iterators -/
theorem sim_run_c17 : ∀ (ops : List Op) {t : HT} {d : Dict}, Inv t → Sim t d → t.iters = [] →
    (∀ op ∈ ops, op.isIter = false) →
    results .ht (t.runFrom ops) = results .ht (d.runFrom ops) ∧ trace .ht (t.runFrom ops) = trace .ht (d.runFrom ops)
  | [], _, _, _, _, _, _ => ⟨rfl, rfl⟩
  | op :: ops, t, d, h, s, hi, hops => by
    have ok := sim_step h s op
    have h1 := (step_inv h op).1
    have hop : op.isIter = false := hops op (by simp)
    have hne : ∀ i, op ≠ .iterNext i := by intro i e; rw [e] at hop; cases hop
    have hi1 : (t.step op).1.iters = [] :=
      ok.sim.empty_iff.1 (dict_step_iters d op hop (s.empty_iff.2 hi))
    obtain ⟨r1, r2⟩ := sim_run_c17 ops h1 ok.sim hi1 (fun o ho => hops o (by simp [ho]))
    unfold results at r1
    unfold trace at r2
    unfold results trace
    show List.map _ ((Map.runFrom HT.step t (op :: ops)).2) = List.map _ ((Map.runFrom Dict.step d (op :: ops)).2) ∧
      List.map _ ((Map.runFrom HT.step t (op :: ops)).2) = List.map _ ((Map.runFrom Dict.step d (op :: ops)).2)
    rw [runFrom_cons, runFrom_cons]
    simp only [List.map_cons]
    refine ⟨?_, ?_⟩
    · rw [ok.res hne]
      exact congrArg _ r1
    · have he := ok.events hi
      have : (fun k => (t.step op).2.events.filter (·.key == k)) = (fun k => (d.step op).2.events.filter (·.key == k)) :=
        funext he
      simp only [Flavour.ht, Bool.false_eq_true, ite_false] at r2 ⊢
      rw [this]
      exact congrArg _ r2

/-- results with the `iter_next` positions masked (which entry an unordered map's iterator returns
    next is not determined by the dictionary) -/
def maskNext (fl : Flavour) : List Op → List Out → List CRes
  | op :: ops, o :: outs =>
    (match op with | .iterNext _ => CRes.hidden | _ => o.res.canon fl) :: maskNext fl ops outs
  | _, _ => []

/-- any history, iterators open or not: every result except those of `iter_next` is the
    dictionary's -/
theorem sim_run_masked : ∀ (ops : List Op) {t : HT} {d : Dict}, Inv t → Sim t d →
    maskNext .ht ops (t.runFrom ops).2 = maskNext .ht ops (d.runFrom ops).2
  | [], _, _, _, _ => rfl
  | op :: ops, t, d, h, s => by
    have ok := sim_step h s op
    have h1 := (step_inv h op).1
    have ih := sim_run_masked ops h1 ok.sim
    show maskNext .ht (op :: ops) (Map.runFrom HT.step t (op :: ops)).2 =
      maskNext .ht (op :: ops) (Map.runFrom Dict.step d (op :: ops)).2
    rw [runFrom_cons, runFrom_cons]
    simp only [maskNext]
    congr 1
    cases op with
    | iterNext i => rfl
    | put k v l => exact ok.res (by intro i e; cases e)
    | get k => exact ok.res (by intro i e; cases e)
    | rm k => exact ok.res (by intro i e; cases e)
    | count => exact ok.res (by intro i e; cases e)
    | iterNew i p => exact ok.res (by intro i e; cases e)
    | iterFree i => exact ok.res (by intro i e; cases e)
    | foreach s p => exact ok.res (by intro i e; cases e)
    | nadd k e i => exact ok.res (by intro i e; cases e)
    | ndel k e i => exact ok.res (by intro i e; cases e)
    | destroy => exact ok.res (by intro i e; cases e)

end QbVerif.Hashtable
