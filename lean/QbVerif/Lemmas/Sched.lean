/-
Helper lemmas for C10 (Model/Sched.lean): monotonicity facts that every step inside one
iteration preserves, the per-visit dispatch bounds, and the shape of the level loop.
-/
import QbVerif.Model.Sched

namespace QbVerif.Sched
open QbVerif.Gen

/-! ### queues -/

@[simp] theorem Queues.get_set_same (q : Queues) (p : Prio) (l : List Item) : (q.set p l).get p = l := by
  cases p <;> rfl

@[simp] theorem Queues.get_set_ne (q : Queues) {p p' : Prio} (h : p' ≠ p) (l : List Item) :
    (q.set p l).get p' = q.get p' := by
  cases p <;> cases p' <;> first | rfl | exact absurd rfl h

/-- items of level `p` dispatched so far in this iteration -/
def Work.dispOf (w : Work) (p : Prio) : List Item := (w.disp.filter (fun d => d.1 == p)).map (·.2)

theorem Work.dispOf_append (w : Work) (p p' : Prio) (x : Item) (d : List (Prio × Item))
    (h : d = w.disp ++ [(p', x)]) :
    (d.filter (fun d => d.1 == p)).map (·.2) = w.dispOf p ++ (if p' = p then [x] else []) := by
  subst h
  by_cases hp : p' = p
  · subst hp; simp [Work.dispOf, List.filter_append]
  · have : (p' == p) = false := by simpa using hp
    simp [Work.dispOf, List.filter_append, this, hp]

/-! ### what every step preserves, for a fixed level `p` -/

structure Mono (p : Prio) (w w' : Work) : Prop where
  dels : ∀ x, x ∈ w.dels → x ∈ w'.dels
  emptied : ∀ x, x ∈ w.emptied → x ∈ w'.emptied
  stop : w.stop = true → w'.stop = true
  disp : w.dispOf p <+: w'.dispOf p
  tot : p ∉ w'.dels → w.dispOf p ++ w.q.get p <+: w'.dispOf p ++ w'.q.get p
  ne : p ∉ w'.emptied → w.q.get p ≠ [] →
        (w'.q.get p ≠ [] ∨ (w.dispOf p).length < (w'.dispOf p).length)

theorem Mono.refl (p : Prio) (w : Work) : Mono p w w :=
  ⟨fun _ h => h, fun _ h => h, id, List.prefix_refl _, fun _ => List.prefix_refl _, fun _ h => Or.inl h⟩

theorem Mono.trans {p : Prio} {a b c : Work} (h1 : Mono p a b) (h2 : Mono p b c) : Mono p a c where
  dels x hx := h2.dels x (h1.dels x hx)
  emptied x hx := h2.emptied x (h1.emptied x hx)
  stop h := h2.stop (h1.stop h)
  disp := h1.disp.trans h2.disp
  tot hc := (h1.tot (fun hb => hc (h2.dels p hb))).trans (h2.tot hc)
  ne hc hne := by
    have hlen := h2.disp.length_le
    rcases h1.ne (fun hb => hc (h2.emptied p hb)) hne with hb | hb
    · rcases h2.ne hc hb with h | h
      · exact Or.inl h
      · exact Or.inr (Nat.lt_of_le_of_lt h1.disp.length_le h)
    · exact Or.inr (Nat.lt_of_lt_of_le hb hlen)

theorem mono_applyAct (p : Prio) (w : Work) (a : Act) : Mono p w (applyAct w a) := by
  cases a with
  | add p' x =>
    refine ⟨fun _ h => h, fun _ h => h, id, List.prefix_refl _, fun _ => ?_, fun _ hne => Or.inl ?_⟩
    · by_cases hp : p = p'
      · subst hp
        simp only [applyAct, Work.dispOf, Queues.get_set_same]
        rw [← List.append_assoc]; exact List.prefix_append _ _
      · simp only [applyAct, Work.dispOf, Queues.get_set_ne _ hp]; exact List.prefix_refl _
    · by_cases hp : p = p'
      · subst hp; simp [applyAct]
      · simpa [applyAct, Queues.get_set_ne _ hp] using hne
  | stop =>
    exact ⟨fun _ h => h, fun _ h => h, fun _ => rfl, List.prefix_refl _, fun _ => List.prefix_refl _,
      fun _ h => Or.inl h⟩
  | del p' k =>
    by_cases hk : k < (w.q.get p').length
    · refine ⟨?_, ?_, ?_, ?_, ?_, ?_⟩
      · intro x hx; simp [applyAct, hk, hx]
      · intro x hx; simp only [applyAct, hk, if_true]; split <;> simp [hx]
      · intro h; simpa [applyAct, hk] using h
      · simp only [applyAct, hk, if_true, Work.dispOf]; exact List.prefix_refl _
      · intro hc
        have hp : p ≠ p' := by
          intro h; subst h; apply hc; simp [applyAct, hk]
        simp only [applyAct, hk, if_true, Work.dispOf, Queues.get_set_ne _ hp]; exact List.prefix_refl _
      · intro hc hne
        left
        by_cases hp : p = p'
        · subst hp
          simp only [applyAct, hk, if_true, Queues.get_set_same]
          intro he
          apply hc
          simp [applyAct, hk, he]
        · simpa [applyAct, hk, Queues.get_set_ne _ hp] using hne
    · have : applyAct w (.del p' k) = w := by simp [applyAct, hk]
      rw [this]; exact Mono.refl p w

theorem mono_applyActs (p : Prio) (as : List Act) : ∀ w : Work, Mono p w (applyActs w as) := by
  induction as with
  | nil => intro w; exact Mono.refl p w
  | cons a as ih => intro w; exact (mono_applyAct p w a).trans (ih _)

/-- facts about fields the actions never touch -/
theorem applyAct_frame (w : Work) (a : Act) :
    (applyAct w a).disp = w.disp ∧ (applyAct w a).k = w.k ∧ (applyAct w a).ret = w.ret ∧
    (applyAct w a).visited = w.visited := by
  cases a with
  | add p x => simp [applyAct]
  | stop => simp [applyAct]
  | del p k => simp only [applyAct]; split <;> simp

theorem applyActs_frame (as : List Act) : ∀ w : Work,
    (applyActs w as).disp = w.disp ∧ (applyActs w as).k = w.k ∧ (applyActs w as).ret = w.ret ∧
    (applyActs w as).visited = w.visited := by
  induction as with
  | nil => intro w; simp [applyActs]
  | cons a as ih =>
    intro w
    have h1 := applyAct_frame w a
    have h2 := ih (applyAct w a)
    simp only [applyActs, List.foldl_cons] at h2 ⊢
    exact ⟨h2.1.trans h1.1, h2.2.1.trans h1.2.1, h2.2.2.1.trans h1.2.2.1, h2.2.2.2.trans h1.2.2.2⟩

/-- without an effective deletion at `p`, actions only lengthen the queue of `p` -/
theorem applyActs_len (p : Prio) (w : Work) (as : List Act) (h : p ∉ (applyActs w as).dels) :
    (w.q.get p).length ≤ ((applyActs w as).q.get p).length := by
  have hm := mono_applyActs p as w
  have ht := (hm.tot h).length_le
  have hd : (applyActs w as).dispOf p = w.dispOf p := by
    simp [Work.dispOf, (applyActs_frame as w).1]
  simp only [hd, List.length_append] at ht
  omega

/-! ### dispatch and qb_loop_run_level -/

theorem dispatch_dispOf (cb : Nat → List Act) (p p' : Prio) (w : Work) (x : Item) (rest : List Item) :
    (dispatch cb p' w x rest).dispOf p = w.dispOf p ++ (if p' = p then [x] else []) := by
  unfold dispatch
  rw [Work.dispOf, (applyActs_frame _ _).1]
  exact Work.dispOf_append w p p' x _ rfl

theorem mono_dispatch (cb : Nat → List Act) (p p' : Prio) (w : Work) (x : Item) (rest : List Item)
    (hq : w.q.get p' = x :: rest) : Mono p w (dispatch cb p' w x rest) := by
  have h0 : Mono p w { w with q := w.q.set p' rest, k := w.k + 1, disp := w.disp ++ [(p', x)] } := by
    have hd := Work.dispOf_append w p p' x (w.disp ++ [(p', x)]) rfl
    refine ⟨fun _ h => h, fun _ h => h, id, ?_, fun _ => ?_, fun _ hne => ?_⟩
    · simp only [Work.dispOf] at hd ⊢; rw [hd]; exact List.prefix_append _ _
    · by_cases hp : p' = p
      · subst hp
        simp only [Work.dispOf] at hd ⊢
        rw [hd, hq]; simp
      · have hp' : p ≠ p' := fun h => hp h.symm
        simp only [Work.dispOf] at hd ⊢
        rw [hd]; simp [hp, Queues.get_set_ne _ hp']
    · by_cases hp : p' = p
      · subst hp
        right
        simp only [Work.dispOf] at hd ⊢
        rw [hd]; simp
      · have hp' : p ≠ p' := fun h => hp h.symm
        left; simpa [Queues.get_set_ne _ hp'] using hne
  exact h0.trans (mono_applyActs p _ _)

theorem mono_runLevelAux (cb : Nat → List Act) (p p' : Prio) :
    ∀ (n : Nat) (w : Work), Mono p w (runLevelAux cb p' n w) := by
  intro n
  induction n with
  | zero => intro w; exact Mono.refl p w
  | succ n ih =>
    intro w
    unfold runLevelAux
    split
    · exact Mono.refl p w
    · rename_i x rest hq
      have hd := mono_dispatch cb p p' w x rest hq
      by_cases hs : (dispatch cb p' w x rest).stop = true
      · rw [if_pos hs]; exact hd
      · rw [if_neg hs]; exact hd.trans (ih _)

/-- a visit of a non-empty level dispatches at least one of its items (even if the callback
    requests a stop: the dispatch comes first) -/
theorem runLevelAux_pos (cb : Nat → List Act) (p : Prio) (n : Nat) (w : Work)
    (hne : w.q.get p ≠ []) :
    (w.dispOf p).length < ((runLevelAux cb p (n + 1) w).dispOf p).length := by
  unfold runLevelAux
  split
  · rename_i h; exact absurd h hne
  · rename_i x rest hq
    have hd := dispatch_dispOf cb p p w x rest
    have hlen : ((dispatch cb p w x rest).dispOf p).length = (w.dispOf p).length + 1 := by
      rw [hd]; simp
    by_cases hs : (dispatch cb p w x rest).stop = true
    · rw [if_pos hs]; omega
    · rw [if_neg hs]
      have := (mono_runLevelAux cb p p n (dispatch cb p w x rest)).disp.length_le
      omega

/-- lower bound: a visit that ends without a stop request, with no deletion at `p`, dispatches
    at least `min n |queue|` items of `p` -/
theorem runLevelAux_count (cb : Nat → List Act) (p : Prio) :
    ∀ (n : Nat) (w : Work), (runLevelAux cb p n w).stop = false → p ∉ (runLevelAux cb p n w).dels →
      (w.dispOf p).length + min n (w.q.get p).length ≤ ((runLevelAux cb p n w).dispOf p).length := by
  intro n
  induction n with
  | zero => intro w _ _; simp [runLevelAux]
  | succ n ih =>
    intro w hstop hdel
    unfold runLevelAux at hstop hdel ⊢
    split at hstop
    · rename_i hq
      simp only [hq] at hdel ⊢
      simp
    · rename_i x rest hq
      simp only [hq] at hdel ⊢
      have hd := dispatch_dispOf cb p p w x rest
      have hlen : ((dispatch cb p w x rest).dispOf p).length = (w.dispOf p).length + 1 := by
        rw [hd]; simp
      by_cases hs : (dispatch cb p w x rest).stop = true
      · rw [if_pos hs] at hstop
        rw [hs] at hstop; exact absurd hstop (by simp)
      · rw [if_neg hs] at hstop hdel ⊢
        have hrec := ih _ hstop hdel
        have hdel2 : p ∉ (dispatch cb p w x rest).dels :=
          fun h => hdel ((mono_runLevelAux cb p p n _).dels p h)
        have hq2 : rest.length ≤ ((dispatch cb p w x rest).q.get p).length := by
          have := applyActs_len p
            { w with q := w.q.set p rest, k := w.k + 1, disp := w.disp ++ [(p, x)] } (cb w.k) hdel2
          simpa [dispatch] using this
        simp only [List.length_cons]
        omega

/-- upper bound: a visit dispatches at most `n` items of its level -/
theorem runLevelAux_le (cb : Nat → List Act) (p : Prio) :
    ∀ (n : Nat) (w : Work), ((runLevelAux cb p n w).dispOf p).length ≤ (w.dispOf p).length + n := by
  intro n
  induction n with
  | zero => intro w; simp [runLevelAux]
  | succ n ih =>
    intro w
    unfold runLevelAux
    split
    · omega
    · rename_i x rest hq
      have hd := dispatch_dispOf cb p p w x rest
      have hlen : ((dispatch cb p w x rest).dispOf p).length = (w.dispOf p).length + 1 := by
        rw [hd]; simp
      by_cases hs : (dispatch cb p w x rest).stop = true
      · rw [if_pos hs]; omega
      · rw [if_neg hs]
        have := ih (dispatch cb p w x rest)
        omega

/-- a visit of level `p'` dispatches nothing of another level `p` -/
theorem runLevelAux_other (cb : Nat → List Act) (p p' : Prio) (hp : p' ≠ p) :
    ∀ (n : Nat) (w : Work), (runLevelAux cb p' n w).dispOf p = w.dispOf p := by
  intro n
  induction n with
  | zero => intro w; simp [runLevelAux]
  | succ n ih =>
    intro w
    unfold runLevelAux
    split
    · rfl
    · rename_i x rest hq
      have hd := dispatch_dispOf cb p p' w x rest
      simp only [hp, if_false, List.append_nil] at hd
      by_cases hs : (dispatch cb p' w x rest).stop = true
      · rw [if_pos hs]; exact hd
      · rw [if_neg hs, ih]; exact hd

theorem runLevelAux_frame (cb : Nat → List Act) (p : Prio) :
    ∀ (n : Nat) (w : Work), (runLevelAux cb p n w).ret = w.ret ∧ (runLevelAux cb p n w).visited = w.visited := by
  intro n
  induction n with
  | zero => intro w; simp [runLevelAux]
  | succ n ih =>
    intro w
    unfold runLevelAux
    split
    · simp
    · rename_i x rest hq
      have hf : (dispatch cb p w x rest).ret = w.ret ∧ (dispatch cb p w x rest).visited = w.visited := by
        unfold dispatch
        have := applyActs_frame (cb w.k)
          { w with q := w.q.set p rest, k := w.k + 1, disp := w.disp ++ [(p, x)] }
        exact ⟨this.2.2.1, this.2.2.2⟩
      by_cases hs : (dispatch cb p w x rest).stop = true
      · rw [if_pos hs]; exact hf
      · rw [if_neg hs]
        have := ih (dispatch cb p w x rest)
        exact ⟨this.1.trans hf.1, this.2.trans hf.2⟩

theorem budget_pos (p : Prio) : 0 < budget p := by
  unfold budget; omega

/-! ### one step of the level loop -/

/-- changing only the `visited` log is invisible to `Mono` -/
theorem mono_visit (p : Prio) (w : Work) (v : List Prio) : Mono p w { w with visited := v } :=
  ⟨fun _ h => h, fun _ h => h, id, List.prefix_refl _, fun _ => List.prefix_refl _, fun _ h => Or.inl h⟩

theorem mono_setret (p : Prio) (w : Work) (r : Bool) : Mono p w { w with ret := r } :=
  ⟨fun _ h => h, fun _ h => h, id, List.prefix_refl _, fun _ => List.prefix_refl _, fun _ h => Or.inl h⟩

theorem levelStep_visit_eq (cb : Nat → List Act) (ps : Nat) (w : Work) (p : Prio)
    (hr : w.ret = false) (hv : ps ≤ p.toNat) :
    levelStep cb ps w p =
      { runLevel cb p { w with visited := w.visited ++ [p] } with
        ret := (runLevel cb p { w with visited := w.visited ++ [p] }).stop } := by
  simp [levelStep, hr, hv]

theorem levelStep_skip_eq (cb : Nat → List Act) (ps : Nat) (w : Work) (p : Prio)
    (h : w.ret = true ∨ ¬ ps ≤ p.toNat) : levelStep cb ps w p = w := by
  rcases h with h | h
  · simp [levelStep, h]
  · by_cases hr : w.ret = true
    · simp [levelStep, hr]
    · simp [levelStep, hr, h]

theorem mono_levelStep (cb : Nat → List Act) (ps : Nat) (p p' : Prio) (w : Work) :
    Mono p w (levelStep cb ps w p') := by
  by_cases h : w.ret = false ∧ ps ≤ p'.toNat
  · rw [levelStep_visit_eq cb ps w p' h.1 h.2]
    exact ((mono_visit p w _).trans (mono_runLevelAux cb p p' _ _)).trans (mono_setret p _ _)
  · rw [levelStep_skip_eq]
    · exact Mono.refl p w
    · by_cases hr : w.ret = true
      · exact Or.inl hr
      · right; intro hv; exact h ⟨by simpa using hr, hv⟩

theorem levelStep_ret_mono (cb : Nat → List Act) (ps : Nat) (p' : Prio) (w : Work)
    (h : w.ret = true) : (levelStep cb ps w p').ret = true := by
  rw [levelStep_skip_eq _ _ _ _ (Or.inl h)]; exact h

theorem levelStep_pos (cb : Nat → List Act) (ps : Nat) (p : Prio) (w : Work)
    (hr : w.ret = false) (hv : ps ≤ p.toNat) (hne : w.q.get p ≠ []) :
    (w.dispOf p).length < ((levelStep cb ps w p).dispOf p).length := by
  rw [levelStep_visit_eq cb ps w p hr hv]
  have hb : budget p = (budget p - 1) + 1 := by have := budget_pos p; omega
  have := runLevelAux_pos cb p (budget p - 1) { w with visited := w.visited ++ [p] } hne
  rw [← hb] at this
  exact this

theorem levelStep_count (cb : Nat → List Act) (ps : Nat) (p : Prio) (w : Work)
    (hr : w.ret = false) (hv : ps ≤ p.toNat)
    (hs : (levelStep cb ps w p).stop = false) (hd : p ∉ (levelStep cb ps w p).dels) :
    (w.dispOf p).length + min (budget p) (w.q.get p).length ≤ ((levelStep cb ps w p).dispOf p).length := by
  rw [levelStep_visit_eq cb ps w p hr hv] at hs hd ⊢
  exact runLevelAux_count cb p (budget p) { w with visited := w.visited ++ [p] } hs hd

theorem levelStep_le (cb : Nat → List Act) (ps : Nat) (p p' : Prio) (w : Work) :
    ((levelStep cb ps w p').dispOf p).length ≤ (w.dispOf p).length + (if p' = p then budget p else 0) := by
  by_cases h : w.ret = false ∧ ps ≤ p'.toNat
  · rw [levelStep_visit_eq cb ps w p' h.1 h.2]
    by_cases hp : p' = p
    · subst hp
      simp only [if_true]
      exact runLevelAux_le cb p' (budget p') { w with visited := w.visited ++ [p'] }
    · simp only [hp, if_false, Nat.add_zero]
      have := runLevelAux_other cb p p' hp (budget p') { w with visited := w.visited ++ [p'] }
      exact Nat.le_of_eq (congrArg List.length this)
  · rw [levelStep_skip_eq]
    · omega
    · by_cases hr : w.ret = true
      · exact Or.inl hr
      · right; intro hv; exact h ⟨by simpa using hr, hv⟩

theorem levelStep_visited (cb : Nat → List Act) (ps : Nat) (p' : Prio) (w : Work) :
    (levelStep cb ps w p').visited =
      w.visited ++ (if w.ret = false ∧ ps ≤ p'.toNat then [p'] else []) := by
  by_cases h : w.ret = false ∧ ps ≤ p'.toNat
  · rw [levelStep_visit_eq cb ps w p' h.1 h.2]
    rw [if_pos h]
    exact (runLevelAux_frame cb p' (budget p') { w with visited := w.visited ++ [p'] }).2
  · rw [levelStep_skip_eq]
    · simp [h]
    · by_cases hr : w.ret = true
      · exact Or.inl hr
      · right; intro hv; exact h ⟨by simpa using hr, hv⟩

/-! ### one iteration -/

/-- the three intermediate states of the level loop -/
def w0 (s : St) : Work := { q := s.q, stop := s.stop }
def w1 (s : St) (e : Env) : Work := applyActs (w0 s) e.pre
def wH (s : St) (e : Env) : Work := levelStep e.cb (nextStop s.pstop) (w1 s e) .high
def wM (s : St) (e : Env) : Work := levelStep e.cb (nextStop s.pstop) (wH s e) .med
def wL (s : St) (e : Env) : Work := levelStep e.cb (nextStop s.pstop) (wM s e) .low

theorem iterWork_eq (s : St) (e : Env) : iterWork s e = wL s e := rfl

theorem w1_frame (s : St) (e : Env) : (w1 s e).ret = false ∧ (w1 s e).visited = [] ∧ (w1 s e).dispOf p = [] := by
  have := applyActs_frame e.pre (w0 s)
  refine ⟨this.2.2.1, this.2.2.2, ?_⟩
  have hd : (w1 s e).disp = [] := this.1
  simp [Work.dispOf, hd]

theorem mono_chain (p : Prio) (s : St) (e : Env) :
    Mono p (w0 s) (w1 s e) ∧ Mono p (w1 s e) (wH s e) ∧ Mono p (wH s e) (wM s e) ∧ Mono p (wM s e) (wL s e) :=
  ⟨mono_applyActs p _ _, mono_levelStep _ _ _ _ _, mono_levelStep _ _ _ _ _, mono_levelStep _ _ _ _ _⟩

theorem iterate_running (s : St) (e : Env) (h : s.returned = false) :
    iterate s e =
      ({ q := (wL s e).q, pstop := nextStop s.pstop, stop := (wL s e).stop,
         returned := (wL s e).ret || (wL s e).stop },
       { disp := (wL s e).disp, visited := (wL s e).visited, dels := (wL s e).dels,
         emptied := (wL s e).emptied }) := by
  simp [iterate, h, iterWork_eq]

theorem iterate_returned (s : St) (e : Env) (h : s.returned = true) : iterate s e = (s, {}) := by
  simp [iterate, h]

theorem log_dispOf (s : St) (e : Env) (h : s.returned = false) (p : Prio) :
    (iterate s e).2.dispOf p = (wL s e).dispOf p := by
  rw [iterate_running s e h]; rfl

/-- the run is still going after this iteration: nothing stopped or returned inside it -/
theorem running_inside (s : St) (e : Env) (h : s.returned = false)
    (h' : (iterate s e).1.returned = false) :
    (wL s e).stop = false ∧ (wL s e).ret = false ∧ (wM s e).ret = false ∧ (wH s e).ret = false ∧
    (w1 s e).ret = false := by
  rw [iterate_running s e h] at h'
  have h1 : ((wL s e).ret || (wL s e).stop) = false := h'
  have hL : (wL s e).ret = false ∧ (wL s e).stop = false := by
    cases hr : (wL s e).ret <;> cases hs : (wL s e).stop <;> simp_all
  have hMr : (wM s e).ret = false := by
    cases hr : (wM s e).ret
    · rfl
    · have := levelStep_ret_mono e.cb (nextStop s.pstop) .low (wM s e) hr
      have hl : (wL s e).ret = true := this
      rw [hL.1] at hl; exact absurd hl (by simp)
  have hHr : (wH s e).ret = false := by
    cases hr : (wH s e).ret
    · rfl
    · have := levelStep_ret_mono e.cb (nextStop s.pstop) .med (wH s e) hr
      have hl : (wM s e).ret = true := this
      rw [hMr] at hl; exact absurd hl (by simp)
  exact ⟨hL.2, hL.1, hMr, hHr, (w1_frame (p := .low) s e).1⟩

/-- A: FIFO bookkeeping of one iteration for level `p` when nothing was deleted from it -/
theorem iter_tot (s : St) (e : Env) (h : s.returned = false) (p : Prio)
    (hd : p ∉ (iterate s e).2.dels) :
    s.q.get p <+: (iterate s e).2.dispOf p ++ (iterate s e).1.q.get p := by
  have hc := mono_chain p s e
  have hm : Mono p (w0 s) (wL s e) := (hc.1.trans hc.2.1).trans (hc.2.2.1.trans hc.2.2.2)
  rw [iterate_running s e h] at hd ⊢
  have := hm.tot hd
  simpa [w0, Work.dispOf, Log.dispOf] using this

/-- B': a non-empty level stays non-empty or gets an item dispatched, unless a deletion empties it -/
theorem iter_keep (s : St) (e : Env) (h : s.returned = false) (p : Prio)
    (hne : s.q.get p ≠ []) (he : p ∉ (iterate s e).2.emptied) :
    (iterate s e).1.q.get p ≠ [] ∨ 0 < ((iterate s e).2.dispOf p).length := by
  have hc := mono_chain p s e
  have hm : Mono p (w0 s) (wL s e) := (hc.1.trans hc.2.1).trans (hc.2.2.1.trans hc.2.2.2)
  rw [iterate_running s e h] at he ⊢
  have := hm.ne he hne
  simpa [w0, Work.dispOf, Log.dispOf] using this

/-- the state right before level `p` is visited -/
def wBefore (s : St) (e : Env) : Prio → Work
  | .high => w1 s e
  | .med => wH s e
  | .low => wM s e

/-- … and right after -/
def wAfter (s : St) (e : Env) : Prio → Work
  | .high => wH s e
  | .med => wM s e
  | .low => wL s e

theorem wAfter_eq (s : St) (e : Env) (p : Prio) :
    wAfter s e p = levelStep e.cb (nextStop s.pstop) (wBefore s e p) p := by
  cases p <;> rfl

theorem mono_before (s : St) (e : Env) (p q : Prio) : Mono q (w0 s) (wBefore s e p) := by
  have hc := mono_chain q s e
  cases p
  · exact (hc.1.trans hc.2.1).trans hc.2.2.1
  · exact hc.1.trans hc.2.1
  · exact hc.1

theorem mono_after (s : St) (e : Env) (p q : Prio) : Mono q (wAfter s e p) (wL s e) := by
  have hc := mono_chain q s e
  cases p
  · exact Mono.refl q _
  · exact hc.2.2.2
  · exact hc.2.2.1.trans hc.2.2.2

/-- B: if level `p` is non-empty after the poll phase, is eligible in this iteration and the run
    goes on, one of its items is dispatched in this iteration (unless a deletion empties it) -/
theorem iter_pos_after_poll (s : St) (e : Env) (h : s.returned = false) (p : Prio)
    (hne : (w1 s e).q.get p ≠ []) (he : p ∉ (iterate s e).2.emptied)
    (hrun : (iterate s e).1.returned = false) (hv : nextStop s.pstop ≤ p.toNat) :
    0 < ((iterate s e).2.dispOf p).length := by
  have hin := running_inside s e h hrun
  have hc := mono_chain p s e
  rw [log_dispOf s e h]
  rw [iterate_running s e h] at he
  have he' : p ∉ (wL s e).emptied := he
  -- from w1 to the state before the visit
  have hb : Mono p (w1 s e) (wBefore s e p) := by
    cases p
    · exact hc.2.1.trans hc.2.2.1
    · exact hc.2.1
    · exact Mono.refl _ _
  have ha := mono_after s e p p
  have hbr : (wBefore s e p).ret = false := by
    cases p
    · exact hin.2.2.1
    · exact hin.2.2.2.1
    · exact hin.2.2.2.2
  have hd1 : (w1 s e).dispOf p = [] := (w1_frame s e).2.2
  have hbe : p ∉ (wBefore s e p).emptied := by
    intro hx
    have h2 := (mono_levelStep e.cb (nextStop s.pstop) p p (wBefore s e p)).emptied p hx
    rw [← wAfter_eq] at h2
    exact he' (ha.emptied p h2)
  rcases hb.ne hbe hne with hq | hq
  · have := levelStep_pos e.cb (nextStop s.pstop) p (wBefore s e p) hbr hv hq
    rw [← wAfter_eq] at this
    have hl := ha.disp.length_le
    omega
  · have hl1 := (mono_levelStep e.cb (nextStop s.pstop) p p (wBefore s e p)).disp.length_le
    rw [← wAfter_eq] at hl1
    have hl := ha.disp.length_le
    omega

theorem iter_pos (s : St) (e : Env) (h : s.returned = false) (p : Prio)
    (hne : s.q.get p ≠ []) (he : p ∉ (iterate s e).2.emptied)
    (hrun : (iterate s e).1.returned = false) (hv : nextStop s.pstop ≤ p.toNat) :
    0 < ((iterate s e).2.dispOf p).length := by
  have hc := mono_chain p s e
  have he' : p ∉ (w1 s e).emptied := by
    rw [iterate_running s e h] at he
    exact fun hx => he (((hc.2.1.trans hc.2.2.1).trans hc.2.2.2).emptied p hx)
  rcases hc.1.ne he' hne with hq | hq
  · exact iter_pos_after_poll s e h p hq he hrun hv
  · have hd1 : (w1 s e).dispOf p = [] := (w1_frame s e).2.2
    have hd0 : (w0 s).dispOf p = [] := by simp [w0, Work.dispOf]
    rw [hd1, hd0] at hq; exact absurd hq (by simp)

/-- C: an eligible level with no deletions gets `min budget |queue|` items dispatched -/
theorem iter_count (s : St) (e : Env) (h : s.returned = false) (p : Prio)
    (hd : p ∉ (iterate s e).2.dels) (hrun : (iterate s e).1.returned = false)
    (hv : nextStop s.pstop ≤ p.toNat) :
    min (budget p) (s.q.get p).length ≤ ((iterate s e).2.dispOf p).length := by
  have hin := running_inside s e h hrun
  rw [log_dispOf s e h]
  rw [iterate_running s e h] at hd
  have hd' : p ∉ (wL s e).dels := hd
  have hb := mono_before s e p p
  have ha := mono_after s e p p
  have hbr : (wBefore s e p).ret = false := by
    cases p
    · exact hin.2.2.1
    · exact hin.2.2.2.1
    · exact hin.2.2.2.2
  have has : (wAfter s e p).stop = false := by
    cases hs : (wAfter s e p).stop
    · rfl
    · have := ha.stop hs; rw [hin.1] at this; exact absurd this (by simp)
  have had : p ∉ (wAfter s e p).dels := fun hx => hd' (ha.dels p hx)
  have hcnt := levelStep_count e.cb (nextStop s.pstop) p (wBefore s e p) hbr hv
    (by rw [← wAfter_eq]; exact has) (by rw [← wAfter_eq]; exact had)
  rw [← wAfter_eq] at hcnt
  have hbd : p ∉ (wBefore s e p).dels := fun hx =>
    had (by rw [wAfter_eq]; exact (mono_levelStep e.cb (nextStop s.pstop) p p _).dels p hx)
  have ht := (hb.tot hbd).length_le
  have hd0 : (w0 s).dispOf p = [] := by simp [w0, Work.dispOf]
  have hq0 : (w0 s).q.get p = s.q.get p := rfl
  rw [hd0, hq0] at ht
  simp only [List.nil_append, List.length_append] at ht
  have hl := ha.disp.length_le
  omega

/-- D: at most `budget p` items of level `p` are dispatched per iteration -/
theorem iter_le (s : St) (e : Env) (p : Prio) : ((iterate s e).2.dispOf p).length ≤ budget p := by
  by_cases h : s.returned = false
  · rw [log_dispOf s e h]
    have h1 : (w1 s e).dispOf p = [] := (w1_frame s e).2.2
    have hH := levelStep_le e.cb (nextStop s.pstop) p .high (w1 s e)
    have hM := levelStep_le e.cb (nextStop s.pstop) p .med (wH s e)
    have hL := levelStep_le e.cb (nextStop s.pstop) p .low (wM s e)
    change ((wH s e).dispOf p).length ≤ _ at hH
    change ((wM s e).dispOf p).length ≤ _ at hM
    change ((wL s e).dispOf p).length ≤ _ at hL
    rw [h1] at hH
    cases p <;> simp_all <;> omega
  · have h' : s.returned = true := by simpa using h
    rw [iterate_returned s e h']; simp [Log.dispOf]

/-- E: the levels visited in one iteration -/
theorem iter_visited (s : St) (e : Env) (h : s.returned = false) :
    (iterate s e).2.visited =
      (if nextStop s.pstop ≤ Prio.high.toNat then [Prio.high] else []) ++
      (if (wH s e).ret = false ∧ nextStop s.pstop ≤ Prio.med.toNat then [Prio.med] else []) ++
      (if (wM s e).ret = false ∧ nextStop s.pstop ≤ Prio.low.toNat then [Prio.low] else []) := by
  rw [iterate_running s e h]
  show (wL s e).visited = _
  have h1 := w1_frame (p := .low) s e
  have eH := levelStep_visited e.cb (nextStop s.pstop) .high (w1 s e)
  have eM := levelStep_visited e.cb (nextStop s.pstop) .med (wH s e)
  have eL := levelStep_visited e.cb (nextStop s.pstop) .low (wM s e)
  change (wH s e).visited = _ at eH
  change (wM s e).visited = _ at eM
  change (wL s e).visited = _ at eL
  rw [eL, eM, eH, h1.2.1, h1.1]
  simp

end QbVerif.Sched
