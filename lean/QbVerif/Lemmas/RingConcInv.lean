/-
C01 — the ownership invariant of the concurrent ring model (Model/RingConc.lean).

Ghost quantities: `TR c` = total words of the chunks consumed so far (absolute address of the
read pointer), `q` = the chunks that have taken effect and are not consumed, `TW = TR + total q`.
The writer only stores into absolute words `[TW, TR + W)`, the reader only into the header of
the oldest chunk (`TR`, `TR+1`); the two regions are disjoint modulo `W` (window lemmas of
Lemmas/RingMem.lean).  `WF` / `RF` say, per program counter, what the locals hold and how far
the operation in progress has got in memory.
-/
import QbVerif.Model.RingConc
import QbVerif.Model.RingSpec
import QbVerif.Lemmas.RingInv
import QbVerif.Lemmas.RingWrite

namespace QbVerif.RingConcLemmas
open QbVerif.Ring QbVerif.RingSpec QbVerif.RingLemmas QbVerif.RingConc

/-! ### memory predicates -/

/-- the payload of `d` lies behind the header at absolute word `A` -/
def Payload (m : Array Nat) (W A : Nat) (d : List Nat) : Prop :=
  (List.range d.length).map (fun j => cell m W (4 * (A + 2) + j)) = d

/-- the first `j` payload bytes are in place -/
def PayloadPrefix (m : Array Nat) (W A : Nat) (d : List Nat) (j : Nat) : Prop :=
  ∀ i, i < j → (hi : i < d.length) → cell m W (4 * (A + 2) + i) = d[i]

theorem payload_of_prefix {m W A d} (h : PayloadPrefix m W A d d.length) : Payload m W A d := by
  unfold Payload
  apply List.ext_getElem
  · simp
  · intro i h1 h2
    simp only [List.length_map, List.length_range] at h1
    simp only [List.getElem_map, List.getElem_range]
    exact h i h1 h1

theorem prefix_of_payload {m W A d} (h : Payload m W A d) (j : Nat) : PayloadPrefix m W A d j := by
  intro i _ hi
  unfold Payload at h
  have := congrArg (fun l => l[i]?) h
  simp only [List.getElem?_map, List.getElem?_range hi, Option.map_some] at this
  rw [List.getElem?_eq_getElem hi] at this
  exact Option.some.inj this

theorem PayloadPrefix_frame {m m' W A d j}
    (h : ∀ a, 4 * (A + 2) ≤ a → a < 4 * (A + 2) + d.length → cell m' W a = cell m W a)
    (hp : PayloadPrefix m W A d j) : PayloadPrefix m' W A d j := by
  intro i hij hi
  rw [h _ (by omega) (by omega)]
  exact hp i hij hi

theorem Payload_frame {m m' W A d}
    (h : ∀ a, 4 * (A + 2) ≤ a → a < 4 * (A + 2) + d.length → cell m' W a = cell m W a)
    (hp : Payload m W A d) : Payload m' W A d :=
  payload_of_prefix (PayloadPrefix_frame h (prefix_of_payload hp _))

/-- the oldest chunk: payload intact; the reader may already have cleared the size word
    (`clr`) and killed the magic word (`dead`) -/
def HeadStored (m : Array Nat) (W A : Nat) (d : List Nat) (clr dead : Bool) : Prop :=
  word m W A = (if clr then 0 else d.length) ∧ word m W (A + 1) = (if dead then DEAD else MAGIC) ∧
    Payload m W A d

theorem stored_cons_iff {m W A d ds} :
    Stored m W A (d :: ds) ↔ HeadStored m W A d false false ∧ Stored m W (A + cw d.length) ds := by
  unfold HeadStored Payload
  simp only [Stored, Bool.false_eq_true, if_false]
  constructor
  · rintro ⟨a, b, c, e⟩; exact ⟨⟨a, b, c⟩, e⟩
  · rintro ⟨⟨a, b, c⟩, e⟩; exact ⟨a, b, c, e⟩

theorem HeadStored_frame {m m' W A d clr dead} (hW : 0 < W)
    (h : ∀ a, 4 * A ≤ a → a < 4 * (A + cw d.length) → cell m' W a = cell m W a)
    (hs : HeadStored m W A d clr dead) : HeadStored m' W A d clr dead := by
  obtain ⟨h1, h2, h3⟩ := hs
  have hlo := cw_lo d.length
  refine ⟨?_, ?_, ?_⟩
  · rw [← h1]; exact word_congr hW (fun a ha hb => h a (by omega) (by omega))
  · rw [← h2]; exact word_congr hW (fun a ha hb => h a (by omega) (by omega))
  · exact Payload_frame (fun a ha hb => h a (by omega) (by omega)) h3

/-- the unread chunks as the reader's progress leaves them -/
def QStored (m : Array Nat) (W A : Nat) (clr dead : Bool) : List (List Nat) → Prop
  | [] => True
  | d :: ds => HeadStored m W A d clr dead ∧ Stored m W (A + cw d.length) ds

theorem QStored_frame {m m' W A clr dead q} (hW : 0 < W)
    (h : ∀ a, 4 * A ≤ a → a < 4 * (A + total q) → cell m' W a = cell m W a)
    (hs : QStored m W A clr dead q) : QStored m' W A clr dead q := by
  cases q with
  | nil => trivial
  | cons d ds =>
    rw [total_cons] at h
    exact ⟨HeadStored_frame hW (fun a ha hb => h a ha (by omega)) hs.1,
      Stored_frame hW (fun a ha hb => h a (by omega) (by omega)) hs.2⟩

theorem QStored_of_stored {m W A q} (h : Stored m W A q) : QStored m W A false false q := by
  cases q with
  | nil => trivial
  | cons d ds => exact stored_cons_iff.mp h

theorem stored_of_QStored {m W A q} (h : QStored m W A false false q) : Stored m W A q := by
  cases q with
  | nil => trivial
  | cons d ds => exact stored_cons_iff.mpr h

/-! ### words modulo the ring -/

theorem word_mod (m : Array Nat) (W A : Nat) : word m W (A % W) = word m W A := by
  unfold word; rw [Nat.mod_mod]

/-- a word store changes no word at a different residue -/
theorem word_setWord_res_ne {m : Array Nat} {W A B v : Nat} (hW : 0 < W) (h : A % W ≠ B % W) :
    word (setWord m W B v) W A = word m W A := by
  have ha := Nat.mod_lt A hW
  have hb := Nat.mod_lt B hW
  have e1 : setWord m W B v = setWord m W (B % W) v := by unfold setWord; rw [Nat.mod_mod]
  rw [e1, ← word_mod, ← word_mod m]
  exact word_setWord_ne hW (by unfold Apart; omega)

/-- storing a value other than MAGIC keeps any word that is not MAGIC that way -/
theorem word_ne_magic_setWord {m : Array Nat} {W A B v : Nat} (hs : m.size = 4 * W) (hW : 0 < W)
    (hv : v < 2 ^ 32) (hvm : v ≠ MAGIC) (h : word m W A ≠ MAGIC) : word (setWord m W B v) W A ≠ MAGIC := by
  by_cases e : A % W = B % W
  · have e1 : word (setWord m W B v) W A = word (setWord m W B v) W B := by unfold word; rw [e]
    rw [e1, word_setWord_eq hs hW, Nat.mod_eq_of_lt hv]; exact hvm
  · rw [word_setWord_res_ne hW e]; exact h

theorem setMagic_abs (r : Rb) (A v : Nat) :
    r.setMagic (A % r.W) v = { r with mem := setWord r.mem r.W (A + 1) v } := by
  unfold Rb.setMagic setWord; rw [Nat.mod_add_mod]

theorem wr32_abs (m : Array Nat) (W A v : Nat) : wr32 m (A % W) v = setWord m W A v := rfl

/-! ### ghost quantities and per-pc flags -/

/-- absolute word address of the read pointer -/
def TR (c : Conf) : Nat := total c.readsOk

def curLen (c : Conf) : Nat := match c.wprog with | op :: _ => op.data.length | [] => 0

/-- words by which `write_pt` is ahead of the chunks that have taken effect -/
def wAdv (c : Conf) : Nat :=
  match c.wpc with
  | .cmMg _ => cw (curLen c)
  | .cmPost => if c.rb.sem.isSome then cw (curLen c) else 0
  | _ => 0

/-- MAGIC is stored but (semaphore mode) the write has not taken effect yet -/
def pend (c : Conf) : Bool :=
  match c.wpc with
  | .cmPost => c.rb.sem.isSome
  | _ => false

def rclr : RPc → Bool
  | .rcDead _ _ => true | .rcSetRp _ => true | _ => false

def rdead : RPc → Bool
  | .rcSetRp _ => true | _ => false

/-- the reader holds a semaphore token (semaphore mode) -/
def rtok : RPc → Nat
  | .idle => 0 | _ => 1

/-- room for a chunk of `k` words at `TW` -/
def Fits (W TR TW k : Nat) : Prop := (TR = TW ∧ k + 1 ≤ W) ∨ TW + k + 2 ≤ TR + W

/-- writer: locals and progress of the operation `op` whose chunk goes to absolute word `TW` -/
def WF (r : Rb) (TR TW : Nat) (op : WOp) : WPc → Prop
  | .idle => True
  | .sfRd ws => ws = TW % r.W
  | .sfCmp ws rs refuse => ws = TW % r.W ∧ (∃ TRs, TRs ≤ TR ∧ rs = TRs % r.W ∧ TW < TRs + r.W) ∧
      refuse = decide (freeSeen r ws rs < op.data.length + MARGIN)
  | .alWp => Fits r.W TR TW (cw op.data.length)
  | .alSz wp => wp = TW % r.W ∧ Fits r.W TR TW (cw op.data.length)
  | .alMg wp => wp = TW % r.W ∧ Fits r.W TR TW (cw op.data.length)
  | .copy wp j => wp = TW % r.W ∧ Fits r.W TR TW (cw op.data.length) ∧ j ≤ op.data.length ∧
      (op.fine = false → j = 0) ∧ PayloadPrefix r.mem r.W TW op.data j
  | .cmWp => Fits r.W TR TW (cw op.data.length) ∧ Payload r.mem r.W TW op.data
  | .cmSz old => old = TW % r.W ∧ Fits r.W TR TW (cw op.data.length) ∧ Payload r.mem r.W TW op.data
  | .cmStep old => old = TW % r.W ∧ Fits r.W TR TW (cw op.data.length) ∧ Payload r.mem r.W TW op.data ∧
      word r.mem r.W TW = op.data.length
  | .cmNext old new => old = TW % r.W ∧ new = (TW + cw op.data.length) % r.W ∧
      Fits r.W TR TW (cw op.data.length) ∧ Payload r.mem r.W TW op.data ∧ word r.mem r.W TW = op.data.length
  | .cmSetWp old new => old = TW % r.W ∧ new = (TW + cw op.data.length) % r.W ∧
      Fits r.W TR TW (cw op.data.length) ∧ Payload r.mem r.W TW op.data ∧ word r.mem r.W TW = op.data.length ∧
      word r.mem r.W (TW + cw op.data.length + 1) ≠ MAGIC
  | .cmMg old => old = TW % r.W ∧
      Fits r.W TR TW (cw op.data.length) ∧ Payload r.mem r.W TW op.data ∧ word r.mem r.W TW = op.data.length ∧
      word r.mem r.W (TW + cw op.data.length + 1) ≠ MAGIC
  | .cmPost => r.sem.isSome = true →
      (Fits r.W TR TW (cw op.data.length) ∧ Payload r.mem r.W TW op.data ∧ word r.mem r.W TW = op.data.length ∧
       word r.mem r.W (TW + 1) = MAGIC ∧ word r.mem r.W (TW + cw op.data.length + 1) ≠ MAGIC)

def isRead : ROp → Prop | .read _ => True | .pr _ => False
def isPr : ROp → Prop | .read _ => False | .pr _ => True

/-- reclaim phase: the oldest chunk is `d`, already copied out -/
def RC (q : List (List Nat)) (rbuf : List Nat) (op : ROp) (d : List Nat) : Prop :=
  (∃ ds, q = d :: ds) ∧ rbuf = d ∧ (∀ cap, op = .read cap → d.length ≤ cap)

/-- reader: locals and progress -/
def RF (W TR : Nat) (q : List (List Nat)) (sem : Option Nat) (rbuf : List Nat) (op : ROp) : RPc → Prop
  | .idle => True
  | .rdRp => isRead op
  | .rdMg p => isRead op ∧ p = TR % W
  | .rdBad => False
  | .rdSz p => isRead op ∧ p = TR % W ∧ q ≠ []
  | .rdShort => ∃ cap d ds, op = .read cap ∧ q = d :: ds ∧ cap < d.length
  | .rdCpy p sz => ∃ cap d ds, op = .read cap ∧ q = d :: ds ∧ p = TR % W ∧ sz = d.length ∧ d.length ≤ cap
  | .pkRp => isPr op
  | .pkMg p => isPr op ∧ p = TR % W
  | .pkBad => isPr op ∧ sem = none
  | .pkSz p => isPr op ∧ p = TR % W ∧ q ≠ []
  | .rcopy p sz j => ∃ f d ds, op = .pr f ∧ q = d :: ds ∧ p = TR % W ∧ sz = d.length ∧ j ≤ sz ∧
      rbuf = d.take j ∧ (f = false → j = 0)
  | .rcRp => ∃ d, RC q rbuf op d
  | .rcMg old => ∃ d, RC q rbuf op d ∧ old = TR % W
  | .rcSz old => ∃ d, RC q rbuf op d ∧ old = TR % W
  | .rcStep old => ∃ d, RC q rbuf op d ∧ old = TR % W
  | .rcClr old new => ∃ d, RC q rbuf op d ∧ old = TR % W ∧ new = (TR + cw d.length) % W
  | .rcDead old new => ∃ d, RC q rbuf op d ∧ old = TR % W ∧ new = (TR + cw d.length) % W
  | .rcSetRp new => ∃ d, RC q rbuf op d ∧ new = (TR + cw d.length) % W

def WFacts (c : Conf) (q : List (List Nat)) : Prop :=
  match c.wprog with
  | [] => c.wpc = .idle
  | op :: _ => WF c.rb (TR c) (TR c + total q) op c.wpc

def RFacts (c : Conf) (q : List (List Nat)) : Prop :=
  match c.rprog with
  | [] => c.rpc = .idle
  | op :: _ => RF c.rb.W (TR c) q c.rb.sem c.rbuf op c.rpc

/-- **The invariant.**  `q` = chunks that have taken effect and are not yet consumed. -/
structure CInv (c : Conf) (q : List (List Nat)) : Prop where
  size : c.rb.mem.size = 4 * c.rb.W
  wge : 4 ≤ c.rb.W
  wlt : 4 * c.rb.W < 2 ^ 31
  hq : c.writesOk = c.readsOk ++ q
  hrp : c.rb.rp = TR c % c.rb.W
  hwp : c.rb.wp = (TR c + total q + wAdv c) % c.rb.W
  used : total q + 1 ≤ c.rb.W
  stored : QStored c.rb.mem c.rb.W (TR c) (rclr c.rpc) (rdead c.rpc) q
  /-- the magic word a reader of the emptied ring will look at is not MAGIC -/
  next : pend c = false → word c.rb.mem c.rb.W (TR c + total q + 1) ≠ MAGIC
  /-- semaphore value + token held by the reader = number of unconsumed chunks -/
  semc : ∀ n, c.rb.sem = some n → n + rtok c.rpc = q.length
  wf : WFacts c q
  rf : RFacts c q

theorem CInv.wpos {c q} (h : CInv c q) : 0 < c.rb.W := by have := h.wge; omega

end QbVerif.RingConcLemmas
