/-
Skiplist, single-level fragment: `skiplist_put` (insert and replace) preserves `Inv` and produces
the dictionary's notification.
-/
import QbVerif.Lemmas.SlChain

namespace QbVerif.Skiplist
open QbVerif.Map
set_option linter.unusedSimpArgs false

theorem Inv.xok_of_mem {s ids es g} (h : Inv s ids es g) {i : NodeId} (hi : i ∈ s.header :: ids) : XOk s i := by
  rcases List.mem_cons.1 hi with rfl | hi
  · exact h.hxok
  · obtain ⟨e, _, hn⟩ := h.chain.key_of_mem hi
    exact hn.xok

theorem notify_ok {s : SL} {i : NodeId} {n hn : Node} (h1 : s.nodes i = some n) (h2 : s.nodes s.header = some hn)
    (ev : Nat) (key : Key) (old new : Val) :
    s.notify i ev key old new = .ok (dispatch n.notifs hn.notifs ev key old new) := by
  simp [SL.notify, SL.node, h1, h2, bind, Except.bind]

/-- the explicit state after inserting behind `p` -/
def putState (s : SL) (p : NodeId) (pa : Nat → Option NodeId) (k : Key) (v : Val) : SL :=
  { s with lv := 1,
           nodes := upd s.nodes s.nextNode (some ⟨some k, v, 1, 1, s.nextFwd, []⟩),
           fwds := upd (upd (upd s.fwds s.nextFwd (some fun _ => none)) s.nextFwd
             (some (upd (fun _ => none) 0 (pa 0)))) (fwdOf s p) (some (upd pa 0 (some s.nextNode))),
           nextNode := s.nextNode + 1, nextFwd := s.nextFwd + 1, length := s.length + 1 }

theorem putNew_eq {s ids es g} (h : Inv s ids es g) (u : Nat → NodeId) (k : Key) (v : Val) {p : NodeId}
    (hp : p ∈ s.header :: ids) (hu : u 0 = p) (h0 : s.lv = 0 → p = s.header) {pn : Node} {pa}
    (hpn : s.nodes p = some pn) (hpa : s.fwds pn.fwd = some pa) :
    s.putNew u k v 0 = .ok (putState s p pa k v, dispatch [] g EV_INSERTED k 0 v) := by
  obtain ⟨hf, ha, hv, hh1, hh2⟩ := h.hdr
  have hpN : p ≠ s.nextNode := Nat.ne_of_lt (h.freshN p hp)
  have hhN : s.header ≠ s.nextNode := Nat.ne_of_lt (h.freshN _ (by simp))
  have hpF : pn.fwd ≠ s.nextFwd := by
    have := h.freshF p hp
    simp only [fwdOf, hpn] at this
    exact Nat.ne_of_lt this
  have hfp : fwdOf s p = pn.fwd := by simp [fwdOf, hpn]
  have hlv : s.lv = 0 ∨ s.lv = 1 := by have := h.lv.1; omega
  rcases hlv with hl | hl
  · have := h0 hl
    subst this
    have hpe : pn = ⟨none, hv, LEVEL_MAX + 1, 1, hf, g⟩ := by rw [hh1] at hpn; exact (Option.some.inj hpn).symm
    subst hpe
    simp [SL.putNew, hl, SL.nodeNew, SL.notify, SL.node, SL.linkLevels, SL.fwdAt, SL.setFwdAt, SL.arr, raiseUpdate,
      bind, Except.bind, upd, hpN, hpF, hpn, hpa, hh1, putState, hfp, hhN, LEVEL_MAX, Gen.SL_LEVEL_MAX, dispatch]
  · simp [SL.putNew, hl, SL.nodeNew, SL.notify, SL.node, SL.linkLevels, SL.fwdAt, SL.setFwdAt, SL.arr, raiseUpdate,
      bind, Except.bind, upd, hpN, hpF, hpn, hpa, hh1, putState, hfp, hhN, LEVEL_MAX, Gen.SL_LEVEL_MAX, dispatch, hu]
    done

theorem insertEntry_length_absent (e : Entry) : ∀ {es : List Entry}, (∀ x ∈ es, x.key ≠ e.key) →
    (insertEntry e es).length = es.length + 1
  | [], _ => rfl
  | x :: xs, h => by
    rw [insertEntry_walk]
    have hx : x.key ≠ e.key := h x (by simp)
    split
    · simp [insertEntry_length_absent e fun y hy => h y (List.mem_cons_of_mem _ hy)]
    · simp [hx]

theorem findEntry_none {es : List Entry} {k : Key} (h : findEntry es k = none) : ∀ e ∈ es, e.key ≠ k := by
  intro e he
  have := List.find?_eq_none.1 h e he
  simpa using this

theorem mem_hdr_insIds {s : SL} {new : NodeId} {k : Key} {ids : List NodeId} {es : List Entry} (hl : ids.length = es.length)
    {j : NodeId} : j ∈ s.header :: insIds new k ids es ↔ j = new ∨ j ∈ s.header :: ids := by
  have := (insIds_perm (new := new) (k := k) hl).mem_iff (a := j)
  simp only [List.mem_cons, this]
  constructor
  · rintro (h | h | h) <;> simp [h]
  · rintro (h | h | h) <;> simp [h]

theorem put_new {s ids es g} (h : Inv s ids es g) (k : Key) (v : Val) (hk : findEntry es k = none) :
    ∃ s', s.put k v 0 = .ok (s', dispatch [] g EV_INSERTED k 0 v) ∧
      Inv s' (insIds s.nextNode k ids es) (insertEntry ⟨k, v, []⟩ es) g := by
  obtain ⟨u', hu', hs⟩ := search_top h k true
  have hlen := h.chain.length_eq
  have hw := findEntry_walk k hlen h.sorted
  rw [hk] at hw
  have hres : searchRes k true s.header ids es u' = .inr (predOf k s.header ids es, u') := by
    unfold searchRes
    cases hso : succOf k ids es with
    | none => rfl
    | some ie =>
      obtain ⟨i, e⟩ := ie
      simp only [hso] at hw
      have : e.key ≠ k := by
        intro he; simp [he] at hw
      simp [this]
  have hpm := predOf_mem k s.header ids es
  obtain ⟨pn, pa, hpn, hpa⟩ := h.xok_of_mem hpm
  have h0 : s.lv = 0 → predOf k s.header ids es = s.header := by
    intro hl
    have he : es = [] := by
      cases es with
      | nil => rfl
      | cons e es => have := h.lv.2 (by simp); omega
    subst he
    cases ids <;> simp [predOf]
  refine ⟨putState s (predOf k s.header ids es) pa k v, ?_, ?_⟩
  · simp only [SL.put, hs, hres, bind, Except.bind]
    exact putNew_eq h u' k v hpm hu' h0 hpn hpa
  · generalize hpdef : predOf k s.header ids es = p at *
    obtain ⟨hf, ha, hv, hh1, hh2⟩ := h.hdr
    have hfp : fwdOf s p = pn.fwd := by simp [fwdOf, hpn]
    have hpF : pn.fwd ≠ s.nextFwd := by
      have := h.freshF p hpm; rw [hfp] at this; exact Nat.ne_of_lt this
    have hnodes : ∀ j, j ≠ s.nextNode → (putState s p pa k v).nodes j = s.nodes j := by
      intro j hj; simp [putState, upd, hj]
    have hfw : ∀ j ∈ s.header :: ids, fwdOf (putState s p pa k v) j = fwdOf s j := by
      intro j hj
      simp only [fwdOf, hnodes j (Nat.ne_of_lt (h.freshN j hj))]
    have hfnew : fwdOf (putState s p pa k v) s.nextNode = s.nextFwd := by simp [fwdOf, putState, upd]
    have hnewN : ∀ j ∈ s.header :: ids, j ≠ s.nextNode := fun j hj => Nat.ne_of_lt (h.freshN j hj)
    have hnewF : ∀ j ∈ s.header :: ids, fwdOf s j ≠ s.nextFwd := fun j hj => Nat.ne_of_lt (h.freshF j hj)
    have L : Linked s (putState s p pa k v) p s.nextNode s.nextFwd ⟨k, v, []⟩ := by
      refine ⟨hnodes, by simp [putState, upd], ?_, ?_, ?_, by rw [hfp]; exact fun h => hpF h.symm⟩
      · intro f h1 h2; simp [putState, upd, h1, h2]
      · refine ⟨upd (fun _ => none) 0 (pa 0), ?_, ?_⟩
        · simp [putState, upd, hfp, hpF.symm]
        · simp [upd, next0, hpn, hpa]
      · exact ⟨upd pa 0 (some s.nextNode), by simp [putState, upd], by simp [upd]⟩
    have hmem := @mem_hdr_insIds s s.nextNode k ids es hlen
    refine ⟨?_, ?_, ?_, ?_, ?_, ?_, insertEntry_sorted _ h.sorted, ⟨by simp [putState], fun _ => by simp [putState]⟩,
      ?_, by simp [putState, h.iters], by simp [putState, h.ok]⟩
    · refine ⟨hf, ?_⟩
      have hn : (putState s p pa k v).nodes s.header = _ := (hnodes _ (hnewN _ (by simp))).trans hh1
      by_cases hc : hf = fwdOf s p
      · exact ⟨upd pa 0 (some s.nextNode), hv, hn, by simp [putState, upd, hc]⟩
      · have hc2 : hf ≠ s.nextFwd := by
          have := hnewF s.header (by simp); simpa [fwdOf, hh1] using this
        exact ⟨ha, hv, hn, by simp [putState, upd, hc, hc2, hh2]⟩
    · have L' : Linked s (putState s p pa k v) (predOf k s.header ids es) s.nextNode s.nextFwd ⟨k, v, []⟩ := by
        rw [hpdef]; exact L
      exact chain_insert (e' := ⟨k, v, []⟩) h.chain h.hxok L' (findEntry_none hk) h.inj
        (fun j hj => ⟨hnewN j hj, hnewF j hj⟩) h.nodup
    · have hp : (s.header :: insIds s.nextNode k ids es).Perm (s.nextNode :: s.header :: ids) :=
        ((insIds_perm hlen).cons s.header).trans (List.Perm.swap _ _ _)
      show (s.header :: insIds s.nextNode k ids es).Nodup
      rw [hp.nodup_iff, List.nodup_cons]
      exact ⟨fun hm => hnewN _ hm rfl, h.nodup⟩
    · intro i hi j hj hij
      show i = j
      have hi' := hmem.1 hi
      have hj' := hmem.1 hj
      rcases hi' with rfl | hi' <;> rcases hj' with rfl | hj'
      · rfl
      · rw [hfnew, hfw j hj'] at hij; exact absurd hij.symm (hnewF j hj')
      · rw [hfnew, hfw i hi'] at hij; exact absurd hij (hnewF i hi')
      · rw [hfw i hi', hfw j hj'] at hij; exact h.inj i hi' j hj' hij
    · intro i hi
      show i < s.nextNode + 1
      rcases hmem.1 hi with rfl | hi'
      · exact Nat.lt_succ_self _
      · exact Nat.lt_succ_of_lt (h.freshN i hi')
    · intro i hi
      show fwdOf _ i < s.nextFwd + 1
      rcases hmem.1 hi with rfl | hi'
      · rw [hfnew]; exact Nat.lt_succ_self _
      · rw [hfw i hi']; exact Nat.lt_succ_of_lt (h.freshF i hi')
    · show s.length + 1 = _
      rw [insertEntry_length_absent _ (findEntry_none hk), h.len]

end QbVerif.Skiplist
