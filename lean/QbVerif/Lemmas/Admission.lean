import QbVerif.Model.Admission

/-! Generic invariant machinery for `Model/Admission.lean` (C05): a predicate on ledger entries that
every call of a syntactic class preserves holds at EVERY moment of EVERY execution of a program all
of whose calls are in that class, whatever call is made to fail. -/
namespace QbVerif.Admission

/-- every entry of the ledger satisfies `Q` -/
def LedAll (Q : Path → Ent → Prop) (l : Ledger) : Prop := ∀ x ∈ l, Q x.1 x.2

/-- every recorded moment satisfies `Q`, every recorded event satisfies `R` -/
def LogAll (Q : Path → Ent → Prop) (R : Ev → Prop) (log : List Item) : Prop :=
  ∀ it ∈ log, match it with
    | .call _ _ l => LedAll Q l
    | .ev e => R e
    | .respond _ => True

/-- all calls of the program are in class `P`, all its events satisfy `R` -/
def AllP (P : Op → Prop) (R : Ev → Prop) : Prog → Prop
  | .halt => True
  | .op o _ ok err => P o ∧ AllP P R ok ∧ AllP P R err
  | .ign o k => P o ∧ AllP P R k
  | .note e k => R e ∧ AllP P R k
  | .setRes _ k => AllP P R k
  | .respond k => AllP P R k

theorem LedAll_nil (Q : Path → Ent → Prop) : LedAll Q [] := by
  intro x hx; cases hx

theorem LedAll_erase {Q : Path → Ent → Prop} {l : Ledger} (p : Path) (h : LedAll Q l) :
    LedAll Q (l.erase p) := by
  intro x hx
  exact h x (List.mem_filter.mp hx).1

theorem LedAll_add {Q : Path → Ent → Prop} {l : Ledger} {p : Path} {e : Ent} (hq : Q p e) (h : LedAll Q l) :
    LedAll Q (l.add p e) := by
  intro x hx
  rcases List.mem_cons.mp hx with rfl | hx
  · exact hq
  · exact LedAll_erase p h x hx

theorem LedAll_modify {Q : Path → Ent → Prop} {l : Ledger} {p : Path} {f : Ent → Ent}
    (hf : ∀ e, Q p e → Q p (f e)) (h : LedAll Q l) : LedAll Q (l.modify p f) := by
  intro x hx
  rcases List.mem_map.mp hx with ⟨y, hy, rfl⟩
  by_cases hp : y.1 = p
  · simp only [hp, if_true]
    exact hf _ (hp ▸ h y hy)
  · simp only [hp, if_false]
    exact h y hy

/-- the call keeps `Q` on every entry, whatever its outcome -/
def OpSafe (env : Env) (Q : Path → Ent → Prop) (o : Op) : Prop :=
  ∀ l l', LedAll Q l → applyOp env o l = .ok l' → LedAll Q l'

theorem doCall_inv {env : Env} {Q : Path → Ent → Prop} {R : Ev → Prop} {o : Op} {s : St}
    (ho : OpSafe env Q o) (hl : LedAll Q s.led) (hlog : LogAll Q R s.log) :
    LedAll Q (doCall env o s).1.led ∧ LogAll Q R (doCall env o s).1.log := by
  unfold doCall
  by_cases hf : env.failAt = s.n + 1
  · simp only [hf, if_true]
    refine ⟨hl, ?_⟩
    intro it hit
    rcases List.mem_cons.mp hit with rfl | hit
    · exact hl
    · exact hlog it hit
  · simp only [hf, if_false]
    cases h : applyOp env o s.led with
    | ok l' =>
      have hl' := ho _ _ hl h
      refine ⟨hl', ?_⟩
      intro it hit
      rcases List.mem_cons.mp hit with rfl | hit
      · exact hl'
      · exact hlog it hit
    | error e =>
      refine ⟨hl, ?_⟩
      intro it hit
      rcases List.mem_cons.mp hit with rfl | hit
      · exact hl
      · exact hlog it hit

theorem LogAll_cons_ev {Q : Path → Ent → Prop} {R : Ev → Prop} {log : List Item} {e : Ev}
    (he : R e) (h : LogAll Q R log) : LogAll Q R (.ev e :: log) := by
  intro it hit
  rcases List.mem_cons.mp hit with rfl | hit
  · exact he
  · exact h it hit

theorem LogAll_cons_respond {Q : Path → Ent → Prop} {R : Ev → Prop} {log : List Item} {r : Int}
    (h : LogAll Q R log) : LogAll Q R (.respond r :: log) := by
  intro it hit
  rcases List.mem_cons.mp hit with rfl | hit
  · trivial
  · exact h it hit

/-- Main lemma: the invariant holds in the final state and at every recorded moment. -/
theorem exec_inv {env : Env} {P : Op → Prop} {Q : Path → Ent → Prop} {R : Ev → Prop}
    (hP : ∀ o, P o → OpSafe env Q o) :
    ∀ (prog : Prog) (s : St), AllP P R prog → LedAll Q s.led → LogAll Q R s.log →
      LedAll Q (exec env prog s).led ∧ LogAll Q R (exec env prog s).log := by
  intro prog
  induction prog with
  | halt => intro s _ hl hlog; exact ⟨hl, hlog⟩
  | op o u ok err ihok iherr =>
    intro s hall hl hlog
    obtain ⟨hpo, hok, herr⟩ := hall
    have hd := doCall_inv (R := R) (hP o hpo) hl hlog
    unfold exec
    cases hdc : doCall env o s with
    | mk s' r =>
      rw [hdc] at hd
      cases r with
      | none => exact ihok s' hok hd.1 hd.2
      | some e =>
        cases u with
        | checked => exact iherr _ herr hd.1 hd.2
        | tolEperm =>
          simp only
          split
          · exact ihok s' hok hd.1 hd.2
          · exact iherr _ herr hd.1 hd.2
        | branch => exact iherr s' herr hd.1 hd.2
  | ign o k ih =>
    intro s hall hl hlog
    have hd := doCall_inv (R := R) (hP o hall.1) hl hlog
    unfold exec
    exact ih _ hall.2 hd.1 hd.2
  | note e k ih =>
    intro s hall hl hlog
    unfold exec
    exact ih _ hall.2 hl (LogAll_cons_ev hall.1 hlog)
  | setRes r k ih =>
    intro s hall hl hlog
    unfold exec
    exact ih _ hall hl hlog
  | respond k ih =>
    intro s hall hl hlog
    unfold exec
    exact ih _ hall hl (LogAll_cons_respond hlog)

/-! ### `AllP` of the building blocks -/
section blocks
variable {P : Op → Prop} {R : Ev → Prop}

theorem allP_mmapFileOpen {p : Path} {ok fail : Prog}
    (h1 : P (.creat p 0o600)) (h2 : P (.ftruncate p)) (h3 : P (.fallocate p)) (h4 : P (.unlink p))
    (hok : AllP P R ok) (hfail : AllP P R fail) : AllP P R (mmapFileOpen p ok fail) :=
  ⟨h1, ⟨h2, ⟨h3, hok, h4, hfail⟩, h4, hfail⟩, hfail⟩

theorem allP_rbClose {r : Ring} {k : Prog}
    (h1 : P .opendir) (h2 : P (.unlink (.data r))) (h3 : P (.unlink (.hdr r)))
    (hk : AllP P R k) : AllP P R (rbClose r k) :=
  ⟨h1, ⟨h2, h3, hk⟩, hk⟩

end blocks

/-! ### permission-bit inclusion -/

theorem sub_refl (a : Nat) : sub a a := Nat.and_self a

theorem sub_and_left {m am : Nat} (k : Nat) (h : sub m am) : sub (m &&& k) am := by
  unfold sub at *
  rw [Nat.and_assoc, Nat.and_comm k am, ← Nat.and_assoc, h]

theorem sub_trans {a b c : Nat} (h1 : sub a b) (h2 : sub b c) : sub a c := by
  unfold sub at *
  rw [← h1, Nat.and_assoc, h2]

end QbVerif.Admission
