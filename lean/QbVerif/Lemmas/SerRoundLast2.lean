/-
Round trip (C14), a format that ENDS in the extended-information marker QB_XC, part 2:
`xcDropLast` = the items as the encoder stores them (the last character of the literal text is
dropped), the encoder's state after `my_strlcpy` + `xcPatch` (`serInit_last`), and the whole
encoder on such a format (`serialize_items_last`), through the merge simulation of part 1.
-/
import QbVerif.Lemmas.SerRoundLast

namespace QbVerif.Ser
open QbVerif.Gen

/-! ### list facts -/

/-- the first `x` of `l` is its last element: `l = F ++ [x]` with no `x` in `F` -/
theorem last_marker_split (l : Bytes) (x : UInt8) (h : l.findIdx (· = x) + 1 = l.length) :
    ∃ F, l = F ++ [x] ∧ x ∉ F := by
  induction l with
  | nil => simp at h
  | cons a l ih =>
    by_cases ha : a = x
    · subst ha
      simp only [List.findIdx_cons, decide_true, cond_true, List.length_cons] at h
      have : l = [] := List.eq_nil_of_length_eq_zero (by omega)
      exact ⟨[], by simp [this], by simp⟩
    · simp only [List.findIdx_cons, ha, decide_false, cond_false, List.length_cons] at h
      obtain ⟨F, e, hF⟩ := ih (by omega)
      exact ⟨a :: F, by rw [e]; rfl, by
        intro hm
        rcases List.mem_cons.mp hm with h' | h'
        · exact ha h'.symm
        · exact hF h'⟩

theorem findIdx_last (F : Bytes) (x : UInt8) (h : x ∉ F) : (F ++ [x]).findIdx (· = x) = F.length := by
  rw [List.findIdx_append, findIdx_not_mem F x h, if_neg (Nat.lt_irrefl _)]
  simp [List.findIdx_cons]

/-! ### the items as stored -/

/-- the items as the encoder stores a format that ends in the marker: the last character of the
    literal text (the marker) is dropped -/
def xcDropLast : List Item → List Item
  | [] => []
  | i :: r =>
    if fmtOf r = [] then
      (match i with
       | .lit bs => .lit bs.dropLast :: r
       | _ => i :: r)
    else i :: xcDropLast r

theorem fmtOf_cons (i : Item) (r : List Item) : fmtOf (i :: r) = i.chars ++ fmtOf r := by simp [fmtOf]

/-- items without format characters are empty literals: no arguments, no text -/
theorem fmtOf_nil (render : Render) (r : List Item) (h : fmtOf r = []) :
    encOf r = [] ∧ argsOf r = [] ∧ printfSpec render r = [] := by
  induction r with
  | nil => exact ⟨rfl, rfl, rfl⟩
  | cons i r ih =>
    rw [fmtOf_cons] at h
    obtain ⟨h1, h2⟩ := List.append_eq_nil_iff.mp h
    obtain ⟨g1, g2, g3⟩ := ih h2
    cases i with
    | lit bs =>
      simp only [Item.chars] at h1
      subst h1
      simp only [encOf, argsOf, printfSpec, List.flatMap_cons] at g1 g2 g3 ⊢
      simp [g1, g2, g3, Item.enc, Item.args]
    | pct => simp [Item.chars] at h1
    | dir d w p v => simp [Item.chars, Dir.chars] at h1

theorem fmtOf_xcDropLast (items : List Item) (hwf : WellTyped items) : ∀ (F : Bytes),
    fmtOf items = F ++ [QB_XC.toUInt8] → fmtOf (xcDropLast items) = F := by
  induction items with
  | nil => intro F h; simp [fmtOf] at h
  | cons i r ih =>
    intro F h
    have hwi := hwf i (by simp)
    have hwr : WellTyped r := fun j hj => hwf j (by simp [hj])
    rw [fmtOf_cons] at h
    by_cases hr : fmtOf r = []
    · rw [hr, List.append_nil] at h
      cases i with
      | lit bs =>
        simp only [Item.chars] at h
        simp only [xcDropLast, hr, if_true, fmtOf_cons, Item.chars, List.append_nil, h, List.dropLast_concat]
      | pct =>
        exfalso
        have : QB_XC.toUInt8 ∈ ([0x25, 0x25] : Bytes) := by
          simp only [Item.chars] at h
          rw [h]; simp
        revert this; decide
      | dir d w p v =>
        exfalso
        simp only [Item.chars] at h
        exact (cls_ok _ (dir_chars_cls d w p v hwi _ (by rw [h]; simp))).2 rfl
    · have hsplit := (List.dropLast_concat_getLast hr).symm
      rw [hsplit, ← List.append_assoc] at h
      obtain ⟨h1, h2⟩ := List.append_inj' h rfl
      have hG : fmtOf r = (fmtOf r).dropLast ++ [QB_XC.toUInt8] := by
        rw [← List.singleton_inj.mp h2]; exact hsplit
      simp only [xcDropLast, hr, if_false, fmtOf_cons]
      rw [ih hwr _ hG, h1]

theorem encOf_xcDropLast (items : List Item) : encOf (xcDropLast items) = encOf items := by
  unfold encOf
  induction items with
  | nil => rfl
  | cons i r ih =>
    by_cases hr : fmtOf r = []
    · cases i <;> simp [xcDropLast, hr, Item.enc]
    · simp [xcDropLast, hr, ih]

theorem dir_mem_xcDropLast (items : List Item) (d : Dir) (w p : Int) (v : Arg)
    (h : Item.dir d w p v ∈ xcDropLast items) : Item.dir d w p v ∈ items := by
  induction items with
  | nil => exact h
  | cons i r ih =>
    by_cases hr : fmtOf r = []
    · cases i with
      | lit bs =>
        simp only [xcDropLast, hr, if_true, List.mem_cons, reduceCtorEq, false_or] at h
        exact List.mem_cons_of_mem _ h
      | pct => simpa [xcDropLast, hr] using h
      | dir d' w' p' v' => simpa [xcDropLast, hr] using h
    · simp only [xcDropLast, hr, if_false, List.mem_cons] at h ⊢
      exact h.elim Or.inl (fun h => Or.inr (ih h))

theorem wf_xcDropLast (items : List Item) (hwf : WellTyped items) : WellTyped (xcDropLast items) := by
  induction items with
  | nil => exact hwf
  | cons i r ih =>
    have hwi := hwf i (by simp)
    have hwr : WellTyped r := fun j hj => hwf j (by simp [hj])
    by_cases hr : fmtOf r = []
    · cases i with
      | lit bs =>
        simp only [xcDropLast, hr, if_true]
        intro j hj
        rcases List.mem_cons.mp hj with rfl | hj
        · simp only [Item.wf, List.all_eq_true] at hwi ⊢
          exact fun c hc => hwi c (List.dropLast_subset _ hc)
        · exact hwr j hj
      | pct => simpa [xcDropLast, hr] using hwf
      | dir d w p v => simpa [xcDropLast, hr] using hwf
    · simp only [xcDropLast, hr, if_false]
      intro j hj
      rcases List.mem_cons.mp hj with rfl | hj
      · exact hwi
      · exact ih hwr j hj

theorem miniFits_xcDropLast (items : List Item) (h : MiniFits items) : MiniFits (xcDropLast items) := by
  intro i hi d w p v he
  subst he
  exact h _ (dir_mem_xcDropLast items d w p v hi) d w p v rfl

theorem strPrecOk_xcDropLast (render : Render) (items : List Item) (h : StrPrecOk render items) :
    StrPrecOk render (xcDropLast items) :=
  fun d w p v hm hc => h d w p v (dir_mem_xcDropLast items d w p v hm) hc

/-- printf's text of the stored items is printf's text of the format without its final marker -/
theorem printfSpec_xcDropLast (render : Render) (items : List Item) (hwf : WellTyped items) : ∀ (F : Bytes),
    fmtOf items = F ++ [QB_XC.toUInt8] →
    printfSpec render items = printfSpec render (xcDropLast items) ++ [QB_XC.toUInt8] := by
  induction items with
  | nil => intro F h; simp [fmtOf] at h
  | cons i r ih =>
    intro F h
    have hwi := hwf i (by simp)
    have hwr : WellTyped r := fun j hj => hwf j (by simp [hj])
    have hcons : ∀ (j : Item) (l : List Item), printfSpec render (j :: l) =
        printfSpec render [j] ++ printfSpec render l := by
      intro j l; simp [printfSpec]
    rw [fmtOf_cons] at h
    by_cases hr : fmtOf r = []
    · have h0 := (fmtOf_nil render r hr).2.2
      rw [hr, List.append_nil] at h
      cases i with
      | lit bs =>
        simp only [Item.chars] at h
        simp only [xcDropLast, hr, if_true]
        rw [hcons (.lit bs) r, hcons (.lit bs.dropLast) r, h0, h]
        simp [printfSpec]
      | pct =>
        exfalso
        have : QB_XC.toUInt8 ∈ ([0x25, 0x25] : Bytes) := by
          simp only [Item.chars] at h
          rw [h]; simp
        revert this; decide
      | dir d w p v =>
        exfalso
        simp only [Item.chars] at h
        exact (cls_ok _ (dir_chars_cls d w p v hwi _ (by rw [h]; simp))).2 rfl
    · have hsplit := (List.dropLast_concat_getLast hr).symm
      rw [hsplit, ← List.append_assoc] at h
      obtain ⟨_, h2⟩ := List.append_inj' h rfl
      have hG : fmtOf r = (fmtOf r).dropLast ++ [QB_XC.toUInt8] := by
        rw [← List.singleton_inj.mp h2]; exact hsplit
      simp only [xcDropLast, hr, if_false]
      rw [hcons i r, hcons i (xcDropLast r), ih hwr _ hG, List.append_assoc]

/-! ### the encoder -/

/-- after `my_strlcpy(serialize, fmt, max_len)` and the marker replacement on a format `F ++ [QB_XC]`
    that fits: the buffer holds `F`, NUL (the patched marker), NUL (the terminator stored by
    `my_strlcpy`); `location` is one less than the stored length unless that equals `max_len` -/
theorem serInit_last (F : Bytes) (args : List Arg) (maxLen : Nat) (h0 : (0 : UInt8) ∉ F ++ [QB_XC.toUInt8])
    (hx : QB_XC.toUInt8 ∉ F) (hfit : F.length + 2 ≤ maxLen) :
    (serInit R (F ++ [QB_XC.toUInt8]) args maxLen).buf.data = F ++ [0] ++ [0] ∧
    (serInit R (F ++ [QB_XC.toUInt8]) args maxLen).loc = (if F.length + 2 < maxLen then F.length + 1 else F.length + 2) ∧
    (serInit R (F ++ [QB_XC.toUInt8]) args maxLen).args = args ∧
    (serInit R (F ++ [QB_XC.toUInt8]) args maxLen).ret = none ∧
    (serInit R (F ++ [QB_XC.toUInt8]) args maxLen).inDir = false ∧
    (serInit R (F ++ [QB_XC.toUInt8]) args maxLen).skip = false := by
  have hc : cstr (F ++ [QB_XC.toUInt8]) = F ++ [QB_XC.toUInt8] := cstr_self _ h0
  have hlen : (F ++ [QB_XC.toUInt8]).length = F.length + 1 := by simp
  unfold serInit
  simp only [hc, myStrlcpy]
  have hm0 : ¬ (maxLen = 0) := by omega
  have hmin : min (maxLen - 1) (F.length + 1) = F.length + 1 := by omega
  have hsub : subSz maxLen 1 = maxLen - 1 := subSz_of_le (by omega)
  have hmin2 : min (F.length + 1) (maxLen - 1) = F.length + 1 := by omega
  have htake : (F ++ [QB_XC.toUInt8]).take (F.length + 1) = F ++ [QB_XC.toUInt8] :=
    List.take_of_length_le (by simp)
  simp only [hm0, if_false, hlen, hmin, htake, hsub, hmin2, xcPatch, findIdx_last F _ hx]
  have hst := Buf.store_end ⟨[], 0⟩ ((F ++ [QB_XC.toUInt8]) ++ [0])
  simp only [List.length_nil, List.nil_append] at hst
  have hlt : F.length < F.length + 1 := by omega
  have hnlt : ¬ (F.length + 1 < F.length + 1) := by omega
  simp only [hlt, hnlt, if_true, if_false]
  refine ⟨?_, ?_, ?_, ?_, ?_, ?_⟩ <;> try trivial
  · rw [Buf.store_set _ _ _ (by rw [hst]; simp), hst]
    simp
  · by_cases hl : F.length + 2 < maxLen
    · have : F.length + 1 + 1 < maxLen := by omega
      simp [R, Cfg.repaired, hl, this]
    · have : ¬ (F.length + 1 + 1 < maxLen) := by omega
      simp [R, Cfg.repaired, hl, this]

/-- the return value and the record of a final state that is in text mode with `location = |out|`
    and `out` at the start of the buffer -/
theorem serFinal_of (maxLen : Nat) (u : SerSt) (out X : Bytes) (hret : u.ret = none) (hloc : u.loc = out.length)
    (hdata : u.buf.data = out ++ X) (hfit : out.length ≤ maxLen) :
    (serFinal maxLen u).ret = out.length ∧ (serFinal maxLen u).bytes = out := by
  have hn : min out.length maxLen = out.length := by omega
  have h0 : out.length - (out.length + X.length) = 0 := by omega
  simp [serFinal, hret, hloc, hdata, hn, h0]

/-- **`qb_vsnprintf_serialize` on a well-typed format that ENDS in its first marker** and whose
    record fits: the stored format is one byte shorter (`xcDropLast`), and so is the return value —
    except when the format and its NUL alone fill `max_len` exactly (`location` is then not
    decremented, the record keeps both NULs, and there are no arguments). -/
theorem serialize_items_last (items : List Item) (maxLen : Nat) (hwf : WellTyped items)
    (hlast : (fmtOf items).findIdx (· = QB_XC.toUInt8) + 1 = (fmtOf items).length)
    (hfit : (recordOf items).length ≤ maxLen) :
    (serialize R (fmtOf items) (argsOf items) maxLen).ret =
      (if (fmtOf items).length + 1 < maxLen then (recordOf items).length - 1 else (recordOf items).length) ∧
    (serialize R (fmtOf items) (argsOf items) maxLen).bytes =
      recordOf (xcDropLast items) ++ (if (fmtOf items).length + 1 < maxLen then [] else [0]) := by
  obtain ⟨F, hF, hxF⟩ := last_marker_split _ _ hlast
  have hz : (0 : UInt8) ∉ fmtOf items := fmt_no_zero items hwf
  have hc : cstr (fmtOf items) = fmtOf items := cstr_self _ hz
  have hfd := fmtOf_xcDropLast items hwf F hF
  have hlen : (fmtOf items).length = F.length + 1 := by rw [hF]; simp
  unfold recordOf at hfit ⊢
  rw [encOf_xcDropLast, hfd]
  simp only [List.length_append, List.length_singleton, hlen] at hfit ⊢
  obtain ⟨i1, i2, i3, i4, i5, i6⟩ := serInit_last F (argsOf items) maxLen (by rw [← hF]; exact hz) hxF (by omega)
  rw [← hF] at i1 i2 i3 i4 i5 i6
  unfold serialize
  rw [hc]
  by_cases hl : F.length + 2 < maxLen
  · have hl' : F.length + 1 + 1 < maxLen := by omega
    simp only [hl, hl', if_true] at i2 ⊢
    -- the run from the SerSync state `rebuf s0 (F ++ [0])`
    have hsync : SerSync (rebuf (serInit R (fmtOf items) (argsOf items) maxLen) (F ++ [0])) (F ++ [0])
        (argsOf items ++ []) :=
      ⟨i4, i5, i6, rfl, by simp [rebuf, i2], by simp [rebuf, i3]⟩
    obtain ⟨s', e, hs'⟩ := serRun_items maxLen items _ (F ++ [0]) [] [] hsync hwf
      (by simp only [List.length_append, List.length_singleton]; omega)
    rw [List.append_nil] at e
    simp only [serRun] at e
    have hout : (F ++ [0] ++ encOf items).length = F.length + 1 + (encOf items).length := by
      simp only [List.length_append, List.length_singleton]
    rcases serRun_merge maxLen (F ++ [0]) 0 (fmtOf items) _ i1 (by simp [i2]) with h | ⟨h1, h2, h3⟩
    · rw [h, e]
      have := serFinal_of maxLen s' (F ++ [0] ++ encOf items) [] hs'.ret hs'.loc (by simp [hs'.data])
        (by rw [hout]; omega)
      rw [hout] at this
      exact ⟨by rw [this.1]; omega, by rw [this.2]; simp⟩
    · rw [e] at h1
      have hloc : F.length + 1 = (F ++ [0] ++ encOf items).length := by
        rw [← i2, ← h3, ← hs'.loc, h1]; rfl
      have henc : encOf items = [] := List.eq_nil_of_length_eq_zero (by rw [hout] at hloc; omega)
      have hret : (serRun R maxLen (serInit R (fmtOf items) (argsOf items) maxLen) (fmtOf items)).ret = none := by
        have := hs'.ret; rw [h1] at this; exact this
      have := serFinal_of maxLen _ (F ++ [0]) [0] hret (by rw [h3, i2]; simp) (by rw [h2, i1])
        (by simp only [List.length_append, List.length_singleton]; omega)
      simp only [List.length_append, List.length_singleton] at this
      rw [henc]
      exact ⟨by rw [this.1]; simp, by rw [this.2]; simp⟩
  · have hl' : ¬ (F.length + 1 + 1 < maxLen) := by omega
    simp only [hl, hl', if_false] at i2 ⊢
    have henc : encOf items = [] := List.eq_nil_of_length_eq_zero (by omega)
    have hsync : SerSync (serInit R (fmtOf items) (argsOf items) maxLen) (F ++ [0] ++ [0]) (argsOf items ++ []) :=
      ⟨i4, i5, i6, i1, by simp [i2], by simp [i3]⟩
    obtain ⟨s', e, hs'⟩ := serRun_items maxLen items _ (F ++ [0] ++ [0]) [] [] hsync hwf
      (by simp only [List.length_append, List.length_singleton, henc, List.length_nil]; omega)
    rw [List.append_nil] at e
    simp only [serRun] at e
    rw [e]
    have := serFinal_of maxLen s' (F ++ [0] ++ [0] ++ encOf items) [] hs'.ret hs'.loc (by simp [hs'.data])
      (by simp only [List.length_append, List.length_singleton, henc, List.length_nil]; omega)
    rw [henc] at this ⊢
    simp only [List.length_append, List.length_singleton, List.length_nil, List.append_nil] at this ⊢
    exact ⟨by rw [this.1], by rw [this.2]⟩

end QbVerif.Ser
