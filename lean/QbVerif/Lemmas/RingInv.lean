/-
The representation invariant of the ring buffer model (C07, C11) and what the reader-side
operations (`magic`, `copyOut`, `reclaim`, `spaceFree`) do under it.

Ghost state: `TR`, the absolute word address of the read pointer (total words ever
reclaimed), and `q`, the list of unread chunks.  The write pointer is at `TR + total q`.
-/
import QbVerif.Lemmas.RingMem

namespace QbVerif.RingLemmas
open QbVerif.Ring QbVerif.RingSpec

/-- the chunks `q` are laid out, header and payload, from absolute word address `A` on -/
def Stored (m : Array Nat) (W : Nat) : Nat → List (List Nat) → Prop
  | _, [] => True
  | A, c :: cs => word m W A = c.length ∧ word m W (A + 1) = MAGIC ∧
      (List.range c.length).map (fun j => cell m W (4 * (A + 2) + j)) = c ∧
      Stored m W (A + cw c.length) cs

/-- `Stored` only looks at the cells of the chunks -/
theorem Stored_frame {m m' : Array Nat} {W A : Nat} {q : List (List Nat)} (hW : 0 < W)
    (h : ∀ a, 4 * A ≤ a → a < 4 * (A + total q) → cell m' W a = cell m W a)
    (hs : Stored m W A q) : Stored m' W A q := by
  induction q generalizing A with
  | nil => trivial
  | cons c cs ih =>
    obtain ⟨h1, h2, h3, h4⟩ := hs
    have hlo := cw_lo c.length
    rw [total_cons] at h
    refine ⟨?_, ?_, ?_, ?_⟩
    · rw [← h1]; exact word_congr hW (fun a ha hb => h a (by omega) (by omega))
    · rw [← h2]; exact word_congr hW (fun a ha hb => h a (by omega) (by omega))
    · refine Eq.trans ?_ h3
      apply List.map_congr_left
      intro j hj
      have := List.mem_range.mp hj
      exact h _ (by omega) (by omega)
    · exact ih (fun a ha hb => h a (by omega) (by omega)) h4

theorem Stored_append {m : Array Nat} {W A : Nat} {q : List (List Nat)} {d : List Nat}
    (hq : Stored m W A q) (hd : Stored m W (A + total q) [d]) : Stored m W A (q ++ [d]) := by
  induction q generalizing A with
  | nil => simpa [total] using hd
  | cons c cs ih =>
    obtain ⟨h1, h2, h3, h4⟩ := hq
    refine ⟨h1, h2, h3, ih h4 ?_⟩
    rw [total_cons] at hd
    rwa [Nat.add_assoc]

structure Inv (r : Rb) (q : List (List Nat)) (TR : Nat) : Prop where
  size : r.mem.size = 4 * r.W
  wge : 4 ≤ r.W
  wlt : 4 * r.W < 2 ^ 31
  hrp : r.rp = TR % r.W
  hwp : r.wp = (TR + total q) % r.W
  used : total q + 1 ≤ r.W
  stored : Stored r.mem r.W TR q
  /-- the magic word the reader of the emptied ring will look at is not MAGIC -/
  next : word r.mem r.W (TR + total q + 1) ≠ MAGIC

theorem Inv.wpos {r q TR} (h : Inv r q TR) : 0 < r.W := by have := h.wge; omega

theorem Inv.with_sem {r q TR} (h : Inv r q TR) (s : Option Nat) : Inv { r with sem := s } q TR :=
  ⟨h.size, h.wge, h.wlt, h.hrp, h.hwp, h.used, h.stored, h.next⟩

theorem Inv.post {r q TR} (h : Inv r q TR) : Inv r.post q TR := h.with_sem _

/-! ### the reader's view -/

theorem magic_abs {r : Rb} {TR : Nat} (hrp : r.rp = TR % r.W) : r.magic r.rp = word r.mem r.W (TR + 1) := by
  unfold Rb.magic word
  rw [hrp, Nat.mod_add_mod]

theorem magic_nil {r TR} (h : Inv r [] TR) : r.magic r.rp ≠ MAGIC := by
  rw [magic_abs h.hrp]
  simpa [total] using h.next

theorem magic_cons {r TR c cs} (h : Inv r (c :: cs) TR) : r.magic r.rp = MAGIC := by
  rw [magic_abs h.hrp]
  exact h.stored.2.1

theorem size_cons {r TR c cs} (h : Inv r (c :: cs) TR) : rd32 r.mem r.rp = c.length := by
  rw [h.hrp]
  exact h.stored.1

theorem dataAddr_abs {r : Rb} {TR j : Nat} (hW : 0 < r.W) (hrp : r.rp = TR % r.W) :
    r.dataAddr r.rp j = (4 * (TR + 2) + j) % (4 * r.W) := by
  unfold Rb.dataAddr
  rw [hrp, Nat.mod_add_mod, HDRW_eq]
  have := mul4_mod (TR + 2) r.W 0 (by omega) hW
  simp only [Nat.add_zero] at this
  rw [this, Nat.mod_add_mod]

theorem copyOut_cons {r TR c cs} (h : Inv r (c :: cs) TR) : r.copyOut r.rp c.length = c := by
  have h3 := h.stored.2.2.1
  rw [← h3]
  unfold Rb.copyOut
  simp only [List.length_map, List.length_range]
  apply List.map_congr_left
  intro j _
  rw [dataAddr_abs h.wpos h.hrp]
  rfl

theorem chunkStep_abs {r : Rb} {A sz : Nat} (hW : 0 < r.W) (hsz : rd32 r.mem (A % r.W) = sz) :
    r.chunkStep (A % r.W) = (A + cw sz) % r.W := by
  unfold Rb.chunkStep
  simp only [hsz]
  rw [chunkStep_arg, idxStep_eq hW, Nat.mod_add_mod]

/-! ### free space -/

theorem spaceFree_eq {r q TR} (h : Inv r q TR) :
    r.spaceFree = Fifo.free ⟨r.W, q, if r.ow then none else r.sem⟩ := by
  have hW := h.wpos
  have ha : TR % r.W < r.W := Nat.mod_lt _ hW
  have hu := h.used
  have hwp : r.wp = (TR % r.W + total q) % r.W := by rw [h.hwp, Nat.mod_add_mod]
  have hx := mod_lt2 (x := TR % r.W + total q) (W := r.W) (by omega)
  unfold Rb.spaceFree Rb.spaceFreeGen Fifo.free
  rw [h.hrp]
  cases q with
  | nil =>
    simp only [total_nil, Nat.add_zero, ha, if_true] at hx hwp
    rw [hx] at hwp
    simp only [hwp, Nat.lt_irrefl, if_false]
    cases r.ow with
    | true => rfl
    | false =>
      cases r.sem with
      | none => rfl
      | some n => cases n <;> rfl
  | cons c cs =>
    have h2 : 2 ≤ total (c :: cs) := by have := cw_ge c.length; rw [total_cons]; omega
    show _ = 4 * (r.W - total (c :: cs) - 1)
    generalize total (c :: cs) = U at *
    by_cases hlt : TR % r.W + U < r.W
    · rw [if_pos hlt] at hx; rw [hwp, hx, if_pos (by omega)]; omega
    · rw [if_neg hlt] at hx; rw [hwp, hx, if_neg (by omega), if_pos (by omega)]; omega

/-- plain ring: the notification count takes part in the free-space rule -/
theorem spaceFree_eq_normal {r q TR} (h : Inv r q TR) (how : r.ow = false) :
    r.spaceFree = Fifo.free ⟨r.W, q, r.sem⟩ := by
  rw [spaceFree_eq h, how]; rfl

/-- overwrite ring: it does not -/
theorem spaceFree_eq_ow {r q TR} (h : Inv r q TR) (how : r.ow = true) :
    r.spaceFree = Fifo.free ⟨r.W, q, none⟩ := by
  rw [spaceFree_eq h, how]; rfl

end QbVerif.RingLemmas
