import QbVerif.Lemmas.LogThreadInv

namespace QbVerif.LogThread

set_option linter.unusedSimpArgs false

set_option maxHeartbeats 1000000 in
theorem inv_cStep_pc (cfg : Cfg) (hf : Fixed cfg) (s : St) (h : Inv cfg s) (hen : enabledApp s .C = true)
    (hpc : s.c.pc ≠ .idle) : Inv cfg (appStep cfg s .C) := by
  obtain ⟨hf1, hf2, hf3⟩ := hf
  obtain ⟨inited, tgtOpen, tgtEnabled, tgtThreaded, active, shouldExit, lock, owner, sem, startSem, queue,
    mem, droppedCtr, ⟨pcC, progC⟩, ⟨pcP, progP⟩, pcW, nextSeq, ignored, syncWritten, accepted, dropTotal,
    popped, written, discarded, reports, outcome, evs⟩ := s
  obtain ⟨h_run, h_nd, h_act, h_wnone, h_wnogv, h_null, h_oc, h_op, h_ow, h_nc, h_np, h_cnogv, h_ppcs, h_plogs,
    h_exit, h_cexcl, h_wexit, h_guard, h_wsp, h_hs, h_tok, h_mem, h_meml, h_dropq, h_sc, h_sp, h_spc, h_spp⟩ := h
  simp only at *
  cases pcC
  case idle => simp at hpc
  case finiGetvalue => simp at h_cnogv
  case joinP =>
    simp [enabledApp, St.app, St.appDone] at hen
    simp [appStep, St.app, St.ret, St.setPc, St.setApp, St.emit]
    constructor <;> simp_all [Pdone]
  all_goals
    have hl : lock = .live := by simp_all
    subst hl
    simp [Pdone, enabledApp, lockFree, St.app] at *
    obtain ⟨k, hk, htok, htok2⟩ := h_tok
    subst hk
  case finiJoin =>
    subst hen
    simp at htok2 h_hs
    obtain ⟨hk0, hq⟩ := htok2
    subst hk0 hq h_hs
    have hd : droppedCtr = 0 := by
      cases droppedCtr with
      | zero => rfl
      | succ n => simp at h_dropq
    subst hd
    simp [appStep, St.app, St.ret, St.setPc, St.setApp, St.emit, destroyAll, finiRest, hf3]
    constructor <;> simp_all [Pdone, AppId.tid] <;> (try omega)
  all_goals
    have hWe : pcW.exiting = false := by
      cases hh : pcW.exiting
      · rfl
      · simp [hh] at h_wexit
    have hloop := WPc.looping_of_not_exiting h_wnone h_wnogv hWe
    simp only [hloop, hWe, true_implies] at htok htok2 h_wexit
  case logUnlock =>
    simp [appStep, St.app, St.ret, St.setPc, St.setApp, St.emit]
    constructor <;> simp_all [Pdone, AppId.tid] <;> (try omega)
  case logPost =>
    simp [appStep, St.app, St.ret, St.setPc, St.setApp, St.emit]
    constructor <;> simp_all [Pdone, AppId.tid] <;> (try omega)
  case logUnlockDrop =>
    simp [appStep, St.app, St.ret, St.setPc, St.setApp, St.emit]
    constructor <;> simp_all [Pdone, AppId.tid] <;> (try omega)
  case ctlUnlock b =>
    simp [appStep, St.app, St.ret, St.setPc, St.setApp, St.emit]
    constructor <;> simp_all [Pdone, AppId.tid] <;> (try omega)
  case finiLock =>
    simp [appStep, St.app, St.ret, St.setPc, St.setApp, St.emit]
    constructor <;> simp_all [Pdone, AppId.tid] <;> (try omega)
  case finiUnlock =>
    simp [appStep, St.app, St.ret, St.setPc, St.setApp, St.emit]
    constructor <;> simp_all [Pdone, AppId.tid] <;> (try omega)
  case finiPost =>
    simp [appStep, St.app, St.ret, St.setPc, St.setApp, St.emit]
    constructor <;> simp_all [Pdone, AppId.tid] <;> (try omega)
  case logLock r =>
    subst hen
    have hr := h_spc
    simp [appStep, St.app, St.ret, St.setPc, St.setApp, St.emit]
    split
    · rename_i hlim
      have hq : queue ≠ [] := by
        rintro rfl
        simp_all
        omega
      constructor <;> simp_all [Pdone, AppId.tid] <;> (try omega)
    · constructor <;> simp_all [Pdone, AppId.tid] <;> (try omega)
  case ctlLock en =>
    subst hen
    cases en <;>
    · simp [appStep, St.app, St.ret, St.setPc, St.setApp, St.emit, ctlBody]
      constructor <;> simp_all [Pdone, AppId.tid] <;> (try omega)
  case startWait =>
    have h1 := pcW.posted_le
    have h2 : pcW ≠ .startPost := by intro h; subst h; simp_all
    have h3 : pcW.posted = 1 := by
      have : pcW.posted ≠ 0 := fun h => h2 (WPc.posted_zero h)
      omega
    simp [appStep, St.app, St.ret, St.setPc, St.setApp, St.emit]
    constructor <;> simp_all [Pdone, AppId.tid] <;> (try omega)

end QbVerif.LogThread
