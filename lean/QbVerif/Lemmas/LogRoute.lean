/-
Helper lemmas for property C12 (log routing): bit operations on `cs->targets`, the filter replays,
`removeFirst`, `lastTag`, the `conf_active_max` scan.  Core Lean only.
-/
import QbVerif.Model.LogRouteSpec

namespace QbVerif.LogRoute

open QbVerif.LogSpec

/-! ### bits -/

theorem bitTest_zero (i : Nat) : bitTest 0 i = false := by
  simp [bitTest]

theorem bitTest_bitSet (m : BitVec 32) (t i : Nat) (ht : t < 32) :
    bitTest (bitSet m t) i = (bitTest m i || decide (i = t)) := by
  simp only [bitTest, bitSet, BitVec.getLsbD_or, BitVec.getLsbD_twoPow]
  have : decide (t < 32) = true := by simp [ht]
  rw [this]
  by_cases h : i = t
  · subst h; simp
  · have h' : ¬ t = i := fun e => h e.symm
    simp [h, h']

theorem bitTest_bitClear (m : BitVec 32) (t i : Nat) :
    bitTest (bitClear m t) i = (bitTest m i && !decide (i = t)) := by
  simp only [bitTest, bitClear, BitVec.getLsbD_and, BitVec.getLsbD_not, BitVec.getLsbD_twoPow]
  by_cases hi : i < 32
  · by_cases h : i = t
    · subst h; simp [hi]
    · have h' : ¬ t = i := fun e => h e.symm
      simp [hi, h, h']
  · have : m.getLsbD i = false := BitVec.getLsbD_of_ge m i (by omega)
    simp [this]

/-! ### `updTgt` -/

@[simp] theorem updTgt_same (f : Nat → Target) (t : Nat) (v : Target) : updTgt f t v t = v := by
  simp [updTgt]

theorem updTgt_other (f : Nat → Target) (t i : Nat) (v : Target) (h : i ≠ t) : updTgt f t v i = f i := by
  simp [updTgt, h]

/-! ### stored-filter replays -/

@[simp] theorem applyStored_id (env : RxEnv) (cs : Site) (t : Nat) (f : Filter) :
    (applyStored env cs t f).id = cs.id := by
  unfold applyStored
  split
  · cases f.conf <;> rfl
  · rfl

@[simp] theorem applyStored_line (env : RxEnv) (cs : Site) (t : Nat) (f : Filter) :
    (applyStored env cs t f).line = cs.line := by
  unfold applyStored
  split
  · cases f.conf <;> rfl
  · rfl

@[simp] theorem applyStored_func (env : RxEnv) (cs : Site) (t : Nat) (f : Filter) :
    (applyStored env cs t f).func = cs.func := by
  unfold applyStored
  split
  · cases f.conf <;> rfl
  · rfl

theorem applyStored_key (env : RxEnv) (c : Call) (cs : Site) (t : Nat) (f : Filter) :
    sameKey c (applyStored env cs t f) = sameKey c cs := by
  unfold applyStored
  split
  · cases f.conf <;> rfl
  · rfl

theorem applyStored_add (env : RxEnv) (cs : Site) (t : Nat) (f : Filter) (hf : f.conf = .add) :
    (applyStored env cs t f).tags = cs.tags ∧
    (applyStored env cs t f).targets = if fMatches env f cs.id then bitSet cs.targets t else cs.targets := by
  unfold applyStored
  split <;> simp [hf]

theorem applyStored_tag (env : RxEnv) (cs : Site) (t : Nat) (f : Filter) (hf : f.conf = .tagSet) :
    (applyStored env cs t f).targets = cs.targets ∧
    (applyStored env cs t f).tags = if fMatches env f cs.id then t else cs.tags := by
  unfold applyStored
  split <;> simp [hf]

theorem applyTargetFilters_props (env : RxEnv) (t : Nat) (ht : t < 32) (l : List Filter)
    (hl : ∀ f ∈ l, f.conf = .add) (cs : Site) :
    (applyTargetFilters env cs t l).id = cs.id ∧
    (applyTargetFilters env cs t l).line = cs.line ∧
    (applyTargetFilters env cs t l).func = cs.func ∧
    (applyTargetFilters env cs t l).tags = cs.tags ∧
    ∀ i, bitTest (applyTargetFilters env cs t l).targets i =
      (bitTest cs.targets i || (decide (i = t) && l.any fun f => fMatches env f cs.id)) := by
  induction l generalizing cs with
  | nil => simp [applyTargetFilters]
  | cons f l ih =>
    have hf : f.conf = .add := hl f (by simp)
    have hl' : ∀ g ∈ l, g.conf = .add := fun g hg => hl g (by simp [hg])
    have h := ih hl' (applyStored env cs t f)
    have ha := applyStored_add env cs t f hf
    simp only [applyTargetFilters, List.foldl_cons] at h ⊢
    refine ⟨by simp [h.1], by simp [h.2.1], by simp [h.2.2.1], by simp [h.2.2.2.1, ha.1], ?_⟩
    intro i
    rw [h.2.2.2.2 i, applyStored_id, ha.2]
    by_cases hm : fMatches env f cs.id = true
    · simp only [hm, if_true, List.any_cons, bitTest_bitSet _ _ _ ht]
      by_cases hi : i = t <;> simp [hi]
    · simp only [Bool.not_eq_true] at hm
      simp [hm]

theorem lastTag_append (env : RxEnv) (id : SiteId) (d : Nat) (l : List Filter) (f : Filter) :
    lastTag env id d (l ++ [f]) =
      if f.conf == .tagSet && fMatches env f id then f.newValue else lastTag env id d l := by
  induction l generalizing d with
  | nil => simp [lastTag]
  | cons g l ih => simp [lastTag, ih]

theorem applyTagFilters_props (env : RxEnv) (l : List Filter) (hl : ∀ f ∈ l, f.conf = .tagSet) (cs : Site) :
    (applyTagFilters env cs l).id = cs.id ∧
    (applyTagFilters env cs l).line = cs.line ∧
    (applyTagFilters env cs l).func = cs.func ∧
    (applyTagFilters env cs l).targets = cs.targets ∧
    (applyTagFilters env cs l).tags = lastTag env cs.id cs.tags l := by
  induction l generalizing cs with
  | nil => simp [applyTagFilters, lastTag]
  | cons f l ih =>
    have hf : f.conf = .tagSet := hl f (by simp)
    have hl' : ∀ g ∈ l, g.conf = .tagSet := fun g hg => hl g (by simp [hg])
    have h := ih hl' (applyStored env cs f.newValue f)
    have ha := applyStored_tag env cs f.newValue f hf
    simp only [applyTagFilters, List.foldl_cons] at h ⊢
    refine ⟨by simp [h.1], by simp [h.2.1], by simp [h.2.2.1], by simp [h.2.2.2.1, ha.1], ?_⟩
    rw [h.2.2.2.2, applyStored_id, ha.2]
    simp [lastTag, hf]

/-! ### `removeFirst` -/

theorem removeFirst_mem {α : Type} (p : α → Bool) (l : List α) (a : α) (h : a ∈ (removeFirst p l).2) :
    a ∈ l := by
  induction l with
  | nil => simp [removeFirst] at h
  | cons b l ih =>
    unfold removeFirst at h
    split at h
    · simp [h]
    · simp only [List.mem_cons] at h ⊢
      rcases h with h | h
      · exact Or.inl h
      · exact Or.inr (ih h)

theorem removeFirst_some {α : Type} (p : α → Bool) (l : List α) (g : α) (h : (removeFirst p l).1 = some g) :
    p g = true ∧ g ∈ l := by
  induction l with
  | nil => simp [removeFirst] at h
  | cons b l ih =>
    unfold removeFirst at h
    split at h
    · simp only [Option.some.injEq] at h
      subst h
      simp [*]
    · have := ih h
      exact ⟨this.1, by simp [this.2]⟩

/-- an element survives unless it is the removed one -/
theorem removeFirst_keep {α : Type} (p : α → Bool) (l : List α) (a : α) (h : a ∈ l) :
    a ∈ (removeFirst p l).2 ∨ (removeFirst p l).1 = some a := by
  induction l with
  | nil => simp at h
  | cons b l ih =>
    unfold removeFirst
    split
    · simp only [List.mem_cons] at h
      rcases h with h | h
      · right; simp [h]
      · left; exact h
    · simp only [List.mem_cons] at h ⊢
      rcases h with h | h
      · left; left; exact h
      · rcases ih h with h' | h'
        · left; right; exact h'
        · right; exact h'

theorem removeFirst_none {α : Type} (p : α → Bool) (l : List α) (h : (removeFirst p l).1 = none) :
    (removeFirst p l).2 = l := by
  induction l with
  | nil => simp [removeFirst]
  | cons b l ih =>
    unfold removeFirst at h ⊢
    split
    · rename_i hp; simp [hp] at h
    · rename_i hp
      simp only [hp] at h
      simp [ih (by simpa using h)]

/-- `lastTag` does not see a removed filter that does not match -/
theorem lastTag_removeFirst (env : RxEnv) (id : SiteId) (p : Filter → Bool) (l : List Filter) (d : Nat)
    (h : ∀ g, (removeFirst p l).1 = some g → fMatches env g id = false) :
    lastTag env id d (removeFirst p l).2 = lastTag env id d l := by
  induction l generalizing d with
  | nil => simp [removeFirst]
  | cons b l ih =>
    unfold removeFirst at h ⊢
    split
    · rename_i hp
      simp only [hp, if_true] at h
      have := h b rfl
      simp [lastTag, this]
    · rename_i hp
      simp only [hp] at h
      simp only [lastTag]
      exact ih _ (by simpa using h)

/-! ### the `conf_active_max` scan -/

theorem highestEnabled_some (tgt : Nat → Target) (n i : Nat) (h : highestEnabled tgt n = some i) :
    i < n ∧ (tgt i).state = .enabled ∧ ∀ j, j < n → (tgt j).state = .enabled → j ≤ i := by
  induction n with
  | zero => simp [highestEnabled] at h
  | succ n ih =>
    unfold highestEnabled at h
    split at h
    · rename_i he
      simp only [Option.some.injEq] at h
      subst h
      refine ⟨by omega, by simpa using he, fun j hj _ => by omega⟩
    · rename_i he
      have := ih h
      refine ⟨by omega, this.2.1, fun j hj hje => ?_⟩
      by_cases hjn : j = n
      · subst hjn; simp [hje] at he
      · exact this.2.2 j (by omega) hje

theorem highestEnabled_none (tgt : Nat → Target) (n : Nat) (h : highestEnabled tgt n = none) :
    ∀ j, j < n → (tgt j).state ≠ .enabled := by
  induction n with
  | zero => intro j hj; omega
  | succ n ih =>
    unfold highestEnabled at h
    split at h
    · simp at h
    · rename_i he
      intro j hj
      by_cases hjn : j = n
      · subst hjn; simpa using he
      · exact ih h j (by omega)

end QbVerif.LogRoute
