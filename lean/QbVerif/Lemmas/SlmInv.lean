/-
Skiplist: the invariant `Inv` between operations, the search from the header
(`search_top`), and the dictionary's sorted-list operations expressed as the same walk the search
loop performs (`findEntry_walk`, `insertEntry_walk`, `eraseEntry_walk`).
-/
import QbVerif.Lemmas.SlmSearch

namespace QbVerif.Skiplist
open QbVerif.Map
set_option linter.unusedSimpArgs false

/-- number of iterators parked on node `i` -/
def parked (its : List (Nat × Option NodeId)) (i : NodeId) : Nat := (its.filter fun p => p.2 == some i).length

/-- `i->refcount` (0 when not allocated) -/
def rcOf (s : SL) (i : NodeId) : Nat := match s.nodes i with | some n => n.refcount | none => 0

/-- `i->key` (`none`: the header's NULL key, or not allocated) -/
def keyOf (s : SL) (i : NodeId) : Option Key := match s.nodes i with | some n => n.key | none => none

/-- `i->level + 1` (0 when not allocated) -/
def lvOf (s : SL) (i : NodeId) : Nat := match s.nodes i with | some n => n.lv | none => 0

/-- the state between two operations (all levels; any number of open iterators, each parked
    on the header, on a LINKED node, or at the end) -/
structure Inv (s : SL) (ids : List NodeId) (es : List Entry) (g : List Notifier) : Prop where
  hdr : ∃ f a v rc, s.nodes s.header = some ⟨none, v, LEVEL_MAX + 1, rc, f, g⟩ ∧ s.fwds f = some a
  chain : Chain s s.header ids es
  nodup : (s.header :: ids).Nodup
  /-- forward arrays are not shared -/
  inj : ∀ i ∈ s.header :: ids, ∀ j ∈ s.header :: ids, fwdOf s i = fwdOf s j → i = j
  freshN : ∀ i ∈ s.header :: ids, i < s.nextNode
  freshF : ∀ i ∈ s.header :: ids, fwdOf s i < s.nextFwd
  sorted : Sorted es
  lv : s.lv ≤ LEVEL_MAX + 1
  len : s.length = es.length
  /-- refcount = 1 (linked) + the iterators parked on the node -/
  rc : ∀ i ∈ s.header :: ids, rcOf s i = 1 + parked s.iters i
  /-- iterators are parked on the header or on linked nodes -/
  pos : ∀ p ∈ s.iters, ∀ q, p.2 = some q → q ∈ s.header :: ids
  ikeys : (s.iters.map (·.1)).Nodup
  ok : s.crashed = false
  /-- entries of a forward array at and above the node's level are NULL -/
  above : ∀ i ∈ ids, ∀ a, s.fwds (fwdOf s i) = some a → ∀ l, lvOf s i ≤ l → a l = none
  /-- the higher levels: one chain per level, each a sub-sequence of the one below, empty from
      `list->level + 1` on, holding only nodes that are tall enough -/
  hl : ∃ ch : Nat → List NodeId, Levels s ids ch ∧ (∀ l, s.lv ≤ l → ch l = []) ∧ (∀ l, ∀ i ∈ ch l, l < lvOf s i)

theorem Inv.hxok {s ids es g} (h : Inv s ids es g) : XOk s s.header := by
  obtain ⟨f, a, v, rc, h1, h2⟩ := h.hdr
  exact ⟨_, a, h1, h2⟩

theorem parked_eq_zero {its : List (Nat × Option NodeId)} {i : NodeId} (h : ∀ p ∈ its, p.2 ≠ some i) : parked its i = 0 := by
  unfold parked
  rw [List.length_eq_zero_iff, List.filter_eq_nil_iff]
  intro p hp
  simpa using h p hp

theorem Inv.not_parked_fresh {s ids es g} (h : Inv s ids es g) {i : NodeId} (hi : s.nextNode ≤ i) : parked s.iters i = 0 := by
  apply parked_eq_zero
  intro p hp he
  have := h.freshN i (h.pos p hp i he)
  exact absurd this (Nat.not_lt.2 hi)

/-! ### the walk -/

theorem predOf_mem (key : Key) : ∀ (x : NodeId) (ids : List NodeId) (es : List Entry), predOf key x ids es ∈ x :: ids
  | x, [], _ => by simp [predOf]
  | x, _ :: _, [] => by simp [predOf]
  | x, i :: ids, e :: es => by
    simp only [predOf]
    split
    · exact List.mem_cons_of_mem _ (predOf_mem key i ids es)
    · simp

theorem succOf_mem {key : Key} : ∀ {ids : List NodeId} {es : List Entry} {i e},
    succOf key ids es = some (i, e) → i ∈ ids ∧ e ∈ es ∧ Key.lt e.key key = false
  | [], _, _, _, h => by simp [succOf] at h
  | _ :: _, [], _, _, h => by simp [succOf] at h
  | j :: ids, x :: es, i, e, h => by
    simp only [succOf] at h
    split at h
    · obtain ⟨h1, h2, h3⟩ := succOf_mem h
      exact ⟨List.mem_cons_of_mem _ h1, List.mem_cons_of_mem _ h2, h3⟩
    · next hl =>
      cases h
      exact ⟨by simp, by simp, by simpa using hl⟩

/-- the chain read at the predecessor: its level-0 successor is the first node not below `key` -/
theorem next0_pred {s : SL} (key : Key) : ∀ {x ids es}, Chain s x ids es →
    next0 s (predOf key x ids es) = (succOf key ids es).map (·.1)
  | x, [], [], h => by
    have h0 : next0 s x = none := h
    simp [predOf, succOf, h0]
  | x, i :: ids, e :: es, h => by
    simp only [predOf, succOf]
    split
    · exact next0_pred key h.2.2
    · simpa using h.1
  | _, [], _ :: _, h => by cases h
  | _, _ :: _, [], h => by cases h

theorem Key.lt_asymm {a b : Key} (h : Key.lt a b = true) : Key.lt b a = false := by
  cases hb : Key.lt b a with
  | false => rfl
  | true => have := Key.lt_trans h hb; rw [Key.lt_irrefl] at this; cases this

/-- `findEntry` on a sorted list = the entry the search stops at, if its key matches -/
theorem findEntry_walk (k : Key) : ∀ {ids : List NodeId} {es : List Entry}, ids.length = es.length → Sorted es →
    findEntry es k = match succOf k ids es with
      | some (_, e) => if e.key = k then some e else none
      | none => none
  | [], [], _, _ => by simp [findEntry, succOf]
  | i :: ids, e :: es, hl, hs => by
    have hl' : ids.length = es.length := by simpa using hl
    have hs' : Sorted es := (List.pairwise_cons.1 hs).2
    have ih := findEntry_walk k hl' hs'
    simp only [findEntry] at ih ⊢
    simp only [succOf, List.find?_cons]
    by_cases hlt : Key.lt e.key k = true
    · have : (e.key == k) = false := by simpa using Key.ne_of_lt hlt
      simp only [this, hlt, if_true]
      exact ih
    · have hlt' : Key.lt e.key k = false := by simpa using hlt
      simp only [hlt', Bool.false_eq_true, if_false]
      by_cases hk : e.key = k
      · simp [hk]
      · have : (e.key == k) = false := by simpa using hk
        simp only [this, hk, if_false]
        apply List.find?_eq_none.2
        intro y hy
        have h1 : Key.lt e.key y.key = true := (List.pairwise_cons.1 hs).1 y hy
        have h2 : Key.lt k e.key = true := Key.lt_total hlt' hk
        have := Key.ne_of_lt (Key.lt_trans h2 h1)
        simpa using fun h => this h.symm
  | [], _ :: _, h, _ => by simp at h
  | _ :: _, [], h, _ => by simp at h

/-- `insertEntry` as the search walk (trichotomy of `Key.lt`) -/
theorem insertEntry_walk (e : Entry) (x : Entry) (xs : List Entry) :
    insertEntry e (x :: xs) = if Key.lt x.key e.key = true then x :: insertEntry e xs
      else if x.key = e.key then e :: xs else e :: x :: xs := by
  simp only [insertEntry]
  by_cases h1 : Key.lt x.key e.key = true
  · have h2 := Key.lt_asymm h1
    have h3 : (x.key == e.key) = false := by simpa using Key.ne_of_lt h1
    simp [h1, h2, h3]
  · have h1' : Key.lt x.key e.key = false := by simpa using h1
    by_cases h2 : x.key = e.key
    · have h3 : Key.lt e.key x.key = false := by rw [h2]; exact Key.lt_irrefl _
      have h4 : (x.key == e.key) = true := by simpa using h2
      rw [h2] at h1' h3 h4
      simp [h2, h3, h4]
    · have h3 := Key.lt_total h1' h2
      simp [h1', h2, h3]

/-- `eraseEntry` on a sorted list as the search walk -/
theorem eraseEntry_walk (k : Key) (x : Entry) (xs : List Entry) (hs : Sorted (x :: xs)) :
    eraseEntry k (x :: xs) = if Key.lt x.key k = true then x :: eraseEntry k xs
      else if x.key = k then xs else x :: xs := by
  have hx : ∀ y ∈ xs, Key.lt x.key y.key = true := (List.pairwise_cons.1 hs).1
  simp only [eraseEntry, List.filter_cons]
  by_cases h1 : Key.lt x.key k = true
  · have h3 : (x.key == k) = false := by simpa using Key.ne_of_lt h1
    simp [h1, h3]
  · have h1' : Key.lt x.key k = false := by simpa using h1
    have hrest : ∀ y ∈ xs, (!(y.key == k)) = true := by
      intro y hy
      by_cases h2 : x.key = k
      · have := Key.ne_of_lt (hx y hy)
        rw [h2] at this
        simpa using fun h => this h.symm
      · have := Key.ne_of_lt (Key.lt_trans (Key.lt_total h1' h2) (hx y hy))
        simpa using fun h => this h.symm
    have hf : xs.filter (fun e => !(e.key == k)) = xs := List.filter_eq_self.2 hrest
    by_cases h2 : x.key = k
    · have h3 : (x.key == k) = true := by simpa using h2
      simp [h1', h2, h3, hf, Key.lt_irrefl]
    · have h3 : (x.key == k) = false := by simpa using h2
      simp [h1', h2, h3, hf]

/-- moving the start of a chain: `x` now points to what `i` pointed to -/
theorem Chain.retarget {s s' : SL} {x i : NodeId} : ∀ {ids es}, Chain s i ids es → next0 s' x = next0 s i →
    (∀ j ∈ ids, s'.nodes j = s.nodes j ∧ s'.fwds (fwdOf s j) = s.fwds (fwdOf s j)) → Chain s' x ids es
  | [], [], h, hn, _ => by
    have h0 : next0 s i = none := h
    show next0 s' x = none
    rw [hn, h0]
  | j :: ids, e :: es, h, hn, hf => by
    obtain ⟨h1, ⟨lv, rc, f, a, hrc, hl1, hl2, h2, h3⟩, h4⟩ := h
    refine ⟨by rw [hn, h1], ?_, Chain.frame h4 hf⟩
    obtain ⟨hn', ha'⟩ := hf j (by simp)
    refine ⟨lv, rc, f, a, hrc, hl1, hl2, by rw [hn', h2], ?_⟩
    simp only [fwdOf, h2] at ha'
    rw [ha', h3]
  | [], _ :: _, h, _, _ => by cases h
  | _ :: _, [], h, _, _ => by cases h

/-- the key of a chain node -/
theorem Chain.key_of_mem {s : SL} : ∀ {x ids es} {j : NodeId}, Chain s x ids es → j ∈ ids →
    ∃ e ∈ es, NodeOk s j e
  | _, [], [], _, _, hj => by cases hj
  | _, i :: ids, e :: es, j, h, hj => by
    rcases List.mem_cons.1 hj with rfl | hj
    · exact ⟨e, by simp, h.2.1⟩
    · obtain ⟨e', he', hn⟩ := Chain.key_of_mem h.2.2 hj
      exact ⟨e', List.mem_cons_of_mem _ he', hn⟩
  | _, [], _ :: _, _, h, _ => by cases h
  | _, _ :: _, [], _, h, _ => by cases h

end QbVerif.Skiplist
