/-
Helper lemmas for C09: the timer heap over whole add/delete/expire histories — refinement of the
array heap (Model/Heap.lean) to a plain list of (id, expiry) pairs.  Core Lean only.
-/
import QbVerif.Lemmas.HeapInv

set_option linter.unusedSimpArgs false

namespace QbVerif.Heap

/-! ### lookup of a timer by id (the caller's handle) -/

theorem find?_some_spec {h : Heap} {id : Nat} {e : Entry} (hb : BackOk h.a) (hf : h.find? id = some e) :
    e.id = id ∧ e.pos < h.a.size ∧ get h.a e.pos = e := by
  unfold Heap.find? at hf
  rw [Array.find?_eq_some_iff_getElem] at hf
  obtain ⟨hp, i, hi, hie, _⟩ := hf
  have hg : get h.a i = e := by rw [get_eq_getElem _ _ hi]; exact hie
  have hpos := hb i hi
  rw [hg] at hpos
  refine ⟨by simpa using hp, by omega, by rw [hpos]; exact hg⟩

theorem find?_none_spec {h : Heap} {id : Nat} (hf : h.find? id = none) :
    id ∉ (idKeys h.a).map Prod.fst := by
  unfold Heap.find? at hf
  rw [Array.find?_eq_none] at hf
  intro hmem
  rw [List.mem_map] at hmem
  obtain ⟨x, hx, hx1⟩ := hmem
  obtain ⟨j, hj, rfl⟩ := (mem_idKeys_iff _ _).1 hx
  have := hf (get h.a j) (by rw [get_eq_getElem _ _ hj]; exact Array.getElem_mem hj)
  simp [idKey] at hx1
  simp [hx1] at this

theorem find?_isSome_iff {h : Heap} {id : Nat} (hb : BackOk h.a) :
    (h.find? id).isSome = true ↔ id ∈ (idKeys h.a).map Prod.fst := by
  constructor
  · intro hs
    obtain ⟨e, he⟩ := Option.isSome_iff_exists.1 hs
    obtain ⟨h1, h2, h3⟩ := find?_some_spec hb he
    rw [List.mem_map]
    exact ⟨idKey e, (mem_idKeys_iff _ _).2 ⟨e.pos, h2, by rw [h3]⟩, by simp [idKey, h1]⟩
  · intro hm
    cases hf : h.find? id with
    | some e => rfl
    | none => exact absurd hm (find?_none_spec hf)

/-! ### the abstract specification: a list of (id, expiry) pairs -/

/-- pending timers as a plain list: `add` conses, `del` removes by id, `expire now` removes
    every timer whose expiry is `< now` -/
def specStep (s : List (Nat × Nat)) : HOp → List (Nat × Nat)
  | .add id key => if id ∈ s.map Prod.fst then s else (id, key) :: s
  | .del id => s.filter (fun x => decide (x.1 ≠ id))
  | .expire now => s.filter (fun x => decide (¬ x.2 < now))

def specRun (ops : List HOp) : List (Nat × Nat) := ops.foldl specStep []

/-- the timers `expire now` must fire, according to the specification -/
def specDue (s : List (Nat × Nat)) (now : Nat) : List (Nat × Nat) := s.filter (fun x => decide (x.2 < now))

theorem filter_ne_of_nodup (l : List (Nat × Nat)) (id k : Nat)
    (hn : (((id, k) :: l).map Prod.fst).Nodup) :
    ((id, k) :: l).filter (fun x => decide (x.1 ≠ id)) = l := by
  rw [List.map_cons, List.nodup_cons] at hn
  rw [List.filter_cons_of_neg (by simp)]
  rw [List.filter_eq_self]
  intro x hx
  have : x.1 ≠ id := fun h => hn.1 (by rw [← h]; exact List.mem_map.2 ⟨x, hx, rfl⟩)
  simpa using this

/-- `timerlist_expire` on the array heap, in terms of `expireLoop` -/
theorem Heap.expire_eq (h : Heap) (now : Nat) :
    h.expire now = ({ h with a := (expireLoop h.a.size h.a now []).1 }, (expireLoop h.a.size h.a now []).2) := rfl

/-- one operation on the array heap refines the same operation on the list -/
theorem step_refine (h : Heap) (s : List (Nat × Nat)) (op : HOp) (hi : Inv h.a) (hp : (idKeys h.a).Perm s) :
    Inv (h.step op).1.a ∧ (idKeys (h.step op).1.a).Perm (specStep s op) := by
  cases op with
  | add id key =>
    simp only [Heap.step, specStep]
    have hmem : id ∈ s.map Prod.fst ↔ id ∈ (idKeys h.a).map Prod.fst := ((hp.map Prod.fst).mem_iff).symm
    by_cases hf : (h.find? id).isSome = true
    · have := (find?_isSome_iff hi.back).1 hf
      simp only [hf, if_true, hmem.2 this]
      exact ⟨hi, hp⟩
    · have hnm : id ∉ (idKeys h.a).map Prod.fst := fun hm => hf ((find?_isSome_iff hi.back).2 hm)
      have hnm' : id ∉ s.map Prod.fst := fun hm => hnm (hmem.1 hm)
      simp only [hf, hnm', if_false, Bool.false_eq_true]
      rw [Heap.add_a]
      exact ⟨hi.addArr id key hnm, (idKeys_addArr h.a id key).trans (hp.cons _)⟩
  | del id =>
    simp only [Heap.step, specStep, Heap.delId]
    cases hf : h.find? id with
    | none =>
      simp only [Option.map_none, Option.getD_none]
      refine ⟨hi, ?_⟩
      have hnm := find?_none_spec hf
      have : s.filter (fun x => decide (x.1 ≠ id)) = s := by
        rw [List.filter_eq_self]
        intro x hx
        have : x.1 ≠ id := fun heq => hnm (by
          rw [← heq]; exact ((hp.map Prod.fst).mem_iff).2 (List.mem_map_of_mem hx))
        simpa using this
      rw [this]; exact hp
    | some e =>
      simp only [Option.map_some, Option.getD_some, Heap.del]
      obtain ⟨h1, h2, h3⟩ := find?_some_spec hi.back hf
      refine ⟨hi.heapDelete e h2 h3, ?_⟩
      have hperm := idKeys_heapDelete h.a e h2 h3
      have hs : s.Perm (idKey e :: idKeys (heapDelete h.a e)) := hp.symm.trans hperm
      have hnd : ((idKey e :: idKeys (heapDelete h.a e)).map Prod.fst).Nodup :=
        ((hperm.map Prod.fst).nodup_iff).1 hi.nodup
      have hfl := hs.filter (fun x => decide (x.1 ≠ id))
      have hid : idKey e = (id, e.key) := by simp [idKey, h1]
      rw [hid] at hfl hnd
      rw [filter_ne_of_nodup _ _ _ hnd] at hfl
      exact hfl.symm
  | expire now =>
    simp only [Heap.step, specStep, Heap.expire_eq]
    obtain ⟨i1, i2, i3, i4, _⟩ := expireLoop_spec h.a.size h.a now hi (Nat.le_refl _)
    refine ⟨i1, ?_⟩
    have hs := (hp.symm.trans i2).filter (fun x => decide (¬ x.2 < now))
    rw [List.filter_append] at hs
    have h1 : ((expireLoop h.a.size h.a now []).2.map idKey).filter (fun x => decide (¬ x.2 < now)) = [] := by
      rw [List.filter_eq_nil_iff]
      intro x hx
      rw [List.mem_map] at hx
      obtain ⟨e, he, rfl⟩ := hx
      have := i3 e he
      simpa [idKey] using this
    have h2 : (idKeys (expireLoop h.a.size h.a now []).1).filter (fun x => decide (¬ x.2 < now))
        = idKeys (expireLoop h.a.size h.a now []).1 := by
      rw [List.filter_eq_self]
      intro x hx
      simpa using i4 x hx
    rw [h1, h2, List.nil_append] at hs
    exact hs.symm

/-- the timers fired by `expire now` are exactly the due ones of the specification, in
    non-decreasing order of expiry -/
theorem expire_refine (h : Heap) (s : List (Nat × Nat)) (now : Nat) (hi : Inv h.a) (hp : (idKeys h.a).Perm s) :
    ((h.expire now).2.map idKey).Perm (specDue s now) ∧
    (h.expire now).2.Pairwise (fun x y => x.key ≤ y.key) := by
  rw [Heap.expire_eq]
  obtain ⟨_, i2, i3, i4, i5⟩ := expireLoop_spec h.a.size h.a now hi (Nat.le_refl _)
  refine ⟨?_, i5⟩
  simp only
  have hs := (hp.symm.trans i2).filter (fun x => decide (x.2 < now))
  rw [List.filter_append] at hs
  have h1 : ((expireLoop h.a.size h.a now []).2.map idKey).filter (fun x => decide (x.2 < now))
      = (expireLoop h.a.size h.a now []).2.map idKey := by
    rw [List.filter_eq_self]
    intro x hx
    rw [List.mem_map] at hx
    obtain ⟨e, he, rfl⟩ := hx
    have := i3 e he
    simp [idKey, this]
  have h2 : (idKeys (expireLoop h.a.size h.a now []).1).filter (fun x => decide (x.2 < now)) = [] := by
    rw [List.filter_eq_nil_iff]
    intro x hx
    simpa using i4 x hx
  rw [h1, h2, List.append_nil] at hs
  exact hs.symm

theorem run_refine_aux (ops : List HOp) (h : Heap) (s : List (Nat × Nat)) (hi : Inv h.a)
    (hp : (idKeys h.a).Perm s) :
    Inv (ops.foldl (fun h op => (h.step op).1) h).a ∧
    (idKeys (ops.foldl (fun h op => (h.step op).1) h).a).Perm (ops.foldl specStep s) := by
  induction ops generalizing h s with
  | nil => exact ⟨hi, hp⟩
  | cons op ops ih =>
    simp only [List.foldl_cons]
    obtain ⟨h1, h2⟩ := step_refine h s op hi hp
    exact ih _ _ h1 h2

/-- after every history the array heap satisfies the invariant and holds exactly the timers of
    the specification -/
theorem run_refine (ops : List HOp) :
    Inv (Heap.run ops).a ∧ (idKeys (Heap.run ops).a).Perm (specRun ops) :=
  run_refine_aux ops Heap.init [] Inv.empty (by simp [Heap.init, idKeys])

/-- every pair of the specification was put there by an `add` of the history -/
theorem mem_specRun_add (ops : List HOp) (x : Nat × Nat) (hx : x ∈ specRun ops) : HOp.add x.1 x.2 ∈ ops := by
  unfold specRun at hx
  have gen : ∀ (ops : List HOp) (s : List (Nat × Nat)), x ∈ ops.foldl specStep s → x ∈ s ∨ HOp.add x.1 x.2 ∈ ops := by
    intro ops
    induction ops with
    | nil => intro s h; exact Or.inl h
    | cons op ops ih =>
      intro s h
      rw [List.foldl_cons] at h
      rcases ih _ h with h1 | h1
      · cases op with
        | add id key =>
          simp only [specStep] at h1
          split at h1
          · exact Or.inl h1
          · rcases List.mem_cons.1 h1 with rfl | h2
            · exact Or.inr (List.mem_cons_self)
            · exact Or.inl h2
        | del id => exact Or.inl (List.mem_filter.1 h1).1
        | expire now => exact Or.inl (List.mem_filter.1 h1).1
      · exact Or.inr (List.mem_cons_of_mem _ h1)
  rcases gen ops [] hx with h | h
  · cases h
  · exact h

/-- `allocated` always covers `size`: `heap_entries[size-1]` is inside the `realloc`ed array -/
theorem run_allocated (ops : List HOp) : (Heap.run ops).a.size ≤ (Heap.run ops).allocated := by
  unfold Heap.run
  have gen : ∀ (ops : List HOp) (h : Heap), h.a.size ≤ h.allocated →
      (ops.foldl (fun h op => (h.step op).1) h).a.size ≤ (ops.foldl (fun h op => (h.step op).1) h).allocated := by
    intro ops
    induction ops with
    | nil => intro h hh; exact hh
    | cons op ops ih =>
      intro h hh
      rw [List.foldl_cons]
      apply ih
      cases op with
      | add id key =>
        simp only [Heap.step]
        split
        · exact hh
        · rw [Heap.add_a, size_addArr]
          simp only [Heap.add]
          split <;> omega
      | del id =>
        simp only [Heap.step, Heap.delId]
        cases h.find? id with
        | none => simpa using hh
        | some e =>
          simp only [Option.map_some, Option.getD_some, Heap.del, size_heapDelete]
          omega
      | expire now =>
        simp only [Heap.step, Heap.expire_eq]
        have : (expireLoop h.a.size h.a now []).1.size ≤ h.a.size := by
          have gen2 : ∀ (fuel : Nat) (a : Arr), (expireLoop fuel a now []).1.size ≤ a.size := by
            intro fuel
            induction fuel with
            | zero => intro a; simp [expireLoop]
            | succ n ih2 =>
              intro a
              rw [expireLoop_succ]
              split
              · have := ih2 (heapDelete a (get a 0))
                rw [size_heapDelete] at this
                simp only; omega
              · simp
          exact gen2 _ _
        omega
  exact gen ops Heap.init (by simp [Heap.init])

end QbVerif.Heap
