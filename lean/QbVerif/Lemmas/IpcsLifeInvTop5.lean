import QbVerif.Lemmas.IpcsLifeInvTop4

/-! C04 — `connect` assembled; the invariant of whole histories (`TopInv`). -/
namespace QbVerif.IpcsLife

theorem halted_nb {s : St} (h : s.halt = true) : s.halt = false → NB s := fun hx => by rw [h] at hx; cases hx

theorem same_pollAdd (s : St) :
    Same s s.pollAdd.2 ∧ s.pollAdd.2.nconn = s.nconn ∧ s.pollAdd.2.halt = s.halt := by
  unfold St.pollAdd; split <;> exact ⟨⟨rfl, rfl, rfl, rfl, rfl, rfl⟩, rfl, rfl⟩

theorem same_transportAdd (s : St) (r : Int) :
    Same s (transportAdd s r).2 ∧ (transportAdd s r).2.nconn = s.nconn ∧ (transportAdd s r).2.halt = s.halt := by
  have h1 := same_pollAdd s
  have h2 := same_pollAdd s.pollAdd.2
  unfold transportAdd
  split
  · exact ⟨Same.refl s, rfl, rfl⟩
  · simp only []
    split
    · exact h1
    · split
      · split
        · exact ⟨h1.1.trans h2.1, h2.2.1.trans h1.2.1, h2.2.2.trans h1.2.2⟩
        · exact ⟨h1.1.trans h2.1, h2.2.1.trans h1.2.1, h2.2.2.trans h1.2.2⟩
      · exact h1

theorem halt_touchSvc_mono (s : St) (h : s.touchSvc.halt = false) : s.halt = false := by
  unfold St.touchSvc at h; split at h
  · cases h
  · exact h

theorem halt_svcUnref_mono (s : St) (h : s.svcUnref.halt = false) : s.halt = false := by
  simp only [St.svcUnref] at h
  split at h
  · exact halt_touchSvc_mono s h
  · split at h <;> exact halt_touchSvc_mono s h

theorem same_authRefused (s : St) :
    Same s (authRefused s) ∧ (authRefused s).nconn = s.nconn ∧ ((authRefused s).halt = false → s.halt = false) := by
  unfold authRefused
  have h0 : Same s ({ s with svcRc := s.svcRc + 1 } : St) := ⟨rfl, rfl, rfl, rfl, rfl, rfl⟩
  exact ⟨(h0.trans (same_svcUnref _)).trans (same_emit _ _), by simp,
    fun hx => halt_svcUnref_mono ({ s with svcRc := s.svcRc + 1 } : St) hx⟩

theorem connectGo_ok {s : St} (h : Core s) (hh : s.halt = false) (hnb : NB s) (K : Nat) (cerr : Int) :
    Core (connectGo s K cerr) ∧ ((connectGo s K cerr).halt = false → NB (connectGo s K cerr)) := by
  unfold connectGo
  · generalize hp : (connA s).pop .accept = p
    obtain ⟨hc1, hnb1, hh1, hph1, hl1, hn1⟩ := connAlloc_ok h hnb p hp
    have he := hc1.exec FUEL (.ops (s.nconn + 1) p.1.ops) trivial
    have hph2 := (he.2 (s.nconn + 1)).acc hph1
    have hnb2 := hnb1.frame he.2
    simp only []
    by_cases h2 : (exec FUEL (p.2.cb .accept (s.nconn + 1) p.1.ret) (.ops (s.nconn + 1) p.1.ops)).halt = true
    · simp only [h2, ↓reduceIte]; exact ⟨he.1, fun hx => by cases hx⟩
    · have h2' : (exec FUEL (p.2.cb .accept (s.nconn + 1) p.1.ret) (.ops (s.nconn + 1) p.1.ops)).halt = false := by
        simpa using h2
      simp only [h2', Bool.false_eq_true, ↓reduceIte]
      by_cases hret : p.1.ret = 0 ∧ cerr = 0
      · have hb : (p.1.ret != 0 || cerr != 0) = false := by simp [hret.1, hret.2]
        have hnd : ((exec FUEL (p.2.cb .accept (s.nconn + 1) p.1.ret) (.ops (s.nconn + 1) p.1.ops)).conns
            (s.nconn + 1)).phase ≠ .dead := by rw [hph2]; simp
        simp only [hb, Bool.false_eq_true, ↓reduceIte, touch_eq _ _ (he.1.inv.notFreed hnd), h2']
        have hnl : (s.nconn + 1) ∉
            (exec FUEL (p.2.cb .accept (s.nconn + 1) p.1.ret) (.ops (s.nconn + 1) p.1.ops)).list := by
          intro hx
          have := (exec_sublist _ _ _).subset hx
          rw [hl1] at this
          have := h.bound _ this
          omega
        obtain ⟨hc3, hb3, hh3⟩ := connAct_ok he.1 (s.nconn + 1) hnb2 hph2 hnl
        generalize hq : (connActPre (exec FUEL (p.2.cb .accept (s.nconn + 1) p.1.ret)
          (.ops (s.nconn + 1) p.1.ops)) (s.nconn + 1)).pop .created = q
        have hsq := same_pop (connActPre (exec FUEL (p.2.cb .accept (s.nconn + 1) p.1.ret)
          (.ops (s.nconn + 1) p.1.ops)) (s.nconn + 1)) .created
        rw [hq] at hsq
        have hc4 : Core q.2 := hc3.same hsq (by rw [← hq]; simp)
        have hb4 : BrC q.2 (s.nconn + 1) := fun i => by rw [hsq.conns]; exact hb3 i
        have he5 := hc4.exec FUEL (.ops (s.nconn + 1) q.1.ops) trivial
        have hb5 := hb4.frame he5.2
        by_cases h5 : (exec FUEL q.2 (.ops (s.nconn + 1) q.1.ops)).halt = true
        · simp only [h5, ↓reduceIte]; exact ⟨he5.1, fun hx => by cases hx⟩
        · have h5' : (exec FUEL q.2 (.ops (s.nconn + 1) q.1.ops)).halt = false := by simpa using h5
          have hbr : ((exec FUEL q.2 (.ops (s.nconn + 1) q.1.ops)).conns (s.nconn + 1)).brCreated = true := by
            have := hb5 (s.nconn + 1); simp [Brs] at this; exact this.1
          have hf5 := ((he5.1.inv.conn (s.nconn + 1)).bracket (Or.inl hbr)).1
          simp only [h5', Bool.false_eq_true, ↓reduceIte, touch_eq _ _ hf5]
          have := connEst_ok he5.1 (s.nconn + 1) h5' hb5 K
          exact ⟨this.1, fun _ => this.2⟩
      · have hb : (p.1.ret != 0 || cerr != 0) = true := by
          by_cases h1 : p.1.ret = 0
          · have h3 : cerr ≠ 0 := fun hc => hret ⟨h1, hc⟩
            simp [h1, h3]
          · simp [h1]
        simp only [hb, ↓reduceIte]
        have := connRej_ok he.1 (s.nconn + 1) h2' hnb2 hph2 (if p.1.ret != 0 then p.1.ret else cerr)
        exact ⟨this.1, fun _ => this.2⟩

theorem connect_ok {s : St} (h : Core s) (hh : s.halt = false) (hnb : NB s) (K : Nat) :
    Core (connect s K) ∧ ((connect s K).halt = false → NB (connect s K)) := by
  unfold connect
  split
  · exact ⟨h.same (same_emit s _) rfl, fun _ => hnb⟩
  · have h1 := same_pollAdd s
    simp only []
    split
    · have h2 := same_authRefused s.pollAdd.2
      exact ⟨h.same (h1.1.trans h2.1) (h2.2.1.trans h1.2.1), fun _ i => by
        rw [(h1.1.trans h2.1).conns]; exact hnb i⟩
    · have h2 := same_transportAdd s.pollAdd.2 (peekAccept s)
      have hs := h1.1.trans h2.1
      exact connectGo_ok (h.same hs (h2.2.1.trans h1.2.1)) (by rw [h2.2.2, h1.2.2]; exact hh)
        (fun i => by rw [hs.conns]; exact hnb i) K _

end QbVerif.IpcsLife
