import QbVerif.Lemmas.IpcsLifeInvTop4

/-! C04 — `connect` assembled; the invariant of whole histories (`TopInv`). -/
namespace QbVerif.IpcsLife

theorem halted_nb {s : St} (h : s.halt = true) : s.halt = false → NB s := fun hx => by rw [h] at hx; cases hx

theorem connect_ok {s : St} (h : Core s) (hh : s.halt = false) (hnb : NB s) (K : Nat) :
    Core (connect s K) ∧ ((connect s K).halt = false → NB (connect s K)) := by
  unfold connect
  split
  · exact ⟨h.same (same_emit s _) rfl, fun _ => hnb⟩
  · generalize hp : (connA s).pop .accept = p
    obtain ⟨hc1, hnb1, hh1, hph1, hl1, hn1⟩ := connAlloc_ok h hnb p hp
    have he := hc1.exec FUEL (.ops (s.nconn + 1) p.1.ops) trivial
    have hph2 := (he.2 (s.nconn + 1)).acc hph1
    have hnb2 := hnb1.frame he.2
    simp only []
    by_cases h2 : (exec FUEL (p.2.cb .accept (s.nconn + 1) p.1.ret) (.ops (s.nconn + 1) p.1.ops)).halt = true
    · simp only [h2, ↓reduceIte]; exact ⟨he.1, fun hx => by cases hx⟩
    · have h2' : (exec FUEL (p.2.cb .accept (s.nconn + 1) p.1.ret) (.ops (s.nconn + 1) p.1.ops)).halt = false := by
        simpa using h2
      simp only [h2', Bool.false_eq_true, ↓reduceIte]
      by_cases hret : p.1.ret = 0
      · have hb : (p.1.ret != 0) = false := by simp [hret]
        have hnd : ((exec FUEL (p.2.cb .accept (s.nconn + 1) p.1.ret) (.ops (s.nconn + 1) p.1.ops)).conns
            (s.nconn + 1)).phase ≠ .dead := by rw [hph2]; simp
        simp only [hb, Bool.false_eq_true, ↓reduceIte, touch_eq _ _ (he.1.inv.notFreed hnd), h2']
        have hnl : (s.nconn + 1) ∉
            (exec FUEL (p.2.cb .accept (s.nconn + 1) p.1.ret) (.ops (s.nconn + 1) p.1.ops)).list := by
          intro hx
          have := (exec_sublist _ _ _).subset hx
          rw [hl1] at this
          have := h.bound _ this
          omega
        obtain ⟨hc3, hb3, hh3⟩ := connAct_ok he.1 (s.nconn + 1) hnb2 hph2 hnl
        generalize hq : (connActPre (exec FUEL (p.2.cb .accept (s.nconn + 1) p.1.ret)
          (.ops (s.nconn + 1) p.1.ops)) (s.nconn + 1)).pop .created = q
        have hsq := same_pop (connActPre (exec FUEL (p.2.cb .accept (s.nconn + 1) p.1.ret)
          (.ops (s.nconn + 1) p.1.ops)) (s.nconn + 1)) .created
        rw [hq] at hsq
        have hc4 : Core q.2 := hc3.same hsq (by rw [← hq]; simp)
        have hb4 : BrC q.2 (s.nconn + 1) := fun i => by rw [hsq.conns]; exact hb3 i
        have he5 := hc4.exec FUEL (.ops (s.nconn + 1) q.1.ops) trivial
        have hb5 := hb4.frame he5.2
        by_cases h5 : (exec FUEL q.2 (.ops (s.nconn + 1) q.1.ops)).halt = true
        · simp only [h5, ↓reduceIte]; exact ⟨he5.1, fun hx => by cases hx⟩
        · have h5' : (exec FUEL q.2 (.ops (s.nconn + 1) q.1.ops)).halt = false := by simpa using h5
          have hbr : ((exec FUEL q.2 (.ops (s.nconn + 1) q.1.ops)).conns (s.nconn + 1)).brCreated = true := by
            have := hb5 (s.nconn + 1); simp [Brs] at this; exact this.1
          have hf5 := ((he5.1.inv.conn (s.nconn + 1)).bracket (Or.inl hbr)).1
          simp only [h5', Bool.false_eq_true, ↓reduceIte, touch_eq _ _ hf5]
          have := connEst_ok he5.1 (s.nconn + 1) h5' hb5 K
          exact ⟨this.1, fun _ => this.2⟩
      · have hb : (p.1.ret != 0) = true := by simp [hret]
        simp only [hb, ↓reduceIte]
        have := connRej_ok he.1 (s.nconn + 1) h2' hnb2 hph2 p.1.ret
        exact ⟨this.1, fun _ => this.2⟩

end QbVerif.IpcsLife
