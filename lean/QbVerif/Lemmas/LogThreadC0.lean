import QbVerif.Lemmas.LogThreadInv

/-! The invariant `Inv` is preserved when the controller C begins an operation (`beginOp`). -/
namespace QbVerif.LogThread

set_option linter.unusedSimpArgs false
set_option linter.unusedVariables false

theorem LockPtr.null_of_not_live {l : LockPtr} (h1 : l ≠ .dead) (h2 : l ≠ .live) : l = .null := by
  cases l <;> simp_all

theorem APc.idle_of_not_needsLock {pc : APc} (h1 : pc = .idle ∨ pc.inLog = true) (h2 : pc.needsLock = false) :
    pc = .idle := by
  cases pc <;> simp_all

set_option maxHeartbeats 2000000 in
theorem inv_cStep_idle (cfg : Cfg) (hf : Fixed cfg) (s : St) (h : Inv cfg s) (hen : enabledApp s .C = true)
    (hpc : s.c.pc = .idle) : Inv cfg (appStep cfg s .C) := by
  obtain ⟨hf1, hf2, hf3⟩ := hf
  obtain ⟨inited, tgtOpen, tgtEnabled, tgtThreaded, active, shouldExit, lock, owner, sem, startSem, queue,
    mem, droppedCtr, ⟨pcC, progC⟩, ⟨pcP, progP⟩, pcW, nextSeq, ignored, syncWritten, accepted, dropTotal,
    popped, written, discarded, reports, outcome, evs⟩ := s
  obtain ⟨h_run, h_nd, h_act, h_wnone, h_wnogv, h_null, h_oc, h_op, h_ow, h_nc, h_np, h_cnogv, h_ppcs, h_plogs,
    h_exit, h_cexcl, h_wexit, h_guard, h_wsp, h_hs, h_tok, h_mem, h_meml, h_dropq, h_sc, h_sp, h_spc, h_spp⟩ := h
  simp only at *
  subst hpc
  have hWe : pcW.exiting = false := by
    cases hh : pcW.exiting
    · rfl
    · simp [hh] at h_wexit
  have hse : shouldExit = false := by
    cases shouldExit
    · rfl
    · simp at h_exit
  subst hse
  -- with the lock pointer NULL nobody is inside the library
  have hnull : lock = .null → pcP = .idle ∧ pcW = .none ∧ owner = none ∧ queue = [] ∧ droppedCtr = 0 ∧
      active = false := by
    intro hl
    subst hl
    have h1 : pcP.needsLock = false := by
      cases hh : pcP.needsLock
      · rfl
      · simp [hh] at h_np
    have h2 := APc.idle_of_not_needsLock h_ppcs h1
    simp_all
  cases progC with
  | nil => simp [enabledApp, St.app] at hen
  | cons op rest =>
    have hsz := h_sc op (by simp)
    have hsr : ∀ o ∈ rest, o.sizeOk cfg := fun o ho => h_sc o (by simp [ho])
    cases op
    case init =>
      simp [appStep, St.app, St.setApp, beginOp, St.emit, guarded] at *
      cases inited <;>
      · simp [St.ret, St.setPc, St.setApp, St.app, St.emit]
        constructor <;> simp_all [Pdone, AppId.tid]
    case open_ =>
      simp [appStep, St.app, St.setApp, beginOp, St.emit, guarded] at *
      split <;>
      · simp [St.ret, St.setPc, St.setApp, St.app, St.emit]
        constructor <;> simp_all [Pdone, AppId.tid]
    case threaded b =>
      simp [appStep, St.app, St.setApp, beginOp, St.emit, guarded] at *
      split <;>
      · simp [St.ret, St.setPc, St.setApp, St.app, St.emit]
        constructor <;> simp_all [Pdone, AppId.tid]
    case joinp =>
      simp [appStep, St.app, St.setApp, beginOp, St.emit, guarded, St.setPc] at *
      constructor <;> simp_all [Pdone, AppId.tid]
    case enable b =>
      simp [appStep, St.app, St.setApp, beginOp, St.emit, guarded, pauseLocks, hf2, ctlBody] at *
      split
      · split
        · rename_i hpl
          have hl : lock = .live := by
            cases lock <;> simp_all
          subst hl
          simp [St.lockCheck, St.ret, St.setPc, St.setApp, St.app, St.emit]
          constructor <;> simp_all [Pdone, AppId.tid]
        · simp [St.ret, St.setPc, St.setApp, St.app, St.emit]
          constructor <;> simp_all [Pdone, AppId.tid]
      · simp [St.ret, St.setPc, St.setApp, St.app, St.emit]
        constructor <;> simp_all [Pdone, AppId.tid]
    case ctl =>
      simp [appStep, St.app, St.setApp, beginOp, St.emit, guarded, pauseLocks, hf2, ctlBody] at *
      split
      · split
        · rename_i hpl
          have hl : lock = .live := by
            cases lock <;> simp_all
          subst hl
          simp [St.lockCheck, St.ret, St.setPc, St.setApp, St.app, St.emit]
          constructor <;> simp_all [Pdone, AppId.tid]
        · simp [St.ret, St.setPc, St.setApp, St.app, St.emit]
          constructor <;> simp_all [Pdone, AppId.tid]
      · simp [St.ret, St.setPc, St.setApp, St.app, St.emit]
        constructor <;> simp_all [Pdone, AppId.tid]
    case start =>
      simp [appStep, St.app, St.setApp, beginOp, St.emit, guarded] at *
      cases active
      case true =>
        simp [St.ret, St.setPc, St.setApp, St.app, St.emit]
        constructor <;> simp_all [Pdone, AppId.tid]
      case false =>
        have hl : lock = .null := LockPtr.null_of_not_live h_nd (by
          intro hl
          exact absurd (h_act.mpr hl) (by simp))
        obtain ⟨n1, n2, n3, n4, n5, n6⟩ := hnull hl
        subst hl n1 n2 n3 n4 n5
        simp [St.ret, St.setPc, St.setApp, St.app, St.emit]
        constructor <;> simp_all [Pdone, AppId.tid]
    case startfail =>
      simp [appStep, St.app, St.setApp, beginOp, St.emit, guarded, hf3] at *
      split
      · simp [St.ret, St.setPc, St.setApp, St.app, St.emit]
        constructor <;> simp_all [Pdone, AppId.tid]
      · rename_i hna
        have hl : lock = .null := LockPtr.null_of_not_live h_nd (by
          intro hl
          exact hna (h_act.mpr hl))
        obtain ⟨n1, n2, n3, n4, n5, n6⟩ := hnull hl
        subst hl n1 n2 n3 n4 n5 n6
        simp [St.ret, St.setPc, St.setApp, St.app, St.emit]
        constructor <;> simp_all [Pdone, AppId.tid]
    case log len =>
      have hpd : pcP = .idle ∧ progP = [] := by
        simpa [Pdone, guarded] using h_guard
      obtain ⟨rfl, rfl⟩ := hpd
      have hsz' : cfg.recSize + len + 1 ≤ cfg.limit := by simpa [Op.sizeOk] using hsz
      simp [appStep, St.app, St.setApp, beginOp, St.emit, hf2]
      split
      · simp [St.ret, St.setPc, St.setApp, St.app, St.emit]
        constructor <;> simp_all [Pdone, AppId.tid]
      · split
        · simp [St.ret, St.setPc, St.setApp, St.app, St.emit]
          constructor <;> simp_all [Pdone, AppId.tid]
        · split
          · simp [St.ret, St.setPc, St.setApp, St.app, St.emit]
            constructor <;> simp_all [Pdone, AppId.tid]
          · rename_i hnn
            have hl : lock = .live := by
              cases lock <;> simp_all
            subst hl
            simp [St.lockCheck, St.ret, St.setPc, St.setApp, St.app, St.emit]
            constructor <;> simp_all [Pdone, AppId.tid]
    case fini =>
      have hpd : pcP = .idle ∧ progP = [] := by
        simpa [Pdone, guarded] using h_guard
      obtain ⟨rfl, rfl⟩ := hpd
      simp [appStep, St.app, St.setApp, beginOp, St.emit, finiRest]
      split
      · simp [St.ret, St.setPc, St.setApp, St.app, St.emit]
        constructor <;> simp_all [Pdone, AppId.tid]
      · cases hact : active
        · have hl : lock = .null := LockPtr.null_of_not_live h_nd (by
            intro hl
            have := h_act.mpr hl
            simp_all)
          obtain ⟨n1, n2, n3, n4, n5, n6⟩ := hnull hl
          subst hl n2 n3 n4 n5
          simp [St.ret, St.setPc, St.setApp, St.app, St.emit]
          constructor <;> simp_all [Pdone, AppId.tid]
        · have hl : lock = .live := h_act.mp hact
          subst hl
          simp [St.lockCheck, St.ret, St.setPc, St.setApp, St.app, St.emit]
          constructor <;> simp_all [Pdone, AppId.tid]

end QbVerif.LogThread
