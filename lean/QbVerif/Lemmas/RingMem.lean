/-
The ring's memory seen through *absolute* addresses (C07, C11).

`cell m W a` is the byte the circular mapping shows at absolute byte address `a` (index
`a % (4*W)`), `word m W A` the little-endian word at absolute word address `A`.  The lemmas
say what `wr32` / `copyIn` of the model do to cells and words; side conditions are window
conditions ("the two addresses are different and less than one ring apart") that `omega` decides.
-/
import QbVerif.Lemmas.RingArith

namespace QbVerif.RingLemmas
open QbVerif.Ring QbVerif.RingSpec

def cell (m : Array Nat) (W a : Nat) : Nat := m.getD (a % (4 * W)) 0
def setCell (m : Array Nat) (W a v : Nat) : Array Nat := m.setIfInBounds (a % (4 * W)) v
def word (m : Array Nat) (W A : Nat) : Nat := rd32 m (A % W)
def setWord (m : Array Nat) (W A v : Nat) : Array Nat := wr32 m (A % W) v

/-- two absolute addresses that are different and less than `N` apart -/
def Apart (N a b : Nat) : Prop := (a < b ∧ b < a + N) ∨ (b < a ∧ a < b + N)

@[simp] theorem size_setCell (m W a v) : (setCell m W a v).size = m.size := by simp [setCell]

@[simp] theorem size_wr32 (m p v) : (wr32 m p v).size = m.size := by simp [wr32]

@[simp] theorem size_setWord (m W A v) : (setWord m W A v).size = m.size := by simp [setWord]

theorem cell_setCell_eq {m : Array Nat} {W a v : Nat} (hs : m.size = 4 * W) (hW : 0 < W) :
    cell (setCell m W a v) W a = v := by
  have : a % (4 * W) < m.size := by rw [hs]; exact Nat.mod_lt _ (by omega)
  simp [cell, setCell, this]

theorem cell_setCell_ne {m : Array Nat} {W a b v : Nat} (h : Apart (4 * W) a b) :
    cell (setCell m W b v) W a = cell m W a := by
  have : b % (4 * W) ≠ a % (4 * W) := fun e => mod_ne_of_window h e.symm
  simp [cell, setCell, this]

theorem cell_add_period (m : Array Nat) (W a : Nat) : cell m W (a + 4 * W) = cell m W a := by
  simp [cell]

theorem word_add_period (m : Array Nat) (W A : Nat) : word m W (A + W) = word m W A := by
  simp [word]

theorem word_eq_cells {m : Array Nat} {W A : Nat} (hW : 0 < W) :
    word m W A = cell m W (4 * A) + 256 * cell m W (4 * A + 1) + 65536 * cell m W (4 * A + 2)
      + 16777216 * cell m W (4 * A + 3) := by
  have h0 := mul4_mod A W 0 (by omega) hW
  have h1 := mul4_mod A W 1 (by omega) hW
  have h2 := mul4_mod A W 2 (by omega) hW
  have h3 := mul4_mod A W 3 (by omega) hW
  simp only [Nat.add_zero] at h0
  unfold word rd32 cell
  rw [← h0, ← h1, ← h2, ← h3]

theorem setWord_eq_cells {m : Array Nat} {W A v : Nat} (hW : 0 < W) :
    setWord m W A v = setCell (setCell (setCell (setCell m W (4 * A) (v % 256)) W (4 * A + 1) (v / 256 % 256))
      W (4 * A + 2) (v / 65536 % 256)) W (4 * A + 3) (v / 16777216 % 256) := by
  have h0 := mul4_mod A W 0 (by omega) hW
  have h1 := mul4_mod A W 1 (by omega) hW
  have h2 := mul4_mod A W 2 (by omega) hW
  have h3 := mul4_mod A W 3 (by omega) hW
  simp only [Nat.add_zero] at h0
  unfold setWord wr32 setCell
  rw [← h0, ← h1, ← h2, ← h3]

/-- a word store leaves every cell outside the word alone -/
theorem cell_setWord_ne {m : Array Nat} {W A a v : Nat} (hW : 0 < W)
    (h : (a < 4 * A ∧ 4 * A + 3 < a + 4 * W) ∨ (4 * A + 3 < a ∧ a < 4 * A + 4 * W)) :
    cell (setWord m W A v) W a = cell m W a := by
  rw [setWord_eq_cells hW]
  rw [cell_setCell_ne (by unfold Apart; omega), cell_setCell_ne (by unfold Apart; omega),
    cell_setCell_ne (by unfold Apart; omega), cell_setCell_ne (by unfold Apart; omega)]

theorem word_setWord_eq {m : Array Nat} {W A v : Nat} (hs : m.size = 4 * W) (hW : 0 < W) :
    word (setWord m W A v) W A = v % 2 ^ 32 := by
  rw [word_eq_cells hW, setWord_eq_cells hW]
  rw [cell_setCell_ne (by unfold Apart; omega), cell_setCell_ne (by unfold Apart; omega),
    cell_setCell_ne (by unfold Apart; omega), cell_setCell_eq hs hW]
  rw [cell_setCell_ne (by unfold Apart; omega), cell_setCell_ne (by unfold Apart; omega),
    cell_setCell_eq (by simp [hs]) hW]
  rw [cell_setCell_ne (by unfold Apart; omega), cell_setCell_eq (by simp [hs]) hW]
  rw [cell_setCell_eq (by simp [hs]) hW]
  omega

theorem word_setWord_ne {m : Array Nat} {W A B v : Nat} (hW : 0 < W) (h : Apart W A B) :
    word (setWord m W B v) W A = word m W A := by
  unfold Apart at h
  rw [word_eq_cells hW, word_eq_cells hW]
  rw [cell_setWord_ne hW (by omega), cell_setWord_ne hW (by omega), cell_setWord_ne hW (by omega),
    cell_setWord_ne hW (by omega)]

/-- words are determined by their four cells -/
theorem word_congr {m m' : Array Nat} {W A : Nat} (hW : 0 < W)
    (h : ∀ a, 4 * A ≤ a → a < 4 * A + 4 → cell m' W a = cell m W a) : word m' W A = word m W A := by
  rw [word_eq_cells hW, word_eq_cells hW, h _ (by omega) (by omega), h _ (by omega) (by omega),
    h _ (by omega) (by omega), h _ (by omega) (by omega)]

/-! ### copyIn -/

@[simp] theorem size_copyIn (m : Array Nat) (W base j : Nat) (d : List Nat) :
    (copyIn m W base j d).size = m.size := by
  induction d generalizing m j with
  | nil => rfl
  | cons b bs ih => simp [copyIn, ih]

/-- `copyIn` only depends on the base address modulo the ring size -/
theorem copyIn_congr_base (m : Array Nat) (W base base' j : Nat) (d : List Nat)
    (h : base % (4 * W) = base' % (4 * W)) : copyIn m W base j d = copyIn m W base' j d := by
  induction d generalizing m j with
  | nil => rfl
  | cons b bs ih =>
    have : (base + j) % (4 * W) = (base' + j) % (4 * W) := by
      rw [← Nat.mod_add_mod base, h, Nat.mod_add_mod]
    simp only [copyIn, this, ih]

theorem copyIn_cons (m : Array Nat) (W base j b : Nat) (bs : List Nat) :
    copyIn m W base j (b :: bs) = copyIn (setCell m W (base + j) b) W base (j + 1) bs := rfl

/-- cells outside the destination range are untouched -/
theorem cell_copyIn_out {m : Array Nat} {W base j a : Nat} {d : List Nat}
    (h : (a < base + j ∧ base + j + d.length ≤ a + 4 * W) ∨ (base + j + d.length ≤ a ∧ a < base + j + 4 * W)) :
    cell (copyIn m W base j d) W a = cell m W a := by
  induction d generalizing m j with
  | nil => rfl
  | cons b bs ih =>
    simp only [List.length_cons] at h
    rw [copyIn_cons, ih (by omega), cell_setCell_ne (by unfold Apart; omega)]

/-- the destination range holds the data -/
theorem cell_copyIn_in {m : Array Nat} {W base j : Nat} {d : List Nat} (hs : m.size = 4 * W) (hW : 0 < W)
    (hlen : d.length ≤ 4 * W) (i : Nat) (hi : i < d.length) :
    cell (copyIn m W base j d) W (base + j + i) = d[i] := by
  induction d generalizing m j i with
  | nil => simp at hi
  | cons b bs ih =>
    simp only [List.length_cons] at hlen hi
    rw [copyIn_cons]
    cases i with
    | zero =>
      rw [cell_copyIn_out (by omega)]
      simp [cell_setCell_eq hs hW]
    | succ i =>
      have := ih (m := setCell m W (base + j) b) (j := j + 1) (by simp [hs]) (by omega) i (by omega)
      simp only [List.getElem_cons_succ]
      rw [← this]; congr 1; omega

end QbVerif.RingLemmas
