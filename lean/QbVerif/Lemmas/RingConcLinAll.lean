/-
C01 — the three invariants together along every schedule: ownership (`CInv`), the linearisation
history is a FIFO run (`LinOk`), and it consists of exactly the calls of the two threads with the
results they returned (`LinObsW`, `LinObsR`).
-/
import QbVerif.Lemmas.RingConcLinObsR

namespace QbVerif.RingConcLemmas
open QbVerif.Ring QbVerif.RingSpec QbVerif.RingLemmas QbVerif.RingConc

/-- everything that is proved about a reachable configuration -/
structure Full (f0 : Fifo) (wprog0 : List WOp) (rprog0 : List ROp) (c : Conf) (q : List (List Nat)) : Prop where
  inv : CInv c q
  lin : LinOk f0 c q
  obsW : LinObsW wprog0 c
  obsR : LinObsR rprog0 c q

section
variable {c : Conf} {q : List (List Nat)} {f0 : Fifo} {wprog0 : List WOp} {rprog0 : List ROp}

theorem wstep_full (h : Full f0 wprog0 rprog0 c q) : ∃ q', Full f0 wprog0 rprog0 (wstep c) q' := by
  have hw := wstep_linObsW h.inv h.obsW
  rcases wstep_lin h.inv h.lin with ⟨a, b⟩ | ⟨op, rest, _, a, b⟩
  · exact ⟨q, a, b, hw, (wstep_linObsR h.inv h.obsR []).1⟩
  · exact ⟨_, a, b, hw, (wstep_linObsR h.inv h.obsR op.data).2⟩

theorem rstep_full (h : Full f0 wprog0 rprog0 c q) : ∃ q', Full f0 wprog0 rprog0 (rstep c) q' := by
  have hw := rstep_linObsW wprog0 c h.obsW
  cases hp : c.rprog with
  | nil =>
    have e : rstep c = c := by unfold rstep; simp only [hp]
    rw [e]; exact ⟨q, h⟩
  | cons op rest =>
    have hi := h.inv
    have hl := h.lin
    have ns : (∀ n, c.rpc ≠ .rcSetRp n) → CInv (rstep c) q → LinOk f0 (rstep c) q →
        ∃ q', Full f0 wprog0 rprog0 (rstep c) q' :=
      fun hns a b => ⟨q, a, b, hw, rstep_linObsR hi h.obsR hp hns⟩
    cases hpc : c.rpc with
    | idle => exact ns (by rw [hpc]; simp) (r_idle hi hp hpc) (rlin_read hi hl hp (.inl hpc))
    | rdRp => exact ns (by rw [hpc]; simp) (r_rdRp hi hp hpc) (rlin_read hi hl hp (.inr (.inl hpc)))
    | rdMg p => exact ns (by rw [hpc]; simp) (r_rdMg hi hp hpc) (rlin_read hi hl hp (.inr (.inr (.inl ⟨p, hpc⟩))))
    | rdBad => exact ns (by rw [hpc]; simp) (r_rdBad hi hp hpc) (rlin_read hi hl hp (.inr (.inr (.inr (.inl hpc)))))
    | rdSz p => exact ns (by rw [hpc]; simp) (r_rdSz hi hp hpc) (rlin_read hi hl hp (.inr (.inr (.inr (.inr (.inl ⟨p, hpc⟩))))))
    | rdShort => exact ns (by rw [hpc]; simp) (r_rdShort hi hp hpc) (rlin_read hi hl hp (.inr (.inr (.inr (.inr (.inr (.inl hpc)))))))
    | rdCpy p sz => exact ns (by rw [hpc]; simp) (r_rdCpy hi hp hpc) (rlin_read hi hl hp (.inr (.inr (.inr (.inr (.inr (.inr ⟨p, sz, hpc⟩)))))))
    | pkRp => exact ns (by rw [hpc]; simp) (r_pkRp hi hp hpc) (rlin_peek hi hl hp (.inl hpc))
    | pkMg p => exact ns (by rw [hpc]; simp) (r_pkMg hi hp hpc) (rlin_peek hi hl hp (.inr (.inl ⟨p, hpc⟩)))
    | pkBad => exact ns (by rw [hpc]; simp) (r_pkBad hi hp hpc) (rlin_peek hi hl hp (.inr (.inr (.inl hpc))))
    | pkSz p => exact ns (by rw [hpc]; simp) (r_pkSz hi hp hpc) (rlin_peek hi hl hp (.inr (.inr (.inr (.inl ⟨p, hpc⟩)))))
    | rcopy p sz j => exact ns (by rw [hpc]; simp) (r_rcopy hi hp hpc) (rlin_peek hi hl hp (.inr (.inr (.inr (.inr ⟨p, sz, j, hpc⟩)))))
    | rcRp => exact ns (by rw [hpc]; simp) (r_rcRp hi hp hpc) (rlin_reclaim hi hl hp (.inl hpc))
    | rcMg o => exact ns (by rw [hpc]; simp) (r_rcMg hi hp hpc) (rlin_reclaim hi hl hp (.inr (.inl ⟨o, hpc⟩)))
    | rcSz o => exact ns (by rw [hpc]; simp) (r_rcSz hi hp hpc) (rlin_reclaim hi hl hp (.inr (.inr (.inl ⟨o, hpc⟩))))
    | rcStep o => exact ns (by rw [hpc]; simp) (r_rcStep hi hp hpc) (rlin_reclaim hi hl hp (.inr (.inr (.inr (.inl ⟨o, hpc⟩)))))
    | rcClr o n => exact ns (by rw [hpc]; simp) (r_rcClr hi hp hpc) (rlin_reclaim hi hl hp (.inr (.inr (.inr (.inr (.inl ⟨o, n, hpc⟩))))))
    | rcDead o n => exact ns (by rw [hpc]; simp) (r_rcDead hi hp hpc) (rlin_reclaim hi hl hp (.inr (.inr (.inr (.inr (.inr ⟨o, n, hpc⟩))))))
    | rcSetRp n =>
      obtain ⟨d, ds, hq, _, hi'⟩ := r_rcSetRp hi hp hpc
      exact ⟨ds, hi', rlin_setRp hi hl hp hpc d ds hq, hw, rstep_linObsR_set hi h.obsR hp hpc d ds hq⟩

end

theorem run_full {f0 : Fifo} {wprog0 : List WOp} {rprog0 : List ROp} {c : Conf}
    (h : ∃ q, Full f0 wprog0 rprog0 c q) (sched : List Tid) : ∃ q, Full f0 wprog0 rprog0 (run c sched) q := by
  induction sched generalizing c with
  | nil => exact h
  | cons t ts ih =>
    apply ih
    obtain ⟨q, hq⟩ := h
    cases t with
    | w => exact wstep_full hq
    | r => exact rstep_full hq

theorem init_full {rb : Rb} (h : RingLemmas.Inv rb [] 0) (hsem : ∀ n, rb.sem = some n → n = 0)
    (wprog : List WOp) (rprog : List ROp) :
    Full ⟨rb.W, [], rb.sem⟩ wprog rprog (init rb wprog rprog) [] :=
  ⟨init_inv h hsem wprog rprog, init_lin rb wprog rprog,
   ⟨[], rfl, rfl, by unfold inflightLinW init; cases wprog <;> rfl⟩,
   ⟨[], rfl, rfl, by unfold inflightLinR init; cases rprog with
      | nil => rfl
      | cons op r => cases op <;> rfl⟩⟩

end QbVerif.RingConcLemmas
