/-
IPC model (property C02): the capacity parameter `W` of the three rings of a shared-memory
connection never changes, and is what `qb_rb_open_2` computed from the negotiated maximum.
-/
import QbVerif.Lemmas.IpcGhost

namespace QbVerif.IpcLemmas
open QbVerif QbVerif.RingSpec QbVerif.Ipc QbVerif.Gen

/-- number of words of the ring behind a channel (`none` for a datagram socket) -/
def chanW : Chan → Option Nat
  | .shm f => some f.W
  | .dgram _ _ => none

theorem tryWait_W {f f1 : Fifo} (h : f.tryWait = some f1) : f1.W = f.W := by
  unfold Fifo.tryWait at h
  split at h <;> simp at h <;> subst h <;> rfl

theorem fifo_step_W (f : Fifo) (op : Ring.Op) : (f.step op).1.W = f.W := by
  cases op with
  | write d => simp only [Fifo.step]; split <;> simp [Fifo.post]
  | read cap =>
    simp only [Fifo.step]
    cases h : f.tryWait with
    | none => rfl
    | some f1 =>
      have := tryWait_W h
      simp only
      repeat' split
      all_goals simp [Fifo.post, this]
  | peek =>
    simp only [Fifo.step]
    cases h : f.tryWait with
    | none => rfl
    | some f1 =>
      have := tryWait_W h
      simp only
      repeat' split
      all_goals simp [Fifo.post, this]
  | reclaim => simp [Fifo.step]
  | free => simp [Fifo.step]

theorem send_W {c c' : Chan} {m : Msg} {dg : DgRes} (h : c.send m dg = .ok c') : chanW c' = chanW c := by
  cases c with
  | shm f =>
    simp only [Chan.send] at h
    have := fifo_step_W f (.write m)
    split at h
    · rename_i f' n heq
      simp at h; subst h
      rw [heq] at this
      simpa [chanW] using this
    · simp at h
  | dgram q sent =>
    simp only [Chan.send] at h
    split at h
    · simp at h; subst h; rfl
    · simp at h

theorem recv_W {c c' : Chan} {cap : Nat} {r : Except Ipc.Err Msg} (h : c.recv cap = some (c', r)) :
    chanW c' = chanW c := by
  cases c with
  | shm f =>
    simp only [Chan.recv] at h
    have := fifo_step_W f (.read cap)
    split at h
    all_goals (rename_i heq; simp at h; rw [heq] at this; obtain ⟨rfl, -⟩ := h; simpa [chanW] using this)
  | dgram q sent =>
    simp only [Chan.recv] at h
    repeat' split at h
    all_goals simp at h
    all_goals (obtain ⟨rfl, -⟩ := h; rfl)

theorem step_W {s s' : St} {a : Act} {o : Out} (hs : s.step a = some (s', o)) :
    chanW s'.req = chanW s.req ∧ chanW s'.resp = chanW s.resp ∧ chanW s'.evt = chanW s.evt := by
  cases a with
  | cSendBegin m dg =>
    simp only [St.step, St.cSendBegin] at hs
    repeat' split at hs
    all_goals simp at hs
    all_goals obtain ⟨rfl, rfl⟩ := hs
    all_goals simp
    rename_i heq
    exact send_W heq
  | cNotify =>
    simp only [St.step, St.cNotify] at hs
    split at hs
    all_goals simp at hs
    obtain ⟨rfl, rfl⟩ := hs
    simp
  | cSendRet =>
    simp only [St.step, St.cSendRet] at hs
    repeat' split at hs
    all_goals simp at hs
    obtain ⟨rfl, rfl⟩ := hs
    simp
  | cRecv cap =>
    simp only [St.step, St.cRecv] at hs
    split at hs
    · simp at hs
    · rename_i ch m heq; simp at hs; obtain ⟨rfl, rfl⟩ := hs; simp; exact recv_W heq
    · rename_i ch e heq; simp at hs; obtain ⟨rfl, rfl⟩ := hs; simp; exact recv_W heq
  | cEventRecv cap =>
    simp only [St.step, St.cEventRecv] at hs
    split at hs
    · simp at hs; obtain ⟨rfl, rfl⟩ := hs; simp
    split at hs
    · simp at hs
    · rename_i ch m heq; simp at hs; obtain ⟨rfl, rfl⟩ := hs; simp; exact recv_W heq
    · rename_i ch e heq; simp at hs; obtain ⟨rfl, rfl⟩ := hs; simp; exact recv_W heq
  | cFcMax n =>
    simp only [St.step] at hs
    split at hs
    all_goals simp at hs
    all_goals obtain ⟨rfl, rfl⟩ := hs
    all_goals simp
  | cPoll =>
    simp only [St.step] at hs
    simp at hs
    obtain ⟨rfl, rfl⟩ := hs
    simp
  | sDispBegin pin pout =>
    simp only [St.step, St.sDispBegin] at hs
    have hf : ∀ t : St, t = (if pout then s.resend else s) → t.req = s.req ∧ t.resp = s.resp ∧ t.evt = s.evt := by
      intro t ht
      subst ht
      have := resend_frame s
      split <;> simp [this]
    generalize (if pout then s.resend else s) = s1 at hs hf
    have hf := hf s1 rfl
    repeat' split at hs
    all_goals simp at hs
    all_goals obtain ⟨rfl, rfl⟩ := hs
    all_goals simp [hf]
  | sMsgProcess =>
    simp only [St.step, St.sMsgProcess] at hs
    split at hs
    · rename_i d hd
      split at hs
      · simp at hs
      split at hs
      · rename_i f hreq
        have hW := fifo_step_W f .peek
        split at hs
        all_goals (rename_i heq; rw [heq] at hW; simp at hs; obtain ⟨rfl, rfl⟩ := hs; simp [chanW, hreq]; exact hW)
      · rename_i q sent hreq
        split at hs
        all_goals (simp at hs; obtain ⟨rfl, rfl⟩ := hs; simp [chanW, hreq])
    · simp at hs
  | sMsgProcessResult b =>
    simp only [St.step, St.sMsgProcessResult] at hs
    repeat' split at hs
    all_goals simp at hs
    all_goals obtain ⟨rfl, rfl⟩ := hs
    all_goals simp
    all_goals simp_all [chanW, fifo_step_W]
  | sDispEnd =>
    simp only [St.step, St.sDispEnd] at hs
    repeat' split at hs
    all_goals simp at hs
    all_goals obtain ⟨rfl, rfl⟩ := hs
    all_goals simp
  | sEventSend v m dg =>
    simp only [St.step, St.sEventSend] at hs
    repeat' split at hs
    all_goals simp at hs
    all_goals obtain ⟨rfl, rfl⟩ := hs
    all_goals simp [newEventNotification_frame, resend_frame]
    rename_i heq
    exact send_W heq
  | sRespSend v m dg =>
    simp only [St.step, St.sRespSend] at hs
    repeat' split at hs
    all_goals simp at hs
    all_goals obtain ⟨rfl, rfl⟩ := hs
    all_goals simp
    rename_i heq
    exact send_W heq
  | sRateLimit rl =>
    simp only [St.step] at hs
    simp at hs
    obtain ⟨rfl, rfl⟩ := hs
    unfold St.rateLimit
    simp
  | netCapReq c =>
    simp only [St.step] at hs
    simp at hs
    obtain ⟨rfl, rfl⟩ := hs
    simp
  | netCapEvt c =>
    simp only [St.step] at hs
    simp at hs
    obtain ⟨rfl, rfl⟩ := hs
    simp

theorem run_W (s : St) (acts : List Act) :
    chanW (s.run acts).req = chanW s.req ∧ chanW (s.run acts).resp = chanW s.resp ∧
    chanW (s.run acts).evt = chanW s.evt := by
  induction acts generalizing s with
  | nil => simp [St.run]
  | cons a as ih =>
    simp only [St.run]
    cases hs : s.step a with
    | none => exact ih s
    | some p =>
      obtain ⟨s', o⟩ := p
      have := step_W hs
      have := ih s'
      simp_all

end QbVerif.IpcLemmas
