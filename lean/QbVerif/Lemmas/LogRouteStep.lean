/-
Preservation of the C12 invariant by `qb_log_filter_ctl2`, the target operations, init/fini and
`qb_log_callsite_get2`, for the REPAIRED model (`Variant.fixed`).  Core Lean only.
-/
import QbVerif.Lemmas.LogRouteInv

namespace QbVerif.LogRoute

open QbVerif.LogSpec

theorem sameKey_congr (c : Call) (a b : Site) (hid : a.id = b.id) (hl : a.line = b.line) :
    sameKey c a = sameKey c b := by
  have h : a.file = b.file ∧ a.fmt = b.fmt ∧ a.prio = b.prio := by
    simp only [Site.id, SiteId.mk.injEq] at hid
    exact ⟨hid.1, hid.2.2.1, hid.2.2.2⟩
  simp [sameKey, h.1, h.2.1, h.2.2, hl]

/-- changing the configuration's filter lists and mapping a per-site update over the known sites
    keeps the invariant if the update does to each site what the new lists say -/
theorem MInv.of_map {env : RxEnv} {U : List Call} {m : State} (h : MInv env U m) (cfg' : Cfg) (g : Site → Site)
    (hstate : ∀ i, (cfg'.tgt i).state = (m.cfg.tgt i).state)
    (hunused : ∀ i, (cfg'.tgt i).state = .unused → (cfg'.tgt i).filters = [])
    (hA : ∀ i, ∀ f ∈ (cfg'.tgt i).filters, f.conf = .add)
    (hT : ∀ f ∈ cfg'.tagFilters, f.conf = .tagSet)
    (hg : ∀ cs ∈ m.sites, (g cs).id = cs.id ∧ (g cs).line = cs.line ∧ (g cs).func = cs.func)
    (hbits : ∀ cs ∈ m.sites, ∀ i, i < TARGET_MAX → bitTest (g cs).targets i = selected env cfg' i cs.id)
    (htags : ∀ cs ∈ m.sites, cs.tags = lastTag env cs.id 0 m.cfg.tagFilters →
      (g cs).tags = lastTag env cs.id 0 cfg'.tagFilters) :
    MInv env U { m with cfg := cfg', sites := m.sites.map g } := by
  refine ⟨h.amLt, ?_, hunused, hA, hT, ?_, ?_, ?_⟩
  · intro t ht
    exact h.amGe t (by rw [← hstate]; exact ht)
  · intro cs' hcs'
    obtain ⟨cs, hcs, rfl⟩ := List.mem_map.mp hcs'
    rw [(hg cs hcs).2.1]
    exact h.linePos cs hcs
  · intro cs' hcs' t ht
    obtain ⟨cs, hcs, rfl⟩ := List.mem_map.mp hcs'
    rw [(hg cs hcs).1]
    exact hbits cs hcs t ht
  · intro cs' hcs' c hc hk
    obtain ⟨cs, hcs, rfl⟩ := List.mem_map.mp hcs'
    have hg' := hg cs hcs
    rw [sameKey_congr c (g cs) cs hg'.1 hg'.2.1] at hk
    have := h.attrs cs hcs c hc hk
    refine ⟨by rw [hg'.2.2]; exact this.1, fun h0 => ?_⟩
    rw [hg'.1]
    exact htags cs hcs (this.2 h0)

theorem applyAll_eq_map (env : RxEnv) (v : Variant) (cfg : Cfg) (sites : List Site) (t : Nat) (c : FConf)
    (ty : FType) (text : Str) (hr : Bool) (hi lo : Nat) (hpos : ∀ cs ∈ sites, 0 < cs.line) :
    applyAll env v cfg sites t c ty text hr hi lo =
      sites.map fun cs => applyToCs env v cfg cs t c ty text hr hi lo := by
  unfold applyAll
  apply List.map_congr_left
  intro cs hcs
  simp [hpos cs hcs]

theorem setList_target_state (cfg : Cfg) (t : Nat) (c : FConf) (l : List Filter) (i : Nat) :
    ((cfg.setList t c l).tgt i).state = (cfg.tgt i).state := by
  cases c <;> simp only [Cfg.setList]
  all_goals
    by_cases h : i = t
    · subst h; simp
    · simp [updTgt_other _ _ _ _ h]

theorem setList_target_filters (cfg : Cfg) (t : Nat) (c : FConf) (l : List Filter) (i : Nat)
    (hc : c = .add ∨ c = .remove ∨ c = .clearAll) :
    ((cfg.setList t c l).tgt i).filters = if i = t then l else (cfg.tgt i).filters := by
  rcases hc with hc | hc | hc <;> subst hc <;> simp only [Cfg.setList]
  all_goals
    by_cases h : i = t
    · subst h; simp
    · simp [updTgt_other _ _ _ _ h, h]

theorem setList_target_tagFilters (cfg : Cfg) (t : Nat) (c : FConf) (l : List Filter)
    (hc : c = .add ∨ c = .remove ∨ c = .clearAll) :
    (cfg.setList t c l).tagFilters = cfg.tagFilters := by
  rcases hc with hc | hc | hc <;> subst hc <;> rfl

theorem setList_tag (cfg : Cfg) (t : Nat) (c : FConf) (l : List Filter)
    (hc : c = .tagSet ∨ c = .tagClear ∨ c = .tagClearAll) :
    (cfg.setList t c l).tagFilters = l ∧ (cfg.setList t c l).tgt = cfg.tgt := by
  rcases hc with hc | hc | hc <;> subst hc <;> exact ⟨rfl, rfl⟩

/-- target requests: new filter list `l'` for target `t`, sites updated by `g` -/
theorem MInv.target_request {env : RxEnv} {U : List Call} {m : State} (h : MInv env U m) (t : Nat) (c : FConf)
    (hc : c = .add ∨ c = .remove ∨ c = .clearAll) (l' : List Filter) (g : Site → Site)
    (hnu : (m.cfg.tgt t).state ≠ .unused)
    (hl' : ∀ f ∈ l', f.conf = .add)
    (hg : ∀ cs ∈ m.sites, (g cs).id = cs.id ∧ (g cs).line = cs.line ∧ (g cs).func = cs.func ∧ (g cs).tags = cs.tags)
    (hbits : ∀ cs ∈ m.sites, ∀ i, bitTest (g cs).targets i =
      if i = t then l'.any (fun f => fMatches env f cs.id) else bitTest cs.targets i) :
    MInv env U { m with cfg := m.cfg.setList t c l', sites := m.sites.map g } := by
  have hA : ∀ i, ∀ f ∈ ((m.cfg.setList t c l').tgt i).filters, f.conf = .add := by
    intro i f hf
    rw [setList_target_filters _ _ _ _ _ hc] at hf
    split at hf
    · exact hl' f hf
    · exact h.confAdd i f hf
  apply h.of_map
  · exact setList_target_state _ _ _ _
  · intro i hi
    rw [setList_target_state] at hi
    rw [setList_target_filters _ _ _ _ _ hc]
    split
    · rename_i hit; subst hit; exact absurd hi hnu
    · exact h.unusedNoFilters i hi
  · exact hA
  · rw [setList_target_tagFilters _ _ _ _ hc]; exact h.confTag
  · intro cs hcs
    have := hg cs hcs
    exact ⟨this.1, this.2.1, this.2.2.1⟩
  · intro cs hcs i hi
    rw [hbits cs hcs i, selected_eq_any _ _ _ _ (hA i), setList_target_filters _ _ _ _ _ hc]
    split
    · rfl
    · rw [h.bits cs hcs i hi, selected_eq_any _ _ _ _ (h.confAdd i)]
  · intro cs hcs ht
    rw [(hg cs hcs).2.2.2, setList_target_tagFilters _ _ _ _ hc]
    exact ht

/-- tag requests: new tag filter list `l'`, sites updated by `g` -/
theorem MInv.tag_request {env : RxEnv} {U : List Call} {m : State} (h : MInv env U m) (t : Nat) (c : FConf)
    (hc : c = .tagSet ∨ c = .tagClear ∨ c = .tagClearAll) (l' : List Filter) (g : Site → Site)
    (hl' : ∀ f ∈ l', f.conf = .tagSet)
    (hg : ∀ cs ∈ m.sites, (g cs).id = cs.id ∧ (g cs).line = cs.line ∧ (g cs).func = cs.func ∧
      (g cs).targets = cs.targets)
    (htags : ∀ cs ∈ m.sites, cs.tags = lastTag env cs.id 0 m.cfg.tagFilters →
      (g cs).tags = lastTag env cs.id 0 l') :
    MInv env U { m with cfg := m.cfg.setList t c l', sites := m.sites.map g } := by
  have hs := setList_tag m.cfg t c l' hc
  apply h.of_map
  · intro i; rw [hs.2]
  · intro i; rw [hs.2]; exact h.unusedNoFilters i
  · intro i; rw [hs.2]; exact h.confAdd i
  · rw [hs.1]; exact hl'
  · intro cs hcs
    have := hg cs hcs
    exact ⟨this.1, this.2.1, this.2.2.1⟩
  · intro cs hcs i hi
    rw [(hg cs hcs).2.2.2]
    have : selected env (m.cfg.setList t c l') i cs.id = selected env m.cfg i cs.id := by
      simp [selected, hs.2]
    rw [this]
    exact h.bits cs hcs i hi
  · intro cs hcs ht
    rw [hs.1]
    exact htags cs hcs ht

theorem filterCtl_inv {env : RxEnv} {U : List Call} {m : State} (h : MInv env U m) (t : Nat) (c : FConf)
    (ty : FType) (text : Str) (hi lo : Nat) :
    MInv env U (filterCtl env .fixed m t c ty text hi lo).1 := by
  unfold filterCtl
  split
  · exact h
  split
  · exact h
  rename_i hguard
  split
  · exact h
  split
  · exact h
  rename_i cfg' handed hst
  simp only
  rw [applyAll_eq_map _ _ _ _ _ _ _ _ _ _ _ h.linePos]
  -- facts from the EBADF guard, for the target requests
  have htgt : c = .add ∨ c = .remove ∨ c = .clearAll → t < 32 ∧ (m.cfg.tgt t).state ≠ .unused := by
    intro hc
    have hmax := target_max_eq
    rcases hc with hc | hc | hc <;> subst hc <;>
      simp only [beq_self_eq_true, Bool.or_true, Bool.true_or, Bool.true_and, Bool.or_eq_true,
        decide_eq_true_eq, beq_iff_eq, not_or, Nat.not_le, ge_iff_le] at hguard <;>
      exact ⟨by omega, hguard.2⟩
  cases c
  · -- FILTER_ADD
    obtain ⟨ht, hnu⟩ := htgt (Or.inl rfl)
    simp only [store, Cfg.listOf] at hst
    by_cases hex : filterExists (m.cfg.tgt t).filters ty text hi lo t = true
    · simp [hex] at hst
    by_cases hbad : (ty.isRegex && env.bad text) = true
    · simp [hex, hbad] at hst
    simp only [hex, hbad] at hst
    obtain ⟨rfl, rfl⟩ := hst
    apply h.target_request t .add (Or.inl rfl) _ _ hnu
    · intro f hf
      simp only [List.mem_append, List.mem_singleton] at hf
      rcases hf with hf | hf
      · exact h.confAdd t f hf
      · subst hf; rfl
    · intro cs _
      simp only [applyToCs]
      split <;> simp [Site.id]
    · intro cs hcs i
      simp only [applyToCs]
      rw [csMatches_new env .add ty text hi lo t]
      by_cases hit : i = t
      · subst hit
        simp only [if_true, List.any_append, List.any_cons, List.any_nil, Bool.or_false]
        have hb := h.bits cs hcs i (by rw [target_max_eq]; exact ht)
        rw [selected_eq_any _ _ _ _ (h.confAdd i)] at hb
        split
        · rename_i hm
          simp [bitTest_bitSet _ _ _ ht, hm]
        · rename_i hm
          simp only [Bool.not_eq_true] at hm
          simp [hm, hb]
      · simp only [hit, if_false]
        split
        · simp [bitTest_bitSet _ _ _ ht, hit]
        · rfl
  · -- FILTER_REMOVE
    obtain ⟨ht, hnu⟩ := htgt (Or.inr (Or.inl rfl))
    simp only [store, Cfg.listOf, Except.ok.injEq, Prod.mk.injEq] at hst
    obtain ⟨rfl, rfl⟩ := hst
    -- the regex handed to the apply step is the removed filter's
    have hhr : ∀ g, (removeFirst (removeCond ty text hi lo) (m.cfg.tgt t).filters).1 = some g →
        (Variant.fixed.reapply && (removeFirst (removeCond ty text hi lo) (m.cfg.tgt t).filters).1.isSome
          && ty.isRegex) = ty.isRegex := by
      intro g hg; simp [Variant.fixed, hg]
    simp only
    generalize (Variant.fixed.reapply && (removeFirst (removeCond ty text hi lo) (m.cfg.tgt t).filters).1.isSome
          && ty.isRegex) = hr at hhr ⊢
    have hA' : ∀ f ∈ ((m.cfg.setList t .remove
        (removeFirst (removeCond ty text hi lo) (m.cfg.tgt t).filters).2).tgt t).filters, f.conf = .add := by
      intro f hf
      rw [setList_target_filters _ _ _ _ _ (Or.inr (Or.inl rfl))] at hf
      simp only [if_true] at hf
      exact h.confAdd t f (removeFirst_mem _ _ _ hf)
    apply h.target_request t .remove (Or.inr (Or.inl rfl)) _ _ hnu
    · intro f hf
      exact h.confAdd t f (removeFirst_mem _ _ _ hf)
    · intro cs _
      have h1 := applyToCs_id env (m.cfg.setList t .remove
        (removeFirst (removeCond ty text hi lo) (m.cfg.tgt t).filters).2) cs t .remove ty text hr
        hi lo (fun _ => ht) hA' (by
          rw [setList_target_tagFilters _ _ _ _ (Or.inr (Or.inl rfl))]; exact h.confTag)
      have h2 := applyToCs_target_tags env (m.cfg.setList t .remove
        (removeFirst (removeCond ty text hi lo) (m.cfg.tgt t).filters).2) cs t .remove ty text hr
        hi lo ht (Or.inr (Or.inl rfl)) hA'
      exact ⟨h1.1, h1.2.1, h1.2.2, h2⟩
    · intro cs hcs i
      rw [applyToCs_remove_bits env _ cs t ty text _ hi lo ht hA' i,
        setList_target_filters _ _ _ _ _ (Or.inr (Or.inl rfl))]
      simp only [if_true]
      have hb := h.bits cs hcs t (by rw [target_max_eq]; exact ht)
      rw [selected_eq_any _ _ _ _ (h.confAdd t)] at hb
      by_cases hit : i = t
      · subst hit
        simp only [if_true, decide_true, Bool.not_true, Bool.and_false, Bool.false_or, Bool.true_and]
        by_cases hm : csMatches env hr ty text hi lo cs.id = true
        · rw [if_pos hm]
        · rw [if_neg hm]
          -- not matched by the request: the bit stays, and the removed filter (if any) did not
          -- select this site either
          rw [hb]
          symm
          apply any_removeFirst
          intro g hg
          cases hfm : fMatches env g cs.id with
          | false => rfl
          | true =>
            exfalso
            apply hm
            have hcond := (removeFirst_some _ _ _ hg).1
            have := removed_matches_imp env ty text hi lo g cs.id hcond hfm
            rw [hhr g hg]
            exact this
      · simp only [hit, if_false, decide_false, Bool.not_false, Bool.and_true, Bool.false_and, Bool.or_false]
        by_cases hm : csMatches env hr ty text hi lo cs.id = true
        · rw [if_pos hm]
        · rw [if_neg hm]
  · -- FILTER_CLEAR_ALL
    obtain ⟨ht, hnu⟩ := htgt (Or.inr (Or.inr rfl))
    simp only [store, Except.ok.injEq, Prod.mk.injEq] at hst
    obtain ⟨rfl, rfl⟩ := hst
    apply h.target_request t .clearAll (Or.inr (Or.inr rfl)) _ _ hnu
    · intro f hf; simp at hf
    · intro cs _
      simp [applyToCs, Site.id]
    · intro cs _ i
      simp only [applyToCs, bitTest_bitClear, List.any_nil]
      by_cases hit : i = t <;> simp [hit]
  · -- TAG_SET
    simp only [store, Cfg.listOf] at hst
    by_cases hex : filterExists m.cfg.tagFilters ty text hi lo t = true
    · simp [hex] at hst
    by_cases hbad : (ty.isRegex && env.bad text) = true
    · simp [hex, hbad] at hst
    simp only [hex, hbad] at hst
    obtain ⟨rfl, rfl⟩ := hst
    apply h.tag_request t .tagSet (Or.inl rfl)
    · intro f hf
      simp only [List.mem_append, List.mem_singleton] at hf
      rcases hf with hf | hf
      · exact h.confTag f hf
      · subst hf; rfl
    · intro cs _
      simp only [applyToCs]
      split <;> simp [Site.id]
    · intro cs _ htg
      simp only [applyToCs]
      rw [csMatches_new env .tagSet ty text hi lo t, lastTag_append]
      split
      · rename_i hm; simp [hm]
      · rename_i hm
        simp only [Bool.not_eq_true] at hm
        simp [hm, htg]
  · -- TAG_CLEAR
    simp only [store, Cfg.listOf, Except.ok.injEq, Prod.mk.injEq] at hst
    obtain ⟨rfl, rfl⟩ := hst
    have hhr : ∀ g, (removeFirst (removeCond ty text hi lo) m.cfg.tagFilters).1 = some g →
        (Variant.fixed.reapply && (removeFirst (removeCond ty text hi lo) m.cfg.tagFilters).1.isSome
          && ty.isRegex) = ty.isRegex := by
      intro g hg; simp [Variant.fixed, hg]
    simp only
    generalize (Variant.fixed.reapply && (removeFirst (removeCond ty text hi lo) m.cfg.tagFilters).1.isSome
          && ty.isRegex) = hr at hhr ⊢
    have hs := setList_tag m.cfg t .tagClear (removeFirst (removeCond ty text hi lo) m.cfg.tagFilters).2
      (Or.inr (Or.inl rfl))
    have hT' : ∀ f ∈ (m.cfg.setList t .tagClear
        (removeFirst (removeCond ty text hi lo) m.cfg.tagFilters).2).tagFilters, f.conf = .tagSet := by
      intro f hf
      rw [hs.1] at hf
      exact h.confTag f (removeFirst_mem _ _ _ hf)
    apply h.tag_request t .tagClear (Or.inr (Or.inl rfl))
    · intro f hf
      exact h.confTag f (removeFirst_mem _ _ _ hf)
    · intro cs _
      have h1 := applyToCs_id env (m.cfg.setList t .tagClear
        (removeFirst (removeCond ty text hi lo) m.cfg.tagFilters).2) cs t .tagClear ty text hr
        hi lo (fun hc => by cases hc) (by rw [hs.2]; exact h.confAdd t) hT'
      have h2 := applyToCs_tag_targets env (m.cfg.setList t .tagClear
        (removeFirst (removeCond ty text hi lo) m.cfg.tagFilters).2) cs t .tagClear ty text hr
        hi lo (Or.inr (Or.inl rfl)) hT'
      exact ⟨h1.1, h1.2.1, h1.2.2, h2⟩
    · intro cs _ htg
      rw [applyToCs_tagClear_tags env _ cs t ty text _ hi lo hT', hs.1]
      by_cases hm : csMatches env hr ty text hi lo cs.id = true
      · rw [if_pos hm]
      · rw [if_neg hm, htg]
        symm
        apply lastTag_removeFirst
        intro g hg
        cases hfm : fMatches env g cs.id with
        | false => rfl
        | true =>
          exfalso
          apply hm
          have hcond := (removeFirst_some _ _ _ hg).1
          have := removed_matches_imp env ty text hi lo g cs.id hcond hfm
          rw [hhr g hg]
          exact this
  · -- TAG_CLEAR_ALL
    simp only [store, Except.ok.injEq, Prod.mk.injEq] at hst
    obtain ⟨rfl, rfl⟩ := hst
    apply h.tag_request t .tagClearAll (Or.inr (Or.inr rfl))
    · intro f hf; simp at hf
    · intro cs _
      simp [applyToCs, Site.id]
    · intro cs _ _
      simp [applyToCs, lastTag]

end QbVerif.LogRoute
