/-
Round trip (C14), a format that ENDS in the extended-information marker QB_XC, part 1: the
"merge" simulation.

After `my_strlcpy` + `xcPatch` on such a format the record buffer holds `F ++ [0, 0]` (`F` = the
format without its last byte) while `location = |F| + 1`: the next store does NOT land at the end
of the data written so far, which is what the big-step lemmas of Lemmas/SerBig.lean assume
(`SerSync`: `data = out`, `loc = out.length`).  Instead of redoing those lemmas, the run from that
state `s` is compared, character by character, with the run from `rebuf s D` = the same state whose
buffer holds only `D = F ++ [0]` (a `SerSync` state): the encoder never reads the buffer, so the
two runs are in lockstep until the first store, and the first store (never empty, at
`location = |D|`) overwrites the one extra byte and makes the two states EQUAL (`Merge`).
-/
import QbVerif.Lemmas.SerRound

namespace QbVerif.Ser
open QbVerif.Gen

/-- `s` with the record contents replaced by `D` (same `hi`) -/
def rebuf (s : SerSt) (D : Bytes) : SerSt := { s with buf := ⟨D, s.buf.hi⟩ }

/-- a non-empty store at `|D|` into `D ++ [x]` and into `D` give the same buffer -/
theorem Buf.store_merge (b : Buf) (D bs : Bytes) (x : UInt8) (hd : b.data = D ++ [x]) (hb : bs ≠ []) :
    b.store D.length bs = (Buf.mk D b.hi).store D.length bs := by
  cases bs with
  | nil => exact absurd rfl hb
  | cons a r =>
    have h1 : D.length - (D.length + 1) = 0 := by omega
    have h2 : (D ++ [x]).drop (D.length + (r.length + 1)) = [] :=
      List.drop_eq_nil_of_le (by simp only [List.length_append, List.length_singleton]; omega)
    have h3 : D.drop (D.length + (r.length + 1)) = [] := List.drop_eq_nil_of_le (by omega)
    simp [Buf.store, writeAt, hd, h1, h2, h3]

/-- `s'`, `t'` = the successors of `s` and of `rebuf s D`: either they have become equal, or nothing
    was stored and `location` did not move -/
def Merge (D : Bytes) (s s' t' : SerSt) : Prop :=
  s' = t' ∨ (t' = rebuf s' D ∧ s'.buf = s.buf ∧ s'.loc = s.loc)

theorem le_ne_nil (size v : Nat) (h : 0 < size) : le size v ≠ [] := by
  cases size with
  | zero => omega
  | succ n => simp [le]

theorem serFixed_merge (maxLen : Nat) (s : SerSt) (D : Bytes) (x : UInt8) (size : Nat) (e : Bool)
    (hd : s.buf.data = D ++ [x]) (hl : s.loc = D.length) (hs : 0 < size) :
    Merge D s (serFixed maxLen s size e) (serFixed maxLen (rebuf s D) size e) := by
  unfold serFixed
  by_cases h : s.loc + size > maxLen
  · right
    refine ⟨?_, ?_, ?_⟩ <;> simp [rebuf, h]
  · left
    simp only [rebuf, h, if_false]
    rw [hl, Buf.store_merge s.buf D _ x hd (le_ne_nil size _ hs)]

theorem serStep_merge (maxLen : Nat) (s : SerSt) (D : Bytes) (x c : UInt8) (pk : Option UInt8)
    (hd : s.buf.data = D ++ [x]) (hl : s.loc = D.length) :
    Merge D s (serStep R maxLen s c pk) (serStep R maxLen (rebuf s D) c pk) := by
  have hfx : ∀ size e, 0 < size → serStep R maxLen s c pk = serFixed maxLen s size e →
      serStep R maxLen (rebuf s D) c pk = serFixed maxLen (rebuf s D) size e →
      Merge D s (serStep R maxLen s c pk) (serStep R maxLen (rebuf s D) c pk) := by
    intro size e h0 e1 e2
    rw [e1, e2]
    exact serFixed_merge maxLen s D x size e hd hl h0
  by_cases h1 : s.ret.isSome
  · right
    refine ⟨?_, ?_, ?_⟩ <;> simp [serStep, rebuf, h1]
  by_cases h2 : s.skip
  · right
    refine ⟨?_, ?_, ?_⟩ <;> simp [serStep, rebuf, h1, h2]
  by_cases h3' : s.inDir = false
  · right
    by_cases hc : c = 0x25
    · refine ⟨?_, ?_, ?_⟩ <;> simp [serStep, rebuf, h1, h2, h3', hc]
    · refine ⟨?_, ?_, ?_⟩ <;> simp [serStep, rebuf, h1, h2, h3', hc]
  have h3 : s.inDir = true := by simpa using h3'
  cases hcls : classify c
  case flag | dot | modZ | modT | modJ | other =>
    right
    refine ⟨?_, ?_, ?_⟩ <;> simp [serStep, rebuf, h1, h2, h3, hcls] <;> split <;> simp
  case digit =>
    right
    by_cases hp : s.sprec
    · refine ⟨?_, ?_, ?_⟩ <;> simp [serStep, rebuf, h1, h2, h3, hcls, hp]
    · refine ⟨?_, ?_, ?_⟩ <;> simp [serStep, rebuf, h1, h2, h3, hcls, hp]
  case modL =>
    right
    by_cases hp : pk = some 0x6c
    · refine ⟨?_, ?_, ?_⟩ <;> simp [serStep, rebuf, h1, h2, h3, hcls, hp]
    · refine ⟨?_, ?_, ?_⟩ <;> simp [serStep, rebuf, h1, h2, h3, hcls, hp]
  case pct =>
    right
    refine ⟨?_, ?_, ?_⟩ <;> simp [serStep, rebuf, h1, h2, h3, hcls, R, Cfg.repaired]
  case star =>
    exact hfx SIZEOF_INT false (by decide) (by simp [serStep, h1, h2, h3, hcls])
      (by simp [serStep, rebuf, h1, h2, h3, hcls])
  case dblc =>
    exact hfx SIZEOF_DOUBLE true (by decide) (by simp [serStep, h1, h2, h3, hcls])
      (by simp [serStep, rebuf, h1, h2, h3, hcls])
  case chrc =>
    exact hfx 1 true (by decide) (by simp [serStep, h1, h2, h3, hcls])
      (by simp [serStep, rebuf, h1, h2, h3, hcls])
  case ptrc =>
    exact hfx SIZEOF_PTRDIFF true (by decide) (by simp [serStep, h1, h2, h3, hcls])
      (by simp [serStep, rebuf, h1, h2, h3, hcls])
  case intc =>
    by_cases htl : s.tl
    · exact hfx SIZEOF_LONG true (by decide) (by simp [serStep, h1, h2, h3, hcls, htl])
        (by simp [serStep, rebuf, h1, h2, h3, hcls, htl])
    by_cases htll : s.tll
    · exact hfx SIZEOF_LLONG true (by decide) (by simp [serStep, h1, h2, h3, hcls, htl, htll])
        (by simp [serStep, rebuf, h1, h2, h3, hcls, htl, htll])
    · exact hfx SIZEOF_INT true (by decide) (by simp [serStep, h1, h2, h3, hcls, htl, htll])
        (by simp [serStep, rebuf, h1, h2, h3, hcls, htl, htll])
  case strc =>
    by_cases hge : s.loc ≥ maxLen
    · right
      refine ⟨?_, ?_, ?_⟩ <;> simp [serStep, rebuf, h1, h2, h3, hcls, hge, R, Cfg.repaired]
    · left
      have hroom : subSz maxLen s.loc = maxLen - s.loc := subSz_of_le (by omega)
      have hX : 1 ≤ strN s.slen (popStr s.args).1 := by
        unfold strN; split
        · omega
        · split <;> omega
      have hn : ¬ (min (strN s.slen (popStr s.args).1) (maxLen - s.loc) = 0) := by omega
      have em : myStrlcpy s.buf s.loc (strSrc (popStr s.args).1) (min (strN s.slen (popStr s.args).1) (maxLen - s.loc)) =
          myStrlcpy ⟨D, s.buf.hi⟩ s.loc (strSrc (popStr s.args).1) (min (strN s.slen (popStr s.args).1) (maxLen - s.loc)) := by
        simp only [myStrlcpy, hn, if_false]
        rw [hl, Buf.store_merge s.buf D _ x hd (by simp)]
      have e1 : serStep R maxLen s c pk =
          { s with buf := (myStrlcpy s.buf s.loc (strSrc (popStr s.args).1) (min (strN s.slen (popStr s.args).1) (maxLen - s.loc))).1,
                   loc := s.loc + (myStrlcpy s.buf s.loc (strSrc (popStr s.args).1) (min (strN s.slen (popStr s.args).1) (maxLen - s.loc))).2 + 1,
                   args := (popStr s.args).2, inDir := false } := by
        simp [serStep, h1, h2, h3, hcls, hge, hroom]
      have e2 : serStep R maxLen (rebuf s D) c pk =
          { s with buf := (myStrlcpy ⟨D, s.buf.hi⟩ s.loc (strSrc (popStr s.args).1) (min (strN s.slen (popStr s.args).1) (maxLen - s.loc))).1,
                   loc := s.loc + (myStrlcpy ⟨D, s.buf.hi⟩ s.loc (strSrc (popStr s.args).1) (min (strN s.slen (popStr s.args).1) (maxLen - s.loc))).2 + 1,
                   args := (popStr s.args).2, inDir := false } := by
        simp [serStep, rebuf, h1, h2, h3, hcls, hge, hroom]
      rw [e1, e2, em]

/-- the two runs over any format text either end equal, or the run from `s` stored nothing -/
theorem serRun_merge (maxLen : Nat) (D : Bytes) (x : UInt8) (f : Bytes) : ∀ (s : SerSt),
    s.buf.data = D ++ [x] → s.loc = D.length →
    Merge D s (serRun R maxLen s f) (serRun R maxLen (rebuf s D) f) := by
  induction f with
  | nil => intro s _ _; exact Or.inr ⟨rfl, rfl, rfl⟩
  | cons c rest ih =>
    intro s hd hl
    rw [serRun_cons, serRun_cons]
    rcases serStep_merge maxLen s D x c rest.head? hd hl with h | ⟨h1, h2, h3⟩
    · rw [h]; exact Or.inl rfl
    · rw [h1]
      rcases ih _ (by rw [h2]; exact hd) (by rw [h3]; exact hl) with h | ⟨g1, g2, g3⟩
      · exact Or.inl h
      · exact Or.inr ⟨g1, g2.trans h2, g3.trans h3⟩

end QbVerif.Ser
