/-
C08: a successful `qb_loop_job_del` removes exactly the job it found: its allocation id is afterwards neither
pending nor dispatched (`Gone`).  Counting argument on `allIds`.  Core Lean only.
-/
import QbVerif.Lemmas.LoopJobs5

namespace QbVerif.Loop
open QbVerif.Gen

theorem count_le_one_of_nodup {l : List Nat} (h : l.Nodup) (a : Nat) : l.count a ≤ 1 := by
  induction l with
  | nil => simp
  | cons b l ih =>
    rw [List.nodup_cons] at h
    rw [List.count_cons]
    by_cases hb : b = a
    · subst hb
      have : l.count b = 0 := List.count_eq_zero.2 h.1
      simp [this]
    · have : (b == a) = false := by simpa using hb
      simp [this, ih h.2]

theorem aids_erase_count (L : List Item) (a d : Nat) (hx : Item.job a d ∈ L) :
    (aids L).count a = (aids (L.erase (Item.job a d))).count a + 1 := by
  have hp := (List.perm_cons_erase hx).filterMap jobAid
  have : List.filterMap jobAid (Item.job a d :: L.erase (Item.job a d)) = a :: aids (L.erase (Item.job a d)) := by
    simp [aids, jobAid]
  rw [this] at hp
  unfold aids at *
  rw [hp.count_eq]; simp

theorem level_erase_count (L : Level) (x : Item) (a : Nat) :
    (pendOf { L with jobs := L.jobs.erase x }).count a ≤ (pendOf L).count a :=
  (pendOf_sub (l := L) (l' := { L with jobs := L.jobs.erase x }) List.erase_sublist (List.Sublist.refl _)).count_le a

theorem level_erase_count_mem (L : Level) (a d : Nat) (hx : Item.job a d ∈ L.jobs) :
    (pendOf { L with jobs := L.jobs.erase (Item.job a d) }).count a + 1 = (pendOf L).count a := by
  simp only [pendOf, aids, List.filterMap_append, List.count_append]
  have := aids_erase_count L.jobs a d hx
  unfold aids at this
  omega

theorem mem_lv_jobs (s : St) (p : Nat) (x : Item) (h : x ∈ (s.lv p).jobs) :
    x ∈ s.lo.jobs ∨ x ∈ s.me.jobs ∨ x ∈ s.hi.jobs := by
  unfold St.lv at h; split at h
  · exact Or.inl h
  · split at h
    · exact Or.inr (Or.inl h)
    · exact Or.inr (Or.inr h)

def St.erasedJobs (s : St) (it : Item) : St :=
  { s with lo := { s.lo with jobs := s.lo.jobs.erase it },
           me := { s.me with jobs := s.me.jobs.erase it },
           hi := { s.hi with jobs := s.hi.jobs.erase it } }

theorem itemDel_linked (s : St) (p : Nat) (it : Item) (h : s.linked it = true) :
    s.itemDel p it = (s.erasedJobs it).setLv p
      { (s.erasedJobs it).lv p with todo := ((s.erasedJobs it).lv p).todo - 1 } := by
  unfold St.itemDel; simp only [h, if_true]; rfl

/-- `qb_loop_job_del` returned 0: the job it found is gone -/
theorem jobDel_gone (s : St) (h : JInv s) (p id : Nat) (hrc : (s.jobDel p id).2 = 0) :
    ∃ a, a ∈ s.allIds ∧ Gone a (s.jobDel p id).1 := by
  have hinv : JInv (s.jobDel p id).1 := h.mono (jobDel_jle s p id)
  have hnext : (s.jobDel p id).1.nextAid = s.nextAid := by
    unfold St.jobDel; split
    · rfl
    · dsimp only; split
      · simp
      · split <;> simp
  suffices hk : ∃ a, a ∈ s.allIds ∧ (s.jobDel p id).1.allIds.count a + 1 ≤ s.allIds.count a by
    obtain ⟨a, ha, hc⟩ := hk
    have := count_le_one_of_nodup h.nodup a
    exact ⟨a, ha, hinv, by rw [hnext]; exact h.lt a ha, fun hm => by
      have := List.count_pos_iff.2 hm; omega⟩
  unfold St.jobDel at hrc ⊢
  split at hrc
  · simp [EINVAL] at hrc
  · rename_i hp
    simp only [hp, if_false]
    dsimp only at hrc ⊢
    split at hrc
    · rename_i aid d hfind
      simp only [hfind]
      have hmem : Item.job aid d ∈ (s.lv p).wait := List.mem_of_find?_eq_some hfind
      obtain ⟨X, Y, e1, e2, _⟩ := allIds_split s p
      have e2' := e2 { s.lv p with wait := (s.lv p).wait.erase (Item.job aid d) } s.dlog
      refine ⟨aid, ?_, ?_⟩
      · rw [e1]; simp only [List.mem_append, pendOf, aids, List.filterMap_append]
        right; right; left; right
        exact List.mem_filterMap.2 ⟨_, hmem, rfl⟩
      · have e3 : ({ s.setLv p { s.lv p with wait := (s.lv p).wait.erase (Item.job aid d) } with
            freed := aid :: (s.setLv p { s.lv p with wait := (s.lv p).wait.erase (Item.job aid d) }).freed } : St).allIds
            = aids (s.dlog.map Prod.fst) ++ (X ++ (pendOf { s.lv p with wait := (s.lv p).wait.erase (Item.job aid d) } ++ Y)) := by
          rw [← e2']; exact allIds_congr (by simp) (by simp) (by simp) (by simp)
        rw [e3, e1]
        have hc := aids_erase_count (s.lv p).wait aid d hmem
        simp only [St.dAids, pendOf, aids, List.filterMap_append, List.count_append] at hc ⊢
        omega
    · split at hrc
      · rename_i it hfind
        simp only [hfind]
        have hmem : it ∈ (s.lv p).jobs := List.mem_of_find?_eq_some hfind
        have hjob : isJobWith id it = true := List.find?_some hfind
        cases it with
        | job a d =>
          have hlinked : s.linked (Item.job a d) = true := by
            unfold St.linked
            rcases mem_lv_jobs s p _ hmem with h1 | h1 | h1 <;> simp [h1]
          refine ⟨a, ?_, ?_⟩
          · obtain ⟨X, Y, e1, _, _⟩ := allIds_split s p
            rw [e1]; simp only [List.mem_append, pendOf, aids, List.filterMap_append]
            right; right; left; left
            exact List.mem_filterMap.2 ⟨_, hmem, rfl⟩
          · rw [itemDel_linked s p _ hlinked]
            generalize hs1 : s.erasedJobs (Item.job a d) = s1
            have hle : (s1.setLv p { s1.lv p with todo := (s1.lv p).todo - 1 }).allIds.count a ≤ s1.allIds.count a := by
              have hj := JLe.setLv s1 p { s1.lv p with todo := (s1.lv p).todo - 1 } (List.Sublist.refl _)
              have hsub : (s1.setLv p { s1.lv p with todo := (s1.lv p).todo - 1 }).allIds.Sublist s1.allIds := by
                unfold St.allIds; rw [hj.dlog]
                exact (List.Sublist.refl _).append (hj.lo.append (hj.me.append hj.hi))
              exact hsub.count_le a
            have h1 : s1.allIds.count a + 1 ≤ s.allIds.count a := by
              subst hs1
              simp only [St.allIds, St.dAids, St.erasedJobs, List.count_append]
              have l1 := level_erase_count s.lo (Item.job a d) a
              have l2 := level_erase_count s.me (Item.job a d) a
              have l3 := level_erase_count s.hi (Item.job a d) a
              rcases mem_lv_jobs s p _ hmem with hm | hm | hm
              · have := level_erase_count_mem s.lo a d hm; omega
              · have := level_erase_count_mem s.me a d hm; omega
              · have := level_erase_count_mem s.hi a d hm; omega
            omega
        | timer i => simp [isJobWith] at hjob
        | fd i => simp [isJobWith] at hjob
        | sig c r sg d => simp [isJobWith] at hjob
      · simp [ENOENT] at hrc

end QbVerif.Loop
