/-
Hashtable model: `hashtable_iter_create`, `hashtable_iter_next`, `hashtable_iter_free` in a state
satisfying `Inv` — what they compute (as a `moveState`), that they never dereference a freed node,
and that `Inv` holds afterwards.
-/
import QbVerif.Lemmas.HtMove

namespace QbVerif.Hashtable
open QbVerif.Map
set_option linter.unusedSimpArgs false

theorem release_iters (t : HT) (n : Node) : (release t n).1.iters = t.iters := by
  unfold release; split <;> rfl

/-- the node an iterator is parked on, as `Inv` provides it -/
theorem Inv.parkedNode {t : HT} (h : Inv t) {k : Nat} {it : Iter} (hl : t.iters.lookup k = some it) :
    ∃ dec : Option Node, it.node = dec.map (·.id) ∧ ∀ np, dec = some np → np ∈ t.bucketOf it.bucket := by
  cases hn : it.node with
  | none => exact ⟨none, rfl, by intro np e; cases e⟩
  | some p =>
    obtain ⟨np, hnp, hid⟩ := h.itNode (k, it) (mem_of_lookup hl) p hn
    exact ⟨some np, by simp [hid], by intro np' e; cases e; exact hnp⟩

/-- result of `hashtable_iter_next` -/
def nextResult (t : HT) (k : Nat) (it : Iter) (dec : Option Node) : HT × List Event × Res :=
  match scanBuckets t.eligible it.bucket (t.iterLists it) with
  | some (b', n) =>
    let m := moveState t (some n) dec (setIter t.iters k ⟨some n.id, b'⟩)
    (m.1, m.2, .item (some (n.key, n.val)))
  | none =>
    let m := moveState t none dec (setIter t.iters k ⟨none, t.buckets.length⟩)
    (m.1, m.2, .item none)

theorem iterNext_eq {t : HT} (h : Inv t) {k : Nat} {it : Iter} (hl : t.iters.lookup k = some it)
    {dec : Option Node} (hd : it.node = dec.map (·.id)) (hdm : ∀ np, dec = some np → np ∈ t.bucketOf it.bucket) :
    t.iterNext k = some (nextResult t k it dec) := by
  unfold HT.iterNext nextResult
  rw [hl]
  simp only
  cases dec with
  | none =>
    simp only [Option.map_none] at hd
    simp only [hd, Bool.false_eq_true, ite_false]
    cases scanBuckets t.eligible it.bucket (t.iterLists it) with
    | none => simp only []; rw [if_pos h.fix15]; rfl
    | some r => rfl
  | some np =>
    simp only [Option.map_some] at hd
    have hnp := hdm np rfl
    have hnpf : np ∈ t.flat := mem_flat_of_bucket hnp
    have hfn : t.findNode np.id = some np := findNode_eq h.idsNodup hnpf
    simp only [hd, hfn, Option.isNone_some, Bool.false_eq_true, ite_false]
    cases hs : scanBuckets t.eligible it.bucket (t.iterLists it) with
    | none =>
      simp only [nodeDeref_eq h.idsNodup hnpf, release_iters]
      rw [if_pos h.fix15]
      rfl
    | some r =>
      obtain ⟨b', n⟩ := r
      obtain ⟨_, _, _, _, hne⟩ := iterLists_found h.idsNodup h.inBucket (by
        intro p hp; rw [hd] at hp; cases hp; exact ⟨np, hnp, rfl⟩) hs
      have hne' : n.id ≠ np.id := hne np.id hd
      simp only
      have hflat1 : (t.mapNode n.id incRc).flat = t.flat.map (upd n.id incRc) := flat_mapNode t n.id incRc
      have hnd1 : ((t.mapNode n.id incRc).flat.map (·.id)).Nodup := by
        rw [hflat1, ids_map _ _ (upd_id n.id incRc incRc_id)]; exact h.idsNodup
      have hnp1 : np ∈ (t.mapNode n.id incRc).flat := by
        rw [hflat1]
        refine List.mem_map.2 ⟨np, hnpf, ?_⟩
        have : ¬ np.id = n.id := fun e => hne' e.symm
        simp [upd, this]
      have hd1 := nodeDeref_eq hnd1 hnp1
      show (match (t.mapNode n.id incRc).nodeDeref np.id with
        | none => some ({ t.mapNode n.id incRc with crashed := true }, [], Res.uaf)
        | some (t2, evs) => some ({ t2 with iters := setIter t2.iters k ⟨some n.id, b'⟩ }, evs, Res.item (some (n.key, n.val)))) = _
      rw [hd1]
      simp only [release_iters]
      rfl

theorem nextResult_inv {t : HT} (h : Inv t) {k : Nat} {it : Iter} (hl : t.iters.lookup k = some it)
    {dec : Option Node} (hd : it.node = dec.map (·.id)) (hdm : ∀ np, dec = some np → np ∈ t.bucketOf it.bucket) :
    Inv (nextResult t k it dec).1 ∧ (nextResult t k it dec).2.2 ≠ .uaf ∧ (nextResult t k it dec).2.2 ≠ .diverge := by
  have hkin : (k, it) ∈ t.iters := mem_of_lookup hl
  have hkeys : ∀ it', ((setIter t.iters k it').map (·.1)).Nodup := fun it' => by
    rw [setIter_keys]; exact h.itKeys
  have h0 : ∀ it', ∀ p ∈ setIter t.iters k it', p.1 ≠ 0 := by
    intro it' p hp
    rcases mem_setIter hp with rfl | hp
    · exact h.noZero (k, it) hkin
    · exact h.noZero _ hp
  have hp : ∀ p, it.node = some p → ∃ np ∈ t.bucketOf it.bucket, np.id = p := by
    intro p hp
    cases dec with
    | none => rw [hd] at hp; cases hp
    | some np => rw [hd] at hp; cases hp; exact ⟨np, hdm np rfl, rfl⟩
  unfold nextResult
  cases hs : scanBuckets t.eligible it.bucket (t.iterLists it) with
  | none =>
    refine ⟨?_, by simp, by simp⟩
    apply h.move none dec
    · intro n e; cases e
    · intro np e; exact ⟨mem_flat_of_bucket (hdm np e), by intro n e'; cases e'⟩
    · intro id
      have := parked_setIter (it' := ⟨none, t.buckets.length⟩) h.itKeys hl id
      rw [hd] at this
      simpa [ind] using this
    · intro p hp' id hid
      rcases mem_setIter hp' with rfl | hp'
      · cases hid
      · exact h.itNode p hp' id hid
    · exact hkeys _
    · exact h0 _
  | some r =>
    obtain ⟨b', n⟩ := r
    obtain ⟨hnb, hen, _, _, hne⟩ := iterLists_found h.idsNodup h.inBucket hp hs
    refine ⟨?_, by simp, by simp⟩
    have hnr : n.removed = false := by
      unfold HT.eligible at hen
      simp only [h.fix14, Bool.not_true, Bool.false_or, Bool.and_eq_true, Bool.not_eq_true', decide_eq_true_eq] at hen
      exact hen.2
    apply h.move (some n) dec
    · intro n' e; cases e; exact ⟨mem_flat_of_bucket hnb, hnr⟩
    · intro np e
      refine ⟨mem_flat_of_bucket (hdm np e), ?_⟩
      intro n' e'; cases e'
      exact hne np.id (by rw [hd, e]; rfl)
    · intro id
      have := parked_setIter (it' := ⟨some n.id, b'⟩) h.itKeys hl id
      rw [hd] at this
      exact this
    · intro p hp' id hid
      rcases mem_setIter hp' with rfl | hp'
      · simp only [Option.some.injEq] at hid; subst hid; exact ⟨n, hnb, rfl⟩
      · exact h.itNode p hp' id hid
    · exact hkeys _
    · exact h0 _

/-- result of `hashtable_iter_free` -/
def freeResult (t : HT) (k : Nat) (dec : Option Node) : HT × List Event × Res :=
  let m := moveState t none dec (t.iters.filter fun p => !(p.1 == k))
  (m.1, m.2, .ok)

theorem iterFree_eq {t : HT} (h : Inv t) {k : Nat} {it : Iter} (hl : t.iters.lookup k = some it)
    {dec : Option Node} (hd : it.node = dec.map (·.id)) (hdm : ∀ np, dec = some np → np ∈ t.bucketOf it.bucket) :
    t.iterFree k = some (freeResult t k dec) := by
  unfold HT.iterFree freeResult
  rw [hl]
  simp only []
  rw [if_pos h.fix15]
  cases dec with
  | none =>
    simp only [Option.map_none] at hd
    simp only [hd]
    rfl
  | some np =>
    simp only [Option.map_some] at hd
    have hnpf : np ∈ t.flat := mem_flat_of_bucket (hdm np rfl)
    simp only [hd, nodeDeref_eq h.idsNodup hnpf, release_iters]
    rfl

theorem freeResult_inv {t : HT} (h : Inv t) {k : Nat} {it : Iter} (hl : t.iters.lookup k = some it)
    {dec : Option Node} (hd : it.node = dec.map (·.id)) (hdm : ∀ np, dec = some np → np ∈ t.bucketOf it.bucket) :
    Inv (freeResult t k dec).1 := by
  unfold freeResult
  apply h.move none dec
  · intro n e; cases e
  · intro np e; exact ⟨mem_flat_of_bucket (hdm np e), by intro n e'; cases e'⟩
  · intro id
    have := parked_filter h.itKeys hl id
    rw [hd] at this
    simpa [ind] using this
  · intro p hp id hid
    exact h.itNode p (List.mem_filter.1 hp).1 id hid
  · exact List.Nodup.sublist ((List.filter_sublist).map _) h.itKeys
  · intro p hp; exact h.noZero p (List.mem_filter.1 hp).1

/-- `hashtable_iter_create` under a fresh non-zero key -/
theorem iterCreate_inv {t : HT} (h : Inv t) {k : Nat} (hk : k ≠ 0) (hl : t.iters.lookup k = none) :
    Inv (t.iterCreate k) := by
  have : t.iterCreate k = (moveState t none none ((k, ⟨none, 0⟩) :: t.iters)).1 := rfl
  rw [this]
  apply h.move none none
  · intro n e; cases e
  · intro n e; cases e
  · intro id; simp [parked, ind]
  · intro p hp id hid
    rcases List.mem_cons.1 hp with rfl | hp
    · cases hid
    · exact h.itNode p hp id hid
  · simp only [List.map_cons, List.nodup_cons]
    exact ⟨not_mem_keys_of_lookup_none hl, h.itKeys⟩
  · intro p hp
    rcases List.mem_cons.1 hp with rfl | hp
    · exact hk
    · exact h.noZero p hp

end QbVerif.Hashtable
