/-
Tie T3 for C09: hand-written model functions PROVED equal to the definitions tools/c2lean.py
generates from the CURRENT include/tlist.h / lib/loop_timerlist.c (Gen/TimerC.lean, regenerated on
every check run; spec tools/extract.d/TimerC.json):

* `Heap.left`, `Heap.right`, `Heap.parent`  =  `timerlist_heap_index_left/right/parent`
  (computed in `size_t`; equality for every index the heap can hold),
* `Heap.cmp`                               =  `timerlist_entry_cmp` (all keys),
* `Timer.loopMsecDurationToExpire Cfg.repaired`  =  `qb_loop_timer_msec_duration_to_expire` (the
  `left != -1 && left > INT32_MAX` test, the clamp value, the `uint64_t → int32_t` conversion of
  `return left;`), for every 64-bit value of `left` (= result of the call of
  `timerlist_msec_duration_to_expire`, made an input by harness/loop/t3_clamp.h).

If one of these C functions changes, the generated definition changes and these theorems are
re-checked against it.  Not translatable by c2lean.py (calls of named functions, a file-scope
variable, a pointer local): `timerlist_msec_duration_to_expire`, `timerlist_add_duration` — they
stay hand-modelled (`Timer.msecDurationToExpire`, `Timer.addDuration`) and are tied by the
differential correspondence only.  Core Lean only.
-/
import QbVerif.Model.Timer
import QbVerif.Gen.TimerC
import QbVerif.Lemmas.TimerArith

namespace QbVerif.Lemmas.TimerC
open QbVerif.Heap QbVerif.Timer QbVerif.Gen

theorem lit2 : (2 : Int) % 2 ^ 64 = 2 := by decide
theorem lit1 : (1 : Int) % 2 ^ 64 = 1 := by decide

/-- `timerlist_heap_index_left` (in `size_t`) is `2 i + 1` for every index below 2^62 (an array of
    2^62 pointers does not fit in the address space). -/
theorem left_c_eq (i : Nat) (h : i < 2 ^ 62) : timerlist_heap_index_left_c i = (left i : Nat) := by
  unfold timerlist_heap_index_left_c left wrapU
  omega

/-- `timerlist_heap_index_right` -/
theorem right_c_eq (i : Nat) (h : i < 2 ^ 62) : timerlist_heap_index_right_c i = (right i : Nat) := by
  unfold timerlist_heap_index_right_c right wrapU
  omega

/-- `timerlist_heap_index_parent` for every index `> 0` (the only ones whose parent the sift-up loop
    uses: `while (item_pos > 0 && …)`). -/
theorem parent_c_eq (i : Nat) (h0 : 0 < i) (h : i < 2 ^ 64) :
    timerlist_heap_index_parent_c i = (parent i : Nat) := by
  unfold timerlist_heap_index_parent_c parent wrapU
  simp only [lit2, lit1]
  omega

/-- for index 0 the C expression wraps around in `size_t` (the value is computed by
    `timerlist_heap_sift_up` but never used: the loop condition tests `item_pos > 0` first). -/
theorem test_parent_c_zero : timerlist_heap_index_parent_c 0 = 2 ^ 63 - 1 := by decide

/-- parent/child index functions are inverse to each other, on the generated definitions
    themselves (what the heap order proofs rely on). -/
theorem parent_left_right_c (i : Nat) (h : i < 2 ^ 62) :
    timerlist_heap_index_parent_c (timerlist_heap_index_left_c i) = i ∧
    timerlist_heap_index_parent_c (timerlist_heap_index_right_c i) = i := by
  unfold timerlist_heap_index_parent_c timerlist_heap_index_left_c timerlist_heap_index_right_c wrapU
  simp only [lit2, lit1]
  constructor <;> omega

/-- `timerlist_entry_cmp` on the `expire_time` fields, all values -/
theorem cmp_c_eq (x y : Entry) : timerlist_entry_cmp_c x.key y.key = cmp x y := by
  unfold timerlist_entry_cmp_c cmp
  have hm : wrapS 32 (-(1 : Int)) = -1 := by decide
  by_cases h1 : x.key = y.key
  · simp [h1]
  · have h1' : ¬ ((x.key : Int) = (y.key : Int)) := by omega
    by_cases h2 : x.key < y.key
    · have h2' : (x.key : Int) < (y.key : Int) := by omega
      simp [h1, h1', h2, h2', hm]
    · have h2' : ¬ (x.key : Int) < (y.key : Int) := by omega
      simp [h1, h1', h2, h2']

theorem wrapS32_of_lt (x : Int) (h0 : 0 ≤ x) (h1 : x < 2 ^ 31) : wrapS 32 x = x := by
  unfold wrapS; omega

/-- **`qb_loop_timer_msec_duration_to_expire` as the code is now** equals the model's repaired
    variant for every 64-bit `left` (and every pointer value `ts`). -/
theorem loopMsec_c_eq (ts : Int) (m : UInt64) :
    qb_loop_timer_msec_duration_to_expire_c ts m.toNat = (loopMsecDurationToExpire Cfg.repaired m).toInt := by
  have hlt := m.toNat_lt
  have hneg : wrapU 64 (wrapS 32 (-(1 : Int))) = 2 ^ 64 - 1 := by decide
  have h7 : wrapU 64 (2147483647 : Int) = 2147483647 := by decide
  unfold qb_loop_timer_msec_duration_to_expire_c
  simp only [hneg, h7]
  by_cases hmax : m = U64_MAX
  · subst hmax
    rw [loopMsec_max, U64_MAX_toNat]
    decide
  · rw [loopMsec_repaired_toInt m hmax]
    have hne : m.toNat ≠ 2 ^ 64 - 1 := by
      intro h; apply hmax; apply UInt64.toNat_inj.1; rw [U64_MAX_toNat]; exact h
    by_cases hgt : 2147483647 < m.toNat
    · have c1 : ((m.toNat : Int) ≠ 2 ^ 64 - 1 ∧ (m.toNat : Int) > 2147483647) := by omega
      rw [if_pos c1]
      have : min m.toNat (2 ^ 31 - 1) = 2147483647 := by omega
      rw [this]; decide
    · have c1 : ¬ ((m.toNat : Int) ≠ 2 ^ 64 - 1 ∧ (m.toNat : Int) > 2147483647) := by omega
      rw [if_neg c1]
      have : min m.toNat (2 ^ 31 - 1) = m.toNat := by omega
      rw [this, wrapS32_of_lt _ (by omega) (by omega)]

/-- the pre-repair variant of the model is NOT the current code (witness: 2^31 ms). -/
theorem test_original_differs :
    qb_loop_timer_msec_duration_to_expire_c 0 ((2147483648 : UInt64).toNat)
      ≠ (loopMsecDurationToExpire Cfg.original 2147483648).toInt := by decide

end QbVerif.Lemmas.TimerC
