/-
C01 — frame and transfer lemmas for the invariant `CInv` (Lemmas/RingConcInv.lean): what a
store by one thread leaves untouched of the other thread's facts.
-/
import QbVerif.Lemmas.RingConcInv

namespace QbVerif.RingConcLemmas
open QbVerif.Ring QbVerif.RingSpec QbVerif.RingLemmas QbVerif.RingConc

/-! ### arithmetic of the free-space test -/

theorem fits_le {W TR TW k : Nat} (h : Fits W TR TW k) : TW + k + 1 ≤ TR + W := by
  unfold Fits at h; omega

theorem fits_of_lt {W TR TW k : Nat} (h : Fits W TR TW k) (hlt : TR < TW) : TW + k + 2 ≤ TR + W := by
  unfold Fits at h; omega

theorem fits_mono {W TR TR' TW k : Nat} (h : Fits W TR TW k) (hle : TR ≤ TR') (hlt : TR < TW) :
    Fits W TR' TW k := by
  unfold Fits at *; omega

/-- `qb_rb_space_free` on the residues of two absolute pointers less than a ring apart -/
theorem freeSeen_abs (r : Rb) (TRs TW : Nat) (hW : 0 < r.W) (hle : TRs ≤ TW) (hlt : TW < TRs + r.W) :
    freeSeen r (TW % r.W) (TRs % r.W) =
      if TW = TRs then (match r.sem with | some (_+1) => 0 | _ => 4 * r.W)
      else 4 * (r.W - (TW - TRs) - 1) := by
  have ha : TRs % r.W < r.W := Nat.mod_lt _ hW
  have hwp : TW % r.W = (TRs % r.W + (TW - TRs)) % r.W := by
    rw [Nat.mod_add_mod]; congr 1; omega
  have hx := mod_lt2 (x := TRs % r.W + (TW - TRs)) (W := r.W) (by omega)
  unfold freeSeen
  by_cases e : TW = TRs
  · subst e
    simp only [Nat.lt_irrefl, if_false, if_true]
    cases r.sem with
    | none => rfl
    | some n => cases n <;> rfl
  · rw [if_neg e, hwp, hx]
    by_cases hl : TRs % r.W + (TW - TRs) < r.W
    · rw [if_pos hl, if_pos (by omega)]; omega
    · rw [if_neg hl, if_neg (by omega), if_pos (by omega)]; omega

/-- the space test passed on a (possibly stale) read pointer: there is room -/
theorem fits_of_free {r : Rb} {TRs TR TW L : Nat} (hW : 0 < r.W) (hs : TRs ≤ TR) (hle : TR ≤ TW)
    (hlt : TW < TRs + r.W) (h : ¬ freeSeen r (TW % r.W) (TRs % r.W) < L + MARGIN) :
    Fits r.W TR TW (cw L) := by
  rw [freeSeen_abs r TRs TW hW (by omega) hlt] at h
  have hm := MARGIN_eq
  have hc := cw_hi L
  unfold Fits
  by_cases e : TW = TRs
  · rw [if_pos e] at h
    left
    refine ⟨by omega, ?_⟩
    cases hsem : r.sem with
    | none => rw [hsem] at h; simp only at h; omega
    | some n => cases n <;> rw [hsem] at h <;> simp only at h <;> omega
  · rw [if_neg e] at h
    right; omega

/-! ### the writer's facts under changes made by the reader -/

theorem freeSeen_mem (r : Rb) (m' : Array Nat) (ws rs : Nat) :
    freeSeen { r with mem := m' } ws rs = freeSeen r ws rs := rfl

/-- stores outside the writer's region `[TW, TR + W)` keep the writer's facts -/
theorem WF_frame {r : Rb} {m' : Array Nat} {TR TW : Nat} {op : WOp} {pc : WPc} (hW : 0 < r.W)
    (hlt : TR < TW)
    (h : ∀ a, 4 * TW ≤ a → a < 4 * (TR + r.W) → cell m' r.W a = cell r.mem r.W a)
    (hw : WF r TR TW op pc) : WF { r with mem := m' } TR TW op pc := by
  have hlo := cw_lo op.data.length
  have h2 := cw_ge op.data.length
  have pay : Fits r.W TR TW (cw op.data.length) → Payload r.mem r.W TW op.data → Payload m' r.W TW op.data :=
    fun hf hp => Payload_frame (fun a ha hb => h a (by omega) (by have := fits_of_lt hf hlt; omega)) hp
  have wd : ∀ i, Fits r.W TR TW (cw op.data.length) → i ≤ cw op.data.length + 1 →
      word m' r.W (TW + i) = word r.mem r.W (TW + i) :=
    fun i hf hi => word_congr hW (fun a ha hb => h a (by omega) (by have := fits_of_lt hf hlt; omega))
  cases pc with
  | idle => trivial
  | sfRd ws => exact hw
  | sfCmp ws rs b => exact hw
  | alWp => exact hw
  | alSz wp => exact hw
  | alMg wp => exact hw
  | copy wp j =>
    obtain ⟨a, hf, c, d, e⟩ := hw
    exact ⟨a, hf, c, d, PayloadPrefix_frame (fun x ha hb => h x (by omega) (by have := fits_of_lt hf hlt; omega)) e⟩
  | cmWp => exact ⟨hw.1, pay hw.1 hw.2⟩
  | cmSz old => exact ⟨hw.1, hw.2.1, pay hw.2.1 hw.2.2⟩
  | cmStep old =>
    obtain ⟨a, hf, c, d⟩ := hw
    exact ⟨a, hf, pay hf c, by have := wd 0 hf (by omega); simp only [Nat.add_zero] at this; rw [this]; exact d⟩
  | cmNext old new =>
    obtain ⟨a, b, hf, c, d⟩ := hw
    exact ⟨a, b, hf, pay hf c, by have := wd 0 hf (by omega); simp only [Nat.add_zero] at this; rw [this]; exact d⟩
  | cmSetWp old new =>
    obtain ⟨a, b, hf, c, d, e⟩ := hw
    refine ⟨a, b, hf, pay hf c, ?_, ?_⟩
    · have := wd 0 hf (by omega); simp only [Nat.add_zero] at this; rw [this]; exact d
    · have := wd (cw op.data.length + 1) hf (by omega); rw [← Nat.add_assoc] at this; rw [this]; exact e
  | cmMg old =>
    obtain ⟨a, hf, c, d, e⟩ := hw
    refine ⟨a, hf, pay hf c, ?_, ?_⟩
    · have := wd 0 hf (by omega); simp only [Nat.add_zero] at this; rw [this]; exact d
    · have := wd (cw op.data.length + 1) hf (by omega); rw [← Nat.add_assoc] at this; rw [this]; exact e
  | cmPost =>
    intro hs
    obtain ⟨hf, c, d, e, f⟩ := hw hs
    refine ⟨hf, pay hf c, ?_, ?_, ?_⟩
    · have := wd 0 hf (by omega); simp only [Nat.add_zero] at this; rw [this]; exact d
    · rw [wd 1 hf (by omega)]; exact e
    · have := wd (cw op.data.length + 1) hf (by omega); rw [← Nat.add_assoc] at this; rw [this]; exact f

/-- the reader advancing `read_pt` only gives the writer more room -/
theorem WF_mono {r : Rb} {TR TR' TW : Nat} {op : WOp} {pc : WPc} (hle : TR ≤ TR') (hlt : TR < TW)
    (hw : WF r TR TW op pc) : WF r TR' TW op pc := by
  cases pc with
  | idle => trivial
  | sfRd ws => exact hw
  | sfCmp ws rs b =>
    obtain ⟨a, ⟨TRs, h1, h2, h3⟩, c⟩ := hw
    exact ⟨a, ⟨TRs, by omega, h2, h3⟩, c⟩
  | alWp => exact fits_mono hw hle hlt
  | alSz wp => exact ⟨hw.1, fits_mono hw.2 hle hlt⟩
  | alMg wp => exact ⟨hw.1, fits_mono hw.2 hle hlt⟩
  | copy wp j => obtain ⟨a, hf, c⟩ := hw; exact ⟨a, fits_mono hf hle hlt, c⟩
  | cmWp => exact ⟨fits_mono hw.1 hle hlt, hw.2⟩
  | cmSz old => obtain ⟨a, hf, c⟩ := hw; exact ⟨a, fits_mono hf hle hlt, c⟩
  | cmStep old => obtain ⟨a, hf, c⟩ := hw; exact ⟨a, fits_mono hf hle hlt, c⟩
  | cmNext old new => obtain ⟨a, b, hf, c⟩ := hw; exact ⟨a, b, fits_mono hf hle hlt, c⟩
  | cmSetWp old new => obtain ⟨a, b, hf, c⟩ := hw; exact ⟨a, b, fits_mono hf hle hlt, c⟩
  | cmMg old => obtain ⟨a, hf, c⟩ := hw; exact ⟨a, fits_mono hf hle hlt, c⟩
  | cmPost => intro hs; obtain ⟨hf, c⟩ := hw hs; exact ⟨fits_mono hf hle hlt, c⟩

/-- a semaphore operation of the reader while an unread chunk exists (`TR < TW`) -/
theorem WF_sem {r : Rb} {s' : Option Nat} {TR TW : Nat} {op : WOp} {pc : WPc}
    (hlt : TR < TW) (hs : s'.isSome = r.sem.isSome)
    (hw : WF r TR TW op pc) : WF { r with sem := s' } TR TW op pc := by
  cases pc with
  | sfCmp ws rs b =>
    obtain ⟨a, ⟨TRs, h1, h2, h3⟩, c⟩ := hw
    refine ⟨a, ⟨TRs, h1, h2, h3⟩, ?_⟩
    rw [c]
    have hne : ws ≠ rs := by
      rw [a, h2]
      intro e
      have := mod_window_inj (N := r.W) (a := TRs) (b := TW) (by omega) h3 e.symm
      omega
    unfold freeSeen
    by_cases h : ws > rs
    · simp only [h, if_true]
    · have h' : ws < rs := by omega
      simp only [h, h', if_true, if_false]
  | cmPost => intro h; exact hw (by rw [← hs]; exact h)
  | idle => trivial
  | sfRd ws => exact hw
  | alWp => exact hw
  | alSz wp => exact hw
  | alMg wp => exact hw
  | copy wp j => exact hw
  | cmWp => exact hw
  | cmSz old => exact hw
  | cmStep old => exact hw
  | cmNext old new => exact hw
  | cmSetWp old new => exact hw
  | cmMg old => exact hw

/-- a failing `sem_trywait` / no semaphore: nothing changes -/
theorem WF_sem_same {r : Rb} {TR TW : Nat} {op : WOp} {pc : WPc} (hw : WF r TR TW op pc) :
    WF { r with sem := r.sem } TR TW op pc := hw

/-! ### the reader's facts under changes made by the writer -/

theorem RF_append {W TR : Nat} {q : List (List Nat)} {sem : Option Nat} {rbuf : List Nat} {op : ROp} {pc : RPc}
    (d : List Nat) (h : RF W TR q sem rbuf op pc) : RF W TR (q ++ [d]) sem rbuf op pc := by
  have rc : ∀ d0, RC q rbuf op d0 → RC (q ++ [d]) rbuf op d0 := by
    rintro d0 ⟨⟨ds, e⟩, b, c⟩
    exact ⟨⟨ds ++ [d], by rw [e]; rfl⟩, b, c⟩
  cases pc with
  | idle => trivial
  | rdRp => exact h
  | rdMg p => exact h
  | rdBad => exact h
  | rdSz p => exact ⟨h.1, h.2.1, by simp⟩
  | rdShort => obtain ⟨cap, d0, ds, a, b, c⟩ := h; exact ⟨cap, d0, ds ++ [d], a, by rw [b]; rfl, c⟩
  | rdCpy p sz => obtain ⟨cap, d0, ds, a, b, c⟩ := h; exact ⟨cap, d0, ds ++ [d], a, by rw [b]; rfl, c⟩
  | pkRp => exact h
  | pkMg p => exact h
  | pkBad => exact h
  | pkSz p => exact ⟨h.1, h.2.1, by simp⟩
  | rcopy p sz j => obtain ⟨f, d0, ds, a, b, c⟩ := h; exact ⟨f, d0, ds ++ [d], a, by rw [b]; rfl, c⟩
  | rcRp => obtain ⟨d0, a⟩ := h; exact ⟨d0, rc d0 a⟩
  | rcMg old => obtain ⟨d0, a, b⟩ := h; exact ⟨d0, rc d0 a, b⟩
  | rcSz old => obtain ⟨d0, a, b⟩ := h; exact ⟨d0, rc d0 a, b⟩
  | rcStep old => obtain ⟨d0, a, b⟩ := h; exact ⟨d0, rc d0 a, b⟩
  | rcClr old new => obtain ⟨d0, a, b⟩ := h; exact ⟨d0, rc d0 a, b⟩
  | rcDead old new => obtain ⟨d0, a, b⟩ := h; exact ⟨d0, rc d0 a, b⟩
  | rcSetRp new => obtain ⟨d0, a, b⟩ := h; exact ⟨d0, rc d0 a, b⟩

theorem RF_sem {W TR : Nat} {q : List (List Nat)} {sem sem' : Option Nat} {rbuf : List Nat} {op : ROp} {pc : RPc}
    (hs : sem = none → sem' = none) (h : RF W TR q sem rbuf op pc) : RF W TR q sem' rbuf op pc := by
  cases pc with
  | pkBad => exact ⟨h.1, hs h.2⟩
  | idle => trivial
  | rdRp => exact h
  | rdMg p => exact h
  | rdBad => exact h
  | rdSz p => exact h
  | rdShort => exact h
  | rdCpy p sz => exact h
  | pkRp => exact h
  | pkMg p => exact h
  | pkSz p => exact h
  | rcopy p sz j => exact h
  | rcRp => exact h
  | rcMg old => exact h
  | rcSz old => exact h
  | rcStep old => exact h
  | rcClr old new => exact h
  | rcDead old new => exact h
  | rcSetRp new => exact h

/-- the reader is past the magic check only if there is an unread chunk -/
theorem rflags_nil {W TR : Nat} {sem : Option Nat} {rbuf : List Nat} {op : ROp} {pc : RPc}
    (h : RF W TR [] sem rbuf op pc) : rclr pc = false ∧ rdead pc = false := by
  cases pc <;> first | exact ⟨rfl, rfl⟩ | (simp only [RF, RC] at h; obtain ⟨d, ⟨⟨ds, e⟩, _⟩, _⟩ := h; cases e)

theorem QStored_append {m : Array Nat} {W A : Nat} {clr dead : Bool} {q : List (List Nat)} {d : List Nat}
    (hflags : q = [] → clr = false ∧ dead = false)
    (hq : QStored m W A clr dead q) (hd : Stored m W (A + total q) [d]) :
    QStored m W A clr dead (q ++ [d]) := by
  cases q with
  | nil =>
    obtain ⟨rfl, rfl⟩ := hflags rfl
    simp only [List.nil_append, total_nil, Nat.add_zero] at hd ⊢
    exact stored_cons_iff.mp hd
  | cons c cs =>
    refine ⟨hq.1, Stored_append hq.2 ?_⟩
    rw [total_cons, ← Nat.add_assoc] at hd
    exact hd

/-! ### what the reader's loads return -/

theorem magic_at {r : Rb} {TR p : Nat} (hp : p = TR % r.W) : r.magic p = word r.mem r.W (TR + 1) := by
  subst hp; unfold Rb.magic word; rw [Nat.mod_add_mod]

theorem size_at {r : Rb} {TR p : Nat} (hp : p = TR % r.W) : rd32 r.mem p = word r.mem r.W TR := by
  subst hp; rfl

theorem dataAddr_at {r : Rb} {TR p j : Nat} (hW : 0 < r.W) (hp : p = TR % r.W) :
    r.dataAddr p j = (4 * (TR + 2) + j) % (4 * r.W) := by
  subst hp
  unfold Rb.dataAddr
  rw [Nat.mod_add_mod, HDRW_eq]
  have := mul4_mod (TR + 2) r.W 0 (by omega) hW
  simp only [Nat.add_zero] at this
  rw [this, Nat.mod_add_mod]

theorem copyOutFrom_at {r : Rb} {TR p j n : Nat} {d : List Nat} (hW : 0 < r.W) (hp : p = TR % r.W)
    (hpay : Payload r.mem r.W TR d) (hjn : j + n ≤ d.length) :
    copyOutFrom r p j n = (d.drop j).take n := by
  unfold copyOutFrom
  apply List.ext_getElem
  · simp; omega
  · intro i h1 h2
    simp only [List.length_map, List.length_range] at h1
    simp only [List.getElem_map, List.getElem_range, List.getElem_take, List.getElem_drop]
    rw [dataAddr_at hW hp]
    have := prefix_of_payload hpay (j + i + 1) (j + i) (by omega) (by omega)
    rw [← this]; unfold cell; congr 2

theorem copyOut_at {r : Rb} {TR p : Nat} {d : List Nat} (hW : 0 < r.W) (hp : p = TR % r.W)
    (hpay : Payload r.mem r.W TR d) : r.copyOut p d.length = d := by
  have := copyOutFrom_at (j := 0) (n := d.length) hW hp hpay (by omega)
  simp only [List.drop_zero, List.take_length] at this
  have e : copyOutFrom r p 0 d.length = r.copyOut p d.length := by
    unfold Rb.copyOut copyOutFrom
    simp only [Nat.zero_add]
  rw [← e]; exact this

theorem chunkStep_at {r : Rb} {A p sz : Nat} (hW : 0 < r.W) (hp : p = A % r.W) (hsz : word r.mem r.W A = sz) :
    r.chunkStep p = (A + cw sz) % r.W := by
  subst hp; exact chunkStep_abs hW hsz

end QbVerif.RingConcLemmas
