/-
C08: an allocation id that has left the loop without being dispatched (`qb_loop_job_del`) never comes back:
membership in `allIds` (dispatched ++ pending) only changes by qb_loop_job_add (the fresh id) and is permuted
by the pop of qb_loop_run_level.  Core Lean only.
-/
import QbVerif.Lemmas.LoopJobs4

namespace QbVerif.Loop
open QbVerif.Gen

theorem JLe.mem {s s' : St} (l : JLe s s') {x : Nat} (hx : x ∈ s'.allIds) : x ∈ s.allIds := by
  have hsub : s'.allIds.Sublist s.allIds := by
    unfold St.allIds
    rw [l.dlog]
    exact (List.Sublist.refl _).append (l.lo.append (l.me.append l.hi))
  exact hsub.subset hx

theorem jobAdd_mem (s : St) (p id x : Nat) (hx : x ∈ (s.jobAdd p id).1.allIds) : x = s.nextAid ∨ x ∈ s.allIds := by
  unfold St.jobAdd at hx
  split at hx
  · exact Or.inr hx
  · obtain ⟨X, Y, e1, e2, _⟩ := allIds_split s p
    have hp : pendOf { s.lv p with wait := (s.lv p).wait ++ [Item.job s.nextAid id] } = pendOf (s.lv p) ++ [s.nextAid] := by
      simp [pendOf, aids, List.filterMap_append, jobAid]
    have e2' := e2 { s.lv p with wait := (s.lv p).wait ++ [Item.job s.nextAid id] } s.dlog
    rw [hp] at e2'
    have e2'' : ({ s.setLv p { s.lv p with wait := (s.lv p).wait ++ [Item.job s.nextAid id] } with
        nextAid := s.nextAid + 1 } : St).allIds =
        aids (List.map Prod.fst s.dlog) ++ (X ++ (pendOf (s.lv p) ++ [s.nextAid] ++ Y)) := by
      rw [← e2']; exact allIds_congr (by simp) (by simp) (by simp) (by simp)
    have hx' : x ∈ aids (List.map Prod.fst s.dlog) ++ (X ++ (pendOf (s.lv p) ++ [s.nextAid] ++ Y)) := by
      rw [← e2'']; exact hx
    rw [e1]
    simp only [List.mem_append, List.mem_singleton, St.dAids] at hx' ⊢
    rcases hx' with h | h | (h | h) | h
    · exact Or.inr (Or.inl h)
    · exact Or.inr (Or.inr (Or.inl h))
    · exact Or.inr (Or.inr (Or.inr (Or.inl h)))
    · exact Or.inl h
    · exact Or.inr (Or.inr (Or.inr (Or.inr h)))

theorem pop_mem (s : St) (p : Nat) (it : Item) (rest : List Item) (hj : (s.lv p).jobs = it :: rest) (x : Nat)
    (hx : x ∈ (s.popped p it rest).allIds) : x ∈ s.allIds := by
  unfold St.popped at hx
  obtain ⟨X, Y, e1, e2, _⟩ := allIds_split s p
  have e2' := e2 { s.lv p with jobs := rest } ((it, s.regCheck it) :: s.dlog)
  have hpl : pendOf (s.lv p) = aids [it] ++ pendOf { s.lv p with jobs := rest } := by
    cases hja : jobAid it <;> simp [pendOf, aids, hj, List.filterMap_cons, List.filterMap_append, hja]
  have hd : aids (((it, s.regCheck it) :: s.dlog).map Prod.fst) = aids [it] ++ s.dAids := by
    cases hja : jobAid it <;> simp [St.dAids, aids, List.filterMap_cons, hja]
  rw [e2', hd] at hx
  rw [e1, hpl]
  simp only [List.mem_append] at hx ⊢
  rcases hx with (h | h) | h | h | h
  · exact Or.inr (Or.inr (Or.inl (Or.inl h)))
  · exact Or.inl h
  · exact Or.inr (Or.inl h)
  · exact Or.inr (Or.inr (Or.inl (Or.inr h)))
  · exact Or.inr (Or.inr (Or.inr h))

/-- `a` was allocated, and is neither pending nor dispatched: it was deleted -/
structure Gone (a : Nat) (s : St) : Prop where
  inv : JInv s
  lt : a < s.nextAid
  out : a ∉ s.allIds

theorem Gone.mono {a : Nat} {s s' : St} (h : Gone a s) (l : JLe s s') : Gone a s' :=
  ⟨h.inv.mono l, Nat.lt_of_lt_of_le h.lt l.next, fun hx => h.out (l.mem hx)⟩

end QbVerif.Loop
