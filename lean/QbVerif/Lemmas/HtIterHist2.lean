/-
Hashtable model, history level of C18, part 2: every operation except the insertion of a new key
is an update of the shape `MF` (HtIterHist1): the reference moves of iter_next / iter_free
(`moveState`), `hashtable_rm` of a present key (`rmResult`; the only node that stops being live is
the removed one), `hashtable_put` of a present key and the notifier-list updates.
-/
import QbVerif.Lemmas.HtIterHist1

namespace QbVerif.Hashtable
open QbVerif.Map
set_option linter.unusedSimpArgs false

theorem moveState_mf {t : HT} (h : Inv t) (inc dec : Option Node) (its' : List (Nat × Iter))
    (hdec : ∀ np, dec = some np → np ∈ t.flat ∧ 0 < parked t.iters np.id) :
    ∃ g q, MF t (moveState t inc dec its').1 g q (fun _ => False) := by
  have hb : (match inc with | some n => t.mapNode n.id incRc | none => t).buckets =
      t.buckets.map (·.map (incG inc)) := by
    cases inc with
    | none => exact (map_id_buckets _).symm
    | some n => rfl
  cases dec with
  | none =>
    refine ⟨incG inc, fun _ => true, ?_, fun x => (incG_fields inc x).1, fun x _ => (incG_fields inc x).2.1, ?_, ?_⟩
    · show (match inc with | some n => t.mapNode n.id incRc | none => t).buckets = _
      rw [hb, filter_true_buckets]
    · intro x _ hr; rw [(incG_fields inc x).2.2.1] at hr; exact hr
    · intro x _ hr _; exact ⟨by rw [(incG_fields inc x).2.2.1]; exact hr, rfl⟩
  | some np =>
    obtain ⟨hnp, hpk⟩ := hdec np rfl
    by_cases hkeep : np.refcount - 1 > 0
    · refine ⟨fun x => upd np.id decRc (incG inc x), fun _ => true, ?_,
        fun x => (upd_dec_fields _ _).1.trans (incG_fields inc x).1,
        fun x _ => (upd_dec_fields _ _).2.1.trans (incG_fields inc x).2.1, ?_, ?_⟩
      · simp only [moveState, release, if_pos hkeep]
        show ((match inc with | some n => t.mapNode n.id incRc | none => t).mapNode np.id decRc).buckets = _
        rw [mapNode_buckets, hb, filter_true_buckets, List.map_map]
        apply List.map_congr_left; intro l _; simp [List.map_map, Function.comp_def]
      · intro x _ hr
        rw [(upd_dec_fields _ _).2.2.1, (incG_fields inc x).2.2.1] at hr; exact hr
      · intro x _ hr _
        exact ⟨by rw [(upd_dec_fields _ _).2.2.1, (incG_fields inc x).2.2.1]; exact hr, rfl⟩
    · have hrem := h.last_ref_removed hnp hpk hkeep
      refine ⟨incG inc, fun x => !(x.id == np.id), ?_, fun x => (incG_fields inc x).1,
        fun x _ => (incG_fields inc x).2.1, ?_, ?_⟩
      · simp only [moveState, release, if_neg hkeep]
        show ((match inc with | some n => t.mapNode n.id incRc | none => t).buckets.map
          fun (l : List Node) => l.filter fun (x : Node) => !(x.id == np.id)) = _
        rw [hb, List.map_map]; rfl
      · intro x _ hr; rw [(incG_fields inc x).2.2.1] at hr; exact hr
      · intro x hx hr _
        refine ⟨by rw [(incG_fields inc x).2.2.1]; exact hr, ?_⟩
        have : ¬ x.id = np.id := by
          intro e
          have := h.inj hx hnp e
          subst this
          rw [hrem] at hr; cases hr
        simp [(incG_fields inc x).1, this]

theorem rmResult_mf {t : HT} (n : Node) :
    ∃ g q, MF t (rmResult t n).1 g q (fun x => x.id = n.id) := by
  have hsr : ∀ x, (upd n.id setRem x).id = x.id ∧ (upd n.id setRem x).key = x.key := by
    intro x; unfold upd; split <;> simp [setRem]
  have hsrem : ∀ x, (upd n.id setRem x).removed = (if x.id = n.id then true else x.removed) := by
    intro x; unfold upd; by_cases e : x.id = n.id <;> simp [e, setRem]
  have hne : ∀ x, ¬ x.id = n.id → upd n.id setRem x = x := by intro x e; simp [upd, e]
  by_cases hkeep : n.refcount - 1 > 0
  · refine ⟨fun x => upd n.id decRc (upd n.id setRem x), fun _ => true, ?_,
      fun x => (upd_dec_fields _ _).1.trans (hsr x).1, fun x _ => (upd_dec_fields _ _).2.1.trans (hsr x).2, ?_, ?_⟩
    · simp only [rmResult, release]
      rw [if_pos (show (setRem n).refcount - 1 > 0 from hkeep)]
      show ((t.mapNode n.id setRem).mapNode n.id decRc).buckets = _
      rw [mapNode_buckets, mapNode_buckets, filter_true_buckets, List.map_map]
      apply List.map_congr_left; intro l _; simp [List.map_map, Function.comp_def]
    · intro x _ hrx
      rw [(upd_dec_fields _ _).2.2.1, hsrem x] at hrx
      by_cases e : x.id = n.id <;> simp [e] at hrx
      exact hrx
    · intro x _ hr e
      refine ⟨?_, rfl⟩
      rw [(upd_dec_fields _ _).2.2.1, hne x e]; exact hr
  · refine ⟨upd n.id setRem, fun x => !(x.id == n.id), ?_, fun x => (hsr x).1, fun x _ => (hsr x).2, ?_, ?_⟩
    · simp only [rmResult, release]
      rw [if_neg (show ¬ (setRem n).refcount - 1 > 0 from hkeep)]
      show ((t.mapNode n.id setRem).buckets.map
        fun (l : List Node) => l.filter fun (x : Node) => !(x.id == n.id)) = _
      rw [mapNode_buckets, List.map_map]; rfl
    · intro x _ hrx
      rw [hsrem x] at hrx
      by_cases e : x.id = n.id <;> simp [e] at hrx
      exact hrx
    · intro x _ hr e
      rw [hne x e]
      exact ⟨hr, by simp [e]⟩

/-- an update of node fields other than id / key / removed -/
theorem mapSame_mf {t t' : HT} (g : Node → Node) (hb : t'.buckets = t.buckets.map (·.map g))
    (hid : ∀ x, (g x).id = x.id) (hg : ∀ x ∈ t.flat, (g x).key = x.key ∧ (g x).removed = x.removed) :
    MF t t' g (fun _ => true) (fun _ => False) := by
  refine ⟨by rw [hb, filter_true_buckets], hid, fun x hx => (hg x hx).1, ?_, ?_⟩
  · intro x hx hr; rw [(hg x hx).2] at hr; exact hr
  · intro x hx hr _; exact ⟨by rw [(hg x hx).2]; exact hr, rfl⟩

theorem putOld_mf {t : HT} (h : Inv t) {key : Key} {n : Node} (v : Val) (hl : t.lookup key = some n) :
    MF t (t.mapNode n.id fun x => { x with key := key, val := v })
      (upd n.id fun x => { x with key := key, val := v }) (fun _ => true) (fun _ => False) := by
  obtain ⟨hn, _, hk⟩ := h.lookup_some hl
  refine mapSame_mf _ rfl (upd_id _ _ fun _ => rfl) ?_
  intro x hx
  unfold upd
  by_cases e : x.id = n.id
  · have := h.inj hx hn e
    subst this
    simp [hk]
  · simp [e]

theorem setNotifHead_mf (t : HT) (key : Option Key) (l : List Notifier) :
    ∃ g, MF t (t.setNotifHead key l) g (fun _ => true) (fun _ => False) ∧ (t.setNotifHead key l).iters = t.iters := by
  unfold HT.setNotifHead
  cases key with
  | none => exact ⟨_, mapSame_mf (fun x => x) (map_id_buckets _).symm (fun _ => rfl) (fun _ _ => ⟨rfl, rfl⟩), rfl⟩
  | some k =>
    simp only
    cases t.lookup k with
    | none => exact ⟨_, MF.refl t, rfl⟩
    | some n =>
      refine ⟨_, mapSame_mf (upd n.id fun x => { x with notifs := l }) rfl (upd_id _ _ fun _ => rfl) ?_, rfl⟩
      intro x _
      unfold upd
      split <;> simp

theorem notifyAdd_mf (t : HT) (key : Option Key) (events id : Nat) :
    ∃ g, MF t (t.notifyAdd key events id).1 g (fun _ => true) (fun _ => False) ∧
      (t.notifyAdd key events id).1.iters = t.iters := by
  unfold HT.notifyAdd
  split
  · exact ⟨_, MF.refl t, rfl⟩
  · split
    · exact ⟨_, MF.refl t, rfl⟩
    · split
      · exact ⟨_, MF.refl t, rfl⟩
      · exact setNotifHead_mf t _ _

theorem notifyDel_mf (t : HT) (key : Option Key) (events : Nat) (id : Option Nat) :
    ∃ g, MF t (t.notifyDel key events id).1 g (fun _ => true) (fun _ => False) ∧
      (t.notifyDel key events id).1.iters = t.iters := by
  unfold HT.notifyDel
  split
  · exact ⟨_, MF.refl t, rfl⟩
  · split
    · exact setNotifHead_mf t _ _
    · exact ⟨_, MF.refl t, rfl⟩

end QbVerif.Hashtable
