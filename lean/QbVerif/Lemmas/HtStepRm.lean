/-
Hashtable model: `hashtable_rm` and the in-place updates (`hashtable_put` on a present key,
notifier lists) in a state satisfying `Inv`.
-/
import QbVerif.Lemmas.HtStepIter

namespace QbVerif.Hashtable
open QbVerif.Map
set_option linter.unusedSimpArgs false

def setRem (x : Node) : Node := { x with removed := true }

/-- what `lookup` returns is a linked, live node with that key -/
theorem Inv.lookup_some {t : HT} (h : Inv t) {key : Key} {n : Node} (hl : t.lookup key = some n) :
    n ∈ t.flat ∧ n.removed = false ∧ n.key = key := by
  rw [lookup_eq h.inBucket] at hl
  have hm := List.mem_of_find?_eq_some hl
  have hp := List.find?_some hl
  unfold HT.isKey at hp
  simp only [h.fix14, Bool.not_true, Bool.false_or, Bool.and_eq_true, Bool.not_eq_true', beq_iff_eq] at hp
  exact ⟨hm, hp.1, hp.2⟩

theorem Inv.lookup_none {t : HT} (h : Inv t) {key : Key} (hl : t.lookup key = none) :
    ∀ n ∈ live t, n.key ≠ key := by
  rw [lookup_eq h.inBucket] at hl
  intro n hn e
  have hm := List.mem_filter.1 hn
  have := List.find?_eq_none.1 hl n hm.1
  unfold HT.isKey at this
  simp [h.fix14, e] at this
  simp [this] at hm

theorem Inv.inj {t : HT} (h : Inv t) {x n : Node} (hx : x ∈ t.flat) (hn : n ∈ t.flat) (e : x.id = n.id) : x = n :=
  inj_of_nodup_map (·.id) h.idsNodup hx hn e

/-- an update of node fields other than id / key / removed / refcount -/
theorem Inv.of_map_same {t t' : HT} (h : Inv t) (g : Node → Node)
    (hb : t'.buckets = t.buckets.map (·.map g))
    (hg : ∀ x ∈ t.flat, (g x).id = x.id ∧ (g x).key = x.key ∧ (g x).removed = x.removed ∧ (g x).refcount = x.refcount)
    (e1 : t'.fix14 = t.fix14) (e2 : t'.fix15 = t.fix15) (e3 : t'.order = t.order) (e4 : t'.count = t.count)
    (e5 : t'.crashed = t.crashed) (e6 : t'.nextId = t.nextId) (e7 : t'.iters = t.iters) : Inv t' := by
  have hft : ∀ l : List Node, l.filter (fun _ => true) = l := fun l =>
    List.filter_eq_self.2 (by intro a _; rfl)
  refine h.of_map_filter g (fun _ => true) ?_ (e1.trans h.fix14) (e2.trans h.fix15) e3 ?_ ?_ ?_ ?_ ?_
    (e7 ▸ h.itKeys) (e7 ▸ h.noZero) ?_ (e5.trans h.notCrashed) (Nat.le_of_eq e6.symm)
  · rw [hb, filter_true_buckets]
  · intro x hx; exact ⟨(hg x hx).1, (hg x hx).2.1⟩
  · intro x hx hr; rw [(hg x hx).2.2.1] at hr; exact hr
  · intro x hx _
    rw [(hg x hx).2.2.2, base_congr (hg x hx).2.2.1, e7]; exact h.rc x hx
  · intro x hx _ hr
    rw [(hg x hx).2.2.1] at hr; rw [e7]; exact h.zombie x hx hr
  · intro p hp id hid
    rw [e7] at hp
    obtain ⟨x, hx, hxid⟩ := h.itNode p hp id hid
    exact ⟨x, hx, hxid, rfl⟩
  · rw [e4, h.count, hft]
    unfold live
    rw [List.filter_map, List.length_map]
    congr 1
    apply List.filter_congr
    intro x hx
    simp [Function.comp, (hg x hx).2.2.1]

theorem decCount_pos {c : Nat} (h : 0 < c) : decCount c = c - 1 := by
  unfold decCount; rw [if_neg (by omega)]

/-- result of `hashtable_rm` on a present key: the node is marked, its presence reference dropped -/
def rmResult (t : HT) (n : Node) : HT × List Event :=
  let r := release (t.mapNode n.id setRem) (setRem n)
  ({ r.1 with count := decCount r.1.count }, r.2)

theorem rm_eq {t : HT} (h : Inv t) (key : Key) :
    t.rm key = match t.lookup key with
      | none => (t, [], false)
      | some n => ((rmResult t n).1, (rmResult t n).2, true) := by
  unfold HT.rm
  cases hl : t.lookup key with
  | none => rfl
  | some n =>
    obtain ⟨hn, _, _⟩ := h.lookup_some hl
    simp only [h.fix14, ite_true]
    have hflat1 : (t.mapNode n.id setRem).flat = t.flat.map (upd n.id setRem) := flat_mapNode t n.id setRem
    have hsid : ∀ x, (setRem x).id = x.id := fun _ => rfl
    have hnd1 : ((t.mapNode n.id setRem).flat.map (·.id)).Nodup := by
      rw [hflat1, ids_map _ _ (upd_id n.id setRem hsid)]; exact h.idsNodup
    have hn1 : setRem n ∈ (t.mapNode n.id setRem).flat := by
      rw [hflat1]
      exact List.mem_map.2 ⟨n, hn, by simp [upd]⟩
    have hd := nodeDeref_eq hnd1 hn1
    show (match (t.mapNode n.id setRem).nodeDeref n.id with
      | none => (t.mapNode n.id setRem, [], true)
      | some (t2, evs) => ({ t2 with count := decCount t2.count }, evs, true)) = _
    have : (setRem n).id = n.id := rfl
    rw [this] at hd
    rw [hd]
    rfl

theorem live_remove {t : HT} (h : Inv t) {n : Node} (hn : n ∈ t.flat) (hr : n.removed = false) :
    ((live t).filter fun x => !(x.id == n.id)).length + 1 = (live t).length := by
  have hnl : n ∈ live t := List.mem_filter.2 ⟨hn, by simp [hr]⟩
  have hnd : ((live t).map (·.id)).Nodup :=
    List.Nodup.sublist ((List.filter_sublist).map _) h.idsNodup
  have := (upd_perm_id (·.id) hnd hnl).length_eq
  simp only [List.length_cons] at this
  omega

theorem rmResult_inv {t : HT} (h : Inv t) {n : Node} (hn : n ∈ t.flat) (hr : n.removed = false) :
    Inv (rmResult t n).1 := by
  have hrcn := h.rc n hn
  have hbase : base n = 1 := by unfold base; simp [hr]
  have hcpos : 0 < t.count := by
    rw [h.count]; have := live_remove h hn hr; omega
  have hsr : ∀ x, (upd n.id setRem x).id = x.id ∧ (upd n.id setRem x).key = x.key ∧
      (upd n.id setRem x).refcount = x.refcount := by
    intro x; unfold upd; split <;> simp [setRem]
  have hsrem : ∀ x ∈ t.flat, (upd n.id setRem x).removed = (if x.id = n.id then true else x.removed) := by
    intro x _; unfold upd; by_cases e : x.id = n.id <;> simp [e, setRem]
  have hcount : ∀ (g : Node → Node) (q : Node → Bool),
      (∀ x ∈ t.flat, (!(g x).removed && q (g x)) = (!x.removed && !(x.id == n.id))) →
      (((t.flat.map g).filter q).filter fun m => !m.removed).length + 1 = (live t).length := by
    intro g q hgq
    rw [List.filter_filter, List.filter_map, List.length_map, ← live_remove h hn hr]
    congr 2
    unfold live
    rw [List.filter_filter]
    apply List.filter_congr
    intro x hx
    simp only [Function.comp]
    rw [hgq x hx, Bool.and_comm]
  by_cases hkeep : n.refcount - 1 > 0
  · have hst : (rmResult t n).1 =
        { (t.mapNode n.id setRem).mapNode n.id decRc with count := decCount t.count } := by
      simp only [rmResult, release]
      rw [if_pos (show (setRem n).refcount - 1 > 0 from hkeep)]
      rfl
    rw [hst]
    refine h.of_map_filter (fun x => upd n.id decRc (upd n.id setRem x)) (fun _ => true) ?_ h.fix14 h.fix15 rfl
      ?_ ?_ ?_ ?_ ?_ h.itKeys h.noZero ?_ h.notCrashed (Nat.le_refl _)
    · show ((t.mapNode n.id setRem).mapNode n.id decRc).buckets = _
      rw [mapNode_buckets, mapNode_buckets, filter_true_buckets, List.map_map]
      apply List.map_congr_left; intro l _; simp [List.map_map, Function.comp_def]
    · intro x _
      exact ⟨(upd_dec_fields _ _).1.trans (hsr x).1, (upd_dec_fields _ _).2.1.trans (hsr x).2.1⟩
    · intro x hx hrx
      rw [(upd_dec_fields _ _).2.2.1, hsrem x hx] at hrx
      by_cases e : x.id = n.id <;> simp [e] at hrx
      exact hrx
    · intro x hx _
      show _ = _ + parked t.iters x.id
      rw [(upd_dec_fields _ _).2.2.2, (hsr x).2.2, (hsr x).1]
      have hbx : base (upd n.id decRc (upd n.id setRem x)) = if x.id = n.id then 0 else base x := by
        unfold base
        rw [(upd_dec_fields _ _).2.2.1, hsrem x hx]
        by_cases e : x.id = n.id <;> simp [e]
      rw [hbx]
      by_cases e : x.id = n.id
      · have := h.inj hx hn e
        subst this
        simp only [if_true, ind_some]
        omega
      · rw [if_neg e, ind_ne (fun e' => e e'.symm), h.rc x hx]; omega
    · intro x hx _ hrx
      show 0 < parked t.iters x.id
      rw [(upd_dec_fields _ _).2.2.1, hsrem x hx] at hrx
      by_cases e : x.id = n.id
      · have := h.inj hx hn e
        subst this
        omega
      · rw [if_neg e] at hrx; exact h.zombie x hx hrx
    · intro p hp id hid
      obtain ⟨x, hx, hxid⟩ := h.itNode p hp id hid
      exact ⟨x, hx, hxid, rfl⟩
    · show decCount t.count = _
      rw [decCount_pos hcpos, h.count]
      have := hcount (fun x => upd n.id decRc (upd n.id setRem x)) (fun _ => true) (by
        intro x hx
        rw [(upd_dec_fields _ _).2.2.1, hsrem x hx]
        by_cases e : x.id = n.id <;> simp [e])
      omega
  · have hpk0 : parked t.iters n.id = 0 := by
      have := h.rcPos n hn; omega
    have hst : (rmResult t n).1 =
        { ((t.mapNode n.id setRem).nodeDestroy { setRem n with refcount := (setRem n).refcount - 1 }).1 with
          count := decCount t.count } := by
      simp only [rmResult, release]
      rw [if_neg (show ¬ (setRem n).refcount - 1 > 0 from hkeep)]
      rfl
    rw [hst]
    refine h.of_map_filter (upd n.id setRem) (fun x => !(x.id == n.id)) ?_ h.fix14 h.fix15 rfl
      ?_ ?_ ?_ ?_ ?_ h.itKeys h.noZero ?_ h.notCrashed (Nat.le_refl _)
    · show ((t.mapNode n.id setRem).buckets.map
        fun (l : List Node) => l.filter fun (x : Node) => !(x.id == n.id)) = _
      rw [mapNode_buckets, List.map_map]; rfl
    · intro x _; exact ⟨(hsr x).1, (hsr x).2.1⟩
    · intro x hx hrx
      rw [hsrem x hx] at hrx
      by_cases e : x.id = n.id <;> simp [e] at hrx
      exact hrx
    · intro x hx hq
      show _ = _ + parked t.iters x.id
      have e : ¬ x.id = n.id := by simpa [(hsr x).1] using hq
      have hbx : base (upd n.id setRem x) = base x := by
        unfold base; rw [hsrem x hx, if_neg e]
      rw [(hsr x).2.2, hbx]; exact h.rc x hx
    · intro x hx hq hrx
      show 0 < parked t.iters x.id
      have e : ¬ x.id = n.id := by simpa [(hsr x).1] using hq
      rw [hsrem x hx, if_neg e] at hrx
      exact h.zombie x hx hrx
    · intro p hp id hid
      obtain ⟨x, hx, hxid⟩ := h.itNode p hp id hid
      refine ⟨x, hx, hxid, ?_⟩
      have : id ≠ n.id := fun e => parked_zero hpk0 p hp (e ▸ hid)
      simp [(hsr x).1, hxid, this]
    · show decCount t.count = _
      rw [decCount_pos hcpos, h.count]
      have := hcount (upd n.id setRem) (fun x => !(x.id == n.id)) (by
        intro x hx
        rw [hsrem x hx, (hsr x).1]
        by_cases e : x.id = n.id <;> simp [e])
      omega

end QbVerif.Hashtable
