/-
C08: staleness of timer registrations.  A registration is named by (slot i, check word c).  `liveT s i c`: the
slot carries c and is not EMPTY.  `TStep s s'`: what the staleness arguments need from a step s → s' — the
stored scripts stay free of `nonce` operations (random() is not steered: nonce freshness), the random()
counter does not go back, a fault stays, check words stay below the counter, and a registration (c drawn
earlier: 1 ≤ c ≤ counter) that is not live does not become live unless the step faults.  Core Lean only.
-/
import QbVerif.Lemmas.LoopWalk2

namespace QbVerif.Loop
open QbVerif.Gen

/-- nonce freshness, syntactically: the history never steers `random()` -/
def okNonce (o : Op) : Prop := ∀ v, o ≠ Op.nonce v

def NN (s : St) : Prop := ∀ e ∈ s.scripts, ∀ o ∈ e.2.ops, okNonce o

def TimerSlot.live (t : TimerSlot) (c : Nat) : Prop := t.check = c ∧ t.state ≠ .empty

def liveT (s : St) (i c : Nat) : Prop := (s.timerSlot i).live c

def chkLe (s : St) : Prop := ∀ j, (s.timerSlot j).check ≤ s.nonce

structure TStep (s s' : St) : Prop where
  nn : NN s → NN s'
  nonce : s.nonce ≤ s'.nonce
  fault : s.fault.isSome → s'.fault.isSome
  chk : chkLe s → chkLe s'
  stale : ∀ i c, 1 ≤ c → c ≤ s.nonce → ¬ liveT s i c → s'.fault.isSome ∨ ¬ liveT s' i c
  dlog : s'.dlog = s.dlog

theorem TStep.refl (s : St) : TStep s s := ⟨id, Nat.le_refl _, id, id, fun _ _ _ _ h => Or.inr h, rfl⟩

theorem TStep.trans {a b c : St} (h1 : TStep a b) (h2 : TStep b c) : TStep a c := by
  refine ⟨fun h => h2.nn (h1.nn h), Nat.le_trans h1.nonce h2.nonce, fun h => h2.fault (h1.fault h),
    fun h => h2.chk (h1.chk h), ?_, h2.dlog.trans h1.dlog⟩
  intro i k hk1 hk2 hl
  rcases h1.stale i k hk1 hk2 hl with hf | hl'
  · exact Or.inl (h2.fault hf)
  · exact h2.stale i k hk1 (Nat.le_trans hk2 h1.nonce) hl'

/-- a step that leaves timers, scripts and the log alone -/
theorem TStep.of_core {s s' : St} (ht : s'.timers = s.timers) (hn : s.nonce ≤ s'.nonce)
    (hf : s.fault.isSome → s'.fault.isSome) (hs : s'.scripts = s.scripts) (hd : s'.dlog = s.dlog) : TStep s s' := by
  have hslot : ∀ j, s'.timerSlot j = s.timerSlot j := fun j => by unfold St.timerSlot; rw [ht]
  refine ⟨fun h => by unfold NN; rw [hs]; exact h, hn, hf, ?_, ?_, hd⟩
  · intro h j; rw [hslot]; exact Nat.le_trans (h j) hn
  · intro i c _ _ hl; right; unfold liveT; rw [hslot]; exact hl

theorem TStep.of_eq {s s' : St} (ht : s'.timers = s.timers) (hn : s'.nonce = s.nonce) (hf : s'.fault = s.fault)
    (hs : s'.scripts = s.scripts) (hd : s'.dlog = s.dlog) : TStep s s' :=
  TStep.of_core ht (by rw [hn]; exact Nat.le_refl _) (by rw [hf]; exact id) hs hd

theorem TStep.ite {s a b : St} {c : Prop} [Decidable c] (ha : TStep s a) (hb : TStep s b) :
    TStep s (if c then a else b) := by split <;> assumption

/-! ### the timer slot array -/

theorem timerSlot_ge (s : St) (j : Nat) (h : ¬ j < s.timers.length) : s.timerSlot j = {} := by
  unfold St.timerSlot
  simp [List.getD, List.getElem?_eq_none (Nat.le_of_not_lt h)]

theorem timerSlot_setTimer (s : St) (j i : Nat) (t : TimerSlot) :
    (s.setTimer j t).timerSlot i =
      if (j < s.timers.length ∧ i = j) ∨ (¬ j < s.timers.length ∧ i = s.timers.length) then t
      else s.timerSlot i := by
  unfold St.timerSlot St.setTimer setAt
  by_cases hj : j < s.timers.length
  · simp only [hj, if_true, true_and, not_true_eq_false, false_and, or_false]
    by_cases hij : i = j
    · subst hij; simp [List.getD, hj]
    · simp [List.getD, hij, List.getElem?_set, Ne.symm hij]
  · simp only [hj, if_false, false_and, not_false_eq_true, true_and, false_or]
    by_cases hil : i = s.timers.length
    · subst hil; simp [List.getD]
    · simp only [hil, if_false]
      by_cases hlt : i < s.timers.length
      · simp [List.getD, List.getElem?_append_left hlt]
      · have h1 : s.timers.length < i := by omega
        simp [List.getD, List.getElem?_eq_none (Nat.le_of_lt h1),
          List.getElem?_eq_none (show (s.timers ++ [t]).length ≤ i by simp; omega)]

/-- writing a slot value that is live for no earlier check word and whose check word is below the counter -/
theorem TStep.setTimer_new (s : St) (j : Nat) (t : TimerSlot) (ht : chkLe s → t.check ≤ s.nonce)
    (hl : ∀ c, 1 ≤ c → c ≤ s.nonce → t.live c → (s.timerSlot j).live c ∧ j < s.timers.length) :
    TStep s (s.setTimer j t) := by
  refine ⟨fun h => by unfold NN; rw [setTimer_scripts]; exact h, by simp, by simp, ?_, ?_, by simp⟩
  · intro h i
    rw [timerSlot_setTimer]; simp only [setTimer_nonce]
    split
    · exact ht h
    · exact h i
  · intro i c h1 h2 hn
    right
    unfold liveT
    rw [timerSlot_setTimer]
    split
    · rename_i hc
      intro hlive
      obtain ⟨h3, h4⟩ := hl c h1 h2 hlive
      rcases hc with ⟨_, rfl⟩ | ⟨h5, _⟩
      · exact hn h3
      · exact h5 h4
    · exact hn

end QbVerif.Loop
