import QbVerif.Lemmas.LogThreadInv

namespace QbVerif.LogThread

theorem inv_init (cfg : Cfg) (progC progP : List Op) (h : WF cfg progC progP) :
    Inv cfg (init progC progP) := by
  obtain ⟨h1, h2, h3, h4⟩ := h
  constructor <;> simp_all [init, Pdone]

theorem inv_wStep (cfg : Cfg) (hf : Fixed cfg) (s : St) (h : Inv cfg s) (hen : enabledW s = true) :
    Inv cfg (wStep cfg s) := by
  obtain ⟨hf1, hf2, hf3⟩ := hf
  obtain ⟨inited, tgtOpen, tgtEnabled, tgtThreaded, active, shouldExit, lock, owner, sem, startSem, queue,
    mem, droppedCtr, ⟨pcC, progC⟩, ⟨pcP, progP⟩, pcW, nextSeq, ignored, syncWritten, accepted, dropTotal,
    popped, written, discarded, reports, outcome, evs⟩ := s
  obtain ⟨h_run, h_nd, h_act, h_wnone, h_wnogv, h_null, h_oc, h_op, h_ow, h_nc, h_np, h_cnogv, h_ppcs, h_plogs,
    h_exit, h_cexcl, h_wexit, h_guard, h_wsp, h_hs, h_tok, h_mem, h_meml, h_dropq, h_sc, h_sp, h_spc, h_spp⟩ := h
  simp only at *
  cases pcW
  case none => simpa [wStep] using ⟨h_run, h_nd, h_act, h_wnone, h_wnogv, h_null, h_oc, h_op, h_ow, h_nc, h_np, h_cnogv, h_ppcs, h_plogs,
    h_exit, h_cexcl, h_wexit, h_guard, h_wsp, h_hs, h_tok, h_mem, h_meml, h_dropq, h_sc, h_sp, h_spc, h_spp⟩
  case done => simpa [wStep] using ⟨h_run, h_nd, h_act, h_wnone, h_wnogv, h_null, h_oc, h_op, h_ow, h_nc, h_np, h_cnogv, h_ppcs, h_plogs,
    h_exit, h_cexcl, h_wexit, h_guard, h_wsp, h_hs, h_tok, h_mem, h_meml, h_dropq, h_sc, h_sp, h_spc, h_spp⟩
  case getvalue => simp at h_wnogv
  all_goals
    have hl : lock = .live := by cases lock <;> simp_all
    subst hl
    simp [Pdone, enabledW, lockFree] at *
    obtain ⟨k, hk, htok⟩ := h_tok
    subst hk
  case startPost =>
    subst h_wsp
    simp only [wStep]
    constructor <;> simp_all [Pdone]
  case wait =>
    simp only [wStep, St.lockCheck]
    constructor <;> simp_all [Pdone] <;> omega
  case unlock =>
    simp only [wStep]
    constructor <;> simp_all [Pdone]
  case exitUnlock =>
    simp only [wStep]
    constructor <;> simp_all [Pdone]
  case lock =>
    subst hen
    have h1 := pcC.stopTok_le
    simp only [wStep, hf1]
    cases queue with
    | nil =>
      have h2 : 0 < pcC.stopTok := by simp at htok; omega
      have h3 := APc.stopTok_pos h2
      subst h3
      simp at h_exit
      subst h_exit
      simp
      constructor <;> simp_all [Pdone] <;> omega
    | cons r q =>
      simp [popWrite, St.deliverable, St.emit]
      split <;> split <;> (constructor <;> simp_all [Pdone] <;> omega)

end QbVerif.LogThread
