import QbVerif.Lemmas.LogThreadInv

/-! The invariant `Inv` is preserved by every step of the producer thread P. -/
namespace QbVerif.LogThread

set_option linter.unusedSimpArgs false
set_option linter.unusedVariables false

theorem Op.isLog_elim {op : Op} (h : op.isLog = true) : ∃ len, op = .log len := by
  cases op <;> simp_all [Op.isLog]

theorem APc.inflight_zero_of_not_inLog {pc : APc} (h : pc.inLog = false) : pc.inflight = 0 := by
  cases pc <;> simp_all

theorem APc.exitSet_false_of_not_inFini {pc : APc} (h : pc.inFini = false) : pc.exitSet = false := by
  cases pc <;> simp_all

theorem APc.stopTok_zero_of_not_inFini {pc : APc} (h : pc.inFini = false) : pc.stopTok = 0 := by
  cases pc <;> simp_all

set_option maxHeartbeats 1000000 in
theorem inv_pStep (cfg : Cfg) (hf : Fixed cfg) (s : St) (h : Inv cfg s) (hen : enabledApp s .P = true) :
    Inv cfg (appStep cfg s .P) := by
  obtain ⟨hf1, hf2, hf3⟩ := hf
  obtain ⟨inited, tgtOpen, tgtEnabled, tgtThreaded, active, shouldExit, lock, owner, sem, startSem, queue,
    mem, droppedCtr, ⟨pcC, progC⟩, ⟨pcP, progP⟩, pcW, nextSeq, ignored, syncWritten, accepted, dropTotal,
    popped, written, discarded, reports, outcome, evs⟩ := s
  obtain ⟨h_run, h_nd, h_act, h_wnone, h_wnogv, h_null, h_oc, h_op, h_ow, h_nc, h_np, h_cnogv, h_ppcs, h_plogs,
    h_exit, h_cexcl, h_wexit, h_guard, h_wsp, h_hs, h_tok, h_mem, h_meml, h_dropq, h_sc, h_sp, h_spc, h_spp⟩ := h
  simp only at *
  -- P is not done: the controller is neither logging nor finalising, the logging thread is not exiting
  have hnd : ¬ Pdone ⟨inited, tgtOpen, tgtEnabled, tgtThreaded, active, shouldExit, lock, owner, sem, startSem,
      queue, mem, droppedCtr, ⟨pcC, progC⟩, ⟨pcP, progP⟩, pcW, nextSeq, ignored, syncWritten, accepted, dropTotal,
      popped, written, discarded, reports, outcome, evs⟩ := by
    intro hd
    obtain ⟨hd1, hd2⟩ := hd
    simp only at hd1 hd2
    subst hd1 hd2
    simp [enabledApp, St.app] at hen
  have hcl : pcC.inLog = false := by
    cases hh : pcC.inLog
    · rfl
    · exact absurd (h_cexcl (Or.inl hh)) hnd
  have hcf : pcC.inFini = false := by
    cases hh : pcC.inFini
    · rfl
    · exact absurd (h_cexcl (Or.inr hh)) hnd
  have hc1 := APc.inflight_zero_of_not_inLog hcl
  have hc2 := APc.exitSet_false_of_not_inFini hcf
  have hc3 := APc.stopTok_zero_of_not_inFini hcf
  have hWe : pcW.exiting = false := by
    cases hh : pcW.exiting
    · rfl
    · have := h_wexit hh
      subst this
      simp at hcf
  have hse : shouldExit = false := by
    cases shouldExit
    · rfl
    · simp [hc2] at h_exit
  subst hse
  clear hnd
  cases pcP
  case idle =>
    cases progP with
    | nil => simp [enabledApp, St.app] at hen
    | cons op rest =>
      obtain ⟨len, rfl⟩ := Op.isLog_elim (h_plogs op (by simp))
      have hsz : cfg.recSize + len + 1 ≤ cfg.limit := by
        have := h_sp (.log len) (by simp)
        simpa [Op.sizeOk] using this
      simp [appStep, St.app, St.setApp, beginOp, St.emit, hf2]
      split
      · simp [St.ret, St.setPc, St.setApp, St.app, St.emit]
        constructor <;> simp_all [Pdone, AppId.tid]
      · split
        · simp [St.ret, St.setPc, St.setApp, St.app, St.emit]
          constructor <;> simp_all [Pdone, AppId.tid]
        · split
          · simp [St.ret, St.setPc, St.setApp, St.app, St.emit]
            constructor <;> simp_all [Pdone, AppId.tid]
          · rename_i hnn
            have hl : lock = .live := by
              cases lock <;> simp_all
            subst hl
            simp [St.lockCheck, St.ret, St.setPc, St.setApp, St.app, St.emit]
            constructor <;> simp_all [Pdone, AppId.tid]
  case ctlLock => simp at h_ppcs
  case ctlUnlock => simp at h_ppcs
  case startWait => simp at h_ppcs
  case finiLock => simp at h_ppcs
  case finiUnlock => simp at h_ppcs
  case finiPost => simp at h_ppcs
  case finiJoin => simp at h_ppcs
  case finiGetvalue => simp at h_ppcs
  case joinP => simp at h_ppcs
  all_goals
    have hl : lock = .live := by simp_all
    subst hl
    simp [Pdone, enabledApp, lockFree, St.app] at *
    obtain ⟨k, hk, htok, htok2⟩ := h_tok
    subst hk
    have hloop := WPc.looping_of_not_exiting h_wnone h_wnogv hWe
    simp only [hloop, hWe, true_implies] at htok htok2 h_wexit
  case logUnlock =>
    simp [appStep, St.app, St.ret, St.setPc, St.setApp, St.emit]
    constructor <;> simp_all [Pdone, AppId.tid] <;> (try omega)
  case logPost =>
    simp [appStep, St.app, St.ret, St.setPc, St.setApp, St.emit]
    constructor <;> simp_all [Pdone, AppId.tid] <;> (try omega)
  case logUnlockDrop =>
    simp [appStep, St.app, St.ret, St.setPc, St.setApp, St.emit]
    constructor <;> simp_all [Pdone, AppId.tid] <;> (try omega)
  case logLock r =>
    subst hen
    have hr := h_spp
    simp [appStep, St.app, St.ret, St.setPc, St.setApp, St.emit]
    split
    · rename_i hlim
      have hq : queue ≠ [] := by
        rintro rfl
        simp_all
        omega
      constructor <;> simp_all [Pdone, AppId.tid] <;> (try omega)
    · constructor <;> simp_all [Pdone, AppId.tid] <;> (try omega)

end QbVerif.LogThread
