/-
Skiplist, all levels: `skiplist_put` of an absent key (a node of the drawn level is linked in on
every level up to its own, the list level raised if necessary) preserves `Inv` and produces the
dictionary's notification.
-/
import QbVerif.Lemmas.SlmLink

namespace QbVerif.Skiplist
open QbVerif.Map
set_option linter.unusedSimpArgs false

theorem Inv.xok_of_mem {s ids es g} (h : Inv s ids es g) {i : NodeId} (hi : i ∈ s.header :: ids) : XOk s i := by
  rcases List.mem_cons.1 hi with rfl | hi
  · exact h.hxok
  · obtain ⟨e, _, hn⟩ := h.chain.key_of_mem hi
    exact hn.xok

theorem insertEntry_length_absent (e : Entry) : ∀ {es : List Entry}, (∀ x ∈ es, x.key ≠ e.key) →
    (insertEntry e es).length = es.length + 1
  | [], _ => rfl
  | x :: xs, h => by
    rw [insertEntry_walk]
    have hx : x.key ≠ e.key := h x (by simp)
    split
    · simp [insertEntry_length_absent e fun y hy => h y (List.mem_cons_of_mem _ hy)]
    · simp [hx]

theorem findEntry_none {es : List Entry} {k : Key} (h : findEntry es k = none) : ∀ e ∈ es, e.key ≠ k := by
  intro e he
  have := List.find?_eq_none.1 h e he
  simpa using this

theorem mem_hdr_insIds {s : SL} {new : NodeId} {k : Key} {ids : List NodeId} {es : List Entry} (hl : ids.length = es.length)
    {j : NodeId} : j ∈ s.header :: insIds new k ids es ↔ j = new ∨ j ∈ s.header :: ids := by
  have := (insIds_perm (new := new) (k := k) hl).mem_iff (a := j)
  simp only [List.mem_cons, this]
  constructor
  · rintro (h | h | h) <;> simp [h]
  · rintro (h | h | h) <;> simp [h]

/-- the level-0 list of ids after the insertion is the level-0 chain after `insL` -/
theorem insIds_eq_insL {s : SL} {k : Key} {new : NodeId} : ∀ {x ids es}, Chain s x ids es →
    insIds new k ids es = insL s k new ids
  | _, [], [], _ => rfl
  | x, i :: ids, e :: es, h => by
    simp only [insIds, insL, h.2.1.keyLt k]
    split
    · rw [insIds_eq_insL h.2.2]
    · rfl
  | _, [], _ :: _, h => by cases h
  | _, _ :: _, [], h => by cases h

/-- the state `skiplist_put` produces for an absent key: level `lvl` node linked in behind `P l`
    on every level `l ≤ lvl` -/
def putState (s : SL) (P : Nat → NodeId) (k : Key) (v : Val) (lvl : Nat) : SL :=
  let s2 : SL := { s with lv := max s.lv (lvl + 1),
                          nodes := upd s.nodes s.nextNode (some ⟨some k, v, lvl + 1, 1, s.nextFwd, []⟩),
                          fwds := upd s.fwds s.nextFwd (some fun _ => none),
                          nextNode := s.nextNode + 1, nextFwd := s.nextFwd + 1 }
  { s2 with fwds := fun f => (s2.fwds f).map (linkArr s2 s.nextNode s.nextFwd P 0 (0 + (lvl + 1)) f),
            length := s.length + 1 }

theorem putNew_eq {s ids es g} (h : Inv s ids es g) (u : Nat → NodeId) (k : Key) (v : Val) (rnd : Nat) (P : Nat → NodeId)
    (hu : ∀ l, (if s.lv ≤ l ∧ l < min rnd LEVEL_MAX + 1 then s.header else u l) = P l)
    (hP : ∀ l, P l ∈ s.header :: ids) :
    s.putNew u k v rnd = .ok (putState s P k v (min rnd LEVEL_MAX), dispatch [] g EV_INSERTED k 0 v) := by
  obtain ⟨hf, ha, hv, hrc, hh1, hh2⟩ := h.hdr
  have hhN : s.header ≠ s.nextNode := Nat.ne_of_lt (h.freshN _ (by simp))
  generalize hL : min rnd LEVEL_MAX = L at *
  -- the update vector after the raise is `P`
  have hupd : (if L + 1 > s.lv then raiseUpdate s.header u s.lv (L + 1) else u) = P := by
    funext l
    rw [← hu l]
    by_cases hc : L + 1 > s.lv
    · simp only [hc, if_true, raiseUpdate]
    · simp only [hc, if_false]
      rw [if_neg (by omega)]
  have hs1 : (if L + 1 > s.lv then { s with lv := L + 1 } else s) = { s with lv := max s.lv (L + 1) } := by
    by_cases hc : L + 1 > s.lv
    · simp only [hc, if_true]; congr 1; omega
    · simp only [hc, if_false]
      have : max s.lv (L + 1) = s.lv := by omega
      rw [this]
  let s2 : SL := { s with lv := max s.lv (L + 1),
                          nodes := upd s.nodes s.nextNode (some ⟨some k, v, L + 1, 1, s.nextFwd, []⟩),
                          fwds := upd s.fwds s.nextFwd (some fun _ => none),
                          nextNode := s.nextNode + 1, nextFwd := s.nextFwd + 1 }
  have hlink := linkLevels_eq s.nextNode P ⟨some k, v, L + 1, 1, s.nextFwd, []⟩ (L + 1) 0 s2
    (by simp [s2, upd]) (by simp [s2, upd]) (by
      intro l _ _
      have hp := hP l
      obtain ⟨pn, pa, hpn, hpa⟩ := h.xok_of_mem hp
      have hpN : P l ≠ s.nextNode := Nat.ne_of_lt (h.freshN _ hp)
      have hpF : pn.fwd ≠ s.nextFwd := by
        have := h.freshF _ hp; simp only [fwdOf, hpn] at this; exact Nat.ne_of_lt this
      exact ⟨⟨pn, pa, by simp [s2, upd, hpN, hpn], by simp [s2, upd, hpF, hpa]⟩, by simp [fwdOf, s2, upd, hpN, hpn, hpF]⟩)
  simp only [SL.putNew, hL, hupd, hs1, SL.nodeNew, SL.notify, SL.node, bind, Except.bind, upd, hhN, hh1, if_true, if_false,
    dispatch, List.filter_nil, List.map_nil, List.nil_append]
  have hlink' := hlink
  simp only [s2, upd] at hlink'
  rw [hlink']
  rfl

theorem LChain.congr {s s' : SL} {l : Nat} : ∀ {M : List NodeId} {x : NodeId}, LChain s l x M →
    (∀ j ∈ x :: M, nextL s' l j = nextL s l j) → LChain s' l x M
  | [], x, h, hn => by
    have h0 : nextL s l x = none := h
    show nextL s' l x = none
    rw [hn x (by simp), h0]
  | i :: M, x, h, hn => ⟨by rw [hn x (by simp), h.1], LChain.congr h.2 (fun j hj => hn j (List.mem_cons_of_mem _ hj))⟩

theorem put_new {s ids es g} (h : Inv s ids es g) (k : Key) (v : Val) (rnd : Nat) (hk : findEntry es k = none) :
    ∃ s', s.put k v rnd = .ok (s', dispatch [] g EV_INSERTED k 0 v) ∧
      Inv s' (insIds s.nextNode k ids es) (insertEntry ⟨k, v, []⟩ es) g ∧ s'.iters = s.iters ∧
      (∀ j, j ≠ s.nextNode → s'.nodes j = s.nodes j) := by
  obtain ⟨ch, hL, htop, hlvl⟩ := h.hl
  have hlen := h.chain.length_eq
  have hLmax : min rnd LEVEL_MAX ≤ LEVEL_MAX := Nat.min_le_right _ _
  generalize hLdef : min rnd LEVEL_MAX = L at *
  have hPm : ∀ l, walkL s k s.header (ch l) ∈ s.header :: ids := fun l =>
    ((hL.sub_ids l).cons_cons _).subset (walkL_mem s k s.header (ch l))
  rcases search_top h hL htop k true with ⟨_, i, e, hso, hke, _⟩ | ⟨u', hs, hu, _⟩
  · exfalso
    have hw := findEntry_walk k hlen h.sorted
    rw [hk, hso] at hw
    simp [hke] at hw
  refine ⟨putState s (fun l => walkL s k s.header (ch l)) k v L, ?_, ?_, rfl, fun j hj => by simp [putState, upd, hj]⟩
  · simp only [SL.put, hs, bind, Except.bind]
    rw [← hLdef]
    refine putNew_eq h u' k v rnd _ ?_ hPm
    intro l
    by_cases hc : s.lv ≤ l ∧ l < min rnd LEVEL_MAX + 1
    · simp only [hc, and_self, if_true]; rw [htop l hc.1]; rfl
    · simp only [hc, if_false]; exact hu l
  -- the new state
  generalize hPdef : (fun l => walkL s k s.header (ch l)) = P at *
  have hPl : ∀ l, P l = walkL s k s.header (ch l) := fun l => by rw [← hPdef]
  have hPm' : ∀ l, P l ∈ s.header :: ids := fun l => by rw [hPl]; exact hPm l
  obtain ⟨hf, ha, hv, hrc, hh1, hh2⟩ := h.hdr
  let s2 : SL := { s with lv := max s.lv (L + 1),
                          nodes := upd s.nodes s.nextNode (some ⟨some k, v, L + 1, 1, s.nextFwd, []⟩),
                          fwds := upd s.fwds s.nextFwd (some fun _ => none),
                          nextNode := s.nextNode + 1, nextFwd := s.nextFwd + 1 }
  have hs' : putState s P k v L =
      { s2 with fwds := (fun f => (s2.fwds f).map (linkArr s2 s.nextNode s.nextFwd P 0 (0 + (L + 1)) f))
                length := s.length + 1 } := rfl
  have hnewN : ∀ j ∈ s.header :: ids, j ≠ s.nextNode := fun j hj => Nat.ne_of_lt (h.freshN j hj)
  have hnewF : ∀ j ∈ s.header :: ids, fwdOf s j ≠ s.nextFwd := fun j hj => Nat.ne_of_lt (h.freshF j hj)
  have hnodes : ∀ j, j ≠ s.nextNode → (putState s P k v L).nodes j = s.nodes j := by
    intro j hj; simp [putState, upd, hj]
  have hNn : (putState s P k v L).nodes s.nextNode = some ⟨some k, v, L + 1, 1, s.nextFwd, []⟩ := by simp [putState, upd]
  have hfw : ∀ j ∈ s.header :: ids, fwdOf (putState s P k v L) j = fwdOf s j := by
    intro j hj; simp only [fwdOf, hnodes j (hnewN j hj)]
  have hfw2 : ∀ j ∈ s.header :: ids, fwdOf s2 j = fwdOf s j := by
    intro j hj; simp [fwdOf, s2, upd, hnewN j hj]
  have hlv' : ∀ j ∈ s.header :: ids, lvOf (putState s P k v L) j = lvOf s j := by
    intro j hj; simp only [lvOf, hnodes j (hnewN j hj)]
  have hfnew : fwdOf (putState s P k v L) s.nextNode = s.nextFwd := by simp [fwdOf, hNn]
  have hF : ∀ f a, f ≠ s.nextFwd → s.fwds f = some a →
      (putState s P k v L).fwds f = some (linkArr s2 s.nextNode s.nextFwd P 0 (0 + (L + 1)) f a) := by
    intro f a hf' hfa
    simp [hs', s2, upd, hf', hfa]
  have hFn : (putState s P k v L).fwds s.nextFwd =
      some (linkArr s2 s.nextNode s.nextFwd P 0 (0 + (L + 1)) s.nextFwd (fun _ => none)) := by
    simp [hs', s2, upd]
  -- level-wise successors in the new state
  have hNx : ∀ l, ∀ x ∈ s.header :: ids, nextL (putState s P k v L) l x =
      if l < L + 1 ∧ x = P l then some s.nextNode else nextL s l x := by
    intro l x hx
    obtain ⟨n, a, hn, hna⟩ := h.xok_of_mem hx
    have hnf : n.fwd ≠ s.nextFwd := by have := hnewF x hx; simpa [fwdOf, hn] using this
    rw [nextL_of (hnodes x (hnewN x hx) ▸ hn) (hF n.fwd a hnf hna), nextL_of hn hna]
    simp only [linkArr, Nat.zero_le, true_and, Nat.zero_add, hnf, if_false, hfw2 (P l) (hPm' l)]
    have hxf : fwdOf s x = n.fwd := by simp [fwdOf, hn]
    by_cases hl : l < L + 1
    · simp only [hl, if_true, true_and]
      by_cases hxp : x = P l
      · subst hxp; simp [hxf]
      · have : n.fwd ≠ fwdOf s (P l) := fun he => hxp (h.inj x hx (P l) (hPm' l) (by rw [hxf, he]))
        simp [this, hxp]
    · simp [hl]
  have hNnew : ∀ l, nextL (putState s P k v L) l s.nextNode = if l < L + 1 then nextL s l (P l) else none := by
    intro l
    rw [nextL_of hNn hFn]
    simp only [linkArr, Nat.zero_le, true_and, Nat.zero_add, if_true]
    by_cases hl : l < L + 1
    · simp only [hl, if_true]
      obtain ⟨pn, pa, hpn, hpa⟩ := h.xok_of_mem (hPm' l)
      have hpf : pn.fwd ≠ s.nextFwd := by have := hnewF _ (hPm' l); simpa [fwdOf, hpn] using this
      rw [nextL_of hpn hpa]
      exact nextL_of (s := s2) (n := pn) (a := pa) (by simp [s2, upd, hnewN _ (hPm' l), hpn]) (by simp [s2, upd, hpf, hpa]) l
    · simp [hl]
  have hmem := @mem_hdr_insIds s s.nextNode k ids es hlen
  have hP0 : P 0 = predOf k s.header ids es := by rw [hPl, hL.ch0]; exact (h.chain.walk_eq k).1
  have hL8 : L + 1 ≤ LEVEL_MAX + 1 := by omega
  have hnodeok : ∀ j ∈ s.header :: ids, ∀ e, NodeOk s j e → NodeOk (putState s P k v L) j e := by
    intro j hj e ⟨lv, rc, f, a, h1, h2, h3, h4, h5⟩
    have hjf : f ≠ s.nextFwd := by have := hnewF j hj; simpa [fwdOf, h4] using this
    exact ⟨lv, rc, f, _, h1, h2, h3, by rw [hnodes j (hnewN j hj), h4], hF f a hjf h5⟩
  refine ⟨?_, ?_, ?_, ?_, ?_, ?_, insertEntry_sorted _ h.sorted, ?_, ?_, ?_, ?_, h.ikeys, by simp [putState, h.ok], ?_, ?_⟩
  · -- header
    have hhf : hf ≠ s.nextFwd := by have := hnewF s.header (by simp); simpa [fwdOf, hh1] using this
    exact ⟨hf, _, hv, hrc, (hnodes s.header (hnewN s.header (by simp))).trans hh1, hF hf ha hhf hh2⟩
  · -- level-0 chain
    show Chain _ s.header _ _
    have LK : Linked s (putState s P k v L) (s.header :: ids) (predOf k s.header ids es) s.nextNode ⟨k, v, []⟩ := by
      rw [← hP0]
      refine ⟨⟨L + 1, 1, s.nextFwd, _, Nat.le_refl 1, by omega, hL8, hNn, hFn⟩, ?_, ?_, ?_, ?_⟩
      · show nextL _ 0 _ = nextL s 0 _
        rw [hNnew 0]; simp
      · show nextL _ 0 _ = _
        rw [hNx 0 _ (hPm' 0)]; simp
      · intro j hj hjp _
        show nextL _ 0 _ = nextL s 0 _
        rw [hNx 0 j hj]; simp [hjp]
      · intro j hj e _ hok
        exact hnodeok j hj e hok
    exact chain_insert (e' := ⟨k, v, []⟩) h.chain LK (findEntry_none hk) hnewN h.nodup (fun j hj => hj)
  · have hp : (s.header :: insIds s.nextNode k ids es).Perm (s.nextNode :: s.header :: ids) :=
      ((insIds_perm hlen).cons s.header).trans (List.Perm.swap _ _ _)
    show (s.header :: insIds s.nextNode k ids es).Nodup
    rw [hp.nodup_iff, List.nodup_cons]
    exact ⟨fun hm => hnewN _ hm rfl, h.nodup⟩
  · intro i hi j hj hij
    show i = j
    have hi' := hmem.1 hi
    have hj' := hmem.1 hj
    rcases hi' with rfl | hi' <;> rcases hj' with rfl | hj'
    · rfl
    · rw [hfnew, hfw j hj'] at hij; exact absurd hij.symm (hnewF j hj')
    · rw [hfnew, hfw i hi'] at hij; exact absurd hij (hnewF i hi')
    · rw [hfw i hi', hfw j hj'] at hij; exact h.inj i hi' j hj' hij
  · intro i hi
    show i < s.nextNode + 1
    rcases hmem.1 hi with rfl | hi'
    · exact Nat.lt_succ_self _
    · exact Nat.lt_succ_of_lt (h.freshN i hi')
  · intro i hi
    show fwdOf _ i < s.nextFwd + 1
    rcases hmem.1 hi with rfl | hi'
    · rw [hfnew]; exact Nat.lt_succ_self _
    · rw [hfw i hi']; exact Nat.lt_succ_of_lt (h.freshF i hi')
  · show max s.lv (L + 1) ≤ LEVEL_MAX + 1
    have := h.lv; omega
  · show s.length + 1 = _
    rw [insertEntry_length_absent _ (findEntry_none hk), h.len]
  · intro i hi
    show rcOf _ i = 1 + parked s.iters i
    rcases hmem.1 hi with rfl | hi'
    · rw [h.not_parked_fresh (Nat.le_refl _)]
      simp [rcOf, hNn]
    · rw [← h.rc i hi']
      simp only [rcOf, hnodes i (hnewN i hi')]
  · intro q hq r hr
    exact hmem.2 (Or.inr (h.pos q hq r hr))
  · -- entries above the level
    intro i hi a hia l hl
    have hi' := hmem.1 (List.mem_cons_of_mem _ hi)
    rcases hi' with rfl | hi'
    · rw [hfnew, hFn] at hia
      cases hia
      have : lvOf (putState s P k v L) s.nextNode = L + 1 := by simp [lvOf, hNn]
      rw [this] at hl
      simp only [linkArr]
      rw [if_neg (by omega)]
    · have hii : i ∈ ids := by
        rcases List.mem_cons.1 hi' with rfl | h'
        · exact absurd hi (by
            intro hc
            have := (insIds_perm (new := s.nextNode) (k := k) hlen).mem_iff.1 hc
            rcases List.mem_cons.1 this with h1 | h1
            · exact hnewN _ (by simp) h1
            · exact (List.nodup_cons.1 h.nodup).1 h1)
        · exact h'
      obtain ⟨n, a0, hn, hna⟩ := h.xok_of_mem hi'
      have hnf : n.fwd ≠ s.nextFwd := by have := hnewF i hi'; simpa [fwdOf, hn] using this
      rw [hfw i hi'] at hia
      have hfi : fwdOf s i = n.fwd := by simp [fwdOf, hn]
      rw [hfi, hF n.fwd a0 hnf hna] at hia
      cases hia
      rw [hlv' i hi'] at hl
      have hab := h.above i hii a0 (by rw [hfi]; exact hna) l hl
      simp only [linkArr, Nat.zero_le, true_and, Nat.zero_add, hnf, if_false, hfw2 (P l) (hPm' l)]
      by_cases hc : l < L + 1 ∧ n.fwd = fwdOf s (P l)
      · exfalso
        have hip : i = P l := h.inj i hi' (P l) (hPm' l) (by rw [hfi]; exact hc.2)
        have : i ∈ s.header :: ch l := by rw [hip, hPl]; exact walkL_mem s k s.header (ch l)
        rcases List.mem_cons.1 this with h1 | h1
        · exact (List.nodup_cons.1 h.nodup).1 (h1 ▸ hii)
        · have := hlvl l i h1; omega
      · by_cases hl1 : l < L + 1
        · have : n.fwd ≠ fwdOf s (P l) := fun he => hc ⟨hl1, he⟩
          simp [hl1, this, hab]
        · simp [hl1, hab]
  · -- the higher levels
    have hmono : ∀ l, (ch l).Pairwise (fun a b => keyLt s k b = true → keyLt s k a = true) := fun l =>
      List.Pairwise.sublist (hL.sub_ids l) (h.chain.mono k h.sorted)
    have hndl : ∀ l, (s.header :: ch l).Nodup := fun l => List.Nodup.sublist ((hL.sub_ids l).cons_cons _) h.nodup
    have hchm : ∀ l, ∀ j ∈ s.header :: ch l, j ∈ s.header :: ids := fun l j hj => ((hL.sub_ids l).cons_cons _).subset hj
    refine ⟨fun l => if l < L + 1 then insL s k s.nextNode (ch l) else ch l, ⟨?_, ?_, ?_⟩, ?_, ?_⟩
    · simp only [Nat.zero_lt_succ, if_true, hL.ch0]
      exact (insIds_eq_insL h.chain).symm
    · intro l hl9
      show LChain _ l s.header _
      by_cases hl : l < L + 1
      · simp only [hl, if_true]
        refine lchain_insert (hL.chain l hl9) ?_ ?_ ?_ (hndl l)
        · rw [hNnew l, if_pos hl, hPl]
        · rw [← hPl, hNx l _ (hPm' l)]; simp [hl]
        · intro j hj hjp
          rw [hNx l j (hchm l j hj)]
          rw [← hPl] at hjp
          simp [hjp]
      · simp only [hl, if_false]
        refine LChain.congr (hL.chain l hl9) ?_
        intro j hj
        rw [hNx l j (hchm l j hj)]
        simp [hl]
    · intro l
      by_cases h1 : l + 1 < L + 1
      · have h2 : l < L + 1 := by omega
        simp only [h1, h2, if_true]
        exact insL_sublist (hL.sub l) (hmono l)
      · by_cases h2 : l < L + 1
        · simp only [h1, h2, if_true, if_false]
          exact (hL.sub l).trans (sublist_insL s k s.nextNode (ch l))
        · simp only [h1, h2, if_false]
          exact hL.sub l
    · intro l hl
      have hl' : max s.lv (L + 1) ≤ l := hl
      have : ¬ l < L + 1 := by omega
      simp only [this, if_false]
      exact htop l (by omega)
    · intro l i hi
      by_cases hl : l < L + 1
      · simp only [hl, if_true] at hi
        rcases mem_insL.1 hi with rfl | hi
        · simp [lvOf, hNn]; omega
        · have hi2 := hchm l i (List.mem_cons_of_mem _ hi)
          rw [hlv' i hi2]; exact hlvl l i hi
      · simp only [hl, if_false] at hi
        have hi2 := hchm l i (List.mem_cons_of_mem _ hi)
        rw [hlv' i hi2]; exact hlvl l i hi

/-- the level structure only depends on the forward pointers, levels and array identities -/
theorem Inv.levels_transfer {s s' : SL} {ids es g} (h : Inv s ids es g) (hn : ∀ l x, nextL s' l x = nextL s l x)
    (hlv : ∀ j, lvOf s' j = lvOf s j) (hfw : ∀ j, fwdOf s' j = fwdOf s j) (hf : s'.fwds = s.fwds)
    (hh : s'.header = s.header) (hl : s'.lv = s.lv) :
    (∀ i ∈ ids, ∀ a, s'.fwds (fwdOf s' i) = some a → ∀ l, lvOf s' i ≤ l → a l = none) ∧
    (∃ ch : Nat → List NodeId, Levels s' ids ch ∧ (∀ l, s'.lv ≤ l → ch l = []) ∧ (∀ l, ∀ i ∈ ch l, l < lvOf s' i)) := by
  constructor
  · intro i hi a ha l hl'
    rw [hfw, hf] at ha
    rw [hlv] at hl'
    exact h.above i hi a ha l hl'
  · obtain ⟨ch, hL, htop, hlvl⟩ := h.hl
    refine ⟨ch, ⟨hL.ch0, ?_, hL.sub⟩, by rw [hl]; exact htop, fun l i hi => by rw [hlv]; exact hlvl l i hi⟩
    intro l hl9
    rw [hh]
    exact LChain.congr (hL.chain l hl9) (fun j _ => hn l j)

end QbVerif.Skiplist
