import QbVerif.Lemmas.IpcsLifeInvTop

/-!
C04 — the SERVICE object's own reference count (`svcRc`, `svcFreed`, `svcUaf`).

`SvcInv s p`: the service has never been touched after it was freed; its count is exactly
  [the creator's reference, until qb_ipcs_destroy] + one per allocated, not yet freed connection
  + one per pending handshake (`halfs`) + `p` (handshakes inside handle_new_connection),
written additively (`svcRc + #freed = creator + nconn + #halfs + p`); it is marked freed exactly when
the count is zero.  Self-contained (does not use `Inv`): it holds for the repaired AND the original
variants, because every touch of a freed connection halts before the service is reached.
This file: counting, the primitive transformers.
-/
namespace QbVerif.IpcsLife

/-- number of i in 1..n with `fr i` -/
def cntF (fr : Nat → Bool) : Nat → Nat
  | 0 => 0
  | n+1 => cntF fr n + b2n (fr (n+1))

theorem cntF_le (fr : Nat → Bool) : ∀ n, cntF fr n ≤ n
  | 0 => Nat.le_refl _
  | n+1 => by
    have := cntF_le fr n
    unfold cntF
    cases fr (n+1) <;> simp <;> omega

theorem cntF_congr {f g : Nat → Bool} : ∀ n, (∀ i, 1 ≤ i → i ≤ n → f i = g i) → cntF f n = cntF g n
  | 0, _ => rfl
  | n+1, h => by
    unfold cntF
    rw [cntF_congr n (fun i h1 h2 => h i h1 (by omega)), h (n+1) (by omega) (by omega)]

theorem cntF_set {f g : Nat → Bool} {c : Nat} (hf : f c = false) (hg : g c = true)
    (ho : ∀ i, i ≠ c → g i = f i) : ∀ n, 1 ≤ c → c ≤ n → cntF g n = cntF f n + 1
  | 0, h1, h2 => by omega
  | n+1, h1, h2 => by
    unfold cntF
    by_cases hc : c = n+1
    · rw [cntF_congr n (fun i _ h => ho i (by omega)), ← hc, hf, hg]; simp
    · rw [cntF_set hf hg ho n h1 (by omega), ho (n+1) (fun e => hc e.symm)]; omega

def frOf (s : St) : Nat → Bool := fun i => (s.conns i).freed
def inR (s : St) (c : Nat) : Prop := 1 ≤ c ∧ c ≤ s.nconn

structure SvcInv (s : St) (p : Nat) : Prop where
  nu : s.svcUaf = false
  out : ∀ i, (i = 0 ∨ s.nconn < i) → s.conns i = {}
  lst : ∀ c, c ∈ s.list → inR s c
  cnt : s.svcRc + cntF (frOf s) s.nconn = b2n (!s.svcGone) + s.nconn + s.halfs.length + p
  fz : s.svcFreed = true ↔ s.svcRc = 0
  hnd : s.halfs.Nodup

/-- equal on everything `SvcInv` looks at -/
structure SvEq (s s' : St) : Prop where
  conns : s'.conns = s.conns
  nconn : s'.nconn = s.nconn
  list : s'.list = s.list
  rc : s'.svcRc = s.svcRc
  fr : s'.svcFreed = s.svcFreed
  gone : s'.svcGone = s.svcGone
  uaf : s'.svcUaf = s.svcUaf
  halfs : s'.halfs = s.halfs

theorem SvcInv.eqv {s s' : St} {p : Nat} (h : SvcInv s p) (e : SvEq s s') : SvcInv s' p := by
  constructor
  · rw [e.uaf]; exact h.nu
  · intro i hi; rw [e.conns]; rw [e.nconn] at hi; exact h.out i hi
  · intro c hc; rw [e.list] at hc; have := h.lst c hc; unfold inR; rw [e.nconn]; exact this
  · unfold frOf; rw [e.rc, e.conns, e.nconn, e.gone, e.halfs]; exact h.cnt
  · rw [e.fr, e.rc]; exact h.fz
  · rw [e.halfs]; exact h.hnd

theorem svEq_emit (s : St) (e : Ev) : SvEq s (s.emit e) := ⟨rfl, rfl, rfl, rfl, rfl, rfl, rfl, rfl⟩

theorem svEq_pop (s : St) (k : Kind) : SvEq s (s.pop k).2 := by
  cases k <;> simp only [St.pop] <;> split <;> exact ⟨rfl, rfl, rfl, rfl, rfl, rfl, rfl, rfl⟩

theorem svEq_halt (s : St) (b : Bool) : SvEq s { s with halt := b } := ⟨rfl, rfl, rfl, rfl, rfl, rfl, rfl, rfl⟩

theorem svEq_ok (s : St) : SvEq s s.ok := by
  unfold St.ok; split <;> exact ⟨rfl, rfl, rfl, rfl, rfl, rfl, rfl, rfl⟩

theorem SvcInv.rc_ge {s : St} {p : Nat} (h : SvcInv s p) :
    b2n (!s.svcGone) + s.halfs.length + p ≤ s.svcRc := by
  have := h.cnt
  have := cntF_le (frOf s) s.nconn
  omega

theorem SvcInv.notFreed {s : St} {p : Nat} (h : SvcInv s p) (h1 : 1 ≤ s.svcRc) : s.svcFreed = false := by
  cases hf : s.svcFreed
  · rfl
  · have := h.fz.mp hf; omega

theorem SvcInv.alive {s : St} {p : Nat} (h : SvcInv s p) (hg : s.svcGone = false) :
    1 ≤ s.svcRc ∧ s.svcFreed = false := by
  have := h.rc_ge
  rw [hg] at this
  simp at this
  have h1 : 1 ≤ s.svcRc := by omega
  exact ⟨h1, h.notFreed h1⟩

theorem SvcInv.inR_of {s : St} {p : Nat} (h : SvcInv s p) (c : Nat) (hne : s.conns c ≠ {}) : inR s c := by
  apply Classical.byContradiction
  intro hn
  apply hne
  apply h.out
  unfold inR at hn
  omega

theorem SvcInv.inR_of_st {s : St} {p : Nat} (h : SvcInv s p) (c : Nat) (hst : (s.conns c).st ≠ .inactive) :
    inR s c := h.inR_of c (fun e => by rw [e] at hst; exact hst rfl)

theorem SvcInv.inR_of_phase {s : St} {p : Nat} (h : SvcInv s p) (c : Nat) (hst : (s.conns c).phase ≠ .none) :
    inR s c := h.inR_of c (fun e => by rw [e] at hst; exact hst rfl)

theorem SvcInv.inR_of_touchable {s : St} {p : Nat} (h : SvcInv s p) (c : Nat)
    (ht : touchable (s.conns c) = true) : inR s c :=
  h.inR_of c (fun e => by rw [e] at ht; simp [touchable] at ht)

/-- updating one connection without changing `freed` -/
theorem SvcInv.upd {s : St} {p : Nat} (h : SvcInv s p) (c : Nat) (f : Conn → Conn)
    (hf : (f (s.conns c)).freed = (s.conns c).freed) (ho : inR s c ∨ f {} = {}) : SvcInv (s.upd c f) p := by
  have hfr : frOf (s.upd c f) = frOf s := by
    funext i; unfold frOf; by_cases hi : i = c
    · subst hi; simp [hf]
    · simp [hi]
  constructor
  · exact h.nu
  · intro i hi
    have hi' : i = 0 ∨ s.nconn < i := hi
    by_cases hic : i = c
    · subst hic
      rcases ho with ho | ho
      · exfalso; unfold inR at ho; omega
      · simp only [upd_conns, if_true]; rw [h.out i hi']; exact ho
    · simp only [upd_conns, hic, if_false]; exact h.out i hi'
  · exact h.lst
  · rw [hfr]; exact h.cnt
  · exact h.fz
  · exact h.hnd

theorem touchC_default : touchC {} = {} := by simp [touchC]

theorem SvcInv.touch {s : St} {p : Nat} (h : SvcInv s p) (c : Nat) : SvcInv (s.touch c) p :=
  (h.upd c touchC (by unfold touchC; split <;> rfl) (Or.inr touchC_default)).eqv (svEq_halt _ _)

theorem touch_cases (s : St) (c : Nat) :
    (s.touch c = s ∧ (s.conns c).freed = false) ∨ (s.touch c).halt = true := by
  cases hf : (s.conns c).freed
  · exact Or.inl ⟨touch_eq s c hf, rfl⟩
  · right; simp [St.touch, hf]

theorem SvcInv.touchAll {p : Nat} (l : List Nat) : ∀ (s : St), SvcInv s p →
    SvcInv (l.foldl (fun s c => s.touch c) s) p := by
  induction l with
  | nil => intro s h; exact h
  | cons x l ih => intro s h; exact ih _ (h.touch x)

theorem SvcInv.dec {s : St} {p : Nat} (h : SvcInv s p) (c : Nat) (g : Conn → Conn)
    (hg : ∀ k, (g k).freed = k.freed) (hr : inR s c) : SvcInv (s.dec c g) p := by
  have ht := h.touch c
  have hr' : inR (s.touch c) c := hr
  simp only [St.dec]
  split
  · exact ht
  · split
    · exact (ht.upd c _ rfl (Or.inl hr')).eqv (svEq_halt _ _)
    · exact ht.upd c _ (by simp [hg]) (Or.inl hr')

theorem SvcInv.ref {s : St} {p : Nat} (h : SvcInv s p) (c : Nat) (g : Conn → Conn)
    (hg : ∀ k, (g k).freed = k.freed) (hr : inR s c) : SvcInv (s.ref c g) p := by
  have ht := h.touch c
  have hr' : inR (s.touch c) c := hr
  simp only [St.ref]
  split
  · exact ht
  · exact ht.upd c _ (by simp [hg]) (Or.inl hr')

theorem monitor_freed (kind : Kind) (ret : Int) (k : Conn) : (monitor kind ret k).freed = k.freed := by
  unfold monitor
  split
  · split <;> rfl
  · rfl

theorem SvcInv.cb {s : St} {p : Nat} (h : SvcInv s p) (kind : Kind) (c : Nat) (ret : Int) (hr : inR s c) :
    SvcInv (s.cb kind c ret) p :=
  (h.eqv (svEq_emit s _)).upd c _ (monitor_freed _ _ _) (Or.inl hr)

theorem SvcInv.setList {s : St} {p : Nat} (h : SvcInv s p) (l : List Nat) (hl : ∀ x, x ∈ l → x ∈ s.list) :
    SvcInv { s with list := l } p :=
  ⟨h.nu, h.out, fun c hc => h.lst c (hl c hc), h.cnt, h.fz, h.hnd⟩

/-! ### qb_ipcs_unref -/

theorem svcUnref_spec (s : St) (hfz : s.svcFreed = true ↔ s.svcRc = 0) (h1 : 1 ≤ s.svcRc) (hh : s.halt = false) :
    s.svcUnref.svcRc = s.svcRc - 1 ∧ (s.svcUnref.svcFreed = true ↔ s.svcUnref.svcRc = 0) ∧
    s.svcUnref.svcUaf = s.svcUaf ∧ s.svcUnref.conns = s.conns ∧ s.svcUnref.nconn = s.nconn ∧
    s.svcUnref.list = s.list ∧ s.svcUnref.svcGone = s.svcGone ∧ s.svcUnref.halfs = s.halfs ∧
    s.svcUnref.halt = false := by
  have hf : s.svcFreed = false := by
    cases h : s.svcFreed
    · rfl
    · have := hfz.mp h; omega
  have e : s.svcUnref = if s.svcRc ≤ 1 then { s with svcRc := 0, svcFreed := true }
      else { s with svcRc := s.svcRc - 1 } := by
    simp [St.svcUnref, St.touchSvc, hf, hh]
  rw [e]
  split
  · refine ⟨by simp; omega, by simp, rfl, rfl, rfl, rfl, rfl, rfl, hh⟩
  · refine ⟨rfl, ?_, rfl, rfl, rfl, rfl, rfl, rfl, hh⟩
    simp [hf]; omega

/-- a pending handshake's reference is dropped -/
theorem SvcInv.unref {s : St} {p : Nat} (h : SvcInv s (p+1)) (hh : s.halt = false) : SvcInv s.svcUnref p := by
  have h1 : 1 ≤ s.svcRc := by have := h.rc_ge; omega
  obtain ⟨a, b, c, d, e, f, g, i, _⟩ := svcUnref_spec s h.fz h1 hh
  constructor
  · rw [c]; exact h.nu
  · intro j hj; rw [d]; rw [e] at hj; exact h.out j hj
  · intro x hx; rw [f] at hx; have := h.lst x hx; unfold inR; rw [e]; exact this
  · unfold frOf; rw [a, d, e, g, i]; have := h.cnt; unfold frOf at this; omega
  · exact b
  · rw [i]; exact h.hnd

/-- qb_ipcs_connection_unref at zero: the connection's service reference is dropped, the connection freed -/
theorem SvcInv.unrefFree {s : St} {p : Nat} (h : SvcInv s p) (hh : s.halt = false) (c : Nat) (hr : inR s c)
    (hfr : (s.conns c).freed = false) :
    SvcInv (s.svcUnref.upd c fun k => { k with freed := true }) p := by
  have hset : cntF (frOf (s.svcUnref.upd c fun k => { k with freed := true })) s.nconn =
      cntF (frOf s) s.nconn + 1 := by
    apply cntF_set (c := c) hfr
    · simp [frOf]
    · intro i hi; simp only [frOf, upd_conns, hi, if_false]
      rw [(same_svcUnref s).conns]
    · exact hr.1
    · exact hr.2
  have hlt : cntF (frOf s) s.nconn + 1 ≤ s.nconn := by
    rw [← hset]; exact cntF_le _ _
  have h1 : 1 ≤ s.svcRc := by have := h.cnt; omega
  obtain ⟨a, b, c', d, e, f, g, i, _⟩ := svcUnref_spec s h.fz h1 hh
  constructor
  · show s.svcUnref.svcUaf = false
    rw [c']; exact h.nu
  · intro j hj
    have hj' : j = 0 ∨ s.nconn < j := by rw [← e]; exact hj
    have : j ≠ c := by unfold inR at hr; omega
    simp only [upd_conns, this, if_false]; rw [d]; exact h.out j hj'
  · intro x hx
    have hx' : x ∈ s.list := by rw [← f]; exact hx
    have := h.lst x hx'; unfold inR; show 1 ≤ x ∧ x ≤ s.svcUnref.nconn; rw [e]; exact this
  · show s.svcUnref.svcRc + cntF _ s.svcUnref.nconn = b2n (!s.svcUnref.svcGone) + s.svcUnref.nconn +
      s.svcUnref.halfs.length + p
    rw [e, hset, a, g, i]; have := h.cnt; omega
  · exact b
  · show s.svcUnref.halfs.Nodup
    rw [i]; exact h.hnd

end QbVerif.IpcsLife
