/-
`trie_insert(t, key)`: for every store satisfying the invariant and every key of non-NUL bytes, the
case chain (descend, walk a segment, new child, segment extension, split + new child, final split)
keeps the invariant, returns an allocated node whose path spells the key, and neither adds nor
removes an entry (`insert_spec`).

`Pos t cur sc pre`: the loop invariant — the walk stands at offset `sc` of the segment of the
allocated node `cur`, having consumed `pre`.
-/
import QbVerif.Lemmas.TrieSplitInv

namespace QbVerif.Trie
open QbVerif.Map

structure Pos (t : T) (cur sc : Nat) (pre : List Nat) : Prop where
  inv : Inv t
  live : ∃ n, t.node? cur = some n
  hsc : sc ≤ (t.nd cur).seg.length
  start : ∃ pc, Start t cur pc ∧ pre = pc ++ (t.nd cur).seg.take sc

/-- byte of a C string -/
def KeyByte (c : Nat) : Prop := 0 < c ∧ c < 256

theorem pos_root {t : T} (h : Inv t) : Pos t 0 0 [] := by
  obtain ⟨hd, hd0, _⟩ := h.header
  exact ⟨h, ⟨hd, hd0⟩, by omega, [], Start.root, by simp⟩

/-- a new child under `cur`, reached at the end of `cur`'s segment -/
theorem pos_grow {t : T} {cur sc c : Nat} {pre : List Nat} {n : Node} (p : Pos t cur sc pre)
    (hn : t.node? cur = some n) (hend : ¬ sc < n.seg.length) (hnone : n.child (charIdx c) = none)
    (hc : KeyByte c) :
    Pos (t.newChild cur c).1 (t.newChild cur c).2 0 (pre ++ [c]) ∧
    ∀ k v, Entries (t.newChild cur c).1 k v ↔ Entries t k v := by
  have g : Grow t cur c n := ⟨p.inv, hn, hnone, hc.2⟩
  obtain ⟨pc, hpc, hpre⟩ := p.start
  have hsc := p.hsc
  rw [nd_of_node? hn] at hpre hsc
  have hfull : n.seg.take sc = n.seg := List.take_of_length_le (by omega)
  refine ⟨⟨g.inv_step, ⟨Grow.fresh cur c, ?_⟩, by omega, pc ++ n.seg ++ [c], g.start_new hpc, ?_⟩, g.entries_eq⟩
  · show (grown t cur c).node? t.nodes.length = _
    have hLc : ¬ (t.nodes.length = cur) := fun e => g.par_ne e.symm
    rw [g.node?_eq]; simp [hLc]
  · rw [hpre, hfull]; simp

/-- one iteration of the loop of `trie_insert` -/
theorem insert_step {t : T} {cur sc c : Nat} {pre : List Nat} (p : Pos t cur sc pre) (hc : KeyByte c)
    (rest : List Nat) :
    ∃ t1 cur1 sc1, t.insertLoop cur sc (c :: rest) = t1.insertLoop cur1 sc1 rest ∧
      Pos t1 cur1 sc1 (pre ++ [c]) ∧ ∀ k v, Entries t1 k v ↔ Entries t k v := by
  obtain ⟨n, hn⟩ := p.live
  obtain ⟨pc, hpc, hpre⟩ := p.start
  have hsc := p.hsc
  have hnd := nd_of_node? hn
  rw [hnd] at hpre hsc
  by_cases hlt : sc < n.seg.length
  · have h0 : n.seg.length > 0 := by omega
    have hget : n.seg.getD sc 0 = n.seg[sc] := by
      simp [List.getD_eq_getElem?_getD, List.getElem?_eq_getElem hlt]
    by_cases heq : (n.seg.getD sc 0 == c) = true
    · -- the character is in the segment
      refine ⟨t, cur, sc + 1, by simp only [T.insertLoop, hnd, hlt, h0, heq, decide_true, Bool.and_self, if_true], ?_, fun _ _ => Iff.rfl⟩
      refine ⟨p.inv, p.live, by rw [hnd]; omega, pc, hpc, ?_⟩
      rw [hnd, hpre, List.take_add_one, List.getElem?_eq_getElem hlt]
      have : n.seg[sc] = c := by rw [← hget]; exact beq_iff_eq.1 heq
      simp [this]
    · -- mismatch inside the segment: split, then a new child
      have s : Split t cur sc n := ⟨p.inv, hn, hlt⟩
      have hne : c ≠ n.seg.getD sc 0 := by
        intro e; apply heq; rw [e]; exact beq_self_eq_true _
      have hup : (t.split cur sc).node? cur = some (upper n sc t.nodes.length) := by
        rw [s.node?_eq]; simp
      have hnone : (upper n sc t.nodes.length).child (charIdx c) = none := by
        have := s.child_eq cur (charIdx c)
        rw [s.nd_upper] at this
        rw [this]
        have : charIdx c ≠ charIdx (n.seg.getD sc 0) := fun e => hne (charIdx_inj hc.2 s.hch e)
        rw [if_pos rfl, if_neg this]
      have p1 : Pos (t.split cur sc) cur sc pre := by
        refine ⟨s.inv_step, ⟨_, hup⟩, ?_, pc, s.start_fwd hpc, ?_⟩
        · rw [s.nd_upper]; simp [upper]; omega
        · rw [s.nd_upper, hpre]; simp [upper, List.take_take]
      have hend : ¬ sc < (upper n sc t.nodes.length).seg.length := by simp [upper]; omega
      obtain ⟨p2, e2⟩ := pos_grow p1 hup hend hnone hc
      refine ⟨((t.split cur sc).newChild cur c).1, ((t.split cur sc).newChild cur c).2, 0, ?_, p2, ?_⟩
      · simp only [T.insertLoop, hnd, hlt, h0, heq, decide_true, Bool.and_self, if_true, Bool.false_eq_true, if_false]
      · intro k v; rw [e2, s.entries_eq]
  · have h1 : (decide (n.seg.length > 0) && decide (sc < n.seg.length)) = false := by simp [hlt]
    have hsceq : sc = n.seg.length := by omega
    cases hch : n.child (charIdx c) with
    | some ch =>
      -- the character is on the next node
      have hch' : (t.nd cur).child (charIdx c) = some ch := by rw [hnd]; exact hch
      obtain ⟨cn, hcn, _⟩ := p.inv.child_ok cur _ ch hch'
      refine ⟨t, ch, 0, by simp only [T.insertLoop, hnd, h1, hch, Bool.false_eq_true, if_false], ?_, fun _ _ => Iff.rfl⟩
      refine ⟨p.inv, ⟨cn, hcn⟩, by omega, pc ++ n.seg ++ [c], ?_, ?_⟩
      · have := Start.edge hpc hch' hc.2; rw [hnd] at this; exact this
      · rw [hpre, List.take_of_length_le (by omega)]; simp
    | none =>
      by_cases hroot : cur = 0
      · obtain ⟨p2, e2⟩ := pos_grow p hn hlt hch hc
        refine ⟨(t.newChild cur c).1, (t.newChild cur c).2, 0, ?_, p2, e2⟩
        subst hroot
        simp only [T.insertLoop, hnd, h1, hch, Bool.false_eq_true, if_false, beq_self_eq_true, if_true]
      · have hroot' : (cur == 0) = false := by simp [hroot]
        by_cases hleaf : (n.val == 0 && n.notifs.isEmpty && n.children.length == 0 && sc == n.seg.length) = true
        · -- extend the segment of a valueless leaf
          simp only [Bool.and_eq_true, beq_iff_eq] at hleaf
          obtain ⟨⟨⟨hv, _⟩, hk⟩, _⟩ := hleaf
          have hkids : n.children = [] := List.eq_nil_of_length_eq_zero hk
          have e : Extend t cur c n := ⟨p.inv, hn, hroot, hv, hkids, hc.2, hc.1⟩
          refine ⟨extended t cur c n, cur, sc + 1, ?_, ?_, e.entries_eq⟩
          · simp only [T.insertLoop, hnd, h1, hch, Bool.false_eq_true, if_false, hroot']
            simp only [hv, hk, hsceq, beq_self_eq_true, if_true]
            simp [*, extended]
          · have hnd' : (extended t cur c n).nd cur = { n with seg := n.seg ++ [c] } := by
              rw [e.nd_eq]; simp
            refine ⟨e.inv_step, ⟨{ n with seg := n.seg ++ [c] }, by rw [e.node?_eq]; simp⟩, by rw [hnd']; simp; omega, pc, (e.start_iff cur pc).2 hpc, ?_⟩
            rw [hnd', hpre, hsceq]
            simp only [List.take_of_length_le (Nat.le_refl _), List.append_assoc]
            rw [List.take_of_length_le (by simp)]
        · obtain ⟨p2, e2⟩ := pos_grow p hn hlt hch hc
          refine ⟨(t.newChild cur c).1, (t.newChild cur c).2, 0, ?_, p2, e2⟩
          have hs : (sc == n.seg.length) = true := by simp [hsceq]
          simp only [T.insertLoop, hnd, h1, hch, Bool.false_eq_true, if_false, hroot', hleaf]
          simp only [hs, if_true]

/-- the loop of `trie_insert` -/
theorem insertLoop_spec : ∀ (key : List Nat) (t : T) (cur sc : Nat) (pre : List Nat),
    Pos t cur sc pre → (∀ c ∈ key, KeyByte c) →
    Pos (t.insertLoop cur sc key).1 (t.insertLoop cur sc key).2.1 (t.insertLoop cur sc key).2.2 (pre ++ key) ∧
    ∀ k v, Entries (t.insertLoop cur sc key).1 k v ↔ Entries t k v := by
  intro key
  induction key with
  | nil => intro t cur sc pre p _; simpa [T.insertLoop] using p
  | cons c rest ih =>
    intro t cur sc pre p hb
    obtain ⟨t1, cur1, sc1, e, p1, en1⟩ := insert_step p (hb c (by simp)) rest
    obtain ⟨p2, en2⟩ := ih t1 cur1 sc1 (pre ++ [c]) p1 (fun x hx => hb x (by simp [hx]))
    rw [e]
    refine ⟨by simpa using p2, fun k v => by rw [en2, en1]⟩

/-- `trie_insert`: invariant kept, the returned node is allocated and spells the key, entries unchanged -/
theorem insert_spec {t : T} (h : Inv t) {key : List Nat} (hb : ∀ c ∈ key, KeyByte c) :
    Inv (t.insert key).1 ∧ Path (t.insert key).1 (t.insert key).2 key ∧
    (∃ n, (t.insert key).1.node? (t.insert key).2 = some n) ∧
    ∀ k v, Entries (t.insert key).1 k v ↔ Entries t k v := by
  obtain ⟨p, en⟩ := insertLoop_spec key t 0 0 [] (pos_root h) hb
  simp only [List.nil_append] at p
  unfold T.insert
  generalize t.insertLoop 0 0 key = r at p en
  obtain ⟨t1, cur, sc⟩ := r
  simp only at p en ⊢
  obtain ⟨n, hn⟩ := p.live
  obtain ⟨pc, hpc, hpre⟩ := p.start
  have hnd := nd_of_node? hn
  rw [hnd] at hpre
  by_cases hlt : sc < n.seg.length
  · -- final split; the extra child is made for the NUL character
    have h0 : n.seg.length > 0 := by omega
    have s : Split t1 cur sc n := ⟨p.inv, hn, hlt⟩
    have hup : (t1.split cur sc).node? cur = some (upper n sc t1.nodes.length) := by
      rw [s.node?_eq]; simp
    have hnone : (upper n sc t1.nodes.length).child (charIdx 0) = none := by
      have := s.child_eq cur (charIdx 0)
      rw [s.nd_upper] at this
      rw [this]
      have hne : (0 : Nat) ≠ n.seg.getD sc 0 := by have := s.hch0; omega
      have : charIdx 0 ≠ charIdx (n.seg.getD sc 0) := fun e => hne (charIdx_inj (by omega) s.hch e)
      rw [if_pos rfl, if_neg this]
    have g : Grow (t1.split cur sc) cur 0 (upper n sc t1.nodes.length) := ⟨s.inv_step, hup, hnone, by omega⟩
    simp only [hnd, hlt, h0, decide_true, Bool.and_self, if_true]
    have hcur : cur ≠ (t1.split cur sc).nodes.length := g.par_ne
    refine ⟨g.inv_step, ?_, ⟨Grow.pn' (upper n sc t1.nodes.length) 0 (t1.split cur sc).nodes.length, by show (grown _ cur 0).node? cur = _; rw [g.node?_eq]; simp⟩, ?_⟩
    · show Path (grown _ cur 0) cur key
      rw [g.path_old hcur, hpre]
      exact s.path_upper hpc
    · intro k v
      show Entries (grown _ cur 0) k v ↔ _
      rw [g.entries_eq, s.entries_eq, en]
  · have h1 : (decide (n.seg.length > 0) && decide (sc < n.seg.length)) = false := by simp [hlt]
    simp only [hnd, h1, Bool.false_eq_true, if_false]
    refine ⟨p.inv, ⟨pc, hpc, ?_⟩, ⟨n, hn⟩, en⟩
    have := p.hsc
    rw [hnd] at this ⊢
    rw [hpre, List.take_of_length_le (by omega)]

end QbVerif.Trie
