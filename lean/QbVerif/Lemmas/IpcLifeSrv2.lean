/-
C03 — server side, reachability: the handlers keep an established connection established (with the
same life-cycle callbacks) until the death of the client is seen.  Field-wise invariant `EstInv`,
preserved by `processRequest` for every request (any number of events), every environment answer.
-/
import QbVerif.Lemmas.IpcLifeSrv

namespace QbVerif.IpcLife

/-- an established connection between two handler runs -/
structure EstInv (t : Transport) (s : Slot) : Prop where
  phase : s.phase = .conn
  st : s.st = .established
  refc : s.refc = 1
  inList : s.inList = true
  bad : s.bad = false
  led : ∃ nr ne, s.led = estLed t nr ne
  cbs : s.cbs = [.created, .accept]

theorem EstInv.eq_mkEst {t : Transport} {s : Slot} (h : EstInv t s) :
    ∃ nr ne, s = mkEst t nr ne s.statActiveInc s.statActiveDec s.statClosed s.log s.ncalls := by
  obtain ⟨h1, h2, h3, h4, h5, ⟨nr, ne, h6⟩, _⟩ := h
  refine ⟨nr, ne, ?_⟩
  cases s
  simp only at h1 h2 h3 h4 h5 h6
  subst h1 h2 h3 h4 h5 h6
  rfl

theorem mkEst_inv (t : Transport) (nr ne : Bool) (a b c : Nat) (lg : List Ev) (nc : Nat)
    (h : cbsOf lg = [.created, .accept]) : EstInv t (mkEst t nr ne a b c lg nc) :=
  ⟨rfl, rfl, rfl, rfl, rfl, ⟨nr, ne, rfl⟩, h⟩

theorem EstInv.call {t : Transport} {s : Slot} (h : EstInv t s) (k : Call) : EstInv t (s.call k) :=
  ⟨h.phase, h.st, h.refc, h.inList, h.bad, h.led, h.cbs⟩

theorem EstInv.msg {t : Transport} {s : Slot} (h : EstInv t s) (id arg : Nat) (evs : List Bool)
    (r : Option Bool) : EstInv t (s.ev (.msg id arg evs r)) :=
  ⟨h.phase, h.st, h.refc, h.inList, h.bad, h.led, h.cbs⟩

/-- `free(sock_name)` of a channel whose name is still allocated -/
theorem EstInv.relName {s : Slot} (h : EstInv .sock s) (r : Ring) (hr : r = .resp ∨ r = .evt)
    (hh : s.holds (.heapName r) = true) : EstInv .sock (s.rel (.heapName r)) := by
  obtain ⟨nr, ne, hl⟩ := h.led
  have hm : Res.heapName r ∈ s.led := by simpa [Slot.holds] using hh
  have e : s.rel (.heapName r) = { s with led := s.led.erase (.heapName r) } := by
    simp [Slot.rel, hm]
  rw [e]
  refine ⟨h.phase, h.st, h.refc, h.inList, h.bad, ?_, h.cbs⟩
  show ∃ nr' ne', s.led.erase (.heapName r) = estLed .sock nr' ne'
  rw [hl] at hm ⊢
  rcases hr with rfl | rfl
  · cases nr <;> cases ne
    · exact absurd hm (by decide)
    · exact absurd hm (by decide)
    · exact ⟨false, false, by decide⟩
    · exact ⟨false, true, by decide⟩
  · cases nr <;> cases ne
    · exact absurd hm (by decide)
    · exact ⟨false, false, by decide⟩
    · exact absurd hm (by decide)
    · exact ⟨true, false, by decide⟩

theorem connectRetries_inv {t : Transport} (n : Nat) (s : Slot) (h : EstInv t s) :
    EstInv t (connectRetries n s) := by
  induction n generalizing s with
  | zero => exact h
  | succ k ih => exact ih _ ((h.call .connect).call .usleep)

/-- a send on a datagram channel of the socket transport (`_finish_connecting` on first use) -/
theorem sockSend_inv (r : Ring) (hr : r = .resp ∨ r = .evt) (env : Env) (s : Slot) (h : EstInv .sock s) :
    EstInv .sock (sockSend r env s).1 := by
  unfold sockSend
  by_cases hh : s.holds (.heapName r) = true
  · by_cases hc : (env (if r == .evt then Chan.evt else Chan.resp) s.ncalls).conn = true
    · simp only [hh, hc, if_true]
      have h1 := (h.call .connect).relName r hr hh
      exact ((h1.call .getsockopt).call .getsockopt).call .send
    · simp only [hh, hc, if_true, if_false]
      exact connectRetries_inv 10 s h
  · simp only [hh, if_false]
    exact h.call .send

theorem shmEventSend_inv {t : Transport} (e : Bool) (env : Env) (s : Slot) (h : EstInv t s) :
    EstInv t (shmEventSend e env s).1 := by
  unfold shmEventSend
  cases e
  · exact (h.call .sem_post).call .send
  · exact ((h.call .sem_getvalue).call .sem_post).call .send

/-- a fold whose step keeps the connection established -/
theorem fold_inv {t : Transport} (f : Slot × List Bool → Nat → Slot × List Bool)
    (hf : ∀ acc j, EstInv t acc.1 → EstInv t (f acc j).1) (l : List Nat) (acc : Slot × List Bool)
    (h : EstInv t acc.1) : EstInv t (l.foldl f acc).1 := by
  induction l generalizing acc with
  | nil => exact h
  | cons j l ih => exact ih _ (hf acc j h)

/-- `_process_request_` keeps the connection established, whatever the request (any number of event
    sends) and the environment -/
theorem processRequest_inv (t : Transport) (env : Env) (q : ReqIn) (s : Slot) (h : EstInv t s) :
    EstInv t (processRequest t env q s) := by
  unfold processRequest
  simp only
  generalize hfold : List.foldl _ _ (List.range (if (q.id == 2) = true then q.arg else 0)) = acc
  have hacc : EstInv t acc.1 := by
    rw [← hfold]
    refine fold_inv _ ?_ _ _ ?_
    · intro acc j ha
      cases t
      · exact shmEventSend_inv _ env _ ha
      · exact sockSend_inv .evt (Or.inr rfl) env _ ha
    · cases t
      · exact h.call _
      · exact (h.call _).call _
  obtain ⟨s1, evs⟩ := acc
  simp only at hacc ⊢
  by_cases h3 : (q.id == 3) = true
  · simp only [h3, if_true]
    exact EstInv.msg hacc _ _ _ _
  · simp only [h3, if_false]
    cases t
    · simp only
      cases q.respEmpty
      · exact EstInv.msg (hacc.call .sem_post) _ _ _ _
      · exact EstInv.msg ((hacc.call .sem_getvalue).call .sem_post) _ _ _ _
    · simp only
      exact EstInv.msg (sockSend_inv .resp (Or.inl rfl) env s1 hacc) _ _ _ _

/-- any queue contents -/
theorem processRequests_inv (t : Transport) (env : Env) (reqs : List ReqIn) (s : Slot) (h : EstInv t s) :
    EstInv t (reqs.foldl (fun s q => processRequest t env q s) s) := by
  induction reqs generalizing s with
  | nil => exact h
  | cons q l ih => exact ih _ (processRequest_inv t env q s h)

/-- a slot whose connection has just been disconnected because the death was seen -/
def DeadClean (s : Slot) : Prop := Clean s ∧ s.cbs = [.destroyed, .closed, .created, .accept]

theorem connDisconnect_inv (t : Transport) (s : Slot) (h : EstInv t s) : DeadClean (connDisconnect t s) := by
  obtain ⟨nr, ne, e⟩ := h.eq_mkEst
  have hc : cbsOf s.log = [.created, .accept] := h.cbs
  rw [e]
  have hd := connDisconnect_est t nr ne s.statActiveInc s.statActiveDec s.statClosed s.log s.ncalls
  exact ⟨hd.1, by rw [hd.2.1, hc]⟩

/-- `qb_ipcs_dispatch_connection_request`, every input: the connection stays established or the
    death was seen and everything is released -/
theorem dispatch_inv (t : Transport) (i : DispIn) (env : Env) (s : Slot) (h : EstInv t s) :
    EstInv t (dispatch t i env s).1 ∨ DeadClean (dispatch t i env s).1 := by
  unfold dispatch
  have hp : (s.phase != .conn) = false := by simp [h.phase]
  simp only [hp, Bool.false_eq_true, if_false]
  by_cases hh : (i.nval || i.hup) = true
  · simp only [hh, if_true]
    exact Or.inr (connDisconnect_inv t s h)
  · simp only [hh, if_false]
    cases t
    · simp only
      by_cases he : i.reqs.isEmpty = true
      · simp only [he, if_true]
        by_cases hb : i.bytes > 0
        · simp only [hb, if_true]
          exact Or.inl ((h.call _).call _)
        · simp only [hb, if_false]
          by_cases hf : i.eof = true
          · simp only [hf, if_true]
            exact Or.inr (connDisconnect_inv _ _ ((h.call _).call _))
          · simp only [hf, if_false]
            exact Or.inl ((h.call _).call _)
      · simp only [he, if_false]
        have h1 := (processRequests_inv .shm env i.reqs _ (h.call .sem_getvalue)).call .recv
        by_cases hb : i.bytes ≥ i.reqs.length
        · simp only [hb, if_true]
          exact Or.inl h1
        · simp only [hb, if_false]
          have h2 : EstInv .shm (if i.bytes > 0 then
              ((List.foldl (fun s q => processRequest .shm env q s) (s.call .sem_getvalue) i.reqs).call .recv).call .recv
              else (List.foldl (fun s q => processRequest .shm env q s) (s.call .sem_getvalue) i.reqs).call .recv) := by
            split
            · exact h1.call _
            · exact h1
          by_cases hf : i.eof = true
          · simp only [hf, if_true]
            exact Or.inr (connDisconnect_inv _ _ h2)
          · simp only [hf, if_false]
            exact Or.inl (h2.call _)
    · simp only
      by_cases he : i.reqs.isEmpty = true
      · simp only [he, if_true]
        exact Or.inl h
      · simp only [he, if_false]
        exact Or.inl (processRequests_inv .sock env i.reqs s h)

theorem dispatchResume_inv (t : Transport) (need bytes : Nat) (hup : Bool) (s : Slot) (h : EstInv t s) :
    EstInv t (dispatchResume t need bytes hup s).1 ∨ DeadClean (dispatchResume t need bytes hup s).1 := by
  unfold dispatchResume
  have hp : (s.phase != .conn) = false := by simp [h.phase]
  simp only [hp, Bool.false_eq_true, if_false]
  cases hup
  · simp only [Bool.false_eq_true, if_false]
    by_cases hb : bytes ≥ need
    · simp only [hb, if_true]
      exact Or.inl (h.call _)
    · simp only [hb, if_false]
      refine Or.inl (EstInv.call ?_ _)
      split
      · exact (h.call _).call _
      · exact h.call _
  · simp only [if_true]
    exact Or.inr (connDisconnect_inv t s h)

theorem liveness_inv (t : Transport) (nval hup pollin eof : Bool) (s : Slot) (h : EstInv t s) :
    EstInv t (liveness t nval hup pollin eof s) ∨ DeadClean (liveness t nval hup pollin eof s) := by
  unfold liveness
  have hp : (s.phase != .conn) = false := by simp [h.phase]
  simp only [hp, Bool.false_eq_true, if_false]
  by_cases hh : (nval || hup) = true
  · simp only [hh, if_true]
    exact Or.inr (connDisconnect_inv t s h)
  · simp only [hh, if_false]
    cases pollin
    · simp only [Bool.false_eq_true, if_false]
      exact Or.inl h
    · simp only [if_true]
      cases eof
      · simp only [Bool.false_eq_true, if_false]
        exact Or.inl (h.call _)
      · simp only [if_true]
        exact Or.inr (connDisconnect_inv _ _ (h.call _))

end QbVerif.IpcLife
