/-
Skiplist: the invariant after a node has been spliced out (`erase_inv`),
from a description `Erased` of the new state that both branches of `skiplist_rm` (plain removal;
takeover-and-repoint behind the header) satisfy.
-/
import QbVerif.Lemmas.SlmLoops

namespace QbVerif.Skiplist
open QbVerif.Map
set_option linter.unusedSimpArgs false

theorem eraseEntry_length_hit {k : Key} {e : Entry} {i : NodeId} (hk : e.key = k) : ∀ {ids : List NodeId} {es : List Entry},
    Sorted es → succOf k ids es = some (i, e) → (eraseEntry k es).length + 1 = es.length
  | [], _, _, h => by simp [succOf] at h
  | _ :: _, [], _, h => by simp [succOf] at h
  | i0 :: ids, e0 :: es, hs, h => by
    rw [eraseEntry_walk k e0 es hs]
    simp only [succOf] at h
    split at h
    · next hlt => simp [hlt, eraseEntry_length_hit hk (List.pairwise_cons.1 hs).2 h]
    · next hlt => cases h; simp [hlt, hk, Key.lt_irrefl]

/-! ### one level of the chain structure under removal -/

/-- the level chain after splicing out the first node not below `k` -/
def delL (s : SL) (k : Key) : List NodeId → List NodeId
  | i :: L => if keyLt s k i then i :: delL s k L else L
  | [] => []

theorem lchain_erase {s s' : SL} {l : Nat} {k : Key} {found : NodeId} : ∀ {L : List NodeId} {x : NodeId},
    LChain s l x L → stopL s k L = some found → (x :: L).Nodup →
    nextL s' l (walkL s k x L) = nextL s l found →
    (∀ j ∈ x :: L, j ≠ walkL s k x L → j ≠ found → nextL s' l j = nextL s l j) →
    LChain s' l x (delL s k L)
  | [], _, _, hs, _, _, _ => by simp [stopL] at hs
  | i :: L, x, h, hs, hnd, hp, hnx => by
    simp only [stopL, walkL, delL] at hs hp hnx ⊢
    have hnd' := (List.nodup_cons.1 hnd).2
    have hx : x ∉ i :: L := (List.nodup_cons.1 hnd).1
    by_cases hlt : keyLt s k i = true
    · simp only [hlt, if_true] at hs hp hnx ⊢
      have hi : found ∈ L := (stopL_mem hs).1
      have hpm := walkL_mem s k i L
      refine ⟨by rw [hnx x (by simp) (fun hf => hx (hf ▸ hpm)) (fun hf => hx (hf ▸ List.mem_cons_of_mem _ hi)), h.1], ?_⟩
      exact lchain_erase h.2 hs hnd' hp (fun j hj => hnx j (List.mem_cons_of_mem _ hj))
    · have hlt' : keyLt s k i = false := by simpa using hlt
      simp only [hlt', Bool.false_eq_true, if_false] at hs hp hnx ⊢
      cases hs
      -- the rest of the chain is untouched
      have : ∀ {M : List NodeId} {y z : NodeId}, LChain s l y M → nextL s' l z = nextL s l y → (∀ j ∈ M, j ∈ L) →
          LChain s' l z M := by
        intro M
        induction M with
        | nil =>
          intro y z hc hz _
          have h0 : nextL s l y = none := hc
          show nextL s' l z = none
          rw [hz, h0]
        | cons w M ih =>
          intro y z hc hz hm
          refine ⟨by rw [hz, hc.1], ?_⟩
          have hw : w ∈ L := hm w (by simp)
          refine ih hc.2 (hnx w (List.mem_cons_of_mem _ (List.mem_cons_of_mem _ hw)) (fun hf => hx (hf ▸ List.mem_cons_of_mem _ hw))
            (fun hf => (List.nodup_cons.1 hnd').1 (hf ▸ hw))) (fun j hj => hm j (List.mem_cons_of_mem _ hj))
      exact this h.2 hp (fun j hj => hj)

theorem delL_eq_filter {s : SL} {k : Key} {found : NodeId} : ∀ {L : List NodeId}, stopL s k L = some found → L.Nodup →
    delL s k L = L.filter (fun j => j != found)
  | [], h, _ => by simp [stopL] at h
  | i :: L, h, hnd => by
    simp only [stopL, delL] at h ⊢
    have hnd' := (List.nodup_cons.1 hnd).2
    by_cases hlt : keyLt s k i = true
    · simp only [hlt, if_true] at h ⊢
      have hi : found ∈ L := (stopL_mem h).1
      have hne : i ≠ found := fun he => (List.nodup_cons.1 hnd).1 (he ▸ hi)
      simp [List.filter_cons, hne, delL_eq_filter h hnd']
    · have hlt' : keyLt s k i = false := by simpa using hlt
      simp only [hlt', Bool.false_eq_true, if_false] at h ⊢
      cases h
      simp only [List.filter_cons, bne_self_eq_false, Bool.false_eq_true, if_false]
      symm
      apply List.filter_eq_self.2
      intro j hj
      have : j ≠ found := fun he => (List.nodup_cons.1 hnd).1 (he ▸ hj)
      simpa using this

theorem stopL_of_mem {s : SL} {k : Key} {found : NodeId} : ∀ {L : List NodeId}, found ∈ L →
    L.Pairwise (fun a b => b = found → keyLt s k a = true) → keyLt s k found = false → stopL s k L = some found
  | [], h, _, _ => by cases h
  | i :: L, h, hp, hf => by
    simp only [stopL]
    by_cases hi : i = found
    · subst hi; simp [hf]
    · have hm : found ∈ L := by
        rcases List.mem_cons.1 h with h | h
        · exact absurd h.symm hi
        · exact h
      have : keyLt s k i = true := (List.pairwise_cons.1 hp).1 found hm rfl
      simp only [this, if_true]
      exact stopL_of_mem hm (List.pairwise_cons.1 hp).2 hf

/-- in the level-0 chain every node before the one carrying `k` is below `k` -/
theorem Chain.before_found {s : SL} {k : Key} {found : NodeId} {e : Entry} : ∀ {x ids es}, Chain s x ids es → ids.Nodup →
    succOf k ids es = some (found, e) → ids.Pairwise (fun a b => b = found → keyLt s k a = true)
  | _, [], [], _, _, h => by simp [succOf] at h
  | x, i :: ids, e0 :: es, h, hnd, hso => by
    simp only [succOf] at hso
    have hnd' := (List.nodup_cons.1 hnd).2
    have hi : i ∉ ids := (List.nodup_cons.1 hnd).1
    by_cases hlt : Key.lt e0.key k = true
    · simp only [hlt, if_true] at hso
      refine List.pairwise_cons.2 ⟨fun j _ _ => by rw [h.2.1.keyLt k]; exact hlt, Chain.before_found h.2.2 hnd' hso⟩
    · have hlt' : Key.lt e0.key k = false := by simpa using hlt
      simp only [hlt', Bool.false_eq_true, if_false] at hso
      cases hso
      refine List.pairwise_cons.2 ⟨fun j hj hjf => absurd (hjf ▸ hj) hi, ?_⟩
      refine List.Pairwise.imp_of_mem ?_ (List.pairwise_of_forall (fun _ _ => True.intro) : ids.Pairwise fun _ _ => True)
      intro a b _ hb _ hbf
      exact absurd (hbf ▸ hb) hi
  | _, [], _ :: _, h, _, _ => by cases h
  | _, _ :: _, [], h, _, _ => by cases h

/-- the state after `found` (the successor of `p`) has been spliced out and released -/
structure Erased (s s' : SL) (ids ids' : List NodeId) (g : List Notifier) (p found : NodeId) : Prop where
  header : s'.header = s.header
  hdr : ∃ f a v rc, s'.nodes s.header = some ⟨none, v, LEVEL_MAX + 1, rc, f, g⟩ ∧ s'.fwds f = some a
  hrc : rcOf s' s.header = rcOf s s.header
  pred : next0 s' p = next0 s found
  others : ∀ j ∈ s.header :: ids, j ≠ p → j ≠ found → next0 s' j = next0 s j
  nodes : ∀ j ∈ ids, j ≠ found → s'.nodes j = s.nodes j ∧ (s'.fwds (fwdOf s j)).isSome
  hfwd : fwdOf s' s.header = fwdOf s s.header ∨ fwdOf s' s.header = fwdOf s found
  nextNode : s'.nextNode = s.nextNode
  nextFwd : s'.nextFwd = s.nextFwd
  length : s'.length = s.length - 1
  iters : s'.iters = s.iters
  crashed : s'.crashed = s.crashed
  lv : s'.lv ≤ LEVEL_MAX + 1
  above : ∀ i ∈ ids', ∀ a, s'.fwds (fwdOf s' i) = some a → ∀ l, lvOf s' i ≤ l → a l = none
  hl : ∃ ch : Nat → List NodeId, Levels s' ids' ch ∧ (∀ l, s'.lv ≤ l → ch l = []) ∧ (∀ l, ∀ i ∈ ch l, l < lvOf s' i)

theorem erase_inv {s s' : SL} {ids es g} (h : Inv s ids es g) {k : Key} {found : NodeId} {e : Entry}
    (hso : succOf k ids es = some (found, e)) (hk : e.key = k) (hnp : parked s.iters found = 0)
    (E : Erased s s' ids (delIds k ids es) g (predOf k s.header ids es) found) :
    Inv s' (delIds k ids es) (eraseEntry k es) g := by
  have hfi : found ∈ ids := (succOf_mem hso).1
  have hsub := delIds_sublist k ids es
  have hnf : found ∉ delIds k ids es := not_mem_delIds hso (List.nodup_cons.1 h.nodup).2
  have hmem : ∀ j ∈ delIds k ids es, j ∈ ids ∧ j ≠ found := fun j hj =>
    ⟨hsub.subset hj, fun he => hnf (he ▸ hj)⟩
  have hfw : ∀ j ∈ delIds k ids es, fwdOf s' j = fwdOf s j := by
    intro j hj
    simp only [fwdOf, (E.nodes j (hmem j hj).1 (hmem j hj).2).1]
  have hchain : Chain s' s.header (delIds k ids es) (eraseEntry k es) := by
    refine chain_erase hk h.chain hso h.nodup h.sorted E.pred E.others ?_
    intro j hj hjf e0 hok
    obtain ⟨h1, h2⟩ := E.nodes j hj hjf
    exact hok.frame h1 h2
  refine ⟨by rw [E.header]; exact E.hdr, by rw [E.header]; exact hchain, ?_, ?_, ?_, ?_, eraseEntry_sorted k h.sorted,
    E.lv, ?_, ?_, ?_, by rw [E.iters]; exact h.ikeys, by rw [E.crashed, h.ok], E.above, E.hl⟩
  · rw [E.header]
    exact List.Nodup.sublist (hsub.cons_cons s.header) h.nodup
  · rw [E.header]
    intro a ha b hb hab
    rcases List.mem_cons.1 ha with rfl | ha <;> rcases List.mem_cons.1 hb with rfl | hb
    · rfl
    · exfalso
      rw [hfw b hb] at hab
      rcases E.hfwd with hh | hh
      · rw [hh] at hab
        have := h.inj s.header (by simp) b (List.mem_cons_of_mem _ (hmem b hb).1) hab
        exact (List.nodup_cons.1 h.nodup).1 (this ▸ (hmem b hb).1)
      · rw [hh] at hab
        exact (hmem b hb).2 (h.inj found (List.mem_cons_of_mem _ hfi) b (List.mem_cons_of_mem _ (hmem b hb).1) hab).symm
    · exfalso
      rw [hfw a ha] at hab
      rcases E.hfwd with hh | hh
      · rw [hh] at hab
        have := h.inj a (List.mem_cons_of_mem _ (hmem a ha).1) s.header (by simp) hab
        exact (List.nodup_cons.1 h.nodup).1 (this ▸ (hmem a ha).1)
      · rw [hh] at hab
        exact (hmem a ha).2 (h.inj a (List.mem_cons_of_mem _ (hmem a ha).1) found (List.mem_cons_of_mem _ hfi) hab)
    · rw [hfw a ha, hfw b hb] at hab
      exact h.inj a (List.mem_cons_of_mem _ (hmem a ha).1) b (List.mem_cons_of_mem _ (hmem b hb).1) hab
  · rw [E.header, E.nextNode]
    intro j hj
    rcases List.mem_cons.1 hj with rfl | hj
    · exact h.freshN _ (by simp)
    · exact h.freshN j (List.mem_cons_of_mem _ (hmem j hj).1)
  · rw [E.header, E.nextFwd]
    intro j hj
    rcases List.mem_cons.1 hj with rfl | hj
    · rcases E.hfwd with hh | hh
      · rw [hh]; exact h.freshF _ (by simp)
      · rw [hh]; exact h.freshF found (List.mem_cons_of_mem _ hfi)
    · rw [hfw j hj]; exact h.freshF j (List.mem_cons_of_mem _ (hmem j hj).1)
  · rw [E.length, h.len]
    have := eraseEntry_length_hit hk h.sorted hso
    omega
  · rw [E.header, E.iters]
    intro j hj
    rcases List.mem_cons.1 hj with rfl | hj
    · rw [E.hrc]; exact h.rc _ (by simp)
    · rw [← h.rc j (List.mem_cons_of_mem _ (hmem j hj).1)]
      simp only [rcOf, (E.nodes j (hmem j hj).1 (hmem j hj).2).1]
  · rw [E.header, E.iters]
    intro q hq r hr
    have hr' := h.pos q hq r hr
    rcases List.mem_cons.1 hr' with rfl | hr'
    · simp
    · have hne : r ≠ found := by
        intro he
        subst he
        have : 0 < parked s.iters r := by
          unfold parked
          apply List.length_pos_of_mem (a := q)
          simp [List.mem_filter, hq, hr]
        omega
      exact List.mem_cons_of_mem _ (mem_delIds_of_ne hso hr' hne)

end QbVerif.Skiplist
