/-
Field-projection lemmas for the primitive state updates of Model/Loop.lean (C08).  GENERATED boilerplate
(one `@[simp]` lemma per setter and untouched field); core Lean only.
-/
import QbVerif.Model.LoopRun

namespace QbVerif.Loop

@[simp] theorem setLv_cfg (s : St) (p : Nat) (l : Level) : (s.setLv p l).cfg = s.cfg := by unfold St.setLv; split <;> (try split) <;> rfl
@[simp] theorem setLv_stop (s : St) (p : Nat) (l : Level) : (s.setLv p l).stop = s.stop := by unfold St.setLv; split <;> (try split) <;> rfl
@[simp] theorem setLv_inRun (s : St) (p : Nat) (l : Level) : (s.setLv p l).inRun = s.inRun := by unfold St.setLv; split <;> (try split) <;> rfl
@[simp] theorem setLv_pstop (s : St) (p : Nat) (l : Level) : (s.setLv p l).pstop = s.pstop := by unfold St.setLv; split <;> (try split) <;> rfl
@[simp] theorem setLv_remaining (s : St) (p : Nat) (l : Level) : (s.setLv p l).remaining = s.remaining := by unfold St.setLv; split <;> (try split) <;> rfl
@[simp] theorem setLv_parkedT (s : St) (p : Nat) (l : Level) : (s.setLv p l).parkedT = s.parkedT := by unfold St.setLv; split <;> (try split) <;> rfl
@[simp] theorem setLv_timers (s : St) (p : Nat) (l : Level) : (s.setLv p l).timers = s.timers := by unfold St.setLv; split <;> (try split) <;> rfl
@[simp] theorem setLv_tl (s : St) (p : Nat) (l : Level) : (s.setLv p l).tl = s.tl := by unfold St.setLv; split <;> (try split) <;> rfl
@[simp] theorem setLv_pes (s : St) (p : Nat) (l : Level) : (s.setLv p l).pes = s.pes := by unfold St.setLv; split <;> (try split) <;> rfl
@[simp] theorem setLv_ep (s : St) (p : Nat) (l : Level) : (s.setLv p l).ep = s.ep := by unfold St.setLv; split <;> (try split) <;> rfl
@[simp] theorem setLv_openFds (s : St) (p : Nat) (l : Level) : (s.setLv p l).openFds = s.openFds := by unfold St.setLv; split <;> (try split) <;> rfl
@[simp] theorem setLv_regs (s : St) (p : Nat) (l : Level) : (s.setLv p l).regs = s.regs := by unfold St.setLv; split <;> (try split) <;> rfl
@[simp] theorem setLv_pipe (s : St) (p : Nat) (l : Level) : (s.setLv p l).pipe = s.pipe := by unfold St.setLv; split <;> (try split) <;> rfl
@[simp] theorem setLv_nextAid (s : St) (p : Nat) (l : Level) : (s.setLv p l).nextAid = s.nextAid := by unfold St.setLv; split <;> (try split) <;> rfl
@[simp] theorem setLv_freed (s : St) (p : Nat) (l : Level) : (s.setLv p l).freed = s.freed := by unfold St.setLv; split <;> (try split) <;> rfl
@[simp] theorem setLv_nonce (s : St) (p : Nat) (l : Level) : (s.setLv p l).nonce = s.nonce := by unfold St.setLv; split <;> (try split) <;> rfl
@[simp] theorem setLv_tseq (s : St) (p : Nat) (l : Level) : (s.setLv p l).tseq = s.tseq := by unfold St.setLv; split <;> (try split) <;> rfl
@[simp] theorem setLv_now (s : St) (p : Nat) (l : Level) : (s.setLv p l).now = s.now := by unfold St.setLv; split <;> (try split) <;> rfl
@[simp] theorem setLv_scripts (s : St) (p : Nat) (l : Level) : (s.setLv p l).scripts = s.scripts := by unfold St.setLv; split <;> (try split) <;> rfl
@[simp] theorem setLv_th (s : St) (p : Nat) (l : Level) : (s.setLv p l).th = s.th := by unfold St.setLv; split <;> (try split) <;> rfl
@[simp] theorem setLv_sh (s : St) (p : Nat) (l : Level) : (s.setLv p l).sh = s.sh := by unfold St.setLv; split <;> (try split) <;> rfl
@[simp] theorem setLv_fault (s : St) (p : Nat) (l : Level) : (s.setLv p l).fault = s.fault := by unfold St.setLv; split <;> (try split) <;> rfl
@[simp] theorem setLv_dlog (s : St) (p : Nat) (l : Level) : (s.setLv p l).dlog = s.dlog := by unfold St.setLv; split <;> (try split) <;> rfl
@[simp] theorem setTimer_cfg (s : St) (i : Nat) (t : TimerSlot) : (s.setTimer i t).cfg = s.cfg := by unfold St.setTimer; split <;> rfl
@[simp] theorem setTimer_lo (s : St) (i : Nat) (t : TimerSlot) : (s.setTimer i t).lo = s.lo := by unfold St.setTimer; split <;> rfl
@[simp] theorem setTimer_me (s : St) (i : Nat) (t : TimerSlot) : (s.setTimer i t).me = s.me := by unfold St.setTimer; split <;> rfl
@[simp] theorem setTimer_hi (s : St) (i : Nat) (t : TimerSlot) : (s.setTimer i t).hi = s.hi := by unfold St.setTimer; split <;> rfl
@[simp] theorem setTimer_stop (s : St) (i : Nat) (t : TimerSlot) : (s.setTimer i t).stop = s.stop := by unfold St.setTimer; split <;> rfl
@[simp] theorem setTimer_inRun (s : St) (i : Nat) (t : TimerSlot) : (s.setTimer i t).inRun = s.inRun := by unfold St.setTimer; split <;> rfl
@[simp] theorem setTimer_pstop (s : St) (i : Nat) (t : TimerSlot) : (s.setTimer i t).pstop = s.pstop := by unfold St.setTimer; split <;> rfl
@[simp] theorem setTimer_remaining (s : St) (i : Nat) (t : TimerSlot) : (s.setTimer i t).remaining = s.remaining := by unfold St.setTimer; split <;> rfl
@[simp] theorem setTimer_parkedT (s : St) (i : Nat) (t : TimerSlot) : (s.setTimer i t).parkedT = s.parkedT := by unfold St.setTimer; split <;> rfl
@[simp] theorem setTimer_tl (s : St) (i : Nat) (t : TimerSlot) : (s.setTimer i t).tl = s.tl := by unfold St.setTimer; split <;> rfl
@[simp] theorem setTimer_pes (s : St) (i : Nat) (t : TimerSlot) : (s.setTimer i t).pes = s.pes := by unfold St.setTimer; split <;> rfl
@[simp] theorem setTimer_ep (s : St) (i : Nat) (t : TimerSlot) : (s.setTimer i t).ep = s.ep := by unfold St.setTimer; split <;> rfl
@[simp] theorem setTimer_openFds (s : St) (i : Nat) (t : TimerSlot) : (s.setTimer i t).openFds = s.openFds := by unfold St.setTimer; split <;> rfl
@[simp] theorem setTimer_regs (s : St) (i : Nat) (t : TimerSlot) : (s.setTimer i t).regs = s.regs := by unfold St.setTimer; split <;> rfl
@[simp] theorem setTimer_pipe (s : St) (i : Nat) (t : TimerSlot) : (s.setTimer i t).pipe = s.pipe := by unfold St.setTimer; split <;> rfl
@[simp] theorem setTimer_nextAid (s : St) (i : Nat) (t : TimerSlot) : (s.setTimer i t).nextAid = s.nextAid := by unfold St.setTimer; split <;> rfl
@[simp] theorem setTimer_freed (s : St) (i : Nat) (t : TimerSlot) : (s.setTimer i t).freed = s.freed := by unfold St.setTimer; split <;> rfl
@[simp] theorem setTimer_nonce (s : St) (i : Nat) (t : TimerSlot) : (s.setTimer i t).nonce = s.nonce := by unfold St.setTimer; split <;> rfl
@[simp] theorem setTimer_tseq (s : St) (i : Nat) (t : TimerSlot) : (s.setTimer i t).tseq = s.tseq := by unfold St.setTimer; split <;> rfl
@[simp] theorem setTimer_now (s : St) (i : Nat) (t : TimerSlot) : (s.setTimer i t).now = s.now := by unfold St.setTimer; split <;> rfl
@[simp] theorem setTimer_scripts (s : St) (i : Nat) (t : TimerSlot) : (s.setTimer i t).scripts = s.scripts := by unfold St.setTimer; split <;> rfl
@[simp] theorem setTimer_th (s : St) (i : Nat) (t : TimerSlot) : (s.setTimer i t).th = s.th := by unfold St.setTimer; split <;> rfl
@[simp] theorem setTimer_sh (s : St) (i : Nat) (t : TimerSlot) : (s.setTimer i t).sh = s.sh := by unfold St.setTimer; split <;> rfl
@[simp] theorem setTimer_fault (s : St) (i : Nat) (t : TimerSlot) : (s.setTimer i t).fault = s.fault := by unfold St.setTimer; split <;> rfl
@[simp] theorem setTimer_dlog (s : St) (i : Nat) (t : TimerSlot) : (s.setTimer i t).dlog = s.dlog := by unfold St.setTimer; split <;> rfl
@[simp] theorem setPe_cfg (s : St) (i : Nat) (e : PollEntry) : (s.setPe i e).cfg = s.cfg := by unfold St.setPe; split <;> rfl
@[simp] theorem setPe_lo (s : St) (i : Nat) (e : PollEntry) : (s.setPe i e).lo = s.lo := by unfold St.setPe; split <;> rfl
@[simp] theorem setPe_me (s : St) (i : Nat) (e : PollEntry) : (s.setPe i e).me = s.me := by unfold St.setPe; split <;> rfl
@[simp] theorem setPe_hi (s : St) (i : Nat) (e : PollEntry) : (s.setPe i e).hi = s.hi := by unfold St.setPe; split <;> rfl
@[simp] theorem setPe_stop (s : St) (i : Nat) (e : PollEntry) : (s.setPe i e).stop = s.stop := by unfold St.setPe; split <;> rfl
@[simp] theorem setPe_inRun (s : St) (i : Nat) (e : PollEntry) : (s.setPe i e).inRun = s.inRun := by unfold St.setPe; split <;> rfl
@[simp] theorem setPe_pstop (s : St) (i : Nat) (e : PollEntry) : (s.setPe i e).pstop = s.pstop := by unfold St.setPe; split <;> rfl
@[simp] theorem setPe_remaining (s : St) (i : Nat) (e : PollEntry) : (s.setPe i e).remaining = s.remaining := by unfold St.setPe; split <;> rfl
@[simp] theorem setPe_parkedT (s : St) (i : Nat) (e : PollEntry) : (s.setPe i e).parkedT = s.parkedT := by unfold St.setPe; split <;> rfl
@[simp] theorem setPe_timers (s : St) (i : Nat) (e : PollEntry) : (s.setPe i e).timers = s.timers := by unfold St.setPe; split <;> rfl
@[simp] theorem setPe_tl (s : St) (i : Nat) (e : PollEntry) : (s.setPe i e).tl = s.tl := by unfold St.setPe; split <;> rfl
@[simp] theorem setPe_ep (s : St) (i : Nat) (e : PollEntry) : (s.setPe i e).ep = s.ep := by unfold St.setPe; split <;> rfl
@[simp] theorem setPe_openFds (s : St) (i : Nat) (e : PollEntry) : (s.setPe i e).openFds = s.openFds := by unfold St.setPe; split <;> rfl
@[simp] theorem setPe_regs (s : St) (i : Nat) (e : PollEntry) : (s.setPe i e).regs = s.regs := by unfold St.setPe; split <;> rfl
@[simp] theorem setPe_pipe (s : St) (i : Nat) (e : PollEntry) : (s.setPe i e).pipe = s.pipe := by unfold St.setPe; split <;> rfl
@[simp] theorem setPe_nextAid (s : St) (i : Nat) (e : PollEntry) : (s.setPe i e).nextAid = s.nextAid := by unfold St.setPe; split <;> rfl
@[simp] theorem setPe_freed (s : St) (i : Nat) (e : PollEntry) : (s.setPe i e).freed = s.freed := by unfold St.setPe; split <;> rfl
@[simp] theorem setPe_nonce (s : St) (i : Nat) (e : PollEntry) : (s.setPe i e).nonce = s.nonce := by unfold St.setPe; split <;> rfl
@[simp] theorem setPe_tseq (s : St) (i : Nat) (e : PollEntry) : (s.setPe i e).tseq = s.tseq := by unfold St.setPe; split <;> rfl
@[simp] theorem setPe_now (s : St) (i : Nat) (e : PollEntry) : (s.setPe i e).now = s.now := by unfold St.setPe; split <;> rfl
@[simp] theorem setPe_scripts (s : St) (i : Nat) (e : PollEntry) : (s.setPe i e).scripts = s.scripts := by unfold St.setPe; split <;> rfl
@[simp] theorem setPe_th (s : St) (i : Nat) (e : PollEntry) : (s.setPe i e).th = s.th := by unfold St.setPe; split <;> rfl
@[simp] theorem setPe_sh (s : St) (i : Nat) (e : PollEntry) : (s.setPe i e).sh = s.sh := by unfold St.setPe; split <;> rfl
@[simp] theorem setPe_fault (s : St) (i : Nat) (e : PollEntry) : (s.setPe i e).fault = s.fault := by unfold St.setPe; split <;> rfl
@[simp] theorem setPe_dlog (s : St) (i : Nat) (e : PollEntry) : (s.setPe i e).dlog = s.dlog := by unfold St.setPe; split <;> rfl
@[simp] theorem touch_cfg (s : St) (a : Nat) : (s.touch a).cfg = s.cfg := by unfold St.touch; split <;> rfl
@[simp] theorem touch_lo (s : St) (a : Nat) : (s.touch a).lo = s.lo := by unfold St.touch; split <;> rfl
@[simp] theorem touch_me (s : St) (a : Nat) : (s.touch a).me = s.me := by unfold St.touch; split <;> rfl
@[simp] theorem touch_hi (s : St) (a : Nat) : (s.touch a).hi = s.hi := by unfold St.touch; split <;> rfl
@[simp] theorem touch_stop (s : St) (a : Nat) : (s.touch a).stop = s.stop := by unfold St.touch; split <;> rfl
@[simp] theorem touch_inRun (s : St) (a : Nat) : (s.touch a).inRun = s.inRun := by unfold St.touch; split <;> rfl
@[simp] theorem touch_pstop (s : St) (a : Nat) : (s.touch a).pstop = s.pstop := by unfold St.touch; split <;> rfl
@[simp] theorem touch_remaining (s : St) (a : Nat) : (s.touch a).remaining = s.remaining := by unfold St.touch; split <;> rfl
@[simp] theorem touch_parkedT (s : St) (a : Nat) : (s.touch a).parkedT = s.parkedT := by unfold St.touch; split <;> rfl
@[simp] theorem touch_timers (s : St) (a : Nat) : (s.touch a).timers = s.timers := by unfold St.touch; split <;> rfl
@[simp] theorem touch_tl (s : St) (a : Nat) : (s.touch a).tl = s.tl := by unfold St.touch; split <;> rfl
@[simp] theorem touch_pes (s : St) (a : Nat) : (s.touch a).pes = s.pes := by unfold St.touch; split <;> rfl
@[simp] theorem touch_ep (s : St) (a : Nat) : (s.touch a).ep = s.ep := by unfold St.touch; split <;> rfl
@[simp] theorem touch_openFds (s : St) (a : Nat) : (s.touch a).openFds = s.openFds := by unfold St.touch; split <;> rfl
@[simp] theorem touch_regs (s : St) (a : Nat) : (s.touch a).regs = s.regs := by unfold St.touch; split <;> rfl
@[simp] theorem touch_pipe (s : St) (a : Nat) : (s.touch a).pipe = s.pipe := by unfold St.touch; split <;> rfl
@[simp] theorem touch_nextAid (s : St) (a : Nat) : (s.touch a).nextAid = s.nextAid := by unfold St.touch; split <;> rfl
@[simp] theorem touch_freed (s : St) (a : Nat) : (s.touch a).freed = s.freed := by unfold St.touch; split <;> rfl
@[simp] theorem touch_nonce (s : St) (a : Nat) : (s.touch a).nonce = s.nonce := by unfold St.touch; split <;> rfl
@[simp] theorem touch_tseq (s : St) (a : Nat) : (s.touch a).tseq = s.tseq := by unfold St.touch; split <;> rfl
@[simp] theorem touch_now (s : St) (a : Nat) : (s.touch a).now = s.now := by unfold St.touch; split <;> rfl
@[simp] theorem touch_scripts (s : St) (a : Nat) : (s.touch a).scripts = s.scripts := by unfold St.touch; split <;> rfl
@[simp] theorem touch_th (s : St) (a : Nat) : (s.touch a).th = s.th := by unfold St.touch; split <;> rfl
@[simp] theorem touch_sh (s : St) (a : Nat) : (s.touch a).sh = s.sh := by unfold St.touch; split <;> rfl
@[simp] theorem touch_dlog (s : St) (a : Nat) : (s.touch a).dlog = s.dlog := by unfold St.touch; split <;> rfl
@[simp] theorem draw_cfg (s : St)  : (s.draw.2).cfg = s.cfg := by rfl
@[simp] theorem draw_lo (s : St)  : (s.draw.2).lo = s.lo := by rfl
@[simp] theorem draw_me (s : St)  : (s.draw.2).me = s.me := by rfl
@[simp] theorem draw_hi (s : St)  : (s.draw.2).hi = s.hi := by rfl
@[simp] theorem draw_stop (s : St)  : (s.draw.2).stop = s.stop := by rfl
@[simp] theorem draw_inRun (s : St)  : (s.draw.2).inRun = s.inRun := by rfl
@[simp] theorem draw_pstop (s : St)  : (s.draw.2).pstop = s.pstop := by rfl
@[simp] theorem draw_remaining (s : St)  : (s.draw.2).remaining = s.remaining := by rfl
@[simp] theorem draw_parkedT (s : St)  : (s.draw.2).parkedT = s.parkedT := by rfl
@[simp] theorem draw_timers (s : St)  : (s.draw.2).timers = s.timers := by rfl
@[simp] theorem draw_tl (s : St)  : (s.draw.2).tl = s.tl := by rfl
@[simp] theorem draw_pes (s : St)  : (s.draw.2).pes = s.pes := by rfl
@[simp] theorem draw_ep (s : St)  : (s.draw.2).ep = s.ep := by rfl
@[simp] theorem draw_openFds (s : St)  : (s.draw.2).openFds = s.openFds := by rfl
@[simp] theorem draw_regs (s : St)  : (s.draw.2).regs = s.regs := by rfl
@[simp] theorem draw_pipe (s : St)  : (s.draw.2).pipe = s.pipe := by rfl
@[simp] theorem draw_nextAid (s : St)  : (s.draw.2).nextAid = s.nextAid := by rfl
@[simp] theorem draw_freed (s : St)  : (s.draw.2).freed = s.freed := by rfl
@[simp] theorem draw_tseq (s : St)  : (s.draw.2).tseq = s.tseq := by rfl
@[simp] theorem draw_now (s : St)  : (s.draw.2).now = s.now := by rfl
@[simp] theorem draw_scripts (s : St)  : (s.draw.2).scripts = s.scripts := by rfl
@[simp] theorem draw_th (s : St)  : (s.draw.2).th = s.th := by rfl
@[simp] theorem draw_sh (s : St)  : (s.draw.2).sh = s.sh := by rfl
@[simp] theorem draw_fault (s : St)  : (s.draw.2).fault = s.fault := by rfl
@[simp] theorem draw_dlog (s : St)  : (s.draw.2).dlog = s.dlog := by rfl
@[simp] theorem itemAdd_cfg (s : St) (p : Nat) (it : Item) : (s.itemAdd p it).cfg = s.cfg := by simp [St.itemAdd]
@[simp] theorem itemAdd_stop (s : St) (p : Nat) (it : Item) : (s.itemAdd p it).stop = s.stop := by simp [St.itemAdd]
@[simp] theorem itemAdd_inRun (s : St) (p : Nat) (it : Item) : (s.itemAdd p it).inRun = s.inRun := by simp [St.itemAdd]
@[simp] theorem itemAdd_pstop (s : St) (p : Nat) (it : Item) : (s.itemAdd p it).pstop = s.pstop := by simp [St.itemAdd]
@[simp] theorem itemAdd_remaining (s : St) (p : Nat) (it : Item) : (s.itemAdd p it).remaining = s.remaining := by simp [St.itemAdd]
@[simp] theorem itemAdd_parkedT (s : St) (p : Nat) (it : Item) : (s.itemAdd p it).parkedT = s.parkedT := by simp [St.itemAdd]
@[simp] theorem itemAdd_timers (s : St) (p : Nat) (it : Item) : (s.itemAdd p it).timers = s.timers := by simp [St.itemAdd]
@[simp] theorem itemAdd_tl (s : St) (p : Nat) (it : Item) : (s.itemAdd p it).tl = s.tl := by simp [St.itemAdd]
@[simp] theorem itemAdd_pes (s : St) (p : Nat) (it : Item) : (s.itemAdd p it).pes = s.pes := by simp [St.itemAdd]
@[simp] theorem itemAdd_ep (s : St) (p : Nat) (it : Item) : (s.itemAdd p it).ep = s.ep := by simp [St.itemAdd]
@[simp] theorem itemAdd_openFds (s : St) (p : Nat) (it : Item) : (s.itemAdd p it).openFds = s.openFds := by simp [St.itemAdd]
@[simp] theorem itemAdd_regs (s : St) (p : Nat) (it : Item) : (s.itemAdd p it).regs = s.regs := by simp [St.itemAdd]
@[simp] theorem itemAdd_pipe (s : St) (p : Nat) (it : Item) : (s.itemAdd p it).pipe = s.pipe := by simp [St.itemAdd]
@[simp] theorem itemAdd_nextAid (s : St) (p : Nat) (it : Item) : (s.itemAdd p it).nextAid = s.nextAid := by simp [St.itemAdd]
@[simp] theorem itemAdd_freed (s : St) (p : Nat) (it : Item) : (s.itemAdd p it).freed = s.freed := by simp [St.itemAdd]
@[simp] theorem itemAdd_nonce (s : St) (p : Nat) (it : Item) : (s.itemAdd p it).nonce = s.nonce := by simp [St.itemAdd]
@[simp] theorem itemAdd_tseq (s : St) (p : Nat) (it : Item) : (s.itemAdd p it).tseq = s.tseq := by simp [St.itemAdd]
@[simp] theorem itemAdd_now (s : St) (p : Nat) (it : Item) : (s.itemAdd p it).now = s.now := by simp [St.itemAdd]
@[simp] theorem itemAdd_scripts (s : St) (p : Nat) (it : Item) : (s.itemAdd p it).scripts = s.scripts := by simp [St.itemAdd]
@[simp] theorem itemAdd_th (s : St) (p : Nat) (it : Item) : (s.itemAdd p it).th = s.th := by simp [St.itemAdd]
@[simp] theorem itemAdd_sh (s : St) (p : Nat) (it : Item) : (s.itemAdd p it).sh = s.sh := by simp [St.itemAdd]
@[simp] theorem itemAdd_fault (s : St) (p : Nat) (it : Item) : (s.itemAdd p it).fault = s.fault := by simp [St.itemAdd]
@[simp] theorem itemAdd_dlog (s : St) (p : Nat) (it : Item) : (s.itemAdd p it).dlog = s.dlog := by simp [St.itemAdd]
@[simp] theorem itemDel_cfg (s : St) (p : Nat) (it : Item) : (s.itemDel p it).cfg = s.cfg := by unfold St.itemDel; split <;> simp
@[simp] theorem itemDel_stop (s : St) (p : Nat) (it : Item) : (s.itemDel p it).stop = s.stop := by unfold St.itemDel; split <;> simp
@[simp] theorem itemDel_inRun (s : St) (p : Nat) (it : Item) : (s.itemDel p it).inRun = s.inRun := by unfold St.itemDel; split <;> simp
@[simp] theorem itemDel_pstop (s : St) (p : Nat) (it : Item) : (s.itemDel p it).pstop = s.pstop := by unfold St.itemDel; split <;> simp
@[simp] theorem itemDel_remaining (s : St) (p : Nat) (it : Item) : (s.itemDel p it).remaining = s.remaining := by unfold St.itemDel; split <;> simp
@[simp] theorem itemDel_parkedT (s : St) (p : Nat) (it : Item) : (s.itemDel p it).parkedT = s.parkedT := by unfold St.itemDel; split <;> simp
@[simp] theorem itemDel_timers (s : St) (p : Nat) (it : Item) : (s.itemDel p it).timers = s.timers := by unfold St.itemDel; split <;> simp
@[simp] theorem itemDel_tl (s : St) (p : Nat) (it : Item) : (s.itemDel p it).tl = s.tl := by unfold St.itemDel; split <;> simp
@[simp] theorem itemDel_pes (s : St) (p : Nat) (it : Item) : (s.itemDel p it).pes = s.pes := by unfold St.itemDel; split <;> simp
@[simp] theorem itemDel_ep (s : St) (p : Nat) (it : Item) : (s.itemDel p it).ep = s.ep := by unfold St.itemDel; split <;> simp
@[simp] theorem itemDel_openFds (s : St) (p : Nat) (it : Item) : (s.itemDel p it).openFds = s.openFds := by unfold St.itemDel; split <;> simp
@[simp] theorem itemDel_regs (s : St) (p : Nat) (it : Item) : (s.itemDel p it).regs = s.regs := by unfold St.itemDel; split <;> simp
@[simp] theorem itemDel_pipe (s : St) (p : Nat) (it : Item) : (s.itemDel p it).pipe = s.pipe := by unfold St.itemDel; split <;> simp
@[simp] theorem itemDel_nextAid (s : St) (p : Nat) (it : Item) : (s.itemDel p it).nextAid = s.nextAid := by unfold St.itemDel; split <;> simp
@[simp] theorem itemDel_freed (s : St) (p : Nat) (it : Item) : (s.itemDel p it).freed = s.freed := by unfold St.itemDel; split <;> simp
@[simp] theorem itemDel_nonce (s : St) (p : Nat) (it : Item) : (s.itemDel p it).nonce = s.nonce := by unfold St.itemDel; split <;> simp
@[simp] theorem itemDel_tseq (s : St) (p : Nat) (it : Item) : (s.itemDel p it).tseq = s.tseq := by unfold St.itemDel; split <;> simp
@[simp] theorem itemDel_now (s : St) (p : Nat) (it : Item) : (s.itemDel p it).now = s.now := by unfold St.itemDel; split <;> simp
@[simp] theorem itemDel_scripts (s : St) (p : Nat) (it : Item) : (s.itemDel p it).scripts = s.scripts := by unfold St.itemDel; split <;> simp
@[simp] theorem itemDel_th (s : St) (p : Nat) (it : Item) : (s.itemDel p it).th = s.th := by unfold St.itemDel; split <;> simp
@[simp] theorem itemDel_sh (s : St) (p : Nat) (it : Item) : (s.itemDel p it).sh = s.sh := by unfold St.itemDel; split <;> simp
@[simp] theorem itemDel_fault (s : St) (p : Nat) (it : Item) : (s.itemDel p it).fault = s.fault := by unfold St.itemDel; split <;> simp
@[simp] theorem itemDel_dlog (s : St) (p : Nat) (it : Item) : (s.itemDel p it).dlog = s.dlog := by unfold St.itemDel; split <;> simp

@[simp] theorem draw_fst (s : St) : s.draw.1 = s.nonce + 1 := rfl
@[simp] theorem draw_nonce (s : St) : s.draw.2.nonce = s.nonce + 1 := rfl

theorem touch_fault_mono (s : St) (a : Nat) (h : s.fault.isSome) : (s.touch a).fault.isSome := by
  unfold St.touch; split <;> simp_all

end QbVerif.Loop
