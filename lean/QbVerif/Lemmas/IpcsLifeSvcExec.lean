import QbVerif.Lemmas.IpcsLifeSvc

/-! C04 — service count: `exec` (every API call with every scripted callback it triggers, any fuel)
    preserves `SvcInv`. -/
namespace QbVerif.IpcsLife

theorem touchSvc_eq (s : St) (hf : s.svcFreed = false) : s.touchSvc = s := by simp [St.touchSvc, hf]

theorem zeroPre_svc {s : St} {p : Nat} (h : SvcInv s p) (c : Nat) (hr : inR s c) : SvcInv (zeroPre s c) p := by
  unfold zeroPre
  have h0 := h.setList (s.list.filter (· != c)) (fun x hx => (List.mem_filter.mp hx).1)
  have h1 := h0.cb .destroyed c 0 hr
  exact h1.upd c _ rfl (Or.inl hr)

theorem zeroPost_svc {s : St} {p : Nat} (h : SvcInv s p) (c : Nat) (hr : inR s c) : SvcInv (zeroPost s c) p := by
  unfold zeroPost
  by_cases hh : s.halt = true
  · simp only [hh, ↓reduceIte]; exact h
  · have hh' : s.halt = false := by simpa using hh
    simp only [hh', Bool.false_eq_true, ↓reduceIte]
    rcases touch_cases s c with ht | ht
    · rw [ht.1]; simp only [hh', Bool.false_eq_true, ↓reduceIte]
      exact h.unrefFree hh' c hr ht.2
    · simp only [ht, ↓reduceIte]; exact h.touch c

theorem discActive_svc {s : St} {p : Nat} (h : SvcInv s p) (c : Nat) (hr : inR s c) :
    SvcInv (discActive s c) p :=
  (h.upd c _ rfl (Or.inl hr)).dec c _ (fun _ => rfl) hr

theorem closedPre_svc {s : St} {p : Nat} (h : SvcInv s p) (c : Nat) (ret : Int) (hr : inR s c) :
    SvcInv (closedPre s c ret) p :=
  (h.cb .closed c ret hr).upd c _ rfl (Or.inl hr)

theorem closedRetry_svc {s : St} {p : Nat} (h : SvcInv s p) (c : Nat) (hr : inR s c) :
    SvcInv (closedRetry s c) p := by
  have e : SvEq s { s with jobs := s.jobs ++ [c] } := ⟨rfl, rfl, rfl, rfl, rfl, rfl, rfl, rfl⟩
  exact (h.eqv e).upd c _ rfl (Or.inl hr)

theorem closedDone_svc {s : St} {p : Nat} (h : SvcInv s p) (c : Nat) (hr : inR s c) :
    SvcInv (closedDone s c) p :=
  (h.upd c _ rfl (Or.inl hr)).dec c _ (fun _ => rfl) hr

theorem appD_svc {s : St} {p : Nat} (h : SvcInv s p) (c : Nat) (hr : inR s c) : SvcInv (appD s c) p :=
  (h.eqv (svEq_emit s _)).upd c _ rfl (Or.inl hr)

theorem appR_svc {s : St} {p : Nat} (h : SvcInv s p) (c : Nat) (hr : inR s c) : SvcInv (appR s c) p :=
  (h.eqv (svEq_emit s _)).ref c _ (fun _ => rfl) hr

theorem appU_svc {s : St} {p : Nat} (h : SvcInv s p) (c : Nat) (hr : inR s c) : SvcInv (appU s c) p :=
  (h.eqv (svEq_emit s _)).dec c _ (fun _ => rfl) hr

theorem appE_svc {s : St} {p : Nat} (h : SvcInv s p) (c : Nat) : SvcInv (appE s c) p :=
  (h.eqv (svEq_emit s _)).touch c

theorem appI_svc {s : St} {p : Nat} (h : SvcInv s p) (hg : s.svcGone = false) : SvcInv (appI s) p := by
  unfold appI
  have h1 := h.eqv (svEq_emit s (.doIter s.list))
  have hf : (s.emit (.doIter s.list)).svcFreed = false := (h.alive hg).2
  simp only [touchSvc_eq _ hf]
  exact SvcInv.touchAll _ _ h1

def COk (s : St) : Call → Prop
  | .zero c => inR s c
  | _ => True

def SGood (f : Nat) : Prop := ∀ s call p, SvcInv s p → COk s call → SvcInv (exec f s call) p

theorem inR_exec {s : St} {c : Nat} (f : Nat) (call : Call) (hr : inR s c) : inR (exec f s call) c := by
  unfold inR; rw [exec_nconn]; exact hr

theorem inR_pop {s : St} {c : Nat} (k : Kind) (hr : inR s c) : inR (s.pop k).2 c := by
  unfold inR; rw [(svEq_pop s k).nconn]; exact hr

theorem sgood_zero {f : Nat} (ih : SGood f) (s : St) (c p : Nat) (h : SvcInv s p) (hh : s.halt = false)
    (hr : inR s c) : SvcInv (exec (f+1) s (.zero c)) p := by
  simp only [exec, hh, Bool.false_eq_true, ↓reduceIte]
  by_cases hrc : (s.conns c).rc = 0
  · simp only [hrc, bne_self_eq_false, Bool.false_eq_true, ↓reduceIte]
    have h1 := zeroPre_svc h c hr
    have hr1 : inR (zeroPre s c) c := hr
    have h2 := h1.eqv (svEq_pop (zeroPre s c) .destroyed)
    have h3 := ih _ (.ops c ((zeroPre s c).pop .destroyed).1.ops) p h2 trivial
    exact zeroPost_svc h3 c (inR_exec _ _ (inR_pop _ hr1))
  · have : ((s.conns c).rc != 0) = true := by simp [hrc]
    simp only [this, ↓reduceIte]
    exact h

theorem sgood_disc {f : Nat} (ih : SGood f) (s : St) (c p : Nat) (h : SvcInv s p) (hh : s.halt = false) :
    SvcInv (exec (f+1) s (.disc c)) p := by
  simp only [exec, hh, Bool.false_eq_true, ↓reduceIte]
  rcases touch_cases s c with ht | ht
  · rw [ht.1]; simp only [hh, Bool.false_eq_true, ↓reduceIte]
    split
    · exact h
    · next hst =>
      have hr : inR s c := h.inR_of_st c (by rw [hst]; simp)
      exact ih _ (.zero c) p (discActive_svc h c hr) (by simpa [COk, inR] using hr)
    · next hn1 hn2 =>
      have hr : inR s c := h.inR_of_st c hn1
      have h1 : SvcInv (s.upd c fun k => { k with st := .shuttingDown }) p := h.upd c _ rfl (Or.inl hr)
      split
      · exact h1
      · generalize hq : (s.upd c fun k => { k with st := .shuttingDown }).pop .closed = q
        have h2 : SvcInv q.2 p := by rw [← hq]; exact h1.eqv (svEq_pop _ _)
        have hrq : inR q.2 c := by rw [← hq]; exact inR_pop _ hr
        have h3 := ih _ (.ops c q.1.ops) p (closedPre_svc h2 c q.1.ret hrq) trivial
        have hr3 : inR (exec f (closedPre q.2 c q.1.ret) (.ops c q.1.ops)) c := inR_exec _ _ hrq
        split
        · exact h3
        · next hnh =>
          have hnh' : (exec f (closedPre q.2 c q.1.ret) (.ops c q.1.ops)).halt = false := by simpa using hnh
          rcases touch_cases (exec f (closedPre q.2 c q.1.ret) (.ops c q.1.ops)) c with ht2 | ht2
          · rw [ht2.1]; simp only [hnh', Bool.false_eq_true, ↓reduceIte]
            split
            · exact closedRetry_svc h3 c hr3
            · exact ih _ (.zero c) p (closedDone_svc h3 c hr3) (by simpa [COk, inR] using hr3)
          · simp only [ht2, ↓reduceIte]; exact h3.touch c
  · simp only [ht, ↓reduceIte]; exact h.touch c

theorem sgood_app {f : Nat} (ih : SGood f) (s : St) (self : Nat) (o : SOp) (p : Nat) (h : SvcInv s p)
    (hh : s.halt = false) : SvcInv (exec (f+1) s (.app self o)) p := by
  have hskip : SvcInv (s.emit .skip) p := h.eqv (svEq_emit s _)
  cases o with
  | d t =>
    simp only [exec, hh, Bool.false_eq_true, ↓reduceIte]
    by_cases ht : touchable (s.conns (tgt self t)) = true
    · simp only [ht, Bool.not_true, Bool.false_eq_true, ↓reduceIte]
      exact ih _ (.disc _) p (appD_svc h _ (h.inR_of_touchable _ ht)) trivial
    · have : (!touchable (s.conns (tgt self t))) = true := by simpa using ht
      simp only [this, ↓reduceIte]; exact hskip
  | r t =>
    simp only [exec, hh, Bool.false_eq_true, ↓reduceIte]
    by_cases ht : touchable (s.conns (tgt self t)) = true
    · simp only [ht, Bool.not_true, Bool.false_eq_true, ↓reduceIte]
      exact appR_svc h _ (h.inR_of_touchable _ ht)
    · have : (!touchable (s.conns (tgt self t))) = true := by simpa using ht
      simp only [this, ↓reduceIte]; exact hskip
  | u t =>
    simp only [exec, hh, Bool.false_eq_true, ↓reduceIte]
    by_cases hc : ((s.conns (tgt self t)).phase == .none || (s.conns (tgt self t)).appref == 0) = true
    · simp only [hc, ↓reduceIte]; exact hskip
    · simp only [hc, Bool.false_eq_true, ↓reduceIte]
      have hn : (s.conns (tgt self t)).phase ≠ .none := by
        intro h'; apply hc; simp [h']
      have hr := h.inR_of_phase _ hn
      exact ih _ (.zero _) p (appU_svc h _ hr) (by simpa [COk, inR] using hr)
  | e t =>
    simp only [exec, hh, Bool.false_eq_true, ↓reduceIte]
    split
    · exact hskip
    · exact appE_svc h _
  | i =>
    simp only [exec, hh, Bool.false_eq_true, ↓reduceIte]
    by_cases hg : s.svcGone = true
    · simp only [hg, ↓reduceIte]; exact hskip
    · simp only [hg, Bool.false_eq_true, ↓reduceIte]
      exact appI_svc h (by simpa using hg)

theorem sgood_succ {f : Nat} (ih : SGood f) : SGood (f+1) := by
  intro s call p h hok
  by_cases hh : s.halt = true
  · have : exec (f+1) s call = s := by simp [exec, hh]
    rw [this]; exact h
  have hh' : s.halt = false := by simpa using hh
  cases call with
  | disc c => exact sgood_disc ih s c p h hh'
  | zero c => exact sgood_zero ih s c p h hh' hok
  | app self o => exact sgood_app ih s self o p h hh'
  | ops self os =>
    cases os with
    | nil => simp only [exec, hh', Bool.false_eq_true, ↓reduceIte]; exact h
    | cons o os =>
      simp only [exec, hh', Bool.false_eq_true, ↓reduceIte]
      exact ih _ (.ops self os) p (ih s (.app self o) p h trivial) trivial

theorem sgood_all : ∀ f, SGood f
  | 0 => fun _ _ _ h _ => h
  | f+1 => sgood_succ (sgood_all f)

/-- every API call, with every scripted callback it triggers, at any fuel, in the repaired and in the
    original variant, keeps the service's count exact and never touches the freed service -/
theorem exec_svc (f : Nat) {s : St} {p : Nat} (call : Call) (h : SvcInv s p) (hok : COk s call) :
    SvcInv (exec f s call) p := sgood_all f s call p h hok

end QbVerif.IpcsLife
