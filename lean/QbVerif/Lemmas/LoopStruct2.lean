/-
C08: the structural invariant, part 2 — the frame relation `Fr s s' T P` of a step: no slot item linked anew
(`QLe`), wait lists still jobs only, no fault other than a use-after-free appears, and (T) the timer data /
(P) the poll data untouched.  One lemma per function of Model/Loop.lean that is not the subject of the timer
(T = false) or poll (P = false) group.  Core Lean only.
-/
import QbVerif.Lemmas.LoopStruct

namespace QbVerif.Loop
open QbVerif.Gen

/-- the only fault the invariant does not exclude: a touch of freed memory (a signal callback that deletes
    its own registration AND returns non-zero makes the library delete it a second time) -/
def FOk (s : St) : Prop := s.fault = none ∨ s.fault = some "uaf"

structure Fr (s s' : St) (T P : Bool) : Prop where
  q : QLe s s'
  w : WG s → WG s'
  f : FOk s → FOk s'
  t : T = true → s'.timers = s.timers ∧ s'.tl = s.tl ∧ s'.th = s.th
  p : P = true → s'.pes = s.pes ∧ ∀ r ∈ s'.ep, r ∈ s.ep
  cfg : s'.cfg = s.cfg

theorem Fr.refl (s : St) (T P : Bool) : Fr s s T P :=
  ⟨QLe.refl s, id, id, fun _ => ⟨rfl, rfl, rfl⟩, fun _ => ⟨rfl, fun _ h => h⟩, rfl⟩

theorem Fr.trans {a b c : St} {T P : Bool} (h1 : Fr a b T P) (h2 : Fr b c T P) : Fr a c T P :=
  ⟨h1.q.trans h2.q, fun h => h2.w (h1.w h), fun h => h2.f (h1.f h),
   fun ht => ⟨(h2.t ht).1.trans (h1.t ht).1, (h2.t ht).2.1.trans (h1.t ht).2.1, (h2.t ht).2.2.trans (h1.t ht).2.2⟩,
   fun hp => ⟨(h2.p hp).1.trans (h1.p hp).1, fun r hr => (h1.p hp).2 r ((h2.p hp).2 r hr)⟩,
   h2.cfg.trans h1.cfg⟩

theorem Fr.weaken {s s' : St} {T P : Bool} (h : Fr s s' true true) : Fr s s' T P :=
  ⟨h.q, h.w, h.f, fun _ => h.t rfl, fun _ => h.p rfl, h.cfg⟩

theorem Fr.ite {s a b : St} {T P : Bool} {c : Prop} [Decidable c] (ha : Fr s a T P) (hb : Fr s b T P) :
    Fr s (if c then a else b) T P := by split <;> assumption

theorem Fr.of_eq {s s' : St} {T P : Bool} (h1 : s'.lo = s.lo) (h2 : s'.me = s.me) (h3 : s'.hi = s.hi)
    (h4 : s'.timers = s.timers) (h5 : s'.tl = s.tl) (h6 : s'.th = s.th) (h7 : s'.pes = s.pes) (h8 : s'.ep = s.ep)
    (h9 : s'.fault = s.fault) (h10 : s'.cfg = s.cfg) : Fr s s' T P :=
  ⟨QLe.of_eq h1 h2 h3, fun h => h.of_eq (by rw [h1]) (by rw [h2]) (by rw [h3]), fun h => by unfold FOk; rw [h9]; exact h,
   fun _ => ⟨h4, h5, h6⟩, fun _ => ⟨h7, fun r hr => by rw [h8] at hr; exact hr⟩, h10⟩

macro "fr_eq" : tactic =>
  `(tactic| exact Fr.of_eq (by simp) (by simp) (by simp) (by simp) (by simp) (by simp) (by simp) (by simp) (by simp) (by simp))
macro "fr_rfl" : tactic => `(tactic| exact Fr.of_eq rfl rfl rfl rfl rfl rfl rfl rfl rfl rfl)

/-- replacing a level by one with the same job list and no new non-job on the wait list -/
theorem setLv_fr (s : St) (p : Nat) (l : Level) {T P : Bool} (hj : l.jobs = (s.lv p).jobs)
    (hw : ∀ it ∈ l.wait, it ∈ (s.lv p).wait ∨ isSlot it = false) : Fr s (s.setLv p l) T P :=
  ⟨setLv_qle s p l hj, fun h => h.setLv p l hw, fun h => by unfold FOk; rw [setLv_fault]; exact h,
   fun _ => ⟨by simp, by simp, by simp⟩, fun _ => ⟨by simp, fun r hr => by simpa using hr⟩, by simp⟩

theorem itemDel_fr (s : St) (p : Nat) (it : Item) {T P : Bool} : Fr s (s.itemDel p it) T P := by
  refine ⟨itemDel_qle s p it, ?_, fun h => by unfold FOk; rw [itemDel_fault]; exact h,
    fun _ => ⟨by simp, by simp, by simp⟩, fun _ => ⟨by simp, fun r hr => by simpa using hr⟩, by simp⟩
  intro h
  rw [itemDel_eq]
  split
  · have h1 : WG (s.erased it) := h.of_eq rfl rfl rfl
    exact h1.setLv p _ (fun x hx => Or.inl hx)
  · exact h

theorem itemAdd_fr (s : St) (p : Nat) (it : Item) {T P : Bool} (hs : isSlot it = false) : Fr s (s.itemAdd p it) T P := by
  refine ⟨itemAdd_qle s p it hs, ?_, fun h => by unfold FOk; rw [itemAdd_fault]; exact h,
    fun _ => ⟨by simp, by simp, by simp⟩, fun _ => ⟨by simp, fun r hr => by simpa using hr⟩, by simp⟩
  intro h
  exact h.setLv p _ (fun x hx => Or.inl hx)

theorem touch_fr (s : St) (a : Nat) {T P : Bool} : Fr s (s.touch a) T P := by
  refine ⟨QLe.of_eq (by simp) (by simp) (by simp), fun h => h.of_eq (by simp) (by simp) (by simp), ?_,
    fun _ => ⟨by simp, by simp, by simp⟩, fun _ => ⟨by simp, fun r hr => by simpa using hr⟩, by simp⟩
  intro h
  unfold St.touch; split
  · exact Or.inr rfl
  · exact h

theorem setPe_fr (s : St) (i : Nat) (e : PollEntry) : Fr s (s.setPe i e) true false :=
  ⟨QLe.of_eq (by simp) (by simp) (by simp), fun h => h.of_eq (by simp) (by simp) (by simp),
   fun h => by unfold FOk; rw [setPe_fault]; exact h, fun _ => ⟨by simp, by simp, by simp⟩,
   (fun h => Bool.noConfusion h), by simp⟩

theorem setTimer_fr (s : St) (i : Nat) (t : TimerSlot) : Fr s (s.setTimer i t) false true :=
  ⟨QLe.of_eq (by simp) (by simp) (by simp), fun h => h.of_eq (by simp) (by simp) (by simp),
   fun h => by unfold FOk; rw [setTimer_fault]; exact h, (fun h => Bool.noConfusion h),
   fun _ => ⟨by simp, fun r hr => by simpa using hr⟩, by simp⟩

theorem draw_fr (s : St) {T P : Bool} : Fr s s.draw.2 T P := by fr_rfl

theorem jobAdd_fr (s : St) (p id : Nat) {T P : Bool} : Fr s (s.jobAdd p id).1 T P := by
  unfold St.jobAdd; split
  · exact Fr.refl s T P
  · refine Fr.trans (b := s.setLv p { s.lv p with wait := (s.lv p).wait ++ [.job s.nextAid id] }) ?_ (by fr_rfl)
    refine setLv_fr s p { s.lv p with wait := (s.lv p).wait ++ [.job s.nextAid id] } rfl ?_
    intro it hit
    rcases List.mem_append.1 hit with h | h
    · exact Or.inl h
    · right; simp at h; subst h; rfl

theorem jobDel_fr (s : St) (p id : Nat) {T P : Bool} : Fr s (s.jobDel p id).1 T P := by
  unfold St.jobDel; split
  · exact Fr.refl s T P
  · dsimp only; split
    · rename_i aid d _
      refine Fr.trans (b := s.setLv p { s.lv p with wait := (s.lv p).wait.erase (.job aid d) }) ?_ (by fr_rfl)
      refine setLv_fr s p { s.lv p with wait := (s.lv p).wait.erase (.job aid d) } rfl ?_
      intro it hit; exact Or.inl (List.mem_of_mem_erase hit)
    · split
      · exact itemDel_fr s p _
      · exact Fr.refl s T P

theorem sigAdd_fr (s : St) (p sg h id : Nat) {T P : Bool} : Fr s (s.sigAdd p sg h id).1 T P := by
  unfold St.sigAdd; split
  · exact Fr.refl s T P
  · fr_rfl

theorem sigMod_fr (s : St) (p sg aid id : Nat) {T P : Bool} : Fr s (s.sigMod p sg aid id).1 T P := by
  unfold St.sigMod; split
  · exact Fr.refl s T P
  · exact (touch_fr s aid).trans (by fr_rfl)

theorem count_filter_le {α : Type} [BEq α] [LawfulBEq α] (l : List α) (f : α → Bool) (x : α) :
    (l.filter f).count x ≤ l.count x := List.Sublist.count_le x List.filter_sublist

theorem dropClones_fr (s : St) (reg : Nat) {T P : Bool} : Fr s (s.dropClones reg) T P := by
  refine ⟨?_, fun h => h.of_eq rfl rfl rfl, (fun h => h), fun _ => ⟨rfl, rfl, rfl⟩, fun _ => ⟨rfl, fun _ h => h⟩, rfl⟩
  intro x _
  unfold St.dropClones St.cnt St.allJobs
  simp only [List.count_append]
  have h1 := count_filter_le s.lo.jobs (fun it => !isCloneOf reg it) x
  have h2 := count_filter_le s.me.jobs (fun it => !isCloneOf reg it) x
  have h3 := count_filter_le s.hi.jobs (fun it => !isCloneOf reg it) x
  omega

theorem sigDel_fr (s : St) (aid : Nat) {T P : Bool} : Fr s (s.sigDel aid).1 T P := by
  unfold St.sigDel
  dsimp only
  generalize hs1 : (if (s.touch aid).cfg.fixSigDel = true then (s.touch aid).dropClones aid else _) = s1
  have h1 : Fr (s.touch aid) s1 T P := by
    subst hs1; split
    · exact dropClones_fr _ _
    · split
      · exact itemDel_fr _ _ _
      · exact Fr.refl _ T P
  exact ((touch_fr s aid).trans h1).trans (by fr_rfl)

theorem sigAddToJobs_fr (s : St) (slot : Nat) : Fr s (s.sigAddToJobs slot) true false := by
  unfold St.sigAddToJobs
  split
  · exact Fr.refl s _ _
  · dsimp only
    rename_i sg rest _
    generalize hs1 : ({ s with pipe := rest } : St).setPe slot _ = s1
    have h1 : Fr s s1 true false := by
      subst hs1
      exact Fr.trans (b := { s with pipe := rest }) (by fr_rfl) (setPe_fr _ _ _)
    generalize List.filter (fun r => r.signal == sg) s1.regs = rs
    clear hs1
    induction rs generalizing s1 with
    | nil => exact h1
    | cons r rs ih =>
      simp only [List.foldl_cons]
      apply ih
      exact h1.trans (Fr.trans (b := { s1 with nextAid := s1.nextAid + 1 }) (by fr_rfl) (itemAdd_fr _ _ _ rfl))

/-! ### the abstract kernel epoll set -/

theorem epAdd_fr (s : St) (n : Bool) (fd ev chk slot : Nat) : Fr s (s.epAdd n fd ev chk slot).1 true false := by
  unfold St.epAdd; dsimp only
  refine Fr.ite ?_ (Fr.refl s _ _)
  exact ⟨QLe.of_eq rfl rfl rfl, fun h => h.of_eq rfl rfl rfl, (fun h => h), fun _ => ⟨rfl, rfl, rfl⟩, (fun h => Bool.noConfusion h), rfl⟩

theorem epMod_fr (s : St) (n : Bool) (fd ev chk slot : Nat) : Fr s (s.epMod n fd ev chk slot).1 true false := by
  unfold St.epMod; dsimp only
  refine Fr.ite ?_ (Fr.refl s _ _)
  exact ⟨QLe.of_eq rfl rfl rfl, fun h => h.of_eq rfl rfl rfl, (fun h => h), fun _ => ⟨rfl, rfl, rfl⟩, (fun h => Bool.noConfusion h), rfl⟩

theorem epDel_fr (s : St) (n : Bool) (fd : Nat) : Fr s (s.epDel n fd).1 true false := by
  unfold St.epDel; dsimp only
  refine Fr.ite ?_ (Fr.refl s _ _)
  exact ⟨QLe.of_eq rfl rfl rfl, fun h => h.of_eq rfl rfl rfl, (fun h => h), fun _ => ⟨rfl, rfl, rfl⟩, (fun h => Bool.noConfusion h), rfl⟩

/-! ### the poll functions leave the timer data alone -/

theorem pollAddCore_fr (s : St) (n : Bool) (p fd ev id : Nat) : Fr s (s.pollAddCore n p fd ev id).1 true false := by
  unfold St.pollAddCore
  dsimp only
  have h2 := (draw_fr s (T := true) (P := false)).trans (setPe_fr s.draw.2 (firstEmptyP s.pes)
    { s.pe (firstEmptyP s.pes) with state := .active, check := s.draw.1, fd := fd, events := ev, revents := 0, data := id, prio := p })
  have h3 := h2.trans (epAdd_fr _ n fd ev s.draw.1 (firstEmptyP s.pes))
  split
  · exact h3
  · split
    · exact h3.trans (setPe_fr _ _ _)
    · exact h3.trans (setPe_fr _ _ _)

theorem pollAdd_fr (s : St) (n : Bool) (p fd ev id : Nat) : Fr s (s.pollAdd n p fd ev id).1 true false := by
  unfold St.pollAdd
  have h := pollAddCore_fr s n p fd ev id
  generalize s.pollAddCore n p fd ev id = r at h ⊢
  obtain ⟨s1, res, i, evs⟩ := r
  dsimp only at h ⊢
  split
  · exact h
  · exact h.trans (setPe_fr _ _ _)

theorem pollMod_fr (s : St) (n : Bool) (p fd ev id : Nat) : Fr s (s.pollMod n p fd ev id).1 true false := by
  unfold St.pollMod
  split
  · exact Fr.refl s _ _
  · dsimp only
    split
    · exact Fr.refl s _ _
    · split
      · exact ((setPe_fr s _ _).trans (epMod_fr _ n fd ev _ _)).trans (setPe_fr _ _ _)
      · exact setPe_fr s _ _

theorem pollDel_fr (s : St) (n : Bool) (fd : Nat) : Fr s (s.pollDel n fd).1 true false := by
  unfold St.pollDel
  split
  · exact Fr.refl s _ _
  · dsimp only
    split
    · exact Fr.refl s _ _
    · rename_i i _ _
      generalize hs1 : (if (s.pe i).state == EState.joblist then s.itemDel (s.pe i).prio (.fd i) else s) = s1
      have h1 : Fr s s1 true false := by
        subst hs1; exact Fr.ite (itemDel_fr _ _ _) (Fr.refl s _ _)
      exact h1.trans ((epDel_fr s1 n fd).trans (setPe_fr _ _ _))

/-! ### the timer functions leave the poll data alone -/

theorem timerAdd_fr (s : St) (p d h id : Nat) : Fr s (s.timerAdd p d h id).1 false true := by
  unfold St.timerAdd
  dsimp only
  refine Fr.trans (b := s.draw.2.setTimer (firstEmptyT s.timers)
    { state := .active, check := s.draw.1, prio := p, data := id, hasTl := true })
    ((draw_fr s).trans (setTimer_fr _ _ _)) ?_
  exact ⟨QLe.of_eq rfl rfl rfl, fun h => h.of_eq rfl rfl rfl, (fun h => h), (fun h => Bool.noConfusion h), fun _ => ⟨rfl, fun _ h => h⟩, rfl⟩

theorem timerDel_fr (s : St) (h : Nat) : Fr s (s.timerDel h).1 false true := by
  unfold St.timerDel
  split
  · exact Fr.refl s _ _
  · dsimp only
    split
    · exact Fr.refl s _ _
    · split
      · exact Fr.refl s _ _
      · rename_i i _ _ _
        generalize hs1 : (if (s.timerSlot i).state == EState.joblist then s.itemDel (s.timerSlot i).prio (.timer i) else s) = s1
        have h1 : Fr s s1 false true := by subst hs1; exact Fr.ite (itemDel_fr _ _ _) (Fr.refl s _ _)
        refine (h1.trans (Fr.ite ?_ (Fr.refl s1 _ _))).trans (setTimer_fr _ _ _)
        exact ⟨QLe.of_eq rfl rfl rfl, fun h => h.of_eq rfl rfl rfl, (fun h => h), (fun h => Bool.noConfusion h), fun _ => ⟨rfl, fun _ h => h⟩, rfl⟩

end QbVerif.Loop
