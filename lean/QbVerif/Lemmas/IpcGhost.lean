/-
Ghost state of the IPC model (property C02) = observable behaviour: the `acc*` / `del*` lists of a
state reached by a run are exactly the messages accepted by the send calls / handed over by the
receive calls of that run, in the order of the run.
-/
import QbVerif.Lemmas.IpcInv2

namespace QbVerif.IpcLemmas
open QbVerif QbVerif.RingSpec QbVerif.Ipc QbVerif.Gen

/-- one enabled action of a run: the action, what the call returned / handed over, the state after it -/
abbrev Ev := Act × Out × St

/-- the enabled actions of a run with their outputs and post-states -/
def trace (s : St) : List Act → List Ev
  | [] => []
  | a :: as =>
    match s.step a with
    | some (s', o) => (a, o, s') :: trace s' as
    | none => trace s as

/-- request handed to the server's msg_process callback -/
def reqDelivered : Ev → Option Msg
  | (.sMsgProcess, .msg m, _) => some m
  | _ => none
/-- request whose `qb_ipcc_send[v]` call is going to return its length -/
def reqAccepted : Ev → Option Msg
  | (.cSendBegin m _, _, s') => (match s'.cpend with | some (.ok _) => some m | _ => none)
  | _ => none
def respDelivered : Ev → Option Msg
  | (.cRecv _, .msg m, _) => some m
  | _ => none
def respAccepted : Ev → Option Msg
  | (.sRespSend _ m _, .ret (.ok _), _) => some m
  | _ => none
def evtDelivered : Ev → Option Msg
  | (.cEventRecv _, .msg m, _) => some m
  | _ => none
def evtAccepted : Ev → Option Msg
  | (.sEventSend _ m _, .ret (.ok _), _) => some m
  | _ => none

theorem step_ghost {s s' : St} {a : Act} {o : Out} (hs : s.step a = some (s', o)) :
    s'.accReq = s.accReq ++ (reqAccepted (a, o, s')).toList ∧
    s'.delReq = s.delReq ++ (reqDelivered (a, o, s')).toList ∧
    s'.accResp = s.accResp ++ (respAccepted (a, o, s')).toList ∧
    s'.delResp = s.delResp ++ (respDelivered (a, o, s')).toList ∧
    s'.accEvt = s.accEvt ++ (evtAccepted (a, o, s')).toList ∧
    s'.delEvt = s.delEvt ++ (evtDelivered (a, o, s')).toList := by
  cases a with
  | cSendBegin m dg =>
    simp only [St.step, St.cSendBegin] at hs
    repeat' split at hs
    all_goals simp at hs
    all_goals obtain ⟨rfl, rfl⟩ := hs
    all_goals simp [reqAccepted, reqDelivered, respAccepted, respDelivered, evtAccepted, evtDelivered]
  | cNotify =>
    simp only [St.step, St.cNotify] at hs
    split at hs
    all_goals simp at hs
    obtain ⟨rfl, rfl⟩ := hs
    simp [reqAccepted, reqDelivered, respAccepted, respDelivered, evtAccepted, evtDelivered]
  | cSendRet =>
    simp only [St.step, St.cSendRet] at hs
    repeat' split at hs
    all_goals simp at hs
    obtain ⟨rfl, rfl⟩ := hs
    simp [reqAccepted, reqDelivered, respAccepted, respDelivered, evtAccepted, evtDelivered]
  | cRecv cap =>
    simp only [St.step, St.cRecv] at hs
    repeat' split at hs
    all_goals simp at hs
    all_goals obtain ⟨rfl, rfl⟩ := hs
    all_goals simp [reqAccepted, reqDelivered, respAccepted, respDelivered, evtAccepted, evtDelivered]
  | cEventRecv cap =>
    simp only [St.step, St.cEventRecv] at hs
    repeat' split at hs
    all_goals simp at hs
    all_goals obtain ⟨rfl, rfl⟩ := hs
    all_goals simp [reqAccepted, reqDelivered, respAccepted, respDelivered, evtAccepted, evtDelivered]
  | cFcMax n =>
    simp only [St.step] at hs
    split at hs
    all_goals simp at hs
    all_goals obtain ⟨rfl, rfl⟩ := hs
    all_goals simp [reqAccepted, reqDelivered, respAccepted, respDelivered, evtAccepted, evtDelivered]
  | cPoll =>
    simp only [St.step] at hs
    simp at hs
    obtain ⟨rfl, rfl⟩ := hs
    simp [reqAccepted, reqDelivered, respAccepted, respDelivered, evtAccepted, evtDelivered]
  | sDispBegin pin pout =>
    simp only [St.step, St.sDispBegin] at hs
    have hf : ∀ t : St, t = (if pout then s.resend else s) → t.accReq = s.accReq ∧ t.delReq = s.delReq ∧
        t.accResp = s.accResp ∧ t.delResp = s.delResp ∧ t.accEvt = s.accEvt ∧ t.delEvt = s.delEvt := by
      intro t ht
      subst ht
      have := resend_frame s
      split <;> simp [this]
    generalize (if pout then s.resend else s) = s1 at hs hf
    have hf := hf s1 rfl
    repeat' split at hs
    all_goals simp at hs
    all_goals obtain ⟨rfl, rfl⟩ := hs
    all_goals simp [reqAccepted, reqDelivered, respAccepted, respDelivered, evtAccepted, evtDelivered, hf]
  | sMsgProcess =>
    simp only [St.step, St.sMsgProcess] at hs
    repeat' split at hs
    all_goals simp at hs
    all_goals obtain ⟨rfl, rfl⟩ := hs
    all_goals simp [reqAccepted, reqDelivered, respAccepted, respDelivered, evtAccepted, evtDelivered]
  | sMsgProcessResult b =>
    simp only [St.step, St.sMsgProcessResult] at hs
    repeat' split at hs
    all_goals simp at hs
    all_goals obtain ⟨rfl, rfl⟩ := hs
    all_goals simp [reqAccepted, reqDelivered, respAccepted, respDelivered, evtAccepted, evtDelivered]
  | sDispEnd =>
    simp only [St.step, St.sDispEnd] at hs
    repeat' split at hs
    all_goals simp at hs
    all_goals obtain ⟨rfl, rfl⟩ := hs
    all_goals simp [reqAccepted, reqDelivered, respAccepted, respDelivered, evtAccepted, evtDelivered]
  | sEventSend v m dg =>
    simp only [St.step, St.sEventSend] at hs
    repeat' split at hs
    all_goals simp at hs
    all_goals obtain ⟨rfl, rfl⟩ := hs
    all_goals simp [reqAccepted, reqDelivered, respAccepted, respDelivered, evtAccepted, evtDelivered,
      newEventNotification_frame, resend_frame]
  | sRespSend v m dg =>
    simp only [St.step, St.sRespSend] at hs
    repeat' split at hs
    all_goals simp at hs
    all_goals obtain ⟨rfl, rfl⟩ := hs
    all_goals simp [reqAccepted, reqDelivered, respAccepted, respDelivered, evtAccepted, evtDelivered]
  | sRateLimit rl =>
    simp only [St.step] at hs
    simp at hs
    obtain ⟨rfl, rfl⟩ := hs
    unfold St.rateLimit
    simp [reqAccepted, reqDelivered, respAccepted, respDelivered, evtAccepted, evtDelivered]
  | netCapReq c =>
    simp only [St.step] at hs
    simp at hs
    obtain ⟨rfl, rfl⟩ := hs
    simp [reqAccepted, reqDelivered, respAccepted, respDelivered, evtAccepted, evtDelivered]
  | netCapEvt c =>
    simp only [St.step] at hs
    simp at hs
    obtain ⟨rfl, rfl⟩ := hs
    simp [reqAccepted, reqDelivered, respAccepted, respDelivered, evtAccepted, evtDelivered]

/-- transport and negotiated maximum never change on an established connection -/
theorem step_const {s s' : St} {a : Act} {o : Out} (hs : s.step a = some (s', o)) :
    s'.shmT = s.shmT ∧ s'.maxMsg = s.maxMsg := by
  cases a with
  | cSendBegin m dg =>
    simp only [St.step, St.cSendBegin] at hs
    repeat' split at hs
    all_goals simp at hs
    all_goals obtain ⟨rfl, rfl⟩ := hs
    all_goals simp
  | cNotify =>
    simp only [St.step, St.cNotify] at hs
    split at hs
    all_goals simp at hs
    obtain ⟨rfl, rfl⟩ := hs
    simp
  | cSendRet =>
    simp only [St.step, St.cSendRet] at hs
    repeat' split at hs
    all_goals simp at hs
    obtain ⟨rfl, rfl⟩ := hs
    simp
  | cRecv cap =>
    simp only [St.step, St.cRecv] at hs
    repeat' split at hs
    all_goals simp at hs
    all_goals obtain ⟨rfl, rfl⟩ := hs
    all_goals simp
  | cEventRecv cap =>
    simp only [St.step, St.cEventRecv] at hs
    repeat' split at hs
    all_goals simp at hs
    all_goals obtain ⟨rfl, rfl⟩ := hs
    all_goals simp
  | cFcMax n =>
    simp only [St.step] at hs
    split at hs
    all_goals simp at hs
    all_goals obtain ⟨rfl, rfl⟩ := hs
    all_goals simp
  | cPoll =>
    simp only [St.step] at hs
    simp at hs
    obtain ⟨rfl, rfl⟩ := hs
    simp
  | sDispBegin pin pout =>
    simp only [St.step, St.sDispBegin] at hs
    have hf : ∀ t : St, t = (if pout then s.resend else s) → t.shmT = s.shmT ∧ t.maxMsg = s.maxMsg := by
      intro t ht
      subst ht
      have := resend_frame s
      split <;> simp [this]
    generalize (if pout then s.resend else s) = s1 at hs hf
    have hf := hf s1 rfl
    repeat' split at hs
    all_goals simp at hs
    all_goals obtain ⟨rfl, rfl⟩ := hs
    all_goals simp [hf]
  | sMsgProcess =>
    simp only [St.step, St.sMsgProcess] at hs
    repeat' split at hs
    all_goals simp at hs
    all_goals obtain ⟨rfl, rfl⟩ := hs
    all_goals simp
  | sMsgProcessResult b =>
    simp only [St.step, St.sMsgProcessResult] at hs
    repeat' split at hs
    all_goals simp at hs
    all_goals obtain ⟨rfl, rfl⟩ := hs
    all_goals simp
  | sDispEnd =>
    simp only [St.step, St.sDispEnd] at hs
    repeat' split at hs
    all_goals simp at hs
    all_goals obtain ⟨rfl, rfl⟩ := hs
    all_goals simp
  | sEventSend v m dg =>
    simp only [St.step, St.sEventSend] at hs
    repeat' split at hs
    all_goals simp at hs
    all_goals obtain ⟨rfl, rfl⟩ := hs
    all_goals simp [newEventNotification_frame, resend_frame]
  | sRespSend v m dg =>
    simp only [St.step, St.sRespSend] at hs
    repeat' split at hs
    all_goals simp at hs
    all_goals obtain ⟨rfl, rfl⟩ := hs
    all_goals simp
  | sRateLimit rl =>
    simp only [St.step] at hs
    simp at hs
    obtain ⟨rfl, rfl⟩ := hs
    unfold St.rateLimit
    simp
  | netCapReq c =>
    simp only [St.step] at hs
    simp at hs
    obtain ⟨rfl, rfl⟩ := hs
    simp
  | netCapEvt c =>
    simp only [St.step] at hs
    simp at hs
    obtain ⟨rfl, rfl⟩ := hs
    simp


/-- The value a `qb_ipcc_send[v]` call in progress is going to return is fixed when `funcs.send[v]`
    returns (`cSendBegin`); no other action changes it, and the return of the call (`cSendRet`)
    reports exactly that value.  So "accepted" in `reqAccepted` = "the send call returned its length". -/
theorem cpend_stable {s s' : St} {a : Act} {o : Out} {r : Except Err Nat} (hs : s.step a = some (s', o))
    (hp : s.cpend = some r) :
    (s'.cpend = some r ∧ ∀ r', o ≠ .ret r' ∨ ¬ (a matches .cSendRet)) ∨
    (s'.cpend = none ∧ o = .ret r ∧ a matches .cSendRet) := by
  cases a with
  | cSendBegin m dg => simp [St.step, St.cSendBegin, hp] at hs
  | cNotify =>
    simp only [St.step, St.cNotify] at hs
    split at hs
    all_goals simp at hs
    obtain ⟨rfl, rfl⟩ := hs
    simp [hp]
  | cSendRet =>
    simp only [St.step, St.cSendRet, hp] at hs
    split at hs
    · simp at hs
    · simp at hs
      obtain ⟨rfl, rfl⟩ := hs
      simp
  | cRecv cap =>
    simp only [St.step, St.cRecv] at hs
    repeat' split at hs
    all_goals simp at hs
    all_goals obtain ⟨rfl, rfl⟩ := hs
    all_goals simp [hp]
  | cEventRecv cap =>
    simp only [St.step, St.cEventRecv] at hs
    repeat' split at hs
    all_goals simp at hs
    all_goals obtain ⟨rfl, rfl⟩ := hs
    all_goals simp [hp]
  | cFcMax n =>
    simp only [St.step] at hs
    split at hs
    all_goals simp at hs
    all_goals obtain ⟨rfl, rfl⟩ := hs
    all_goals simp [hp]
  | cPoll =>
    simp only [St.step] at hs
    simp at hs
    obtain ⟨rfl, rfl⟩ := hs
    simp [hp]
  | sDispBegin pin pout =>
    simp only [St.step, St.sDispBegin] at hs
    have hf : ∀ t : St, t = (if pout then s.resend else s) → t.cpend = s.cpend := by
      intro t ht
      subst ht
      have := resend_frame s
      split <;> simp [this]
    generalize (if pout then s.resend else s) = s1 at hs hf
    have hf := hf s1 rfl
    repeat' split at hs
    all_goals simp at hs
    all_goals obtain ⟨rfl, rfl⟩ := hs
    all_goals simp [hf, hp]
  | sMsgProcess =>
    simp only [St.step, St.sMsgProcess] at hs
    repeat' split at hs
    all_goals simp at hs
    all_goals obtain ⟨rfl, rfl⟩ := hs
    all_goals simp [hp]
  | sMsgProcessResult b =>
    simp only [St.step, St.sMsgProcessResult] at hs
    repeat' split at hs
    all_goals simp at hs
    all_goals obtain ⟨rfl, rfl⟩ := hs
    all_goals simp [hp]
  | sDispEnd =>
    simp only [St.step, St.sDispEnd] at hs
    repeat' split at hs
    all_goals simp at hs
    all_goals obtain ⟨rfl, rfl⟩ := hs
    all_goals simp [hp]
  | sEventSend v m dg =>
    simp only [St.step, St.sEventSend] at hs
    repeat' split at hs
    all_goals simp at hs
    all_goals obtain ⟨rfl, rfl⟩ := hs
    all_goals simp [newEventNotification_frame, resend_frame, hp]
  | sRespSend v m dg =>
    simp only [St.step, St.sRespSend] at hs
    repeat' split at hs
    all_goals simp at hs
    all_goals obtain ⟨rfl, rfl⟩ := hs
    all_goals simp [hp]
  | sRateLimit rl =>
    simp only [St.step] at hs
    simp at hs
    obtain ⟨rfl, rfl⟩ := hs
    unfold St.rateLimit
    simp [hp]
  | netCapReq c =>
    simp only [St.step] at hs
    simp at hs
    obtain ⟨rfl, rfl⟩ := hs
    simp [hp]
  | netCapEvt c =>
    simp only [St.step] at hs
    simp at hs
    obtain ⟨rfl, rfl⟩ := hs
    simp [hp]



theorem run_const (s : St) (acts : List Act) :
    (s.run acts).shmT = s.shmT ∧ (s.run acts).maxMsg = s.maxMsg := by
  induction acts generalizing s with
  | nil => simp [St.run]
  | cons a as ih =>
    simp only [St.run]
    cases hs : s.step a with
    | none => exact ih s
    | some p =>
      obtain ⟨s', o⟩ := p
      have := step_const hs
      have := ih s'
      simp_all

theorem run_ghost (s : St) (acts : List Act) :
    (s.run acts).accReq = s.accReq ++ (trace s acts).filterMap reqAccepted ∧
    (s.run acts).delReq = s.delReq ++ (trace s acts).filterMap reqDelivered ∧
    (s.run acts).accResp = s.accResp ++ (trace s acts).filterMap respAccepted ∧
    (s.run acts).delResp = s.delResp ++ (trace s acts).filterMap respDelivered ∧
    (s.run acts).accEvt = s.accEvt ++ (trace s acts).filterMap evtAccepted ∧
    (s.run acts).delEvt = s.delEvt ++ (trace s acts).filterMap evtDelivered := by
  induction acts generalizing s with
  | nil => simp [St.run, trace]
  | cons a as ih =>
    simp only [St.run, trace]
    cases hs : s.step a with
    | none => simpa using ih s
    | some p =>
      obtain ⟨s', o⟩ := p
      obtain ⟨g1, g2, g3, g4, g5, g6⟩ := step_ghost hs
      obtain ⟨i1, i2, i3, i4, i5, i6⟩ := ih s'
      simp only [List.filterMap_cons]
      refine ⟨?_, ?_, ?_, ?_, ?_, ?_⟩
      · rw [i1, g1]; cases reqAccepted (a, o, s') <;> simp
      · rw [i2, g2]; cases reqDelivered (a, o, s') <;> simp
      · rw [i3, g3]; cases respAccepted (a, o, s') <;> simp
      · rw [i4, g4]; cases respDelivered (a, o, s') <;> simp
      · rw [i5, g5]; cases evtAccepted (a, o, s') <;> simp
      · rw [i6, g6]; cases evtDelivered (a, o, s') <;> simp

end QbVerif.IpcLemmas
