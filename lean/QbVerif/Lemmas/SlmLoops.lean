/-
Skiplist, all levels: the level loops of `skiplist_rm` in closed form — "Splice found_node out of
list" (`spliceLevels_eq`), the copy loop of takeover-and-repoint (`copyLevels_eq`), "Remove unused
levels" (`trimLevels_eq`).
-/
import QbVerif.Lemmas.SlmNotif

namespace QbVerif.Skiplist
open QbVerif.Map
set_option linter.unusedSimpArgs false

/-- the forward array `a` (allocated under `f`) after levels `lo … hi - 1` have been spliced -/
def spliceArr (s : SL) (found : NodeId) (U : Nat → NodeId) (lo hi : Nat) (f : FwdId) (a : Nat → Option NodeId) :
    Nat → Option NodeId :=
  fun l => if lo ≤ l ∧ l < hi ∧ f = fwdOf s (U l) ∧ nextL s l (U l) = some found then nextL s l found else a l

theorem spliceLevels_eq (found : NodeId) (U : Nat → NodeId) : ∀ (cnt lo : Nat) (s : SL), XOk s found →
    (∀ l, lo ≤ l → l < lo + cnt → XOk s (U l)) →
    SL.spliceLevels found U cnt lo s =
      .ok { s with fwds := fun f => (s.fwds f).map (spliceArr s found U lo (lo + cnt) f) }
  | 0, lo, s, _, _ => by
    simp only [SL.spliceLevels, Nat.add_zero]
    congr 1
    have : (fun f => (s.fwds f).map (spliceArr s found U lo lo f)) = s.fwds := by
      funext f
      cases hf : s.fwds f with
      | none => rfl
      | some a =>
        simp only [Option.map_some, Option.some.injEq]
        funext l
        simp only [spliceArr]
        rw [if_neg (by omega)]
    rw [this]
  | cnt + 1, lo, s, hfx, hU => by
    obtain ⟨fn, fa, hfn, hfa⟩ := hfx
    obtain ⟨pn, pa, hpn, hpa⟩ := hU lo (Nat.le_refl _) (by omega)
    have hpfw : fwdOf s (U lo) = pn.fwd := by simp [fwdOf, hpn]
    -- the state after level `lo`
    let s2 : SL := if pa lo = some found then { s with fwds := upd s.fwds pn.fwd (some (upd pa lo (nextL s lo found))) } else s
    have hstep : SL.spliceLevels found U (cnt + 1) lo s = SL.spliceLevels found U cnt (lo + 1) s2 := by
      by_cases hc : pa lo = some found
      · simp only [SL.spliceLevels, SL.fwdAt, SL.setFwdAt, SL.node, SL.arr, hpn, hpa, hfn, hfa, bind, Except.bind, hc, if_true,
          s2, nextL]
      · simp only [SL.spliceLevels, SL.fwdAt, SL.setFwdAt, SL.node, SL.arr, hpn, hpa, bind, Except.bind, hc, if_false, s2]
    have hnodes2 : s2.nodes = s.nodes := by simp only [s2]; split <;> rfl
    have hfw2 : ∀ x, fwdOf s2 x = fwdOf s x := fun x => by simp only [fwdOf, hnodes2]
    have hf2 : ∀ f, s2.fwds f = if f = pn.fwd ∧ pa lo = some found then some (upd pa lo (nextL s lo found)) else s.fwds f := by
      intro f
      simp only [s2]
      by_cases hc : pa lo = some found
      · simp only [hc, if_true, and_true, upd]
      · simp [hc]
    have hxok2 : ∀ x, XOk s x → XOk s2 x := by
      rintro x ⟨n, a, h1, h2⟩
      by_cases hc : n.fwd = pn.fwd ∧ pa lo = some found
      · exact ⟨n, _, by rw [hnodes2]; exact h1, by rw [hf2, if_pos hc]⟩
      · exact ⟨n, a, by rw [hnodes2]; exact h1, by rw [hf2, if_neg hc]; exact h2⟩
    -- reads at higher levels are not affected
    have hnx2 : ∀ l x, l ≠ lo → nextL s2 l x = nextL s l x := by
      intro l x hl
      simp only [nextL, hnodes2]
      cases hx : s.nodes x with
      | none => rfl
      | some n =>
        simp only [hf2]
        by_cases hc : n.fwd = pn.fwd ∧ pa lo = some found
        · rw [if_pos hc]
          have : s.fwds n.fwd = some pa := by rw [hc.1]; exact hpa
          rw [this]
          simp [upd, hl]
        · rw [if_neg hc]
    rw [hstep, spliceLevels_eq found U cnt (lo + 1) s2 (hxok2 _ ⟨fn, fa, hfn, hfa⟩)
      (fun l h1 h2 => hxok2 _ (hU l (by omega) (by omega)))]
    congr 1
    show ({ s2 with fwds := fun f => (s2.fwds f).map (spliceArr s2 found U (lo + 1) (lo + 1 + cnt) f) } : SL) =
      { s with fwds := fun f => (s.fwds f).map (spliceArr s found U lo (lo + (cnt + 1)) f) }
    have hrest : ({ s2 with fwds := fun f => (s2.fwds f).map (spliceArr s2 found U (lo + 1) (lo + 1 + cnt) f) } : SL) =
        { s with fwds := fun f => (s2.fwds f).map (spliceArr s2 found U (lo + 1) (lo + 1 + cnt) f) } := by
      simp only [s2]; split <;> rfl
    rw [hrest]
    congr 1
    funext f
    have hsp : ∀ a l, l ≠ lo → spliceArr s2 found U (lo + 1) (lo + 1 + cnt) f a l =
        spliceArr s found U lo (lo + (cnt + 1)) f a l := by
      intro a l hl
      simp only [spliceArr, hfw2, hnx2 l _ hl]
      by_cases hr : lo + 1 ≤ l ∧ l < lo + 1 + cnt
      · have h1 : lo ≤ l := by omega
        have h2 : l < lo + (cnt + 1) := by omega
        simp only [hr.1, hr.2, h1, h2, true_and]
      · have : ¬(lo ≤ l ∧ l < lo + (cnt + 1)) := by omega
        have h3 : ¬(lo + 1 ≤ l ∧ l < lo + 1 + cnt ∧ f = fwdOf s (U l) ∧ nextL s l (U l) = some found) := fun h => hr ⟨h.1, h.2.1⟩
        have h4 : ¬(lo ≤ l ∧ l < lo + (cnt + 1) ∧ f = fwdOf s (U l) ∧ nextL s l (U l) = some found) := fun h => this ⟨h.1, h.2.1⟩
        rw [if_neg h3, if_neg h4]
    have hlo : ∀ a, spliceArr s2 found U (lo + 1) (lo + 1 + cnt) f a lo = a lo := by
      intro a; simp only [spliceArr]; rw [if_neg (by omega)]
    rw [hf2]
    by_cases hc : f = pn.fwd ∧ pa lo = some found
    · rw [if_pos hc]
      obtain ⟨rfl, hpe⟩ := hc
      rw [hpa]
      simp only [Option.map_some, Option.some.injEq]
      funext l
      by_cases hl : l = lo
      · subst hl
        rw [hlo]
        simp only [spliceArr, upd, if_true, hpfw, nextL_of hpn hpa, hpe, Nat.le_refl, true_and, and_true]
        rw [if_pos (by omega)]
      · rw [hsp _ l hl]
        simp only [spliceArr, upd, hl, if_false]
    · rw [if_neg hc]
      cases hf : s.fwds f with
      | none => rfl
      | some a =>
        simp only [Option.map_some, Option.some.injEq]
        funext l
        by_cases hl : l = lo
        · subst hl
          rw [hlo]
          simp only [spliceArr, hpfw, nextL_of hpn hpa]
          rw [if_neg (fun h => hc ⟨h.2.2.1, h.2.2.2⟩)]
        · exact hsp a l hl

/-- the copy loop of the takeover: `found->forward[l] = cur->forward[l]` for `l < cnt` -/
theorem copyLevels_eq (found cur : NodeId) {fn cn : Node} {fa ca : Nat → Option NodeId} : ∀ (cnt lo : Nat) (s : SL),
    s.nodes found = some fn → s.fwds fn.fwd = some fa → s.nodes cur = some cn → s.fwds cn.fwd = some ca →
    cn.fwd ≠ fn.fwd →
    SL.copyLevels found cur cnt lo s =
      .ok { s with fwds := upd s.fwds fn.fwd (some fun l => if lo ≤ l ∧ l < lo + cnt then ca l else fa l) }
  | 0, lo, s, _, hfa, _, _, _ => by
    simp only [SL.copyLevels, Nat.add_zero]
    congr 1
    have : (fun l => if lo ≤ l ∧ l < lo then ca l else fa l) = fa := by
      funext l; rw [if_neg (by omega)]
    rw [this]
    have : upd s.fwds fn.fwd (some fa) = s.fwds := by rw [← hfa]; exact upd_self _ _
    rw [this]
  | cnt + 1, lo, s, hfn, hfa, hcn, hca, hne => by
    have hstep : SL.copyLevels found cur (cnt + 1) lo s =
        SL.copyLevels found cur cnt (lo + 1) { s with fwds := upd s.fwds fn.fwd (some (upd fa lo (ca lo))) } := by
      simp only [SL.copyLevels, SL.fwdAt, SL.setFwdAt, SL.node, SL.arr, hfn, hfa, hcn, hca, bind, Except.bind]
    rw [hstep, copyLevels_eq found cur (fn := fn) (cn := cn) (fa := upd fa lo (ca lo)) (ca := ca) cnt (lo + 1)
      { s with fwds := upd s.fwds fn.fwd (some (upd fa lo (ca lo))) } hfn
      (by simp [upd]) hcn (by simp [upd, hne, hca]) hne]
    congr 1
    simp only [upd_upd]
    congr 3
    funext l
    by_cases hl : l = lo
    · subst hl
      rw [if_neg (by omega), if_pos (by omega)]
      simp [upd]
    · by_cases hr : lo + 1 ≤ l ∧ l < lo + 1 + cnt
      · rw [if_pos hr, if_pos (by omega)]
      · rw [if_neg hr, if_neg (by omega)]
        simp [upd, hl]

/-- where "Remove unused levels" stops -/
def trimLv (ha : Nat → Option NodeId) : Nat → Nat
  | 0 => 0
  | l + 1 => if (ha l).isSome then l + 1 else trimLv ha l

theorem trimLevels_eq {hn : Node} {ha : Nat → Option NodeId} : ∀ (n : Nat) (t : SL), t.lv = n →
    t.nodes t.header = some hn → t.fwds hn.fwd = some ha →
    SL.trimLevels n t = .ok { t with lv := trimLv ha n }
  | 0, t, h0, _, _ => by
    simp only [SL.trimLevels, trimLv]
    congr 1
    rw [← h0]
  | n + 1, t, h0, hh, hha => by
    simp only [SL.trimLevels, SL.fwdAt, SL.node, SL.arr, hh, hha, bind, Except.bind, trimLv]
    cases hl : ha n with
    | some x =>
      simp only [Option.isSome_some, if_true]
      congr 1
      rw [← h0]
    | none =>
      simp only [Option.isSome_none, Bool.false_eq_true, if_false]
      have := trimLevels_eq (hn := hn) (ha := ha) n { t with lv := t.lv - 1 } (by show t.lv - 1 = n; omega) hh hha
      rw [this]

theorem trimLv_le (ha : Nat → Option NodeId) : ∀ n, trimLv ha n ≤ n
  | 0 => Nat.le_refl 0
  | n + 1 => by
    simp only [trimLv]
    split
    · exact Nat.le_refl _
    · exact Nat.le_succ_of_le (trimLv_le ha n)

theorem trimLv_none (ha : Nat → Option NodeId) : ∀ n l, trimLv ha n ≤ l → l < n → ha l = none
  | 0, l, _, h => by omega
  | n + 1, l, h1, h2 => by
    simp only [trimLv] at h1
    split at h1
    · omega
    · next hs =>
      by_cases hl : l = n
      · subst hl
        cases hx : ha l with
        | none => rfl
        | some _ => simp [hx] at hs
      · exact trimLv_none ha n l h1 (by omega)

end QbVerif.Skiplist
