/-
`trie_node_split` keeps the structural invariant, the path of every existing node, and the set of
entries: the entry of the split node moves to the new child, whose path is the old node's path
(`Split.path_lower`); the old node's path is cut at the split point (`Split.start_fwd` keeps its
`Start`).  Built on the node-by-node description of the store in Lemmas/TrieSplit.lean.
-/
import QbVerif.Lemmas.TrieSplit

namespace QbVerif.Trie
open QbVerif.Map

namespace Split
variable {t : T} {cur sc : Nat} {n : Node}

theorem hch (s : Split t cur sc n) : n.seg.getD sc 0 < 256 := by
  have : n.seg.getD sc 0 = n.seg[sc]'s.hsc := by
    simp [List.getD_eq_getElem?_getD, List.getElem?_eq_getElem s.hsc]
  rw [this]
  exact (s.inv.seg_bytes cur _ (by rw [nd_of_node? s.hn]; exact List.getElem_mem _)).2

theorem hch0 (s : Split t cur sc n) : 0 < n.seg.getD sc 0 := by
  have : n.seg.getD sc 0 = n.seg[sc]'s.hsc := by
    simp [List.getD_eq_getElem?_getD, List.getElem?_eq_getElem s.hsc]
  rw [this]
  exact (s.inv.seg_bytes cur _ (by rw [nd_of_node? s.hn]; exact List.getElem_mem _)).1

theorem seg_split (s : Split t cur sc n) : n.seg = n.seg.take sc ++ [n.seg.getD sc 0] ++ n.seg.drop (sc + 1) := by
  have : n.seg.getD sc 0 = n.seg[sc]'s.hsc := by
    simp [List.getD_eq_getElem?_getD, List.getElem?_eq_getElem s.hsc]
  rw [this, List.append_assoc, List.singleton_append, List.getElem_cons_drop, List.take_append_drop]

theorem cur_lt (s : Split t cur sc n) : cur < t.nodes.length := lt_of_node? s.hn

theorem cur_ne0 (s : Split t cur sc n) : cur ≠ 0 := by
  intro e; subst e
  obtain ⟨hd, hd0, _, hs, _⟩ := s.inv.header
  have := s.hn; rw [hd0] at this; injection this with this; subst this
  have := s.hsc; rw [hs] at this; simp at this

theorem nd_eq (s : Split t cur sc n) (j : Nat) :
    (t.split cur sc).nd j =
      if j = cur then upper n sc t.nodes.length
      else if j = t.nodes.length then lower n cur sc
      else if some j ∈ n.children then setParent t.nodes.length (t.nd j)
      else t.nd j := by
  unfold T.nd
  rw [s.node?_eq]
  split
  · rfl
  · split
    · rfl
    · split
      · rename_i hk
        obtain ⟨m, hm, _⟩ := s.kid_live hk
        simp [hm]
      · rfl

theorem seg_eq (s : Split t cur sc n) (j : Nat) :
    ((t.split cur sc).nd j).seg =
      if j = cur then n.seg.take sc else if j = t.nodes.length then n.seg.drop (sc + 1) else (t.nd j).seg := by
  rw [s.nd_eq]
  split
  · rfl
  · split
    · rfl
    · split <;> rfl

theorem dead_L (t : T) (i : Nat) : (t.nd t.nodes.length).child i = none := by
  simp [T.nd, Grow.dead_new, Node.blank, Node.child]

theorem child_eq (s : Split t cur sc n) (q i : Nat) :
    ((t.split cur sc).nd q).child i =
      if q = cur then (if i = charIdx (n.seg.getD sc 0) then some t.nodes.length else none)
      else if q = t.nodes.length then n.child i else (t.nd q).child i := by
  rw [s.nd_eq]
  split
  · have := child_pad_set { n with children := [] } (charIdx (n.seg.getD sc 0)) t.nodes.length i
    simp only [Node.child] at this ⊢
    simp only [upper]
    rw [this]
    split
    · rfl
    · simp
  · split
    · rfl
    · split <;> rfl

theorem fields_eq (s : Split t cur sc n) {q : Nat} (h1 : q ≠ cur) (h2 : q ≠ t.nodes.length) :
    ((t.split cur sc).nd q).key = (t.nd q).key ∧ ((t.split cur sc).nd q).val = (t.nd q).val ∧
    ((t.split cur sc).nd q).removed = (t.nd q).removed ∧
    ((t.split cur sc).nd q).refcount = (t.nd q).refcount := by
  rw [s.nd_eq]
  simp only [h1, h2, if_false]
  split <;> exact ⟨rfl, rfl, rfl, rfl⟩

theorem old_child_lt (s : Split t cur sc n) {q i x : Nat} (h : (t.nd q).child i = some x) : x ≠ t.nodes.length := by
  obtain ⟨cn, hcn, _⟩ := s.inv.child_ok q i x h
  have := lt_of_node? hcn; omega

theorem edge_upper (s : Split t cur sc n) {pc : List Nat} (h : Start (t.split cur sc) cur pc) :
    Start (t.split cur sc) t.nodes.length (pc ++ n.seg.take sc ++ [n.seg.getD sc 0]) := by
  have := Start.edge h (c := n.seg.getD sc 0) (id := t.nodes.length) (by rw [s.child_eq]; simp) s.hch
  rw [s.seg_eq] at this
  simpa using this

theorem start_fwd (s : Split t cur sc n) {x : Nat} {px : List Nat} (h : Start t x px) :
    Start (t.split cur sc) x px := by
  induction h with
  | root => exact Start.root
  | @edge q x pp c' _ hc hb ih =>
    by_cases hq : q = cur
    · subst hq
      rw [nd_of_node? s.hn] at hc ⊢
      have hL := s.edge_upper ih
      have hne : ¬ (t.nodes.length = q) := fun e => (Nat.ne_of_lt s.cur_lt) e.symm
      have := Start.edge hL (c := c') (id := x) (by rw [s.child_eq]; simp [hne, hc]) hb
      rw [s.seg_eq] at this
      simp only [hne, if_false, if_true] at this
      have e : pp ++ n.seg ++ [c'] = pp ++ List.take sc n.seg ++ [n.seg.getD sc 0] ++ List.drop (sc + 1) n.seg ++ [c'] := by
        conv => lhs; rw [s.seg_split]
        simp
      rw [e]; exact this
    · have hqL : q ≠ t.nodes.length := by
        intro e; subst e; rw [dead_L] at hc; exact absurd hc (by simp)
      have := Start.edge ih (c := c') (id := x) (by rw [s.child_eq]; simp [hq, hqL, hc]) hb
      rw [s.seg_eq] at this
      simpa [hq, hqL] using this

theorem start_bwd (s : Split t cur sc n) {x : Nat} {px : List Nat} (h : Start (t.split cur sc) x px) :
    (x ≠ t.nodes.length ∧ Start t x px) ∨
    (x = t.nodes.length ∧ ∃ pc, Start t cur pc ∧ px = pc ++ n.seg.take sc ++ [n.seg.getD sc 0]) := by
  have hcl := s.cur_lt
  induction h with
  | root => exact Or.inl ⟨by omega, Start.root⟩
  | @edge q x pp c' _ hc hb ih =>
    rw [s.child_eq] at hc
    rw [s.seg_eq]
    by_cases hq : q = cur
    · subst hq
      simp only [if_true] at hc ⊢
      rcases ih with ⟨_, ih⟩ | ⟨e, _⟩
      · split at hc
        · rename_i e2
          injection hc with hc; subst hc
          have : c' = n.seg.getD sc 0 := charIdx_inj hb s.hch e2
          rw [this]
          exact Or.inr ⟨rfl, pp, ih, rfl⟩
        · exact absurd hc (by simp)
      · omega
    · simp only [hq, if_false] at hc ⊢
      by_cases hqL : q = t.nodes.length
      · subst hqL
        simp only [if_true] at hc ⊢
        rcases ih with ⟨h0, _⟩ | ⟨_, pc, hpc, e⟩
        · exact absurd rfl h0
        · have hc' : (t.nd cur).child (charIdx c') = some x := by rw [nd_of_node? s.hn]; exact hc
          refine Or.inl ⟨s.old_child_lt hc', ?_⟩
          have := Start.edge hpc hc' hb
          rw [nd_of_node? s.hn] at this
          rw [e]
          have e2 : pc ++ List.take sc n.seg ++ [n.seg.getD sc 0] ++ List.drop (sc + 1) n.seg ++ [c'] = pc ++ n.seg ++ [c'] := by
            conv => rhs; rw [s.seg_split]
            simp
          rw [e2]; exact this
      · simp only [hqL, if_false] at hc ⊢
        rcases ih with ⟨_, ih⟩ | ⟨e, _⟩
        · exact Or.inl ⟨s.old_child_lt hc, Start.edge ih hc hb⟩
        · exact absurd e hqL

/-- nodes other than the two halves keep their paths -/
theorem path_other (s : Split t cur sc n) {x : Nat} (h1 : x ≠ cur) (h2 : x ≠ t.nodes.length) (k : List Nat) :
    Path (t.split cur sc) x k ↔ Path t x k := by
  constructor
  · rintro ⟨px, hs, rfl⟩
    rcases s.start_bwd hs with ⟨_, h⟩ | ⟨e, _⟩
    · exact ⟨px, h, by rw [s.seg_eq]; simp [h1, h2]⟩
    · exact absurd e h2
  · rintro ⟨px, hs, rfl⟩
    exact ⟨px, s.start_fwd hs, by rw [s.seg_eq]; simp [h1, h2]⟩

/-- the new lower half sits where the split node sat -/
theorem path_lower (s : Split t cur sc n) (k : List Nat) :
    Path (t.split cur sc) t.nodes.length k ↔ Path t cur k := by
  have hne : ¬ (t.nodes.length = cur) := fun e => (Nat.ne_of_lt s.cur_lt) e.symm
  constructor
  · rintro ⟨px, hs, rfl⟩
    rcases s.start_bwd hs with ⟨h0, _⟩ | ⟨_, pc, hpc, e⟩
    · exact absurd rfl h0
    · refine ⟨pc, hpc, ?_⟩
      rw [s.seg_eq, nd_of_node? s.hn, e]
      simp only [hne, if_false, if_true]
      conv => rhs; rw [s.seg_split]
      simp
  · rintro ⟨pc, hpc, rfl⟩
    refine ⟨_, s.edge_upper (s.start_fwd hpc), ?_⟩
    rw [s.seg_eq, nd_of_node? s.hn]
    simp only [hne, if_false, if_true]
    conv => lhs; rw [s.seg_split]
    simp

/-- the upper half ends where the split was made -/
theorem path_upper (s : Split t cur sc n) {pc : List Nat} (h : Start t cur pc) :
    Path (t.split cur sc) cur (pc ++ n.seg.take sc) :=
  ⟨pc, s.start_fwd h, by rw [s.seg_eq]; simp⟩

theorem nd_upper (s : Split t cur sc n) : (t.split cur sc).nd cur = upper n sc t.nodes.length := by
  rw [s.nd_eq]; simp

theorem nd_lower (s : Split t cur sc n) : (t.split cur sc).nd t.nodes.length = lower n cur sc := by
  have hne : ¬ (t.nodes.length = cur) := fun e => (Nat.ne_of_lt s.cur_lt) e.symm
  rw [s.nd_eq]; simp [hne]

theorem entries_eq (s : Split t cur sc n) (k : List Nat) (v : Val) :
    Entries (t.split cur sc) k v ↔ Entries t k v := by
  constructor
  · rintro ⟨x, hp, hr, hv, hv0⟩
    by_cases h1 : x = cur
    · subst h1; rw [s.nd_upper] at hv; exact absurd hv.symm hv0
    · by_cases h2 : x = t.nodes.length
      · subst h2
        rw [s.nd_lower] at hr hv
        exact ⟨cur, (s.path_lower k).1 hp, by rw [nd_of_node? s.hn]; exact hr, by rw [nd_of_node? s.hn]; exact hv, hv0⟩
      · obtain ⟨_, e2, e3, _⟩ := s.fields_eq h1 h2
        exact ⟨x, (s.path_other h1 h2 k).1 hp, by rw [← e3]; exact hr, by rw [← e2]; exact hv, hv0⟩
  · rintro ⟨x, hp, hr, hv, hv0⟩
    by_cases h1 : x = cur
    · subst h1
      rw [nd_of_node? s.hn] at hr hv
      exact ⟨t.nodes.length, (s.path_lower k).2 hp, by rw [s.nd_lower]; exact hr, by rw [s.nd_lower]; exact hv, hv0⟩
    · have h2 : x ≠ t.nodes.length := by
        intro e; subst e
        simp [T.nd, Grow.dead_new, Node.blank] at hv
        exact hv0 hv.symm
      obtain ⟨_, e2, e3, _⟩ := s.fields_eq h1 h2
      exact ⟨x, (s.path_other h1 h2 k).2 hp, by rw [e3]; exact hr, by rw [e2]; exact hv, hv0⟩

/-- a child of the split node is not a child of anything else -/
theorem kid_iff (s : Split t cur sc n) {q i x : Nat} (h : (t.nd q).child i = some x) :
    some x ∈ n.children ↔ q = cur := by
  constructor
  · intro hk
    obtain ⟨i', hi'⟩ := (mem_children_iff n x).1 hk
    obtain ⟨cn, hcn, hcp, _⟩ := s.inv.child_ok q i x h
    obtain ⟨cn', hcn', hcp', _⟩ := s.inv.child_ok cur i' x (by rw [nd_of_node? s.hn]; exact hi')
    rw [hcn] at hcn'; injection hcn' with e; subst e
    rw [hcp] at hcp'; injection hcp'
  · intro e; subst e
    rw [nd_of_node? s.hn] at h
    exact (mem_children_iff n x).2 ⟨i, h⟩

/-- `trie_node_split` keeps the invariant -/
theorem inv_step (s : Split t cur sc n) : Inv (t.split cur sc) := by
  have hcl := s.cur_lt
  have hne : ¬ (t.nodes.length = cur) := by omega
  have hvk := s.inv.val_key cur
  have hkv := s.inv.key_val cur
  have hrv := s.inv.removed_val cur
  rw [nd_of_node? s.hn] at hvk hkv hrv
  refine ⟨?_, ?_, ?_, ?_, ?_, ?_, ?_, ?_, ?_⟩
  · obtain ⟨hd, hd0, hpar, hrest⟩ := s.inv.header
    rw [s.node?_eq]
    have h0 : ¬ (0 = cur) := fun e => s.cur_ne0 e.symm
    have h1 : ¬ (0 = t.nodes.length) := by omega
    have h2 : some 0 ∉ n.children := by
      intro hk
      obtain ⟨i, hi⟩ := (mem_children_iff n 0).1 hk
      obtain ⟨cn, hcn, hcp, _⟩ := s.inv.child_ok cur i 0 (by rw [nd_of_node? s.hn]; exact hi)
      rw [hd0] at hcn; injection hcn with e; subst e
      rw [hpar] at hcp; exact absurd hcp (by simp)
    exact ⟨hd, by simp [h0, h1, h2, hd0], hpar, hrest⟩
  · intro q i x hx
    rw [s.child_eq] at hx
    rw [s.node?_eq]
    by_cases hq : q = cur
    · subst hq
      simp only [if_true] at hx
      split at hx
      · rename_i e
        injection hx with hx; subst hx
        exact ⟨lower n q sc, by simp [hne], rfl, by rw [e]; rfl⟩
      · exact absurd hx (by simp)
    · simp only [hq, if_false] at hx
      by_cases hqL : q = t.nodes.length
      · subst hqL
        simp only [if_true] at hx
        have hx' : (t.nd cur).child i = some x := by rw [nd_of_node? s.hn]; exact hx
        obtain ⟨cn, hcn, hcp, hci⟩ := s.inv.child_ok cur i x hx'
        have hk : some x ∈ n.children := (mem_children_iff n x).2 ⟨i, hx⟩
        obtain ⟨_, _, hxc, hxl⟩ := s.kid_live hk
        have : ¬ (x = t.nodes.length) := by omega
        exact ⟨setParent t.nodes.length cn, by simp [hxc, this, hk, hcn], rfl, hci⟩
      · simp only [hqL, if_false] at hx
        obtain ⟨cn, hcn, hcp, hci⟩ := s.inv.child_ok q i x hx
        have hxL := s.old_child_lt hx
        have hnk : some x ∉ n.children := fun hk => hq ((s.kid_iff hx).1 hk)
        by_cases hxc : x = cur
        · subst hxc
          rw [s.hn] at hcn; injection hcn with e; subst e
          exact ⟨upper n sc t.nodes.length, by simp, hcp, hci⟩
        · exact ⟨cn, by simp [hxc, hxL, hnk, hcn], hcp, hci⟩
  · intro j m q hm hq
    rw [s.node?_eq] at hm
    rw [s.child_eq]
    by_cases hj : j = cur
    · subst hj
      simp at hm; subst hm
      have hq' : n.parent = some q := hq
      have hpo := s.inv.parent_ok j n q s.hn hq'
      have h1 : q ≠ j := by
        intro e; subst e; exact no_self_child s.inv s.hn _ hpo
      have h2 : q ≠ t.nodes.length := by
        intro e; subst e; rw [dead_L] at hpo; exact absurd hpo (by simp)
      simp only [h1, h2, if_false]
      exact hpo
    · simp only [hj, if_false] at hm
      by_cases hjL : j = t.nodes.length
      · subst hjL
        simp at hm; subst hm
        simp [lower, Grow.fresh, Node.blank] at hq; subst hq
        simp [lower, Grow.fresh]
      · simp only [hjL, if_false] at hm
        by_cases hk : some j ∈ n.children
        · obtain ⟨m0, hm0, _, _⟩ := s.kid_live hk
          simp [hk, hm0] at hm; subst hm
          simp [setParent] at hq; subst hq
          simp only [hne, if_false, if_true]
          obtain ⟨i, hi⟩ := (mem_children_iff n j).1 hk
          obtain ⟨cn, hcn, _, hci⟩ := s.inv.child_ok cur i j (by rw [nd_of_node? s.hn]; exact hi)
          rw [hm0] at hcn; injection hcn with e; subst e
          show n.child m0.idx = some j
          rw [hci]; exact hi
        · simp only [hk, if_false] at hm
          have hpo := s.inv.parent_ok j m q hm hq
          have h1 : q ≠ cur := fun e => hk ((s.kid_iff hpo).2 e)
          have h2 : q ≠ t.nodes.length := by
            intro e; subst e; rw [dead_L] at hpo; exact absurd hpo (by simp)
          simp only [h1, h2, if_false]
          exact hpo
  · intro j m hm
    by_cases hjL : j = t.nodes.length
    · subst hjL
      obtain ⟨pc, hpc⟩ := s.inv.reach cur n s.hn
      exact ⟨_, s.edge_upper (s.start_fwd hpc)⟩
    · have : ∃ m', t.node? j = some m' := by
        rw [s.node?_eq] at hm
        by_cases hj : j = cur
        · subst hj; exact ⟨n, s.hn⟩
        · simp only [hj, hjL, if_false] at hm
          by_cases hk : some j ∈ n.children
          · obtain ⟨m0, hm0, _⟩ := s.kid_live hk; exact ⟨m0, hm0⟩
          · simp only [hk, if_false] at hm; exact ⟨m, hm⟩
      obtain ⟨m', hm'⟩ := this
      obtain ⟨px, hpx⟩ := s.inv.reach j m' hm'
      exact ⟨px, s.start_fwd hpx⟩
  · intro j k hk
    by_cases h1 : j = cur
    · subst h1; rw [s.nd_upper] at hk; simp [upper] at hk
    · by_cases h2 : j = t.nodes.length
      · subst h2
        rw [s.nd_lower] at hk
        exact (s.path_lower k).2 (s.inv.key_path cur k (by rw [nd_of_node? s.hn]; exact hk))
      · rw [(s.fields_eq h1 h2).1] at hk
        exact (s.path_other h1 h2 k).2 (s.inv.key_path j k hk)
  · intro j
    by_cases h1 : j = cur
    · subst h1; rw [s.nd_upper]; simp [upper]
    · by_cases h2 : j = t.nodes.length
      · subst h2; rw [s.nd_lower]; exact hvk
      · obtain ⟨e1, e2, _, e4⟩ := s.fields_eq h1 h2
        rw [e1, e2, e4]; exact s.inv.val_key j
  · intro j
    by_cases h1 : j = cur
    · subst h1; rw [s.nd_upper]; simp [upper]
    · by_cases h2 : j = t.nodes.length
      · subst h2; rw [s.nd_lower]; exact hkv
      · obtain ⟨e1, e2, _, _⟩ := s.fields_eq h1 h2
        rw [e1, e2]; exact s.inv.key_val j
  · intro j
    by_cases h1 : j = cur
    · subst h1; rw [s.nd_upper]; simp [upper]
    · by_cases h2 : j = t.nodes.length
      · subst h2; rw [s.nd_lower]; exact hrv
      · obtain ⟨_, e2, e3, _⟩ := s.fields_eq h1 h2
        rw [e2, e3]; exact s.inv.removed_val j
  · intro j c hc
    rw [s.seg_eq] at hc
    have hb := s.inv.seg_bytes cur
    rw [nd_of_node? s.hn] at hb
    split at hc
    · exact hb c (List.mem_of_mem_take hc)
    · split at hc
      · exact hb c (List.mem_of_mem_drop hc)
      · exact s.inv.seg_bytes j c hc

end Split

end QbVerif.Trie
