/-
Hashtable model: `hashtable_destroy`, and `step_inv` — every operation of the harness language
preserves `Inv` and never yields the `uaf` / `diverge` outcome; `run_inv` for whole histories.
-/
import QbVerif.Lemmas.HtStepPut

namespace QbVerif.Hashtable
open QbVerif.Map
set_option linter.unusedSimpArgs false

theorem destroyNodes_eq : ∀ (L : List Node) (t : HT) (evs : List Event),
    t.flat = L → (L.map (·.id)).Nodup → (∀ x ∈ L, x.refcount = 1) →
    ∃ t', HT.destroyNodes (L.map (·.id)) t evs =
        some (t', evs ++ L.flatMap fun x => t.notify x EV_DELETED x.key x.val 0) ∧
      t'.order = t.order ∧ t'.fix14 = t.fix14 ∧ t'.fix15 = t.fix15 ∧ t'.nextId = t.nextId ∧
      t'.crashed = t.crashed ∧ t'.flat = []
  | [], t, evs, hf, _, _ => ⟨t, by simp [HT.destroyNodes], rfl, rfl, rfl, rfl, rfl, hf⟩
  | x :: L, t, evs, hf, hnd, hrc => by
    have hx : x ∈ t.flat := by rw [hf]; simp
    have hndt : (t.flat.map (·.id)).Nodup := by rw [hf]; exact hnd
    have hd := nodeDeref_eq hndt hx
    have hrel : release t x = t.nodeDestroy { x with refcount := x.refcount - 1 } := by
      unfold release
      have := hrc x (by simp)
      rw [if_neg (by omega)]
    simp only [List.map_cons, List.nodup_cons, List.mem_map, not_exists, not_and] at hnd
    let t2 : HT := { (t.nodeDestroy { x with refcount := x.refcount - 1 }).1 with
      count := decCount (t.nodeDestroy { x with refcount := x.refcount - 1 }).1.count }
    have hf2 : t2.flat = L := by
      show ((t.buckets.map fun (l : List Node) => l.filter fun (y : Node) => !(y.id == x.id))).flatten = L
      rw [flatten_map_filter]
      show t.flat.filter _ = L
      rw [hf, List.filter_cons]
      simp only [beq_self_eq_true, Bool.not_true, Bool.false_eq_true, ite_false]
      apply List.filter_eq_self.2
      intro y hy
      have : ¬ y.id = x.id := fun e => hnd.1 y hy e
      simp [this]
    obtain ⟨t', h1, h2, h3, h4, h5, h6, h7⟩ := destroyNodes_eq L t2
      (evs ++ t.notify x EV_DELETED x.key x.val 0) hf2 hnd.2 (fun y hy => hrc y (by simp [hy]))
    refine ⟨t', ?_, h2, h3, h4, h5, h6, h7⟩
    simp only [List.map_cons, HT.destroyNodes, hd, hrel]
    show HT.destroyNodes (L.map (·.id)) t2 (evs ++ t.notify x EV_DELETED x.key x.val 0) = _
    rw [h1, List.flatMap_cons, List.append_assoc]
    rfl

/-- an empty table -/
theorem inv_empty {t : HT} (h14 : t.fix14 = true) (h15 : t.fix15 = true) (n : Nat)
    (hb : t.buckets = List.replicate n []) (hn : n = 2 ^ t.order) (hi : t.iters = []) (hc : t.count = 0)
    (hcr : t.crashed = false) : Inv t := by
  have hflat : t.flat = [] := by simp [HT.flat, hb, List.flatten_replicate_nil]
  have hbk : ∀ b, t.bucketOf b = [] := by
    intro b
    simp only [HT.bucketOf, hb, List.getD_eq_getElem?_getD, List.getElem?_replicate]
    split <;> rfl
  have hlive : live t = [] := by simp [live, hflat]
  refine ⟨h14, h15, by rw [hb, List.length_replicate, hn], ?_, ?_, ?_, ?_, ?_, ?_, ?_, ?_, ?_, hcr, ?_⟩
  · intro b x hx; rw [hbk] at hx; simp at hx
  · rw [hflat]; simp
  · rw [hlive]; simp
  · intro x hx; rw [hflat] at hx; simp at hx
  · intro x hx; rw [hflat] at hx; simp at hx
  · intro p hp; rw [hi] at hp; simp at hp
  · rw [hi]; simp
  · intro p hp; rw [hi] at hp; simp at hp
  · rw [hc, hlive]; rfl
  · intro x hx; rw [hflat] at hx; simp at hx

theorem create_inv (n : Nat) : Inv (create true true n) :=
  inv_empty rfl rfl (2 ^ orderOf n) rfl rfl rfl rfl rfl

/-- result of `destroy` (followed by the harness creating a fresh table) without open iterators -/
theorem destroy_eq {t : HT} (h : Inv t) (hi : t.iters = []) :
    ∃ t', HT.destroyNodes (t.flat.map (·.id)) t [] =
        some (t', t.flat.flatMap fun x => t.notify x EV_DELETED x.key x.val 0) ∧
      t'.order = t.order ∧ t'.fix14 = t.fix14 ∧ t'.fix15 = t.fix15 ∧ t'.crashed = t.crashed := by
  have hrc : ∀ x ∈ t.flat, x.refcount = 1 := by
    intro x hx
    have h1 := h.rc x hx
    have h2 : parked t.iters x.id = 0 := by rw [hi]; rfl
    cases hr : x.removed with
    | true => have := h.zombie x hx hr; omega
    | false => unfold base at h1; simp [hr] at h1; omega
  obtain ⟨t', h1, h2, h3, h4, _, h6, _⟩ := destroyNodes_eq t.flat t [] rfl h.idsNodup hrc
  exact ⟨t', by simpa using h1, h2, h3, h4, h6⟩

theorem iterNext_none {t : HT} {k : Nat} (hl : t.iters.lookup k = none) : t.iterNext k = none := by
  unfold HT.iterNext; rw [hl]

theorem iterFree_none {t : HT} {k : Nat} (hl : t.iters.lookup k = none) : t.iterFree k = none := by
  unfold HT.iterFree; rw [hl]

/-- every operation preserves the invariant and never touches freed memory -/
theorem step_inv {t : HT} (h : Inv t) (op : Op) :
    Inv (t.step op).1 ∧ (t.step op).2.res ≠ .uaf ∧ (t.step op).2.res ≠ .diverge := by
  unfold HT.step
  rw [if_neg (by rw [h.notCrashed]; simp)]
  cases op with
  | put k v l => exact ⟨put_inv h k v, by simp, by simp⟩
  | get k => exact ⟨h, by simp, by simp⟩
  | rm k =>
    simp only [rm_eq h]
    cases hl : t.lookup k with
    | none => exact ⟨h, by simp, by simp⟩
    | some n =>
      obtain ⟨hn, hr, _⟩ := h.lookup_some hl
      exact ⟨rmResult_inv h hn hr, by simp, by simp⟩
  | count => exact ⟨h, by simp, by simp⟩
  | foreach stop pfx =>
    simp only [foreach_eq h.wf stop]
    exact ⟨h, by simp, by simp⟩
  | nadd k events id => exact ⟨notifyAdd_inv h k events id, by simp, by simp⟩
  | ndel k events id => exact ⟨notifyDel_inv h k events id, by simp, by simp⟩
  | destroy =>
    simp only
    by_cases hi : t.iters = []
    · obtain ⟨t', h1, h2, h3, h4, h5⟩ := destroy_eq h hi
      simp only [hi, List.isEmpty_nil, Bool.not_true, Bool.false_eq_true, ite_false, h1]
      refine ⟨?_, by simp, by simp⟩
      exact inv_empty (h3.trans h.fix14) (h4.trans h.fix15) t.buckets.length rfl
        (by show t.buckets.length = 2 ^ t'.order; rw [h2]; exact h.len) rfl rfl (h5.trans h.notCrashed)
    · have : (!t.iters.isEmpty) = true := by
        cases hq : t.iters with
        | nil => exact absurd hq hi
        | cons a l => rfl
      simp only [this, ite_true]
      exact ⟨h, by simp, by simp⟩
  | iterNew i pfx =>
    simp only
    cases hl : t.iters.lookup (i + 1) with
    | none =>
      simp only [Option.isSome_none, Bool.false_eq_true, ite_false]
      exact ⟨iterCreate_inv h (by omega) hl, by simp, by simp⟩
    | some it =>
      simp only [Option.isSome_some, ite_true]
      exact ⟨h, by simp, by simp⟩
  | iterNext i =>
    simp only
    cases hl : t.iters.lookup (i + 1) with
    | none =>
      rw [iterNext_none hl]
      exact ⟨h, by simp, by simp⟩
    | some it =>
      obtain ⟨dec, hd, hdm⟩ := h.parkedNode hl
      rw [iterNext_eq h hl hd hdm]
      exact nextResult_inv h hl hd hdm
  | iterFree i =>
    simp only
    cases hl : t.iters.lookup (i + 1) with
    | none =>
      rw [iterFree_none hl]
      exact ⟨h, by simp, by simp⟩
    | some it =>
      obtain ⟨dec, hd, hdm⟩ := h.parkedNode hl
      rw [iterFree_eq h hl hd hdm]
      exact ⟨freeResult_inv h hl hd hdm, by simp [freeResult], by simp [freeResult]⟩

theorem runFrom_inv : ∀ (ops : List Op) {t : HT}, Inv t →
    Inv (t.runFrom ops).1 ∧ ∀ o ∈ (t.runFrom ops).2, o.res ≠ .uaf ∧ o.res ≠ .diverge
  | [], _, h => ⟨h, by intro o ho; cases ho⟩
  | op :: ops, t, h => by
    obtain ⟨h1, h2, h3⟩ := step_inv h op
    obtain ⟨h4, h5⟩ := runFrom_inv ops h1
    refine ⟨h4, ?_⟩
    intro o ho
    rcases List.mem_cons.1 ho with rfl | ho
    · exact ⟨h2, h3⟩
    · exact h5 o ho

end QbVerif.Hashtable
