/-
C03 — server side: the stable configurations of a slot between two handler runs, and what the
death of the client (POLLHUP / POLLNVAL / end-of-file on the setup socket) does to each of them.

All statements are about the executable model `Model/IpcLife.lean` and quantify over every
environment answer (`Env`), every log prefix and call count, both transports, and — for the
socket transport — every combination of already-connected datagram channels.
-/
import QbVerif.Model.IpcLife

namespace QbVerif.IpcLife

/-- application callbacks about the life of a connection (not `msg_process`) -/
def isCb : Ev → Bool
  | .accept | .created | .closed | .destroyed => true
  | _ => false

/-- the life-cycle callbacks in a log, newest first -/
def cbsOf (lg : List Ev) : List Ev := lg.filter isCb

def Slot.cbs (s : Slot) : List Ev := cbsOf s.log

/-- ledger of an established shm connection, in the order `handle_new_connection` acquires it -/
def shmLed : List Res :=
  [.regSetup,
   .mapData .evt, .fileData .evt, .mapHdr .evt, .fileHdr .evt, .heapRb .evt,
   .mapData .resp, .fileData .resp, .mapHdr .resp, .fileHdr .resp, .heapRb .resp,
   .mapData .req, .fileData .req, .mapHdr .req, .fileHdr .req, .heapRb .req,
   .dir, .heapBuf, .svcRefConn, .heapConn, .fdSetup]

/-- ledger of an established socket connection; `nr` / `ne`: the `sock_name` of the response /
    event channel is still allocated (released by the first send on that channel) -/
def sockLed (nr ne : Bool) : List Res :=
  [.regSetup, .regReq] ++ (if ne then [.heapName .evt] else []) ++ [.fdEvt] ++
  (if nr then [.heapName .resp] else []) ++
  [.fdReq, .mapCtl, .fileCtl, .dir, .heapBuf, .svcRefConn, .heapConn, .fdSetup]

def estLed : Transport → Bool → Bool → List Res
  | .shm, _, _ => shmLed
  | .sock, nr, ne => sockLed nr ne

/-- handshake pending, `n` bytes received; `lg`, `nc` arbitrary -/
def mkAuth (n : Nat) (lg : List Ev) (nc : Nat) : Slot :=
  { phase := .auth n, led := authLedger, log := lg, ncalls := nc }

/-- established connection; statistics, log and call count arbitrary -/
def mkEst (t : Transport) (nr ne : Bool) (a b c : Nat) (lg : List Ev) (nc : Nat) : Slot :=
  { phase := .conn, st := .established, refc := 1, inList := true, led := estLed t nr ne,
    statActiveInc := a, statActiveDec := b, statClosed := c, log := lg, ncalls := nc }

/-- everything of the slot is released and nothing was released twice -/
structure Clean (s : Slot) : Prop where
  phase : s.phase = .gone
  led : s.led = []
  bad : s.bad = false
  inList : s.inList = false
  refc : s.refc = 0

/-! ### the model really reaches these configurations -/

theorem acceptSlot_eq : acceptSlot = mkAuth 0 acceptSlot.log 5 ∧ cbsOf acceptSlot.log = [] := ⟨rfl, rfl⟩

/-! ### death of the client while the handshake is pending -/

theorem processAuth_hup (t : Transport) (i : AuthIn) (env : Env) (n : Nat) (lg : List Ev) (nc : Nat)
    (h : i.nval = true ∨ i.hup = true) :
    Clean (processAuth t i env (mkAuth n lg nc)) ∧
      (processAuth t i env (mkAuth n lg nc)).cbs = cbsOf lg := by
  have h' : (i.nval || i.hup) = true := by cases h <;> simp [*]
  simp only [processAuth, mkAuth, h', if_true]
  exact ⟨⟨rfl, rfl, rfl, rfl, rfl⟩, rfl⟩

/-- end of file with no further byte: `recvmsg` returns 0 -/
theorem processAuth_eof (t : Transport) (i : AuthIn) (env : Env) (n : Nat) (lg : List Ev) (nc : Nat)
    (hnv : i.nval = false) (hh : i.hup = false) (hp : i.pollin = true) (ha : i.avail = 0)
    (he : i.eof = true) :
    Clean (processAuth t i env (mkAuth n lg nc)) ∧
      (processAuth t i env (mkAuth n lg nc)).cbs = cbsOf lg := by
  simp only [processAuth, mkAuth, hnv, hh, hp, ha, he, Bool.or_self, Bool.not_true, Nat.zero_min,
    Bool.false_eq_true, if_false, if_true, beq_self_eq_true]
  exact ⟨⟨rfl, rfl, rfl, rfl, rfl⟩, rfl⟩

/-- end of file after an incomplete record -/
theorem processAuth_partial_eof (t : Transport) (i : AuthIn) (env : Env) (n : Nat) (lg : List Ev) (nc : Nat)
    (hnv : i.nval = false) (hh : i.hup = false) (hp : i.pollin = true) (ha0 : 0 < i.avail)
    (ha : n + i.avail < AUTH_LEN) (he : i.eof = true) :
    Clean (processAuth t i env (mkAuth n lg nc)) ∧
      (processAuth t i env (mkAuth n lg nc)).cbs = cbsOf lg := by
  have hm : min i.avail (AUTH_LEN - n) = i.avail := by
    apply Nat.min_eq_left; unfold AUTH_LEN at *; omega
  have h0 : (i.avail == 0) = false := by
    cases hb : (i.avail == 0)
    · rfl
    · have := beq_iff_eq.mp hb; omega
  simp only [processAuth, mkAuth, hnv, hh, hp, he, hm, h0, ha, Bool.or_self, Bool.not_true,
    Bool.false_eq_true, if_false, if_true]
  exact ⟨⟨rfl, rfl, rfl, rfl, rfl⟩, rfl⟩

/-- an incomplete record without end of file keeps the handshake pending with the same ledger -/
theorem processAuth_partial (t : Transport) (i : AuthIn) (env : Env) (n : Nat) (lg : List Ev) (nc : Nat)
    (hnv : i.nval = false) (hh : i.hup = false) (hp : i.pollin = true) (ha0 : 0 < i.avail)
    (ha : n + i.avail < AUTH_LEN) (he : i.eof = false) :
    let s' := processAuth t i env (mkAuth n lg nc)
    s' = mkAuth (n + i.avail) s'.log s'.ncalls ∧ cbsOf s'.log = cbsOf lg := by
  have hm : min i.avail (AUTH_LEN - n) = i.avail := by
    apply Nat.min_eq_left; unfold AUTH_LEN at *; omega
  have h0 : (i.avail == 0) = false := by
    cases hb : (i.avail == 0)
    · rfl
    · have := beq_iff_eq.mp hb; omega
  simp only [processAuth, mkAuth, hnv, hh, hp, he, hm, h0, ha, Bool.or_self, Bool.not_true,
    Bool.false_eq_true, if_false, if_true]
  exact ⟨rfl, rfl⟩

/-! ### death of the client of an established connection -/

set_option maxRecDepth 8000 in
set_option maxHeartbeats 4000000 in
/-- `qb_ipcs_disconnect` on an established connection releases everything, runs `closed` then
    `destroyed` (nothing else), moves one connection from active to closed in the statistics -/
theorem connDisconnect_est (t : Transport) (nr ne : Bool) (a b c : Nat) (lg : List Ev) (nc : Nat) :
    Clean (connDisconnect t (mkEst t nr ne a b c lg nc)) ∧
    (connDisconnect t (mkEst t nr ne a b c lg nc)).cbs = .destroyed :: .closed :: cbsOf lg ∧
    (connDisconnect t (mkEst t nr ne a b c lg nc)).statActiveInc = a ∧
    (connDisconnect t (mkEst t nr ne a b c lg nc)).statActiveDec = b + 1 ∧
    (connDisconnect t (mkEst t nr ne a b c lg nc)).statClosed = c + 1 := by
  cases t <;> cases nr <;> cases ne <;>
    (refine ⟨⟨?_, ?_, ?_, ?_, ?_⟩, ?_, ?_, ?_, ?_⟩ <;>
      simp [connDisconnect, transportDisconnect, shmDisconnect, sockDisconnect, rbCloseCreator, Slot.call,
        Slot.rel, Slot.relSoft, Slot.acq, Slot.holds, Slot.removeTempdir, Slot.hasFile, connUnref, Slot.ev,
        Slot.sockClose, mkEst, estLed, shmLed, sockLed, Res.kind, Slot.cbs, cbsOf, isCb, List.filter])

theorem dispatch_of_hup (t : Transport) (i : DispIn) (env : Env) (s : Slot)
    (hp : s.phase = .conn) (h : i.nval = true ∨ i.hup = true) :
    dispatch t i env s = (connDisconnect t s, .disconnected, 0) := by
  have h' : (i.nval || i.hup) = true := by cases h <;> simp [*]
  unfold dispatch
  simp [hp, h']

theorem dispatchResume_of_hup (t : Transport) (need bytes : Nat) (s : Slot) (hp : s.phase = .conn) :
    dispatchResume t need bytes true s = (connDisconnect t s, .disconnected, 0) := by
  unfold dispatchResume
  simp [hp]

theorem liveness_of_hup (t : Transport) (nval hup pollin eof : Bool) (s : Slot) (hp : s.phase = .conn)
    (h : nval = true ∨ hup = true) : liveness t nval hup pollin eof s = connDisconnect t s := by
  have h' : (nval || hup) = true := by cases h <;> simp [*]
  unfold liveness
  simp [hp, h']

/-- socket transport: end of file on the setup socket (`recv` returns 0) -/
theorem liveness_of_eof (t : Transport) (s : Slot) (hp : s.phase = .conn) :
    liveness t false false true true s = connDisconnect t (s.call .recv) := by
  unfold liveness
  simp [hp]

/-- shm transport: end of file on the setup socket with no request queued -/
theorem dispatch_shm_of_eof (i : DispIn) (env : Env) (s : Slot) (hp : s.phase = .conn)
    (hnv : i.nval = false) (hh : i.hup = false) (hr : i.reqs = []) (hb : i.bytes = 0) (he : i.eof = true) :
    dispatch .shm i env s = (connDisconnect .shm ((s.call .sem_getvalue).call .recv), .disconnected, 0) := by
  unfold dispatch
  simp [hp, hnv, hh, hr, hb, he]

/-- a `call` entry does not change what `mkEst` fixes -/
theorem mkEst_call (t : Transport) (nr ne : Bool) (a b c : Nat) (lg : List Ev) (nc : Nat) (k : Call) :
    (mkEst t nr ne a b c lg nc).call k = mkEst t nr ne a b c (.call k :: lg) (nc + 1) := rfl

theorem cbsOf_call (k : Call) (lg : List Ev) : cbsOf (.call k :: lg) = cbsOf lg := rfl

theorem cbsOf_msg (id arg : Nat) (evs : List Bool) (r : Option Bool) (lg : List Ev) :
    cbsOf (.msg id arg evs r :: lg) = cbsOf lg := rfl

end QbVerif.IpcLife
