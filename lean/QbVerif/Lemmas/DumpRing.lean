/-
Ring-level facts used by property C15 (no representation invariant needed): what one successful
`qb_rb_chunk_read` does to an arbitrary — possibly hostile — ring memory.  The termination
measure of the record loop is the number of words of the ring that hold the chunk magic: a
successful read turns one of them into `DEAD` and creates none.
-/
import QbVerif.Model.Dump
import QbVerif.Lemmas.RingMem

namespace QbVerif.DumpLemmas
open QbVerif.Ring QbVerif.Dump QbVerif.RingLemmas

/-- number of word positions of the ring holding `QB_RB_CHUNK_MAGIC` -/
def magicCount (m : Array Nat) (W : Nat) : Nat := (List.range W).countP (fun p => decide (rd32 m p = MAGIC))

theorem magicCount_le (m : Array Nat) (W : Nat) : magicCount m W ≤ W := by
  unfold magicCount
  exact Nat.le_trans List.countP_le_length (by simp)

theorem countP_lt_of_imp {α : Type} (p q : α → Bool) :
    ∀ (l : List α), (∀ x ∈ l, q x = true → p x = true) → (∃ x ∈ l, p x = true ∧ q x = false) →
      l.countP q < l.countP p
  | [], _, ⟨x, hx, _⟩ => by cases hx
  | a :: l, himp, ⟨x, hx, hpx, hqx⟩ => by
    have hle : l.countP q ≤ l.countP p := by
      have h1 : ∀ (l' : List α), (∀ y ∈ l', q y = true → p y = true) → l'.countP q ≤ l'.countP p := by
        intro l'
        induction l' with
        | nil => intro _; simp
        | cons b t ih =>
          intro h
          have hb := h b (by simp)
          have ht := ih (fun y hy => h y (by simp [hy]))
          simp only [List.countP_cons]
          cases hq : q b <;> cases hp : p b <;> simp_all <;> omega
      exact h1 l (fun y hy => himp y (by simp [hy]))
    simp only [List.countP_cons]
    rcases List.mem_cons.mp hx with rfl | hxl
    · simp [hpx, hqx]; omega
    · have ih := countP_lt_of_imp p q l (fun y hy => himp y (by simp [hy])) ⟨x, hxl, hpx, hqx⟩
      have ha := himp a (by simp)
      cases hq : q a <;> cases hp : p a <;> simp_all <;> omega

theorem rd32_wr32_eq {m : Array Nat} {W p v : Nat} (hs : m.size = 4 * W) (hp : p < W) :
    rd32 (wr32 m p v) p = v % 2 ^ 32 := by
  have h := word_setWord_eq (m := m) (W := W) (A := p) (v := v) hs (by omega)
  simpa [word, setWord, Nat.mod_eq_of_lt hp] using h

theorem rd32_wr32_ne {m : Array Nat} {W p q v : Nat} (hp : p < W) (hq : q < W) (hne : p ≠ q) :
    rd32 (wr32 m q v) p = rd32 m p := by
  have h := word_setWord_ne (m := m) (W := W) (A := p) (B := q) (v := v) (by omega)
    (by unfold Apart; omega)
  simpa [word, setWord, Nat.mod_eq_of_lt hp, Nat.mod_eq_of_lt hq] using h

/-- what the ring needs for the reader to stay inside it: sizes consistent, the read pointer a
    word index, no semaphore, and the ring at least as large as the chunk buffer -/
structure RInv (r : Rb) : Prop where
  size : r.mem.size = 4 * r.W
  big : CHUNK_BUF ≤ 4 * r.W
  rp : r.rp < r.W
  sem : r.sem = none

theorem RInv.wpos {r : Rb} (h : RInv r) : 0 < r.W := by
  have := h.big
  have : CHUNK_BUF = 1024 := by decide
  omega

/-- the memory after a successful `_rb_chunk_reclaim` -/
theorem reclaim_count {m : Array Nat} {W rp : Nat} (hs : m.size = 4 * W) (hrp : rp < W)
    (hmag : rd32 m ((rp + 1) % W) = MAGIC) :
    magicCount (wr32 (wr32 m rp 0) ((rp + 1) % W) DEAD) W < magicCount m W := by
  have hW : 0 < W := by omega
  have hk : (rp + 1) % W < W := Nat.mod_lt _ hW
  have hs' : (wr32 m rp 0).size = 4 * W := by simp [hs]
  unfold magicCount
  apply countP_lt_of_imp
  · intro p hp hq
    have hpW : p < W := List.mem_range.mp hp
    simp only [decide_eq_true_eq] at hq ⊢
    by_cases h1 : p = (rp + 1) % W
    · subst h1
      rw [rd32_wr32_eq hs' hk] at hq
      exact absurd hq (by decide)
    · rw [rd32_wr32_ne hpW hk h1] at hq
      by_cases h2 : p = rp
      · subst h2
        rw [rd32_wr32_eq hs hrp] at hq
        exact absurd hq (by decide)
      · rwa [rd32_wr32_ne hpW hrp h2] at hq
  · refine ⟨(rp + 1) % W, List.mem_range.mpr hk, by simpa using hmag, ?_⟩
    simp only [decide_eq_false_iff_not]
    rw [rd32_wr32_eq hs' hk]
    decide

/-- one successful `qb_rb_chunk_read` on a ring without semaphore -/
theorem read_ok {r r' : Rb} {cap : Nat} {chunk : List Nat} (h : RInv r)
    (hr : r.read cap = (r', .ok chunk)) :
    r'.W = r.W ∧ r'.mem.size = 4 * r.W ∧ r'.rp < r.W ∧ r'.sem = none ∧ chunk.length ≤ cap ∧
      magicCount r'.mem r.W < magicCount r.mem r.W := by
  have hW := h.wpos
  have hsem := h.sem
  have hread : r.read cap = if r.magic r.rp ≠ MAGIC then (r, .error .etimedout)
      else if cap < rd32 r.mem r.rp then (r.post, .error .enobufs)
      else ((r.reclaim).1, .ok (r.copyOut r.rp (rd32 r.mem r.rp))) := by
    unfold Rb.read Rb.tryWait
    rw [hsem]
    simp only [hsem]
  rw [hread] at hr
  by_cases hm : r.magic r.rp ≠ MAGIC
  · rw [if_pos hm] at hr
    exact absurd (congrArg Prod.snd hr) (by intro h; cases h)
  · rw [if_neg hm] at hr
    have hm' : r.magic r.rp = MAGIC := Decidable.of_not_not hm
    by_cases hc : cap < rd32 r.mem r.rp
    · rw [if_pos hc] at hr
      exact absurd (congrArg Prod.snd hr) (by intro h; cases h)
    · rw [if_neg hc] at hr
      have hrec : r.reclaim = (({ ({ r with mem := wr32 r.mem r.rp 0 } : Rb).setMagic r.rp DEAD with
          rp := r.chunkStep r.rp } : Rb), true) := by
        unfold Rb.reclaim
        rw [if_neg hm]
      rw [hrec] at hr
      simp only [Prod.mk.injEq, Except.ok.injEq] at hr
      obtain ⟨hr1, hr2⟩ := hr
      subst hr1
      subst hr2
      refine ⟨?_, ?_, ?_, ?_, ?_, ?_⟩
      · simp only [Rb.setMagic]
      · simp only [Rb.setMagic, size_wr32, h.size]
      · show r.chunkStep r.rp < r.W
        unfold Rb.chunkStep
        rw [idxStep_eq hW]
        exact Nat.mod_lt _ hW
      · simp only [Rb.setMagic]; exact hsem
      · simp only [Rb.copyOut, List.length_map, List.length_range]; omega
      · simp only [Rb.setMagic]
        have hm2 : rd32 r.mem ((r.rp + 1) % r.W) = MAGIC := hm'
        exact reclaim_count h.size h.rp hm2

theorem read_ok_inv {r r' : Rb} {cap : Nat} {chunk : List Nat} (h : RInv r)
    (hr : r.read cap = (r', .ok chunk)) : RInv r' := by
  obtain ⟨hW, hs, hrp, hsem, _, _⟩ := read_ok h hr
  exact ⟨by rw [hs, hW], by rw [hW]; exact h.big, by rw [hW]; exact hrp, hsem⟩

/-- inside the ring `chunkRead` is `qb_rb_chunk_read` of the sequential ring model -/
theorem chunkRead_eq {r : Rb} (h : RInv r) : chunkRead r CHUNK_BUF = .ok (r.read CHUNK_BUF) := by
  have hW := h.wpos
  have hrp := h.rp
  have hbig := h.big
  have hmod : r.rp % r.W = r.rp := Nat.mod_eq_of_lt hrp
  have heta : ({ r with rp := r.rp } : Rb) = r := by cases r; rfl
  unfold chunkRead
  by_cases hm : r.magic r.rp ≠ MAGIC
  · rw [if_pos hm]
    unfold Rb.read Rb.tryWait
    rw [h.sem]
    simp only [h.sem]
    rw [if_pos hm]
  · rw [if_neg hm, if_neg (by omega)]
    simp only [hmod]
    have hlt : (r.rp + HDRW) % r.W < r.W := Nat.mod_lt _ hW
    rw [if_neg (by omega)]

end QbVerif.DumpLemmas
