/-
C08: the generic walk through Model/Loop.lean.  A state predicate that is kept by the PRIMITIVE steps of
the model (an API call, the bookkeeping lines of the four dispatch functions, the pop of
qb_loop_run_level, one epoll event, the top of the loop body) is kept by every composite function —
scripts of callbacks, dispatch, qb_loop_run_level, the level loop, one iteration, a protocol line, a whole
history.  `okOp` restricts the API operations that may occur (in lines and in scripts); `okOp := fun _ =>
True` for the unconditional theorems.  Core Lean only.
-/
import QbVerif.Lemmas.LoopFields

namespace QbVerif.Loop

structure Stable (P : St → Prop) (okOp : Op → Prop) : Prop where
  scriptsOk : ∀ s, P s → ∀ e ∈ s.scripts, ∀ o ∈ e.2.ops, okOp o
  api : ∀ s n op, okOp op → P s → P (s.api n op).1
  setScripts : ∀ s id (sc : Script), (∀ o ∈ sc.ops, okOp o) → P s → P { s with scripts := assoc s.scripts id sc }
  freedCons : ∀ s a, P s → P { s with freed := a :: s.freed }
  abort : ∀ s w, P s → P { s with fault := some w }
  timerPre : ∀ s i, P s → P (s.setTimer i { s.timerSlot i with check := 0 })
  timerPost : ∀ s i, P s → P (s.setTimer i { s.timerSlot i with state := .empty })
  fdNeg : ∀ s i, P s → P (s.setPe i (s.pe i).markDeleted)
  fdBack : ∀ s i, P s → P (s.setPe i { s.pe i with state := .active, revents := 0 })
  sigDel : ∀ s reg, P s → P (s.sigDel reg).1
  pop : ∀ s p it rest, (s.lv p).jobs = it :: rest → P s →
    P { s.setLv p { s.lv p with jobs := rest } with dlog := (it, s.regCheck it) :: s.dlog }
  todoDec : ∀ s p, P s → P (s.setLv p { s.lv p with todo := (s.lv p).todo - 1 })
  setRemaining : ∀ s r, P s → P { s with remaining := r }
  enterRun : ∀ s, P s → P { s with inRun := true, stop := false, pstop := Gen.QB_LOOP_LOW, remaining := 0 }
  leaveRun : ∀ s, P s → P { s with inRun := false }
  beginIter : ∀ s, P s → P s.beginIteration
  pollEvent : ∀ s r rev, P s → P (s.pollEvent r rev).1

theorem lookup_some_mem {α : Type} {l : List (Nat × α)} {k : Nat} {v : α} (h : lookup l k = some v) :
    ∃ e ∈ l, e.2 = v := by
  unfold lookup at h
  split at h
  · rename_i e he
    exact ⟨e, List.mem_of_find?_eq_some he, by simpa using h⟩
  · cases h

variable {P : St → Prop} {okOp : Op → Prop}

theorem Stable.apisAux (st : Stable P okOp) (n : Bool) (ops : List Op) (hok : ∀ o ∈ ops, okOp o) :
    ∀ (acc : St × List Ev), P acc.1 →
    P (ops.foldl (fun (acc : St × List Ev) op => let (s1, e) := acc.1.api n op; (s1, acc.2 ++ e)) acc).1 := by
  induction ops with
  | nil => intro acc h; exact h
  | cons o os ih =>
    intro acc h
    simp only [List.foldl_cons]
    apply ih (fun o' ho' => hok o' (List.mem_cons_of_mem _ ho'))
    exact st.api _ n o (hok o List.mem_cons_self) h

theorem Stable.apis (st : Stable P okOp) (s : St) (n : Bool) (ops : List Op) (hok : ∀ o ∈ ops, okOp o)
    (h : P s) : P (s.apis n ops).1 :=
  st.apisAux n ops hok (s, []) h

theorem Stable.runScript (st : Stable P okOp) (s : St) (id : Nat) (h : P s) : P (s.runScript id).1 := by
  unfold St.runScript
  split
  · exact h
  · rename_i sc hsc
    obtain ⟨e, he, rfl⟩ := lookup_some_mem hsc
    have hok := st.scriptsOk s h e he
    have h1 : P { s with scripts := assoc s.scripts id { e.2 with runs := e.2.runs + 1 } } :=
      st.setScripts s id _ hok h
    dsimp only
    split
    · split
      · exact h1
      · exact st.apis _ true _ hok h1
    · exact st.apis _ true _ hok h1

/-! the state part of the four dispatch functions, with the steps named -/

def St.abortUnless (s : St) (ok : Bool) : St :=
  if !ok && s.fault.isNone then { s with fault := some "abort" } else s

def St.fdAfter (s1 : St) (i : Nat) (res : Int) : St :=
  if res < 0 then s1.setPe i (s1.pe i).markDeleted
  else if (s1.pe i).state != .deleted then s1.setPe i { s1.pe i with state := .active, revents := 0 }
  else s1

def St.sigDelIf (s1 : St) (reg : Nat) (res : Int) : St :=
  if res ≠ 0 && s1.fault.isNone then (s1.sigDel reg).1 else s1

def St.freeIfOk (s2 : St) (cid : Nat) : St :=
  { s2 with freed := if s2.fault.isNone then cid :: s2.freed else s2.freed }

theorem dispatch_job (s : St) (aid d : Nat) :
    (s.dispatch (.job aid d)).1 = { (s.runScript d).1 with freed := aid :: (s.runScript d).1.freed } := rfl

theorem dispatch_timer (s : St) (i : Nat) :
    (s.dispatch (.timer i)).1 =
      let s1 := (s.abortUnless ((s.timerSlot i).state == .joblist)).setTimer i { s.timerSlot i with check := 0 }
      let s2 := (s1.runScript (s.timerSlot i).data).1
      s2.setTimer i { s2.timerSlot i with state := .empty } := by
  simp only [St.dispatch, St.abortUnless]
  cases (s.timerSlot i).state <;> rfl

theorem dispatch_fd (s : St) (i : Nat) :
    (s.dispatch (.fd i)).1 =
      let r := (s.abortUnless ((s.pe i).state == .joblist)).runScript (s.pe i).data
      r.1.fdAfter i r.2.1 := by
  simp only [St.dispatch, St.abortUnless, St.fdAfter]
  cases (s.pe i).state <;> rfl

theorem dispatch_sig (s : St) (cid reg sg d : Nat) :
    (s.dispatch (.sig cid reg sg d)).1 = ((s.runScript d).1.sigDelIf reg (s.runScript d).2.1).freeIfOk cid := rfl

theorem abortUnless_timerSlot (s : St) (ok : Bool) (i : Nat) : (s.abortUnless ok).timerSlot i = s.timerSlot i := by
  unfold St.abortUnless; split <;> rfl

theorem Stable.abortUnless (st : Stable P okOp) (s : St) (ok : Bool) (h : P s) : P (s.abortUnless ok) := by
  unfold St.abortUnless; split
  · exact st.abort s _ h
  · exact h

theorem Stable.freeIfOk (st : Stable P okOp) (s : St) (cid : Nat) (h : P s) : P (s.freeIfOk cid) := by
  unfold St.freeIfOk
  cases hf : s.fault.isNone
  · exact h
  · exact st.freedCons s cid h

theorem Stable.dispatch (st : Stable P okOp) (s : St) (it : Item) (h : P s) : P (s.dispatch it).1 := by
  cases it with
  | job aid d =>
    rw [dispatch_job]
    exact st.freedCons _ aid (st.runScript s d h)
  | timer i =>
    rw [dispatch_timer]
    dsimp only
    apply st.timerPost
    apply st.runScript
    have := st.timerPre _ i (st.abortUnless s ((s.timerSlot i).state == .joblist) h)
    rwa [abortUnless_timerSlot] at this
  | fd i =>
    rw [dispatch_fd]
    dsimp only
    have h1 := st.runScript _ (s.pe i).data (st.abortUnless s ((s.pe i).state == .joblist) h)
    unfold St.fdAfter
    split
    · exact st.fdNeg _ i h1
    · split
      · exact st.fdBack _ i h1
      · exact h1
  | sig cid reg sg d =>
    rw [dispatch_sig]
    apply st.freeIfOk
    unfold St.sigDelIf
    split
    · exact st.sigDel _ reg (st.runScript s d h)
    · exact st.runScript s d h

end QbVerif.Loop
