/-
Hashtable model, history level of C18, part 5: `hashtable_iter_next` preserves the relation `R`
(the monitor raises neither `twice` nor `incomplete`), hence every operation does (`R.step`), hence
every history (`R.run`).
-/
import QbVerif.Lemmas.HtIterHist4

namespace QbVerif.Hashtable
open QbVerif.Map QbVerif.Map.IterMon
set_option linter.unusedSimpArgs false

theorem updWatch_mem {ws : List Watch} {i : Nat} {f : Watch → Watch} {w' : Watch} (h : w' ∈ updWatch ws i f) :
    ∃ w ∈ ws, w' = if w.id == i then f w else w := by
  unfold updWatch at h
  obtain ⟨w, hw, rfl⟩ := List.mem_map.1 h
  exact ⟨w, hw, rfl⟩

theorem step_next_nofind (m : Mon) (i : Nat) (res : Res) (h : m.watches.find? (·.id == i) = none) :
    IterMon.step m (.iterNext i) res = m1 m (.iterNext i) res := by
  simp only [IterMon.step, m1, h]

theorem step_next_bad (m : Mon) (i : Nat) :
    IterMon.step m (.iterNext i) .badIter = m1 m (.iterNext i) .badIter := by
  simp only [IterMon.step, m1]
  cases m.watches.find? (·.id == i) <;> rfl

theorem step_next_some (m : Mon) (i : Nat) (k : Key) (v : Val) (w : Watch)
    (h : m.watches.find? (·.id == i) = some w) :
    (IterMon.step m (.iterNext i) (.item (some (k, v)))).dict = (m.dict.step (.iterNext i)).1 ∧
    (IterMon.step m (.iterNext i) (.item (some (k, v)))).watches =
      updWatch m.watches i (fun w => { w with returned := k :: w.returned }) ∧
    (IterMon.step m (.iterNext i) (.item (some (k, v)))).flags.incomplete = m.flags.incomplete ∧
    ((!w.inserted && w.returned.contains k) = false →
      (IterMon.step m (.iterNext i) (.item (some (k, v)))).flags.twice = m.flags.twice) := by
  simp only [IterMon.step, h]
  refine ⟨trivial, trivial, ?_, ?_⟩
  · simp only [apply_ite Flags.incomplete, ite_self]
  · intro hc
    simp only [hc, Bool.false_eq_true, ite_false, apply_ite Flags.twice, ite_self]

theorem step_next_end (m : Mon) (i : Nat) (w : Watch) (h : m.watches.find? (·.id == i) = some w) :
    (IterMon.step m (.iterNext i) (.item none)).dict = (m.dict.step (.iterNext i)).1 ∧
    (IterMon.step m (.iterNext i) (.item none)).watches =
      updWatch m.watches i (fun w => { w with ended := true }) ∧
    (IterMon.step m (.iterNext i) (.item none)).flags.twice = m.flags.twice ∧
    (w.stable.all (w.returned.contains ·) = true →
      (IterMon.step m (.iterNext i) (.item none)).flags.incomplete = m.flags.incomplete) := by
  simp only [IterMon.step, h]
  refine ⟨trivial, trivial, ?_, ?_⟩
  · simp only [apply_ite Flags.twice, ite_self]
  · intro hc
    simp only [hc, ite_true, apply_ite Flags.incomplete, ite_self]

theorem R.iterNext {t : HT} {m : Mon} (r : R t m) (i : Nat) :
    R (t.step (.iterNext i)).1 (IterMon.step m (.iterNext i) (t.step (.iterNext i)).2.res) := by
  have hI := (step_inv r.inv (.iterNext i)).1
  have hS := (sim_step r.inv r.sim (.iterNext i)).sim
  have hstep := step_eq r.inv (.iterNext i)
  simp only at hstep
  cases hl : t.iters.lookup (i + 1) with
  | none =>
    rw [iterNext_none hl] at hstep
    simp only at hstep
    rw [hstep] at hI hS ⊢
    rw [step_next_bad]
    exact r.keep _ _ hI hS (MF.refl t) (fun _ _ => rfl)
  | some it =>
    obtain ⟨dec, hd, hdm⟩ := r.inv.parkedNode hl
    rw [iterNext_eq r.inv hl hd hdm] at hstep
    have hdec : ∀ np, dec = some np → np ∈ t.flat ∧ 0 < parked t.iters np.id := by
      intro np e
      exact ⟨mem_flat_of_bucket (hdm np e), parked_pos_of_mem (mem_of_lookup hl) (by rw [hd, e]; rfl)⟩
    have hp : ∀ p, it.node = some p → ∃ np ∈ t.bucketOf it.bucket, np.id = p := by
      intro p hp
      cases dec with
      | none => rw [hd] at hp; cases hp
      | some np => rw [hd] at hp; cases hp; exact ⟨np, hdm np rfl, rfl⟩
    -- watches of other iterators
    have hother : ∀ (it' : Iter) (inc : Option Node) (t' : HT), Inv t' →
        t' = (moveState t inc dec (setIter t.iters (i + 1) it')).1 →
        ∀ w ∈ m.watches, w.id ≠ i → WOK t' w := by
      intro it' inc t' hI' ht' w hw hne
      obtain ⟨g, q, mf⟩ := moveState_mf r.inv inc dec (setIter t.iters (i + 1) it') hdec
      rw [← ht'] at mf
      refine WOK.mf r.inv hI' mf (r.wok w hw) rfl ?_ (fun k hk => ⟨hk, fun _ _ _ _ f => f⟩) rfl (fun h => h)
      rw [ht', (moveState_misc _ _ _ _).2, lookup_setIter, if_neg (by omega)]
    unfold nextResult at hstep
    cases hs : scanBuckets t.eligible it.bucket (t.iterLists it) with
    | some bn =>
      obtain ⟨b', n⟩ := bn
      rw [hs] at hstep
      simp only at hstep
      rw [hstep] at hI hS ⊢
      simp only at hI hS ⊢
      cases hf : m.watches.find? (·.id == i) with
      | none =>
        rw [step_next_nofind m i _ hf]
        refine ⟨hI, hS, (m1_flags m (.iterNext i) _).1.trans r.inc, (m1_flags m (.iterNext i) _).2.trans r.tw, ?_⟩
        intro w hw
        refine hother _ _ _ hI rfl w hw ?_
        intro e
        have := List.find?_eq_none.1 hf w hw
        simp [e] at this
      | some w0 =>
        obtain ⟨e1, e2, e3, e4⟩ := step_next_some m i n.key n.val w0 hf
        have hw0 := List.mem_of_find?_eq_some hf
        have hw0i : w0.id = i := by simpa using List.find?_some hf
        obtain ⟨hnb, hen, _, ⟨pre, hpre, _⟩, _⟩ := iterLists_found r.inv.idsNodup r.inv.inBucket hp hs
        have hnf : n ∈ t.flat := mem_flat_of_bucket hnb
        have hnr : n.removed = false := by
          cases hr : n.removed with
          | false => rfl
          | true =>
            have hpos := r.inv.rcPos n hnf
            unfold HT.eligible at hen; simp [r.inv.fix14, hr] at hen
        have hc : (!w0.inserted && w0.returned.contains n.key) = false := by
          cases hins : w0.inserted with
          | true => rfl
          | false =>
            simp only [Bool.not_false, Bool.true_and]
            cases hcon : w0.returned.contains n.key with
            | false => rfl
            | true =>
              exfalso
              obtain ⟨it0, hl0, _, hE⟩ := r.wok w0 hw0
              rw [hw0i, hl] at hl0; cases hl0
              have hk : n.key ∈ w0.returned := by simpa using hcon
              exact hE hins n.key hk n (by rw [hpre]; simp) hnr rfl
        refine ⟨hI, by rw [e1]; exact hS, e3.trans r.inc, (e4 hc).trans r.tw, ?_⟩
        intro w' hw'
        rw [e2] at hw'
        obtain ⟨w, hw, rfl⟩ := updWatch_mem hw'
        by_cases hwi : w.id = i
        · simp only [hwi, beq_self_eq_true, ite_true]
          subst hwi
          exact WOK.next_some r.inv hI (r.wok w hw) hl hd hdm hs rfl rfl rfl rfl rfl
        · have : (w.id == i) = false := by simpa using hwi
          simp only [this, Bool.false_eq_true, ite_false]
          exact hother _ _ _ hI rfl w hw hwi
    | none =>
      rw [hs] at hstep
      simp only at hstep
      rw [hstep] at hI hS ⊢
      simp only at hI hS ⊢
      cases hf : m.watches.find? (·.id == i) with
      | none =>
        rw [step_next_nofind m i _ hf]
        refine ⟨hI, hS, (m1_flags m (.iterNext i) _).1.trans r.inc, (m1_flags m (.iterNext i) _).2.trans r.tw, ?_⟩
        intro w hw
        refine hother _ _ _ hI rfl w hw ?_
        intro e
        have := List.find?_eq_none.1 hf w hw
        simp [e] at this
      | some w0 =>
        obtain ⟨e1, e2, e3, e4⟩ := step_next_end m i w0 hf
        have hw0 := List.mem_of_find?_eq_some hf
        have hw0i : w0.id = i := by simpa using List.find?_some hf
        have hall : w0.stable.all (w0.returned.contains ·) = true := by
          have hl0 : t.iters.lookup (w0.id + 1) = some it := by rw [hw0i]; exact hl
          have := (WOK.next_none (w' := w0) r.inv hI (r.wok w0 hw0) hl0 hd hdm hs (by rw [hw0i]) rfl rfl rfl).2
          rw [List.all_eq_true]
          intro k hk
          simpa using this k hk
        refine ⟨hI, by rw [e1]; exact hS, (e4 hall).trans r.inc, e3.trans r.tw, ?_⟩
        intro w' hw'
        rw [e2] at hw'
        obtain ⟨w, hw, rfl⟩ := updWatch_mem hw'
        by_cases hwi : w.id = i
        · simp only [hwi, beq_self_eq_true, ite_true]
          subst hwi
          exact (WOK.next_none r.inv hI (r.wok w hw) hl hd hdm hs rfl rfl rfl rfl).1
        · have : (w.id == i) = false := by simpa using hwi
          simp only [this, Bool.false_eq_true, ite_false]
          exact hother _ _ _ hI rfl w hw hwi

/-- every operation preserves the relation between the table and the monitor -/
theorem R.step {t : HT} {m : Mon} (r : R t m) (op : Op) :
    R (t.step op).1 (IterMon.step m op (t.step op).2.res) := by
  cases op with
  | put k v l => exact r.put k v l
  | get k => exact r.simple _ (Or.inl ⟨k, rfl⟩)
  | rm k => exact r.rm k
  | count => exact r.simple _ (Or.inr (Or.inl rfl))
  | iterNew i pfx => exact r.iterNew i pfx
  | iterNext i => exact r.iterNext i
  | iterFree i => exact r.iterFree i
  | foreach stop pfx => exact r.simple _ (Or.inr (Or.inr (Or.inl ⟨stop, pfx, rfl⟩)))
  | nadd k ev id => exact r.simple _ (Or.inr (Or.inr (Or.inr (Or.inl ⟨k, ev, id, rfl⟩))))
  | ndel k ev id => exact r.simple _ (Or.inr (Or.inr (Or.inr (Or.inr ⟨k, ev, id, rfl⟩))))
  | destroy => exact r.destroy

theorem R.run : ∀ (ops : List Op) {t : HT} {m : Mon}, R t m →
    R (t.runFrom ops).1 (IterMon.runFrom m ops (t.runFrom ops).2)
  | [], _, _, r => r
  | op :: ops, t, m, r => by
    have h := R.run ops (r.step op)
    exact h

theorem R.init (size : Nat) : R (create true true size) (IterMon.init .ht) :=
  ⟨create_inv size, sim_create size, rfl, rfl, by intro w hw; cases hw⟩

end QbVerif.Hashtable
