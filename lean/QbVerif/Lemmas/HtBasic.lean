/-
Hashtable model (Model/Hashtable.lean): structural lemmas — buckets vs. the flat node list,
pointer dereference (`findNode`), `hashtable_lookup` as a search of the whole table, the
reference drop `nodeDeref`, and the bucket scan of `hashtable_iter_next`.
-/
import QbVerif.Lemmas.MapList
import QbVerif.Model.Hashtable

namespace QbVerif.Hashtable
open QbVerif.Map
set_option linter.unusedSimpArgs false

def HT.bucketOf (t : HT) (b : Nat) : List Node := t.buckets.getD b []

/-- `if x.id == id then f x else x` (the body of `mapNode`) -/
def upd (id : Nat) (f : Node → Node) (x : Node) : Node := if x.id == id then f x else x

def incRc (x : Node) : Node := { x with refcount := x.refcount + 1 }
def decRc (x : Node) : Node := { x with refcount := x.refcount - 1 }

theorem mapNode_buckets (t : HT) (id : Nat) (f : Node → Node) :
    (t.mapNode id f).buckets = t.buckets.map (·.map (upd id f)) := rfl

theorem flatten_map_map {α β} (bs : List (List α)) (g : α → β) :
    (bs.map (·.map g)).flatten = bs.flatten.map g := List.map_flatten.symm

theorem flatten_map_filter {α} (bs : List (List α)) (q : α → Bool) :
    (bs.map (·.filter q)).flatten = bs.flatten.filter q := List.filter_flatten.symm

theorem upd_id (id : Nat) (f : Node → Node) (hf : ∀ x, (f x).id = x.id) (x : Node) : (upd id f x).id = x.id := by
  unfold upd; split <;> simp [hf]

theorem mem_flat_of_bucket {t : HT} {b : Nat} {x : Node} (h : x ∈ t.bucketOf b) : x ∈ t.flat :=
  mem_flatten_of_getD h

theorem findNode_eq {t : HT} (hnd : (t.flat.map (·.id)).Nodup) {n : Node} (hn : n ∈ t.flat) :
    t.findNode n.id = some n := by
  unfold HT.findNode
  cases h : t.flat.find? (fun x => x.id == n.id) with
  | none =>
    have := List.find?_eq_none.1 h n hn
    simp at this
  | some m =>
    have hm := List.mem_of_find?_eq_some h
    have h2 := List.find?_some h
    simp at h2
    rw [inj_of_nodup_map (·.id) hnd hm hn h2]

theorem find?_flatten_bucket {α} (P : α → Bool) : ∀ (bs : List (List α)) (b0 : Nat),
    (∀ b x, x ∈ bs.getD b [] → P x = true → b = b0) → bs.flatten.find? P = (bs.getD b0 []).find? P
  | [], _, _ => by simp
  | l :: rest, 0, h => by
    have hr : rest.flatten.find? P = none := by
      apply List.find?_eq_none.2
      intro x hx hp
      obtain ⟨b, hb⟩ := exists_getD_of_mem_flatten hx
      have := h (b + 1) x (by simpa using hb) hp
      omega
    simp [List.find?_append, hr]
  | l :: rest, b0 + 1, h => by
    have hl : l.find? P = none := by
      apply List.find?_eq_none.2
      intro x hx hp
      have := h 0 x (by simpa using hx) hp
      omega
    have := find?_flatten_bucket P rest b0 (fun b x hx hp => by
      have := h (b + 1) x (by simpa using hx) hp
      omega)
    simp [List.find?_append, hl, this]

/-- `hashtable_lookup` finds what a search of the whole table would find -/
theorem lookup_eq {t : HT} (hb : ∀ b n, n ∈ t.bucketOf b → hash n.key t.order = b) (key : Key) :
    t.lookup key = t.flat.find? (t.isKey key) := by
  unfold HT.lookup HT.flat
  symm
  apply find?_flatten_bucket
  intro b x hx hp
  have hk : x.key = key := by
    unfold HT.isKey at hp
    simp at hp
    exact hp.2
  rw [← hk]
  exact (hb b x hx).symm

/-- `hashtable_node_deref` on a linked node -/
def release (t : HT) (n : Node) : HT × List Event :=
  if n.refcount - 1 > 0 then (t.mapNode n.id decRc, [])
  else t.nodeDestroy { n with refcount := n.refcount - 1 }

theorem nodeDeref_eq {t : HT} (hnd : (t.flat.map (·.id)).Nodup) {n : Node} (hn : n ∈ t.flat) :
    t.nodeDeref n.id = some (release t n) := by
  unfold HT.nodeDeref release
  rw [findNode_eq hnd hn]
  simp only
  split <;> rfl

/-! ### the bucket scan of `hashtable_iter_next` -/

theorem scan_some (e : Node → Bool) : ∀ (ls : List (List Node)) (b b' : Nat) (n : Node),
    scanBuckets e b ls = some (b', n) →
    ∃ j l1 l2, b' = b + j ∧ j < ls.length ∧ ls.getD j [] = l1 ++ n :: l2 ∧
      (∀ x ∈ (ls.take j).flatten ++ l1, e x = false) ∧ e n = true
  | [], _, _, _, h => by simp [scanBuckets] at h
  | l :: rest, b, b', n, h => by
    unfold scanBuckets at h
    cases hf : l.find? e with
    | some m =>
      rw [hf] at h
      simp at h
      obtain ⟨rfl, rfl⟩ := h
      obtain ⟨hp, as, bs, hl, has⟩ := List.find?_eq_some_iff_append.1 hf
      refine ⟨0, as, bs, rfl, by simp, by simpa using hl, ?_, hp⟩
      intro x hx
      simp at hx
      simpa using has x hx
    | none =>
      rw [hf] at h
      simp only at h
      obtain ⟨j, l1, l2, hb, hj, hg, hno, hn⟩ := scan_some e rest (b + 1) b' n h
      refine ⟨j + 1, l1, l2, by omega, by simp; omega, by simpa using hg, ?_, hn⟩
      intro x hx
      simp only [List.take_succ_cons, List.flatten_cons, List.append_assoc, List.mem_append] at hx
      rcases hx with hx | hx
      · have := List.find?_eq_none.1 hf x hx
        simpa using this
      · exact hno x (by simpa using hx)

theorem scan_none (e : Node → Bool) : ∀ (ls : List (List Node)) (b : Nat),
    scanBuckets e b ls = none → ∀ x ∈ ls.flatten, e x = false
  | [], _, _ => by simp
  | l :: rest, b, h => by
    unfold scanBuckets at h
    cases hf : l.find? e with
    | some m => rw [hf] at h; simp at h
    | none =>
      rw [hf] at h
      simp only at h
      intro x hx
      simp only [List.flatten_cons, List.mem_append] at hx
      rcases hx with hx | hx
      · simpa using List.find?_eq_none.1 hf x hx
      · exact scan_none e rest (b + 1) h x hx

/-- the scan commutes with a node update that keeps eligibility -/
theorem scan_map (e e' : Node → Bool) (g : Node → Node) (he : ∀ x, e' (g x) = e x) :
    ∀ (ls : List (List Node)) (b : Nat),
    scanBuckets e' b (ls.map (·.map g)) = (scanBuckets e b ls).map fun r => (r.1, g r.2)
  | [], _ => rfl
  | l :: rest, b => by
    simp only [List.map_cons, scanBuckets]
    have : (l.map g).find? e' = (l.find? e).map g := by
      rw [List.find?_map]
      have : (e' ∘ g) = e := funext fun x => by simp [Function.comp, he]
      rw [this]
    rw [this]
    cases l.find? e with
    | some m => simp
    | none => simpa using scan_map e e' g he rest (b + 1)

theorem after_suffix (p : Nat) (l : List Node) : ∃ A, l = A ++ after p l := by
  unfold after
  refine ⟨l.take (l.length - ((l.dropWhile fun n => !(n.id == p)).drop 1).length), ?_⟩
  have h1 : ((l.dropWhile fun n => !(n.id == p)).drop 1) <:+ l :=
    (List.drop_suffix _ _).trans (List.dropWhile_suffix _)
  obtain ⟨A, hA⟩ := h1
  conv => lhs; rw [← hA]
  congr 1
  have : l.length = A.length + ((l.dropWhile fun n => !(n.id == p)).drop 1).length := by
    conv => lhs; rw [← hA]
    simp
  rw [this]
  conv => rhs; arg 2; rw [← hA]
  simp

theorem after_split {p : Nat} {pre post : List Node} {n : Node} (hn : n.id = p)
    (hpre : ∀ x ∈ pre, x.id ≠ p) : after p (pre ++ n :: post) = post := by
  unfold after
  have : (pre ++ n :: post).dropWhile (fun x => !(x.id == p)) = n :: post := by
    induction pre with
    | nil => simp [List.dropWhile_cons, hn]
    | cons a as ih =>
      have ha : a.id ≠ p := hpre a (by simp)
      simp only [List.cons_append, List.dropWhile_cons]
      simp only [show (!(a.id == p)) = true by simpa using ha, ite_true]
      exact ih (fun x hx => hpre x (by simp [hx]))
  rw [this]
  rfl

theorem after_map (p : Nat) (g : Node → Node) (hg : ∀ x, (g x).id = x.id) (l : List Node) :
    after p (l.map g) = (after p l).map g := by
  unfold after
  induction l with
  | nil => rfl
  | cons a as ih =>
    simp only [List.map_cons, List.dropWhile_cons, hg]
    split
    · exact ih
    · simp

end QbVerif.Hashtable
