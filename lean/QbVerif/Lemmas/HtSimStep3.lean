/-
Hashtable model vs. dictionary: destroy and the iterator operations; `sim_step` for every
operation and `sim_run` for histories.
-/
import QbVerif.Lemmas.HtSimStep2

namespace QbVerif.Hashtable
open QbVerif.Map
set_option linter.unusedSimpArgs false

theorem notify_keys (t : HT) (n : Node) (ev : Nat) (key : Key) (old new : Val) :
    ∀ e ∈ t.notify n ev key old new, e.key = key := by
  intro e he
  unfold HT.notify at he
  simp only [List.mem_append, List.mem_map, List.mem_filter, List.mem_flatMap] at he
  rcases he with ⟨_, _, rfl⟩ | ⟨g, _, hg⟩
  · rfl
  · unfold globalCalls at hg
    simp only [List.mem_append] at hg
    rcases hg with hg | hg
    · split at hg
      · simp at hg; rw [hg]
      · simp at hg
    · split at hg
      · simp at hg; rw [hg]
      · simp at hg

theorem sim_destroy {t : HT} {d : Dict} (h : Inv t) (s : Sim t d) : StepOK t d .destroy := by
  have hstep := step_eq h .destroy
  simp only at hstep
  have hd : d.step .destroy = if !d.iters.isEmpty then (d, ⟨[], .rc (some .ebusy)⟩)
      else (Dict.empty d.fl, ⟨d.entries.flatMap fun e => d.notify e.notifs EV_DELETED e.key e.val 0, .ok⟩) := rfl
  by_cases hi : t.iters = []
  · have hdi : d.iters = [] := s.empty_iff.2 hi
    obtain ⟨t', h1, _, _, _, _⟩ := destroy_eq h hi
    rw [hi, h1] at hstep
    rw [hdi] at hd
    simp only [List.isEmpty_nil, Bool.not_true, Bool.false_eq_true, ite_false] at hstep hd
    refine ⟨?_, by intro _; rw [hstep, hd], ?_⟩
    · rw [hstep, hd]
      refine ⟨s.fl, ?_, List.Pairwise.nil, rfl, rfl⟩
      simp [Dict.empty, live, HT.flat, List.flatten_replicate_nil]
    · intro _
      rw [hstep, hd]
      intro k
      have hflive : t.flat = live t := by
        unfold live
        symm
        apply List.filter_eq_self.2
        intro x hx
        cases hr : x.removed with
        | false => rfl
        | true => have := h.zombie x hx hr; rw [hi] at this; simp [parked] at this
      have hnd1 : (t.flat.map (·.key)).Nodup := by rw [hflive]; exact h.keysNodup
      have e1 := flatMap_filter_key (·.key) (fun x : Node => t.notify x EV_DELETED x.key x.val 0)
        (fun (k : Key) (e : Event) => e.key == k) (by
          intro a k' hne
          apply List.filter_eq_nil_iff.2
          intro e he
          rw [notify_keys t a _ _ _ _ e he]
          simpa using hne) k hnd1
      have e2 := flatMap_filter_key (·.key) (fun e : Entry => d.notify e.notifs EV_DELETED e.key e.val 0)
        (fun (k : Key) (e : Event) => e.key == k) (by
          intro a k' hne
          apply List.filter_eq_nil_iff.2
          intro e he
          have : e.key = a.key := by
            have := s.notify ⟨0, a.key, a.val, 0, false, a.notifs⟩ EV_DELETED a.key a.val 0
            rw [this] at he
            exact notify_keys t _ _ _ _ _ e he
          rw [this]
          simpa using hne) k s.sorted.keys_nodup
      show List.filter (fun e : Event => e.key == k) _ = List.filter (fun e : Event => e.key == k) _
      rw [e1, e2]
      have hf : d.entries.find? (fun x => x.key == k) = (t.flat.find? fun x => x.key == k).map absNode := by
        have := s.find h k
        unfold findEntry at this
        rw [this, h.lookup_live, hflive]
      rw [hf]
      cases t.flat.find? (fun x => x.key == k) with
      | none => rfl
      | some a =>
        simp only [Option.map_some]
        rw [show (absNode a).notifs = a.notifs from rfl, show (absNode a).key = a.key from rfl,
          show (absNode a).val = a.val from rfl, s.notify a]
  · have hdi : d.iters ≠ [] := fun e => hi (s.empty_iff.1 e)
    have h1 : (!t.iters.isEmpty) = true := by
      cases hq : t.iters with
      | nil => exact absurd hq hi
      | cons a l => rfl
    have h2 : (!d.iters.isEmpty) = true := by
      cases hq : d.iters with
      | nil => exact absurd hq hdi
      | cons a l => rfl
    rw [if_pos h1] at hstep
    rw [if_pos h2] at hd
    exact ⟨by rw [hstep, hd]; exact s, by intro _; rw [hstep, hd], by intro hi'; exact absurd hi' hi⟩

theorem iters_filter : ∀ (l1 : List (Nat × DIter)) (l2 : List (Nat × Iter)) (i : Nat),
    l1.map (·.1 + 1) = l2.map (·.1) →
    (l1.filter fun p => !(p.1 == i)).map (·.1 + 1) = (l2.filter fun p => !(p.1 == i + 1)).map (·.1)
  | [], [], _, _ => rfl
  | [], _ :: _, _, h => by simp at h
  | _ :: _, [], _, h => by simp at h
  | a :: l1, b :: l2, i, h => by
    simp only [List.map_cons, List.cons.injEq] at h
    have ih := iters_filter l1 l2 i h.2
    simp only [List.filter_cons]
    by_cases e : a.1 = i
    · have e' : b.1 = i + 1 := by omega
      simp [e, e', ih]
    · have e' : ¬ b.1 = i + 1 := by omega
      simp [e, e', ih, h.1]

theorem dict_iterNext_fields (d : Dict) (i : Nat) :
    (d.step (.iterNext i)).1.fl = d.fl ∧ (d.step (.iterNext i)).1.entries = d.entries ∧
    (d.step (.iterNext i)).1.globals = d.globals ∧
    (d.step (.iterNext i)).1.iters.map (·.1 + 1) = d.iters.map (·.1 + 1) ∧
    (d.iters.lookup i = none → (d.step (.iterNext i)).2.events = []) := by
  have hmap : ∀ it' : DIter, (d.iters.map fun p => if p.1 == i then (i, it') else p).map (·.1 + 1) = d.iters.map (·.1 + 1) := by
    intro it'
    rw [List.map_map]
    apply List.map_congr_left
    intro p _
    by_cases e : p.1 = i <;> simp [e]
  unfold Dict.step
  simp only
  cases hl : d.iters.lookup i with
  | none => exact ⟨rfl, rfl, rfl, rfl, fun _ => rfl⟩
  | some it =>
    simp only
    split
    · exact ⟨rfl, rfl, rfl, rfl, by intro e; cases e⟩
    · split
      · exact ⟨rfl, rfl, rfl, hmap _, by intro e; cases e⟩
      · exact ⟨rfl, rfl, rfl, hmap _, by intro e; cases e⟩

theorem sim_iterNext {t : HT} {d : Dict} (h : Inv t) (s : Sim t d) (i : Nat) : StepOK t d (.iterNext i) := by
  have hstep := step_eq h (.iterNext i)
  simp only at hstep
  obtain ⟨f1, f2, f3, f4, f5⟩ := dict_iterNext_fields d i
  refine ⟨?_, fun hne => absurd rfl (hne i), ?_⟩
  · cases hl : t.iters.lookup (i + 1) with
    | none =>
      rw [iterNext_none hl] at hstep
      rw [hstep]
      exact sim_same s rfl rfl f1 f2 f3 (f4.trans s.iters)
    | some it =>
      obtain ⟨dec, hd, hdm⟩ := h.parkedNode hl
      rw [iterNext_eq h hl hd hdm] at hstep
      rw [hstep]
      have hkin := mem_of_lookup hl
      have hdec : ∀ np, dec = some np → np ∈ t.flat ∧ 0 < parked t.iters np.id := by
        intro np e
        refine ⟨mem_flat_of_bucket (hdm np e), parked_pos_of_mem hkin ?_⟩
        rw [hd, e]; rfl
      unfold nextResult
      cases hs : scanBuckets t.eligible it.bucket (t.iterLists it) with
      | none =>
        simp only
        refine sim_same s (moveState_live h none dec _ ?_) (moveState_misc _ _ _ _).1 f1 f2 f3 ?_
        · intro np e; exact ⟨(hdec np e).1, (hdec np e).2, by intro n e'; cases e'⟩
        · rw [(moveState_misc _ _ _ _).2, setIter_keys]; exact f4.trans s.iters
      | some r =>
        obtain ⟨b', n⟩ := r
        obtain ⟨_, _, _, _, hne⟩ := iterLists_found h.idsNodup h.inBucket (by
          intro p hp
          cases dec with
          | none => rw [hd] at hp; cases hp
          | some np => rw [hd] at hp; cases hp; exact ⟨np, hdm np rfl, rfl⟩) hs
        simp only
        refine sim_same s (moveState_live h (some n) dec _ ?_) (moveState_misc _ _ _ _).1 f1 f2 f3 ?_
        · intro np e
          refine ⟨(hdec np e).1, (hdec np e).2, ?_⟩
          intro n' e'; cases e'
          exact hne np.id (by rw [hd, e]; rfl)
        · rw [(moveState_misc _ _ _ _).2, setIter_keys]; exact f4.trans s.iters
  · intro hi
    have hl : t.iters.lookup (i + 1) = none := by rw [hi]; rfl
    rw [iterNext_none hl] at hstep
    have hdl : d.iters.lookup i = none := by rw [s.empty_iff.2 hi]; rfl
    rw [hstep, f5 hdl]
    exact traceEq_of_eq rfl

theorem sim_iterFree {t : HT} {d : Dict} (h : Inv t) (s : Sim t d) (i : Nat) : StepOK t d (.iterFree i) := by
  have hstep := step_eq h (.iterFree i)
  simp only at hstep
  have hd : d.step (.iterFree i) = if (d.iters.lookup i).isSome
      then ({ d with iters := (d.iters.filter fun p => !(p.1 == i)) }, ⟨[], .ok⟩) else (d, ⟨[], .badIter⟩) := rfl
  have hlk := s.lookup i
  cases hl : t.iters.lookup (i + 1) with
  | none =>
    rw [iterFree_none hl] at hstep
    rw [hl] at hlk
    simp only [Option.isSome_none] at hlk
    rw [hlk] at hd
    simp only [Bool.false_eq_true, ite_false] at hd
    exact ⟨by rw [hstep, hd]; exact s, by intro _; rw [hstep, hd], by intro _; rw [hstep, hd]; exact traceEq_of_eq rfl⟩
  | some it =>
    obtain ⟨dec, hdn, hdm⟩ := h.parkedNode hl
    rw [iterFree_eq h hl hdn hdm] at hstep
    rw [hl] at hlk
    simp only [Option.isSome_some] at hlk
    rw [hlk] at hd
    simp only [ite_true] at hd
    have hkin := mem_of_lookup hl
    refine ⟨?_, by intro _; rw [hstep, hd]; rfl, ?_⟩
    · rw [hstep, hd]
      unfold freeResult
      simp only
      refine sim_same s (moveState_live h none dec _ ?_) (moveState_misc _ _ _ _).1 rfl rfl rfl ?_
      · intro np e
        refine ⟨mem_flat_of_bucket (hdm np e), parked_pos_of_mem hkin ?_, by intro n e'; cases e'⟩
        rw [hdn, e]; rfl
      · rw [(moveState_misc _ _ _ _).2]
        exact iters_filter d.iters t.iters i s.iters
    · intro hi
      rw [hi] at hl
      simp [List.lookup] at hl

theorem sim_iterNew {t : HT} {d : Dict} (h : Inv t) (s : Sim t d) (i : Nat) (pfx : Option Key) :
    StepOK t d (.iterNew i pfx) := by
  have hstep := step_eq h (.iterNew i pfx)
  simp only at hstep
  have hd : d.step (.iterNew i pfx) = if (d.iters.lookup i).isSome then (d, ⟨[], .badIter⟩)
      else ({ d with iters := (i, ⟨none, if d.fl.prefixIter then pfx else none, false⟩) :: d.iters }, ⟨[], .ok⟩) := rfl
  have hlk := s.lookup i
  cases hq : (t.iters.lookup (i + 1)).isSome with
  | true =>
    rw [hq] at hstep hlk
    rw [hlk] at hd
    simp only [ite_true] at hstep hd
    exact ⟨by rw [hstep, hd]; exact s, by intro _; rw [hstep, hd], by intro _; rw [hstep, hd]; exact traceEq_of_eq rfl⟩
  | false =>
    rw [hq] at hstep hlk
    rw [hlk] at hd
    simp only [Bool.false_eq_true, ite_false] at hstep hd
    refine ⟨?_, by intro _; rw [hstep, hd], by intro _; rw [hstep, hd]; exact traceEq_of_eq rfl⟩
    rw [hstep, hd]
    exact sim_same s rfl rfl rfl rfl rfl (by
      show (i + 1) :: d.iters.map (·.1 + 1) = (i + 1) :: t.iters.map (·.1)
      rw [s.iters])

/-- every operation: related states stay related, results and (without open iterators) the
    notification trace agree -/
theorem sim_step {t : HT} {d : Dict} (h : Inv t) (s : Sim t d) (op : Op) : StepOK t d op := by
  cases op with
  | put k v l => exact sim_put h s k v l
  | get k => exact sim_get h s k
  | rm k => exact sim_rm h s k
  | count => exact sim_count h s
  | iterNew i pfx => exact sim_iterNew h s i pfx
  | iterNext i => exact sim_iterNext h s i
  | iterFree i => exact sim_iterFree h s i
  | foreach stop pfx => exact sim_foreach h s stop pfx
  | nadd k ev id => exact sim_nadd h s k ev id
  | ndel k ev id => exact sim_ndel h s k ev id
  | destroy => exact sim_destroy h s

theorem sim_create (n : Nat) : Sim (create true true n) (Dict.empty .ht) := by
  have hl : live (create true true n) = [] := by
    simp [live, HT.flat, create, List.flatten_replicate_nil]
  exact ⟨rfl, by rw [hl]; exact List.Perm.refl _, List.Pairwise.nil, rfl, rfl⟩

end QbVerif.Hashtable
