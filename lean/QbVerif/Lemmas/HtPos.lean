/-
Hashtable model: the position of an iterator.  `remOf t it` is the list of nodes still ahead of
the iterator (rest of its bucket after the node it is parked on, then the following buckets);
`iterLists_found` says what the scan of `hashtable_iter_next` finds: the first eligible node of
`remOf`, lying in the bucket the scan reports, different from the node the iterator is parked on,
and the new position's `remOf` is exactly what follows it.
-/
import QbVerif.Lemmas.HtBasic

namespace QbVerif.Hashtable
open QbVerif.Map
set_option linter.unusedSimpArgs false

def remOf (t : HT) (it : Iter) : List Node := (t.iterLists it).flatten

theorem flatten_split {α} (X : List (List α)) (j : Nat) (h : j < X.length) :
    X.flatten = (X.take j).flatten ++ (X.getD j [] ++ (X.drop (j + 1)).flatten) := by
  have h2 := congrArg List.flatten (split_at X j h)
  simp only [List.flatten_append, List.flatten_cons] at h2
  have h3 : X.getD j [] = X[j] := by simp [List.getD_eq_getElem?_getD, h]
  rw [h3]
  exact h2

theorem dropWhile_head {α} (p : α → Bool) : ∀ (l : List α) (m : α) (rest : List α),
    l.dropWhile p = m :: rest → p m = false
  | [], _, _, h => by simp at h
  | a :: as, m, rest, h => by
    rw [List.dropWhile_cons] at h
    cases hpa : p a with
    | true => rw [hpa] at h; simp at h; exact dropWhile_head p as m rest h
    | false => rw [hpa] at h; simp at h; rw [← h.1]; exact hpa

theorem nodup_bucket {α β} (f : α → β) (bs : List (List α)) (b : Nat) (h : (bs.flatten.map f).Nodup) :
    ((bs.getD b []).map f).Nodup := by
  by_cases hb : b < bs.length
  · rw [flatten_split bs b hb] at h
    simp only [List.map_append] at h
    exact (List.nodup_append.1 (List.nodup_append.1 h).2.1).1
  · have : bs.getD b [] = [] := by simp [List.getD_eq_getElem?_getD, Nat.le_of_not_lt hb]
    rw [this]; simp

theorem after_ids {l : List Node} {p : Nat} {n : Node} (hnd : (l.map (·.id)).Nodup) (hn : n ∈ after p l) :
    n.id ≠ p := by
  unfold after at hn
  have hsplit := List.takeWhile_append_dropWhile (p := fun x : Node => !(x.id == p)) (l := l)
  cases hd : l.dropWhile (fun x : Node => !(x.id == p)) with
  | nil => rw [hd] at hn; simp at hn
  | cons m rest =>
    rw [hd] at hn hsplit
    have hm : m.id = p := by
      have := dropWhile_head _ _ _ _ hd
      simpa using this
    rw [← hsplit] at hnd
    simp only [List.map_append, List.map_cons] at hnd
    have h2 := (List.nodup_append.1 hnd).2.1
    simp only [List.drop_one, List.tail_cons] at hn
    have := (List.nodup_cons.1 h2).1
    intro e
    apply this
    rw [hm, ← e]
    exact List.mem_map.2 ⟨n, hn, rfl⟩

theorem getD_drop {α} (bs : List (List α)) (i j : Nat) : (bs.drop i).getD j [] = bs.getD (i + j) [] := by
  simp [List.getD_eq_getElem?_getD, List.getElem?_drop]

/-- `remOf` at the start of an iteration is the whole table -/
theorem remOf_start (t : HT) : remOf t ⟨none, 0⟩ = t.flat := by
  unfold remOf HT.iterLists HT.flat
  cases h : t.buckets with
  | nil => simp
  | cons l rest => simp

theorem no_dup_before {l : List Node} {pre post : List Node} {n : Node} (hnd : (l.map (·.id)).Nodup)
    (hl : l = pre ++ n :: post) : ∀ x ∈ pre, x.id ≠ n.id := by
  subst hl
  simp only [List.map_append, List.map_cons] at hnd
  intro x hx e
  have := (List.nodup_append.1 hnd).2.2 x.id (List.mem_map.2 ⟨x, hx, rfl⟩) n.id (by simp)
  exact this e

theorem iterLists_found {t : HT} {it : Iter} {e : Node → Bool} {b' : Nat} {n : Node}
    (hnd : (t.flat.map (·.id)).Nodup)
    (hbk : ∀ b x, x ∈ t.bucketOf b → hash x.key t.order = b)
    (hp : ∀ p, it.node = some p → ∃ np ∈ t.bucketOf it.bucket, np.id = p)
    (h : scanBuckets e it.bucket (t.iterLists it) = some (b', n)) :
    n ∈ t.bucketOf b' ∧ e n = true ∧ b' < t.buckets.length ∧
    (∃ pre, remOf t it = pre ++ n :: remOf t ⟨some n.id, b'⟩ ∧ ∀ x ∈ pre, e x = false) ∧
    (∀ p, it.node = some p → n.id ≠ p) := by
  have hlt : it.bucket < t.buckets.length := by
    by_cases hlt : it.bucket < t.buckets.length
    · exact hlt
    · unfold HT.iterLists at h; simp [hlt, scanBuckets] at h
  obtain ⟨j, l1, l2, hb', hj, hg, hno, hen⟩ := scan_some e _ _ _ _ h
  -- the first list of `iterLists` is a suffix of the iterator's bucket
  have hfirst : ∃ A first, t.iterLists it = first :: t.buckets.drop (it.bucket + 1) ∧
      t.bucketOf it.bucket = A ++ first ∧ (∀ p, it.node = some p → first = after p (t.bucketOf it.bucket)) := by
    unfold HT.iterLists
    rw [if_pos hlt]
    cases hnode : it.node with
    | none => exact ⟨[], _, rfl, rfl, by simp⟩
    | some p =>
      obtain ⟨A, hA⟩ := after_suffix p (t.bucketOf it.bucket)
      exact ⟨A, _, rfl, hA, by intro q hq; cases hq; rfl⟩
  obtain ⟨A, first, hls, hbucket, hafter⟩ := hfirst
  have hndb : ∀ b, ((t.bucketOf b).map (·.id)).Nodup := fun b => nodup_bucket (·.id) t.buckets b hnd
  cases j with
  | zero =>
    have hb : b' = it.bucket := by omega
    subst hb
    rw [hls] at hg
    simp only [List.getD_cons_zero] at hg
    have hbk' : t.bucketOf it.bucket = (A ++ l1) ++ n :: l2 := by rw [hbucket, hg]; simp
    refine ⟨by rw [hbk']; simp, hen, hlt, ⟨l1, ?_, ?_⟩, ?_⟩
    · unfold remOf
      rw [hls]
      have hnew : t.iterLists ⟨some n.id, it.bucket⟩ = l2 :: t.buckets.drop (it.bucket + 1) := by
        unfold HT.iterLists
        simp only [if_pos hlt]
        congr 1
        show after n.id (t.bucketOf it.bucket) = l2
        rw [hbk']
        exact after_split rfl (no_dup_before (hndb it.bucket) hbk')
      rw [hnew, hg]
      simp
    · intro x hx
      exact hno x (by simp [hx])
    · intro p hpn
      have hfa := hafter p hpn
      apply after_ids (hndb it.bucket)
      rw [← hfa, hg]
      simp
  | succ j' =>
    rw [hls] at hg hj hno
    simp only [List.getD_cons_succ, getD_drop] at hg
    simp only [List.length_cons, List.length_drop] at hj
    have hb'' : b' = it.bucket + 1 + j' := by omega
    have hb'lt : b' < t.buckets.length := by omega
    have hnb : n ∈ t.bucketOf b' := by
      unfold HT.bucketOf; rw [hb'', hg]; simp
    refine ⟨hnb, hen, hb'lt, ⟨first ++ ((t.buckets.drop (it.bucket + 1)).take j').flatten ++ l1, ?_, ?_⟩, ?_⟩
    · unfold remOf
      rw [hls]
      have hnew : t.iterLists ⟨some n.id, b'⟩ = l2 :: t.buckets.drop (b' + 1) := by
        unfold HT.iterLists
        simp only [if_pos hb'lt]
        congr 1
        show after n.id (t.bucketOf b') = l2
        have hbk' : t.bucketOf b' = l1 ++ n :: l2 := by unfold HT.bucketOf; rw [hb'', hg]
        rw [hbk']
        exact after_split rfl (no_dup_before (hndb b') hbk')
      rw [hnew]
      have hjl : j' < (t.buckets.drop (it.bucket + 1)).length := by simp; omega
      simp only [List.flatten_cons]
      rw [flatten_split (t.buckets.drop (it.bucket + 1)) j' hjl, getD_drop, hg, List.drop_drop]
      have : it.bucket + 1 + (j' + 1) = b' + 1 := by omega
      rw [this]
      simp
    · intro x hx
      apply hno x
      simp only [List.take_succ_cons, List.flatten_cons]
      simpa [List.append_assoc] using hx
    · intro p hpn e'
      obtain ⟨np, hnp, hid⟩ := hp p hpn
      have : n = np := inj_of_nodup_map (·.id) hnd (mem_flat_of_bucket hnb) (mem_flat_of_bucket hnp) (by rw [e', hid])
      have h1 := hbk b' n hnb
      have h2 := hbk it.bucket np hnp
      rw [this] at h1
      omega

theorem iterLists_none {t : HT} {it : Iter} {e : Node → Bool}
    (h : scanBuckets e it.bucket (t.iterLists it) = none) : ∀ x ∈ remOf t it, e x = false :=
  scan_none e _ _ h

end QbVerif.Hashtable
