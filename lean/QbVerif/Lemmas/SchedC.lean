/-
Tie T3 for C10: the rotation of `p_stop` in the scheduling model (`Sched.nextStop`) is PROVED equal
to the definition that tools/extract.py + tools/c2lean.py generate from the statements that update
`p_stop` at the top of the do-loop of qb_loop_run in the CURRENT lib/loop.c (Gen/SchedC.lean,
regenerated on every check run; spec tools/extract.d/SchedC.json).  If those statements change, the
generated definition changes and these theorems are re-checked against it; if they can no longer be
isolated as an update of `p_stop` alone (e.g. the rotation starts to depend on another variable),
the check reports the tie as broken.  The initial value `p_stop = QB_LOOP_LOW` and the use of
`p_stop` in the level loop stay hand-modelled (tied by the differential correspondence).
Core Lean only.
-/
import QbVerif.Model.Sched
import QbVerif.Gen.SchedC

namespace QbVerif.Lemmas.SchedC
open QbVerif.Sched QbVerif.Gen

/-- for every value `p_stop` can take (the three priority values), the C update computes the model's
    `nextStop` -/
theorem nextStop_c_eq (ps : Nat) (h : ps ≤ QB_LOOP_HIGH) :
    qb_loop_run_pstop_next_c (ps : Int) = (nextStop ps : Int) := by
  have hH : QB_LOOP_HIGH = 2 := rfl
  have hL : QB_LOOP_LOW = 0 := rfl
  rw [hH] at h
  unfold qb_loop_run_pstop_next_c nextStop wrapS
  rw [hH, hL]
  rcases ps with _ | _ | _ | n
  · decide
  · decide
  · decide
  · omega

/-- the value stays a priority value: the rotation never leaves `LOW … HIGH`, however long the loop
    has been running -/
theorem nextStop_c_range (ps : Nat) (h : ps ≤ QB_LOOP_HIGH) :
    0 ≤ qb_loop_run_pstop_next_c (ps : Int) ∧ qb_loop_run_pstop_next_c (ps : Int) ≤ QB_LOOP_HIGH := by
  rw [nextStop_c_eq ps h]
  have hH : QB_LOOP_HIGH = 2 := rfl
  have hL : QB_LOOP_LOW = 0 := rfl
  unfold nextStop
  rw [hH, hL]
  rw [hH] at h
  split <;> omega

/-- three applications of the C update are the identity on priority values (period 3) -/
theorem nextStop_c_period (ps : Nat) (h : ps ≤ QB_LOOP_HIGH) :
    qb_loop_run_pstop_next_c (qb_loop_run_pstop_next_c (qb_loop_run_pstop_next_c (ps : Int))) = ps := by
  have hH : QB_LOOP_HIGH = 2 := rfl
  rw [hH] at h
  rcases ps with _ | _ | _ | n
  · decide
  · decide
  · decide
  · omega

end QbVerif.Lemmas.SchedC
