import QbVerif.Lemmas.LogThreadInv

/-! History invariant of the logging-thread model: FIFO, exactly-once and drop accounting.
It does not depend on the repair switches (a crash only changes `outcome`); the only fact it needs
from the control invariant `Inv` is that one thread logs at a time (`Excl`). -/
namespace QbVerif.LogThread

/-- the thread has allocated a sequence number and is parked at the lock of `log_post` -/
def APc.pend : APc → Nat
  | .logLock _ => 1
  | _ => 0

@[simp] theorem APc.pend_idle : APc.idle.pend = 0 := rfl
@[simp] theorem APc.pend_logLock (x) : (APc.logLock x).pend = 1 := rfl
@[simp] theorem APc.pend_logUnlock : APc.logUnlock.pend = 0 := rfl
@[simp] theorem APc.pend_logPost : APc.logPost.pend = 0 := rfl
@[simp] theorem APc.pend_logUnlockDrop : APc.logUnlockDrop.pend = 0 := rfl
@[simp] theorem APc.pend_ctlLock (x) : (APc.ctlLock x).pend = 0 := rfl
@[simp] theorem APc.pend_ctlUnlock (x) : (APc.ctlUnlock x).pend = 0 := rfl
@[simp] theorem APc.pend_startWait : APc.startWait.pend = 0 := rfl
@[simp] theorem APc.pend_finiLock : APc.finiLock.pend = 0 := rfl
@[simp] theorem APc.pend_finiUnlock : APc.finiUnlock.pend = 0 := rfl
@[simp] theorem APc.pend_finiPost : APc.finiPost.pend = 0 := rfl
@[simp] theorem APc.pend_finiJoin : APc.finiJoin.pend = 0 := rfl
@[simp] theorem APc.pend_finiGetvalue : APc.finiGetvalue.pend = 0 := rfl
@[simp] theorem APc.pend_joinP : APc.joinP.pend = 0 := rfl

/-- FIFO / exactly-once / accounting relations between the history fields -/
structure HInv (s : St) : Prop where
  fifo : s.accepted = s.popped ++ s.queue.map Rec.seq
  perm : s.popped.Perm (s.written ++ s.discarded)
  wsub : s.written.Sublist s.popped
  sorted : s.accepted.Pairwise (· < ·)
  bound : ∀ x ∈ s.accepted, x < s.nextSeq
  pend_c : ∀ r, s.c.pc = .logLock r → r.seq < s.nextSeq ∧ ∀ x ∈ s.accepted, x < r.seq
  pend_p : ∀ r, s.p.pc = .logLock r → r.seq < s.nextSeq ∧ ∀ x ∈ s.accepted, x < r.seq
  drops : s.dropTotal = s.reports.sum + s.droppedCtr
  count : s.outcome = .running → s.nextSeq = s.ignored.length + s.syncWritten.length + s.accepted.length + s.dropTotal
            + s.c.pc.pend + s.p.pc.pend

/-- one thread logs at a time (consequence of `Inv.c_excl`) -/
def Excl (s : St) : Prop := s.c.pc.inLog = true → s.p.pc = .idle

theorem Inv.excl {cfg : Cfg} {s : St} (h : Inv cfg s) : Excl s :=
  fun hc => (h.c_excl (Or.inl hc)).1

theorem perm_snoc_right {p w d : List Nat} (x : Nat) (h : p.Perm (w ++ d)) :
    (p ++ [x]).Perm (w ++ (d ++ [x])) := by
  rw [← List.append_assoc]
  exact h.append_right [x]

theorem perm_snoc_left {p w d : List Nat} (x : Nat) (h : p.Perm (w ++ d)) :
    (p ++ [x]).Perm ((w ++ [x]) ++ d) := by
  rw [List.append_assoc]
  exact (perm_snoc_right x h).trans (List.Perm.append_left w List.perm_append_comm)

theorem pairwise_snoc {l : List Nat} {x : Nat} (h : l.Pairwise (· < ·)) (hx : ∀ y ∈ l, y < x) :
    (l ++ [x]).Pairwise (· < ·) := by
  rw [List.pairwise_append]
  refine ⟨h, List.pairwise_singleton _ _, ?_⟩
  intro a ha b hb
  simp at hb
  subst hb
  exact hx a ha

theorem hinv_init (progC progP : List Op) : HInv (init progC progP) := by
  constructor <;> simp [init]

/-- a crash changes only `outcome` (the crashing thread may have allocated a sequence number: the
    count is stated for running states only) -/
theorem HInv.crash {s : St} (h : HInv s) (o : Outcome) (ho : o ≠ .running := by decide) : HInv (s.crash o) := by
  obtain ⟨h1, h2, h3, h4, h5, h6, h7, h8, h9⟩ := h
  exact ⟨h1, h2, h3, h4, h5, h6, h7, h8, fun hr => absurd hr ho⟩

theorem hinv_popWrite (s : St) (h : HInv s) : HInv (popWrite s) := by
  obtain ⟨h1, h2, h3, h4, h5, h6, h7, h8, h9⟩ := h
  unfold popWrite
  cases hq : s.queue with
  | nil => exact HInv.crash ⟨h1, h2, h3, h4, h5, h6, h7, h8, h9⟩ .emptyPop
  | cons r q =>
    rw [hq] at h1
    have f1 : s.accepted = (s.popped ++ [r.seq]) ++ q.map Rec.seq := by simp [h1]
    by_cases hd : 0 < s.droppedCtr <;> by_cases hdel : (s.tgtEnabled && s.tgtThreaded) = true <;>
      simp only [hd, hdel, St.deliverable, St.emit, if_true, if_false]
    · refine ⟨f1, perm_snoc_left _ h2, List.Sublist.append h3 (List.Sublist.refl _), h4, h5, h6, h7, ?_, h9⟩
      simp [h8]; omega
    · refine ⟨f1, perm_snoc_right _ h2, h3.trans (List.sublist_append_left _ _), h4, h5, h6, h7, ?_, h9⟩
      simp [h8]; omega
    · refine ⟨f1, perm_snoc_left _ h2, List.Sublist.append h3 (List.Sublist.refl _), h4, h5, h6, h7, ?_, h9⟩
      simp [h8]; omega
    · refine ⟨f1, perm_snoc_right _ h2, h3.trans (List.sublist_append_left _ _), h4, h5, h6, h7, ?_, h9⟩
      simp [h8]; omega

/-- `HInv` only reads the history fields, the queue and the two application threads -/
theorem HInv.congr {s s' : St} (h : HInv s) (e1 : s'.accepted = s.accepted) (e2 : s'.popped = s.popped)
    (e3 : s'.queue = s.queue) (e4 : s'.written = s.written) (e5 : s'.discarded = s.discarded)
    (e6 : s'.nextSeq = s.nextSeq) (e7 : s'.c.pc.pending = s.c.pc.pending) (e8 : s'.p.pc.pending = s.p.pc.pending)
    (e9 : s'.dropTotal = s.dropTotal) (e10 : s'.reports = s.reports) (e11 : s'.droppedCtr = s.droppedCtr)
    (e12 : s'.ignored = s.ignored) (e13 : s'.syncWritten = s.syncWritten)
    (e14 : s'.outcome = s.outcome := by rfl) : HInv s' := by
  have pe : ∀ a b : APc, a.pending = b.pending → a.pend = b.pend ∧ ∀ r, a = .logLock r ↔ b = .logLock r := by
    intro a b hab
    cases a <;> cases b <;> simp_all [APc.pending]
  obtain ⟨c1, c2⟩ := pe _ _ e7
  obtain ⟨p1, p2⟩ := pe _ _ e8
  obtain ⟨h1, h2, h3, h4, h5, h6, h7, h8, h9⟩ := h
  constructor
  · rw [e1, e2, e3]; exact h1
  · rw [e2, e4, e5]; exact h2
  · rw [e2, e4]; exact h3
  · rw [e1]; exact h4
  · rw [e1, e6]; exact h5
  · intro r hr; rw [e1, e6]; exact h6 r ((c2 r).mp hr)
  · intro r hr; rw [e1, e6]; exact h7 r ((p2 r).mp hr)
  · rw [e9, e10, e11]; exact h8
  · rw [e6, e12, e13, e1, e9, c1, p1, e14]; exact h9

theorem HInv.ite {c : Prop} [Decidable c] {a b : St} (ha : c → HInv a) (hb : ¬c → HInv b) :
    HInv (if c then a else b) := by
  by_cases h : c
  · rw [if_pos h]; exact ha h
  · rw [if_neg h]; exact hb h

theorem hinv_lockCheck (s ok : St) (h1 : HInv s) (h2 : HInv ok) : HInv (s.lockCheck ok) := by
  unfold St.lockCheck
  split
  · exact h1.crash _
  · exact h1.crash _
  · exact h2

theorem hinv_wStep (cfg : Cfg) (s : St) (h : HInv s) : HInv (wStep cfg s) := by
  unfold wStep
  split
  · exact h
  · exact h
  · split
    · exact h.crash _
    · exact h.congr rfl rfl rfl rfl rfl rfl rfl rfl rfl rfl rfl rfl rfl
  · split
    · exact h.crash _
    · exact hinv_lockCheck _ _ (h.congr rfl rfl rfl rfl rfl rfl rfl rfl rfl rfl rfl rfl rfl)
        (h.congr rfl rfl rfl rfl rfl rfl rfl rfl rfl rfl rfl rfl rfl)
  · have hs : HInv { s with owner := some .W } := h.congr rfl rfl rfl rfl rfl rfl rfl rfl rfl rfl rfl rfl rfl
    simp only
    split
    · exact h.crash _
    · split
      · split
        · exact h.congr rfl rfl rfl rfl rfl rfl rfl rfl rfl rfl rfl rfl rfl
        · exact hinv_popWrite _ hs
      · split
        · exact h.congr rfl rfl rfl rfl rfl rfl rfl rfl rfl rfl rfl rfl rfl
        · exact hinv_popWrite _ hs
  · split
    · exact h.crash _
    · exact h.congr rfl rfl rfl rfl rfl rfl rfl rfl rfl rfl rfl rfl rfl
    · exact hinv_popWrite _ h
  · exact h.congr rfl rfl rfl rfl rfl rfl rfl rfl rfl rfl rfl rfl rfl
  · exact h.congr rfl rfl rfl rfl rfl rfl rfl rfl rfl rfl rfl rfl rfl

end QbVerif.LogThread
