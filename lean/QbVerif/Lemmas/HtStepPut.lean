/-
Hashtable model: `hashtable_put` (insert at the tail of bucket `hash key`, or replace in place) and
the notifier registration functions in a state satisfying `Inv`.
-/
import QbVerif.Lemmas.HtStepRm

namespace QbVerif.Hashtable
open QbVerif.Map
set_option linter.unusedSimpArgs false

theorem modify_flatten_perm (n : Node) : ∀ (bs : List (List Node)) (b : Nat), b < bs.length →
    ((bs.modify b (· ++ [n])).flatten).Perm (n :: bs.flatten)
  | [], _, h => by simp at h
  | l :: bs, 0, _ => by
    simp only [List.modify_zero_cons, List.flatten_cons, List.append_assoc, List.singleton_append]
    exact List.perm_middle
  | l :: bs, b + 1, h => by
    simp only [List.modify_succ_cons, List.flatten_cons]
    have ih := modify_flatten_perm n bs b (by simpa using h)
    exact (List.Perm.append_left l ih).trans List.perm_middle

theorem mem_modify_getD {n : Node} {bs : List (List Node)} {b b' : Nat} {x : Node} :
    x ∈ (bs.modify b (· ++ [n])).getD b' [] ↔ x ∈ bs.getD b' [] ∨ (b' = b ∧ b < bs.length ∧ x = n) := by
  simp only [List.getD_eq_getElem?_getD, List.getElem?_modify]
  cases hb : bs[b']? with
  | none =>
    have : bs.length ≤ b' := List.getElem?_eq_none_iff.1 hb
    simp only [Option.map_eq_map, Option.map_none, Option.getD_none, List.not_mem_nil, false_or]
    constructor
    · intro h; cases h
    · rintro ⟨rfl, h2, _⟩; omega
  | some l =>
    have : b' < bs.length := by
      rcases List.getElem?_eq_some_iff.1 hb with ⟨h, _⟩; exact h
    simp only [Option.map_eq_map, Option.map_some, Option.getD_some]
    by_cases e : b = b'
    · subst e; simp [this]
    · have e' : ¬ b' = b := fun h => e h.symm
      simp [e, e']

theorem parked_eq_zero {its : List (Nat × Iter)} {id : Nat} (h : ∀ p ∈ its, p.2.node ≠ some id) :
    parked its id = 0 := by
  induction its with
  | nil => rfl
  | cons a its ih =>
    simp only [parked]
    have h1 : ind a.2.node id = 0 := by
      unfold ind
      have := h a (by simp)
      simp [this]
    rw [h1, ih fun p hp => h p (by simp [hp])]

theorem hash_lt (key : Key) (order : Nat) : hash key order < 2 ^ order := by
  unfold hash
  have h1 : ∀ x : Nat, x &&& (2 ^ order - 1) ≤ 2 ^ order - 1 := fun x => Nat.and_le_right
  have h2 : 0 < 2 ^ order := Nat.two_pow_pos order
  have := h1 (((List.foldl (fun h c => (h ^^^ c) * FNV_PRIME % 2 ^ 32) FNV_OFFSET key) >>> order) ^^^
    (List.foldl (fun h c => (h ^^^ c) * FNV_PRIME % 2 ^ 32) FNV_OFFSET key))
  simp only at this ⊢
  omega

/-- `hashtable_put` of an absent key -/
def putNew (t : HT) (key : Key) (v : Val) : HT :=
  { (t.addTail (hash key t.order) ⟨t.nextId, key, v, 1, false, []⟩) with count := t.count + 1, nextId := t.nextId + 1 }

theorem putNew_inv {t : HT} (h : Inv t) {key : Key} (v : Val) (hl : t.lookup key = none) : Inv (putNew t key v) := by
  let n0 : Node := ⟨t.nextId, key, v, 1, false, []⟩
  have hb : hash key t.order < t.buckets.length := by rw [h.len]; exact hash_lt key t.order
  have hperm : (putNew t key v).flat.Perm (n0 :: t.flat) := modify_flatten_perm n0 t.buckets _ hb
  have hmemb : ∀ b' x, x ∈ (putNew t key v).bucketOf b' ↔ x ∈ t.bucketOf b' ∨ (b' = hash key t.order ∧ x = n0) := by
    intro b' x
    have := @mem_modify_getD n0 t.buckets (hash key t.order) b' x
    simp only [hb, true_and] at this
    exact this
  have hmem : ∀ x, x ∈ (putNew t key v).flat ↔ x = n0 ∨ x ∈ t.flat := by
    intro x; rw [hperm.mem_iff]; simp
  have hlive : (live (putNew t key v)).Perm (n0 :: live t) := by
    unfold live
    have := hperm.filter (fun n => !n.removed)
    simpa [List.filter_cons, n0] using this
  have hpk0 : parked t.iters t.nextId = 0 := by
    apply parked_eq_zero
    intro p hp e
    obtain ⟨x, hx, hxid⟩ := h.itNode p hp _ e
    have := h.fresh x (mem_flat_of_bucket hx)
    omega
  refine ⟨h.fix14, h.fix15, ?_, ?_, ?_, ?_, ?_, ?_, ?_, h.itKeys, h.noZero, ?_, h.notCrashed, ?_⟩
  · show (t.buckets.modify _ _).length = _
    rw [List.length_modify]; exact h.len
  · intro b' x hx
    rcases (hmemb b' x).1 hx with hx | ⟨rfl, rfl⟩
    · exact h.inBucket b' x hx
    · rfl
  · rw [(hperm.map (·.id)).nodup_iff]
    simp only [List.map_cons, List.nodup_cons]
    refine ⟨?_, h.idsNodup⟩
    intro hc
    obtain ⟨x, hx, hxid⟩ := List.mem_map.1 hc
    have := h.fresh x hx
    simp only [n0] at hxid
    omega
  · rw [(hlive.map (·.key)).nodup_iff]
    simp only [List.map_cons, List.nodup_cons]
    refine ⟨?_, h.keysNodup⟩
    intro hc
    obtain ⟨x, hx, hxk⟩ := List.mem_map.1 hc
    exact h.lookup_none hl x hx hxk
  · intro x hx
    rcases (hmem x).1 hx with rfl | hx
    · show 1 = base n0 + parked t.iters t.nextId
      rw [hpk0]; rfl
    · exact h.rc x hx
  · intro x hx hr
    rcases (hmem x).1 hx with rfl | hx
    · cases hr
    · exact h.zombie x hx hr
  · intro p hp id hid
    obtain ⟨x, hx, hxid⟩ := h.itNode p hp id hid
    exact ⟨x, (hmemb _ x).2 (Or.inl hx), hxid⟩
  · show t.count + 1 = _
    rw [hlive.length_eq, List.length_cons, h.count]
  · intro x hx
    show x.id < t.nextId + 1
    rcases (hmem x).1 hx with rfl | hx
    · show t.nextId < t.nextId + 1; omega
    · have := h.fresh x hx; omega

theorem put_eq (t : HT) (key : Key) (v : Val) :
    t.put key v = match t.lookup key with
      | none => (putNew t key v, (putNew t key v).notify ⟨t.nextId, key, v, 1, false, []⟩ EV_INSERTED key 0 v)
      | some n => (t.mapNode n.id fun x => { x with key := key, val := v },
          (t.mapNode n.id fun x => { x with key := key, val := v }).notify n EV_REPLACED n.key n.val v) := by
  unfold HT.put
  cases t.lookup key <;> rfl

theorem put_inv {t : HT} (h : Inv t) (key : Key) (v : Val) : Inv (t.put key v).1 := by
  rw [put_eq]
  cases hl : t.lookup key with
  | none => exact putNew_inv h v hl
  | some n =>
    obtain ⟨hn, _, hk⟩ := h.lookup_some hl
    refine h.of_map_same (upd n.id fun x => { x with key := key, val := v }) rfl ?_ rfl rfl rfl rfl rfl rfl rfl
    intro x hx
    unfold upd
    by_cases e : x.id = n.id
    · have := h.inj hx hn e
      subst this
      simp [hk]
    · simp [e]

/-- rewriting the notifier list of a node / of the table -/
theorem setNotifHead_inv {t : HT} (h : Inv t) (key : Option Key) (l : List Notifier) : Inv (t.setNotifHead key l) := by
  unfold HT.setNotifHead
  cases key with
  | none =>
    exact ⟨h.fix14, h.fix15, h.len, h.inBucket, h.idsNodup, h.keysNodup, h.rc, h.zombie, h.itNode, h.itKeys,
      h.noZero, h.count, h.notCrashed, h.fresh⟩
  | some k =>
    simp only
    cases hl : t.lookup k with
    | none => exact h
    | some n =>
      refine h.of_map_same (upd n.id fun x => { x with notifs := l }) rfl ?_ rfl rfl rfl rfl rfl rfl rfl
      intro x _
      unfold upd
      split <;> simp

theorem notifyAdd_inv {t : HT} (h : Inv t) (key : Option Key) (events id : Nat) : Inv (t.notifyAdd key events id).1 := by
  unfold HT.notifyAdd
  split
  · exact h
  · split
    · exact h
    · split
      · exact h
      · exact setNotifHead_inv h _ _

theorem notifyDel_inv {t : HT} (h : Inv t) (key : Option Key) (events : Nat) (id : Option Nat) :
    Inv (t.notifyDel key events id).1 := by
  unfold HT.notifyDel
  split
  · exact h
  · split
    · exact setNotifHead_inv h _ _
    · exact h

end QbVerif.Hashtable
