/-
C08: staleness of DESCRIPTOR registrations.  A registration is named by (poll entry i, check word c).  `PStep s s'`:
what the staleness argument needs from a step s → s' — scripts stay nonce-free, the random() counter does not
go back, the entry array does not shrink, the ghost log is untouched, and the check word of every entry is
either kept, or cleared (tombstone / emptied slot), or a word drawn by THIS step (larger than the counter
before).  Hence a word drawn earlier that an entry does not carry is never carried by it again.  Core Lean only.
-/
import QbVerif.Lemmas.LoopStale3
import QbVerif.Lemmas.LoopStruct5

namespace QbVerif.Loop
open QbVerif.Gen

def chkLeP (s : St) : Prop := ∀ j, (s.pe j).check ≤ s.nonce

structure PStep (s s' : St) : Prop where
  nn : NN s → NN s'
  nonce : s.nonce ≤ s'.nonce
  len : s.pes.length ≤ s'.pes.length
  pc : ∀ j, (s'.pe j).check = (s.pe j).check ∨ (s'.pe j).check = 0 ∨
    (s.nonce < (s'.pe j).check ∧ (s'.pe j).check ≤ s'.nonce)
  dlog : s'.dlog = s.dlog

theorem PStep.refl (s : St) : PStep s s := ⟨id, Nat.le_refl _, Nat.le_refl _, fun _ => Or.inl rfl, rfl⟩

theorem PStep.trans {a b c : St} (h1 : PStep a b) (h2 : PStep b c) : PStep a c := by
  refine ⟨fun h => h2.nn (h1.nn h), Nat.le_trans h1.nonce h2.nonce, Nat.le_trans h1.len h2.len, ?_,
    h2.dlog.trans h1.dlog⟩
  intro j
  have n1 := h1.nonce
  have n2 := h2.nonce
  rcases h2.pc j with e2 | e2 | e2 <;> rcases h1.pc j with e1 | e1 | e1 <;> omega

theorem PStep.chk {s s' : St} (t : PStep s s') (h : chkLeP s) : chkLeP s' := by
  intro j
  have h1 := t.pc j
  have h2 := h j
  have h3 := t.nonce
  omega

/-- a word drawn earlier that entry i does not carry is not carried by it after the step -/
theorem PStep.stale {s s' : St} (t : PStep s s') (i c : Nat) (h1 : 1 ≤ c) (h2 : c ≤ s.nonce)
    (h : (s.pe i).check ≠ c) : (s'.pe i).check ≠ c := by
  have := t.pc i
  omega

theorem PStep.of_tstep {s s' : St} (t : TStep s s') (hp : s'.pes = s.pes) : PStep s s' :=
  ⟨t.nn, t.nonce, by rw [hp]; exact Nat.le_refl _, fun j => Or.inl (by unfold St.pe; rw [hp]), t.dlog⟩

theorem PStep.ite {s a b : St} {c : Prop} [Decidable c] (ha : PStep s a) (hb : PStep s b) :
    PStep s (if c then a else b) := by split <;> assumption

theorem pe_setPe (s : St) (j i : Nat) (e : PollEntry) :
    (s.setPe j e).pe i =
      if (j < s.pes.length ∧ i = j) ∨ (¬ j < s.pes.length ∧ i = s.pes.length) then e else s.pe i := by
  unfold St.pe St.setPe setAt
  by_cases hj : j < s.pes.length
  · simp only [hj, if_true, true_and, not_true_eq_false, false_and, or_false]
    by_cases hij : i = j
    · subst hij; simp [List.getD, hj]
    · simp [List.getD, hij, List.getElem?_set, Ne.symm hij]
  · simp only [hj, if_false, false_and, not_false_eq_true, true_and, false_or]
    by_cases hil : i = s.pes.length
    · subst hil; simp [List.getD]
    · simp only [hil, if_false]
      by_cases hlt : i < s.pes.length
      · simp [List.getD, List.getElem?_append_left hlt]
      · have h1 : s.pes.length < i := by omega
        simp [List.getD, List.getElem?_eq_none (Nat.le_of_lt h1),
          List.getElem?_eq_none (show (s.pes ++ [e]).length ≤ i by simp; omega)]

/-- a step followed by a store into entry j whose check word is the current one, the one at the start of the
    step, zero, or a word drawn during the step -/
theorem PStep.setPe {s0 s : St} (h : PStep s0 s) (j : Nat) (e : PollEntry)
    (he : e.check = (s.pe j).check ∨ e.check = (s0.pe j).check ∨ e.check = 0 ∨
      (s0.nonce < e.check ∧ e.check ≤ s.nonce)) : PStep s0 (s.setPe j e) := by
  refine ⟨fun hn => by unfold NN; rw [setPe_scripts]; exact h.nn hn, by rw [setPe_nonce]; exact h.nonce, ?_, ?_,
    by rw [setPe_dlog]; exact h.dlog⟩
  · rw [setPe_len]; have := h.len; split <;> omega
  · intro i
    rw [pe_setPe, setPe_nonce]
    split
    · rename_i hc
      rcases he with he | he | he | he
      · rcases hc with ⟨_, rfl⟩ | ⟨hge, _⟩
        · rw [he]; exact h.pc i
        · rw [pe_ge s j hge] at he; exact Or.inr (Or.inl he)
      · rcases hc with ⟨_, rfl⟩ | ⟨hge, _⟩
        · exact Or.inl he
        · have hge0 : ¬ j < s0.pes.length := by have := h.len; omega
          rw [pe_ge s0 j hge0] at he; exact Or.inr (Or.inl he)
      · exact Or.inr (Or.inl he)
      · exact Or.inr (Or.inr he)
    · exact h.pc i

theorem setPe_pstep (s : St) (j : Nat) (e : PollEntry) (he : e.check = (s.pe j).check ∨ e.check = 0) :
    PStep s (s.setPe j e) :=
  (PStep.refl s).setPe j e (he.elim Or.inl (fun h => Or.inr (Or.inr (Or.inl h))))

/-! ### the abstract epoll set, `_poll_add_`, qb_loop_poll_add / _mod / _del -/

theorem ite_st {c : Prop} [Decidable c] {α : Type} (f : St → α) (a b : St) (x : α) (ha : f a = x) (hb : f b = x) :
    f (if c then a else b) = x := by split <;> assumption

theorem epAdd_pn (s : St) (n : Bool) (fd ev chk slot : Nat) :
    (s.epAdd n fd ev chk slot).1.pes = s.pes ∧ (s.epAdd n fd ev chk slot).1.nonce = s.nonce := by
  unfold St.epAdd; dsimp only
  exact ⟨ite_st (·.pes) _ _ _ rfl rfl, ite_st (·.nonce) _ _ _ rfl rfl⟩

theorem epMod_pes (s : St) (n : Bool) (fd ev chk slot : Nat) : (s.epMod n fd ev chk slot).1.pes = s.pes := by
  unfold St.epMod; dsimp only; exact ite_st (·.pes) _ _ _ rfl rfl

theorem epDel_pes (s : St) (n : Bool) (fd : Nat) : (s.epDel n fd).1.pes = s.pes := by
  unfold St.epDel; dsimp only; exact ite_st (·.pes) _ _ _ rfl rfl

theorem pollAddCore_pstep (s : St) (n : Bool) (p fd ev id : Nat) : PStep s (s.pollAddCore n p fd ev id).1 := by
  unfold St.pollAddCore
  dsimp only
  have h1 : PStep s s.draw.2 := PStep.of_tstep (draw_tstep s) rfl
  have h2 := h1.setPe (firstEmptyP s.pes)
    { s.pe (firstEmptyP s.pes) with state := .active, check := s.draw.1, fd := fd, events := ev, revents := 0, data := id, prio := p }
    (Or.inr (Or.inr (Or.inr ⟨Nat.lt_succ_self _, Nat.le_refl _⟩)))
  have hpn := epAdd_pn (s.draw.2.setPe (firstEmptyP s.pes)
    { s.pe (firstEmptyP s.pes) with state := .active, check := s.draw.1, fd := fd, events := ev, revents := 0, data := id, prio := p })
    n fd ev s.draw.1 (firstEmptyP s.pes)
  have h3 := h2.trans (PStep.of_tstep (epAdd_tstep _ n fd ev s.draw.1 (firstEmptyP s.pes)) hpn.1)
  split
  · exact h3
  · split
    · exact h3.setPe _ _ (Or.inr (Or.inr (Or.inl rfl)))
    · refine h3.setPe _ _ (Or.inr (Or.inr (Or.inr ⟨Nat.lt_succ_self _, ?_⟩)))
      rw [hpn.2, setPe_nonce]; exact Nat.le_refl _

theorem pollAdd_pstep (s : St) (n : Bool) (p fd ev id : Nat) : PStep s (s.pollAdd n p fd ev id).1 := by
  unfold St.pollAdd
  have h := pollAddCore_pstep s n p fd ev id
  generalize s.pollAddCore n p fd ev id = r at h ⊢
  obtain ⟨s1, res, i, evs⟩ := r
  dsimp only at h ⊢
  split
  · exact h
  · exact h.setPe _ _ (Or.inl rfl)

theorem pollMod_pstep (s : St) (n : Bool) (p fd ev id : Nat) : PStep s (s.pollMod n p fd ev id).1 := by
  unfold St.pollMod
  split
  · exact PStep.refl s
  · dsimp only
    split
    · exact PStep.refl s
    · split
      · have h1 := setPe_pstep s _ { s.pe ‹Nat› with data := id, prio := p } (Or.inl rfl)
        have h2 := h1.trans (PStep.of_tstep (epMod_tstep _ n fd ev (s.pe ‹Nat›).check ‹Nat›) (epMod_pes _ _ _ _ _ _))
        exact h2.setPe _ _ (Or.inr (Or.inl rfl))
      · exact setPe_pstep s _ _ (Or.inl rfl)

theorem pollDel_pstep (s : St) (n : Bool) (fd : Nat) : PStep s (s.pollDel n fd).1 := by
  unfold St.pollDel
  split
  · exact PStep.refl s
  · dsimp only
    split
    · exact PStep.refl s
    · rename_i i _ _
      generalize hs1 : (if (s.pe i).state == EState.joblist then s.itemDel (s.pe i).prio (.fd i) else s) = s1
      have h1 : PStep s s1 := by
        subst hs1; exact PStep.ite (PStep.of_tstep (itemDel_tstep _ _ _) (by simp)) (PStep.refl s)
      exact (h1.trans (PStep.of_tstep (epDel_tstep s1 n fd) (epDel_pes _ _ _))).setPe _ _ (Or.inr (Or.inr (Or.inl rfl)))

/-! ### signals, epoll events, the top of the loop body -/

theorem sigAddToJobs_pstep (s : St) (slot : Nat) : PStep s (s.sigAddToJobs slot) := by
  unfold St.sigAddToJobs
  split
  · exact PStep.refl s
  · dsimp only
    rename_i sg rest _
    generalize hs1 : ({ s with pipe := rest } : St).setPe slot _ = s1
    have h1 : PStep s s1 := by
      subst hs1
      exact (PStep.of_tstep (s := s) (s' := { s with pipe := rest }) (TStep.of_eq rfl rfl rfl rfl rfl) rfl).setPe _ _ (Or.inr (Or.inl rfl))
    generalize List.filter (fun r => r.signal == sg) s1.regs = rs
    clear hs1
    induction rs generalizing s1 with
    | nil => exact h1
    | cons r rs ih =>
      simp only [List.foldl_cons]
      apply ih
      refine h1.trans (PStep.trans (b := { s1 with nextAid := s1.nextAid + 1 })
        (PStep.of_tstep (TStep.of_eq rfl rfl rfl rfl rfl) rfl) (PStep.of_tstep (itemAdd_tstep _ _ _) (by simp [St.itemAdd])))

theorem pollEvent_pstep (s : St) (r : EpReg) (rev : Nat) : PStep s (s.pollEvent r rev).1 := by
  unfold St.pollEvent
  dsimp only
  split
  · exact PStep.refl s
  · split
    · exact PStep.refl s
    · split
      · exact setPe_pstep _ _ _ (Or.inl rfl)
      · split
        · refine PStep.trans (setPe_pstep s _ _ ?_) (sigAddToJobs_pstep _ _)
          exact Or.inl rfl
        · refine PStep.setPe (PStep.trans (setPe_pstep s _ _ ?_) (PStep.of_tstep (itemAdd_tstep _ _ _) ?_)) _ _ ?_
          · exact Or.inl rfl
          · simp [St.itemAdd]
          · exact Or.inr (Or.inl rfl)
        · refine PStep.trans (setPe_pstep s _ _ ?_) (PStep.of_tstep (TStep.of_core rfl (Nat.le_refl _) ?_ rfl rfl) rfl)
          · exact Or.inl rfl
          · intro h; dsimp only; split <;> simp_all

theorem timerPollAux_pes (n : Nat) (s : St) (k : Int) : (St.timerPollAux n s k).1.pes = s.pes := by
  induction n generalizing s k with
  | zero => rfl
  | succ n ih =>
    rw [St.timerPollAux]
    split
    · rfl
    · split
      · rw [ih]; dsimp only; rw [setTimer_pes, itemAdd_pes]; split <;> rfl
      · rfl

theorem usageCheck_pstep (s : St) : PStep s s.usageCheck := by
  refine ⟨fun h => h, Nat.le_refl _, by simp [St.usageCheck], ?_, rfl⟩
  intro j
  unfold St.pe St.usageCheck
  by_cases hj : j < s.pes.length
  · simp only [List.getD, List.getElem?_map, List.getElem?_eq_getElem hj, Option.map_some, Option.getD_some]
    split
    · exact Or.inr (Or.inl rfl)
    · exact Or.inl rfl
  · have hj' : s.pes.length ≤ j := Nat.le_of_not_lt hj
    simp [List.getD, List.getElem?_eq_none hj']

theorem beginIteration_pstep (s : St) : PStep s s.beginIteration := by
  unfold St.beginIteration
  dsimp only
  generalize hs0 : ({ s with pstop := if s.pstop = QB_LOOP_LOW then QB_LOOP_HIGH else s.pstop - 1 } : St) = s0
  have h1 : PStep s s0 := by subst hs0; exact PStep.of_tstep (TStep.of_eq rfl rfl rfl rfl rfl) rfl
  have h2 : PStep s0 s0.jobPoll.1 := PStep.of_tstep (jobPoll_tstep s0) rfl
  have h3 := PStep.of_tstep (timerPollAux_tstep s0.jobPoll.1.tl.length s0.jobPoll.1 0) (timerPollAux_pes _ _ _)
  exact (((h1.trans h2).trans h3).trans (usageCheck_pstep _)).trans (PStep.of_tstep (TStep.of_eq rfl rfl rfl rfl rfl) rfl)

end QbVerif.Loop
