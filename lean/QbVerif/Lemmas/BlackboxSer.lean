/-
C11, blackbox layer: what `_blackbox_vlogger` needs to know about `qb_vsnprintf_serialize`
(property C14's model): everything it stores lies within `max_len` (so within the reservation),
the bytes of a record are as many as its return value says, and the fixed "too long" text takes
78 bytes whatever the arguments.
-/
import QbVerif.Model.Blackbox
import QbVerif.Lemmas.SerBounds

namespace QbVerif.BlackboxLemmas
open QbVerif.Ser QbVerif.Blackbox

theorem store_ok (b : Buf) (idx : Nat) (bs : Bytes) (h : b.data.length ≤ b.hi) :
    (b.store idx bs).data.length ≤ (b.store idx bs).hi := by
  unfold Buf.store
  split
  · exact h
  · simp only [writeAt_length]; omega

/-- the stored bytes never extend beyond the highest index stored -/
theorem serStep_dl (cfg : Cfg) (maxLen : Nat) (s : SerSt) (c : UInt8) (peek : Option UInt8)
    (h : s.buf.data.length ≤ s.buf.hi) :
    (serStep cfg maxLen s c peek).buf.data.length ≤ (serStep cfg maxLen s c peek).buf.hi := by
  unfold serStep serFixed myStrlcpy
  repeat' split
  all_goals first | exact h | exact store_ok _ _ _ h | (simp only; first | exact h | exact store_ok _ _ _ h) |
    (simp only; split <;> first | exact h | exact store_ok _ _ _ h)

theorem serRun_dl (cfg : Cfg) (maxLen : Nat) (s : SerSt) (f : Bytes) (h : s.buf.data.length ≤ s.buf.hi) :
    (serRun cfg maxLen s f).buf.data.length ≤ (serRun cfg maxLen s f).buf.hi := by
  induction f generalizing s with
  | nil => exact h
  | cons c rest ih => exact ih _ (serStep_dl cfg maxLen s c _ h)

theorem serInit_dl (cfg : Cfg) (fmt : Bytes) (args : List Arg) (maxLen : Nat) :
    (serInit cfg fmt args maxLen).buf.data.length ≤ (serInit cfg fmt args maxLen).buf.hi := by
  have h0 : (myStrlcpy ⟨[], 0⟩ 0 (cstr fmt) maxLen).1.data.length ≤ (myStrlcpy ⟨[], 0⟩ 0 (cstr fmt) maxLen).1.hi := by
    unfold myStrlcpy
    simp only
    split
    · exact Nat.le_refl _
    · exact store_ok _ _ _ (Nat.le_refl _)
  unfold serInit xcPatch
  simp only
  repeat' split
  all_goals first | exact h0 | exact store_ok _ _ _ h0

/-- **Everything the encoder stores lies within `max_len`.** -/
theorem serStores_le (cfg : Cfg) (hcfg : cfg.strRoom = true) (fmt : Bytes) (args : List Arg) (maxLen : Nat)
    (hm : 1 ≤ maxLen) : (serStores cfg fmt args maxLen).length ≤ maxLen := by
  have h1 := serRun_dl cfg maxLen _ (cstr fmt) (serInit_dl cfg fmt args maxLen)
  have h2 := (serRun_inv cfg hcfg maxLen _ (cstr fmt) (serInit_inv cfg fmt args maxLen hm)).1
  unfold serStores
  omega

/-- C14's bound (`ser_within_max`, first half): the return value is at most `max_len` -/
theorem ser_ret_le (cfg : Cfg) (hcfg : cfg.strRoom = true) (fmt : Bytes) (args : List Arg) (maxLen : Nat)
    (hm : 1 ≤ maxLen) : (serialize cfg fmt args maxLen).ret ≤ maxLen := by
  obtain ⟨_, h2, h3⟩ := serRun_inv cfg hcfg maxLen _ (cstr fmt) (serInit_inv cfg fmt args maxLen hm)
  unfold serialize serFinal
  simp only
  cases hr : (serRun cfg maxLen (serInit cfg fmt args maxLen) (cstr fmt)).ret with
  | none => simpa [hr] using h2 hr
  | some r => simpa [hr] using h3 r hr

/-- the bytes of the record are as many as the return value says -/
theorem ser_bytes_length (cfg : Cfg) (hcfg : cfg.strRoom = true) (fmt : Bytes) (args : List Arg) (maxLen : Nat)
    (hm : 1 ≤ maxLen) : (serialize cfg fmt args maxLen).bytes.length = (serialize cfg fmt args maxLen).ret := by
  have h := ser_ret_le cfg hcfg fmt args maxLen hm
  unfold serialize serFinal at h ⊢
  simp only [List.length_append, List.length_take, List.length_replicate] at h ⊢
  omega

/-- in text mode a character other than '%' changes nothing -/
theorem serRun_text (cfg : Cfg) (maxLen : Nat) (s : SerSt) (f : Bytes) (hd : s.inDir = false) (hs : s.skip = false)
    (hf : ∀ b ∈ f, b ≠ 0x25) : serRun cfg maxLen s f = s := by
  induction f with
  | nil => rfl
  | cons c rest ih =>
    have hc : c ≠ 0x25 := hf c List.mem_cons_self
    have : serStep cfg maxLen s c rest.head? = s := by
      unfold serStep
      simp [hd, hs, hc]
    rw [serRun, this]
    exact ih (fun b hb => hf b (List.mem_cons_of_mem _ hb))

/-- the "too long" text takes 78 bytes, whatever encoder variant and arguments -/
theorem tooLong_ret (cfg : Cfg) (args : List Arg) :
    (serialize cfg TOO_LONG args Gen.BBX_LOG_MAX_LEN).ret = 78 := by
  have hc : cstr TOO_LONG = TOO_LONG := by decide
  unfold serialize
  rw [hc, serRun_text cfg _ _ TOO_LONG rfl rfl (by decide)]
  rfl

/-- … and these 78 bytes are all it stores -/
theorem tooLong_stores (cfg : Cfg) (args : List Arg) :
    (serStores cfg TOO_LONG args Gen.BBX_LOG_MAX_LEN).length = 78 := by
  have hc : cstr TOO_LONG = TOO_LONG := by decide
  unfold serStores
  rw [hc, serRun_text cfg _ _ TOO_LONG rfl rfl (by decide)]
  rfl

end QbVerif.BlackboxLemmas
