import QbVerif.Lemmas.IpcsLifeSvcTop2
import QbVerif.Lemmas.IpcsLifeInvTop7

/-! C04 — service count: handle_new_connection (incl. refused / failing transport), finish, every
    operation, every history. -/
namespace QbVerif.IpcsLife

/-- qb_ipcs_uc_recv_and_auth + qb_ipcs_connection_alloc: two references taken -/
theorem connA_svc {s : St} {p : Nat} (h : SvcInv s p) (hg : s.svcGone = false) : SvcInv (connA s) (p+1) := by
  have hal := h.alive hg
  have hc : cntF (frOf (connA s)) s.nconn = cntF (frOf s) s.nconn := by
    apply cntF_congr
    intro i _ h2
    have : i ≠ s.nconn + 1 := by omega
    simp [frOf, connA, this]
  constructor
  · exact h.nu
  · intro i hi
    have hi' : i = 0 ∨ s.nconn + 1 < i := hi
    have : i ≠ s.nconn + 1 := by omega
    simp only [connA, upd_conns, this, if_false]
    exact h.out i (by omega)
  · intro c hc'
    have := h.lst c hc'
    unfold inR at this ⊢
    show 1 ≤ c ∧ c ≤ s.nconn + 1
    omega
  · show s.svcRc + 2 + cntF (frOf (connA s)) (s.nconn + 1) =
      b2n (!s.svcGone) + (s.nconn + 1) + s.halfs.length + (p + 1)
    have hn : frOf (connA s) (s.nconn + 1) = false := by simp [frOf, connA]
    rw [cntF, hc, hn]; have := h.cnt; simp; omega
  · show s.svcFreed = true ↔ s.svcRc + 2 = 0
    rw [hal.2]; simp
  · exact h.hnd

theorem connRejPost_svc {s : St} {p : Nat} (h : SvcInv s (p+1)) (r : Int) :
    ∃ p', SvcInv (connRejPost s r) p' ∧ ((connRejPost s r).halt = false → p' = p) := by
  unfold connRejPost
  split
  · next hh => exact ⟨p+1, h, fun hx => by rw [hh] at hx; cases hx⟩
  · next hh => exact ⟨p, (h.unref (by simpa using hh)).eqv (svEq_emit _ _), fun _ => rfl⟩

theorem connFin_svc {s : St} {p : Nat} (h : SvcInv s (p+1)) (K c : Nat) :
    ∃ p', SvcInv (connFin s K c) p' ∧ ((connFin s K c).halt = false → p' = p) := by
  simp only [connFin]
  split
  · next hh => exact ⟨p+1, h, fun hx => by rw [hh] at hx; cases hx⟩
  · next hh =>
    have hu := h.unref (by simpa using hh)
    refine ⟨p, ?_, fun _ => rfl⟩
    split
    · exact (hu.eqv (⟨rfl, rfl, rfl, rfl, rfl, rfl, rfl, rfl⟩ :
        SvEq s.svcUnref { s.svcUnref with clients := (K, c) :: s.svcUnref.clients })).eqv (svEq_ok _)
    · exact hu.eqv (svEq_ok _)

theorem connActPre_svc {s : St} {p : Nat} (h : SvcInv s p) (c : Nat) (hr : inR s c) :
    SvcInv (connActPre s c) p := by
  unfold connActPre
  have h0 : SvcInv ({ s with list := c :: s.list } : St) p :=
    ⟨h.nu, h.out, fun x hx => by
      cases hx with
      | head => exact hr
      | tail _ hx => exact h.lst x hx, h.cnt, h.fz, h.hnd⟩
  exact ((h0.upd c _ rfl (Or.inl hr)).cb .created c 0 hr).upd c _ rfl (Or.inl hr)

theorem connEstPre_svc {s : St} {p : Nat} (h : SvcInv s p) (c : Nat) (hr : inR s c) :
    SvcInv (connEstPre s c) p := by
  unfold connEstPre
  refine (h.upd c _ ?_ (Or.inl hr)).dec c _ (fun _ => rfl) hr
  by_cases hx : (s.conns c).st = .active <;> simp [hx]

theorem connRejPre_svc {s : St} {p : Nat} (h : SvcInv s p) (c : Nat) (hr : inR s c) :
    SvcInv (connRejPre s c) p :=
  (h.upd c _ rfl (Or.inl hr)).dec c _ (fun _ => rfl) hr

/-- handle_new_connection: the pending handshake's reference is dropped on every completed path -/
theorem connectGo_svc {s : St} {p : Nat} (h : SvcInv s p) (hg : s.svcGone = false) (K : Nat) (cerr : Int) :
    ∃ p', SvcInv (connectGo s K cerr) p' ∧ ((connectGo s K cerr).halt = false → p' = p) := by
  have hA := connA_svc h hg
  have hrA : inR (connA s) (s.nconn + 1) := ⟨by omega, Nat.le_refl _⟩
  simp only [connectGo]
  generalize hq : (connA s).pop .accept = q
  have h1 : SvcInv q.2 (p+1) := by rw [← hq]; exact hA.eqv (svEq_pop _ _)
  have hr1 : inR q.2 (s.nconn + 1) := by rw [← hq]; exact inR_pop _ hrA
  have h2 := exec_svc FUEL (.ops (s.nconn + 1) q.1.ops) (h1.cb .accept (s.nconn + 1) q.1.ret hr1) trivial
  have hr2 : inR (exec FUEL (q.2.cb .accept (s.nconn + 1) q.1.ret) (.ops (s.nconn + 1) q.1.ops))
      (s.nconn + 1) := inR_exec _ _ hr1
  generalize exec FUEL (q.2.cb .accept (s.nconn + 1) q.1.ret) (.ops (s.nconn + 1) q.1.ops) = s2 at h2 hr2 ⊢
  split
  · next hh => exact ⟨p+1, h2, fun hx => by rw [hh] at hx; cases hx⟩
  · split
    · exact connRejPost_svc (exec_svc FUEL (.zero (s.nconn + 1)) (connRejPre_svc h2 _ hr2)
        (inR_nc (by simp [connRejPre]) hr2)) _
    · split
      · next hh => exact ⟨p+1, h2.touch _, fun hx => by rw [hh] at hx; cases hx⟩
      · have h3 := h2.touch (s.nconn + 1)
        have hr3 : inR (s2.touch (s.nconn + 1)) (s.nconn + 1) := hr2
        generalize s2.touch (s.nconn + 1) = s3 at h3 hr3 ⊢
        generalize hq2 : (connActPre s3 (s.nconn + 1)).pop .created = q2
        have h4 : SvcInv q2.2 (p+1) := by
          rw [← hq2]; exact (connActPre_svc h3 _ hr3).eqv (svEq_pop _ _)
        have hr4 : inR q2.2 (s.nconn + 1) := by
          rw [← hq2]; exact inR_pop _ (inR_nc (by simp [connActPre]) hr3)
        have h5 := exec_svc FUEL (.ops (s.nconn + 1) q2.1.ops) h4 trivial
        have hr5 : inR (exec FUEL q2.2 (.ops (s.nconn + 1) q2.1.ops)) (s.nconn + 1) := inR_exec _ _ hr4
        generalize exec FUEL q2.2 (.ops (s.nconn + 1) q2.1.ops) = s5 at h5 hr5 ⊢
        split
        · next hh => exact ⟨p+1, h5, fun hx => by rw [hh] at hx; cases hx⟩
        · split
          · next hh => exact ⟨p+1, h5.touch _, fun hx => by rw [hh] at hx; cases hx⟩
          · have hr6 : inR (s5.touch (s.nconn + 1)) (s.nconn + 1) := hr5
            exact connFin_svc (exec_svc FUEL (.zero (s.nconn + 1))
              (connEstPre_svc (h5.touch _) _ hr6) (inR_nc (by simp [connEstPre]) hr6)) _ _

theorem skipRes_svc {s : St} {p : Nat} (h : SvcInv s p) : SvcInv s.skipRes p := h.eqv (svEq_emit _ _)

theorem connect_svc {s : St} {p : Nat} (h : SvcInv s p) (hh : s.halt = false) (K : Nat) :
    ∃ p', SvcInv (connect s K) p' ∧ ((connect s K).halt = false → p' = p) := by
  simp only [connect]
  split
  · exact ⟨p, skipRes_svc h, fun _ => rfl⟩
  · next hc =>
    have hg : s.svcGone = false := by
      cases hx : s.svcGone
      · rfl
      · exfalso; apply hc; simp [hx]
    have e := svEq_pollAdd s
    split
    · exact ⟨p, authRefused_svc (h.eqv e.1) (e.1.gone.trans hg) (e.2.trans hh), fun _ => rfl⟩
    · have e2 := svEq_transportAdd s.pollAdd.2 (peekAccept s)
      exact connectGo_svc ((h.eqv e.1).eqv e2) (e2.gone.trans (e.1.gone.trans hg)) K _

theorem dropAppRefs_svc {p : Nat} (c : Nat) : ∀ (n : Nat) (s : St), SvcInv s p → SvcInv (dropAppRefs n s c) p
  | 0, _, h => h
  | n+1, s, h => by
    simp only [dropAppRefs]
    split
    · exact h
    · split
      · exact dropAppRefs_svc c n _ (exec_svc FUEL (.app 0 (.u c)) h trivial)
      · exact h

theorem foldl_svc {α : Type} {p : Nat} (f : St → α → St) (hf : ∀ s a, SvcInv s p → SvcInv (f s a) p) :
    ∀ (l : List α) (s : St), SvcInv s p → SvcInv (l.foldl f s) p
  | [], _, h => h
  | a :: l, s, h => foldl_svc f hf l _ (hf s a h)

theorem finish_svc {s : St} {p : Nat} (h : SvcInv s p) : SvcInv (finish s) p := by
  rw [finish_eq]
  have hA : SvcInv (finA s) p := foldl_svc _ (fun s i h => dropAppRefs_svc _ _ s h) _ s h
  have hB : SvcInv (finB (finA s)) p := by
    refine foldl_svc _ (fun w i hw => ?_) _ _ hA
    have hw1 : SvcInv (match gone w i with | some s' => s' | none => w) p := by
      split
      · next s' hs => exact gone_svc hw i s' hs
      · exact hw
    show SvcInv (if w.halt then w else
      if (match gone w i with | some s' => s' | none => w).halt then
        (match gone w i with | some s' => s' | none => w) else
      if (match gone w i with | some s' => s' | none => w).halfs.contains i then
        halfGone (match gone w i with | some s' => s' | none => w) i
      else (match gone w i with | some s' => s' | none => w)) p
    generalize (match gone w i with | some s' => s' | none => w) = w1 at hw1 ⊢
    by_cases h1 : w.halt = true
    · simp only [h1, if_true]; exact hw
    · by_cases h2 : w1.halt = true
      · simp only [h1, h2, if_true, if_false]; exact hw1
      · by_cases h3 : w1.halfs.contains i = true
        · simp only [h1, h2, h3, if_true, if_false]
          exact halfGone_svc hw1 i (by simpa using h3) (by simpa using h2)
        · simp only [h1, h2, h3, if_false]; exact hw1
  generalize finB (finA s) = w at hB ⊢
  simp only [finC]
  have h1 : SvcInv (if w.svcGone = true then w else destroy w) p := by
    split
    · exact hB
    · next hg => exact destroy_svc hB (by simpa using hg)
  generalize (if w.svcGone = true then w else destroy w) = w2 at h1 ⊢
  have h2 := runJobs_svc 1000 _ h1
  generalize runJobs 1000 w2 = w3 at h2 ⊢
  split
  · exact hB
  · split
    · exact h2
    · exact h2.eqv (svEq_emit _ _)

/-- between operations: no handshake is inside handle_new_connection unless a sanitizer outcome stopped it -/
def SvcTop (s : St) : Prop := ∃ p, SvcInv s p ∧ (s.halt = false → p = 0)

theorem SvcTop.of {s : St} (h : SvcInv s 0) : SvcTop s := ⟨0, h, fun _ => rfl⟩

theorem ok_svc {s : St} {p : Nat} (h : SvcInv s p) : SvcInv s.ok p := h.eqv (svEq_ok s)

theorem step_svc (s : St) (op : Op) (ht : SvcTop s) : SvcTop (step s op) := by
  unfold step
  split
  · exact ht
  · next hh0 =>
    have hh : s.halt = false := by simpa using hh0
    obtain ⟨p, h, hp⟩ := ht
    have hp0 := hp hh
    subst hp0
    cases op with
    | script k es =>
      refine SvcTop.of (ok_svc (h.eqv ?_))
      cases k <;> exact ⟨rfl, rfl, rfl, rfl, rfl, rfl, rfl, rfl⟩
    | connect K =>
      obtain ⟨p', a, b⟩ := connect_svc h hh K
      exact ⟨p', a, b⟩
    | send K =>
      simp only []
      split
      · exact SvcTop.of (skipRes_svc h)
      · refine SvcTop.of (ok_svc ?_)
        split
        · next hs => exact dispatchMsg_svc h _ (sees_inR h hs)
        · exact h
    | gone K =>
      simp only []
      split
      · exact SvcTop.of (skipRes_svc h)
      · next s' hs => exact SvcTop.of (ok_svc (gone_svc h K s' hs))
    | app o => exact SvcTop.of (ok_svc (exec_svc FUEL (.app 0 o) h trivial))
    | destroy =>
      simp only []
      split
      · exact SvcTop.of (skipRes_svc h)
      · next hg => exact SvcTop.of (ok_svc (destroy_svc h (by simpa using hg)))
    | job =>
      simp only []
      split
      · exact SvcTop.of (skipRes_svc h)
      · next s' hs => exact SvcTop.of (ok_svc (runJob_svc h s' hs))
    | run => exact SvcTop.of (ok_svc (runJobs_svc 1000 s h))
    | half P =>
      simp only []
      split
      · exact SvcTop.of (skipRes_svc h)
      · next hc =>
        have hg : s.svcGone = false := by
          cases hx : s.svcGone
          · rfl
          · exfalso; apply hc; simp [hx]
        have hP : P ∉ s.halfs := by
          intro hm; apply hc; simp [hm]
        have e := svEq_pollAdd s
        split
        · exact SvcTop.of (authRefused_svc (h.eqv e.1) (e.1.gone.trans hg) (e.2.trans hh))
        · exact SvcTop.of (ok_svc (half_svc h P hg hP))
    | halfgone P =>
      simp only []
      split
      · next hc => exact SvcTop.of (ok_svc (halfGone_svc h P (by simpa using hc) hh))
      · exact SvcTop.of (skipRes_svc h)
    | finish => exact SvcTop.of (finish_svc h)
    | sendn K n =>
      simp only []
      split
      · exact SvcTop.of (skipRes_svc h)
      · exact SvcTop.of (ok_svc (sendLoop_svc _ n s n h))
    | rate r =>
      simp only []
      split
      · exact SvcTop.of (skipRes_svc h)
      · next hg => exact SvcTop.of (ok_svc (rateLimit_svc h r (by simpa using hg)))
    | fault kind n =>
      refine SvcTop.of (ok_svc ?_)
      split
      · exact h.eqv ⟨rfl, rfl, rfl, rfl, rfl, rfl, rfl, rfl⟩
      · exact h

theorem run_svc (ops : List Op) : ∀ (s : St), SvcTop s → SvcTop (run s ops) := by
  induction ops with
  | nil => intro s h; exact h
  | cons op ops ih => intro s h; exact ih _ (step_svc s op h)

theorem init_svc (s : St) (hc : s.conns = fun _ => {}) (hn : s.nconn = 0) (hl : s.list = [])
    (hr : s.svcRc = 1) (hf : s.svcFreed = false) (hg : s.svcGone = false) (hu : s.svcUaf = false)
    (hh : s.halfs = []) : SvcTop s := by
  refine SvcTop.of ?_
  constructor
  · exact hu
  · intro i _; rw [hc]
  · intro c hc'; rw [hl] at hc'; cases hc'
  · rw [hr, hn, hg, hh]; rfl
  · rw [hf, hr]; simp
  · rw [hh]; exact List.nodup_nil

theorem initFixed_svc : SvcTop initFixed := init_svc _ rfl rfl rfl rfl rfl rfl rfl rfl
theorem initOrig_svc : SvcTop initOrig := init_svc _ rfl rfl rfl rfl rfl rfl rfl rfl

end QbVerif.IpcsLife
