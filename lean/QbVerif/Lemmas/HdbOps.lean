/-
Effect of each handle-database call on the table, in terms of `Tbl.get` only, and preservation of
the global invariant `G` (C20).
-/
import QbVerif.Lemmas.HdbBasic

namespace QbVerif.Hdb
open QbVerif.Gen

/-! ### get -/

/-- condition under which `qb_hdb_handle_get` accepts `h` (normal form) -/
def St.getOk (st : St) (h : Nat) : Prop :=
  hSlot h < st.handleCount ∧ (st.tbl.get (hSlot h)).state = ACTIVE ∧
    (hCheck h = NOCHECK ∨ hCheck h = (st.tbl.get (hSlot h)).check)

instance (st : St) (h : Nat) : Decidable (st.getOk h) := by unfold St.getOk; infer_instance

/-- condition under which put / destroy / refcount_get accept `h` (normal form) -/
def St.lookOk (st : St) (h : Nat) : Prop :=
  hSlot h < st.handleCount ∧ (hCheck h = NOCHECK ∨ hCheck h = (st.tbl.get (hSlot h)).check)

instance (st : St) (h : Nat) : Decidable (st.lookOk h) := by unfold St.lookOk; infer_instance

theorem get_refused {st : St} (g : G st) {h : Nat} (hn : ¬ st.getOk h) :
    st.get h = (st, EBADF, none) := by
  unfold St.get
  rw [lookupGet_eq g]
  unfold St.getOk at hn
  simp [hn]

theorem get_accepted {st : St} (g : G st) {h : Nat} (hy : st.getOk h) :
    st.get h = ({ st with tbl := st.tbl.set (hSlot h) ({ (st.tbl.get (hSlot h)) with
                    refCount := (st.tbl.get (hSlot h)).refCount + 1 }) },
                0, (st.tbl.get (hSlot h)).inst) := by
  unfold St.get
  rw [lookupGet_eq g]
  unfold St.getOk at hy
  simp [hy]

/-! ### put -/

theorem put_refused {st : St} (g : G st) {h : Nat} (hn : ¬ st.lookOk h) :
    st.put h = (st, [.rc EBADF]) := by
  unfold St.put
  rw [lookup_eq g]
  unfold St.lookOk at hn
  simp [hn]

theorem put_accepted {st : St} (g : G st) {h : Nat} (hy : st.lookOk h) :
    st.put h =
      if (st.tbl.get (hSlot h)).refCount = 1 then
        ({ st with tbl := st.tbl.set (hSlot h) Entry.zero }, [.dtor (st.tbl.get (hSlot h)).inst, .rc 0])
      else
        ({ st with tbl := st.tbl.set (hSlot h) ({ (st.tbl.get (hSlot h)) with
            refCount := (st.tbl.get (hSlot h)).refCount - 1 }) }, [.rc 0]) := by
  unfold St.put
  rw [lookup_eq g]
  unfold St.lookOk at hy
  simp [hy]

theorem refcount_refused {st : St} (g : G st) {h : Nat} (hn : ¬ st.lookOk h) :
    st.refcountGet h = EBADF := by
  unfold St.refcountGet
  rw [lookup_eq g]
  unfold St.lookOk at hn
  simp [hn]

theorem refcount_accepted {st : St} (g : G st) {h : Nat} (hy : st.lookOk h) :
    st.refcountGet h = (st.tbl.get (hSlot h)).refCount := by
  unfold St.refcountGet
  rw [lookup_eq g]
  unfold St.lookOk at hy
  simp [hy]

/-! ### preservation of `G` by a table update -/

theorem G.setEntry {st : St} (g : G st) (i : Nat) (e : Entry) (it : Nat)
    (hc : e.check < 2^32) (hi : ∀ k, e.inst = some k → k < st.nextObj)
    (ha : e.state = ACTIVE → e.inst ≠ none) :
    G { st with tbl := st.tbl.set i e, iterator := it } where
  hcMax := g.hcMax
  maxLe := g.maxLe
  checkLt j := by
    show ((st.tbl.set i e).get j).check < 2^32
    rw [Tbl.get_set]; split
    · exact hc
    · exact g.checkLt j
  instLt j k := by
    show ((st.tbl.set i e).get j).inst = some k → k < st.nextObj
    rw [Tbl.get_set]; split
    · exact hi k
    · exact g.instLt j k
  activeInst j := by
    show ((st.tbl.set i e).get j).state = ACTIVE → ((st.tbl.set i e).get j).inst ≠ none
    rw [Tbl.get_set]; split
    · exact ha
    · exact g.activeInst j

theorem G.setIter {st : St} (g : G st) (it : Nat) : G { st with iterator := it } :=
  ⟨g.hcMax, g.maxLe, g.checkLt, g.instLt, g.activeInst⟩

theorem zero_active : Entry.zero.state ≠ ACTIVE := by decide

theorem G_get {st : St} (g : G st) (h : Nat) : G (st.get h).1 := by
  by_cases hy : st.getOk h
  · rw [get_accepted g hy]
    exact g.setEntry _ _ st.iterator (g.checkLt _) (g.instLt _) (g.activeInst _)
  · rw [get_refused g hy]; exact g

theorem G_put {st : St} (g : G st) (h : Nat) : G (st.put h).1 := by
  by_cases hy : st.lookOk h
  · rw [put_accepted g hy]
    split
    · exact g.setEntry _ _ st.iterator (by decide) (by intro k hk; cases hk) (by intro h; exact absurd h zero_active)
    · exact g.setEntry _ _ st.iterator (g.checkLt _) (g.instLt _) (g.activeInst _)
  · rw [put_refused g hy]; exact g

/-! ### destroy -/

/-- the state between the two halves of qb_hdb_handle_destroy (entry marked PENDINGREMOVAL) -/
def St.marked (st : St) (h : Nat) : St :=
  { st with tbl := st.tbl.set (hSlot h) { (st.tbl.get (hSlot h)) with state := PENDING } }

theorem destroy_refused {st : St} (g : G st) {h : Nat} (hn : ¬ st.lookOk h) :
    st.destroy h = (st, [.rc EBADF]) := by
  unfold St.destroy
  rw [lookup_eq g]
  unfold St.lookOk at hn
  simp [hn]

theorem G_marked {st : St} (g : G st) (h : Nat) : G (st.marked h) :=
  g.setEntry _ _ st.iterator (g.checkLt _) (g.instLt _)
    (by intro ha; exact absurd ha pending_ne_active)

theorem marked_lookOk {st : St} {h : Nat} (hy : st.lookOk h) : (st.marked h).lookOk h := by
  unfold St.lookOk St.marked at *
  simp only [Tbl.get_set_eq]
  exact hy

theorem destroy_accepted {st : St} (g : G st) {h : Nat} (hy : st.lookOk h) :
    st.destroy h = (st.marked h).put h := by
  unfold St.destroy
  rw [lookup_eq g]
  have hy' := hy
  unfold St.lookOk at hy'
  simp only [hy', and_self, if_true]
  rfl

theorem G_destroy {st : St} (g : G st) (h : Nat) : G (st.destroy h).1 := by
  by_cases hy : st.lookOk h
  · rw [destroy_accepted g hy]; exact G_put (G_marked g h) h
  · rw [destroy_refused g hy]; exact g

/-! ### create -/

theorem drawLoop_lt (d : List Nat) (i n : Nat) : drawLoop d i n < 2^32 := by
  induction n generalizing i with
  | zero => unfold drawLoop; decide
  | succ n ih =>
    unfold drawLoop
    simp only
    split
    · exact Nat.mod_lt _ (by decide)
    · split
      · exact Nat.mod_lt _ (by decide)
      · exact ih _

theorem drawCheck_lt (d : List Nat) : drawCheck d < 2^32 := drawLoop_lt d 0 _

theorem findEmpty_some {st : St} {a n j : Nat} (h : st.findEmpty a n = some j) :
    a ≤ j ∧ j < a + n ∧ (st.tbl.get j).state = EMPTY := by
  induction n generalizing a with
  | zero => simp [St.findEmpty] at h
  | succ n ih =>
    unfold St.findEmpty at h
    split at h
    · rename_i hc
      cases h
      exact ⟨Nat.le_refl _, by omega, hc.2⟩
    · have := ih h
      omega

theorem findEmpty_none {st : St} (g : G st) {a n : Nat} (h : st.findEmpty a n = none)
    (hb : a + n ≤ st.handleCount) :
    ∀ j, a ≤ j → j < a + n → (st.tbl.get j).state ≠ EMPTY := by
  induction n generalizing a with
  | zero => intro j h1 h2; omega
  | succ n ih =>
    unfold St.findEmpty at h
    split at h
    · cases h
    · rename_i hc
      intro j h1 h2
      by_cases hja : j = a
      · subst hja
        intro he
        apply hc
        exact ⟨arrayIndex_ok g (by omega), he⟩
      · exact ih h (by omega) j (by omega) (by omega)

def newEntry (st : St) (d : List Nat) : Entry := ⟨ACTIVE, some st.nextObj, drawCheck d, 1⟩

theorem create_found {st : St} {j : Nat} (d : List Nat) (hf : st.findEmpty 0 st.handleCount = some j) :
    st.create d =
      ({ st with tbl := (st.tbl.set j { (st.tbl.get j) with refCount := (st.tbl.get j).refCount + 1 }).set j
                          (newEntry st d),
                 nextObj := st.nextObj + 1 },
       .created 0 (mkHandle (drawCheck d) j)) := by
  simp only [St.create, hf]
  rfl

theorem create_full {st : St} (d : List Nat) (hf : st.findEmpty 0 st.handleCount = none)
    (hmax : st.handleCount + 1 > MAXELEMS) :
    st.create d = (st, .created EINVAL 0) := by
  simp [St.create, hf, St.arrayGrow, hmax, einval_ne_zero]

theorem create_grow {st : St} (g : G st) (d : List Nat) (hf : st.findEmpty 0 st.handleCount = none)
    (hmax : ¬ st.handleCount + 1 > MAXELEMS) :
    ∃ m, st.handleCount + 1 ≤ m ∧ m ≤ MAXELEMS ∧
      st.create d =
        ({ tbl := st.tbl.set st.handleCount (newEntry st d), handleCount := st.handleCount + 1,
           iterator := st.iterator, maxElems := m, nextObj := st.nextObj + 1 },
         .created 0 (mkHandle (drawCheck d) st.handleCount)) := by
  simp only [St.create, hf, St.arrayGrow, hmax, if_false]
  by_cases hle : st.handleCount + 1 ≤ st.maxElems
  · refine ⟨st.maxElems, hle, g.maxLe, ?_⟩
    simp only [hle, if_true]
    have hidx : st.arrayIndex (st.handleCount : Int) = 0 := by
      unfold St.arrayIndex
      have h1 : ¬ ((st.handleCount : Int) < 0) := by omega
      have h2 : ¬ ((st.handleCount : Int) ≥ (st.maxElems : Int)) := by omega
      simp [h1, h2]
    simp only [ne_eq, not_true_eq_false, if_false, hidx]
    rfl
  · refine ⟨st.handleCount + 1, Nat.le_refl _, by omega, ?_⟩
    simp only [hle, if_false]
    have hidx : St.arrayIndex { st with maxElems := st.handleCount + 1 } (st.handleCount : Int) = 0 := by
      unfold St.arrayIndex
      have h1 : ¬ ((st.handleCount : Int) < 0) := by omega
      have h2 : ¬ ((st.handleCount : Int) + 1 ≤ (st.handleCount : Int)) := by omega
      simp [h1, h2]
    simp only [ne_eq, not_true_eq_false, if_false, hidx]
    rfl

/-- what a create call does (given the global invariant) -/
theorem create_spec {st : St} (g : G st) (d : List Nat) :
    (∃ rc, rc ≠ 0 ∧ st.create d = (st, .created rc 0) ∧ st.handleCount = MAXELEMS)
    ∨ ∃ j, ((j < st.handleCount ∧ (st.tbl.get j).state = EMPTY) ∨
            (j = st.handleCount ∧ ∀ i, i < st.handleCount → (st.tbl.get i).state ≠ EMPTY)) ∧
        (st.create d).2 = .created 0 (mkHandle (drawCheck d) j) ∧
        (st.create d).1.nextObj = st.nextObj + 1 ∧
        (∀ i, (st.create d).1.tbl.get i = if i = j then newEntry st d else st.tbl.get i) ∧
        (st.create d).1.handleCount = (if j = st.handleCount then st.handleCount + 1 else st.handleCount) ∧
        (st.create d).1.handleCount ≤ (st.create d).1.maxElems ∧
        (st.create d).1.maxElems ≤ MAXELEMS ∧
        (st.create d).1.iterator = st.iterator := by
  cases hf : st.findEmpty 0 st.handleCount with
  | some j =>
    right
    have hj := findEmpty_some hf
    rw [create_found d hf]
    refine ⟨j, Or.inl ⟨by omega, hj.2.2⟩, rfl, rfl, ?_, ?_, g.hcMax, g.maxLe, rfl⟩
    · intro i
      show ((st.tbl.set j _).set j (newEntry st d)).get i = _
      rw [Tbl.get_set]
      split
      · rfl
      · rename_i hne; rw [Tbl.get_set_ne _ _ hne]
    · have : j ≠ st.handleCount := by omega
      simp [this]
  | none =>
    have hne := findEmpty_none g hf (by omega)
    by_cases hmax : st.handleCount + 1 > MAXELEMS
    · left
      refine ⟨EINVAL, einval_ne_zero, create_full d hf hmax, ?_⟩
      have := g.hcMax; have := g.maxLe; omega
    · right
      obtain ⟨m, hm1, hm2, he⟩ := create_grow g d hf hmax
      rw [he]
      refine ⟨st.handleCount, Or.inr ⟨rfl, fun i hi => hne i (by omega) (by omega)⟩, rfl, rfl, ?_, by simp, hm1, hm2, rfl⟩
      intro i
      show (st.tbl.set st.handleCount (newEntry st d)).get i = _
      rw [Tbl.get_set]

theorem G_create {st : St} (g : G st) (d : List Nat) : G (st.create d).1 := by
  rcases create_spec g d with ⟨rc, _, he, _⟩ | ⟨j, _, _, hn, ht, _, hm1, hm2, _⟩
  · rw [he]; exact g
  · refine ⟨hm1, hm2, ?_, ?_, ?_⟩
    · intro i; rw [ht]; split
      · exact drawCheck_lt d
      · exact g.checkLt i
    · intro i k; rw [ht, hn]; split
      · intro h; cases h; omega
      · intro h; have := g.instLt i k h; omega
    · intro i; rw [ht]; split
      · intro _ h; cases h
      · exact g.activeInst i

/-! ### create with a failing `malloc` -/

theorem enomem_ne_zero : ENOMEM ≠ 0 := by decide

/-- what a create call whose allocation fails does: nothing (table at its limit), or the reference count
    of the EMPTY entry it found is left incremented, or `handle_count` is left incremented -/
theorem createFail_spec {st : St} (g : G st) :
    (∃ rc, rc ≠ 0 ∧ st.createFail = (st, .created rc 0))
    ∨ (∃ j, j < st.handleCount ∧ (st.tbl.get j).state = EMPTY ∧
        st.createFail =
          ({ st with tbl := st.tbl.set j { (st.tbl.get j) with refCount := (st.tbl.get j).refCount + 1 } },
           .created ENOMEM 0))
    ∨ (∃ m, st.handleCount + 1 ≤ m ∧ m ≤ MAXELEMS ∧
        st.createFail =
          ({ tbl := st.tbl, handleCount := st.handleCount + 1, iterator := st.iterator, maxElems := m,
             nextObj := st.nextObj }, .created ENOMEM 0)) := by
  cases hf : st.findEmpty 0 st.handleCount with
  | some j =>
    right; left
    have hj := findEmpty_some hf
    refine ⟨j, by omega, hj.2.2, ?_⟩
    simp only [St.createFail, hf]
  | none =>
    by_cases hmax : st.handleCount + 1 > MAXELEMS
    · left
      refine ⟨EINVAL, einval_ne_zero, ?_⟩
      simp [St.createFail, hf, St.arrayGrow, hmax, einval_ne_zero]
    · right; right
      simp only [St.createFail, hf, St.arrayGrow, hmax, if_false]
      by_cases hle : st.handleCount + 1 ≤ st.maxElems
      · refine ⟨st.maxElems, hle, g.maxLe, ?_⟩
        simp only [hle, if_true]
        have hidx : st.arrayIndex (st.handleCount : Int) = 0 := by
          unfold St.arrayIndex
          have h1 : ¬ ((st.handleCount : Int) < 0) := by omega
          have h2 : ¬ ((st.handleCount : Int) ≥ (st.maxElems : Int)) := by omega
          simp [h1, h2]
        simp only [ne_eq, not_true_eq_false, if_false, hidx]
      · refine ⟨st.handleCount + 1, Nat.le_refl _, by omega, ?_⟩
        simp only [hle, if_false]
        have hidx : St.arrayIndex { st with maxElems := st.handleCount + 1 } (st.handleCount : Int) = 0 := by
          unfold St.arrayIndex
          have h1 : ¬ ((st.handleCount : Int) < 0) := by omega
          have h2 : ¬ ((st.handleCount : Int) + 1 ≤ (st.handleCount : Int)) := by omega
          simp [h1, h2]
        simp only [ne_eq, not_true_eq_false, if_false, hidx]

theorem G_createFail {st : St} (g : G st) : G st.createFail.1 := by
  rcases createFail_spec g with ⟨rc, _, he⟩ | ⟨j, _, _, he⟩ | ⟨m, hm1, hm2, he⟩
  · rw [he]; exact g
  · rw [he]
    exact g.setEntry _ _ st.iterator (g.checkLt _) (g.instLt _) (g.activeInst _)
  · rw [he]
    exact ⟨hm1, hm2, g.checkLt, g.instLt, g.activeInst⟩

end QbVerif.Hdb
