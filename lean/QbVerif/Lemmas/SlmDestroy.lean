/-
Skiplist: `skiplist_destroy` — every linked node is notified DELETED (and
FREE) in ascending order and released together with its forward array, then the header; the harness
starts over with a fresh skiplist.
-/
import QbVerif.Lemmas.SlmForeach

namespace QbVerif.Skiplist
open QbVerif.Map
set_option linter.unusedSimpArgs false

/-- `skiplist_node_destroy` of a plain entry node during teardown (`list->level < MIN`) -/
theorem nodeDestroy_teardown {t : SL} {i : NodeId} {e : Entry} {fi : FwdId} {ai hn} {rc lv : Nat}
    (hin : t.nodes i = some ⟨some e.key, e.val, lv, rc, fi, e.notifs⟩) (hia : t.fwds fi = some ai)
    (hh : t.nodes t.header = some hn) (_hne : t.header ≠ i) (hlv1 : 1 ≤ lv) :
    ∃ t1, t.nodeDestroy i = .ok (t1, dispatch e.notifs hn.notifs EV_DELETED e.key e.val 0) ∧
      t1.nodes = upd t.nodes i none ∧ t1.fwds = upd t.fwds fi none ∧ t1.header = t.header ∧ t1.lv = t.lv ∧
      t1.crashed = t.crashed ∧ t1.length = t.length := by
  cases hr : t.nodeDestroy i with
  | error err =>
    simp [SL.nodeDestroy, SL.node, SL.notify, SL.nodeFree, SL.freeFwd, hin, hia, hh, bind, Except.bind, hlv1] at hr
  | ok r =>
    obtain ⟨t1, evs⟩ := r
    simp [SL.nodeDestroy, SL.node, SL.notify, SL.nodeFree, SL.freeFwd, hin, hia, hh, bind, Except.bind, hlv1] at hr
    obtain ⟨rfl, rfl⟩ := hr
    exact ⟨_, rfl, rfl, rfl, rfl, rfl, rfl, rfl⟩

theorem destroyLoop_eq {g : List Notifier} {hv : Val} {hf : FwdId} {ha : Nat → Option NodeId} {hrc : Nat} :
    ∀ (es : List Entry) (ids : List NodeId) (i : NodeId) (e : Entry) (t : SL) (evs : List Event) (fuel : Nat),
    t.nodes t.header = some ⟨none, hv, LEVEL_MAX + 1, hrc, hf, g⟩ → t.fwds hf = some ha →
    NodeOk t i e → Chain t i ids es → (t.header :: i :: ids).Nodup →
    (∀ a ∈ t.header :: i :: ids, ∀ b ∈ t.header :: i :: ids, fwdOf t a = fwdOf t b → a = b) →
    ids.length + 2 ≤ fuel → t.lv = 0 →
    ∃ t', SL.destroyLoop fuel t (some i) evs =
        .ok (t', evs ++ (e :: es).flatMap fun e => dispatch e.notifs g EV_DELETED e.key e.val 0) ∧
      t'.header = t.header ∧ t'.nodes t.header = t.nodes t.header ∧ t'.fwds hf = t.fwds hf ∧ t'.lv = t.lv ∧
      t'.crashed = t.crashed
  | es, ids, i, e, t, evs, fuel, hh1, hh2, hok, hc, hnd, hinj, hfuel, htl => by
    obtain ⟨f, rfl⟩ : ∃ f, fuel = f + 1 := ⟨fuel - 1, by omega⟩
    obtain ⟨ilv, irc, fi, ai, _, hilv, _, hin, hia⟩ := hok
    have hhi : t.header ≠ i := fun he => (List.nodup_cons.1 hnd).1 (he ▸ List.mem_cons_self)
    have hfi : fwdOf t i = fi := by simp [fwdOf, hin]
    have hfh : fwdOf t t.header = hf := by simp [fwdOf, hh1]
    have hffne : hf ≠ fi := by
      intro he
      exact hhi (hinj t.header (by simp) i (by simp) (by rw [hfh, hfi, he]))
    obtain ⟨t1, hd, hn1, hf1, hhd1, hlv1, hcr1, hlen1⟩ := nodeDestroy_teardown hin hia hh1 hhi hilv
    have hnn : t.nodeNext t.fuel i = .ok (next0 t i) := by
      show t.nodeNext (t.length + 11 + 1) i = _
      cases ids with
      | nil =>
        cases es with
        | nil =>
          have h0 : next0 t i = none := hc
          simp [SL.nodeNext, fwdAt0_of_next0 ⟨_, ai, hin, hia⟩, h0, bind, Except.bind]
        | cons _ _ => cases hc
      | cons j ids' =>
        cases es with
        | nil => cases hc
        | cons e' es' =>
          obtain ⟨h1, ⟨_, jrc, fj, aj, hjrc, _, _, hjn, _⟩, _⟩ := hc
          have hjrc0 : jrc ≠ 0 := by omega
          simp [SL.nodeNext, fwdAt0_of_next0 ⟨_, ai, hin, hia⟩, h1, bind, Except.bind, SL.node, hjn, hjrc0]
    simp only [SL.destroyLoop, hnn, hd, bind, Except.bind]
    cases ids with
    | nil =>
      cases es with
      | cons _ _ => cases hc
      | nil =>
        have h0 : next0 t i = none := hc
        obtain ⟨f', rfl⟩ : ∃ f', f = f' + 1 := ⟨f - 1, by simp at hfuel; omega⟩
        refine ⟨t1, by simp [h0, SL.destroyLoop], hhd1, ?_, ?_, hlv1, hcr1⟩
        · rw [hn1]; simp [upd, hhi]
        · rw [hf1]; simp [upd, hffne]
    | cons j ids' =>
      cases es with
      | nil => cases hc
      | cons e' es' =>
        obtain ⟨h1, hjok, hc'⟩ := hc
        have hnd' : (t.header :: j :: ids').Nodup := by
          have := hnd
          simp only [List.nodup_cons, List.mem_cons, not_or] at this ⊢
          exact ⟨⟨this.1.2.1, this.1.2.2⟩, this.2.2.1, this.2.2.2⟩
        have hmem : ∀ a ∈ j :: ids', a ≠ i ∧ fwdOf t a ≠ fi := by
          intro a ha'
          have hai : a ≠ i := fun he => (List.nodup_cons.1 (List.nodup_cons.1 hnd).2).1 (he ▸ ha')
          refine ⟨hai, fun he => hai ?_⟩
          exact hinj a (List.mem_cons_of_mem _ (List.mem_cons_of_mem _ ha')) i (by simp) (by rw [hfi, he])
        have hframe : ∀ a ∈ j :: ids', t1.nodes a = t.nodes a ∧ t1.fwds (fwdOf t a) = t.fwds (fwdOf t a) := by
          intro a ha'
          obtain ⟨h3, h4⟩ := hmem a ha'
          rw [hn1, hf1]
          exact ⟨by simp [upd, h3], by simp [upd, h4]⟩
        have hfw1 : ∀ a, a ≠ i → fwdOf t1 a = fwdOf t a := by
          intro a ha'; simp [fwdOf, hn1, upd, ha']
        have hjok1 : NodeOk t1 j e' := by
          obtain ⟨h3, h4⟩ := hframe j (by simp)
          exact hjok.frame h3 (by rw [h4]; obtain ⟨_, _, fj, aj, _, _, _, h5, h6⟩ := hjok; simp [fwdOf, h5, h6])
        have hc1 : Chain t1 j ids' es' := Chain.frame hc' hframe
        have hh1' : t1.nodes t1.header = some ⟨none, hv, LEVEL_MAX + 1, hrc, hf, g⟩ := by
          rw [hhd1, hn1]; simp [upd, hhi, hh1]
        have hh2' : t1.fwds hf = some ha := by rw [hf1]; simp [upd, hffne, hh2]
        obtain ⟨t', hl, hp1, hp2, hp3, hp4, hp5⟩ := destroyLoop_eq es' ids' j e' t1
          (evs ++ dispatch e.notifs g EV_DELETED e.key e.val 0) f hh1' hh2' hjok1 hc1 (by rw [hhd1]; exact hnd')
          (by
            rw [hhd1]
            intro a ha' b hb hab
            have hai : a ≠ i := by
              rcases List.mem_cons.1 ha' with rfl | ha'
              · exact hhi
              · exact (hmem a ha').1
            have hbi : b ≠ i := by
              rcases List.mem_cons.1 hb with rfl | hb
              · exact hhi
              · exact (hmem b hb).1
            rw [hfw1 a hai, hfw1 b hbi] at hab
            have hsub : ∀ x ∈ t.header :: j :: ids', x ∈ t.header :: i :: j :: ids' := by
              intro x hx
              rcases List.mem_cons.1 hx with rfl | hx
              · simp
              · exact List.mem_cons_of_mem _ (List.mem_cons_of_mem _ hx)
            exact hinj a (hsub a ha') b (hsub b hb) hab)
          (by simp at hfuel ⊢; omega) (by rw [hlv1]; exact htl)
        refine ⟨t', ?_, by rw [hp1, hhd1], ?_, ?_, by rw [hp4, hlv1], by rw [hp5, hcr1]⟩
        · rw [h1]
          rw [hl]
          simp [List.flatMap_cons, List.append_assoc]
        · rw [hhd1] at hp2; rw [hp2, hn1]; simp [upd, hhi]
        · rw [hp3, hf1]; simp [upd, hffne]

/-- a freshly created skiplist (after `skiplist_destroy`: same heaps, new header) -/
theorem fresh_inv (t : SL) (hc : t.crashed = false) :
    Inv { (SL.nodeNew { t with lv := 1, length := 0, iters := [] } (LEVEL_MAX + 1) none 0).1 with header := t.nextNode }
      [] [] [] := by
  refine ⟨⟨t.nextFwd, fun _ => none, 0, 1, by simp [SL.nodeNew, upd], by simp [SL.nodeNew, upd]⟩, ?_, by simp, ?_, ?_, ?_,
    List.Pairwise.nil, by simp [SL.nodeNew, LEVEL_MAX, Gen.SL_LEVEL_MAX], by simp [SL.nodeNew], ?_,
    by simp [SL.nodeNew], by simp [SL.nodeNew], by simp [SL.nodeNew, hc], (fun i hi => by cases hi), ?_⟩
  · show next0 _ _ = none
    simp [next0, SL.nodeNew, upd]
  · intro a ha b hb _
    simp only [List.mem_singleton] at ha hb
    rw [ha, hb]
  · intro a ha
    simp only [List.mem_singleton] at ha
    subst ha
    exact Nat.lt_succ_self _
  · intro a ha
    simp only [List.mem_singleton] at ha
    subst ha
    show fwdOf _ _ < t.nextFwd + 1
    simp [fwdOf, SL.nodeNew, upd]
  · intro a ha
    simp only [List.mem_singleton] at ha
    subst ha
    simp [rcOf, SL.nodeNew, upd, parked]
  · refine ⟨fun _ => [], ⟨rfl, ?_, fun _ => List.Sublist.refl _⟩, fun _ _ => rfl, fun _ i hi => by cases hi⟩
    intro l _
    show nextL _ l _ = none
    simp [nextL, SL.nodeNew, upd]

theorem create_inv : Inv create [] [] [] :=
  fresh_inv ⟨fun _ => none, fun _ => none, 0, 1, 0, [], 0, 0, [], [], false, false⟩ rfl

theorem nodeFree_header {t : SL} {hn : Node} {ha} (hh : t.nodes t.header = some hn) (hfa : t.fwds hn.fwd = some ha)
    (hlv : t.lv = 0) : ∃ t', t.nodeFree t.header = .ok t' ∧ t'.crashed = t.crashed := by
  cases hr : t.nodeFree t.header with
  | error err => simp [SL.nodeFree, SL.node, SL.freeFwd, hh, hfa, hlv, bind, Except.bind] at hr
  | ok t' =>
    simp [SL.nodeFree, SL.node, SL.freeFwd, hh, hfa, hlv, bind, Except.bind] at hr
    subst hr
    exact ⟨_, rfl, rfl⟩

theorem destroy_eq {s ids es g} (h : Inv s ids es g) (_hit : s.iters = []) :
    ∃ s', s.destroy = .ok (s', es.flatMap fun e => dispatch e.notifs g EV_DELETED e.key e.val 0) ∧ Inv s' [] [] [] ∧
      s'.iters = [] := by
  obtain ⟨hf, ha, hv, hrc, hh1, hh2⟩ := h.hdr
  have hx0 : XOk ({ s with lv := 0 } : SL) s.header := ⟨_, ha, hh1, hh2⟩
  have hnn : ({ s with lv := 0 } : SL).nodeNext ({ s with lv := 0 } : SL).fuel s.header = .ok (next0 s s.header) := by
    cases ids with
    | nil =>
      cases es with
      | nil =>
        have h0 : next0 s s.header = none := h.chain
        rw [h0]
        exact nodeNext_none hx0 h0 s.length
      | cons _ _ => exact absurd h.chain (by simp [Chain])
    | cons j ids' =>
      cases es with
      | nil => exact absurd h.chain (by simp [Chain])
      | cons e' es' =>
        obtain ⟨h1, hjok, _⟩ := h.chain
        rw [h1]
        exact nodeNext_some (s := { s with lv := 0 }) (e := e') hx0 h1 hjok s.length
  cases ids with
  | nil =>
    cases es with
    | cons _ _ => exact absurd h.chain (by simp [Chain])
    | nil =>
      have h0 : next0 s s.header = none := h.chain
      obtain ⟨t', hfr, hcr⟩ := nodeFree_header (t := { s with lv := 0 }) hh1 hh2 rfl
      refine ⟨_, ?_, fresh_inv t' (by rw [hcr]; exact h.ok), rfl⟩
      simp only [SL.destroy, hnn, h0, bind, Except.bind]
      have : SL.destroyLoop (s.length + 2) { s with lv := 0 } none [] = .ok ({ s with lv := 0 }, []) := by
        show SL.destroyLoop (s.length + 1 + 1) _ none [] = _
        simp [SL.destroyLoop]
      simp only [this]
      rw [hfr]
      rfl
  | cons i ids' =>
    cases es with
    | nil => exact absurd h.chain (by simp [Chain])
    | cons e es' =>
      obtain ⟨h1, hiok, hc⟩ := h.chain
      have hiok0 : NodeOk { s with lv := 0 } i e := hiok
      have hc0 : Chain { s with lv := 0 } i ids' es' := Chain.frame hc (fun _ _ => ⟨rfl, rfl⟩)
      obtain ⟨t', hl, hp1, hp2, hp3, hp4, hp5⟩ := destroyLoop_eq (g := g) (hv := hv) (hf := hf) (ha := ha) (hrc := hrc) es' ids' i e
        { s with lv := 0 } [] (s.length + 2) hh1 hh2 hiok0 hc0 h.nodup h.inj (by
          have := h.chain.length_eq
          have hl := h.len
          simp at this hl ⊢
          omega) rfl
      have hh1' : t'.nodes t'.header = some ⟨none, hv, LEVEL_MAX + 1, hrc, hf, g⟩ := by
        rw [hp1]; exact hp2.trans hh1
      have hh2' : t'.fwds hf = some ha := hp3.trans hh2
      obtain ⟨t'', hfr, hcr⟩ := nodeFree_header hh1' hh2' hp4
      refine ⟨_, ?_, fresh_inv t'' (by rw [hcr, hp5]; exact h.ok), rfl⟩
      simp only [SL.destroy, hnn, h1, bind, Except.bind]
      rw [hl]
      simp only [List.nil_append]
      rw [hfr]
      rfl

end QbVerif.Skiplist
