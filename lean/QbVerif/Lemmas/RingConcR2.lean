/-
C01 — reader steps, second part: `qb_rb_chunk_read` and `qb_rb_chunk_peek` up to and including
the copy-out.
-/
import QbVerif.Lemmas.RingConcR

namespace QbVerif.RingConcLemmas
open QbVerif.Ring QbVerif.RingSpec QbVerif.RingLemmas QbVerif.RingConc

section
variable {c : Conf} {q : List (List Nat)} {op : ROp} {rest : List ROp}

/-- in semaphore mode a reader inside a call holds a token, so a chunk is there -/
theorem CInv.ne_of_tok (h : CInv c q) (ht : rtok c.rpc = 1) {n : Nat} (hs : c.rb.sem = some n) : q ≠ [] := by
  intro e
  have := h.semc n hs
  rw [e, ht] at this
  simp at this

/-- what the reader's load of the magic word returns -/
theorem CInv.magic_iff (h : CInv c q) {p : Nat} (hp : p = TR c % c.rb.W) (hd : rdead c.rpc = false)
    (ht : rtok c.rpc = 1) : c.rb.magic p = MAGIC ↔ q ≠ [] := by
  rw [magic_at hp]
  cases q with
  | nil =>
    have hpd : pend c = false := by
      cases hpd : pend c with
      | false => rfl
      | true =>
        unfold pend at hpd
        split at hpd
        · cases hs : c.rb.sem with
          | none => rw [hs] at hpd; cases hpd
          | some n => exact absurd rfl (h.ne_of_tok ht hs)
        · cases hpd
    have := h.next hpd
    simp only [total_nil, Nat.add_zero] at this
    simp [this]
  | cons d ds =>
    have := h.stored.1.2.1
    rw [hd] at this
    simp [this]

theorem CInv.size_head (h : CInv c q) {d ds} (hq : q = d :: ds) (hc : rclr c.rpc = false) :
    word c.rb.mem c.rb.W (TR c) = d.length := by
  subst hq
  have := h.stored.1.1
  rw [hc] at this
  exact this

theorem CInv.payload_head (h : CInv c q) {d ds} (hq : q = d :: ds) : Payload c.rb.mem c.rb.W (TR c) d := by
  subst hq; exact h.stored.1.2.2

theorem ne_nil_elim {q : List (List Nat)} (h : q ≠ []) : ∃ d ds, q = d :: ds := by
  cases q with
  | nil => exact absurd rfl h
  | cons d ds => exact ⟨d, ds, rfl⟩

/-! #### qb_rb_chunk_read -/

theorem r_rdRp (h : CInv c q) (hp : c.rprog = op :: rest) (hpc : c.rpc = .rdRp) : CInv (rstep c) q := by
  have e : rstep c = { c with rpc := .rdMg c.rb.rp, rbuf := c.rbuf, lin := c.lin } := by
    unfold rstep; simp only [hp, hpc]
  rw [e]
  have hrf := RFacts_get hp h.rf
  rw [hpc] at hrf
  exact h.rlocal _ _ _ (by rw [hpc]; rfl) (by rw [hpc]; rfl) (fun _ _ => by rw [hpc]; rfl)
    (RFacts_of' (c := c) hp rfl ⟨hrf, h.hrp⟩)

theorem r_rdMg {p} (h : CInv c q) (hp : c.rprog = op :: rest) (hpc : c.rpc = .rdMg p) : CInv (rstep c) q := by
  have hrf := RFacts_get hp h.rf
  rw [hpc] at hrf
  obtain ⟨hrd, hpp⟩ := hrf
  obtain ⟨cap, rfl⟩ := isRead_elim hrd
  have hmi := h.magic_iff hpp (by rw [hpc]; rfl) (by rw [hpc]; rfl)
  by_cases hm : c.rb.magic p = MAGIC
  · have e : rstep c = { c with rpc := .rdSz p, rbuf := c.rbuf, lin := c.lin } := by
      unfold rstep; simp only [hp, hpc, hm, ne_eq, not_true_eq_false, if_false]
    rw [e]
    exact h.rlocal _ _ _ (by rw [hpc]; rfl) (by rw [hpc]; rfl) (fun _ _ => by rw [hpc]; rfl)
      (RFacts_of' (c := c) hp rfl ⟨trivial, hpp, hmi.mp hm⟩)
  · have hq : q = [] := by
      cases q with
      | nil => rfl
      | cons d ds => exact absurd (hmi.mpr (by simp)) hm
    cases hs : c.rb.sem with
    | none =>
      have e : rstep c = Conf.rDone { c with lin := c.lin ++ [(.read cap, .err .etimedout)] } (.err .etimedout) := by
        unfold rstep Conf.rDone Conf.addLin; simp only [hp, hpc, hm, hs, ne_eq, not_false_eq_true, if_true, List.tail_cons]
      rw [e]
      exact h.rdone _ _ (by rw [hpc]; rfl) (by rw [hpc]; rfl) (fun n hn => by rw [hs] at hn; cases hn)
    | some n => exact absurd hq (h.ne_of_tok (by rw [hpc]; rfl) hs)

theorem r_rdBad (h : CInv c q) (hp : c.rprog = op :: rest) (hpc : c.rpc = .rdBad) : CInv (rstep c) q := by
  have hrf := RFacts_get hp h.rf
  rw [hpc] at hrf
  exact hrf.elim

theorem r_rdSz {p} (h : CInv c q) (hp : c.rprog = op :: rest) (hpc : c.rpc = .rdSz p) : CInv (rstep c) q := by
  have hrf := RFacts_get hp h.rf
  rw [hpc] at hrf
  obtain ⟨hrd, hpp, hne⟩ := hrf
  obtain ⟨cap, rfl⟩ := isRead_elim hrd
  obtain ⟨d, ds, hq⟩ := ne_nil_elim hne
  have hsz : rd32 c.rb.mem p = d.length := by rw [size_at hpp]; exact h.size_head hq (by rw [hpc]; rfl)
  by_cases hcap : cap < d.length
  · have e : rstep c = { c with rpc := .rdShort, rbuf := c.rbuf, lin := c.lin } := by
      unfold rstep; simp only [hp, hpc, hsz, hcap, if_true]
    rw [e]
    exact h.rlocal _ _ _ (by rw [hpc]; rfl) (by rw [hpc]; rfl) (fun _ _ => by rw [hpc]; rfl)
      (RFacts_of' (c := c) hp rfl ⟨cap, d, ds, rfl, hq, hcap⟩)
  · have e : rstep c = { c with rpc := .rdCpy p d.length, rbuf := c.rbuf, lin := c.lin } := by
      unfold rstep; simp only [hp, hpc, hsz, hcap, if_false]
    rw [e]
    exact h.rlocal _ _ _ (by rw [hpc]; rfl) (by rw [hpc]; rfl) (fun _ _ => by rw [hpc]; rfl)
      (RFacts_of' (c := c) hp rfl ⟨cap, d, ds, rfl, hq, hpp, rfl, by omega⟩)

theorem r_rdShort (h : CInv c q) (hp : c.rprog = op :: rest) (hpc : c.rpc = .rdShort) : CInv (rstep c) q := by
  have hrf := RFacts_get hp h.rf
  rw [hpc] at hrf
  obtain ⟨cap, d, ds, rfl, hq, hcap⟩ := hrf
  have hne : q ≠ [] := by rw [hq]; simp
  cases hs : c.rb.sem with
  | none =>
    have e : rstep c = Conf.rDone { c with lin := c.lin ++ [(.read cap, .err .enobufs)] } (.err .enobufs) := by
      unfold rstep Conf.rDone Conf.addLin; simp only [hp, hpc, post_none hs, List.tail_cons]
    rw [e]
    exact h.rdone _ _ (by rw [hpc]; rfl) (by rw [hpc]; rfl) (fun n hn => by rw [hs] at hn; cases hn)
  | some n =>
    have e : rstep c = Conf.rDone { c with rb := { c.rb with sem := some (n + 1) }, lin := c.lin ++ [(.read cap, .err .enobufs)] } (.err .enobufs) := by
      unfold rstep Conf.rDone Conf.addLin; simp only [hp, hpc, post_some hs, List.tail_cons]
    rw [e]
    refine h.rsem_done _ _ _ hne (by rw [hs]; rfl) (by rw [hpc]; rfl) (by rw [hpc]; rfl) ?_
    intro k hk
    have : k = n + 1 := (Option.some.inj hk).symm
    have := h.semc n hs
    rw [hpc] at this
    simp only [rtok] at this
    omega

theorem r_rdCpy {p sz} (h : CInv c q) (hp : c.rprog = op :: rest) (hpc : c.rpc = .rdCpy p sz) : CInv (rstep c) q := by
  have hrf := RFacts_get hp h.rf
  rw [hpc] at hrf
  obtain ⟨cap, d, ds, rfl, hq, hpp, hsz, hcap⟩ := hrf
  have e : rstep c = { c with rpc := .rcRp, rbuf := c.rb.copyOut p sz, lin := c.lin } := by
    unfold rstep; simp only [hp, hpc]
  rw [e]
  refine h.rlocal _ _ _ (by rw [hpc]; rfl) (by rw [hpc]; rfl) (fun _ _ => by rw [hpc]; rfl)
    (RFacts_of' (c := c) hp rfl ⟨d, ⟨ds, hq⟩, ?_, ?_⟩)
  · show c.rb.copyOut p sz = d
    rw [hsz]; exact copyOut_at h.wpos hpp (h.payload_head hq)
  · intro cap' hc; cases hc; exact hcap

/-! #### qb_rb_chunk_peek and the caller's copy-out -/

theorem r_pkRp (h : CInv c q) (hp : c.rprog = op :: rest) (hpc : c.rpc = .pkRp) : CInv (rstep c) q := by
  have e : rstep c = { c with rpc := .pkMg c.rb.rp, rbuf := c.rbuf, lin := c.lin } := by
    unfold rstep; simp only [hp, hpc]
  rw [e]
  have hrf := RFacts_get hp h.rf
  rw [hpc] at hrf
  exact h.rlocal _ _ _ (by rw [hpc]; rfl) (by rw [hpc]; rfl) (fun _ _ => by rw [hpc]; rfl)
    (RFacts_of' (c := c) hp rfl ⟨hrf, h.hrp⟩)

theorem r_pkMg {p} (h : CInv c q) (hp : c.rprog = op :: rest) (hpc : c.rpc = .pkMg p) : CInv (rstep c) q := by
  have hrf := RFacts_get hp h.rf
  rw [hpc] at hrf
  obtain ⟨hrd, hpp⟩ := hrf
  have hmi := h.magic_iff hpp (by rw [hpc]; rfl) (by rw [hpc]; rfl)
  by_cases hm : c.rb.magic p = MAGIC
  · have e : rstep c = { c with rpc := .pkSz p, rbuf := c.rbuf, lin := c.lin } := by
      unfold rstep; simp only [hp, hpc, hm, ne_eq, not_true_eq_false, if_false]
    rw [e]
    exact h.rlocal _ _ _ (by rw [hpc]; rfl) (by rw [hpc]; rfl) (fun _ _ => by rw [hpc]; rfl)
      (RFacts_of' (c := c) hp rfl ⟨hrd, hpp, hmi.mp hm⟩)
  · have hq : q = [] := by
      cases q with
      | nil => rfl
      | cons d ds => exact absurd (hmi.mpr (by simp)) hm
    have e : rstep c = { c with rpc := .pkBad, rbuf := c.rbuf, lin := c.lin ++ [(.peek, .err .ebadmsg)] } := by
      unfold rstep Conf.addLin; simp only [hp, hpc, hm, ne_eq, not_false_eq_true, if_true]
    rw [e]
    cases hs : c.rb.sem with
    | none =>
      exact h.rlocal _ _ _ (by rw [hpc]; rfl) (by rw [hpc]; rfl) (fun _ _ => by rw [hpc]; rfl)
        (RFacts_of' (c := c) hp rfl ⟨hrd, hs⟩)
    | some n => exact absurd hq (h.ne_of_tok (by rw [hpc]; rfl) hs)

theorem r_pkBad (h : CInv c q) (hp : c.rprog = op :: rest) (hpc : c.rpc = .pkBad) : CInv (rstep c) q := by
  have hrf := RFacts_get hp h.rf
  rw [hpc] at hrf
  obtain ⟨_, hs⟩ := hrf
  have e : rstep c = Conf.rDone { c with lin := c.lin } (.err .ebadmsg) := by
    unfold rstep Conf.rDone; simp only [hp, hpc, post_none hs, List.tail_cons]
  rw [e]
  exact h.rdone _ _ (by rw [hpc]; rfl) (by rw [hpc]; rfl) (fun n hn => by rw [hs] at hn; cases hn)

theorem r_pkSz {p} (h : CInv c q) (hp : c.rprog = op :: rest) (hpc : c.rpc = .pkSz p) : CInv (rstep c) q := by
  have hrf := RFacts_get hp h.rf
  rw [hpc] at hrf
  obtain ⟨hrd, hpp, hne⟩ := hrf
  obtain ⟨f, rfl⟩ := isPr_elim hrd
  obtain ⟨d, ds, hq⟩ := ne_nil_elim hne
  have hsz : rd32 c.rb.mem p = d.length := by rw [size_at hpp]; exact h.size_head hq (by rw [hpc]; rfl)
  have e : rstep c = { c with rpc := .rcopy p d.length 0, rbuf := [], lin := c.lin ++ [(.peek, .data (c.rb.copyOut p d.length))] } := by
    unfold rstep Conf.addLin; simp only [hp, hpc, hsz]
  rw [e]
  exact h.rlocal _ _ _ (by rw [hpc]; rfl) (by rw [hpc]; rfl) (fun _ _ => by rw [hpc]; rfl)
    (RFacts_of' (c := c) hp rfl ⟨f, d, ds, rfl, hq, hpp, rfl, Nat.zero_le _, rfl, fun _ => rfl⟩)

theorem r_rcopy {p sz j} (h : CInv c q) (hp : c.rprog = op :: rest) (hpc : c.rpc = .rcopy p sz j) : CInv (rstep c) q := by
  have hrf := RFacts_get hp h.rf
  rw [hpc] at hrf
  obtain ⟨f, d, ds, rfl, hq, hpp, hsz, hj, hbuf, hf0⟩ := hrf
  have hpay := h.payload_head hq
  have hW := h.wpos
  subst hsz
  cases f with
  | true =>
    by_cases hlt : j < d.length
    · have e : rstep c = { c with rpc := .rcopy p d.length (j + min 4 (d.length - j)), rbuf := c.rbuf ++ copyOutFrom c.rb p j (min 4 (d.length - j)), lin := c.lin } := by
        unfold rstep; simp only [hp, hpc, hlt, if_true]
      rw [e]
      refine h.rlocal _ _ _ (by rw [hpc]; rfl) (by rw [hpc]; rfl) (fun _ _ => by rw [hpc]; rfl)
        (RFacts_of' (c := c) hp rfl ⟨true, d, ds, rfl, hq, hpp, rfl, by omega, ?_, fun hh => by cases hh⟩)
      show c.rbuf ++ copyOutFrom c.rb p j (min 4 (d.length - j)) = _
      rw [hbuf, copyOutFrom_at hW hpp hpay (by omega), List.take_add]
    · have e : rstep c = { c with rpc := .rcRp, rbuf := c.rbuf, lin := c.lin } := by
        unfold rstep; simp only [hp, hpc, hlt, if_true, if_false]
      rw [e]
      refine h.rlocal _ _ _ (by rw [hpc]; rfl) (by rw [hpc]; rfl) (fun _ _ => by rw [hpc]; rfl)
        (RFacts_of' (c := c) hp rfl ⟨d, ⟨ds, hq⟩, ?_, fun cap hc => by cases hc⟩)
      show c.rbuf = d
      rw [hbuf]; exact List.take_of_length_le (by omega)
  | false =>
    have e : rstep c = { c with rpc := .rcRp, rbuf := c.rb.copyOut p d.length, lin := c.lin } := by
      unfold rstep; simp only [hp, hpc]; rfl
    rw [e]
    refine h.rlocal _ _ _ (by rw [hpc]; rfl) (by rw [hpc]; rfl) (fun _ _ => by rw [hpc]; rfl)
      (RFacts_of' (c := c) hp rfl ⟨d, ⟨ds, hq⟩, ?_, fun cap hc => by cases hc⟩)
    exact copyOut_at hW hpp hpay

end
end QbVerif.RingConcLemmas
