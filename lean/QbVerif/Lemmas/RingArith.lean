/-
Arithmetic facts behind the ring-buffer proofs (C07, C11): injectivity of `· % N` on a window of
length `N`, the word/byte index identity of the circular mapping, `roundUp`, chunk word counts.
Core Lean only.
-/
import QbVerif.Model.Ring
import QbVerif.Model.RingSpec

namespace QbVerif.RingLemmas
open QbVerif.Ring QbVerif.RingSpec

/-! ### constants (these depend on the generated values) -/

theorem HDRW_eq : HDRW = 2 := by decide
theorem MARGIN_eq : MARGIN = 12 := by decide
theorem MAGIC_lt : MAGIC < 2^32 := by decide
theorem DEAD_lt : DEAD < 2^32 := by decide
theorem ALLOC_lt : ALLOC < 2^32 := by decide
theorem MAGIC_ge : 2^31 ≤ MAGIC := by decide
theorem DEAD_ne_MAGIC : DEAD ≠ MAGIC := by decide
theorem ALLOC_ne_MAGIC : ALLOC ≠ MAGIC := by decide
theorem zero_ne_MAGIC : 0 ≠ MAGIC := by decide

/-! ### windows -/

/-- `· % N` is injective on any window of length `N` -/
theorem mod_window_inj {N a b : Nat} (hab : a ≤ b) (hb : b < a + N) (h : a % N = b % N) : a = b := by
  have h0 : (b - a) % N = 0 := Nat.sub_mod_eq_zero_of_mod_eq h.symm
  have h1 : (b - a) % N = b - a := Nat.mod_eq_of_lt (by omega)
  omega

theorem mod_ne_of_window {N a b : Nat}
    (h : (a < b ∧ b < a + N) ∨ (b < a ∧ a < b + N)) : a % N ≠ b % N := by
  intro e
  rcases h with ⟨h1, h2⟩ | ⟨h1, h2⟩
  · have := mod_window_inj (Nat.le_of_lt h1) h2 e; omega
  · have := mod_window_inj (Nat.le_of_lt h1) h2 e.symm; omega

/-- byte index of byte `i` of word `A` under the circular mapping -/
theorem mul4_mod (A W i : Nat) (hi : i < 4) (hW : 0 < W) : 4 * (A % W) + i = (4 * A + i) % (4 * W) := by
  have h1 : 4 * (A % W) = (4 * A) % (4 * W) := (Nat.mul_mod_mul_left 4 A W).symm
  have h2 : A % W < W := Nat.mod_lt _ hW
  have h3 : (4 * A + i) % (4 * W) = ((4 * A) % (4 * W) + i) % (4 * W) := (Nat.mod_add_mod _ _ _).symm
  rw [h3, ← h1]; exact (Nat.mod_eq_of_lt (by omega)).symm

theorem mod_lt2 {x W : Nat} (h : x < 2 * W) : x % W = if x < W then x else x - W := by
  split
  · exact Nat.mod_eq_of_lt ‹_›
  · rw [Nat.mod_eq_sub_mod (by omega), Nat.mod_eq_of_lt (by omega)]

theorem idxStep_eq {W p : Nat} (hW : 0 < W) : idxStep W p = p % W := by
  unfold idxStep
  split
  · rfl
  · exact (Nat.mod_eq_of_lt (by omega)).symm

/-! ### chunk word counts -/

theorem cw_ge (len : Nat) : 2 ≤ cw len := by unfold cw; have := HDRW_eq; omega

theorem cw_lo (len : Nat) : len + 8 ≤ 4 * cw len := by
  unfold cw; have := HDRW_eq; split <;> omega

theorem cw_hi (len : Nat) : 4 * cw len ≤ len + 11 := by
  unfold cw; have := HDRW_eq; split <;> omega

theorem chunkStep_arg (p sz : Nat) :
    p + HDRW + sz / 4 + (if sz % 4 ≠ 0 then 1 else 0) = p + cw sz := by
  unfold cw; omega

theorem total_nil : total [] = 0 := rfl
theorem total_cons (c : List Nat) (cs) : total (c :: cs) = cw c.length + total cs := rfl

theorem total_append (q : List (List Nat)) (d : List Nat) : total (q ++ [d]) = total q + cw d.length := by
  induction q with
  | nil => simp [total]
  | cons c cs ih => simp only [List.cons_append, total_cons, ih]; omega

theorem total_eq_zero {q : List (List Nat)} (h : total q = 0) : q = [] := by
  cases q with
  | nil => rfl
  | cons c cs => have := cw_ge c.length; simp only [total_cons] at h; omega

theorem total_le_sum16 (q : List (List Nat)) : 4 * total q + 5 * q.length ≤ (q.map (fun c => c.length + 16)).sum := by
  induction q with
  | nil => simp [total]
  | cons c cs ih =>
    have := cw_hi c.length
    simp only [total_cons, List.map_cons, List.sum_cons, List.length_cons]; omega

/-! ### roundUp -/

theorem roundUp_ge (x page : Nat) (hp : 0 < page) : x ≤ roundUp x page := by
  unfold roundUp
  have h := Nat.div_add_mod (x + page - 1) page
  have h2 := Nat.mod_lt (x + page - 1) hp
  rw [Nat.mul_comm] at h
  omega

theorem roundUp_mod4 (x page : Nat) (h4 : page % 4 = 0) : roundUp x page % 4 = 0 := by
  unfold roundUp
  exact Nat.mod_eq_zero_of_dvd (Nat.dvd_mul_left_of_dvd (Nat.dvd_of_mod_eq_zero h4) _)

theorem open_W (S page : Nat) (ow useSem : Bool) : (Rb.open S page ow useSem).W = roundUp (S + MARGIN + 1) page / 4 := rfl

theorem open_W_mul4 (S page : Nat) (ow useSem : Bool) (h4 : page % 4 = 0) :
    4 * (Rb.open S page ow useSem).W = roundUp (S + MARGIN + 1) page := by
  have := roundUp_mod4 (S + MARGIN + 1) page h4
  rw [open_W]; omega

end QbVerif.RingLemmas
