/-
Hashtable model vs. dictionary: get, count, traversal, notifier registration.
-/
import QbVerif.Lemmas.HtSimStep

namespace QbVerif.Hashtable
open QbVerif.Map
set_option linter.unusedSimpArgs false

theorem sim_get {t : HT} {d : Dict} (h : Inv t) (s : Sim t d) (k : Key) : StepOK t d (.get k) := by
  have hstep := step_eq h (.get k)
  simp only at hstep
  have hd : d.step (.get k) = (d, ⟨[], .val ((findEntry d.entries k).map (·.val))⟩) := rfl
  have hv : (findEntry d.entries k).map (·.val) = t.get k := by
    rw [s.find h k, Option.map_map]; rfl
  refine ⟨by rw [hstep, hd]; exact s, by intro _; rw [hstep, hd, hv], by intro _; rw [hstep, hd]; exact traceEq_of_eq rfl⟩

theorem sim_count {t : HT} {d : Dict} (h : Inv t) (s : Sim t d) : StepOK t d .count := by
  have hstep := step_eq h .count
  simp only at hstep
  have hd : d.step .count = (d, ⟨[], .num d.entries.length⟩) := rfl
  refine ⟨by rw [hstep, hd]; exact s, by intro _; rw [hstep, hd, s.count h], by intro _; rw [hstep, hd]; exact traceEq_of_eq rfl⟩

theorem eligible_live {t : HT} (h : Inv t) : t.flat.filter t.eligible = live t := by
  unfold live
  apply List.filter_congr
  intro x hx
  have := h.rcPos x hx
  simp [HT.eligible, h.fix14, this]

theorem perKey_eq {L1 L2 : List (Key × Val)} (hp : L2.Perm L1) (hnd : (L1.map (·.1)).Nodup) (k : Key) :
    (L1.filter (·.1 == k)).map (·.2) = (L2.filter (·.1 == k)).map (·.2) := by
  have hnd2 : (L2.map (·.1)).Nodup := (hp.map (·.1)).nodup_iff.2 hnd
  have e1 : L1.filter (fun x => x.1 == k) = (L1.find? fun x => x.1 == k).toList :=
    filter_key_eq (fun x : Key × Val => x.1) k hnd
  have e2 : L2.filter (fun x => x.1 == k) = (L2.find? fun x => x.1 == k).toList :=
    filter_key_eq (fun x : Key × Val => x.1) k hnd2
  rw [e1, e2]
  have hu : ∀ x ∈ L2, ∀ y ∈ L2, (x.1 == k) = true → (y.1 == k) = true → x = y := by
    intro x hx y hy h1 h2
    exact inj_of_nodup_map (·.1) hnd2 hx hy (by simp at h1 h2; rw [h1, h2])
  rw [find?_perm hp hu]

theorem sim_foreach {t : HT} {d : Dict} (h : Inv t) (s : Sim t d) (stop : Nat) (pfx : Option Key) :
    StepOK t d (.foreach stop pfx) := by
  have hstep := step_eq h (.foreach stop pfx)
  simp only at hstep
  rw [foreach_eq h.wf stop, eligible_live h] at hstep
  have hrange : d.range pfx = d.entries := by unfold Dict.range; rw [s.fl]; rfl
  have hd : d.step (.foreach stop pfx) = (d, ⟨[], .visited ((if stop = 0 then d.entries else d.entries.take stop).map
      fun e => (e.key, e.val)) (stop = 0 || d.entries.length < stop)⟩) := by
    show (d, (⟨[], .visited ((if stop = 0 then d.range pfx else (d.range pfx).take stop).map fun e => (e.key, e.val))
      (stop = 0 || (d.range pfx).length < stop)⟩ : Out)) = _
    rw [hrange]
  refine ⟨by rw [hstep, hd]; exact s, ?_, by intro _; rw [hstep, hd]; exact traceEq_of_eq rfl⟩
  intro _
  rw [hstep, hd]
  have hlen : d.entries.length = (live t).length := by rw [s.entries.length_eq, List.length_map]
  have hperm : (d.entries.map fun e => (e.key, e.val)).Perm ((live t).map kv) := by
    have := s.entries.map fun e => (e.key, e.val)
    rw [List.map_map] at this
    exact this
  have hnd : (((live t).map kv).map (·.1)).Nodup := by rw [List.map_map]; exact h.keysNodup
  simp only [Res.canon, Flavour.ht]
  rw [hlen]
  cases hc : (decide (stop = 0) || decide ((live t).length < stop)) with
  | true =>
    simp only [Bool.false_eq_true, ite_false, ite_true]
    congr 1
    funext k
    have h1 : takeStop stop ((live t).map kv) = (live t).map kv := by
      unfold takeStop
      split
      · rfl
      · simp only [Bool.or_eq_true, decide_eq_true_eq] at hc
        rw [List.take_of_length_le (by simp; omega)]
    have h2 : (if stop = 0 then d.entries else d.entries.take stop) = d.entries := by
      split
      · rfl
      · simp only [Bool.or_eq_true, decide_eq_true_eq] at hc
        rw [List.take_of_length_le (by omega)]
    rw [h1, h2]
    exact perKey_eq hperm hnd k
  | false =>
    simp only [Bool.false_eq_true, ite_false]
    simp only [Bool.or_eq_false_iff, decide_eq_false_iff_not] at hc
    congr 1
    unfold takeStop
    rw [if_neg hc.1, if_neg hc.1]
    simp only [List.length_map, List.length_take, hlen]

theorem canon_rc (a b : Option Err) (h : a.isSome = b.isSome) : (Res.rc a).canon .ht = (Res.rc b).canon .ht := by
  cases a <;> cases b <;> simp_all [Res.canon, Res.dropCode]

/-- rewriting a notifier list: the table's `setNotifHead` vs. the dictionary's update -/
theorem sim_setNotif_global {t : HT} {d : Dict} (s : Sim t d) (l : List Notifier) :
    Sim (t.setNotifHead none l) { d with globals := l } :=
  ⟨s.fl, s.entries, s.sorted, rfl, s.iters⟩

theorem sim_setNotif_key {t : HT} {d : Dict} (h : Inv t) (s : Sim t d) {k : Key} {n : Node} (hl : t.lookup k = some n)
    (l : List Notifier) :
    Sim (t.setNotifHead (some k) l) { d with entries := insertEntry { absNode n with notifs := l } d.entries } := by
  obtain ⟨hn, hr, _⟩ := h.lookup_some hl
  have hnl : n ∈ live t := List.mem_filter.2 ⟨hn, by simp [hr]⟩
  have : t.setNotifHead (some k) l = t.mapNode n.id fun x => { x with notifs := l } := by
    unfold HT.setNotifHead; simp only [hl]
  rw [this]
  exact sim_update h s hnl (fun x => { x with notifs := l }) rfl (live_mapNode n.id _ (fun _ => rfl)) rfl rfl
    (absNode n) rfl

theorem sim_nadd {t : HT} {d : Dict} (h : Inv t) (s : Sim t d) (key : Option Key) (events id : Nat) :
    StepOK t d (.nadd key events id) := by
  have hstep := step_eq h (.nadd key events id)
  simp only at hstep
  have hev : ∀ (t' : HT) (d' : Dict) (a b : Option Err), Sim t' d' → a.isSome = b.isSome →
      t.step (.nadd key events id) = (t', ⟨[], .rc a⟩) → d.step (.nadd key events id) = (d', ⟨[], .rc b⟩) →
      StepOK t d (.nadd key events id) := by
    intro t' d' a b s' hab h1 h2
    exact ⟨by rw [h1, h2]; exact s', by intro _; rw [h1, h2]; exact canon_rc a b hab,
      by intro _; rw [h1, h2]; exact traceEq_of_eq rfl⟩
  cases key with
  | none =>
    have hd : d.step (.nadd none events id) = match notifierAdd d.globals events id with
        | some g => ({ d with globals := g }, ⟨[], .rc none⟩)
        | none => (d, ⟨[], .rc (some .eexist)⟩) := rfl
    unfold HT.notifyAdd at hstep
    simp only [Option.isSome_none, Bool.false_and, Bool.false_eq_true, ite_false, HT.notifHead] at hstep
    unfold notifierAdd at hd
    rw [s.globals] at hd
    by_cases hc : t.globals.any (notifierClash events id) = true
    · rw [if_pos hc] at hstep hd
      exact hev _ _ _ _ s rfl hstep hd
    · rw [if_neg hc] at hstep hd
      exact hev _ _ _ _ (sim_setNotif_global s _) rfl hstep hd
  | some k =>
    have hd : d.step (.nadd (some k) events id) =
        if events &&& EV_FREE != 0 then (d, ⟨[], .rc (some .einval)⟩)
        else match findEntry d.entries k with
          | none => (d, ⟨[], .rc (some .enoent)⟩)
          | some e =>
            match notifierAdd e.notifs events id with
            | some l => ({ d with entries := insertEntry { e with notifs := l } d.entries }, ⟨[], .rc none⟩)
            | none => (d, ⟨[], .rc (some .eexist)⟩) := by
      show (if events &&& EV_FREE != 0 then _ else if d.fl.prefixNotify then _ else _) = _
      rw [s.fl]; rfl
    unfold HT.notifyAdd at hstep
    simp only [Option.isSome_some, Bool.true_and, HT.notifHead] at hstep
    by_cases hf : (events &&& EV_FREE != 0) = true
    · rw [if_pos hf] at hstep hd
      exact hev _ _ _ _ s rfl hstep hd
    · rw [if_neg hf] at hstep hd
      rw [s.find h k] at hd
      cases hl : t.lookup k with
      | none =>
        rw [hl] at hstep hd
        exact hev _ _ _ _ s rfl hstep hd
      | some n =>
        rw [hl] at hstep hd
        simp only [Option.map_some] at hstep hd
        unfold notifierAdd at hd
        have e1 : (absNode n).notifs = n.notifs := rfl
        rw [e1] at hd
        by_cases hc : n.notifs.any (notifierClash events id) = true
        · rw [if_pos hc] at hstep hd
          exact hev _ _ _ _ s rfl hstep hd
        · rw [if_neg hc] at hstep hd
          exact hev _ _ _ _ (sim_setNotif_key h s hl _) rfl hstep hd

theorem sim_ndel {t : HT} {d : Dict} (h : Inv t) (s : Sim t d) (key : Option Key) (events : Nat) (id : Option Nat) :
    StepOK t d (.ndel key events id) := by
  have hstep := step_eq h (.ndel key events id)
  simp only at hstep
  have hev : ∀ (t' : HT) (d' : Dict) (a b : Option Err), Sim t' d' → a.isSome = b.isSome →
      t.step (.ndel key events id) = (t', ⟨[], .rc a⟩) → d.step (.ndel key events id) = (d', ⟨[], .rc b⟩) →
      StepOK t d (.ndel key events id) := by
    intro t' d' a b s' hab h1 h2
    exact ⟨by rw [h1, h2]; exact s', by intro _; rw [h1, h2]; exact canon_rc a b hab,
      by intro _; rw [h1, h2]; exact traceEq_of_eq rfl⟩
  cases key with
  | none =>
    have hd : d.step (.ndel none events id) = match notifierDel d.globals events id with
        | some g => ({ d with globals := g }, ⟨[], .rc none⟩)
        | none => (d, ⟨[], .rc (some .enoent)⟩) := rfl
    unfold HT.notifyDel at hstep
    simp only [HT.notifHead] at hstep
    unfold notifierDel at hd
    rw [s.globals] at hd
    by_cases hc : t.globals.any (notifierMatch events id) = true
    · rw [if_pos hc] at hstep hd
      exact hev _ _ _ _ (sim_setNotif_global s _) rfl hstep hd
    · rw [if_neg hc] at hstep hd
      exact hev _ _ _ _ s rfl hstep hd
  | some k =>
    have hd : d.step (.ndel (some k) events id) =
        match findEntry d.entries k with
          | none => (d, ⟨[], .rc (some .enoent)⟩)
          | some e =>
            match notifierDel e.notifs events id with
            | some l => ({ d with entries := insertEntry { e with notifs := l } d.entries }, ⟨[], .rc none⟩)
            | none => (d, ⟨[], .rc (some .enoent)⟩) := by
      show (if d.fl.prefixNotify then _ else _) = _
      rw [s.fl]; rfl
    unfold HT.notifyDel at hstep
    simp only [HT.notifHead] at hstep
    rw [s.find h k] at hd
    cases hl : t.lookup k with
    | none =>
      rw [hl] at hstep hd
      exact hev _ _ _ _ s rfl hstep hd
    | some n =>
      rw [hl] at hstep hd
      simp only [Option.map_some] at hstep hd
      unfold notifierDel at hd
      have e1 : (absNode n).notifs = n.notifs := rfl
      rw [e1] at hd
      by_cases hc : n.notifs.any (notifierMatch events id) = true
      · rw [if_pos hc] at hstep hd
        exact hev _ _ _ _ (sim_setNotif_key h s hl _) rfl hstep hd
      · rw [if_neg hc] at hstep hd
        exact hev _ _ _ _ s rfl hstep hd

end QbVerif.Hashtable
