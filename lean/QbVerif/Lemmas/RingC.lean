/-
Tie T3 for the ring buffer: the hand-written model functions `Rb.spaceFree`, `Rb.spaceUsed`,
`Rb.chunkStep` are PROVED equal to the definitions that tools/c2lean.py generates from the
current lib/ringbuffer.c (Gen/RingC.lean, regenerated on every check run), under the range
hypotheses the model's invariant provides.  If the C functions change, these theorems are
re-checked against the new translation.
-/
import QbVerif.Model.Ring
import QbVerif.Gen.RingC

namespace QbVerif.Lemmas.RingC
open QbVerif.Ring QbVerif.Gen

/-- how the model's semaphore field maps to the notifier inputs of the C function -/
def qlenFn (r : Rb) : Int := if r.sem.isSome then 1 else 0
def qlenVal (r : Rb) : Int := match r.sem with | some n => (n : Int) | none => 0

/-- how the model's overwrite flag maps to `rb->flags` (`QB_RB_FLAG_OVERWRITE` = 2) -/
def FlagsOk (r : Rb) (fl : Nat) : Prop := (Nat.land fl 2 ≠ 0) ↔ r.ow = true

theorem spaceFree_c_eq (r : Rb) (hr : r.rp < r.W) (hw : r.wp < r.W) (hW : r.W < 2 ^ 30)
    (hs : ∀ n, r.sem = some n → n < 2 ^ 31) (su : Int) (fl : Nat) (hfl : FlagsOk r fl) :
    qb_rb_space_free_c (qlenVal r) su 1 fl (qlenFn r) 0 r.rp r.W r.wp = (r.spaceFree : Int) := by
  have e2 : (wrapU 32 (2 : Int)).toNat = 2 := by decide
  unfold FlagsOk at hfl
  unfold qb_rb_space_free_c Rb.spaceFree Rb.spaceFreeGen
  simp only [Int.toNat_natCast, e2, Int.ofNat_eq_natCast]
  generalize Nat.land fl 2 = k at hfl ⊢
  unfold wrapU wrapS qlenVal qlenFn
  rcases how : r.ow with _ | _
  · have hz : k = 0 := by
      by_cases h : k = 0
      · exact h
      · exact absurd (hfl.mp h) (by simp [how])
    subst hz
    rcases hsem : r.sem with _ | n
    · simp
      repeat' split
      all_goals omega
    · have := hs n hsem
      cases n <;> simp <;> repeat' split
      all_goals omega
  · have hz : k ≠ 0 := hfl.mpr how
    have hz' : (k : Int) ≠ 0 := by omega
    simp [hz']
    repeat' split
    all_goals omega

theorem spaceUsed_c_eq (r : Rb) (hr : r.rp < r.W) (hw : r.wp < r.W) (hW : r.W < 2 ^ 30) (su : Int) :
    qb_rb_space_used_c su 1 0 r.rp r.W r.wp = (r.spaceUsed : Int) := by
  unfold qb_rb_space_used_c Rb.spaceUsed wrapU wrapS
  simp
  repeat' split
  all_goals omega

theorem wrapU_id (n : Nat) (x : Int) (h0 : 0 ≤ x) (h1 : x < 2 ^ n) : wrapU n x = x := by
  unfold wrapU; exact Int.emod_eq_of_lt h0 h1

theorem chunkStep_c_eq (r : Rb) (p : Nat) (hp : p < r.W) (hW : r.W < 2 ^ 30) (h0 : 0 < r.W)
    (hsz : rd32 r.mem p < 2 ^ 32) :
    qb_rb_chunk_step_c p (fun i => (rd32 r.mem i.toNat : Int)) r.W = (r.chunkStep p : Int) := by
  unfold qb_rb_chunk_step_c Rb.chunkStep idxStep
  simp only [Int.toNat_natCast, HDRW, RB_CHUNK_HEADER_WORDS]
  generalize rd32 r.mem p = sz at hsz
  have e1 : wrapU 32 (2 : Int) = 2 := by decide
  have e2 : wrapU 32 (1 : Int) = 1 := by decide
  have e3 : wrapU 64 (1 : Int) = 1 := by decide
  have e4 : wrapU 64 (0 : Int) = 0 := by decide
  have e5 : wrapU 64 (sz : Int) = sz := wrapU_id _ _ (by omega) (by omega)
  have e6 : wrapU 32 ((p : Int) + 2) = p + 2 := wrapU_id _ _ (by omega) (by omega)
  have e7 : wrapU 32 ((p : Int) + 2) = p + 2 := e6
  have e8 : wrapU 64 ((p : Int) + 2) = p + 2 := wrapU_id _ _ (by omega) (by omega)
  have e9 : wrapU 64 ((sz : Int) / 4) = sz / 4 := wrapU_id _ _ (by omega) (by omega)
  have e10 : wrapU 64 ((p : Int) + 2 + sz / 4) = p + 2 + sz / 4 := wrapU_id _ _ (by omega) (by omega)
  have e11 : wrapU 32 ((p : Int) + 2 + sz / 4) = p + 2 + sz / 4 := wrapU_id _ _ (by omega) (by omega)
  have e12 : wrapU 64 ((4 : Int) * 1) = 4 := by decide
  have e13 : wrapU 64 ((sz : Int) % 4) = sz % 4 := wrapU_id _ _ (by omega) (by omega)
  have e14 : wrapU 32 ((p : Int) + 2 + sz / 4 + 1) = p + 2 + sz / 4 + 1 := wrapU_id _ _ (by omega) (by omega)
  have e15 : wrapU 32 ((r.W : Int) - 1) = r.W - 1 := wrapU_id _ _ (by omega) (by omega)
  simp only [e1, e2, e3, e4, e5, e6, e8, e9, e10, e11, e12, e13, e14, e15]
  have m1 : ((p : Int) + 2 + sz / 4 + 1) % r.W = ((p + 2 + sz / 4 + 1) % r.W : Nat) := by
    push_cast; rfl
  have m2 : ((p : Int) + 2 + sz / 4) % r.W = ((p + 2 + sz / 4) % r.W : Nat) := by
    push_cast; rfl
  have b1 : ((p + 2 + sz / 4 + 1) % r.W : Nat) < r.W := Nat.mod_lt _ h0
  have b2 : ((p + 2 + sz / 4) % r.W : Nat) < r.W := Nat.mod_lt _ h0
  by_cases hm : sz % 4 = 0
  · have : ¬ ((sz : Int) % 4 ≠ 0) := by omega
    simp only [this, hm, if_false, ne_eq, not_true_eq_false, Nat.add_zero]
    by_cases hc : r.W - 1 < p + 2 + sz / 4
    · have : ((p : Int) + 2 + sz / 4 > (r.W : Int) - 1) := by omega
      simp only [this, hc, if_true, m2]
      exact wrapU_id _ _ (by omega) (by omega)
    · have : ¬ ((p : Int) + 2 + sz / 4 > (r.W : Int) - 1) := by omega
      simp only [this, hc, if_false]
      push_cast; rfl
  · have : ((sz : Int) % 4 ≠ 0) := by omega
    simp only [this, hm, if_true, ne_eq, not_false_eq_true]
    by_cases hc : r.W - 1 < p + 2 + sz / 4 + 1
    · have : ((p : Int) + 2 + sz / 4 + 1 > (r.W : Int) - 1) := by omega
      simp only [this, hc, if_true, m1]
      exact wrapU_id _ _ (by omega) (by omega)
    · have : ¬ ((p : Int) + 2 + sz / 4 + 1 > (r.W : Int) - 1) := by omega
      simp only [this, hc, if_false]
      push_cast; rfl

end QbVerif.Lemmas.RingC
