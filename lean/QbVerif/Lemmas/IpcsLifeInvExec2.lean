import QbVerif.Lemmas.IpcsLifeInvExec

/-! C04 — the remaining straight-line pieces of `exec` (closed callback, application calls). -/
namespace QbVerif.IpcsLife

theorem closedPre_ok {s : St} (hi : Inv s) (c : Nat) (ret : Int)
    (hst : (s.conns c).st = .established ∨ (s.conns c).st = .shuttingDown)
    (hcl : (s.conns c).cl = .todo) (s1 : St)
    (hs1 : Same (s.upd c fun k => { k with st := .shuttingDown }) s1) :
    Inv (closedPre s1 c ret) ∧ Frame s (closedPre s1 c ret) ∧
    ((closedPre s1 c ret).conns c).cl = .running ∧
    ((closedPre s1 c ret).conns c).phase = (if ret = 0 then .closedOk else .closing) ∧
    (s.conns c).phase ≠ .dead := by
  have hfix : s1.fixClosed = true := by rw [hs1.f1]; exact hi.fix.1
  obtain ⟨hp, hf, h1, h2, h3⟩ := (hi.conn c).closedPre hst hcl ret _ rfl
  have hu : UpdOf s c ({ monitor .closed ret { s.conns c with st := .shuttingDown } with
      closedSeen := true, cl := .running }) (closedPre s1 c ret) := by
    refine ⟨?_, fun i h => ?_, ?_, ?_, ?_, ?_, ?_⟩
    · simp [closedPre, cb_eq, hs1.conns, hfix]
    · simp [closedPre, cb_eq, hs1.conns, h]
    · exact hs1.list
    · exact hs1.jobs
    · exact hs1.f1
    · exact hs1.f2
    · exact hs1.f3
  refine ⟨hu.inv hi hp (fun _ => by rw [h2] <;> split <;> simp) (by rw [h1, hcl] <;> simp),
    hu.frame hf, ?_, ?_, h3⟩
  · rw [hu.at_c]; try exact h1
  · rw [hu.at_c]; try exact h2

theorem closedRetry_ok {s : St} (hi : Inv s) (c : Nat) (hcl : (s.conns c).cl = .running)
    (hph : (s.conns c).phase = .closing) :
    Inv (closedRetry s c) ∧ (∀ i, i ≠ c → (closedRetry s c).conns i = s.conns i) ∧
    ((closedRetry s c).conns c).brCreated = (s.conns c).brCreated ∧
    ((closedRetry s c).conns c).brDispatch = (s.conns c).brDispatch ∧
    ((closedRetry s c).conns c).brWalk = (s.conns c).brWalk ∧ ((closedRetry s c).conns c).phase = .closing := by
  obtain ⟨hp, h1, h2, h3, h4, h5⟩ := (hi.conn c).closedRetry hcl hph _ rfl
  have hfix := hi.fix.1
  have hat : (closedRetry s c).conns c = { s.conns c with cl := .retry } := by simp [closedRetry, hfix]
  have hot : ∀ i, i ≠ c → (closedRetry s c).conns i = s.conns i := fun i h => by simp [closedRetry, h]
  have hnj : c ∉ s.jobs := fun h => by have := (hi.job c).mp h; rw [hcl] at this; cases this
  refine ⟨⟨hi.fix, fun i => ?_, fun x hx => ?_, ?_, fun x => ?_⟩, hot, ?_, ?_, ?_, ?_⟩
  · by_cases h : i = c
    · subst h; rw [hat]; exact hp
    · rw [hot i h]; exact hi.conn i
  · by_cases h : x = c
    · subst h; rw [hat]; simp [hph]
    · rw [hot x h]; exact hi.lst x hx
  · show (s.jobs ++ [c]).Nodup
    rw [List.nodup_append]
    exact ⟨hi.jnd, by simp, fun a ha b hb => by simp at hb; subst hb; exact fun h => hnj (h ▸ ha)⟩
  · show x ∈ s.jobs ++ [c] ↔ _
    by_cases h : x = c
    · subst h; rw [hat]; simp
    · rw [hot x h]; simp [h]; exact hi.job x
  all_goals (rw [hat]; try exact hph)

theorem closedDone_ok {s : St} (hi : Inv s) (c : Nat) (hh : s.halt = false)
    (hcl : (s.conns c).cl = .running) (hph : (s.conns c).phase = .closedOk) :
    Inv (closedDone s c) ∧ (∀ i, i ≠ c → (closedDone s c).conns i = s.conns i) ∧
    ((closedDone s c).conns c).brCreated = (s.conns c).brCreated ∧
    ((closedDone s c).conns c).brDispatch = (s.conns c).brDispatch ∧
    ((closedDone s c).conns c).brWalk = (s.conns c).brWalk ∧ CallOk (closedDone s c) (.zero c) := by
  obtain ⟨hp, hrc, hfr, h1, h2, h3, h4⟩ := (hi.conn c).closedDone hcl hph _ rfl
  have hfix := hi.fix.1
  have he : closedDone s c = s.upd c fun k => { k with cl := .done, rc := k.rc - 1, init := false } := by
    unfold closedDone
    rw [dec_eq _ _ _ (by simpa using hh) (by simpa using hfr) (by simpa using hrc), upd_upd]
    simp [hfix]
  rw [he]
  have hu := updOf_upd s c fun k => { k with cl := .done, rc := k.rc - 1, init := false }
  refine ⟨hu.inv hi hp (fun _ => by simp [hph]) (by simp [hcl]), hu.other, ?_, ?_, ?_, ?_⟩
  · simp
  · simp
  · simp
  · simp [CallOk, hph]

theorem appD_ok {s : St} (hi : Inv s) (c : Nat) (ht : touchable (s.conns c) = true) :
    Inv (appD s c) ∧ Frame s (appD s c) ∧ CallOk (appD s c) (.disc c) := by
  obtain ⟨hp, hf, h1, h2, h3⟩ := (hi.conn c).appD _ rfl
  have hu : UpdOf s c ({ s.conns c with appDisc := true }) (appD s c) :=
    ⟨by simp [appD], fun i h => by simp [appD, h], rfl, rfl, rfl, rfl, rfl⟩
  refine ⟨hu.inv hi hp (fun hx => by rw [h1]; exact hi.lst c hx) (by rw [h2]), hu.frame hf, ?_⟩
  show ((appD s c).conns c).freed = false
  rw [hu.at_c]; exact ((hi.conn c).tch ht).1

theorem appR_ok {s : St} (hi : Inv s) (c : Nat) (hh : s.halt = false)
    (ht : touchable (s.conns c) = true) : Inv (appR s c) ∧ Frame s (appR s c) := by
  obtain ⟨hp, hf, h1, h2⟩ := (hi.conn c).appR ht _ rfl
  have hfr := ((hi.conn c).tch ht).1
  have he : appR s c = (s.emit (.doOp 'r' c)).upd c fun k => { k with rc := k.rc + 1, appref := k.appref + 1 } := by
    unfold appR
    rw [ref_eq _ _ _ (by simpa using hh) (by simpa using hfr)]
  rw [he]
  have hu : UpdOf s c ({ s.conns c with rc := (s.conns c).rc + 1, appref := (s.conns c).appref + 1 })
      ((s.emit (.doOp 'r' c)).upd c fun k => { k with rc := k.rc + 1, appref := k.appref + 1 }) :=
    ⟨by simp, fun i h => by simp [h], rfl, rfl, rfl, rfl, rfl⟩
  exact ⟨hu.inv hi hp (fun hx => by rw [h1]; exact hi.lst c hx) (by rw [h2]), hu.frame hf⟩

theorem appU_ok {s : St} (hi : Inv s) (c : Nat) (hh : s.halt = false)
    (hn : (s.conns c).phase ≠ .none) (ha : (s.conns c).appref ≠ 0) :
    Inv (appU s c) ∧ Frame s (appU s c) ∧ CallOk (appU s c) (.zero c) := by
  obtain ⟨hp, hf, hrc, hfr, h1, hnd, h2⟩ := (hi.conn c).appU hn ha _ rfl
  have he : appU s c = (s.emit (.doOp 'u' c)).upd c fun k => { k with rc := k.rc - 1, appref := k.appref - 1 } := by
    unfold appU
    rw [dec_eq _ _ _ (by simpa using hh) (by simpa using hfr) (by simpa using hrc)]
  rw [he]
  have hu : UpdOf s c ({ s.conns c with rc := (s.conns c).rc - 1, appref := (s.conns c).appref - 1 })
      ((s.emit (.doOp 'u' c)).upd c fun k => { k with rc := k.rc - 1, appref := k.appref - 1 }) :=
    ⟨by simp, fun i h => by simp [h], rfl, rfl, rfl, rfl, rfl⟩
  refine ⟨hu.inv hi hp (fun hx => by rw [h1]; exact hi.lst c hx) (by rw [h2]), hu.frame hf, ?_⟩
  show _ ≠ _ ∧ _ ≠ _
  rw [hu.at_c, h1]; exact ⟨hn, hnd⟩

theorem appE_ok {s : St} (hi : Inv s) (c : Nat) (ht : touchable (s.conns c) = true) :
    Inv (appE s c) ∧ Frame s (appE s c) := by
  have hfr := ((hi.conn c).tch ht).1
  have he : appE s c = s.emit (.doOp 'e' c) := by
    unfold appE; exact touch_eq _ _ (by simpa using hfr)
  rw [he]
  exact ⟨(same_emit s _).inv hi, (same_emit s _).frame⟩

theorem touchAll_eq (l : List Nat) (s : St) (h : ∀ c, c ∈ l → (s.conns c).freed = false) :
    l.foldl (fun s c => s.touch c) s = s := by
  induction l with
  | nil => rfl
  | cons a r ih =>
    simp only [List.foldl_cons]
    rw [touch_eq s a (h a (by simp))]
    exact ih (fun c hc => h c (by simp [hc]))

theorem appI_ok {s : St} (hi : Inv s) : Inv (appI s) ∧ Frame s (appI s) := by
  have hs : Same s ((s.emit (.doIter s.list)).touchSvc) := (same_emit s _).trans (same_touchSvc _)
  have he : appI s = (s.emit (.doIter s.list)).touchSvc := by
    unfold appI
    simp only []
    rw [hs.list]
    apply touchAll_eq
    intro c hc
    rw [hs.conns]
    exact hi.notFreed (hi.lst c hc)
  rw [he]
  exact ⟨hs.inv hi, hs.frame⟩

end QbVerif.IpcsLife
