/-
Simulation of the ring buffer model by the abstract FIFO (C07): every operation of the
non-overwriting ring on a state satisfying `Inv r q TR` behaves like the FIFO operation on
`⟨r.W, q, r.sem⟩`, and re-establishes the invariant.
-/
import QbVerif.Lemmas.RingWrite

namespace QbVerif.RingLemmas
open QbVerif.Ring QbVerif.RingSpec

/-- the FIFO state a ring state stands for, given the ghost queue -/
def absF (r : Rb) (q : List (List Nat)) : Fifo := ⟨r.W, q, r.sem⟩

/-- "`r'`, `o` is a correct outcome of `op`": the FIFO does the same and the invariant holds again -/
def StepOk (r : Rb) (q : List (List Nat)) (op : Op) (r' : Rb) (o : Out) : Prop :=
  ∃ q' TR', Inv r' q' TR' ∧ r'.ow = r.ow ∧ (absF r q).step op = (absF r' q', o)

theorem tryWait_cases (r : Rb) :
    (r.sem = some 0 ∧ r.tryWait = none) ∨
    (∃ s, r.tryWait = some { r with sem := s } ∧ ((r.sem = none ∧ s = none) ∨ ∃ n, r.sem = some (n + 1) ∧ s = some n)) := by
  unfold Rb.tryWait
  cases hs : r.sem with
  | none => right; exact ⟨none, by cases r; simp_all, Or.inl ⟨rfl, rfl⟩⟩
  | some n =>
    cases n with
    | zero => left; exact ⟨rfl, rfl⟩
    | succ n => right; exact ⟨some n, rfl, Or.inr ⟨n, rfl, rfl⟩⟩

theorem step_write {r q TR} (h : Inv r q TR) (how : r.ow = false) (d : List Nat) :
    StepOk r q (.write d) (r.step (.write d)).1 (r.step (.write d)).2 := by
  have hf : r.spaceFree = (absF r q).free := spaceFree_eq_normal h how
  have hstep : r.step (.write d) = if r.spaceFree < d.length + MARGIN then (r, .err .eagain)
      else (writeTail r d, .wrote d.length) := by
    simp only [Rb.step, write_normal r d how]
    by_cases hc : r.spaceFree < d.length + MARGIN
    · simp only [if_pos hc]
    · simp only [if_neg hc]
  rw [hstep]
  by_cases hfree : r.spaceFree < d.length + MARGIN
  · rw [if_pos hfree]
    refine ⟨q, TR, h, rfl, ?_⟩
    simp only [Fifo.step]
    rw [if_pos (by rw [← hf]; exact hfree)]
  · rw [if_neg hfree]
    have hroom : Room r.W (total q) (cw d.length) := room_of_free (sem := r.sem) (by rw [hf] at hfree; exact hfree)
    obtain ⟨hi, hsem, hWeq, howeq⟩ := writeTail_inv d h hroom
    refine ⟨q ++ [d], TR, hi, howeq, ?_⟩
    simp only [Fifo.step]
    rw [if_neg (by rw [← hf]; exact hfree)]
    simp only [absF, Fifo.post, hsem, hWeq]

theorem step_free {r q TR} (h : Inv r q TR) (how : r.ow = false) :
    StepOk r q .free (r.step .free).1 (r.step .free).2 := by
  refine ⟨q, TR, h, rfl, ?_⟩
  simp only [Rb.step, Fifo.step, spaceFree_eq_normal h how]
  rfl

theorem step_reclaim {r q TR} (h : Inv r q TR) : StepOk r q .reclaim (r.step .reclaim).1 (r.step .reclaim).2 := by
  simp only [Rb.step]
  cases q with
  | nil =>
    rw [reclaim_nil h]
    exact ⟨[], TR, h, rfl, rfl⟩
  | cons c cs =>
    obtain ⟨_, hi, hsem, hW, how⟩ := reclaim_cons h
    refine ⟨cs, _, hi, how, ?_⟩
    simp only [Fifo.step, absF, hsem, hW, List.tail_cons]

/-- the part of `qb_rb_chunk_read` after the semaphore wait -/
def readBody (r1 : Rb) (cap : Nat) : Rb × Except Err (List Nat) :=
  if r1.magic r1.rp ≠ MAGIC then
    match r1.sem with
    | none => (r1, .error .etimedout)
    | some _ => (r1.post, .error .ebadmsg)
  else
    let sz := rd32 r1.mem r1.rp
    if cap < sz then (r1.post, .error .enobufs)
    else
      let out := r1.copyOut r1.rp sz
      ((r1.reclaim).1, .ok out)

theorem read_eq (r : Rb) (cap : Nat) :
    r.read cap = match r.tryWait with
      | none => (r, .error .etimedout)
      | some r1 => readBody r1 cap := rfl

def outOfRead : Rb × Except Err (List Nat) → Rb × Out
  | (r', .ok bs) => (r', .data bs)
  | (r', .error e) => (r', .err e)

theorem step_read_eq (r : Rb) (cap : Nat) : r.step (.read cap) = outOfRead (r.read cap) := by
  simp only [Rb.step, outOfRead]
  split <;> simp_all

/-- the FIFO's read after the semaphore wait -/
def fifoReadBody (f1 : Fifo) (cap : Nat) : Fifo × Out :=
  match f1.q with
  | [] => (match f1.sem with | none => (f1, .err .etimedout) | some _ => (f1.post, .err .ebadmsg))
  | c :: cs => if cap < c.length then (f1.post, .err .enobufs) else ({ f1 with q := cs }, .data c)

theorem readBody_sim {r1 q TR} (h : Inv r1 q TR) (cap : Nat) :
    ∃ q' TR', Inv (outOfRead (readBody r1 cap)).1 q' TR' ∧ (outOfRead (readBody r1 cap)).1.ow = r1.ow ∧
      fifoReadBody (absF r1 q) cap = (absF (outOfRead (readBody r1 cap)).1 q', (outOfRead (readBody r1 cap)).2) := by
  unfold readBody
  cases q with
  | nil =>
    rw [if_pos (magic_nil h)]
    cases hs : r1.sem with
    | none =>
      refine ⟨[], TR, h, rfl, ?_⟩
      simp only [fifoReadBody, absF, outOfRead, hs]
    | some n =>
      refine ⟨[], TR, h.post, rfl, ?_⟩
      simp only [fifoReadBody, absF, outOfRead, hs, Fifo.post, Rb.post]
  | cons c cs =>
    rw [if_neg (by simp [magic_cons h])]
    simp only [size_cons h]
    by_cases hc : cap < c.length
    · rw [if_pos hc]
      refine ⟨c :: cs, TR, h.post, rfl, ?_⟩
      simp only [fifoReadBody, absF, outOfRead, if_pos hc, Fifo.post, Rb.post]
    · rw [if_neg hc]
      obtain ⟨_, hi, hsem, hW, how⟩ := reclaim_cons h
      refine ⟨cs, _, hi, how, ?_⟩
      simp only [fifoReadBody, absF, outOfRead, if_neg hc, copyOut_cons h, hsem, hW]

theorem step_read {r q TR} (h : Inv r q TR) (cap : Nat) :
    StepOk r q (.read cap) (r.step (.read cap)).1 (r.step (.read cap)).2 := by
  have hF : (absF r q).step (.read cap) = match (absF r q).tryWait with
      | none => (absF r q, .err .etimedout)
      | some f1 => fifoReadBody f1 cap := rfl
  rw [step_read_eq, read_eq]
  unfold StepOk
  rw [hF]
  rcases tryWait_cases r with ⟨hs, ht⟩ | ⟨s, ht, hs⟩
  · rw [ht]
    refine ⟨q, TR, h, rfl, ?_⟩
    simp only [absF, Fifo.tryWait, hs, outOfRead]
  · rw [ht]
    have hft : (absF r q).tryWait = some (absF { r with sem := s } q) := by
      rcases hs with ⟨h1, h2⟩ | ⟨n, h1, h2⟩ <;> simp only [absF, Fifo.tryWait, h1, h2]
    rw [hft]
    exact readBody_sim (h.with_sem s) cap

/-- the part of `qb_rb_chunk_peek` after the semaphore wait -/
def peekBody (r1 : Rb) : Rb × Out :=
  if r1.magic r1.rp ≠ MAGIC then (r1.post, .err .ebadmsg)
  else (r1, .data (r1.copyOut r1.rp (rd32 r1.mem r1.rp)))

theorem step_peek_eq (r : Rb) : r.step .peek = match r.tryWait with
    | none => (r, .timedOut)
    | some r1 => peekBody r1 := by
  simp only [Rb.step, Rb.peek, peekBody]
  cases r.tryWait with
  | none => rfl
  | some r1 =>
    by_cases hm : r1.magic r1.rp ≠ MAGIC
    · simp only [if_pos hm]
    · simp only [if_neg hm]

def fifoPeekBody (f1 : Fifo) : Fifo × Out :=
  match f1.q with
  | [] => (f1.post, .err .ebadmsg)
  | c :: _ => (f1, .data c)

theorem peekBody_sim {r1 q TR} (h : Inv r1 q TR) :
    ∃ q' TR', Inv (peekBody r1).1 q' TR' ∧ (peekBody r1).1.ow = r1.ow ∧
      fifoPeekBody (absF r1 q) = (absF (peekBody r1).1 q', (peekBody r1).2) := by
  unfold peekBody
  cases q with
  | nil =>
    rw [if_pos (magic_nil h)]
    exact ⟨[], TR, h.post, rfl, rfl⟩
  | cons c cs =>
    rw [if_neg (by simp [magic_cons h])]
    refine ⟨c :: cs, TR, h, rfl, ?_⟩
    simp only [fifoPeekBody, absF, size_cons h, copyOut_cons h]

theorem step_peek {r q TR} (h : Inv r q TR) : StepOk r q .peek (r.step .peek).1 (r.step .peek).2 := by
  have hF : (absF r q).step .peek = match (absF r q).tryWait with
      | none => (absF r q, .timedOut)
      | some f1 => fifoPeekBody f1 := rfl
  rw [step_peek_eq]
  unfold StepOk
  rw [hF]
  rcases tryWait_cases r with ⟨hs, ht⟩ | ⟨s, ht, hs⟩
  · rw [ht]
    refine ⟨q, TR, h, rfl, ?_⟩
    simp only [absF, Fifo.tryWait, hs]
  · rw [ht]
    have hft : (absF r q).tryWait = some (absF { r with sem := s } q) := by
      rcases hs with ⟨h1, h2⟩ | ⟨n, h1, h2⟩ <;> simp only [absF, Fifo.tryWait, h1, h2]
    rw [hft]
    exact peekBody_sim (h.with_sem s)

theorem step_sim {r q TR} (h : Inv r q TR) (how : r.ow = false) (op : Op) :
    StepOk r q op (r.step op).1 (r.step op).2 := by
  cases op with
  | write d => exact step_write h how d
  | read cap => exact step_read h cap
  | peek => exact step_peek h
  | reclaim => exact step_reclaim h
  | free => exact step_free h how

theorem run_sim {r q TR} (h : Inv r q TR) (how : r.ow = false) (ops : List Op) :
    (r.run ops).2 = ((absF r q).run ops).2 := by
  induction ops generalizing r q TR with
  | nil => rfl
  | cons op ops ih =>
    obtain ⟨q', TR', hi, how', hstep⟩ := step_sim h how op
    simp only [Rb.run, Fifo.run, hstep]
    rw [ih hi (by rw [how', how])]

theorem run_sim_state {r q TR} (h : Inv r q TR) (how : r.ow = false) (ops : List Op) :
    ∃ q' TR', Inv (r.run ops).1 q' TR' ∧ ((absF r q).run ops).1 = absF (r.run ops).1 q' := by
  induction ops generalizing r q TR with
  | nil => exact ⟨q, TR, h, rfl⟩
  | cons op ops ih =>
    obtain ⟨q1, TR1, hi, how', hstep⟩ := step_sim h how op
    obtain ⟨q', TR', hi', he⟩ := ih hi (by rw [how', how])
    refine ⟨q', TR', ?_, ?_⟩
    · simpa only [Rb.run] using hi'
    · simp only [Rb.run, Fifo.run, hstep]
      exact he

theorem ptrs_eq_iff {r q TR} (h : Inv r q TR) : r.rp = r.wp ↔ q = [] := by
  constructor
  · intro e
    cases q with
    | nil => rfl
    | cons c cs =>
      exfalso
      have h2 := cw_ge c.length
      have hu := h.used
      rw [total_cons] at hu
      rw [h.hrp, h.hwp, total_cons] at e
      exact mod_ne_of_window (N := r.W) (a := TR) (b := TR + (cw c.length + total cs)) (by omega) e
  · intro e
    subst e
    rw [h.hrp, h.hwp, total_nil, Nat.add_zero]

/-! ### the freshly created ring -/

theorem open_inv (S page : Nat) (ow useSem : Bool) (hp : 0 < page) (h4 : page % 4 = 0)
    (hbig : roundUp (S + MARGIN + 1) page < 2 ^ 31) : Inv (Rb.open S page ow useSem) [] 0 := by
  have h4W := open_W_mul4 S page ow useSem h4
  have hge := roundUp_ge (S + MARGIN + 1) page hp
  have hm := MARGIN_eq
  have hW : 0 < (Rb.open S page ow useSem).W := by omega
  refine ⟨?_, by omega, by omega, ?_, ?_, ?_, trivial, ?_⟩
  · simp [Rb.open]
  · simp [Rb.open]
  · simp [Rb.open, total]
  · simp only [total_nil]; omega
  · simp only [total_nil, Nat.add_zero, Nat.zero_add]
    have hz : word (Rb.open S page ow useSem).mem (Rb.open S page ow useSem).W 1 = 0 := by
      generalize hWd : (Rb.open S page ow useSem).W = W at *
      have hmem : (Rb.open S page ow useSem).mem = setCell (Array.replicate (4 * W) 0) W 0 5 := by
        simp [Rb.open, setCell, ← hWd]
      rw [hmem, word_eq_cells hW]
      rw [cell_setCell_ne (by unfold Apart; omega), cell_setCell_ne (by unfold Apart; omega),
        cell_setCell_ne (by unfold Apart; omega), cell_setCell_ne (by unfold Apart; omega)]
      have hc : ∀ a, cell (Array.replicate (4 * W) 0) W a = 0 := by
        intro a
        have : a % (4 * W) < 4 * W := Nat.mod_lt _ (by omega)
        simp [cell, this]
      simp [hc]
    rw [hz]
    exact zero_ne_MAGIC

end QbVerif.RingLemmas
