/-
Skiplist, all levels: the loop "Drop @new_node into @list" of `skiplist_put` in closed form
(`linkLevels_eq`): every forward array is rewritten, level by level, by `linkArr`.
-/
import QbVerif.Lemmas.SlmTop

namespace QbVerif.Skiplist
open QbVerif.Map
set_option linter.unusedSimpArgs false

/-- the forward array `a` (allocated under `f`) after levels `lo … hi - 1` have been linked:
    the new node's array receives the predecessor's successor, the predecessor's array the new node -/
def linkArr (s : SL) (new : NodeId) (nf : FwdId) (P : Nat → NodeId) (lo hi : Nat) (f : FwdId)
    (a : Nat → Option NodeId) : Nat → Option NodeId :=
  fun l => if lo ≤ l ∧ l < hi then (if f = nf then nextL s l (P l) else if f = fwdOf s (P l) then some new else a l) else a l

theorem nextL_of {s : SL} {x : NodeId} {n : Node} {a} (h1 : s.nodes x = some n) (h2 : s.fwds n.fwd = some a) (l : Nat) :
    nextL s l x = a l := by simp [nextL, h1, h2]

theorem linkLevels_eq (new : NodeId) (P : Nat → NodeId) (nn : Node) : ∀ (cnt lo : Nat) (s : SL),
    s.nodes new = some nn → (s.fwds nn.fwd).isSome = true →
    (∀ l, lo ≤ l → l < lo + cnt → XOk s (P l) ∧ fwdOf s (P l) ≠ nn.fwd) →
    SL.linkLevels new P cnt lo s =
      .ok { s with fwds := fun f => (s.fwds f).map (linkArr s new nn.fwd P lo (lo + cnt) f) }
  | 0, lo, s, _, _, _ => by
    simp only [SL.linkLevels, Nat.add_zero]
    congr 1
    have : (fun f => (s.fwds f).map (linkArr s new nn.fwd P lo lo f)) = s.fwds := by
      funext f
      cases hf : s.fwds f with
      | none => rfl
      | some a =>
        simp only [Option.map_some, Option.some.injEq]
        funext l
        simp only [linkArr]
        rw [if_neg (by omega)]
    rw [this]
  | cnt + 1, lo, s, hnew, hna, hP => by
    obtain ⟨an, han⟩ := Option.isSome_iff_exists.1 hna
    obtain ⟨⟨pn, pa, hpn, hpa⟩, hpf⟩ := hP lo (Nat.le_refl _) (by omega)
    have hpfw : fwdOf s (P lo) = pn.fwd := by simp [fwdOf, hpn]
    rw [hpfw] at hpf
    -- the state after the two writes of level `lo`
    let s2 : SL := { s with fwds := upd (upd s.fwds nn.fwd (some (upd an lo (pa lo)))) pn.fwd (some (upd pa lo (some new))) }
    have hstep : SL.linkLevels new P (cnt + 1) lo s = SL.linkLevels new P cnt (lo + 1) s2 := by
      simp only [SL.linkLevels, SL.fwdAt, SL.setFwdAt, SL.node, SL.arr, hpn, hpa, hnew, han, bind, Except.bind, upd, hpf,
        if_false, if_true]
      rfl
    have hn2 : s2.nodes new = some nn := hnew
    have hna2 : (s2.fwds nn.fwd).isSome = true := by simp [s2, upd, hpf.symm]
    have hfw2 : ∀ x, fwdOf s2 x = fwdOf s x := fun x => rfl
    have hP2 : ∀ l, lo + 1 ≤ l → l < lo + 1 + cnt → XOk s2 (P l) ∧ fwdOf s2 (P l) ≠ nn.fwd := by
      intro l h1 h2
      obtain ⟨⟨qn, qa, hqn, hqa⟩, hqf⟩ := hP l (by omega) (by omega)
      refine ⟨⟨qn, ?_⟩, hqf⟩
      have hqf' : qn.fwd ≠ nn.fwd := by simpa [fwdOf, hqn] using hqf
      by_cases hq : qn.fwd = pn.fwd
      · exact ⟨upd pa lo (some new), hqn, by simp [s2, upd, hq]⟩
      · exact ⟨qa, hqn, by simp [s2, upd, hq, hqf', hqa]⟩
    rw [hstep, linkLevels_eq new P nn cnt (lo + 1) s2 hn2 hna2 hP2]
    congr 1
    show ({ s with fwds := fun f => (s2.fwds f).map (linkArr s2 new nn.fwd P (lo + 1) (lo + 1 + cnt) f) } : SL) = _
    congr 1
    funext f
    -- level by level both sides agree
    have hnx : ∀ l, lo + 1 ≤ l → nextL s2 l (P l) = nextL s l (P l) ∨ ¬ (l < lo + 1 + cnt) := by
      intro l hl
      by_cases hlt : l < lo + 1 + cnt
      · left
        obtain ⟨⟨qn, qa, hqn, hqa⟩, hqf⟩ := hP l (by omega) (by omega)
        have hqf' : qn.fwd ≠ nn.fwd := by simpa [fwdOf, hqn] using hqf
        rw [nextL_of hqn hqa]
        have hl' : l ≠ lo := by omega
        by_cases hq : qn.fwd = pn.fwd
        · have : s2.fwds qn.fwd = some (upd pa lo (some new)) := by simp [s2, upd, hq]
          rw [nextL_of (s := s2) hqn this]
          rw [hq] at hqa
          rw [hpa] at hqa
          cases hqa
          simp [upd, hl']
        · have : s2.fwds qn.fwd = some qa := by simp [s2, upd, hq, hqf', hqa]
          rw [nextL_of (s := s2) hqn this]
      · exact Or.inr hlt
    by_cases hfp : f = pn.fwd
    · subst hfp
      have h2 : s2.fwds pn.fwd = some (upd pa lo (some new)) := by simp [s2, upd]
      rw [h2, hpa]
      simp only [Option.map_some, Option.some.injEq]
      funext l
      simp only [linkArr, hfw2, hpfw]
      by_cases hl : l = lo
      · subst hl; simp [upd, hpf, hpfw]
      · by_cases hr : lo + 1 ≤ l ∧ l < lo + 1 + cnt
        · have hr' : lo ≤ l ∧ l < lo + (cnt + 1) := by omega
          simp only [hr, hr', and_self, if_true, hpf, if_false, upd, hl]
        · have hr' : ¬(lo ≤ l ∧ l < lo + (cnt + 1)) := by omega
          simp [hr, hr', upd, hl]
    · by_cases hfn : f = nn.fwd
      · subst hfn
        have h2 : s2.fwds nn.fwd = some (upd an lo (pa lo)) := by simp [s2, upd, hpf.symm]
        rw [h2, han]
        simp only [Option.map_some, Option.some.injEq]
        funext l
        simp only [linkArr, if_true]
        by_cases hl : l = lo
        · subst hl
          simp [upd, nextL_of hpn hpa]
          intro h; omega
        · by_cases hr : lo + 1 ≤ l ∧ l < lo + 1 + cnt
          · have hr' : lo ≤ l ∧ l < lo + (cnt + 1) := by omega
            simp only [hr, hr', and_self, if_true]
            rcases hnx l hr.1 with h | h
            · exact h
            · exact absurd hr.2 h
          · have hr' : ¬(lo ≤ l ∧ l < lo + (cnt + 1)) := by omega
            simp [hr, hr', upd, hl]
      · have h2 : s2.fwds f = s.fwds f := by simp [s2, upd, hfp, hfn]
        rw [h2]
        cases hf : s.fwds f with
        | none => rfl
        | some a =>
          simp only [Option.map_some, Option.some.injEq]
          funext l
          simp only [linkArr, hfw2, hfn, if_false]
          by_cases hl : l = lo
          · subst hl
            simp [hpfw, hfp]
          · by_cases hr : lo + 1 ≤ l ∧ l < lo + 1 + cnt
            · have hr' : lo ≤ l ∧ l < lo + (cnt + 1) := by omega
              simp only [hr, hr', and_self, if_true]
            · have hr' : ¬(lo ≤ l ∧ l < lo + (cnt + 1)) := by omega
              simp [hr, hr']

/-! ### one level of the chain structure under insertion -/

/-- the level chain after linking `new` in behind the walk's end -/
def insL (s : SL) (k : Key) (new : NodeId) : List NodeId → List NodeId
  | i :: L => if keyLt s k i then i :: insL s k new L else new :: i :: L
  | [] => [new]

theorem lchain_insert {s s' : SL} {l : Nat} {k : Key} {new : NodeId} : ∀ {L : List NodeId} {x : NodeId},
    LChain s l x L → nextL s' l new = nextL s l (walkL s k x L) → nextL s' l (walkL s k x L) = some new →
    (∀ j ∈ x :: L, j ≠ walkL s k x L → nextL s' l j = nextL s l j) → (x :: L).Nodup →
    LChain s' l x (insL s k new L)
  | [], x, h, h1, h2, _, _ => by
    have h0 : nextL s l x = none := h
    simp only [walkL] at h1 h2
    exact ⟨h2, by show nextL s' l new = none; rw [h1, h0]⟩
  | i :: L, x, h, h1, h2, h3, hnd => by
    have hxi : x ∉ i :: L := (List.nodup_cons.1 hnd).1
    simp only [walkL, insL] at h1 h2 h3 ⊢
    by_cases hlt : keyLt s k i = true
    · simp only [hlt, if_true] at h1 h2 h3 ⊢
      have hp := walkL_mem s k i L
      refine ⟨by rw [h3 x (by simp) (fun he => hxi (he ▸ hp)), h.1], ?_⟩
      exact lchain_insert h.2 h1 h2 (fun j hj => h3 j (List.mem_cons_of_mem _ hj)) (List.nodup_cons.1 hnd).2
    · have hlt' : keyLt s k i = false := by simpa using hlt
      simp only [hlt', Bool.false_eq_true, if_false] at h1 h2 h3 ⊢
      refine ⟨h2, by rw [h1, h.1], ?_⟩
      -- the rest of the chain is untouched
      have : ∀ {M : List NodeId} {y : NodeId}, LChain s l y M → (∀ j ∈ y :: M, j ∈ i :: L) → LChain s' l y M := by
        intro M
        induction M with
        | nil =>
          intro y hc hm
          have h0 : nextL s l y = none := hc
          show nextL s' l y = none
          rw [h3 y (List.mem_cons_of_mem _ (hm y (by simp))) (fun he => hxi (he ▸ hm y (by simp))), h0]
        | cons z M ih =>
          intro y hc hm
          refine ⟨by rw [h3 y (List.mem_cons_of_mem _ (hm y (by simp))) (fun he => hxi (he ▸ hm y (by simp))), hc.1], ?_⟩
          exact ih hc.2 (fun j hj => hm j (List.mem_cons_of_mem _ hj))
      exact this h.2 (fun j hj => hj)

theorem sublist_insL (s : SL) (k : Key) (new : NodeId) : ∀ (B : List NodeId), B.Sublist (insL s k new B)
  | [] => by simp [insL]
  | b :: B => by
    simp only [insL]
    split
    · exact (sublist_insL s k new B).cons_cons b
    · exact List.sublist_cons_self _ _

theorem insL_of_not_lt {s : SL} {k : Key} {new : NodeId} : ∀ {A : List NodeId}, (∀ a ∈ A, keyLt s k a = false) →
    insL s k new A = new :: A
  | [], _ => rfl
  | a :: A, h => by simp [insL, h a (by simp)]

theorem insL_sublist {s : SL} {k : Key} {new : NodeId} : ∀ {A B : List NodeId}, A.Sublist B →
    B.Pairwise (fun a b => keyLt s k b = true → keyLt s k a = true) → (insL s k new A).Sublist (insL s k new B)
  | _, _, .slnil, _ => List.Sublist.refl _
  | A, b :: B, .cons _ hab, hm => by
    simp only [insL]
    by_cases hb : keyLt s k b = true
    · simp only [hb, if_true]
      exact (insL_sublist hab (List.pairwise_cons.1 hm).2).cons _
    · simp only [hb, if_false]
      have hB : ∀ z ∈ B, keyLt s k z = false := by
        intro z hz
        cases hzk : keyLt s k z with
        | false => rfl
        | true => exact absurd ((List.pairwise_cons.1 hm).1 z hz hzk) hb
      rw [insL_of_not_lt (fun a ha => hB a (hab.subset ha))]
      exact (hab.cons _).cons_cons _
  | a :: A, _ :: B, .cons₂ _ hab, hm => by
    simp only [insL]
    by_cases ha : keyLt s k a = true
    · simp only [ha, if_true]
      exact (insL_sublist hab (List.pairwise_cons.1 hm).2).cons_cons _
    · simp only [ha, if_false]
      exact (hab.cons_cons _).cons_cons _

theorem mem_insL {s : SL} {k : Key} {new : NodeId} : ∀ {A : List NodeId} {j}, j ∈ insL s k new A ↔ j = new ∨ j ∈ A
  | [], j => by simp [insL]
  | a :: A, j => by
    simp only [insL]
    split
    · simp only [List.mem_cons, mem_insL (A := A)]
      constructor
      · rintro (h | h | h) <;> simp [h]
      · rintro (h | h | h) <;> simp [h]
    · simp

end QbVerif.Skiplist
