/-
Round trip, encoder half (C14): for every well-typed item list (literal runs, `%%`, conversions
from the grammar of Model/SerSpec.lean with their typed arguments) whose record fits `max_len`,
`qb_vsnprintf_serialize` returns the record length and the record is exactly
`fmt ++ [0] ++ encOf items` (`recordOf`): the arguments are stored in order, each at the offset
`(fmt ++ [0] ++ encOf (items before it)).length`.

Built on the per-character big-step lemmas of Lemmas/SerBig.lean.
-/
import QbVerif.Lemmas.SerBig

namespace QbVerif.Ser
open QbVerif.Gen

/-- `sformat_length` / `sformat_precision` when the conversion character is reached -/
def slOf : Prec → Nat
  | .lit ds => numVal ds
  | _ => 0

theorem SerGoal.pre {maxLen : Nat} {s s' : SerSt} {out P X enc : Bytes} {rest : List Arg} {tail : Bytes}
    (e : serRun R maxLen s (P ++ (X ++ tail)) = serRun R maxLen s' (X ++ tail))
    (g : SerGoal maxLen s' out X enc rest tail) : SerGoal maxLen s out (P ++ X) enc rest tail := by
  unfold SerGoal at *
  rw [List.append_assoc, e]; exact g

theorem SerGoal.cons {maxLen : Nat} {s : SerSt} {out X enc : Bytes} {rest : List Arg} {tail : Bytes} (c : UInt8)
    (g : SerGoal maxLen (serStep R maxLen s c (X ++ tail).head?) out X enc rest tail) :
    SerGoal maxLen s out (c :: X) enc rest tail := g

theorem take_min_len (n : Nat) (a : Bytes) : a.take (min n a.length) = a.take n := by
  by_cases h : n ≤ a.length
  · rw [Nat.min_eq_left h]
  · rw [Nat.min_eq_right (by omega), List.take_length, List.take_of_length_le (by omega)]

/-- what the three `my_strlcpy` calls keep of a `%s` argument is `storedStr` -/
theorem strKeep_stored (d : Dir) (v : Arg) :
    (strSrc v.asStr).take (strKeep (slOf d.prec) v.asStr) = storedStr d v := by
  unfold storedStr
  cases v.asStr with
  | none => rfl
  | some a =>
    simp only [strSrc, strKeep, strN]
    cases hp : d.prec with
    | none => simp [slOf]
    | star => simp [slOf]
    | lit ds =>
      simp only [slOf]
      by_cases h0 : numVal ds = 0
      · simp [h0]
      · simp only [ne_eq, h0, not_false_eq_true, if_true, Nat.add_sub_cancel]
        exact take_min_len _ _

theorem argOk_cls (d : Dir) (v : Arg) (h : argOk d v = true) :
    classify d.conv = .intc ∨ classify d.conv = .dblc ∨ classify d.conv = .chrc ∨ classify d.conv = .strc ∨
    classify d.conv = .ptrc := by
  unfold argOk at h
  split at h <;> simp_all

/-- the conversion character: the argument is stored in the size the length modifier selected -/
theorem serGoal_conv (maxLen : Nat) (s : SerSt) (out : Bytes) (d : Dir) (v : Arg) (rest : List Arg) (sp : Bool)
    (tail : Bytes) (h : SerDir s out (v :: rest) (slOf d.prec) sp (modTl d.mod) (modTll d.mod))
    (hok : argOk d v = true) : SerGoal maxLen s out [d.conv] (encArg d v) rest tail := by
  unfold encArg
  rcases argOk_cls d v hok with hcls | hcls | hcls | hcls | hcls <;> simp only [hcls]
  · -- integer conversions
    cases hm : d.mod <;> simp only [hm, modTl, modTll] at h
    all_goals
      refine serGoal_fixed maxLen s out v rest _ sp _ _ d.conv _ tail h (fun pk => ?_)
      simp [serStep, h.ret, h.skip, h.dir, hcls, h.tl, h.tll, SIZEOF_LONG, SIZEOF_LLONG]
  · refine serGoal_fixed maxLen s out v rest _ sp _ _ d.conv _ tail h (fun pk => ?_)
    simp [serStep, h.ret, h.skip, h.dir, hcls]
  · refine serGoal_fixed maxLen s out v rest _ sp _ _ d.conv _ tail h (fun pk => ?_)
    simp [serStep, h.ret, h.skip, h.dir, hcls]
  · rw [← strKeep_stored]
    exact serGoal_str maxLen s out v rest _ sp _ _ d.conv tail h hcls
  · refine serGoal_fixed maxLen s out v rest _ sp _ _ d.conv _ tail h (fun pk => ?_)
    simp [serStep, h.ret, h.skip, h.dir, hcls]

theorem conv_ne_l (d : Dir) (v : Arg) (hok : argOk d v = true) : d.conv ≠ 0x6c := by
  intro h
  have hc : classify d.conv = .modL := by rw [h]; decide
  rcases argOk_cls d v hok with h' | h' | h' | h' | h' <;> rw [hc] at h' <;> cases h'

/-- length modifier and conversion character -/
theorem serGoal_modconv (maxLen : Nat) (s : SerSt) (out : Bytes) (d : Dir) (v : Arg) (rest : List Arg) (sp : Bool)
    (tail : Bytes) (h : SerDir s out (v :: rest) (slOf d.prec) sp false false) (hok : argOk d v = true) :
    SerGoal maxLen s out (modChars d.mod ++ [d.conv]) (encArg d v) rest tail := by
  obtain ⟨s', e, hs'⟩ := serRun_mod maxLen d.mod d.conv tail s out (v :: rest) _ sp h (conv_ne_l d v hok)
  exact SerGoal.pre (by simpa using e) (serGoal_conv maxLen s' out d v rest sp tail hs' hok)

/-- data-area bytes of the `.*` precision value -/
def pEnc (d : Dir) (p : Int) : Bytes := if d.prec = .star then le SIZEOF_INT (Arg.star p).slot else []
def pArg (d : Dir) (p : Int) : List Arg := if d.prec = .star then [Arg.star p] else []

/-- precision, length modifier, conversion character -/
theorem serGoal_prec (maxLen : Nat) (s : SerSt) (out : Bytes) (d : Dir) (p : Int) (v : Arg) (rest : List Arg)
    (tail : Bytes) (h : SerDir s out (pArg d p ++ (v :: rest)) 0 false false false) (hok : argOk d v = true)
    (hds : ∀ ds, d.prec = .lit ds → ∀ c ∈ ds, classify c = .digit) :
    SerGoal maxLen s out (precChars d.prec ++ (modChars d.mod ++ [d.conv])) (pEnc d p ++ encArg d v) rest tail := by
  unfold pEnc
  unfold pArg at h
  cases hp : d.prec with
  | none =>
    simp only [hp, precChars, List.nil_append, reduceCtorEq, if_false] at h ⊢
    exact serGoal_modconv maxLen s out d v rest false tail (by simpa [hp, slOf] using h) hok
  | lit ds =>
    simp only [hp, precChars, List.nil_append, reduceCtorEq, if_false, List.cons_append] at h ⊢
    apply SerGoal.cons
    have h1 := serStep_dot maxLen s out (v :: rest) 0 false false false
      ((ds ++ (modChars d.mod ++ [d.conv])) ++ tail).head? h
    obtain ⟨s', e, hs'⟩ := serRun_digits maxLen ds ((modChars d.mod ++ [d.conv]) ++ tail) _ out (v :: rest) 0
      false false h1 (hds ds hp)
    refine SerGoal.pre e ?_
    exact serGoal_modconv maxLen s' out d v rest true tail (by simpa [hp, slOf, numVal] using hs') hok
  | star =>
    simp only [hp, precChars, if_true, List.cons_append, List.nil_append] at h ⊢
    apply SerGoal.cons
    have h1 := serStep_dot maxLen s out (Arg.star p :: v :: rest) 0 false false false
      ((0x2a :: (modChars d.mod ++ [d.conv])) ++ tail).head? h
    refine serGoal_star maxLen _ out (Arg.star p) (v :: rest) 0 true false false _ _ rest tail h1 (fun s1 hs1 => ?_)
    exact serGoal_modconv maxLen s1 _ d v rest true tail (by simpa [hp, slOf] using hs1) hok

/-- one whole conversion, from the '%' on -/
theorem serGoal_dir (maxLen : Nat) (s : SerSt) (out : Bytes) (d : Dir) (w p : Int) (v : Arg) (rest : List Arg)
    (tail : Bytes) (h : SerSync s out ((Item.dir d w p v).args ++ rest)) (hwf : (Item.dir d w p v).wf = true) :
    SerGoal maxLen s out d.chars (Item.dir d w p v).enc rest tail := by
  simp only [Item.wf, Bool.and_eq_true, List.all_eq_true] at hwf
  obtain ⟨⟨⟨⟨hpre, hprec⟩, hok⟩, _⟩, _⟩ := hwf
  have hds : ∀ ds, d.prec = .lit ds → ∀ c ∈ ds, classify c = .digit := by
    intro ds hp c hc
    rw [hp] at hprec
    simp only [List.all_eq_true, beq_iff_eq] at hprec
    exact hprec c hc
  unfold Dir.chars Item.enc
  simp only [Item.args, List.append_assoc] at h
  apply SerGoal.cons
  have h1 := serStep_enter maxLen s out _ ((d.pre ++ ((if d.wstar then [0x2a] else []) ++
      (precChars d.prec ++ (modChars d.mod ++ [d.conv])))) ++ tail).head? h
  refine SerGoal.pre (serRun_pre maxLen _ out _ 0 false false d.pre _ h1 hpre) ?_
  cases hw : d.wstar with
  | false =>
    simp only [hw, Bool.false_eq_true, if_false, List.nil_append] at h1 ⊢
    exact serGoal_prec maxLen _ out d p v rest tail (by simpa [pArg] using h1) hok hds
  | true =>
    simp only [hw, if_true, List.cons_append, List.nil_append] at h1 ⊢
    refine serGoal_star maxLen _ out (Arg.star w) _ 0 false false false _ _ rest tail h1 (fun s1 hs1 => ?_)
    exact serGoal_prec maxLen s1 _ d p v rest tail (by simpa [pArg] using hs1) hok hds

/-- one item -/
theorem serGoal_item (maxLen : Nat) (s : SerSt) (out : Bytes) (i : Item) (rest : List Arg) (tail : Bytes)
    (h : SerSync s out (i.args ++ rest)) (hwf : i.wf = true) :
    SerGoal maxLen s out i.chars i.enc rest tail := by
  cases i with
  | lit bs =>
    simp only [Item.wf, List.all_eq_true, Bool.and_eq_true, bne_iff_ne, ne_eq] at hwf
    have e := serRun_lit maxLen s out rest bs tail (by simpa [Item.args] using h) (fun c hc => (hwf c hc).2)
    constructor
    · intro _
      exact ⟨s, e, by simpa [Item.args, Item.enc] using h⟩
    · intro hf
      simp only [Item.enc, List.length_nil, Nat.add_zero] at hf
      exact serRun_over _ _ _ _ (Or.inr ⟨h.ret, by rw [h.loc]; omega⟩)
  | pct =>
    obtain ⟨s', e, hs'⟩ := serRun_pct maxLen s out rest tail (by simpa [Item.args] using h)
    constructor
    · intro _
      exact ⟨s', e, by simpa [Item.enc] using hs'⟩
    · intro hf
      simp only [Item.enc, List.length_nil, Nat.add_zero] at hf
      exact serRun_over _ _ _ _ (Or.inr ⟨h.ret, by rw [h.loc]; omega⟩)
  | dir d w p v => exact serGoal_dir maxLen s out d w p v rest tail h hwf

/-- **the encoder on a whole format**: every argument is appended in order while the record fits -/
theorem serRun_items (maxLen : Nat) (items : List Item) : ∀ (s : SerSt) (out : Bytes) (rest : List Arg) (tail : Bytes),
    SerSync s out (argsOf items ++ rest) → WellTyped items → out.length + (encOf items).length ≤ maxLen →
    ∃ s', serRun R maxLen s (fmtOf items ++ tail) = serRun R maxLen s' tail ∧ SerSync s' (out ++ encOf items) rest := by
  induction items with
  | nil => intro s out rest tail h _ _; exact ⟨s, rfl, by simpa [encOf, argsOf] using h⟩
  | cons i items ih =>
    intro s out rest tail h hwf hfit
    have hwi : i.wf = true := hwf i (by simp)
    have hwr : WellTyped items := fun j hj => hwf j (by simp [hj])
    simp only [argsOf, encOf, fmtOf, List.flatMap_cons, List.append_assoc, List.length_append] at h hfit ⊢
    obtain ⟨s1, e1, h1⟩ := (serGoal_item maxLen s out i (List.flatMap Item.args items ++ rest)
      (List.flatMap Item.chars items ++ tail) h hwi).1 (by omega)
    obtain ⟨s2, e2, h2⟩ := ih s1 (out ++ i.enc) rest tail h1 hwr (by simp only [List.length_append, encOf]; omega)
    exact ⟨s2, by rw [e1]; exact e2, by simpa [encOf, List.append_assoc] using h2⟩

end QbVerif.Ser
