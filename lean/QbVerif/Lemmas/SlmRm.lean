/-
Skiplist: `skiplist_rm` — absent key; present key behind an entry node
(plain removal: the node is destroyed with its forward array); present key behind the header
(takeover-and-repoint: the header's array is freed, the header continues with the removed node's).
-/
import QbVerif.Lemmas.SlmErase

namespace QbVerif.Skiplist
open QbVerif.Map
set_option linter.unusedSimpArgs false

theorem nodeNext_none {s : SL} {p : NodeId} (hx : XOk s p) (hn : next0 s p = none) (fuel : Nat) :
    s.nodeNext (fuel + 12) p = .ok none := by
  show s.nodeNext (fuel + 11 + 1) p = _
  simp [SL.nodeNext, fwdAt0_of_next0 hx, hn, bind, Except.bind]

theorem nodeNext_some {s : SL} {p i : NodeId} {e : Entry} (hx : XOk s p) (hn : next0 s p = some i) (hi : NodeOk s i e)
    (fuel : Nat) : s.nodeNext (fuel + 12) p = .ok (some i) := by
  obtain ⟨_, rc, f, a, hrc, _, _, h1, _⟩ := hi
  have hrc0 : rc ≠ 0 := by omega
  show s.nodeNext (fuel + 11 + 1) p = _
  simp [SL.nodeNext, fwdAt0_of_next0 hx, hn, bind, Except.bind, SL.node, h1, hrc0]

/-- the node the walk stops at is the node of the entry it stops at -/
theorem succ_nodeOk {s : SL} {k : Key} {i : NodeId} {e : Entry} : ∀ {x ids es}, Chain s x ids es →
    succOf k ids es = some (i, e) → NodeOk s i e
  | _, [], [], _, h => by simp [succOf] at h
  | _, i1 :: ids, e1 :: es, hc, h => by
    simp only [succOf] at h
    split at h
    · exact succ_nodeOk hc.2.2 h
    · cases h; exact hc.2.1
  | _, [], _ :: _, hc, _ => by cases hc
  | _, _ :: _, [], hc, _ => by cases hc

/-- the search loop of `skiplist_rm` ends on the level-0 predecessor with `update` filled on every level -/
theorem search_rm {s ids es g} (h : Inv s ids es g) {ch} (hL : Levels s ids ch) (htop : ∀ l, s.lv ≤ l → ch l = []) (k : Key) :
    ∃ u', s.search k false (s.length + 12) s.header s.lv (fun _ => s.header) = .ok (.inr (predOf k s.header ids es, u')) ∧
      ∀ l, u' l = walkL s k s.header (ch l) := by
  rcases search_top h hL htop k false with ⟨hc, _⟩ | ⟨u', hs, hu, _⟩
  · cases hc
  · exact ⟨u', hs, hu⟩

theorem rm_miss {s ids es g} (h : Inv s ids es g) (k : Key) (hf : findEntry es k = none) :
    s.rm k = .ok (s, [], false) := by
  obtain ⟨ch, hL, htop, _⟩ := h.hl
  obtain ⟨u', hs, _⟩ := search_rm h hL htop k
  have hpm := predOf_mem k s.header ids es
  have hx := h.xok_of_mem hpm
  have hnx := next0_pred k h.chain
  have hw := findEntry_walk k h.chain.length_eq h.sorted
  rw [hf] at hw
  cases hso : succOf k ids es with
  | none =>
    rw [hso] at hnx
    simp [SL.rm, hs, bind, Except.bind, SL.fuel, nodeNext_none hx hnx s.length]
  | some ie =>
    obtain ⟨i, e⟩ := ie
    rw [hso] at hnx
    have hok := succ_nodeOk h.chain hso
    simp only [hso] at hw
    have hne : e.key ≠ k := by intro he; simp [he] at hw
    obtain ⟨_, rc, f, a, _, _, _, h1, _⟩ := hok
    simp [SL.rm, hs, bind, Except.bind, SL.fuel, nodeNext_some hx hnx (succ_nodeOk h.chain hso) s.length,
      SL.node, h1, hne]

theorem predOf_ne_succ {k : Key} {found : NodeId} {e : Entry} : ∀ {x : NodeId} {ids : List NodeId} {es : List Entry},
    (x :: ids).Nodup → succOf k ids es = some (found, e) → predOf k x ids es ≠ found
  | _, [], _, _, h => by simp [succOf] at h
  | _, _ :: _, [], _, h => by simp [succOf] at h
  | x, i :: ids, e0 :: es, hnd, h => by
    simp only [succOf, predOf] at h ⊢
    split at h
    · next hlt => simp only [hlt, if_true]; exact predOf_ne_succ (List.nodup_cons.1 hnd).2 h
    · next hlt =>
      cases h
      simp only [hlt, if_false]
      intro he
      exact (List.nodup_cons.1 hnd).1 (he ▸ List.mem_cons_self)


end QbVerif.Skiplist
