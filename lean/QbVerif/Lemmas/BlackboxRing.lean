/-
C11, blackbox layer on the ring: stores into the reserved area of a pending allocation keep the
ring invariant (frame), and one call of `_blackbox_vlogger` is `alloc (reservation)` followed by
`commit (record)` of the two-phase ring (`Ring.RbP`), hence of the reserve/commit FIFO
(`RingSpec.FifoP`).
-/
import QbVerif.Model.Blackbox
import QbVerif.Lemmas.RingAlloc

namespace QbVerif.BlackboxLemmas
open QbVerif.Ring QbVerif.RingSpec QbVerif.RingLemmas QbVerif.Blackbox

/-- **Frame.**  Copying `g` into the data area of the chunk being built (room for `g.length`
    bytes was found by the allocation) changes neither the stored chunks nor the magic word the
    reader of the emptied ring will inspect. -/
theorem fill_inv {r : Rb} {q : List (List Nat)} {TR : Nat} (g : List Nat) (h : Inv r q TR)
    (hroom : Room r.W (total q) (cw g.length)) : Inv (r.fill g) q TR := by
  have hW := h.wpos
  have hlo := cw_lo g.length
  rw [fill_eq (TW := TR + total q) g hW h.hwp]
  refine ⟨by simp only [size_copyIn]; exact h.size, h.wge, h.wlt, h.hrp, h.hwp, h.used, ?_, ?_⟩
  · apply Stored_frame hW _ h.stored
    intro a ha hb
    simp only
    apply cell_copyIn_out
    unfold Room at hroom
    left
    omega
  · simp only
    have : word (copyIn r.mem r.W (4 * (TR + total q + 2)) 0 g) r.W (TR + total q + 1)
        = word r.mem r.W (TR + total q + 1) := by
      apply word_congr hW
      intro a ha hb
      apply cell_copyIn_out
      unfold Room at hroom
      left
      omega
    rw [this]
    exact h.next

theorem fill_W (r : Rb) (g : List Nat) : (r.fill g).W = r.W := rfl
theorem fill_sem (r : Rb) (g : List Nat) : (r.fill g).sem = r.sem := rfl
theorem fill_ow (r : Rb) (g : List Nat) : (r.fill g).ow = r.ow := rfl

/-- the frame lemma for the two-phase writer -/
theorem fill_pinv {r : Rb} {n : Nat} {q : List (List Nat)} {TR : Nat} (g : List Nat)
    (h : PInv ⟨r, some n⟩ q TR) (hg : g.length ≤ n) : PInv ⟨r.fill g, some n⟩ q TR := by
  have hroom := h.room n rfl
  refine ⟨fill_inv g h.inv (hroom.mono (Nat.le_refl _) (cw_mono hg)), ?_⟩
  intro n' hn'
  simp only [Option.some.injEq] at hn'
  subst hn'
  exact hroom

theorem absP_fill (r : Rb) (g : List Nat) (p : Option Nat) (q : List (List Nat)) :
    absP ⟨r.fill g, p⟩ q = absP ⟨r, p⟩ q := rfl

/-- **One log call = `alloc (reservation)` + `commit (actual)`.**  For a blackbox whose ring `rb`
    satisfies the ring invariant with contents `q`, and a call whose record is not longer than its
    reservation: the reserve/commit FIFO executes `alloc (maxSize (msgLimit e t) c)`; if that finds no room
    the blackbox gives its ring up; otherwise the FIFO executes `commit (record)` and the
    blackbox's new ring satisfies the invariant with the FIFO's new contents: what the
    allocation left of `q`, followed by the record. -/
theorem vlogger_alloc_commit (e : Env) (t : Target) (c : Call) (rb : Rb) (q : List (List Nat)) (TR : Nat)
    (hinst : t.inst = some rb) (hinv : Inv rb q TR) (how : rb.ow = true)
    (hlen : (record e (msgLimit e t) c).length = actualBase c + (serMessage e (msgLimit e t) c).len)
    (hscr : (recHead c ++ Dump.toLe32 (serMessage e (msgLimit e t) c).len ++ (serMessage e (msgLimit e t) c).scratch).length
      ≤ maxSize (msgLimit e t) c)
    (hfit : (record e (msgLimit e t) c).length ≤ maxSize (msgLimit e t) c) :
    ∃ s1 o, FifoP.step true ⟨absF rb q, none⟩ (.alloc (maxSize (msgLimit e t) c)) = some (s1, o) ∧
      (s1.pend = none → (vlogger e t c).inst = none) ∧
      (s1.pend = some (maxSize (msgLimit e t) c) → ∃ rb' TR', (vlogger e t c).inst = some rb' ∧
        Inv rb' (s1.f.q ++ [record e (msgLimit e t) c]) TR' ∧ rb'.ow = true ∧
        FifoP.step true s1 (.commit (record e (msgLimit e t) c))
          = some (⟨absF rb' (s1.f.q ++ [record e (msgLimit e t) c]), none⟩, .num 0)) ∧
      (s1.pend = none ∨ s1.pend = some (maxSize (msgLimit e t) c)) := by
  have hP : PInv ⟨rb, none⟩ q TR := ⟨hinv, by intro n hn; simp at hn⟩
  have h1 := pstep_sim hP (.alloc (maxSize (msgLimit e t) c))
  unfold PStepOk at h1
  have hstep : RbP.step ⟨rb, none⟩ (.alloc (maxSize (msgLimit e t) c)) =
      match rb.alloc (maxSize (msgLimit e t) c) with
      | (r', some er) => some (⟨r', none⟩, .err er)
      | (r1, none) => some (⟨r1, some (maxSize (msgLimit e t) c)⟩, .unit) := rfl
  rw [hstep] at h1
  cases ha : rb.alloc (maxSize (msgLimit e t) c) with
  | mk r1 oe =>
    cases oe with
    | some er =>
      rw [ha] at h1
      obtain ⟨q', TR', _, _, hf⟩ := h1
      simp only [how] at hf
      refine ⟨_, _, hf, ?_, ?_, Or.inl rfl⟩
      · intro _
        simp [vlogger, hinst, ha]
      · intro hp; simp [absP] at hp
    | none =>
      rw [ha] at h1
      obtain ⟨q', TR', hP1, how1, hf⟩ := h1
      simp only [how] at hf how1
      refine ⟨_, _, hf, ?_, ?_, Or.inr rfl⟩
      · intro hp; simp [absP] at hp
      · intro _
        -- the stores
        have hPA := fill_pinv (recHead c ++ Dump.toLe32 (serMessage e (msgLimit e t) c).len ++
          (serMessage e (msgLimit e t) c).scratch) hP1 hscr
        -- the commit
        have h2 := pstep_sim hPA (.commit (record e (msgLimit e t) c))
        unfold PStepOk at h2
        have hstep2 : RbP.step ⟨r1.fill (recHead c ++ Dump.toLe32 (serMessage e (msgLimit e t) c).len ++
              (serMessage e (msgLimit e t) c).scratch), some (maxSize (msgLimit e t) c)⟩ (.commit (record e (msgLimit e t) c))
            = some (⟨((r1.fill (recHead c ++ Dump.toLe32 (serMessage e (msgLimit e t) c).len ++
                (serMessage e (msgLimit e t) c).scratch)).fill (record e (msgLimit e t) c)).commit
                  (record e (msgLimit e t) c).length, none⟩, .num 0) := by
          simp [RbP.step, hfit]
        rw [hstep2] at h2
        obtain ⟨q2, TR2, hP2, how2, hf2⟩ := h2
        simp only [fill_ow, how1] at hf2 how2
        rw [absP_fill] at hf2
        -- the FIFO's commit appends the record
        have hq2 : q2 = q' ++ [record e (msgLimit e t) c] := by
          have := hf2
          simp only [FifoP.step, absP, hfit, if_true, Option.some.injEq, Prod.mk.injEq, FifoP.mk.injEq, and_true] at this
          have hq := congrArg Fifo.q this
          simpa [absF, Fifo.post] using hq.symm
        subst hq2
        refine ⟨_, TR2, ?_, hP2.inv, how2, ?_⟩
        · simp only [vlogger, hinst, ha]
          rw [hlen]
        · exact hf2

end QbVerif.BlackboxLemmas
