/-
Round trip of a dump (property C15): `qb_rb_create_from_file` applied to `dump r` gives the ring
`r` back, and the record loop over a ring that satisfies the C07/C11 representation invariant
`Inv r q TR` visits exactly the chunks `q` of the abstract FIFO, oldest first (`printChunks`).
-/
import QbVerif.Lemmas.DumpRing
import QbVerif.Lemmas.RingOps

namespace QbVerif.DumpLemmas
open QbVerif.Ring QbVerif.RingSpec QbVerif.Dump QbVerif.Gen QbVerif.RingLemmas

/-! ### slices of concatenations -/

theorem slice_skip (a l : List Nat) (i n : Nat) : slice (a ++ l) (a.length + i) n = slice l i n := by
  unfold slice
  rw [List.drop_append, List.drop_eq_nil_of_le (by omega)]
  simp

theorem slice_take (a l : List Nat) : slice (a ++ l) 0 a.length = a := by
  unfold slice
  simp

theorem slice_all (l : List Nat) : slice l 0 l.length = l := by
  unfold slice; simp

theorem toLe32_length (v : Nat) : (toLe32 v).length = 4 := rfl

theorem le32_toLe32 (v : Nat) (h : v < 4294967296) : le32 (toLe32 v) = v := by
  unfold le32 toLe32
  simp only [List.getD_cons_zero, List.getD_cons_succ]
  omega

theorem dump_fields (pre w1 w2 w3 w4 w5 data : List Nat) (h1 : w1.length = 4) (h2 : w2.length = 4)
    (h3 : w3.length = 4) (h4 : w4.length = 4) (h5 : w5.length = 4) :
    slice (pre ++ (w1 ++ (w2 ++ (w3 ++ (w4 ++ (w5 ++ data)))))) pre.length 4 = w1 ∧
    slice (pre ++ (w1 ++ (w2 ++ (w3 ++ (w4 ++ (w5 ++ data)))))) (pre.length + 4) 4 = w2 ∧
    slice (pre ++ (w1 ++ (w2 ++ (w3 ++ (w4 ++ (w5 ++ data)))))) (pre.length + 8) 4 = w3 ∧
    slice (pre ++ (w1 ++ (w2 ++ (w3 ++ (w4 ++ (w5 ++ data)))))) (pre.length + 12) 4 = w4 ∧
    slice (pre ++ (w1 ++ (w2 ++ (w3 ++ (w4 ++ (w5 ++ data)))))) (pre.length + 16) 4 = w5 ∧
    slice (pre ++ (w1 ++ (w2 ++ (w3 ++ (w4 ++ (w5 ++ data)))))) (pre.length + 20) data.length = data := by
  have e0 : pre.length = pre.length + 0 := rfl
  have e1 : pre.length + 4 = pre.length + (w1.length + 0) := by omega
  have e2 : pre.length + 8 = pre.length + (w1.length + (w2.length + 0)) := by omega
  have e3 : pre.length + 12 = pre.length + (w1.length + (w2.length + (w3.length + 0))) := by omega
  have e4 : pre.length + 16 = pre.length + (w1.length + (w2.length + (w3.length + (w4.length + 0)))) := by omega
  have e5 : pre.length + 20 = pre.length + (w1.length + (w2.length + (w3.length + (w4.length + (w5.length + 0))))) := by omega
  refine ⟨?_, ?_, ?_, ?_, ?_, ?_⟩
  · rw [e0, slice_skip, ← h1, slice_take]
  · rw [e1, slice_skip, slice_skip, ← h2, slice_take]
  · rw [e2, slice_skip, slice_skip, slice_skip, ← h3, slice_take]
  · rw [e3, slice_skip, slice_skip, slice_skip, slice_skip, ← h4, slice_take]
  · rw [e4, slice_skip, slice_skip, slice_skip, slice_skip, slice_skip, ← h5, slice_take]
  · rw [e5, slice_skip, slice_skip, slice_skip, slice_skip, slice_skip, slice_skip, slice_all]

/-! ### `qb_rb_create_from_file (dump r)` -/

theorem roundUp_of_dvd {x page : Nat} (hp : 0 < page) (h : x % page = 0) : roundUp x page = x := by
  unfold roundUp
  obtain ⟨k, rfl⟩ := Nat.dvd_of_mod_eq_zero h
  have : (page * k + page - 1) / page = k := by
    rw [show page * k + page - 1 = page * k + (page - 1) by omega, Nat.mul_add_div hp,
      Nat.div_eq_of_lt (by omega)]
    rfl
  rw [this, Nat.mul_comm]

/-- a file whose header fields and data are as `qb_rb_write_to_file` writes them -/
theorem createFromFile_of_fields {page pos W wp rp : Nat} {f data : List Nat}
    (h1 : slice f pos 4 = toLe32 W) (h2 : slice f (pos + 4) 4 = toLe32 wp) (h3 : slice f (pos + 8) 4 = toLe32 rp)
    (h4 : slice f (pos + 12) 4 = toLe32 RB_FILE_HEADER_VERSION)
    (h5 : slice f (pos + 16) 4 = toLe32 ((W + wp + rp + RB_FILE_HEADER_VERSION) % 4294967296))
    (h6 : slice f (pos + 20) (4 * W) = data) (hd : data.length = 4 * W) (hlen : f.length = pos + 20 + 4 * W)
    (hW : W < 4294967296) (hW0 : 0 < W) (hwp : wp < W) (hrp : rp < W) (hp : 0 < page) (hpg : (4 * W) % page = 0) :
    createFromFile (Cfg.repaired page) f pos = .ok (some (mkRing W rp wp data)) := by
  unfold createFromFile
  dsimp only [Cfg.repaired]
  simp only [h1, h2, h3, h4, h5, h6, toLe32_length, le32_toLe32 W hW, le32_toLe32 wp (by omega),
    le32_toLe32 rp (by omega), le32_toLe32 RB_FILE_HEADER_VERSION (by decide),
    le32_toLe32 ((W + wp + rp + RB_FILE_HEADER_VERSION) % 4294967296) (Nat.mod_lt _ (by decide)),
    roundUp_of_dvd hp hpg, hd, hlen, ne_eq, not_true_eq_false, if_false, if_true, Bool.or_eq_true, decide_eq_true_eq]
  rw [if_neg (by omega), if_neg (by omega), if_neg (by omega)]
  have : 4 * W / 4 = W := by omega
  rw [this]

theorem mkRing_toList (r : Rb) (hs : r.mem.size = 4 * r.W) :
    mkRing r.W r.rp r.wp r.mem.toList = { r with ow := false, sem := none } := by
  unfold mkRing
  have : ((List.replicate (4 * r.W) 0).set 0 5).drop r.mem.toList.length = [] := by
    apply List.drop_eq_nil_of_le
    simp [hs]
  rw [this, List.append_nil]

theorem marker_length : marker.length = 20 := rfl

/-- `qb_rb_create_from_file` gives back the ring that was dumped (as a ring without semaphore) -/
theorem createFromFile_dump {page : Nat} {r : Rb} {q : List (List Nat)} {TR : Nat} (h : Inv r q TR)
    (hp : 0 < page) (hpg : (4 * r.W) % page = 0) (newfmt : Bool) :
    createFromFile (Cfg.repaired page) (dump newfmt r) (if newfmt then BB_FILE_HEADER_SIZE else 0) =
      .ok (some { r with ow := false, sem := none }) := by
  have hW0 := h.wpos
  have hWlt := h.wlt
  have hrp : r.rp < r.W := by rw [h.hrp]; exact Nat.mod_lt _ hW0
  have hwp : r.wp < r.W := by rw [h.hwp]; exact Nat.mod_lt _ hW0
  have hsz : r.mem.toList.length = 4 * r.W := by simp [h.size]
  rw [← mkRing_toList r h.size]
  have hpos : (if newfmt = true then BB_FILE_HEADER_SIZE else 0) = (if newfmt = true then marker else []).length := by
    cases newfmt <;> rfl
  have hdump : dump newfmt r = (if newfmt = true then marker else []) ++ (toLe32 r.W ++ (toLe32 r.wp ++ (toLe32 r.rp ++
      (toLe32 RB_FILE_HEADER_VERSION ++ (toLe32 ((r.W + r.wp + r.rp + RB_FILE_HEADER_VERSION) % 4294967296) ++
        r.mem.toList))))) := by
    unfold dump ringFile
    simp only [List.append_assoc]
  obtain ⟨f1, f2, f3, f4, f5, f6⟩ := dump_fields (if newfmt = true then marker else []) (toLe32 r.W) (toLe32 r.wp)
    (toLe32 r.rp) (toLe32 RB_FILE_HEADER_VERSION) (toLe32 ((r.W + r.wp + r.rp + RB_FILE_HEADER_VERSION) % 4294967296))
    r.mem.toList rfl rfl rfl rfl rfl
  rw [hsz] at f6
  rw [hpos, hdump]
  apply createFromFile_of_fields f1 f2 f3 f4 f5 f6 hsz _ (by omega) hW0 hwp hrp hp hpg
  simp only [List.length_append, toLe32_length, hsz]
  omega

/-! ### the record loop over a well-formed ring -/

theorem read_nosem {r : Rb} (hsem : r.sem = none) (cap : Nat) :
    r.read cap = if r.magic r.rp ≠ MAGIC then (r, .error .etimedout)
      else if cap < rd32 r.mem r.rp then (r.post, .error .enobufs)
      else ((r.reclaim).1, .ok (r.copyOut r.rp (rd32 r.mem r.rp))) := by
  unfold Rb.read Rb.tryWait
  rw [hsem]
  simp only [hsem]

theorem read_nil {r : Rb} {TR : Nat} (h : Inv r [] TR) (hsem : r.sem = none) (cap : Nat) :
    r.read cap = (r, .error .etimedout) := by
  rw [read_nosem hsem, if_pos (magic_nil h)]

theorem read_cons_big {r : Rb} {TR : Nat} {c : List Nat} {cs : List (List Nat)} (h : Inv r (c :: cs) TR)
    (hsem : r.sem = none) {cap : Nat} (hc : cap < c.length) : r.read cap = (r.post, .error .enobufs) := by
  rw [read_nosem hsem, if_neg (by simp [magic_cons h]), size_cons h, if_pos hc]

theorem read_cons {r : Rb} {TR : Nat} {c : List Nat} {cs : List (List Nat)} (h : Inv r (c :: cs) TR)
    (hsem : r.sem = none) {cap : Nat} (hc : ¬ cap < c.length) : r.read cap = ((r.reclaim).1, .ok c) := by
  rw [read_nosem hsem, if_neg (by simp [magic_cons h]), size_cons h, if_neg hc, copyOut_cons h]

theorem RInv_of_Inv {r : Rb} {q : List (List Nat)} {TR : Nat} (h : Inv r q TR) (hsem : r.sem = none)
    (hbig : CHUNK_BUF ≤ 4 * r.W) : RInv r :=
  ⟨h.size, hbig, by rw [h.hrp]; exact Nat.mod_lt _ h.wpos, hsem⟩

/-- **Specification of printing**: the printer's loop over the chunks of the abstract FIFO, oldest
    first — no ring, no pointers, no magic words.  After the last chunk `qb_rb_chunk_read` reports
    `-ETIMEDOUT`, which the printer turns into `-EIO`. -/
def printChunks {σ : Type} (cfg : Cfg) (newfmt : Bool) (D : Decoder σ) : σ → List (List Nat) → List Nat → List Nat → σ × Result
  | s, [], _, out => (s, ⟨.rc EIO, out, true⟩)
  | s, c :: cs, buf, out =>
    if CHUNK_BUF < c.length then (s, ⟨.rc EIO, out, true⟩)
    else
      let buf' := c ++ buf.drop c.length
      match printRecord cfg newfmt D s buf' c.length out with
      | (s', out', some (.rc e)) => (s', ⟨.rc e, out', true⟩)
      | (s', out', some o) => (s', ⟨o, out', false⟩)
      | (s', out', none) =>
        if BB_MIN_ENTRY_SIZE < c.length then printChunks cfg newfmt D s' cs buf' out'
        else (s', ⟨.rc BB_FILE_HEADER_SIZE, out', true⟩)

theorem length_le_total (q : List (List Nat)) : q.length ≤ total q := by
  induction q with
  | nil => simp [total]
  | cons c cs ih => rw [total_cons, List.length_cons]; have := cw_ge c.length; omega

theorem printLoop_eq_chunks {σ : Type} (cfg : Cfg) (newfmt : Bool) (D : Decoder σ) :
    ∀ (q : List (List Nat)) (fuel : Nat) (s : σ) (r : Rb) (TR : Nat) (buf out : List Nat), Inv r q TR → r.sem = none →
      CHUNK_BUF ≤ 4 * r.W → q.length < fuel →
      printLoop cfg newfmt D fuel s r buf out = printChunks cfg newfmt D s q buf out := by
  intro q
  induction q with
  | nil =>
    intro fuel s r TR buf out h hsem hbig hfuel
    cases fuel with
    | zero => omega
    | succ fuel =>
      unfold printLoop printChunks
      rw [chunkRead_eq (RInv_of_Inv h hsem hbig), read_nil h hsem]
  | cons c cs ih =>
    intro fuel s r TR buf out h hsem hbig hfuel
    cases fuel with
    | zero => omega
    | succ fuel =>
      unfold printLoop printChunks
      rw [chunkRead_eq (RInv_of_Inv h hsem hbig)]
      by_cases hc : CHUNK_BUF < c.length
      · rw [read_cons_big h hsem hc, if_pos hc]
      · rw [read_cons h hsem hc, if_neg hc]
        obtain ⟨_, hinv', hsem', hW', _⟩ := reclaim_cons h
        dsimp only
        rcases hrec : printRecord cfg newfmt D s (c ++ buf.drop c.length) c.length out with ⟨s', out', o⟩
        cases o with
        | some o => cases o <;> rfl
        | none =>
          dsimp only
          by_cases hmore : BB_MIN_ENTRY_SIZE < c.length
          · rw [if_pos hmore, if_pos hmore]
            exact ih fuel s' _ _ _ out' hinv' (by rw [hsem', hsem]) (by rw [hW']; exact hbig)
              (by simp only [List.length_cons] at hfuel; omega)
          · rw [if_neg hmore, if_neg hmore]

end QbVerif.DumpLemmas
