/-
C01 — linearizability of the concurrent ring model: the ghost history `lin` (every call of
either thread, with its result, appended at ONE step inside the call: its linearisation point) is a
legal history of the abstract FIFO of C07 (Model/RingSpec.lean), ending in the FIFO state that
holds exactly the unconsumed chunks.  This file: definitions, the two transfer lemmas and the
writer's steps; Lemmas/RingConcLinR.lean: the reader's steps and the induction over schedules.

The FIFO's semaphore counts tokens the reader has taken with `sem_trywait` but whose call has not
taken effect yet (`rtokOf`): a `read` holds its token until its linearisation point (the
`read_pt` store, or the `post` that gives it back); a `peek` consumes it at its own linearisation
point, the later `reclaim` does not touch the semaphore.
-/
import QbVerif.Lemmas.RingConcR3

namespace QbVerif.RingConcLemmas
open QbVerif.Ring QbVerif.RingSpec QbVerif.RingLemmas QbVerif.RingConc

/-- tokens taken from the real semaphore by a reader call that has not taken effect yet -/
def rtokOf (pc : RPc) (prog : List ROp) : Nat :=
  match pc with
  | .idle => 0
  | .rcopy _ _ _ => 0
  | .rcRp | .rcMg _ | .rcSz _ | .rcStep _ | .rcClr _ _ | .rcDead _ _ | .rcSetRp _ =>
    (match prog with | (.pr _) :: _ => 0 | _ => 1)
  | _ => 1

/-- the abstract FIFO's semaphore -/
def semAbs (c : Conf) : Option Nat := c.rb.sem.map (· + rtokOf c.rpc c.rprog)

/-- the abstract FIFO state a configuration stands for -/
def absC (c : Conf) (q : List (List Nat)) : Fifo := ⟨c.rb.W, q, semAbs c⟩

/-- `lin` is a run of the FIFO from `f0` ending in `absC c q` with exactly the recorded results -/
def LinOk (f0 : Fifo) (c : Conf) (q : List (List Nat)) : Prop :=
  f0.run (c.lin.map (·.1)) = (absC c q, c.lin.map (·.2))

theorem Fifo.run_snoc (f : Fifo) (ops : List Op) (op : Op) :
    f.run (ops ++ [op]) = (((f.run ops).1.step op).1, (f.run ops).2 ++ [((f.run ops).1.step op).2]) := by
  induction ops generalizing f with
  | nil => simp [Fifo.run]
  | cons o os ih => simp only [List.cons_append, Fifo.run, ih]

theorem Fifo.step_write_refuse (f : Fifo) (d : List Nat) (h : f.free < d.length + MARGIN) :
    f.step (.write d) = (f, .err .eagain) := by simp only [Fifo.step, h, if_true]

theorem Fifo.step_write_ok (f : Fifo) (d : List Nat) (h : ¬ f.free < d.length + MARGIN) :
    f.step (.write d) = (({ f with q := f.q ++ [d] } : Fifo).post, .wrote d.length) := by
  simp only [Fifo.step, h, if_false]

/-- a step that appends nothing and leaves the FIFO state alone -/
theorem LinOk.silent {f0 : Fifo} {c c' : Conf} {q} (hl : LinOk f0 c q) (hW : c'.rb.W = c.rb.W)
    (hlin : c'.lin = c.lin) (hs : semAbs c' = semAbs c) : LinOk f0 c' q := by
  unfold LinOk absC at *; rw [hlin, hW, hs]; exact hl

/-- a linearisation point: the FIFO makes the same step with the same result -/
theorem LinOk.event {f0 : Fifo} {c c' : Conf} {q q'} {op : Op} {o : Out} (hl : LinOk f0 c q)
    (hW : c'.rb.W = c.rb.W) (hlin : c'.lin = c.lin ++ [(op, o)])
    (hstep : (absC c q).step op = (⟨c.rb.W, q', semAbs c'⟩, o)) : LinOk f0 c' q' := by
  unfold LinOk at *
  rw [hlin, List.map_append, List.map_append, List.map_singleton, List.map_singleton, Fifo.run_snoc, hl]
  simp only [hstep]
  unfold absC; rw [hW]

theorem semAbs_congr {c c' : Conf} (h1 : c'.rb.sem = c.rb.sem) (h2 : c'.rpc = c.rpc) (h3 : c'.rprog = c.rprog) :
    semAbs c' = semAbs c := by unfold semAbs; rw [h1, h2, h3]

/-! ### the FIFO's free-space test is the concurrent writer's -/

/-- `Fits` (room for `k = cw len` words, the writer's fact after its space test) is exactly the
    FIFO's acceptance condition -/
theorem fifo_accepts {W TR : Nat} {q : List (List Nat)} {s : Option Nat} {len : Nat}
    (hf : Fits W TR (TR + total q) (cw len)) (hs : q = [] → ∀ n, s ≠ some (n + 1)) :
    ¬ (Fifo.free ⟨W, q, s⟩ < len + MARGIN) := by
  have hm := MARGIN_eq
  have hlo := cw_lo len
  unfold Fits at hf
  unfold Fifo.free
  cases q with
  | nil =>
    simp only [total_nil, Nat.add_zero] at hf
    cases s with
    | none => simp only; omega
    | some n =>
      cases n with
      | zero => simp only; omega
      | succ n => exact absurd rfl (hs rfl n)
  | cons d ds =>
    have := cw_ge d.length
    rw [total_cons] at hf
    simp only [total_cons]
    omega

section
variable {c : Conf} {q : List (List Nat)} {op : WOp} {rest : List WOp} {f0 : Fifo}

/-- in semaphore mode an empty queue means the FIFO's semaphore is 0 -/
theorem CInv.semAbs_nil (h : CInv c q) (hq : q = []) : ∀ n, semAbs c ≠ some (n + 1) := by
  intro n e
  unfold semAbs at e
  cases hs : c.rb.sem with
  | none => rw [hs] at e; cases e
  | some k =>
    have := h.semc k hs
    rw [hq] at this
    simp only [List.length_nil] at this
    have hk : k = 0 := by omega
    have ht : rtok c.rpc = 0 := by omega
    have hidle : c.rpc = .idle := by
      cases hpc : c.rpc <;> rw [hpc] at ht <;> first | rfl | (simp [rtok] at ht)
    rw [hs, hidle, hk] at e
    simp [rtokOf] at e

/-- a writer step that appends nothing -/
theorem wlin_silent (hl : LinOk f0 c q) (hW : (wstep c).rb.W = c.rb.W) (hlin : (wstep c).lin = c.lin)
    (hsem : (wstep c).rb.sem = c.rb.sem) (hr : (wstep c).rpc = c.rpc ∧ (wstep c).rprog = c.rprog) :
    LinOk f0 (wstep c) q :=
  hl.silent hW hlin (semAbs_congr hsem hr.1 hr.2)

theorem wstep_rside (c : Conf) : (wstep c).rpc = c.rpc ∧ (wstep c).rprog = c.rprog := by
  unfold wstep
  repeat' split
  all_goals (try dsimp only)
  all_goals (repeat' split)
  all_goals first
    | exact ⟨rfl, rfl⟩
    | (cases c.rb.sem <;> exact ⟨rfl, rfl⟩)

/-- **Writer steps and the linearisation history.** -/
theorem wstep_lin (h : CInv c q) (hl : LinOk f0 c q) :
    (CInv (wstep c) q ∧ LinOk f0 (wstep c) q) ∨
    (∃ op rest, c.wprog = op :: rest ∧ CInv (wstep c) (q ++ [op.data]) ∧ LinOk f0 (wstep c) (q ++ [op.data])) := by
  have hr := wstep_rside c
  cases hp : c.wprog with
  | nil =>
    left
    have e : wstep c = c := by unfold wstep; simp only [hp]
    rw [e]; exact ⟨h, hl⟩
  | cons op rest =>
    cases hpc : c.wpc with
    | idle => exact .inl ⟨w_idle h hp hpc, wlin_silent hl (by simp [wstep, hp, hpc]) (by simp [wstep, hp, hpc]) (by simp [wstep, hp, hpc]) hr⟩
    | sfRd ws =>
      refine .inl ⟨w_sfRd h hp hpc, ?_⟩
      have hwf := WFacts_get hp h.wf
      rw [hpc] at hwf
      have h0 : wAdv c = 0 := by unfold wAdv; rw [hpc]
      by_cases hf : freeSeen c.rb ws c.rb.rp < op.data.length + MARGIN
      · have hlin : (wstep c).lin = c.lin ++ [(.write op.data, .err .eagain)] := by
          simp [wstep, hp, hpc, hf, Conf.addLin]
        have hW : (wstep c).rb.W = c.rb.W := by simp only [wstep, hp, hpc]; split <;> rfl
        have hsem : (wstep c).rb.sem = c.rb.sem := by simp only [wstep, hp, hpc]; split <;> rfl
        refine hl.event hW hlin ?_
        rw [semAbs_congr hsem hr.1 hr.2]
        -- the FIFO refuses as well
        have hfree : Fifo.free (absC c q) = freeSeen c.rb ws c.rb.rp := by
          have hu := h.used
          rw [hwf, h.hrp, freeSeen_abs c.rb (TR c) (TR c + total q) h.wpos (by omega) (by omega)]
          unfold absC Fifo.free
          cases q with
          | nil =>
            simp only [total_nil, Nat.add_zero, if_true]
            have hz := h.semAbs_nil rfl
            have hz' : ∀ n, c.rb.sem ≠ some (n + 1) := by
              intro n e
              have := h.semc _ e
              simp at this
            cases hs : c.rb.sem with
            | none => simp [semAbs, hs]
            | some k =>
              cases k with
              | zero =>
                cases hsa : semAbs c with
                | none => rfl
                | some m =>
                  cases m with
                  | zero => rfl
                  | succ m => exact absurd hsa (hz m)
              | succ k => exact absurd hs (hz' k)
          | cons d ds =>
            have := cw_ge d.length
            rw [total_cons]
            rw [if_neg (by omega)]
            simp only [total_cons]
            omega
        rw [Fifo.step_write_refuse _ _ (by rw [hfree]; exact hf)]
        rfl
      · exact wlin_silent hl (by simp only [wstep, hp, hpc]; split <;> rfl)
          (by simp [wstep, hp, hpc, hf]) (by simp only [wstep, hp, hpc]; split <;> rfl) hr
    | sfCmp ws rs b =>
      refine .inl ⟨w_sfCmp h hp hpc, wlin_silent hl ?_ ?_ ?_ hr⟩ <;>
        (simp only [wstep, hp, hpc]; split <;> rfl)
    | alWp => exact .inl ⟨w_alWp h hp hpc, wlin_silent hl (by simp [wstep, hp, hpc]) (by simp [wstep, hp, hpc]) (by simp [wstep, hp, hpc]) hr⟩
    | alSz wp => exact .inl ⟨w_alSz h hp hpc, wlin_silent hl (by simp [wstep, hp, hpc]) (by simp [wstep, hp, hpc]) (by simp [wstep, hp, hpc]) hr⟩
    | alMg wp => exact .inl ⟨w_alMg h hp hpc, wlin_silent hl (by simp [wstep, hp, hpc, Rb.setMagic]) (by simp [wstep, hp, hpc]) (by simp [wstep, hp, hpc, Rb.setMagic]) hr⟩
    | copy wp j =>
      refine .inl ⟨w_copy h hp hpc, wlin_silent hl ?_ ?_ ?_ hr⟩ <;>
        (simp only [wstep, hp, hpc]; repeat' split) <;> rfl
    | cmWp => exact .inl ⟨w_cmWp h hp hpc, wlin_silent hl (by simp [wstep, hp, hpc]) (by simp [wstep, hp, hpc]) (by simp [wstep, hp, hpc]) hr⟩
    | cmSz old => exact .inl ⟨w_cmSz h hp hpc, wlin_silent hl (by simp [wstep, hp, hpc]) (by simp [wstep, hp, hpc]) (by simp [wstep, hp, hpc]) hr⟩
    | cmStep old => exact .inl ⟨w_cmStep h hp hpc, wlin_silent hl (by simp [wstep, hp, hpc]) (by simp [wstep, hp, hpc]) (by simp [wstep, hp, hpc]) hr⟩
    | cmNext old new =>
      refine .inl ⟨w_cmNext h hp hpc, wlin_silent hl ?_ ?_ ?_ hr⟩ <;>
        (simp only [wstep, hp, hpc] <;> first | rfl | (split <;> rfl))
    | cmSetWp old new => exact .inl ⟨w_cmSetWp h hp hpc, wlin_silent hl (by simp [wstep, hp, hpc]) (by simp [wstep, hp, hpc]) (by simp [wstep, hp, hpc]) hr⟩
    | cmMg old =>
      have hwf := WFacts_get hp h.wf
      rw [hpc] at hwf
      cases hsem : c.rb.sem with
      | some n =>
        exact .inl ⟨w_cmMg_sem h hp hpc hsem, wlin_silent hl (by simp [wstep, hp, hpc, hsem, Rb.setMagic])
          (by simp [wstep, hp, hpc, hsem]) (by simp [wstep, hp, hpc, hsem, Rb.setMagic]) hr⟩
      | none =>
        refine .inr ⟨op, rest, rfl, w_cmMg_nosem h hp hpc hsem, ?_⟩
        have hW : (wstep c).rb.W = c.rb.W := by simp [wstep, hp, hpc, hsem, Conf.linWrite, Rb.setMagic]
        have hs' : (wstep c).rb.sem = c.rb.sem := by simp [wstep, hp, hpc, hsem, Conf.linWrite, Rb.setMagic]
        have hlin : (wstep c).lin = c.lin ++ [(.write op.data, .wrote op.data.length)] := by
          simp [wstep, hp, hpc, hsem, Conf.linWrite]
        refine hl.event hW hlin ?_
        rw [semAbs_congr hs' hr.1 hr.2]
        have hsa : semAbs c = none := by unfold semAbs; rw [hsem]; rfl
        rw [Fifo.step_write_ok _ _ (by
          unfold absC
          exact fifo_accepts hwf.2.1 (fun _ n e => by rw [hsa] at e; cases e))]
        unfold absC Fifo.post
        simp only [hsa, Option.map_none]
    | cmPost =>
      have hwf := WFacts_get hp h.wf
      rw [hpc] at hwf
      cases hsem : c.rb.sem with
      | none =>
        exact .inl ⟨w_cmPost_nosem h hp hpc hsem, wlin_silent hl (by simp [wstep, hp, hpc, hsem, Conf.wDone, Rb.post])
          (by simp [wstep, hp, hpc, hsem, Conf.wDone]) (by simp [wstep, hp, hpc, hsem, Conf.wDone, Rb.post]) hr⟩
      | some n =>
        refine .inr ⟨op, rest, rfl, w_cmPost_sem h hp hpc hsem, ?_⟩
        have hW : (wstep c).rb.W = c.rb.W := by simp [wstep, hp, hpc, hsem, Conf.linWrite, Conf.wDone, Rb.post]
        have hs' : (wstep c).rb.sem = some (n + 1) := by simp [wstep, hp, hpc, hsem, Conf.linWrite, Conf.wDone, Rb.post]
        have hlin : (wstep c).lin = c.lin ++ [(.write op.data, .wrote op.data.length)] := by
          simp [wstep, hp, hpc, hsem, Conf.linWrite, Conf.wDone]
        refine hl.event hW hlin ?_
        obtain ⟨hf, _⟩ := hwf (by rw [hsem]; rfl)
        have hsa' : semAbs (wstep c) = (semAbs c).map (· + 1) := by
          unfold semAbs; rw [hs', hr.1, hr.2, hsem]; simp only [Option.map_some]; congr 1; omega
        rw [Fifo.step_write_ok _ _ (by
          unfold absC
          exact fifo_accepts hf (fun hq => h.semAbs_nil hq))]
        unfold absC Fifo.post
        simp only [hsa']

end
end QbVerif.RingConcLemmas
