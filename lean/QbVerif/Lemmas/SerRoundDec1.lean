/-
Round trip, decoder half, part 1 (C14): reading the record (`recBytes`, `unle`, `signedOf`,
`cstr` against what the encoder stored), stores into the caller's buffer, the "synchronised"
states of `qb_vsnprintf_deserialize` between two items (`DeSync`) and inside a conversion
(`DeDir`), and the big-step behaviour of the characters that do not end a conversion: literal
text, the opening '%', flag / width / precision characters, `*`, length modifiers.
-/
import QbVerif.Lemmas.SerBig

namespace QbVerif.Ser
open QbVerif.Gen

/-! ### reading what the encoder stored -/

theorem unle_le (n x : Nat) : unle (le n x) = x % 256 ^ n := by
  induction n generalizing x with
  | zero => simp [le, unle, Nat.mod_one]
  | succ n ih =>
    simp only [le, unle, ih, Nat.pow_succ]
    have h1 : (x % 256).toUInt8.toNat = x % 256 := by
      simp only [Nat.toUInt8, UInt8.toNat_ofNat']
      omega
    rw [h1, Nat.mul_comm (256 ^ n) 256, Nat.mod_mul]

theorem recBytes_of_drop (rec A Rr : Bytes) (D : Nat) (h : rec.drop D = A ++ Rr) :
    recBytes rec D A.length = A := by
  unfold recBytes
  apply List.ext_getElem
  · simp
  · intro k h1 h2
    simp only [List.getElem_map, List.getElem_range]
    have : rec[D + k]? = (A ++ Rr)[k]? := by rw [← h, List.getElem?_drop]
    simp only [List.getD_eq_getElem?_getD, this]
    rw [List.getElem?_append_left h2]
    simp [h2]

theorem getD_of_drop (rec Rr : Bytes) (a : UInt8) (D : Nat) (h : rec.drop D = a :: Rr) : rec.getD D 0 = a := by
  have : rec[D + 0]? = (a :: Rr)[0]? := by rw [← h, List.getElem?_drop]
  simp only [Nat.add_zero] at this
  simp [List.getD_eq_getElem?_getD, this]

theorem drop_after (rec A Rr : Bytes) (D : Nat) (h : rec.drop D = A ++ Rr) : rec.drop (D + A.length) = Rr := by
  rw [← List.drop_drop, h, List.drop_left]

theorem Arg.slot_lt (v : Arg) : v.slot < 2 ^ 64 := by
  cases v <;> simp only [Arg.slot, twos] <;> omega

/-- the int stored for a `*` is read back as the value passed -/
theorem star_readback (w : Int) (hw : int32 w = true) :
    signedOf 32 (unle (le SIZEOF_INT (Arg.star w).slot)) = w := by
  rw [unle_le]
  simp only [int32, Bool.and_eq_true, decide_eq_true_eq] at hw
  simp only [Arg.slot, twos, signedOf, SIZEOF_INT]
  simp only [Nat.reducePow, Nat.reduceSub, Int.reducePow] at hw ⊢
  omega

theorem cstr_append_zero (S Rr : Bytes) (h : (0 : UInt8) ∉ S) : cstr (S ++ 0 :: Rr) = S := by
  unfold cstr
  induction S with
  | nil => simp
  | cons a S ih =>
    have ha : a ≠ 0 := fun e => h (by simp [e])
    simp only [List.cons_append, List.takeWhile_cons, ha, ne_eq, not_false_eq_true, decide_true, if_true]
    rw [ih (fun hm => h (by simp [hm]))]

theorem cstr_no_zero (S : Bytes) : (0 : UInt8) ∉ cstr S := by
  unfold cstr
  induction S with
  | nil => simp
  | cons a S ih =>
    by_cases ha : a = 0
    · simp [ha]
    · simp only [List.takeWhile_cons, ne_eq, ha, not_false_eq_true, decide_true, if_true, List.mem_cons]
      exact fun h => h.elim (fun e => ha e.symm) ih

theorem storedStr_no_zero (d : Dir) (v : Arg) : (0 : UInt8) ∉ storedStr d v := by
  unfold storedStr
  cases hv : v.asStr with
  | none => show (0 : UInt8) ∉ nullText; decide
  | some s =>
    have hs : (0 : UInt8) ∉ s := by
      cases v <;> simp only [Arg.asStr] at hv <;> try cases hv
      rename_i o
      cases o <;> simp only [Arg.asStr] at hv <;> try cases hv
      exact cstr_no_zero _
    simp only
    split
    · split
      · exact fun h => hs (List.mem_of_mem_take h)
      · exact hs
    · exact hs

/-! ### stores into the caller's buffer -/

theorem Buf.store_take (b : Buf) (i : Nat) (bs : Bytes) (h : i + bs.length ≤ b.data.length) :
    (b.store i bs).data.take (i + bs.length) = b.data.take i ++ bs ∧
    (b.store i bs).data.length = b.data.length := by
  refine ⟨?_, Buf.store_length b i bs h⟩
  unfold Buf.store
  split
  · rename_i he
    simp only [List.isEmpty_iff] at he
    subst he
    simp
  · simp only [writeAt]
    have h0 : i - b.data.length = 0 := by omega
    rw [h0]
    simp only [List.replicate_zero, List.append_nil]
    apply List.take_left'
    simp only [List.length_append, List.length_take]
    omega

theorem take_of_take_succ (l T : Bytes) (x : UInt8) (h : l.take (T.length + 1) = T ++ [x]) : l.take T.length = T := by
  have : (l.take (T.length + 1)).take T.length = l.take T.length := by
    rw [List.take_take]; congr 1; omega
  rw [← this, h, List.take_left' rfl]

/-! ### synchronised decoder states -/

/-- between two items: text `T` is in the buffer and terminated, `run` is the literal text seen
    since, `D` is `data_pos` -/
structure DeSync (strLen : Nat) (s : DeSt) (T run : Bytes) (D : Nat) : Prop where
  ret : s.ret = none
  dir : s.inDir = false
  loc : s.loc = T.length
  run : s.run = run
  dpos : s.dpos = D
  len : s.buf.data.length = strLen
  data : s.buf.data.take (T.length + 1) = T ++ [0]

/-- inside a conversion: `M` is the mini format so far -/
structure DeDir (strLen : Nat) (s : DeSt) (T : Bytes) (D : Nat) (M : Bytes) (tl tll : Bool) : Prop where
  ret : s.ret = none
  dir : s.inDir = true
  loc : s.loc = T.length
  dpos : s.dpos = D
  len : s.buf.data.length = strLen
  data : s.buf.data.take T.length = T
  mini : s.mini = M
  tl : s.tl = tl
  tll : s.tll = tll

section
variable (render : Render) (rec : Bytes) (strLen : Nat)

theorem deRun_cons (s : DeSt) (c : UInt8) (rest : Bytes) :
    deRun R render rec strLen s (c :: rest) = deRun R render rec strLen (deStep R render rec strLen s c rest.head?) rest :=
  rfl

theorem miniFull_false (s : DeSt) (h : s.mini.length ≤ 17) : miniFull R s = false := by
  have : ¬ (s.mini.length > MINI_FORMAT_STR_LEN - 3) := by simp only [MINI_FORMAT_STR_LEN]; omega
  simp [miniFull, this]

/-- literal text is only remembered (`format … p`) -/
theorem deRun_lit (bs tail : Bytes) : ∀ (s : DeSt) (T run : Bytes) (D : Nat), DeSync strLen s T run D →
    (∀ c ∈ bs, c ≠ 0x25) →
    ∃ s', deRun R render rec strLen s (bs ++ tail) = deRun R render rec strLen s' tail ∧
      DeSync strLen s' T (run ++ bs) D := by
  induction bs with
  | nil => intro s T run D h _; exact ⟨s, rfl, by simpa using h⟩
  | cons c cs ih =>
    intro s T run D h hb
    have hc : c ≠ 0x25 := hb c (by simp)
    have hs : deStep R render rec strLen s c (cs ++ tail).head? = { s with run := s.run ++ [c] } := by
      simp [deStep, h.ret, h.dir, hc]
    have h1 : DeSync strLen (deStep R render rec strLen s c (cs ++ tail).head?) T (run ++ [c]) D := by
      rw [hs]
      exact ⟨h.ret, h.dir, h.loc, by simp [h.run], h.dpos, h.len, h.data⟩
    obtain ⟨s', e, hs'⟩ := ih _ T _ D h1 (fun c hc' => hb c (by simp [hc']))
    exact ⟨s', by rw [List.cons_append, deRun_cons, e], by simpa using hs'⟩

/-- the '%' that opens a conversion (or "%%"): the pending literal text is copied out -/
theorem deStep_enter (s : DeSt) (T run : Bytes) (D : Nat) (pk : Option UInt8) (h : DeSync strLen s T run D)
    (hfit : (T ++ run).length < strLen) :
    DeDir strLen (deStep R render rec strLen s 0x25 pk) (T ++ run) D [0x25] false false := by
  simp only [List.length_append] at hfit
  have h1 : subSz strLen 1 = strLen - 1 := subSz_of_le (by omega)
  have h2 : subSz (strLen - 1) s.loc = strLen - 1 - s.loc := subSz_of_le (by rw [h.loc]; omega)
  have hlen : min s.run.length (strLen - 1 - s.loc) = s.run.length := by rw [h.loc, h.run]; omega
  have hs : deStep R render rec strLen s 0x25 pk =
      { s with buf := s.buf.store s.loc s.run, loc := s.loc + s.run.length, run := [], mini := [0x25],
               tl := false, tll := false, inDir := true } := by
    simp [deStep, h.ret, h.dir, R, Cfg.repaired, h1, h2, hlen]
  rw [hs]
  have hst := Buf.store_take s.buf s.loc s.run (by rw [h.loc, h.run, h.len]; omega)
  refine ⟨h.ret, rfl, by simp [h.loc, h.run], h.dpos, hst.2.trans h.len, ?_, rfl, rfl, rfl⟩
  have hT : s.buf.data.take s.loc = T := by rw [h.loc]; exact take_of_take_succ _ _ _ h.data
  have e : (T ++ run).length = s.loc + s.run.length := by simp [h.loc, h.run]
  show (s.buf.store s.loc s.run).data.take (T ++ run).length = T ++ run
  rw [e, hst.1, hT, h.run]

/-- characters copied into the mini format: flags, digits, '.' -/
def isPush (c : UInt8) : Prop := classify c = .flag ∨ classify c = .dot ∨ classify c = .digit

theorem deStep_push (s : DeSt) (T : Bytes) (D : Nat) (M : Bytes) (tl tll : Bool) (c : UInt8) (pk : Option UInt8)
    (h : DeDir strLen s T D M tl tll) (hM : M.length ≤ 17) (hc : isPush c) :
    DeDir strLen (deStep R render rec strLen s c pk) T D (M ++ [c]) tl tll := by
  have hmf := miniFull_false s (by rw [h.mini]; exact hM)
  have hs : deStep R render rec strLen s c pk = miniPush R s c := by
    rcases hc with hc | hc | hc <;> simp [deStep, h.ret, h.dir, hmf, hc]
  rw [hs]
  exact ⟨h.ret, h.dir, h.loc, h.dpos, h.len, h.data, by simp [miniPush, h.mini], h.tl, h.tll⟩

theorem deRun_push (cs tail : Bytes) : ∀ (s : DeSt) (T : Bytes) (D : Nat) (M : Bytes) (tl tll : Bool),
    DeDir strLen s T D M tl tll → M.length + cs.length ≤ 18 → (∀ c ∈ cs, isPush c) →
    ∃ s', deRun R render rec strLen s (cs ++ tail) = deRun R render rec strLen s' tail ∧
      DeDir strLen s' T D (M ++ cs) tl tll := by
  induction cs with
  | nil => intro s T D M tl tll h _ _; exact ⟨s, rfl, by simpa using h⟩
  | cons c cs ih =>
    intro s T D M tl tll h hM hc
    simp only [List.length_cons] at hM
    have h1 := deStep_push render rec strLen s T D M tl tll c (cs ++ tail).head? h (by omega) (hc c (by simp))
    obtain ⟨s', e, hs'⟩ := ih _ T D _ tl tll h1 (by simp only [List.length_append, List.length_singleton]; omega)
      (fun c hc' => hc c (by simp [hc']))
    exact ⟨s', by rw [List.cons_append, deRun_cons, e], by simpa using hs'⟩

/-- `*`: the int is read from the record and printed into the mini format; a negative value
    behind a '.' removes the '.' instead -/
theorem deStep_star (s : DeSt) (T : Bytes) (D : Nat) (M : Bytes) (tl tll : Bool) (pk : Option UInt8) (w : Int)
    (Rr : Bytes) (h : DeDir strLen s T D M tl tll) (hM : M.length ≤ 17) (hw : int32 w = true)
    (hrec : rec.drop D = le SIZEOF_INT (Arg.star w).slot ++ Rr) :
    DeDir strLen (deStep R render rec strLen s 0x2a pk) T (D + SIZEOF_INT)
      (if w < 0 ∧ M.getLast? = some 0x2e then M.dropLast else M ++ decInt w) tl tll := by
  have hmf := miniFull_false s (by rw [h.mini]; exact hM)
  have hcls : classify 0x2a = .star := by decide
  have hn : R.negPrec = true := rfl
  have hrb : recBytes rec s.dpos SIZEOF_INT = le SIZEOF_INT (Arg.star w).slot := by
    have := recBytes_of_drop rec _ Rr D hrec
    rw [le_length] at this
    rw [h.dpos]; exact this
  have hv : signedOf 32 (unle (recBytes rec s.dpos SIZEOF_INT)) = w := by rw [hrb]; exact star_readback w hw
  by_cases hc : w < 0 ∧ M.getLast? = some 0x2e
  · have hs : deStep R render rec strLen s 0x2a pk = { s with dpos := s.dpos + SIZEOF_INT, mini := s.mini.dropLast } := by
      simp [deStep, h.ret, h.dir, hmf, hcls, hv, hn, h.mini, hc.1, hc.2]
    rw [hs, if_pos hc]
    exact ⟨h.ret, h.dir, h.loc, by simp [h.dpos], h.len, h.data, by simp [h.mini], h.tl, h.tll⟩
  · have hs : deStep R render rec strLen s 0x2a pk =
        { s with dpos := s.dpos + SIZEOF_INT, mini := s.mini ++ decInt w,
                 oob := s.oob || decide (s.mini.length > MINI_FORMAT_STR_LEN) } := by
      have hc' : ¬ (w < 0 ∧ s.mini.getLast? = some 0x2e) := by rw [h.mini]; exact hc
      simp only [deStep, h.ret, h.dir, hmf, hcls, hv, hn]
      simp only [Option.isSome_none, Bool.false_eq_true, if_false, Bool.not_true, Bool.true_and,
        Bool.and_eq_true, decide_eq_true_eq, hc']
    rw [hs, if_neg hc]
    exact ⟨h.ret, h.dir, h.loc, by simp [h.dpos], h.len, h.data, by simp [h.mini], h.tl, h.tll⟩

/-! ### length modifiers -/

/-- `type_long` / `type_longlong` of the decoder when the conversion character is reached
    (after "ll" both are set: the second 'l' takes the `case 'l'` branch again) -/
def deTl : LenMod → Bool
  | .l | .ll => true
  | _ => false

def deTll : LenMod → Bool
  | .ll | .z | .t | .j => true
  | _ => false

theorem deStep_modL (s : DeSt) (T : Bytes) (D : Nat) (M : Bytes) (tl tll : Bool) (pk : Option UInt8)
    (h : DeDir strLen s T D M tl tll) (hM : M.length ≤ 17) :
    DeDir strLen (deStep R render rec strLen s 0x6c pk) T D (M ++ [0x6c])
      (if pk = some 0x6c then false else true) (if pk = some 0x6c then true else tll) := by
  have hmf := miniFull_false s (by rw [h.mini]; exact hM)
  have hcls : classify 0x6c = .modL := by decide
  by_cases hp : pk = some 0x6c
  · have hs : deStep R render rec strLen s 0x6c pk = { miniPush R s 0x6c with tl := false, tll := true } := by
      simp [deStep, h.ret, h.dir, hmf, hcls, hp]
    rw [hs]
    simp only [hp, if_true]
    exact ⟨h.ret, h.dir, h.loc, h.dpos, h.len, h.data, by simp [miniPush, h.mini], rfl, rfl⟩
  · have hs : deStep R render rec strLen s 0x6c pk = { miniPush R s 0x6c with tl := true } := by
      simp [deStep, h.ret, h.dir, hmf, hcls, hp]
    rw [hs]
    simp only [hp, if_false]
    exact ⟨h.ret, h.dir, h.loc, h.dpos, h.len, h.data, by simp [miniPush, h.mini], rfl, h.tll⟩

theorem deRun_mod (m : LenMod) (conv : UInt8) (tail : Bytes) (s : DeSt) (T : Bytes) (D : Nat) (M : Bytes)
    (h : DeDir strLen s T D M false false) (hM : M.length + (modChars m).length ≤ 17) (hconv : conv ≠ 0x6c) :
    ∃ s', deRun R render rec strLen s (modChars m ++ (conv :: tail)) = deRun R render rec strLen s' (conv :: tail) ∧
      DeDir strLen s' T D (M ++ modChars m) (deTl m) (deTll m) := by
  have hmf := miniFull_false s (by rw [h.mini]; omega)
  cases m with
  | none => exact ⟨s, rfl, by simpa [modChars, deTl, deTll] using h⟩
  | l =>
    refine ⟨deStep R render rec strLen s 0x6c (some conv), rfl, ?_⟩
    have h1 := deStep_modL render rec strLen s T D M false false (some conv) h (by omega)
    have hp : ¬ (some conv = some (0x6c : UInt8)) := by simpa using hconv
    simpa only [hp, if_false, modChars, deTl, deTll] using h1
  | ll =>
    simp only [modChars, List.length_cons, List.length_nil] at hM
    refine ⟨deStep R render rec strLen (deStep R render rec strLen s 0x6c (some 0x6c)) 0x6c (some conv), rfl, ?_⟩
    have h1 := deStep_modL render rec strLen s T D M false false (some 0x6c) h (by omega)
    simp only [if_true] at h1
    have h2 := deStep_modL render rec strLen _ T D _ false true (some conv) h1
      (by simp only [List.length_append, List.length_singleton]; omega)
    have hp : ¬ (some conv = some (0x6c : UInt8)) := by simpa using hconv
    simpa only [hp, if_false, modChars, deTl, deTll, List.append_assoc, List.cons_append, List.nil_append] using h2
  | z =>
    have hcls : classify 0x7a = .modZ := by decide
    refine ⟨deStep R render rec strLen s 0x7a (some conv), rfl, ?_⟩
    have hs : deStep R render rec strLen s 0x7a (some conv) = { miniPush R s 0x7a with tl := false, tll := true } := by
      simp [deStep, h.ret, h.dir, hmf, hcls, zIsLL, SIZEOF_SIZE_T, SIZEOF_LLONG]
    rw [hs]
    exact ⟨h.ret, h.dir, h.loc, h.dpos, h.len, h.data, by simp [miniPush, h.mini, modChars], rfl, rfl⟩
  | t =>
    have hcls : classify 0x74 = .modT := by decide
    refine ⟨deStep R render rec strLen s 0x74 (some conv), rfl, ?_⟩
    have hs : deStep R render rec strLen s 0x74 (some conv) = { miniPush R s 0x74 with tll := true } := by
      simp [deStep, h.ret, h.dir, hmf, hcls, tIsLL, SIZEOF_PTRDIFF, SIZEOF_LLONG]
    rw [hs]
    exact ⟨h.ret, h.dir, h.loc, h.dpos, h.len, h.data, by simp [miniPush, h.mini, modChars], h.tl, rfl⟩
  | j =>
    have hcls : classify 0x6a = .modJ := by decide
    refine ⟨deStep R render rec strLen s 0x6a (some conv), rfl, ?_⟩
    have hs : deStep R render rec strLen s 0x6a (some conv) = { miniPush R s 0x6a with tll := true } := by
      simp [deStep, h.ret, h.dir, hmf, hcls, jIsLL, SIZEOF_INTMAX, SIZEOF_LLONG]
    rw [hs]
    exact ⟨h.ret, h.dir, h.loc, h.dpos, h.len, h.data, by simp [miniPush, h.mini, modChars], h.tl, rfl⟩

end
end QbVerif.Ser
